(* The loader model on ONE complete message, characterised exactly.

   For every byte string d (all bytes < 256) that [have_message] frames as a complete
   message:
       load_message accepts d
         <->  the framed prefix of d is the specification encoding of an abstract
              message m that is LOOSELY well formed ([wf_msg_x]) and asks for no more
              descriptors than are available.
   [wf_msg_x] is [wf_msg] (Proofs/CodecMessage.v) with exactly the three recorded
   relaxations of the C code:
     F2    DESTINATION / SENDER are judged by the model's bus-name scanner
           ([validate_bus_name], which accepts degenerate unique names);
     F11   signatures (body signature, SIGNATURE values, variant signatures) are
           judged by the C automaton ([validate_signature], array nesting counted
           over consecutive 'a' only);
     FD65  the elements of an array of fixed-size elements are not counted as one
           more nesting level ([wfx], Proofs/BodySound.v).
   Part A re-proves validator completeness (BodyComplete.vb_enc) for the relaxed
   predicate [wfx]; parts B-D lift it to header fields and messages; part E is the
   soundness direction with [wf_msg_x] as conclusion; part F the equivalence
   ([loader_characterisation]); part G shows wf_msg = wf_msg_x /\ msg_strict
   ([wf_msg_iff]); part H relates the loader to the specification decoder
   ([loader_vs_decoder]). *)
From DV Require Import Lib.Base Gen.Tables Wire.Body Wire.Message Wire.Utf8 Spec.Codec Spec.NamesSpec Spec.Utf8Spec Wire.HeaderEdit
  Proofs.CodecBasics Proofs.CodecWf Proofs.CodecRoundtrip Proofs.CodecMessage Proofs.BodyCursor Proofs.BodyVbEq Proofs.BodyComplete
  Proofs.BodyLocal Proofs.NamesProofs Proofs.Utf8Proofs Proofs.SigRoundtrip Proofs.SigAutomaton Proofs.LoaderProofs Proofs.LoaderComplete
  Proofs.BodySound Proofs.LoaderSound Proofs.WireClean.
From Coq Require Import ZArith ZifyBool ZifyN ZifyNat Arith.
Local Open Scope N_scope.
Ltac Zify.zify_post_hook ::= Z.div_mod_to_equations.

(* ==== A. the validator accepts the canonical encoding of every loosely well-formed value ==== *)
Lemma enc_nonempty_x le : forall v depth pos, wfx le depth pos v = true -> 0 < nlen (enc le v pos).
Proof.
  induction v as [c n|c s|et vs IH|fs IH|k x IHk IHx|t x IHx] using val_ind'; intros depth pos H;
    [cbn [wfx] in H | cbn [wfx] in H | rewrite wfx_arr in H | rewrite wfx_struct in H | rewrite wfx_dict in H | cbn [wfx] in H];
    apply andb_true_iff in H; destruct H as [_ H].
  - rewrite enc_num. destruct (fixed_size c) as [sz|] eqn:Hsz; [|discriminate].
    apply fixed_size_pos in Hsz. rewrite nlen_app, nlen_zeros, bytes_of_length. lia.
  - rewrite enc_str. destruct (c =? 103).
    + rewrite nlen_cons. lia.
    + rewrite !nlen_app, nlen_zeros, bytes_of_length. lia.
  - rewrite enc_arr. cbv zeta. rewrite !nlen_app, nlen_zeros, bytes_of_length. lia.
  - rewrite enc_struct. destruct fs as [|f fs']; [discriminate|]. cbn [negb andb wfxs] in H.
    apply andb_true_iff in H. destruct H as [Hf _]. inversion IH as [|? ? Pf _]; subst.
    specialize (Pf _ _ Hf). cbn [encs]. rewrite !nlen_app. lia.
  - rewrite enc_dict. apply andb_true_iff in H. destruct H as [_ H]. cbn [wfxs] in H.
    apply andb_true_iff in H. destruct H as [Hk _]. specialize (IHk _ _ Hk). cbn [encs]. rewrite !nlen_app. lia.
  - rewrite enc_var. cbv zeta. rewrite nlen_app, nlen_cons. lia.
Qed.


Lemma wfxs_heights le : forall vs depth pos,
  Forall (fun v => forall depth pos, wfx le depth pos v = true -> N.of_nat (height v) + depth <= 65) vs ->
  wfxs le vs depth pos = true -> vs <> [] -> N.of_nat (heights vs) + depth <= 65.
Proof.
  induction vs as [|x r IH]; intros depth pos HF Hw Hne; [congruence|].
  inversion HF as [|? ? Hx Hr]; subst. cbn [wfxs] in Hw. apply andb_true_iff in Hw. destruct Hw as [Hwx Hwr].
  rewrite heights_cons. specialize (Hx _ _ Hwx).
  destruct r as [|y r'].
  - cbn [heights fold_right]. lia.
  - specialize (IH depth _ Hr Hwr ltac:(discriminate)). lia.
Qed.

Lemma fixed_heights et : forall vs, is_fixed_ty et = true -> forallb (fun x => ty_eqb (ty_of_val x) et) vs = true -> heights vs = 0%nat.
Proof.
  induction vs as [|x r IH]; intros Hf Ht; [reflexivity|]. cbn [forallb] in Ht. apply andb_true_iff in Ht. destruct Ht as [T1 T2].
  rewrite heights_cons, (IH Hf T2). pose proof (fixed_elems_leaf et x Hf T1) as Hl. destruct x; try discriminate; reflexivity.
Qed.

Lemma wfx_height le : forall v depth pos, wfx le depth pos v = true -> N.of_nat (height v) + depth <= 65.
Proof.
  induction v as [c n|c s|et vs IH|fs IH|k x IHk IHx|t x IHx] using val_ind'; intros depth pos H;
    [cbn [wfx] in H | cbn [wfx] in H | rewrite wfx_arr in H | rewrite wfx_struct in H | rewrite wfx_dict in H | cbn [wfx] in H];
    apply andb_true_iff in H; destruct H as [Hd H]; unfold max_value_depth in Hd.
  - cbn [height]. lia.
  - cbn [height]. lia.
  - apply andb_true_iff in H. destruct H as [H Hws]. apply andb_true_iff in H. destruct H as [Hty _]. cbn [height]. fold (heights vs).
    destruct (is_fixed_ty et) eqn:Hf; [rewrite (fixed_heights et vs Hf Hty); lia|].
    destruct vs as [|v0 vs']; [cbn [heights fold_right]; lia|].
    pose proof (wfxs_heights le (v0 :: vs') (depth + 1) _ IH Hws ltac:(discriminate)). lia.
  - apply andb_true_iff in H. destruct H as [_ Hws]. cbn [height]. fold (heights fs).
    destruct fs as [|v0 fs']; [cbn [heights fold_right]; lia|].
    pose proof (wfxs_heights le (v0 :: fs') (depth + 1) _ IH Hws ltac:(discriminate)). lia.
  - apply andb_true_iff in H. destruct H as [_ Hws]. cbn [height].
    pose proof (wfxs_heights le [k; x] (depth + 1) _ (Forall_cons k IHk (Forall_cons x IHx (Forall_nil _))) Hws ltac:(discriminate)) as Hh.
    cbn [heights fold_right] in Hh. lia.
  - apply andb_true_iff in H. destruct H as [_ Hwx]. specialize (IHx _ _ Hwx). cbn [height]. lia.
Qed.


Definition VBX (le : bool) (v : val) : Prop :=
  forall d depth pos rest, wfx le depth pos v = true -> wire_ok v = true -> (height v < d)%nat ->
    vb le d (ty_of_val v) depth (curof pos (enc le v pos ++ rest)) = inl (curof (pos + nlen (enc le v pos)) rest).

Lemma crem_nonzero_x le v depth pos rest : wfx le depth pos v = true -> (crem (curof pos (enc le v pos ++ rest)) =? 0) = false.
Proof. intros H. pose proof (enc_nonempty_x le v depth pos H). unfold curof. cbn [crem]. rewrite nlen_app. lia. Qed.

Lemma ty_alignment_spec_x le v depth pos : wfx le depth pos v = true ->
  ty_alignment (ty_of_val v) = spec_align (ty_of_val v) /\
  (spec_align (ty_of_val v) = 1 \/ spec_align (ty_of_val v) = 2 \/ spec_align (ty_of_val v) = 4 \/ spec_align (ty_of_val v) = 8).
Proof.
  destruct v as [c n|c s|et vs|fs|k x|t x]; intros H; cbn [ty_of_val ty_alignment spec_align]; try (split; [reflexivity|lia]).
  - cbn [wfx] in H. apply andb_true_iff in H. destruct H as [_ H]. destruct (fixed_size c) as [sz|] eqn:Hsz; [|discriminate].
    destruct (fixed_tables c sz Hsz) as (_ & Ha & Hs). split; [exact Ha | exact Hs].
  - cbn [wfx] in H. apply andb_true_iff in H. destruct H as [_ H].
    destruct (c =? 115) eqn:E1; [apply N.eqb_eq in E1; subst c; split; [vm_compute; reflexivity | cbn; lia]|].
    destruct (c =? 111) eqn:E2; [apply N.eqb_eq in E2; subst c; split; [vm_compute; reflexivity | cbn; lia]|].
    destruct (c =? 103) eqn:E3; [apply N.eqb_eq in E3; subst c; split; [vm_compute; reflexivity | cbn; lia]|discriminate].
Qed.

Lemma vbs_encs_x le : forall vs, Forall (VBX le) vs ->
  forall d depth pos rest, wfxs le vs depth pos = true -> forallb wire_ok vs = true -> (heights vs < d)%nat ->
    vbs le d (map ty_of_val vs) depth (curof pos (encs le vs pos ++ rest)) = inl (curof (pos + nlen (encs le vs pos)) rest).
Proof.
  induction 1 as [|x r Hx Hr IH]; intros d depth pos rest Hw Hk Hh.
  - cbn. rewrite N.add_0_r. reflexivity.
  - cbn [wfxs] in Hw. apply andb_true_iff in Hw. destruct Hw as [Hwx Hwr].
    cbn [forallb] in Hk. apply andb_true_iff in Hk. destruct Hk as [Hkx Hkr].
    rewrite heights_cons in Hh. cbn [map vbs encs]. rewrite <- app_assoc.
    rewrite (Hx d depth pos _ Hwx Hkx) by lia.
    rewrite (IH d depth _ rest Hwr Hkr) by lia. rewrite nlen_app. cur_eq. lia.
Qed.

Lemma vb_elems_encs_x le et : forall vs, Forall (VBX le) vs ->
  forall d depth n pos rest array_end, wfxs le vs (depth + 1) pos = true -> forallb wire_ok vs = true ->
    forallb (fun x => ty_eqb (ty_of_val x) et) vs = true -> (maxdepth <? depth + 1) = false ->
    (heights vs < d)%nat -> (length vs < n)%nat -> array_end = pos + nlen (encs le vs pos) ->
    vb_elems le d et depth array_end n (curof pos (encs le vs pos ++ rest)) = inl (curof array_end rest).
Proof.
  induction 1 as [|x r Hx Hr IH]; intros d depth n pos rest array_end Hw Hk Ht Hd Hh Hn He.
  - destruct n as [|n]; [lia|]. cbn [vb_elems encs curof cpos app]. cbn [encs nlen length] in He.
    replace (pos <? array_end) with false by (unfold nlen in He; cbn in He; lia). subst array_end. cbn. rewrite N.add_0_r. reflexivity.
  - cbn [wfxs] in Hw. apply andb_true_iff in Hw. destruct Hw as [Hwx Hwr].
    cbn [forallb] in Hk. apply andb_true_iff in Hk. destruct Hk as [Hkx Hkr].
    cbn [forallb] in Ht. apply andb_true_iff in Ht. destruct Ht as [Htx Htr]. apply ty_eqb_eq in Htx.
    rewrite heights_cons in Hh. destruct n as [|n]; [lia|]. cbn [vb_elems encs]. cbn [curof cpos].
    pose proof (enc_nonempty_x le x _ _ Hwx) as Hne. cbn [encs] in He. rewrite nlen_app in He.
    replace (pos <? array_end) with true by lia. rewrite Hd. rewrite <- app_assoc. subst et.
    fold (curof pos (enc le x pos ++ encs le r (pos + nlen (enc le x pos)) ++ rest)).
    rewrite (Hx d (depth + 1) pos _ Hwx Hkx) by lia.
    apply (IH d depth n _ rest array_end Hwr Hkr Htr Hd); [lia | cbn [length] in Hn; lia | lia].
Qed.

Lemma length_le_encs_x le : forall vs depth pos, wfxs le vs depth pos = true -> N.of_nat (length vs) <= nlen (encs le vs pos).
Proof.
  induction vs as [|x r IH]; intros depth pos H; [cbn; lia|].
  cbn [wfxs] in H. apply andb_true_iff in H. destruct H as [Hx Hr].
  pose proof (enc_nonempty_x le x _ _ Hx). specialize (IH _ _ Hr). cbn [encs length]. rewrite nlen_app. lia.
Qed.

Lemma wfxs_depth le x r depth pos : wfxs le (x :: r) depth pos = true -> (depth <=? max_value_depth) = true.
Proof.
  cbn [wfxs]. intros H. apply andb_true_iff in H. destruct H as [H _].
  destruct x; cbn [wfx] in H; apply andb_true_iff in H; destruct H as [H _]; exact H.
Qed.

Lemma fixed_elems_x le c sz : fixed_size c = Some sz -> type_fixed c = true ->
  forall vs depth start, start mod sz = 0 -> wfxs le vs depth start = true ->
    forallb (fun x => ty_eqb (ty_of_val x) (TBasic c)) vs = true ->
    encs le vs start = flat_map (fun n => bytes_of le (N.to_nat sz) n) (nums_of vs) /\
    nlen (encs le vs start) = N.of_nat (length vs) * sz /\ length (nums_of vs) = length vs /\
    Forall (fun n => n < 256 ^ sz /\ (c = 98 -> n <= 1)) (nums_of vs).
Proof.
  intros Hsz Hfx. destruct (fixed_tables c sz Hsz) as (_ & _ & Hs).
  induction vs as [|x r IH]; intros depth start Hal Hw Ht.
  - cbn. repeat split; try lia; try constructor.
  - cbn [wfxs] in Hw. apply andb_true_iff in Hw. destruct Hw as [Hwx Hwr].
    cbn [forallb] in Ht. apply andb_true_iff in Ht. destruct Ht as [Htx Htr]. apply ty_eqb_eq in Htx.
    destruct x as [c' n|c' s0| | | | ]; cbn [ty_of_val] in Htx; try discriminate.
    + inversion Htx; subst c'. cbn [wfx] in Hwx. apply andb_true_iff in Hwx. destruct Hwx as [_ Hwx]. rewrite Hsz in Hwx.
      apply andb_true_iff in Hwx. destruct Hwx as [Hn Hb].
      assert (He : enc le (VNum c n) start = bytes_of le (N.to_nat sz) n).
      { rewrite enc_num, Hsz. rewrite (aligned_no_pad start sz Hs Hal). reflexivity. }
      assert (Hl : nlen (enc le (VNum c n) start) = sz) by (rewrite He, bytes_of_length; lia).
      rewrite Hl in Hwr.
      destruct (IH depth (start + sz) (aligned_step start sz Hs Hal) Hwr Htr) as (E1 & E2 & E3 & E4).
      cbn [encs nums_of flat_map length]. rewrite Hl, He, E1. repeat split.
      * rewrite nlen_app, bytes_of_length. rewrite <- E1, E2. lia.
      * lia.
      * constructor; [split; lia | exact E4].
    + (* a string-like value cannot have a fixed-size type code *)
      inversion Htx; subst c'. exfalso. cbn [wfx] in Hwx. apply andb_true_iff in Hwx. destruct Hwx as [_ Hwx].
      destruct (c =? 115) eqn:E1; [apply N.eqb_eq in E1; subst c; vm_compute in Hfx; discriminate|].
      destruct (c =? 111) eqn:E2; [apply N.eqb_eq in E2; subst c; vm_compute in Hfx; discriminate|].
      destruct (c =? 103) eqn:E3; [apply N.eqb_eq in E3; subst c; vm_compute in Hfx; discriminate|discriminate].
Qed.

Theorem vb_enc_x le : forall v, VBX le v.
Proof.
  induction v as [c n|c s|et vs IH|fs IH|k x IHk IHx|t x IHx] using val_ind'; intros d depth pos rest Hw Hk Hh;
    pose proof (crem_nonzero_x le _ depth pos rest Hw) as Hnz; destruct d as [|d]; try lia.
  - (* fixed-size *)
    cbn [wfx] in Hw. apply andb_true_iff in Hw. destruct Hw as [Hd Hw].
    destruct (fixed_size c) as [sz|] eqn:Hsz; [|discriminate]. apply andb_true_iff in Hw. destruct Hw as [Hn Hb].
    destruct (fixed_tables c sz Hsz) as (Hfx & Hal & Hs). cbn [ty_of_val].
    rewrite enc_num, Hsz in *. rewrite <- app_assoc.
    destruct (N.eq_dec c 121) as [->|Hne].
    + (* byte *)
      assert (Hs1 : sz = 1) by (cbn in Hsz; congruence). rewrite Hs1 in *. clear Hs1.
      change (TBasic 121) with (TBasic DBUS_TYPE_BYTE). rewrite vb_byte by (rewrite app_assoc; exact Hnz).
      change (pad_amount pos 1) with ((1 - pos mod 1) mod 1). replace ((1 - pos mod 1) mod 1) with 0 by (rewrite N.mod_1_r; reflexivity).
      change (zeros 0) with (@nil N). cbn [app]. change (N.to_nat 1) with 1%nat.
      pose proof (advance_app pos (bytes_of le 1 n) rest) as A. rewrite (bytes_of_length le 1) in A. change (N.of_nat 1) with 1 in A. rewrite A.
      rewrite (bytes_of_length le 1). cur_eq. lia.
    + rewrite vb_fixed; [|rewrite app_assoc; exact Hnz|change DBUS_TYPE_BYTE with 121; lia|exact Hfx].
      cbv zeta. rewrite Hal. cbn [curof cpos crem].
      rewrite (align_up_pad pos sz Hs).
      replace (pos + nlen (zeros (pad_amount pos sz) ++ bytes_of le (N.to_nat sz) n ++ rest) <=? pos + pad_amount pos sz) with false
        by (rewrite !nlen_app, nlen_zeros, bytes_of_length; lia).
      fold (curof pos (zeros (pad_amount pos sz) ++ bytes_of le (N.to_nat sz) n ++ rest)).
      rewrite <- (align_up_pad pos sz Hs). rewrite (pad_to_zeros pos sz _ Hs).
      assert (Hadv : advance (curof (pos + pad_amount pos sz) (bytes_of le (N.to_nat sz) n ++ rest)) sz = curof (pos + pad_amount pos sz + sz) rest).
      { pose proof (advance_app (pos + pad_amount pos sz) (bytes_of le (N.to_nat sz) n) rest) as A. rewrite bytes_of_length, N2Nat.id in A. exact A. }
      assert (Hrem : (crem (curof (pos + pad_amount pos sz) (bytes_of le (N.to_nat sz) n ++ rest)) <? sz) = false).
      { cbn [curof crem]. rewrite nlen_app, bytes_of_length. lia. }
      destruct (c =? DBUS_TYPE_BOOLEAN) eqn:Eb.
      * change DBUS_TYPE_BOOLEAN with 98 in Eb. apply N.eqb_eq in Eb. subst c. assert (Hs4 : sz = 4) by (cbn in Hsz; congruence). rewrite Hs4 in *. clear Hs4.
        rewrite Hrem. change (N.to_nat 4) with 4%nat.
        destruct (peek4_bytes (pos + pad_amount pos 4) le n rest) as (q & Hq & Hu); [lia|].
        rewrite Hq. cbv zeta. rewrite Hu. replace ((n =? 0) || (n =? 1)) with true by lia.
        change (N.to_nat 4) with 4%nat in Hadv. rewrite Hadv.
        rewrite nlen_app, nlen_zeros, (bytes_of_length le 4). cur_eq. lia.
      * rewrite Hrem, Hadv. rewrite nlen_app, nlen_zeros, bytes_of_length. cur_eq. lia.
  - (* string-like *)
    cbn [wfx] in Hw. apply andb_true_iff in Hw. destruct Hw as [Hd Hw].
    cbn [wire_ok] in Hk. apply andb_true_iff in Hk. destruct Hk as [Hbytes Hsigok].
    cbn [ty_of_val]. rewrite enc_str in *.
    destruct (c =? 115) eqn:E115; [|destruct (c =? 111) eqn:E111; [|destruct (c =? 103) eqn:E103; [|discriminate]]].
    + (* string *)
      apply N.eqb_eq in E115. subst c. apply andb_true_iff in Hw. destruct Hw as [Hv Hl].
      change (115 =? 103) with false in *. cbv iota in *. rewrite <- !app_assoc in *.
      rewrite vb_string; [|exact Hnz|reflexivity|reflexivity|reflexivity].
      rewrite read_len32_enc by lia. cbn [curof crem cdat].
      replace (nlen (s ++ [0] ++ rest) <? nlen s) with false by (rewrite nlen_app; lia).
      cbv zeta. rewrite string_bytes_app. change (115 =? DBUS_TYPE_OBJECT_PATH) with false. cbv iota.
      rewrite (utf8_correct s Hbytes), Hv.
      fold (curof (pos + pad_amount pos 4 + 4) (s ++ [0] ++ rest)). rewrite advance_app. cbn [curof crem app].
      change (nlen (0 :: rest) =? 0) with (N.of_nat (S (length rest)) =? 0). replace (N.of_nat (S (length rest)) =? 0) with false by lia.
      fold (curof (pos + pad_amount pos 4 + 4 + nlen s) (0 :: rest)). rewrite take1_cons. cbn [N.eqb].
      rewrite !nlen_app, nlen_zeros, (bytes_of_length le 4). change (nlen [0]) with 1. cur_eq. lia.
    + (* object path *)
      apply N.eqb_eq in E111. subst c. apply andb_true_iff in Hw. destruct Hw as [Hv Hl].
      change (111 =? 103) with false in *. cbv iota in *. rewrite <- !app_assoc in *.
      rewrite vb_string; [|exact Hnz|reflexivity|reflexivity|reflexivity].
      rewrite read_len32_enc by lia. cbn [curof crem cdat].
      replace (nlen (s ++ [0] ++ rest) <? nlen s) with false by (rewrite nlen_app; lia).
      cbv zeta. rewrite string_bytes_app. change (111 =? DBUS_TYPE_OBJECT_PATH) with true. cbv iota.
      rewrite (path_correct s), Hv.
      fold (curof (pos + pad_amount pos 4 + 4) (s ++ [0] ++ rest)). rewrite advance_app. cbn [curof crem app].
      change (nlen (0 :: rest) =? 0) with (N.of_nat (S (length rest)) =? 0). replace (N.of_nat (S (length rest)) =? 0) with false by lia.
      fold (curof (pos + pad_amount pos 4 + 4 + nlen s) (0 :: rest)). rewrite take1_cons. cbn [N.eqb].
      rewrite !nlen_app, nlen_zeros, (bytes_of_length le 4). change (nlen [0]) with 1. cur_eq. lia.
    + (* signature *)
      apply N.eqb_eq in E103. subst c. change (103 =? 103) with true in *. cbv iota in *. cbn [negb orb] in Hsigok.
      change (TBasic 103) with (TBasic DBUS_TYPE_SIGNATURE). rewrite vb_signature by exact Hnz.
      cbn [app]. rewrite take1_cons. cbn [curof crem cdat]. rewrite <- app_assoc.
      replace (nlen (s ++ [0] ++ rest) <? nlen s + 1) with false by (rewrite nlen_app; change (nlen ([0] ++ rest)) with (N.of_nat (S (length rest))); lia).
      cbv zeta. rewrite string_bytes_app.
      unfold validate_signature in Hsigok. rewrite Hsigok. cbn [negb].
      fold (curof (pos + 1) (s ++ [0] ++ rest)). rewrite advance_app. cbn [app]. rewrite take1_cons. cbn [N.eqb].
      rewrite nlen_cons, nlen_app. change (nlen [0]) with 1. cur_eq. lia.
  - (* array *)
    rewrite wfx_arr in Hw. apply andb_true_iff in Hw. destruct Hw as [Hd Hw].
    apply andb_true_iff in Hw. destruct Hw as [Hw Hws]. apply andb_true_iff in Hw. destruct Hw as [Hty Hsz].
    cbn [wire_ok] in Hk. apply andb_true_iff in Hk. destruct Hk as [Hk Hkall].
    apply andb_true_iff in Hk. destruct Hk as [Hal1 Hal2]. apply N.eqb_eq in Hal1.
    assert (Hal : spec_align et = 1 \/ spec_align et = 2 \/ spec_align et = 4 \/ spec_align et = 8) by lia.
    cbn [ty_of_val]. rewrite vb_array by exact Hnz. rewrite enc_arr in *. cbv zeta in *. fold (arr_start pos et) in *.
    set (payload := encs le vs (arr_start pos et)) in *. unfold max_array in Hsz.
    rewrite <- !app_assoc. rewrite read_len32_enc by lia.
    cbv zeta. rewrite Hal1. cbn [curof cpos crem].
    rewrite (align_up_pad _ _ Hal).
    replace (pos + pad_amount pos 4 + 4 + nlen (zeros (pad_amount (pos + pad_amount pos 4 + 4) (spec_align et)) ++ payload ++ rest)
             <? pos + pad_amount pos 4 + 4 + pad_amount (pos + pad_amount pos 4 + 4) (spec_align et)) with false
      by (rewrite nlen_app, nlen_zeros; lia).
    fold (curof (pos + pad_amount pos 4 + 4) (zeros (pad_amount (pos + pad_amount pos 4 + 4) (spec_align et)) ++ payload ++ rest)).
    rewrite <- (align_up_pad _ _ Hal). rewrite (pad_to_zeros _ _ _ Hal).
    change (pos + pad_amount pos 4 + 4 + pad_amount (pos + pad_amount pos 4 + 4) (spec_align et)) with (arr_start pos et).
    cbn [curof crem cpos].
    replace (nlen (payload ++ rest) <? nlen payload) with false by (rewrite nlen_app; lia).
    destruct vs as [|v0 vs'].
    + (* empty array *)
      subst payload. cbn [encs nlen length N.of_nat N.eqb app]. rewrite !nlen_app, !nlen_zeros, (bytes_of_length le 4). cur_eq. unfold arr_start. rewrite nlen_nil. lia.
    + pose proof (length_le_encs_x le _ _ _ Hws) as Hlen. fold payload in Hlen.
      assert (Hpne : 0 < nlen payload).
      { cbn [wfxs] in Hws. apply andb_true_iff in Hws. destruct Hws as [Hw0 _]. pose proof (enc_nonempty_x le v0 _ _ Hw0). subst payload. cbn [encs]. rewrite nlen_app. lia. }
      replace (nlen payload =? 0) with false by lia.
      replace (DBUS_MAXIMUM_ARRAY_LENGTH <? nlen payload) with false by (change DBUS_MAXIMUM_ARRAY_LENGTH with 67108864; lia).
      destruct (ty_is_fixed et) eqn:Hfixed.
      { (* fast path: fixed-size elements *)
        pose proof Hfixed as Hfx'. rewrite ty_is_fixed_spec in Hfx'. rewrite Hfx' in Hws. clear Hfx'.
        destruct et as [c| | | | ]; cbn [ty_is_fixed] in Hfixed; try discriminate.
        assert (Hw0 : wfx le depth (arr_start pos (TBasic c)) v0 = true).
        { cbn [wfxs] in Hws. apply andb_true_iff in Hws. destruct Hws as [Hw0 _]. exact Hw0. }
        assert (Ht0 : ty_of_val v0 = TBasic c).
        { cbn [forallb] in Hty. apply andb_true_iff in Hty. destruct Hty as [Ht0 _]. apply ty_eqb_eq in Ht0. exact Ht0. }
        assert (Hfsz : exists sz, fixed_size c = Some sz).
        { destruct v0 as [c' n|c' s0| | | | ]; cbn [ty_of_val] in Ht0; try discriminate; inversion Ht0; subst c'.
          - cbn [wfx] in Hw0. apply andb_true_iff in Hw0. destruct Hw0 as [_ Hw0]. destruct (fixed_size c) as [sz|]; [eexists; reflexivity|discriminate].
          - exfalso. cbn [wfx] in Hw0. apply andb_true_iff in Hw0. destruct Hw0 as [_ Hw0].
            destruct (c =? 115) eqn:E1; [apply N.eqb_eq in E1; subst c; vm_compute in Hfixed; discriminate|].
            destruct (c =? 111) eqn:E2; [apply N.eqb_eq in E2; subst c; vm_compute in Hfixed; discriminate|].
            destruct (c =? 103) eqn:E3; [apply N.eqb_eq in E3; subst c; vm_compute in Hfixed; discriminate|discriminate]. }
        destruct Hfsz as [sz Hfsz]. destruct (fixed_tables c sz Hfsz) as (_ & Hta & Hs).
        assert (Hsa : spec_align (TBasic c) = sz) by (cbn [spec_align]; rewrite Hfsz; reflexivity).
        assert (Hstart : arr_start pos (TBasic c) mod sz = 0).
        { unfold arr_start. rewrite Hsa. apply aligned_after_pad. exact Hs. }
        destruct (fixed_elems_x le c sz Hfsz Hfixed (v0 :: vs') depth _ Hstart Hws Hty) as (E1 & E2 & E3 & E4).
        subst payload. rewrite Hsa at 1.
        replace (negb (nlen (encs le (v0 :: vs') (arr_start pos (TBasic c))) mod sz =? 0)) with false
          by (rewrite E2; destruct Hs as [-> | [-> | [-> | -> ]]]; lia).
        destruct (c =? DBUS_TYPE_BOOLEAN) eqn:Eb.
        - change DBUS_TYPE_BOOLEAN with 98 in Eb. apply N.eqb_eq in Eb. subst c.
          assert (sz = 4) by (cbn in Hfsz; congruence). subst sz.
          rewrite E1 at 2. change (N.to_nat 4) with 4%nat.
          rewrite E2. rewrite <- E3.
          rewrite (bool_loop le (nums_of (v0 :: vs')) _ (arr_start pos (TBasic 98)) rest E4) by (rewrite E3; lia).
          cbn [curof cpos]. rewrite N.eqb_refl.
          rewrite !nlen_app, !nlen_zeros, (bytes_of_length le 4). rewrite E2, E3. cur_eq. unfold arr_start. rewrite ?Hsa. lia.
        - rewrite advance_app. cbn [curof cpos]. rewrite N.eqb_refl.
          rewrite !nlen_app, !nlen_zeros, (bytes_of_length le 4). cur_eq. unfold arr_start. rewrite ?Hsa. lia. }
      pose proof Hfixed as Hfx'. rewrite ty_is_fixed_spec in Hfx'. rewrite Hfx' in Hws. clear Hfx'.
      pose proof (wfxs_depth le _ _ _ _ Hws) as Hd1.
      assert (Hmd : (maxdepth <? depth + 1) = false).
      { unfold max_value_depth in Hd1. unfold maxdepth. change (DBUS_MAXIMUM_TYPE_RECURSION_DEPTH * 2) with 64. lia. }
      cbn [height] in Hh. fold (heights (v0 :: vs')) in Hh.
      subst payload.
      rewrite (vb_elems_encs_x le et (v0 :: vs') IH d depth (S (N.to_nat (nlen (encs le (v0 :: vs') (arr_start pos et))))) (arr_start pos et) rest
                 (arr_start pos et + nlen (encs le (v0 :: vs') (arr_start pos et))) Hws Hkall Hty Hmd); [|lia|lia|reflexivity].
      cbn [curof cpos]. rewrite N.eqb_refl.
      rewrite !nlen_app, !nlen_zeros, (bytes_of_length le 4). cur_eq. unfold arr_start. lia.
  - (* struct *)
    rewrite wfx_struct in Hw. apply andb_true_iff in Hw. destruct Hw as [Hd Hw]. apply andb_true_iff in Hw. destruct Hw as [Hne Hws].
    cbn [wire_ok] in Hk. cbn [ty_of_val]. rewrite vb_struct by exact Hnz. rewrite enc_struct in *. cbv zeta.
    cbn [curof cpos crem]. rewrite (align_up_pad pos 8 ltac:(lia)). rewrite <- app_assoc.
    replace (pos + nlen (zeros (pad_amount pos 8) ++ encs le fs (pos + pad_amount pos 8) ++ rest) <? pos + pad_amount pos 8) with false
      by (rewrite nlen_app, nlen_zeros; lia).
    fold (curof pos (zeros (pad_amount pos 8) ++ encs le fs (pos + pad_amount pos 8) ++ rest)).
    rewrite <- (align_up_pad pos 8 ltac:(lia)). rewrite (pad_to_zeros pos 8 _ ltac:(lia)). rewrite !(align_up_pad pos 8 ltac:(lia)).
    assert (Hd1 : (depth + 1 <=? max_value_depth) = true) by (destruct fs; [discriminate | eapply wfxs_depth; exact Hws]).
    replace (maxdepth <? depth + 1) with false
      by (unfold max_value_depth in Hd1; unfold maxdepth; change (DBUS_MAXIMUM_TYPE_RECURSION_DEPTH * 2) with 64; lia).
    cbn [height] in Hh. fold (heights fs) in Hh.
    rewrite (vbs_encs_x le fs IH d (depth + 1) _ rest Hws Hk) by lia.
    rewrite nlen_app, nlen_zeros. cur_eq. lia.
  - (* dict entry *)
    rewrite wfx_dict in Hw. apply andb_true_iff in Hw. destruct Hw as [Hd Hw]. apply andb_true_iff in Hw. destruct Hw as [Hkb Hws].
    cbn [wire_ok] in Hk. apply andb_true_iff in Hk. destruct Hk as [Hk1 Hk2].
    cbn [ty_of_val]. rewrite vb_dict by exact Hnz. rewrite enc_dict in *. cbv zeta.
    cbn [curof cpos crem]. rewrite (align_up_pad pos 8 ltac:(lia)). rewrite <- app_assoc.
    replace (pos + nlen (zeros (pad_amount pos 8) ++ encs le [k; x] (pos + pad_amount pos 8) ++ rest) <? pos + pad_amount pos 8) with false
      by (rewrite nlen_app, nlen_zeros; lia).
    fold (curof pos (zeros (pad_amount pos 8) ++ encs le [k; x] (pos + pad_amount pos 8) ++ rest)).
    rewrite <- (align_up_pad pos 8 ltac:(lia)). rewrite (pad_to_zeros pos 8 _ ltac:(lia)). rewrite !(align_up_pad pos 8 ltac:(lia)).
    pose proof (wfxs_depth le _ _ _ _ Hws) as Hd1.
    replace (maxdepth <? depth + 1) with false
      by (unfold max_value_depth in Hd1; unfold maxdepth; change (DBUS_MAXIMUM_TYPE_RECURSION_DEPTH * 2) with 64; lia).
    assert (Hkt : TBasic (match k with VNum c _ => c | VStr c _ => c | _ => 0 end) = ty_of_val k) by (destruct k; try discriminate; reflexivity).
    rewrite Hkt. change [ty_of_val k; ty_of_val x] with (map ty_of_val [k; x]).
    cbn [height] in Hh.
    rewrite (vbs_encs_x le [k; x] (Forall_cons k IHk (Forall_cons x IHx (Forall_nil _))) d (depth + 1) _ rest Hws)
      by (cbn [forallb heights fold_right]; (rewrite Hk1, Hk2; reflexivity) || lia).
    rewrite nlen_app, nlen_zeros. cur_eq. lia.
  - (* variant *)
    cbn [wfx] in Hw. apply andb_true_iff in Hw. destruct Hw as [Hd Hw].
    apply andb_true_iff in Hw. destruct Hw as [Hw Hwx]. apply andb_true_iff in Hw. destruct Hw as [Hty Hsig].
    apply ty_eqb_eq in Hty.
    unfold sig_model in Hsig. apply andb_true_iff in Hsig. destruct Hsig as [Hsig Hparse].
    destruct (parse_sig (print_ty t)) as [[|t' [|? ?]]|] eqn:Hp; try discriminate. apply ty_eqb_eq in Hparse. subst t'.
    cbn [wire_ok] in Hk. apply andb_true_iff in Hk. destruct Hk as [Hvs Hkx].
    cbn [ty_of_val]. rewrite vb_variant by exact Hnz. rewrite enc_var in *. cbv zeta in *.
    cbn [app]. rewrite take1_cons. cbn [curof crem cdat]. rewrite <- !app_assoc.
    replace (nlen (print_ty t ++ [0] ++ enc le x (pos + nlen (nlen (print_ty t) :: print_ty t ++ [0])) ++ rest) <? nlen (print_ty t) + 1) with false
      by (unfold nlen; rewrite !app_length; cbn [length]; lia).
    rewrite string_bytes_app. unfold validate_signature in Hvs. rewrite Hvs. cbn [negb].
    fold (curof (pos + 1) (print_ty t ++ [0] ++ enc le x (pos + nlen (nlen (print_ty t) :: print_ty t ++ [0])) ++ rest)).
    rewrite advance_app. cbn [app]. rewrite take1_cons. cbn [N.eqb negb]. rewrite Hp.
    assert (Hp0 : pos + 1 + nlen (print_ty t) + 1 = pos + nlen (nlen (print_ty t) :: print_ty t ++ [0])).
    { rewrite nlen_cons, nlen_app. change (nlen [0]) with 1. lia. }
    rewrite Hp0. set (p0 := pos + nlen (nlen (print_ty t) :: print_ty t ++ [0])) in *.
    assert (Hwx0 : wfx le (depth + 1) p0 x = true).
    { replace p0 with (pos + (nlen (print_ty t) + 2)); [exact Hwx|]. subst p0. rewrite nlen_cons, nlen_app. change (nlen [0]) with 1. lia. }
    destruct (ty_alignment_spec_x le x _ _ Hwx0) as [Hta Hal]. rewrite Hty in Hta, Hal.
    rewrite Hta. cbn [curof cpos crem].
    rewrite (enc_split_x le x _ _ Hwx0). rewrite Hty. rewrite <- app_assoc.
    rewrite (align_up_pad p0 _ Hal).
    replace (p0 + nlen (zeros (pad_amount p0 (spec_align t)) ++ enc le x (p0 + pad_amount p0 (spec_align t)) ++ rest) <? p0 + pad_amount p0 (spec_align t)) with false
      by (rewrite nlen_app, nlen_zeros; lia).
    fold (curof p0 (zeros (pad_amount p0 (spec_align t)) ++ enc le x (p0 + pad_amount p0 (spec_align t)) ++ rest)).
    rewrite <- (align_up_pad p0 _ Hal). rewrite (pad_to_zeros p0 _ _ Hal). rewrite !(align_up_pad p0 _ Hal).
    assert (Hwx1 : wfx le (depth + 1) (p0 + pad_amount p0 (spec_align t)) x = true).
    { rewrite <- Hty. rewrite wfx_split. exact Hwx0. }
    assert (Hd1 : (depth + 1 <=? max_value_depth) = true).
    { destruct x; cbn [wfx] in Hwx0; apply andb_true_iff in Hwx0; destruct Hwx0 as [H0 _]; exact H0. }
    replace (maxdepth <? depth + 1) with false
      by (unfold max_value_depth in Hd1; unfold maxdepth; change (DBUS_MAXIMUM_TYPE_RECURSION_DEPTH * 2) with 64; lia).
    cbn [height] in Hh. rewrite <- Hty at 1.
    rewrite (IHx d (depth + 1) _ rest Hwx1 Hkx) by lia.
    cur_eq. subst p0. unfold nlen, zeros. cbn [length]. rewrite !app_length. cbn [length]. rewrite !app_length, repeat_length. cbn [length]. lia.
Qed.
(* ==== B. header fields of a loosely well-formed field array ==================================== *)
Lemma vb_seq_encs_x le : forall vs pos rest, wfxs le vs 0 pos = true -> forallb wire_ok vs = true ->
  vb_seq le (map ty_of_val vs) 0 (curof pos (encs le vs pos ++ rest)) = inl (curof (pos + nlen (encs le vs pos)) rest).
Proof.
  induction vs as [|x r IH]; intros pos rest Hw Hk.
  - cbn. rewrite N.add_0_r. reflexivity.
  - cbn [wfxs] in Hw. apply andb_true_iff in Hw. destruct Hw as [Hwx Hwr].
    cbn [forallb] in Hk. apply andb_true_iff in Hk. destruct Hk as [Hkx Hkr].
    cbn [map vb_seq encs]. rewrite <- app_assoc.
    pose proof (wfx_height le x 0 pos Hwx) as Hh.
    rewrite (vb_enc_x le x DEPTH_FUEL 0 pos _ Hwx Hkx) by (unfold DEPTH_FUEL; lia).
    rewrite (IH _ rest Hwr Hkr). rewrite nlen_app. cur_eq. lia.
Qed.

(* well-formedness is monotone in the nesting depth *)
Lemma wfxs_depth_mono le : forall vs,
  Forall (fun v => forall d d' pos, d <= d' -> wfx le d' pos v = true -> wfx le d pos v = true) vs ->
  forall d d' pos, d <= d' -> wfxs le vs d' pos = true -> wfxs le vs d pos = true.
Proof.
  induction 1 as [|x r Hx Hr IH]; intros d d' pos Hd H; [reflexivity|].
  cbn [wfxs] in *. apply andb_true_iff in H. destruct H as [H1 H2].
  rewrite (Hx d d' pos Hd H1). cbn [andb]. apply (IH d d' _ Hd H2).
Qed.

Lemma wfx_depth_mono le : forall v d d' pos, d <= d' -> wfx le d' pos v = true -> wfx le d pos v = true.
Proof.
  induction v as [c n|c s|et vs IH|fs IH|k x IHk IHx|t x IHx] using val_ind'; intros d d' pos Hd H;
    [cbn [wfx] in * | cbn [wfx] in * | rewrite wfx_arr in * | rewrite wfx_struct in * | rewrite wfx_dict in * | cbn [wfx] in *];
    apply andb_true_iff in H; destruct H as [Hd' H]; apply andb_true_iff; (split; [lia|]).
  - exact H.
  - exact H.
  - apply andb_true_iff in H. destruct H as [H1 H2]. rewrite H1. cbn [andb].
    destruct (is_fixed_ty et); [apply (wfxs_depth_mono le vs IH d d'); [lia | exact H2]|].
    apply (wfxs_depth_mono le vs IH (d + 1) (d' + 1)); [lia | exact H2].
  - apply andb_true_iff in H. destruct H as [H1 H2]. rewrite H1. cbn [andb].
    apply (wfxs_depth_mono le fs IH (d + 1) (d' + 1)); [lia | exact H2].
  - apply andb_true_iff in H. destruct H as [H1 H2]. rewrite H1. cbn [andb].
    apply (wfxs_depth_mono le [k; x] (Forall_cons k IHk (Forall_cons x IHx (Forall_nil _))) (d + 1) (d' + 1)); [lia | exact H2].
  - apply andb_true_iff in H. destruct H as [H1 H2]. rewrite H1. cbn [andb].
    apply (IHx (d + 1) (d' + 1)); [lia | exact H2].
Qed.

Lemma field_facts_x le f d pos : wfx le d pos (enc_field le f) = true -> wire_ok (enc_field le f) = true ->
  let t := sf_ty f in let x := sf_val f in let sg := print_ty t in
  let al := spec_align t in
  let p0 := pos + pad_amount pos 8 in
  let p3 := p0 + 1 + 1 + nlen sg + 1 in
  let p4 := p3 + pad_amount p3 al in
  sf_code f < 256 /\ ty_of_val x = t /\ parse_sig sg = Some [t] /\ ty_alignment t = al /\ (al = 1 \/ al = 2 \/ al = 4 \/ al = 8) /\
  wfx le (d + 2) p4 x = true /\ wire_ok x = true /\
  enc le (enc_field le f) pos = zeros (pad_amount pos 8) ++ sf_code f :: nlen sg :: sg ++ 0 :: zeros (pad_amount p3 al) ++ enc le x p4.
Proof.
  destruct f as [code t x]. unfold enc_field. cbn [sf_code sf_ty sf_val]. intros Hw Hk. cbv zeta.
  rewrite wfx_struct in Hw. apply andb_true_iff in Hw. destruct Hw as [Hd Hw]. cbn [negb andb] in Hw.
  cbn [wfxs] in Hw. rewrite enc_byte, nlen1 in Hw.
  apply andb_true_iff in Hw. destruct Hw as [Hc Hw]. rewrite andb_true_r in Hw.
  cbn [wfx fixed_size N.eqb Pos.eqb negb orb] in Hc. change (256 ^ 1) with 256 in Hc.
  assert (Hcode : code < 256) by lia. clear Hc.
  cbn [wfx] in Hw. apply andb_true_iff in Hw. destruct Hw as [Hd1 Hw].
  apply andb_true_iff in Hw. destruct Hw as [Hw Hwx]. apply andb_true_iff in Hw. destruct Hw as [Hty Hsig].
  apply ty_eqb_eq in Hty.
  unfold sig_model in Hsig. apply andb_true_iff in Hsig. destruct Hsig as [Hsig Hparse].
  destruct (parse_sig (print_ty t)) as [[|t' [|? ?]]|] eqn:Hp; try discriminate. apply ty_eqb_eq in Hparse. subst t'.
  cbn [wire_ok forallb] in Hk. rewrite andb_true_r in Hk. apply andb_true_iff in Hk. destruct Hk as [_ Hkx].
  apply andb_true_iff in Hkx. destruct Hkx as [_ Hkx].
  set (p0 := pos + pad_amount pos 8) in *.
  set (p3 := p0 + 1 + 1 + nlen (print_ty t) + 1).
  replace (p0 + 1 + (nlen (print_ty t) + 2)) with p3 in Hwx by (subst p3; lia).
  replace (d + 1 + 1) with (d + 2) in Hwx by lia.
  destruct (ty_alignment_spec_x le x _ _ Hwx) as [Hta Hal]. rewrite Hty in Hta, Hal.
  split; [exact Hcode|]. split; [exact Hty|]. split; [reflexivity|]. split; [exact Hta|]. split; [exact Hal|].
  split; [rewrite <- Hty; rewrite wfx_split; exact Hwx|]. split; [exact Hkx|].
  rewrite enc_struct. fold p0. cbn [encs]. rewrite enc_byte, nlen1. rewrite N.mod_small by exact Hcode.
  rewrite enc_var. cbv zeta. rewrite app_nil_r. cbn [app]. rewrite <- app_assoc. cbn [app].
  replace (p0 + 1 + nlen (nlen (print_ty t) :: print_ty t ++ [0])) with p3
    by (subst p3; rewrite nlen_cons, nlen_app; change (nlen [0]) with 1; lia).
  rewrite (enc_split_x le x _ _ Hwx). rewrite Hty. reflexivity.
Qed.

Definition hf_ok_x (le : bool) (f : sfield) (h : hfield) : Prop :=
  f_code h = sf_code f /\ f_sig h = print_ty (sf_ty f) /\ ty_of_val (sf_val f) = sf_ty f /\ sf_code f < 256 /\
  exists p, pad_amount p (spec_align (sf_ty f)) = 0 /\ wfx le 2 p (sf_val f) = true /\ f_val h = enc le (sf_val f) p.

Lemma read_fields_enc_x le : forall fs fuel d pos rest aend,
  (length fs < fuel)%nat -> wfxs le (map (enc_field le) fs) d pos = true -> forallb wire_ok (map (enc_field le) fs) = true ->
  aend = pos + nlen (encs le (map (enc_field le) fs) pos) ->
  exists hs, read_fields fuel le (curof pos (encs le (map (enc_field le) fs) pos ++ rest)) aend = Some hs /\ Forall2 (hf_ok_x le) fs hs.
Proof.
  induction fs as [|f r IH]; intros fuel d pos rest aend Hf Hw Hk He; (destruct fuel as [|fuel]; [cbn [length] in Hf; lia|]).
  - exists []. split; [|constructor]. cbn [map encs app read_fields curof cpos]. cbn [map encs] in He. rewrite nlen_nil in He.
    replace (pos <? aend) with false by lia. reflexivity.
  - cbn [map encs wfxs forallb] in *.
    apply andb_true_iff in Hw. destruct Hw as [Hwf Hwr]. apply andb_true_iff in Hk. destruct Hk as [Hkf Hkr].
    pose proof (enc_nonempty_x le _ _ _ Hwf) as Hne.
    destruct (field_facts_x le f d pos Hwf Hkf) as (Hcode & Hty & Hp & Hta & Hal & Hwx & Hkx & Eshape). cbv zeta in *.
    set (F := enc le (enc_field le f) pos) in *.
    set (p0 := pos + pad_amount pos 8) in *. set (p3 := p0 + 1 + 1 + nlen (print_ty (sf_ty f)) + 1) in *.
    set (p4 := p3 + pad_amount p3 (spec_align (sf_ty f))) in *.
    assert (Hend : p4 + nlen (enc le (sf_val f) p4) = pos + nlen F).
    { rewrite Eshape. rewrite !nlen_app, !nlen_cons, !nlen_app, !nlen_cons, !nlen_app, !nlen_zeros. subst p4 p3 p0. lia. }
    assert (Hwx2 : wfx le 2 p4 (sf_val f) = true) by (apply (wfx_depth_mono le _ 2 (d + 2)); [lia | exact Hwx]).
    rewrite nlen_app in He.
    destruct (IH fuel d (pos + nlen F) rest aend ltac:(cbn [length] in Hf; lia) Hwr Hkr ltac:(lia)) as (hs & Hrd & Hall).
    exists (mkField (sf_code f) (print_ty (sf_ty f)) (enc le (sf_val f) p4) :: hs). split.
    + rewrite <- app_assoc. set (tail := encs le (map (enc_field le) r) (pos + nlen F) ++ rest) in *.
      rewrite Eshape. repeat (rewrite <- app_assoc; cbn [app]).
      pose proof (wfx_height le _ _ _ Hwx2) as Hh.
      pose proof (read_fields_step le fuel pos (sf_code f) (print_ty (sf_ty f)) (sf_ty f) (enc le (sf_val f) p4) tail aend) as St.
      cbv zeta in St. fold p0 p3 p4 in St. rewrite St; [|exact Hp|exact Hta|exact Hal| |lia].
      * rewrite Hend. rewrite Hrd. reflexivity.
      * rewrite <- Hty at 1. apply (vb_enc_x le (sf_val f) DEPTH_FUEL 2 p4 tail Hwx2 Hkx). unfold DEPTH_FUEL. lia.
    + constructor; [|exact Hall]. unfold hf_ok_x. cbn [f_code f_sig f_val]. repeat (split; [reflexivity || assumption|]).
      exists p4. split; [apply pad_amount_aligned; exact Hal|]. split; [exact Hwx2 | reflexivity].
Qed.

Lemma val_str_x le d p x c : (c = 115 \/ c = 111 \/ c = 103) -> ty_of_val x = TBasic c -> wfx le d p x = true -> exists s, x = VStr c s.
Proof.
  intros Hc Ht Hw. destruct x as [c' n|c' s| | | | ]; cbn [ty_of_val] in Ht; try discriminate; inversion Ht; subst c'.
  - exfalso. cbn [wfx] in Hw. apply andb_true_iff in Hw. destruct Hw as [_ Hw].
    destruct Hc as [-> | [-> | ->]]; discriminate.
  - exists s. reflexivity.
Qed.

Lemma val_u32_x le d p x : ty_of_val x = TBasic 117 -> wfx le d p x = true -> exists n, x = VNum 117 n /\ n < 4294967296.
Proof.
  intros Ht Hw. destruct x as [c' n|c' s| | | | ]; cbn [ty_of_val] in Ht; try discriminate; inversion Ht; subst c'.
  - exists n. split; [reflexivity|]. cbn [wfx] in Hw. apply andb_true_iff in Hw. destruct Hw as [_ Hw].
    change (fixed_size 117) with (Some 4) in Hw. cbv iota in Hw. apply andb_true_iff in Hw. destruct Hw as [Hw _].
    apply N.ltb_lt in Hw. exact Hw.
  - exfalso. cbn [wfx] in Hw. apply andb_true_iff in Hw. destruct Hw as [_ Hw]. discriminate.
Qed.

Lemma wfx_str_len le d p c s : (c = 115 \/ c = 111) -> wfx le d p (VStr c s) = true -> nlen s < 4294967296.
Proof.
  intros Hc Hw. cbn [wfx] in Hw. apply andb_true_iff in Hw. destruct Hw as [_ Hw].
  destruct Hc as [-> | ->]; cbn [N.eqb Pos.eqb] in Hw; apply andb_true_iff in Hw; destruct Hw as [_ Hw]; lia.
Qed.

(* ==== C. header-field validation with the model's own name check for DESTINATION / SENDER ===== *)
(* F2: the content predicate with the bus-name scanner in place of the specification's grammar *)
Definition field_content_x (f : sfield) : bool :=
  if (sf_code f =? 6) || (sf_code f =? 7) then match sf_val f with VStr _ s => validate_bus_name s | _ => true end
  else field_content_ok f.

Fixpoint fields_ok_x (seen : list N) (fs : list sfield) : bool :=
  match fs with
  | [] => true
  | f :: r =>
      let c := sf_code f in
      if c =? 0 then false
      else match field_ty c with
           | None => fields_ok_x seen r
           | Some t => ty_eqb t (sf_ty f) && negb (existsb (N.eqb c) seen) && field_content_x f && fields_ok_x (c :: seen) r
           end
  end.

Lemma field_content_ok_x f : field_content_ok f = true -> field_content_x f = true.
Proof.
  unfold field_content_x. destruct ((sf_code f =? 6) || (sf_code f =? 7)) eqn:E; [|auto].
  unfold field_content_ok. destruct (sf_val f) as [|c s| | | | ]; try reflexivity.
  replace (sf_code f =? 1) with false by lia. replace (sf_code f =? 2) with false by lia.
  replace (sf_code f =? 3) with false by lia. replace (sf_code f =? 4) with false by lia. rewrite E. apply bus_name_ok.
Qed.

Lemma fields_ok_fields_ok_x : forall fs seen, fields_ok seen fs = true -> fields_ok_x seen fs = true.
Proof.
  induction fs as [|f r IH]; intros seen H; [reflexivity|]. cbn [fields_ok fields_ok_x] in *.
  destruct (sf_code f =? 0); [discriminate|]. destruct (field_ty (sf_code f)) as [t|]; [|apply IH; exact H].
  apply andb_true_iff in H. destruct H as [H Hr]. apply andb_true_iff in H. destruct H as [H Hc].
  rewrite H, (field_content_ok_x f Hc), (IH _ Hr). reflexivity.
Qed.

(* a field of a plain basic type other than SIGNATURE: the relaxed and the strict record coincide *)
Lemma hf_ok_of_x le f h c : hf_ok_x le f h -> sf_ty f = TBasic c -> c <> 103 -> hf_ok le f h.
Proof.
  intros (Hc & Hs & Hty & Hlt & p & Hpad & Hwf & Hv) Ht Hne.
  repeat (split; [assumption|]). exists p. split; [exact Hpad|]. split; [|exact Hv].
  rewrite Ht in Hty. destruct (sf_val f) as [c' n|c' s| | | | ]; cbn [ty_of_val] in Hty; try discriminate; injection Hty as ->.
  - exact Hwf.
  - apply (leaf_shift le 2 2 p (VStr c s) eq_refl); [|unfold max_value_depth; lia|exact Hwf].
    cbn [nodev]. replace (c =? 103) with false by lia. reflexivity.
Qed.

Lemma expected_not_sig c : (c = 1 \/ c = 2 \/ c = 3 \/ c = 4 \/ c = 5 \/ c = 6 \/ c = 7 \/ c = 9 \/ c = 10) -> expected_type c <> 103.
Proof. intros [-> | [-> | [-> | [-> | [-> | [-> | [-> | [-> | ->]]]]]]]]; vm_compute; discriminate. Qed.

Lemma validate_field_ok_x le seen f h t : hf_ok_x le f h -> field_ty (sf_code f) = Some t -> ty_eqb t (sf_ty f) = true ->
  existsb (N.eqb (sf_code f)) seen = false -> field_content_x f = true -> validate_field le seen h = V_VALID.
Proof.
  intros Hx Hft Hteq Hseen Hcont. destruct (field_ty_some _ _ Hft) as [Hcases Ht].
  pose proof (ty_eqb_eq _ _ Hteq) as Ety.
  destruct (N.eq_dec (sf_code f) 8) as [E8|N8].
  - (* SIGNATURE: type and duplicate check only *)
    destruct Hx as (Hc & Hs & _). destruct f as [c ft x]. cbn [sf_code sf_ty sf_val] in *. subst ft t. rewrite E8 in *.
    vf_start Hc Hs Hseen. reflexivity.
  - assert (Hok : hf_ok le f h).
    { apply (hf_ok_of_x le f h (expected_type (sf_code f))); [exact Hx | congruence | apply expected_not_sig; lia]. }
    destruct ((sf_code f =? 6) || (sf_code f =? 7)) eqn:E67.
    + destruct Hok as (Hc & Hs & Hty & Hlt & p & Hpad & Hwf & Hv).
      destruct f as [c ft x]. cbn [sf_code sf_ty sf_val] in *. subst ft. unfold field_content_x in Hcont. cbn [sf_code sf_val] in Hcont. rewrite E67 in Hcont.
      assert (Ht115 : t = TBasic 115) by (rewrite Ht; destruct (N.eq_dec c 6) as [->|]; [reflexivity|]; replace c with 7 by lia; reflexivity).
      rewrite Ht115 in *.
      destruct (val_str le _ _ _ 115 ltac:(lia) Hty Hwf) as [s ->]. pose proof (wfb_str_len le _ _ 115 s ltac:(lia) Hwf) as Hl.
      cbn [spec_align fixed_size N.eqb Pos.eqb orb] in Hpad.
      rewrite (enc_str4 le 115 s p ltac:(lia) Hpad) in Hv.
      destruct (N.eq_dec c 6) as [->|N6]; [|replace c with 7 in * by lia];
        vf_start Hc Hs Hseen; rewrite Hv; rewrite str_payload_raw by exact Hl; rewrite Hcont; reflexivity.
    + apply (validate_field_ok le seen f h t Hok Hft Hteq Hseen). unfold field_content_x in Hcont. rewrite E67 in Hcont. exact Hcont.
Qed.

Lemma validate_fields_ok_x le : forall fs hs, Forall2 (hf_ok_x le) fs hs ->
  forall seen, fields_ok_x seen fs = true -> validate_fields le seen hs = V_VALID.
Proof.
  induction 1 as [|f h r hs Hfh Hr IH]; intros seen Hok; [reflexivity|].
  cbn [fields_ok_x validate_fields] in *.
  pose proof Hfh as (Hc & _). rewrite Hc.
  change DBUS_HEADER_FIELD_INVALID with 0. change DBUS_HEADER_FIELD_LAST with 10.
  destruct (sf_code f =? 0) eqn:E0; [discriminate|].
  destruct (field_ty (sf_code f)) as [t|] eqn:Hft.
  - destruct (field_ty_some _ _ Hft) as [Hcases _].
    replace (10 <? sf_code f) with false by lia.
    apply andb_true_iff in Hok. destruct Hok as [Hok Hrest]. apply andb_true_iff in Hok. destruct Hok as [Hok Hcont].
    apply andb_true_iff in Hok. destruct Hok as [Hteq Hseen]. apply negb_true_iff in Hseen.
    rewrite (validate_field_ok_x le seen f h t Hfh Hft Hteq Hseen Hcont). cbn [Z.eqb]. change (Z.eqb V_VALID V_VALID) with true. cbv iota.
    apply IH. exact Hrest.
  - destruct (field_ty_none _ Hft) as [Hz|Hbig]; [lia|].
    replace (10 <? sf_code f) with true by lia. apply IH. exact Hok.
Qed.

(* the converse: whatever [validate_field] accepts satisfies the relaxed content predicate *)
Lemma validate_field_sound_x le seen f h : hf_ok_x le f h ->
  (sf_code f = 1 \/ sf_code f = 2 \/ sf_code f = 3 \/ sf_code f = 4 \/ sf_code f = 5 \/ sf_code f = 6 \/ sf_code f = 7 \/
   sf_code f = 8 \/ sf_code f = 9 \/ sf_code f = 10) ->
  validate_field le seen h = V_VALID ->
  sf_ty f = TBasic (expected_type (sf_code f)) /\ existsb (N.eqb (sf_code f)) seen = false /\ field_content_x f = true.
Proof.
  intros Hx Hcases H. pose proof Hx as (Hc & Hs & Hty & _).
  destruct (expected_cases _ Hcases) as [_ He].
  assert (H1 : first_type (f_sig h) = expected_type (f_code h) /\ existsb (N.eqb (f_code h)) seen = false).
  { unfold validate_field in H. destruct (first_type (f_sig h) =? expected_type (f_code h)) eqn:E1; cbn [negb] in H; [|bad H].
    destruct (existsb (N.eqb (f_code h)) seen); [bad H|]. split; [apply N.eqb_eq; exact E1 | reflexivity]. }
  destruct H1 as [Hft Hseen]. rewrite Hc, Hs in Hft. rewrite Hc in Hseen.
  pose proof (first_type_basic _ _ He Hft) as Ht. split; [exact Ht|]. split; [exact Hseen|].
  destruct (N.eq_dec (sf_code f) 8) as [E8|N8].
  - unfold field_content_x, field_content_ok. rewrite E8. cbn [N.eqb Pos.eqb orb]. destruct (sf_val f); reflexivity.
  - assert (Hok : hf_ok le f h).
    { apply (hf_ok_of_x le f h (expected_type (sf_code f))); [exact Hx | exact Ht | apply expected_not_sig; lia]. }
    destruct ((sf_code f =? 6) || (sf_code f =? 7)) eqn:E67.
    + destruct Hok as (_ & _ & _ & Hlt & p & Hpad & Hwf & Hv).
      destruct f as [c ft x]. cbn [sf_code sf_ty sf_val] in *. unfold field_content_x. cbn [sf_code sf_val]. rewrite E67.
      assert (Ht115 : ft = TBasic 115) by (rewrite Ht; destruct (N.eq_dec c 6) as [->|]; [reflexivity|]; replace c with 7 by lia; reflexivity).
      rewrite Ht115 in *.
      destruct (val_str le _ _ _ 115 ltac:(lia) Hty Hwf) as [s ->]. pose proof (wfb_str_len le _ _ 115 s ltac:(lia) Hwf) as Hl.
      cbn [spec_align fixed_size N.eqb Pos.eqb orb] in Hpad.
      rewrite (enc_str4 le 115 s p ltac:(lia) Hpad) in Hv.
      destruct (N.eq_dec c 6) as [->|N6]; [|replace c with 7 in * by lia];
        vfs_start H Hc Hs Hseen; rewrite Hv in H; rewrite str_payload_raw in H by exact Hl;
        (destruct (validate_bus_name s); [reflexivity | bad H]).
    + assert (Hn : name_strict f = true) by (unfold name_strict; rewrite E67; reflexivity).
      destruct (validate_field_sound le seen f h Hok Hcases Hn H) as (_ & _ & Hcont).
      unfold field_content_x. rewrite E67. exact Hcont.
Qed.

Lemma validate_fields_sound_x le : forall fs hs, Forall2 (hf_ok_x le) fs hs ->
  forall seen, validate_fields le seen hs = V_VALID -> fields_ok_x seen fs = true.
Proof.
  induction 1 as [|f h r hs Hfh Hr IH]; intros seen H; [reflexivity|].
  cbn [fields_ok_x validate_fields] in *. pose proof Hfh as (Hc & _). rewrite Hc in H.
  change DBUS_HEADER_FIELD_INVALID with 0 in H. change DBUS_HEADER_FIELD_LAST with 10 in H.
  destruct (sf_code f =? 0) eqn:E0; [bad H|].
  destruct (10 <? sf_code f) eqn:E10.
  - assert (Hft : field_ty (sf_code f) = None).
    { unfold field_ty. replace ((sf_code f =? 1) || (sf_code f =? 10)) with false by lia.
      replace ((sf_code f =? 2) || (sf_code f =? 3) || (sf_code f =? 4) || (sf_code f =? 6) || (sf_code f =? 7)) with false by lia.
      replace ((sf_code f =? 5) || (sf_code f =? 9)) with false by lia. replace (sf_code f =? 8) with false by lia. reflexivity. }
    rewrite Hft. apply IH; assumption.
  - assert (Hcases : sf_code f = 1 \/ sf_code f = 2 \/ sf_code f = 3 \/ sf_code f = 4 \/ sf_code f = 5 \/ sf_code f = 6 \/ sf_code f = 7 \/
                     sf_code f = 8 \/ sf_code f = 9 \/ sf_code f = 10) by lia.
    destruct (expected_cases _ Hcases) as [Hft _]. rewrite Hft.
    destruct (Z.eqb (validate_field le seen h) V_VALID) eqn:Ev.
    + apply Z.eqb_eq in Ev. destruct (validate_field_sound_x le seen f h Hfh Hcases Ev) as (Ht & Hseen & Hcont).
      rewrite <- Ht, ty_eqb_refl, Hseen, Hcont. cbn [negb andb]. rewrite <- Hc. apply IH. rewrite Hc. exact H.
    + exfalso. rewrite H in Ev. discriminate.
Qed.

(* ---- mandatory fields, field lookup (as in LoaderComplete / LoaderSound, for the relaxed record) ---- *)
Lemma known_codes_has_x le : forall fs hs, Forall2 (hf_ok_x le) fs hs ->
  forall c, c <= 10 -> existsb (N.eqb c) (known_codes hs) = has_field c fs.
Proof.
  unfold known_codes, has_field. induction 1 as [|f h r hs Hfh Hr IH]; intros c Hc; [reflexivity|].
  destruct Hfh as (Hcode & _). cbn [filter existsb]. rewrite Hcode.
  destruct (sf_code f <=? DBUS_HEADER_FIELD_LAST) eqn:E; change DBUS_HEADER_FIELD_LAST with 10 in E.
  - cbn [map existsb]. rewrite Hcode. rewrite (IH c Hc). rewrite (N.eqb_sym c). reflexivity.
  - rewrite (IH c Hc). replace (sf_code f =? c) with false by lia. reflexivity.
Qed.

Lemma check_mandatory_ok_x le mt fs hs : Forall2 (hf_ok_x le) fs hs -> mandatory_ok mt fs = true ->
  check_mandatory mt (known_codes hs) = V_VALID.
Proof.
  intros HF Hm. unfold check_mandatory, mandatory_ok in *.
  pose proof (known_codes_has_x le fs hs HF) as K. unfold mandatory_fields.
  destruct (mt =? 1) eqn:E1; [apply N.eqb_eq in E1; subst mt|].
  { cbn [find fst N.eqb Pos.eqb check_required]. apply andb_true_iff in Hm. destruct Hm as [H1 H3].
    rewrite !K by lia. rewrite H1, H3. reflexivity. }
  destruct (mt =? 2) eqn:E2; [apply N.eqb_eq in E2; subst mt|].
  { cbn [find fst N.eqb Pos.eqb check_required]. rewrite !K by lia. rewrite Hm. reflexivity. }
  destruct (mt =? 3) eqn:E3; [apply N.eqb_eq in E3; subst mt|].
  { cbn [find fst N.eqb Pos.eqb check_required]. apply andb_true_iff in Hm. destruct Hm as [H4 H5].
    rewrite !K by lia. rewrite H4, H5. reflexivity. }
  destruct (mt =? 4) eqn:E4; [apply N.eqb_eq in E4; subst mt|].
  { cbn [find fst N.eqb Pos.eqb check_required]. apply andb_true_iff in Hm. destruct Hm as [Hm H3]. apply andb_true_iff in Hm. destruct Hm as [H1 H2].
    rewrite !K by lia. rewrite H1, H2, H3. reflexivity. }
  cbn [find fst].
  replace (3 =? mt) with false by lia. replace (1 =? mt) with false by lia.
  replace (2 =? mt) with false by lia. replace (4 =? mt) with false by lia. reflexivity.
Qed.

(* ---- G. looking up the SIGNATURE and UNIX_FDS fields ------------------------------- *)
Lemma field_value_find_x le : forall fs hs, Forall2 (hf_ok_x le) fs hs ->
  forall c, match find (fun f => sf_code f =? c) fs, field_value c hs with
            | Some f, Some h => hf_ok_x le f h
            | None, None => True
            | _, _ => False
            end.
Proof.
  unfold field_value. induction 1 as [|f h r hs Hfh Hr IH]; intros c; [exact I|].
  cbn [find]. pose proof Hfh as (Hc & _). rewrite Hc. destruct (sf_code f =? c); [exact Hfh | apply IH].
Qed.

Lemma fields_ok_x_find : forall fs seen f c t, fields_ok_x seen fs = true ->
  find (fun f => sf_code f =? c) fs = Some f -> field_ty c = Some t -> sf_ty f = t.
Proof.
  induction fs as [|f0 r IH]; intros seen f c t Hok Hfind Hft; [discriminate|].
  cbn [find fields_ok_x] in *. destruct (sf_code f0 =? 0); [discriminate|].
  destruct (sf_code f0 =? c) eqn:E.
  - apply N.eqb_eq in E. inversion Hfind; subst f0. rewrite E, Hft in Hok.
    apply andb_true_iff in Hok. destruct Hok as [Hok _]. apply andb_true_iff in Hok. destruct Hok as [Hok _].
    apply andb_true_iff in Hok. destruct Hok as [Hteq _]. apply ty_eqb_eq in Hteq. congruence.
  - destruct (field_ty (sf_code f0)).
    + apply andb_true_iff in Hok. destruct Hok as [_ Hok]. apply (IH _ f c t Hok Hfind Hft).
    + apply (IH _ f c t Hok Hfind Hft).
Qed.

Lemma check_mandatory_sound_x le mt fs hs : Forall2 (hf_ok_x le) fs hs ->
  check_mandatory mt (known_codes hs) = V_VALID -> mandatory_ok mt fs = true.
Proof.
  intros HF Hm. unfold check_mandatory, mandatory_ok in *.
  pose proof (known_codes_has_x le fs hs HF) as K. unfold mandatory_fields in Hm.
  destruct (mt =? 1) eqn:E1; [apply N.eqb_eq in E1; subst mt|].
  { cbn [find fst N.eqb Pos.eqb check_required] in Hm. rewrite !K in Hm by lia.
    destruct (has_field 1 fs); [|bad Hm]. destruct (has_field 3 fs); [reflexivity | bad Hm]. }
  destruct (mt =? 2) eqn:E2; [apply N.eqb_eq in E2; subst mt|].
  { cbn [find fst N.eqb Pos.eqb check_required] in Hm. rewrite !K in Hm by lia. destruct (has_field 5 fs); [reflexivity | bad Hm]. }
  destruct (mt =? 3) eqn:E3; [apply N.eqb_eq in E3; subst mt|].
  { cbn [find fst N.eqb Pos.eqb check_required] in Hm. rewrite !K in Hm by lia.
    destruct (has_field 4 fs); [|bad Hm]. destruct (has_field 5 fs); [reflexivity | bad Hm]. }
  destruct (mt =? 4) eqn:E4; [apply N.eqb_eq in E4; subst mt|].
  { cbn [find fst N.eqb Pos.eqb check_required] in Hm. rewrite !K in Hm by lia.
    destruct (has_field 2 fs); [|bad Hm]. destruct (has_field 1 fs); [|bad Hm]. destruct (has_field 3 fs); [reflexivity | bad Hm]. }
  reflexivity.
Qed.

(* the SIGNATURE field of a well-formed field array holds a signature the specification accepts *)
Lemma sig_of_fields_valid le fs hs : Forall2 (hf_ok_x le) fs hs -> fields_ok_x [] fs = true -> validate_signature (sig_of_fields fs) = true.
Proof.
  intros HF Hok. unfold sig_of_fields. pose proof (field_value_find_x le fs hs HF 8) as H.
  destruct (find (fun f => sf_code f =? 8) fs) as [f|] eqn:Ef; [|reflexivity].
  destruct (field_value 8 hs) as [h|]; [|contradiction].
  pose proof (fields_ok_x_find fs [] f 8 (TBasic 103) Hok Ef eq_refl) as Hty.
  destruct H as (_ & _ & Htv & _ & p & _ & Hwf & _). rewrite Hty in Htv.
  destruct (val_str_x le _ _ _ 103 ltac:(lia) Htv Hwf) as [s Es]. destruct f as [c ft x]. cbn [sf_val] in *. subst x.
  cbn [wfx] in Hwf. apply andb_true_iff in Hwf. exact (proj2 Hwf).
Qed.

Lemma sig_lookup_x le fs hs : Forall2 (hf_ok_x le) fs hs -> fields_ok_x [] fs = true ->
  match field_value DBUS_HEADER_FIELD_SIGNATURE hs with Some h => sig_payload (f_val h) | None => [] end = sig_of_fields fs.
Proof.
  intros HF Hok. unfold sig_of_fields. pose proof (field_value_find_x le fs hs HF 8) as H.
  change DBUS_HEADER_FIELD_SIGNATURE with 8.
  destruct (find (fun f => sf_code f =? 8) fs) as [f|] eqn:Ef; destruct (field_value 8 hs) as [h|]; try contradiction; [|reflexivity].
  pose proof (fields_ok_x_find fs [] f 8 (TBasic 103) Hok Ef eq_refl) as Hty.
  destruct H as (_ & _ & Htv & _ & p & _ & Hwf & Hv). rewrite Hty in Htv.
  destruct (val_str_x le _ _ _ 103 ltac:(lia) Htv Hwf) as [s Es]. destruct f as [c ft x]. cbn [sf_val] in *. subst x.
  rewrite Hv, enc_sig. apply sig_payload_raw.
Qed.

Lemma fds_lookup_x le fs hs : Forall2 (hf_ok_x le) fs hs -> fields_ok_x [] fs = true ->
  match field_value DBUS_HEADER_FIELD_UNIX_FDS hs with Some h => u32_at le (f_val h) 0 | None => 0 end = spec_nfds fs.
Proof.
  intros HF Hok. unfold spec_nfds. pose proof (field_value_find_x le fs hs HF 9) as H.
  change DBUS_HEADER_FIELD_UNIX_FDS with 9.
  destruct (find (fun f => sf_code f =? 9) fs) as [f|] eqn:Ef; destruct (field_value 9 hs) as [h|]; try contradiction; [|reflexivity].
  pose proof (fields_ok_x_find fs [] f 9 (TBasic 117) Hok Ef eq_refl) as Hty.
  destruct H as (_ & _ & Htv & _ & p & Hpad & Hwf & Hv). rewrite Hty in Htv, Hpad.
  destruct (val_u32_x le _ _ _ Htv Hwf) as (n & En & Hn). rewrite En in *.
  rewrite Hv. rewrite (enc_u32p le n p Hpad). replace (bytes_of le 4 n) with (bytes_of le 4 n ++ []) by apply app_nil_r.
  apply u32_raw. exact Hn.
Qed.

(* ==== D. messages: the loader accepts every loosely well-formed message ======================== *)
Definition wf_msg_x (m : smsg) : bool :=
  let le := s_le m in
  negb (s_type m =? 0) && (s_type m <? 256) && (s_flags m <? 256) &&
  negb (s_serial m =? 0) && (s_serial m <? 4294967296) &&
  wfx le 0 12 (fields_val le (s_fields m)) &&
  fields_ok_x [] (s_fields m) && mandatory_ok (s_type m) (s_fields m) &&
  bytes_eqb (s_sig m) (sig_of_fields (s_fields m)) &&
  validate_signature (s_sig m) &&
  match parse_sig (s_sig m) with
  | Some tys => (fix eq (a b : list ty) : bool :=
                   match a, b with [], [] => true | x :: a', y :: b' => ty_eqb x y && eq a' b' | _, _ => false end)
                  tys (map ty_of_val (s_body m))
  | None => false
  end &&
  wfxs le (s_body m) 0 0 &&
  (nlen (encs le (s_body m) 0) <=? max_message) &&
  (16 + nlen (encs le (map (enc_field le) (s_fields m)) 16) + pad_amount (16 + nlen (encs le (map (enc_field le) (s_fields m)) 16)) 8
     + nlen (encs le (s_body m) 0) <=? max_message).

Lemma wfxs_hdr le a b c d x y v : a < 256 -> b < 256 -> c < 256 -> d < 256 -> x < 4294967296 -> y < 4294967296 ->
  wfx le 0 12 v = true ->
  wfxs le [VNum 121 a; VNum 121 b; VNum 121 c; VNum 121 d; VNum 117 x; VNum 117 y; v] 0 0 = true.
Proof.
  intros Ha Hb Hc Hd Hx Hy Hv. cbn [wfxs]. rewrite !enc_byte. rewrite !nlen1.
  change (0 + 1 + 1 + 1 + 1) with 4.
  rewrite (enc_u32 le x 4) by reflexivity. rewrite (bytes_of_length le 4). change (4 + N.of_nat 4) with 8.
  rewrite (enc_u32 le y 8) by reflexivity. rewrite (bytes_of_length le 4). change (8 + N.of_nat 4) with 12.
  rewrite Hv. cbn [wfx fixed_size N.eqb Pos.eqb orb negb]. change (256 ^ 1) with 256. change (256 ^ 4) with 4294967296.
  unfold max_value_depth. repeat (apply andb_true_iff; split); lia.
Qed.

Lemma wf_fields_val_x le fs : wfx le 0 12 (fields_val le fs) = true ->
  wfxs le (map (enc_field le) fs) 1 16 = true /\ nlen (encs le (map (enc_field le) fs) 16) <= max_array.
Proof.
  intros W. unfold fields_val in W. rewrite wfx_arr in W. apply andb_true_iff in W. destruct W as [_ W].
  apply andb_true_iff in W. destruct W as [W Ws]. apply andb_true_iff in W. destruct W as [_ W]. unfold arr_start in *.
  change (pad_amount 12 4) with 0 in *. change (12 + 0 + 4) with 16 in *. change (spec_align (TStruct [TBasic 121; TVariant])) with 8 in *.
  change (pad_amount 16 8) with 0 in *. change (16 + 0) with 16 in *. change (0 + 1) with 1 in Ws. split; [exact Ws | lia].
Qed.

Lemma header_load_enc_x (le : bool) mt fl serial blen fs tail d :
  let payload := encs le (map (enc_field le) fs) 16 in
  let flen := nlen payload in
  let hlen := 16 + flen + pad_amount (16 + flen) 8 in
  d = [if le then 108 else 66; mt; fl; 1] ++ bytes_of le 4 blen ++ bytes_of le 4 serial ++ bytes_of le 4 flen ++ payload
      ++ zeros (pad_amount (16 + flen) 8) ++ tail ->
  mt <> 0 -> mt < 256 -> fl < 256 -> serial <> 0 -> serial < 4294967296 -> blen < 4294967296 ->
  wfx le 0 12 (fields_val le fs) = true -> wire_ok (fields_val le fs) = true ->
  fields_ok_x [] fs = true -> mandatory_ok mt fs = true ->
  exists hs, header_load le flen hlen d = inl hs /\ Forall2 (hf_ok_x le) fs hs.
Proof.
  intros payload flen hlen Hd Hmt0 Hmt Hfl Hs0 Hs Hbl Hwf Hk Hfok Hmand.
  destruct (wf_fields_val_x le fs Hwf) as [Hws Hfl_le]. fold payload in Hfl_le. fold flen in Hfl_le. unfold max_array in Hfl_le.
  assert (Hkall : forallb wire_ok (map (enc_field le) fs) = true).
  { unfold fields_val in Hk. cbn [wire_ok] in Hk. apply andb_true_iff in Hk. destruct Hk as [_ Hk]. exact Hk. }
  set (Z := zeros (pad_amount (16 + flen) 8)) in *.
  set (hv := [VNum 121 (if le then 108 else 66); VNum 121 mt; VNum 121 fl; VNum 121 1; VNum 117 blen; VNum 117 serial; fields_val le fs]).
  assert (Hbo : (if le then 108 else 66) < 256) by (destruct le; lia).
  assert (Hhv : encs le hv 0 = [if le then 108 else 66; mt; fl; 1] ++ bytes_of le 4 blen ++ bytes_of le 4 serial ++ bytes_of le 4 flen ++ payload).
  { subst hv. rewrite encs_hdr by (assumption || lia). rewrite enc_fields_val. reflexivity. }
  assert (Hhvlen : nlen (encs le hv 0) = 16 + flen).
  { rewrite Hhv. rewrite !nlen_app, !(bytes_of_length le 4). fold flen. change (nlen [if le then 108 else 66; mt; fl; 1]) with 4. lia. }
  assert (Hd1 : d = encs le hv 0 ++ Z ++ tail).
  { rewrite Hhv, Hd. rewrite <- !app_assoc. reflexivity. }
  (* 1. the header validated as a body of signature yyyyuua(yv) *)
  assert (A1 : exists c, validate_body_prefix le (map ty_of_val hv) d = inl c).
  { unfold validate_body_prefix. change (cur_of 0 d) with (curof 0 d). rewrite Hd1.
    rewrite (vb_seq_encs_x le hv 0 (Z ++ tail)).
    - eexists. reflexivity.
    - subst hv. apply wfxs_hdr; assumption || lia.
    - subst hv. cbn [forallb wire_ok]. rewrite Hk. reflexivity. }
  (* 2. padding *)
  assert (A2 : firstn (N.to_nat (hlen - (16 + flen))) (skipn (N.to_nat (16 + flen)) d) = Z).
  { rewrite Hd1. rewrite skipn_app_exact by (rewrite <- Hhvlen; symmetry; apply nlen_len).
    apply firstn_app_exact. subst Z hlen. unfold zeros. rewrite repeat_length. lia. }
  (* 3. explicit first 16 bytes *)
  destruct (bytes_of_4 le blen) as (a0 & a1 & a2 & a3 & Ea & Ua).
  destruct (bytes_of_4 le serial) as (b0 & b1 & b2 & b3 & Eb & Ub).
  destruct (bytes_of_4 le flen) as (c0 & c1 & c2 & c3 & Ec & Uc).
  rewrite Ea, Eb, Ec in Hd. cbn [app] in Hd.
  assert (A3 : byte_at d 1 = mt /\ byte_at d 3 = 1 /\ u32_at le d 8 = serial).
  { rewrite Hd. unfold u32_at, byte_at. cbn [nth Nat.add]. repeat split. apply Ub. exact Hs. }
  destruct A3 as (B1 & B3 & B8).
  assert (A4 : mkCur 16 (nlen d - 16) (skipn 16 d) = curof 16 (payload ++ Z ++ tail)).
  { rewrite Hd. cbn [skipn]. unfold curof. f_equal. rewrite !nlen_cons. lia. }
  (* 4. the fields *)
  destruct (read_fields_enc_x le fs (S (N.to_nat flen)) 1 16 (Z ++ tail) (16 + flen)) as (hs & Hrd & HF).
  { pose proof (length_le_encs_x le _ _ _ Hws) as L. rewrite map_length in L. fold payload in L. fold flen in L. lia. }
  { exact Hws. } { exact Hkall. } { reflexivity. }
  fold payload in Hrd.
  exists hs. split; [|exact HF].
  unfold header_load. rewrite header_tys_eq.
  change [TBasic 121; TBasic 121; TBasic 121; TBasic 121; TBasic 117; TBasic 117; TArray (TStruct [TBasic 121; TVariant])] with (map ty_of_val hv).
  destruct A1 as [c A1]. rewrite A1. rewrite A2. subst Z. rewrite all_zero_zeros. cbn [negb].
  rewrite B1, B3, B8. change DBUS_MESSAGE_TYPE_INVALID with 0. change DBUS_MAJOR_PROTOCOL_VERSION with 1.
  replace (mt =? 0) with false by lia. cbn [N.eqb Pos.eqb negb]. replace (serial =? 0) with false by lia.
  rewrite A4, Hrd.
  rewrite (validate_fields_ok_x le fs hs HF [] Hfok). change (negb (Z.eqb V_VALID V_VALID)) with false. cbv iota.
  rewrite (check_mandatory_ok_x le mt fs hs HF Hmand). reflexivity.
Qed.

Lemma wf_msg_x_inv m : wf_msg_x m = true ->
  s_type m <> 0 /\ s_type m < 256 /\ s_flags m < 256 /\ s_serial m <> 0 /\ s_serial m < 4294967296 /\
  wfx (s_le m) 0 12 (fields_val (s_le m) (s_fields m)) = true /\
  fields_ok_x [] (s_fields m) = true /\ mandatory_ok (s_type m) (s_fields m) = true /\
  s_sig m = sig_of_fields (s_fields m) /\ parse_sig (s_sig m) = Some (map ty_of_val (s_body m)) /\
  wfxs (s_le m) (s_body m) 0 0 = true /\ m_blen m <= max_message /\ m_hlen m + m_blen m <= max_message.
Proof.
  intros H. unfold wf_msg_x in H.
  apply andb_true_iff in H; destruct H as [H W].
  apply andb_true_iff in H; destruct H as [H W0].
  apply andb_true_iff in H; destruct H as [H W1].
  apply andb_true_iff in H; destruct H as [H W2].
  apply andb_true_iff in H; destruct H as [H W3].
  apply andb_true_iff in H; destruct H as [H W4].
  apply andb_true_iff in H; destruct H as [H W5].
  apply andb_true_iff in H; destruct H as [H W6].
  apply andb_true_iff in H; destruct H as [H W7].
  apply andb_true_iff in H; destruct H as [H W8].
  apply andb_true_iff in H; destruct H as [H W9].
  apply andb_true_iff in H; destruct H as [H W10].
  apply andb_true_iff in H; destruct H as [Wtype0 W11].
  apply bytes_eqb_eq in W4.
  destruct (parse_sig (s_sig m)) as [tys|] eqn:Hparse; [|discriminate]. apply tys_eq_list in W2. subst tys.
  unfold m_blen, m_hlen, m_flen, m_bodyb, m_payload.
  repeat split; try assumption; lia.
Qed.

Theorem validate_body_complete_x le : forall vs, wfxs le vs 0 0 = true -> forallb wire_ok vs = true ->
  validate_body le (map ty_of_val vs) (encs le vs 0) = V_VALID.
Proof.
  intros vs Hw Hk. unfold validate_body.
  assert (H : forall vs pos rest, wfxs le vs 0 pos = true -> forallb wire_ok vs = true ->
               vb_seq le (map ty_of_val vs) 0 (curof pos (encs le vs pos ++ rest)) = inl (curof (pos + nlen (encs le vs pos)) rest)).
  { clear. induction vs as [|x r IH]; intros pos rest Hw Hk.
    - cbn. rewrite N.add_0_r. reflexivity.
    - cbn [wfxs] in Hw. apply andb_true_iff in Hw. destruct Hw as [Hwx Hwr].
      cbn [forallb] in Hk. apply andb_true_iff in Hk. destruct Hk as [Hkx Hkr].
      cbn [map vb_seq encs]. rewrite <- app_assoc.
      pose proof (wfx_height le x 0 pos Hwx) as Hh.
      rewrite (vb_enc_x le x DEPTH_FUEL 0 pos _ Hwx Hkx) by (unfold DEPTH_FUEL; lia).
      rewrite (IH _ rest Hwr Hkr). rewrite nlen_app. cur_eq. lia. }
  specialize (H vs 0 [] Hw Hk). rewrite app_nil_r in H. unfold cur_of. fold (curof 0 (encs le vs 0)). rewrite H.
  cbn [curof crem]. reflexivity.
Qed.

Theorem loader_complete_x m rest avail :
  wf_msg_x m = true ->
  wire_ok (fields_val (s_le m) (s_fields m)) = true -> forallb wire_ok (s_body m) = true ->
  spec_nfds (s_fields m) <= avail ->
  let E := spec_encode_message m in
  have_message DBUS_MAXIMUM_MESSAGE_LENGTH (E ++ rest) = HaveOk (s_le m) (m_flen m) (m_hlen m) (m_blen m) true /\
  exists hs, Forall2 (hf_ok_x (s_le m)) (s_fields m) hs /\
    load_message (s_le m) (m_flen m) (m_hlen m) (m_blen m) avail (E ++ rest)
      = inl (mkMsg (firstn (N.to_nat (m_hlen m)) E) (m_bodyb m) hs (spec_nfds (s_fields m))) /\
    firstn (N.to_nat (m_hlen m)) E ++ m_bodyb m = E.
Proof.
  intros Hwf Hkf Hkb Hfds E.
  destruct (wf_msg_x_inv m Hwf) as (Hmt0 & Hmt & Hfl & Hs0 & Hs & Hwfv & Hfok & Hmand & Hsig & Hparse & Hwb & Hbl & Htot).
  unfold max_message in *.
  pose proof (encode_shape m) as HE. fold E in HE.
  destruct (wf_fields_val_x _ _ Hwfv) as [_ Hflen]. fold (m_payload m) in Hflen. fold (m_flen m) in Hflen. unfold max_array in Hflen.
  set (le := s_le m) in *. set (flen := m_flen m) in *. set (blen := m_blen m) in *. set (bodyb := m_bodyb m) in *.
  set (Z := zeros (pad_amount (16 + flen) 8)) in *.
  set (Hp := [if le then 108 else 66; s_type m; s_flags m; 1] ++ bytes_of le 4 blen ++ bytes_of le 4 (s_serial m) ++ bytes_of le 4 flen ++ m_payload m) in *.
  assert (Hhl : m_hlen m = 16 + flen + pad_amount (16 + flen) 8) by reflexivity.
  assert (Hal : align_up (16 + flen) 8 = m_hlen m) by (rewrite Hhl; apply align_up_pad; lia).
  assert (HpZ : length (Hp ++ Z) = N.to_nat (m_hlen m)).
  { subst Hp Z. rewrite <- nlen_len. f_equal. rewrite !nlen_app, !(bytes_of_length le 4), nlen_zeros. change (nlen (m_payload m)) with flen.
    change (nlen [if le then 108 else 66; s_type m; s_flags m; 1]) with 4. rewrite Hhl. lia. }
  assert (Hd : E ++ rest = [if le then 108 else 66; s_type m; s_flags m; 1] ++ bytes_of le 4 blen ++ bytes_of le 4 (s_serial m) ++ bytes_of le 4 flen
                  ++ m_payload m ++ Z ++ bodyb ++ rest).
  { rewrite HE. subst Hp. rewrite <- !app_assoc. reflexivity. }
  assert (Hd2 : E ++ rest = (Hp ++ Z) ++ bodyb ++ rest) by (rewrite HE; rewrite <- !app_assoc; reflexivity).
  assert (HE2 : E = (Hp ++ Z) ++ bodyb) by (rewrite HE; rewrite <- !app_assoc; reflexivity).
  split.
  - (* framing *)
    rewrite Hd. rewrite have_message_bytes; try (rewrite ?Hal; change DBUS_MAXIMUM_MESSAGE_LENGTH with 134217728; lia).
    + rewrite Hal. f_equal. rewrite !nlen_app. subst Z. rewrite nlen_zeros. change (nlen (m_payload m)) with flen. change (nlen bodyb) with blen. rewrite Hhl. lia.
  - (* loading *)
    destruct (header_load_enc_x le (s_type m) (s_flags m) (s_serial m) blen (s_fields m) (bodyb ++ rest) (E ++ rest)) as (hs & Hload & HF);
      try assumption; try lia.
    exists hs. split; [exact HF|]. split.
    + unfold load_message. change (header_load le flen (m_hlen m) (E ++ rest) = inl hs) in Hload. rewrite Hload.
      rewrite (sig_lookup_x le _ _ HF Hfok). rewrite <- Hsig. rewrite Hparse.
      assert (Hbody : firstn (N.to_nat blen) (skipn (N.to_nat (m_hlen m)) (E ++ rest)) = bodyb).
      { rewrite Hd2. rewrite skipn_app_exact by exact HpZ. apply firstn_app_exact. subst blen. symmetry. apply nlen_len. }
      rewrite Hbody.
      replace (validate_body le (map ty_of_val (s_body m)) bodyb) with V_VALID by (symmetry; apply (validate_body_complete_x le (s_body m) Hwb Hkb)).
      change (negb (Z.eqb V_VALID V_VALID)) with false. cbv iota.
      rewrite (fds_lookup_x le _ _ HF Hfok). replace (avail <? spec_nfds (s_fields m)) with false by lia.
      f_equal. f_equal. rewrite Hd2, HE2. rewrite !firstn_app_exact by exact HpZ. reflexivity.
    + rewrite HE2 at 1. rewrite firstn_app_exact by exact HpZ. symmetry. exact HE2.
Qed.

(* the wire premises are implied *)
Lemma wf_msg_x_wire m : wf_msg_x m = true ->
  wire_ok (fields_val (s_le m) (s_fields m)) = true /\ forallb wire_ok (s_body m) = true.
Proof.
  intros H. destruct (wf_msg_x_inv m H) as (_ & _ & _ & _ & _ & Wf & _ & _ & _ & Hp & Wb & _). split.
  - apply (wfx_wire_ok (s_le m) _ 0 12 Wf). reflexivity.
  - apply (wfxs_wire_ok_all (s_le m) _ 0 0 Wb). exact (parse_sig_tygood _ _ Hp).
Qed.

Theorem loader_complete_loose m rest avail :
  wf_msg_x m = true -> spec_nfds (s_fields m) <= avail ->
  let E := spec_encode_message m in
  have_message DBUS_MAXIMUM_MESSAGE_LENGTH (E ++ rest) = HaveOk (s_le m) (m_flen m) (m_hlen m) (m_blen m) true /\
  exists hs, Forall2 (hf_ok_x (s_le m)) (s_fields m) hs /\
    load_message (s_le m) (m_flen m) (m_hlen m) (m_blen m) avail (E ++ rest)
      = inl (mkMsg (firstn (N.to_nat (m_hlen m)) E) (m_bodyb m) hs (spec_nfds (s_fields m))) /\
    firstn (N.to_nat (m_hlen m)) E ++ m_bodyb m = E.
Proof. intros H Hf. destruct (wf_msg_x_wire m H) as [Kf Kb]. exact (loader_complete_x m rest avail H Kf Kb Hf). Qed.

(* the specification's well-formedness is a special case of the loose one *)
Theorem wf_msg_wf_msg_x m : wf_msg m = true -> wf_msg_x m = true.
Proof.
  intros H. unfold wf_msg in H.
  apply andb_true_iff in H; destruct H as [H W].
  apply andb_true_iff in H; destruct H as [H W0].
  apply andb_true_iff in H; destruct H as [H W1].
  apply andb_true_iff in H; destruct H as [H W2].
  apply andb_true_iff in H; destruct H as [H W3].
  apply andb_true_iff in H; destruct H as [H W4].
  apply andb_true_iff in H; destruct H as [H W5].
  apply andb_true_iff in H; destruct H as [H W6].
  apply andb_true_iff in H; destruct H as [H W7].
  unfold wf_msg_x. rewrite H, (proj1 (wfb_wfx _ _ _ _ W7)), (fields_ok_fields_ok_x _ _ W6), W5, W4, (spec_signature_validate _ W3), W2, W0, W.
  rewrite (proj1 (wfsb_wfxs (s_le m) (s_body m) ltac:(apply Forall_forall; intros v _ d p; apply wfb_wfx) 0 0 W1)). reflexivity.
Qed.

(* ==== E. soundness with the loose well-formedness as conclusion ================================= *)
Theorem load_message_sound_x max le fl hl bl fds d msg :
  max <= max_message -> all_bytes d = true ->
  have_message max d = HaveOk le fl hl bl true ->
  load_message le fl hl bl fds d = inl msg ->
  exists m, m_header msg ++ m_body msg = spec_encode_message m /\ s_le m = le /\
            nlen (spec_encode_message m) = hl + bl /\
            wf_msg_x m = true /\ spec_nfds (s_fields m) <= fds.
Proof.
  intros Hmax Hb Hh Hl.
  destruct (have_ok_facts _ _ _ _ _ _ Hh) as (B0 & Hfl & Hbl & Hhl & Mfl & Mbl & Mtot & Hfit).
  (* open load_message *)
  unfold load_message in Hl. destruct (header_load le fl hl d) as [hs|] eqn:HL; [|discriminate].
  set (sigb := match field_value DBUS_HEADER_FIELD_SIGNATURE hs with Some f => sig_payload (f_val f) | None => [] end) in *.
  destruct (parse_sig sigb) as [tys|] eqn:PS; [|discriminate]. cbv zeta in Hl.
  set (body := firstn (N.to_nat bl) (skipn (N.to_nat hl) d)) in *.
  destruct (Z.eqb (validate_body le tys body) V_VALID) eqn:VB; cbn [negb] in Hl; [|discriminate]. apply Z.eqb_eq in VB.
  destruct (fds <? _) eqn:FD; [discriminate|]. injection Hl as <-. cbn [m_header m_body].
  (* open header_load *)
  unfold header_load in HL. rewrite header_tys_eq in HL.
  destruct (validate_body_prefix le _ d) as [c0|] eqn:VP; [|discriminate].
  destruct (all_zero _) eqn:AZ in HL; cbn [negb] in HL; [|discriminate].
  change DBUS_MESSAGE_TYPE_INVALID with 0 in HL. change DBUS_MAJOR_PROTOCOL_VERSION with 1 in HL.
  destruct (byte_at d 1 =? 0) eqn:B1; [discriminate|].
  destruct (byte_at d 3 =? 1) eqn:B3; cbn [negb] in HL; [|discriminate].
  destruct (u32_at le d 8 =? 0) eqn:B8; [discriminate|].
  destruct (read_fields _ le _ _) as [hs0|] eqn:RF in HL; [|discriminate].
  destruct (Z.eqb (validate_fields le [] hs0) V_VALID) eqn:VF; cbn [negb] in HL; [|discriminate]. apply Z.eqb_eq in VF.
  destruct (Z.eqb (check_mandatory (byte_at d 1) (known_codes hs0)) V_VALID) eqn:CM; cbn [negb] in HL; [|discriminate]. apply Z.eqb_eq in CM.
  injection HL as ->.
  (* the header is the encoding of seven values *)
  unfold validate_body_prefix in VP.
  destruct (vb_seq_sound le hdr_tys 0 d c0 eq_refl Hb VP) as (vs & rest0 & Hts & Hws & Hks & Ed & _).
  destruct (hdr_shape le vs Hts Hws) as (a & b & c & e & x & y & fvs & -> & Ha & Hbb & Hc & He & Hx & Hy & WFA).
  pose proof WFA as WFA'. rewrite wfx_arr in WFA'. apply andb_true_iff in WFA'. destruct WFA' as [_ WFA'].
  apply andb_true_iff in WFA'. destruct WFA' as [WFA' Wfs]. apply andb_true_iff in WFA'. destruct WFA' as [Tfs Lfs].
  destruct (fields_shape le fvs _ _ Tfs Wfs) as [fs ->]. change (VArr FT (map (enc_field le) fs)) with (fields_val le fs) in *.
  assert (KFA : wire_ok (fields_val le fs) = true).
  { rewrite forallb_forall in Hks. apply Hks. do 6 right. left. reflexivity. }
  rewrite encs_hdr in Ed by assumption. rewrite enc_fields_val in Ed.
  set (payload := encs le (map (enc_field le) fs) 16) in *. set (flen := nlen payload) in *.
  assert (Hflen : flen <= max_array).
  { unfold arr_start in Lfs. change (pad_amount 12 4) with 0 in Lfs. change (12 + 0 + 4) with 16 in Lfs.
    change (spec_align FT) with 8 in Lfs. change (pad_amount 16 8) with 0 in Lfs. change (16 + 0) with 16 in Lfs. fold payload flen in Lfs. lia. }
  unfold max_array, max_message in *.
  rewrite <- !app_assoc in Ed.
  destruct (hdr_bytes le a b c e x y flen (payload ++ rest0) Hx Hy ltac:(lia)) as (D0 & D1 & D3 & D4 & D8 & D12 & D16 & Dlen).
  cbv zeta in *. rewrite <- Ed in D0, D1, D3, D4, D8, D12, D16, Dlen.
  rewrite D0 in B0. rewrite D1 in B1, CM. rewrite D3 in B3. rewrite D8 in B8. rewrite D12 in Hfl. rewrite D4 in Hbl. subst a fl bl.
  apply N.eqb_eq in B3. subst e.
  (* header padding *)
  assert (Hal : hl = 16 + flen + pad_amount (16 + flen) 8) by (rewrite Hhl; apply align_up_pad; lia).
  set (pad := pad_amount (16 + flen) 8) in *.
  set (H16 := [if le then 108 else 66; b; c; 1] ++ bytes_of le 4 x ++ bytes_of le 4 y ++ bytes_of le 4 flen) in *.
  assert (LH16 : length H16 = 16%nat).
  { unfold H16. rewrite !app_length, !bytes_of_len4. reflexivity. }
  assert (Ed2 : d = (H16 ++ payload) ++ rest0) by (rewrite Ed; unfold H16; rewrite <- !app_assoc; reflexivity).
  assert (LHP : length (H16 ++ payload) = N.to_nat (16 + flen)).
  { rewrite app_length, LH16. unfold flen, nlen. lia. }
  assert (Hrest0 : pad + x <= nlen rest0).
  { rewrite Ed2, nlen_app in Hfit. unfold nlen at 1 in Hfit. rewrite LHP in Hfit. lia. }
  assert (Hsk : skipn (N.to_nat (16 + flen)) d = rest0) by (rewrite Ed2; apply skipn_app_exact; exact LHP).
  rewrite Hsk in AZ. replace (hl - (16 + flen)) with pad in AZ by lia.
  apply all_zero_zeros_eq in AZ. rewrite nlen_firstn in AZ by lia.
  assert (Er0 : rest0 = zeros pad ++ skipn (N.to_nat pad) rest0) by (rewrite <- AZ; symmetry; apply firstn_skipn).
  set (rest1 := skipn (N.to_nat pad) rest0) in *.
  assert (Ed3 : d = (H16 ++ payload ++ zeros pad) ++ rest1).
  { rewrite Ed2. rewrite Er0 at 1. rewrite <- !app_assoc. reflexivity. }
  assert (LHZ : length (H16 ++ payload ++ zeros pad) = N.to_nat hl).
  { rewrite app_assoc, app_length, LHP. unfold zeros. rewrite repeat_length. lia. }
  assert (Hhdr : firstn (N.to_nat hl) d = H16 ++ payload ++ zeros pad) by (rewrite Ed3; apply firstn_app_exact; exact LHZ).
  assert (Hbody : body = firstn (N.to_nat x) rest1) by (unfold body; rewrite Ed3 at 1; rewrite skipn_app_exact by exact LHZ; reflexivity).
  assert (Lr1 : x <= nlen rest1) by (unfold rest1; rewrite bl_nlen_skipn; lia).
  assert (Lbody : nlen body = x) by (rewrite Hbody; apply nlen_firstn; exact Lr1).
  (* the body *)
  assert (Hbb1 : all_bytes body = true).
  { unfold body. apply ab_firstn, ab_skipn. exact Hb. }
  destruct (validate_body_sound_sig le sigb tys body PS Hbb1 VB) as (bvs & Hbt & Hbw & Hbk & Ebody).
  (* the abstract message *)
  set (m := mkSMsg le b c y fs sigb bvs).
  assert (Eenc : firstn (N.to_nat hl) d ++ body = spec_encode_message m).
  { rewrite encode_shape. unfold m_blen, m_flen, m_bodyb, m_payload, m. cbn [s_le s_type s_flags s_serial s_fields s_body].
    fold payload flen pad. rewrite <- Ebody, Lbody. rewrite Hhdr. unfold H16. rewrite <- !app_assoc. reflexivity. }
  exists m. split; [exact Eenc|]. split; [reflexivity|]. split.
  { rewrite <- Eenc, nlen_app, Lbody. f_equal. unfold nlen. rewrite Hhdr, LHZ. lia. }

  assert (Kall : forallb wire_ok (map (enc_field le) fs) = true).
  { unfold fields_val in KFA. cbn [wire_ok] in KFA. apply andb_true_iff in KFA. exact (proj2 KFA). }
  destruct (wf_fields_val_x le fs WFA) as [Wfs1 _].
  destruct (read_fields_enc_x le fs (S (N.to_nat flen)) 1 16 rest0 (16 + flen)) as (hs' & Hrd & HF).
  { pose proof (length_le_encs_x le _ _ _ Wfs1) as L. rewrite map_length in L. fold payload flen in L. lia. }
  { exact Wfs1. } { exact Kall. } { reflexivity. }
  fold payload in Hrd.
  assert (Ecur : mkCur 16 (nlen d - 16) (skipn 16 d) = curof 16 (payload ++ rest0)).
  { rewrite D16. unfold curof. f_equal. rewrite Dlen. lia. }
  rewrite Ecur, Hrd in RF. injection RF as <-.
  pose proof (validate_fields_sound_x le fs hs' HF [] VF) as W6.
  pose proof (check_mandatory_sound_x le b fs hs' HF CM) as W5.
  pose proof (sig_lookup_x le fs hs' HF W6) as Esig. fold sigb in Esig.
  pose proof (sig_of_fields_valid le fs hs' HF W6) as W3. rewrite <- Esig in W3.
  split.
  - unfold wf_msg_x, m. cbn [s_le s_type s_flags s_serial s_fields s_sig s_body].
    rewrite WFA, W6, W5, W3, Hbw, PS. rewrite <- Hbt, tys_eq_refl. rewrite <- Esig, bytes_eqb_refl.
    fold payload flen. rewrite <- Ebody, Lbody. fold pad.
    unfold max_message. repeat (apply andb_true_iff; split); try reflexivity; try lia.
  - unfold m. cbn [s_fields]. rewrite <- (fds_lookup_x le fs hs' HF W6). lia.
Qed.

(* ==== F. the characterisation ====================================================================== *)
(* For a buffer of bytes that the framing step declares to hold one complete message:
   the loader model accepts it  <->  the framed prefix is the canonical encoding of a loosely
   well-formed abstract message whose UNIX_FDS count does not exceed the available descriptors. *)
Theorem loader_characterisation le fl hl bl fds d :
  all_bytes d = true ->
  have_message max_message d = HaveOk le fl hl bl true ->
  ((exists msg, load_message le fl hl bl fds d = inl msg) <->
   (exists m, firstn (N.to_nat (hl + bl)) d = spec_encode_message m /\ wf_msg_x m = true /\ spec_nfds (s_fields m) <= fds)).
Proof.
  intros Hb Hh. split.
  - intros [msg Hl].
    destruct (load_message_sound_x max_message le fl hl bl fds d msg ltac:(lia) Hb Hh Hl) as (m & E & _ & _ & W & F).
    exists m. split; [|split; assumption]. rewrite <- E. symmetry. exact (load_message_bytes _ _ _ _ _ _ _ Hl).
  - intros (m & E & W & F).
    assert (Hd : d = spec_encode_message m ++ skipn (N.to_nat (hl + bl)) d) by (rewrite <- E; symmetry; apply firstn_skipn).
    destruct (loader_complete_loose m (skipn (N.to_nat (hl + bl)) d) fds W F) as (Hh' & hs & _ & Hload & _). cbv zeta in *.
    rewrite <- Hd in Hh', Hload. change DBUS_MAXIMUM_MESSAGE_LENGTH with max_message in Hh'. rewrite Hh in Hh'.
    injection Hh' as -> -> -> ->. eexists. exact Hload.
Qed.

(* the same, reading off the accepted message: its bytes are the encoding, and conversely the model returns
   exactly header ++ body = the encoding *)
Corollary loader_characterisation_bytes le fl hl bl fds d msg :
  all_bytes d = true -> have_message max_message d = HaveOk le fl hl bl true ->
  load_message le fl hl bl fds d = inl msg ->
  exists m, m_header msg ++ m_body msg = spec_encode_message m /\ firstn (N.to_nat (hl + bl)) d = spec_encode_message m /\
            wf_msg_x m = true /\ m_nfds msg = spec_nfds (s_fields m) /\ m_nfds msg <= fds.
Proof.
  intros Hb Hh Hl.
  destruct (load_message_sound_x max_message le fl hl bl fds d msg ltac:(lia) Hb Hh Hl) as (m & E & _ & _ & W & F).
  exists m. split; [exact E|]. pose proof (load_message_bytes _ _ _ _ _ _ _ Hl) as Eb. unfold msg_bytes in Eb. split; [rewrite <- Eb; exact E|].
  split; [exact W|].
  assert (Hd : d = spec_encode_message m ++ skipn (N.to_nat (hl + bl)) d) by (rewrite <- E, Eb; symmetry; apply firstn_skipn).
  destruct (loader_complete_loose m (skipn (N.to_nat (hl + bl)) d) fds W F) as (Hh' & hs & _ & Hload & _). cbv zeta in *.
  rewrite <- Hd in Hh', Hload. change DBUS_MAXIMUM_MESSAGE_LENGTH with max_message in Hh'. rewrite Hh in Hh'.
  injection Hh' as -> -> -> ->. rewrite Hl in Hload. injection Hload as ->. cbn [m_nfds]. split; [reflexivity | exact F].
Qed.

Print Assumptions loader_characterisation.
Print Assumptions load_message_sound_x.
Print Assumptions loader_complete_loose.

(* ==== G. the loose well-formedness differs from the specification's exactly by the three classes ===== *)
Lemma field_content_x_ok f : field_content_x f = true -> name_strict f = true -> field_content_ok f = true.
Proof.
  unfold field_content_x, name_strict. destruct ((sf_code f =? 6) || (sf_code f =? 7)) eqn:E; [|auto].
  unfold field_content_ok. destruct (sf_val f) as [c n|c s| | | | ]; try reflexivity.
  { intros _ _. replace (sf_code f =? 5) with false by lia. reflexivity. }
  intros Hv Hn.
  replace (sf_code f =? 1) with false by lia. replace (sf_code f =? 2) with false by lia.
  replace (sf_code f =? 3) with false by lia. replace (sf_code f =? 4) with false by lia. rewrite E.
  apply bus_name_sound; [exact Hv|].
  destruct s as [|c0 r0]; [reflexivity|]. destruct (N.eq_dec c0 58) as [->|Hne]; [exact Hn|].
  destruct c0 as [|q]; [reflexivity|]. do 6 (destruct q as [q|q|]; try reflexivity). congruence.
Qed.

Lemma fields_ok_x_strict : forall fs seen, fields_ok_x seen fs = true -> forallb name_strict fs = true -> fields_ok seen fs = true.
Proof.
  induction fs as [|f r IH]; intros seen H Hn; [reflexivity|]. cbn [fields_ok fields_ok_x forallb] in *.
  apply andb_true_iff in Hn. destruct Hn as [Hn1 Hn2].
  destruct (sf_code f =? 0); [discriminate|]. destruct (field_ty (sf_code f)) as [t|]; [|apply IH; assumption].
  apply andb_true_iff in H. destruct H as [H Hr]. apply andb_true_iff in H. destruct H as [H Hc].
  rewrite H, (field_content_x_ok f Hc Hn1), (IH _ Hr Hn2). reflexivity.
Qed.

Lemma wfxs_In le : forall vs depth pos v, wfxs le vs depth pos = true -> In v vs -> exists p, wfx le depth p v = true.
Proof.
  induction vs as [|x r IH]; intros depth pos v H Hin; [contradiction|]. cbn [wfxs] in H. apply andb_true_iff in H. destruct H as [H1 H2].
  destruct Hin as [->|Hin]; [exists pos; exact H1 | apply (IH _ _ _ H2 Hin)].
Qed.

Lemma sig_of_fields_strict le fs : wfx le 0 12 (fields_val le fs) = true -> fields_ok_x [] fs = true ->
  nodev 0 (fields_val le fs) = true -> spec_signature (sig_of_fields fs) = true.
Proof.
  intros W Hok Hn. unfold sig_of_fields. destruct (find (fun f => sf_code f =? 8) fs) as [f|] eqn:Ef; [|reflexivity].
  pose proof (fields_ok_x_find fs [] f 8 (TBasic 103) Hok Ef eq_refl) as Hty.
  apply find_some in Ef. destruct Ef as [Hin _].
  destruct f as [c ft x]. cbn [sf_ty] in Hty. subst ft. destruct x as [|c' s| | | | ]; try reflexivity.
  destruct (wf_fields_val_x le fs W) as [Ws _].
  destruct (wfxs_In le _ _ _ (enc_field le (mkSField c (TBasic 103) (VStr c' s))) Ws (in_map _ _ _ Hin)) as [p Wf].
  unfold enc_field in Wf. cbn [sf_code sf_ty sf_val] in Wf. rewrite wfx_struct in Wf.
  apply andb_true_iff in Wf. destruct Wf as [_ Wf]. cbn [negb andb wfxs] in Wf. apply andb_true_iff in Wf. destruct Wf as [_ Wf].
  rewrite andb_true_r in Wf. cbn [wfx ty_of_val] in Wf. apply andb_true_iff in Wf. destruct Wf as [_ Wf].
  apply andb_true_iff in Wf. destruct Wf as [Wf _]. apply andb_true_iff in Wf. destruct Wf as [Wt _].
  cbn [ty_eqb] in Wt. apply N.eqb_eq in Wt. subst c'.
  unfold fields_val in Hn. cbn [nodev] in Hn. apply andb_true_iff in Hn. destruct Hn as [_ Hn].
  rewrite forallb_forall in Hn. specialize (Hn _ (in_map (enc_field le) _ _ Hin)).
  unfold enc_field in Hn. cbn [sf_code sf_ty sf_val nodev forallb] in Hn.
  rewrite andb_true_r in Hn. apply andb_true_iff in Hn. destruct Hn as [_ Hn]. exact Hn.
Qed.

Theorem wf_msg_x_strict m : wf_msg_x m = true -> msg_strict m = true -> wf_msg m = true.
Proof.
  intros H Hs. unfold msg_strict in Hs. apply andb_true_iff in Hs. destruct Hs as [Hs SN]. apply andb_true_iff in Hs. destruct Hs as [SF SB].
  unfold wf_msg_x in H.
  apply andb_true_iff in H; destruct H as [H W].
  apply andb_true_iff in H; destruct H as [H W0].
  apply andb_true_iff in H; destruct H as [H W1].
  apply andb_true_iff in H; destruct H as [H W2].
  apply andb_true_iff in H; destruct H as [H W3].
  apply andb_true_iff in H; destruct H as [H W4].
  apply andb_true_iff in H; destruct H as [H W5].
  apply andb_true_iff in H; destruct H as [H W6].
  apply andb_true_iff in H; destruct H as [H W7].
  pose proof W4 as E4. apply bytes_eqb_eq in E4.
  unfold wf_msg. rewrite H, (wfx_wfb _ _ _ _ SF W7), (fields_ok_x_strict _ _ W6 SN), W5, W4, W2, W0, W, (wfxs_wfsb_all _ _ _ _ SB W1).
  rewrite E4, (sig_of_fields_strict _ _ W7 W6 SF). reflexivity.
Qed.

(* wf_msg = wf_msg_x /\ msg_strict : the three recorded classes are exactly the difference *)
Corollary wf_msg_iff m : wf_msg m = true <-> wf_msg_x m = true /\ msg_strict m = true.
Proof. split; [intros H; split; [apply wf_msg_wf_msg_x | apply wf_msg_strict]; exact H | intros [A B]; apply wf_msg_x_strict; assumption]. Qed.


(* ==== H. the loader model against the specification decoder ========================================= *)
(* For a framed complete buffer of bytes:
   (a) if the specification decoder accepts the buffer, the loader accepts it, with the same length and bytes;
   (b) if the loader accepts it, the accepted bytes are the encoding of a loosely well-formed message m, and
       the specification decoder returns exactly m on those bytes unless m falls in one of the three
       recorded classes (F2, F11, FD65: [msg_strict m = false]). *)
Theorem loader_vs_decoder le fl hl bl fds d :
  all_bytes d = true -> have_message max_message d = HaveOk le fl hl bl true ->
  (forall m n, spec_decode_message d = Some (m, n) -> spec_nfds (s_fields m) <= fds ->
     n = hl + bl /\ exists msg, load_message le fl hl bl fds d = inl msg /\ m_header msg ++ m_body msg = spec_encode_message m) /\
  (forall msg, load_message le fl hl bl fds d = inl msg ->
     exists m, m_header msg ++ m_body msg = spec_encode_message m /\ m_header msg ++ m_body msg = firstn (N.to_nat (hl + bl)) d /\
               wf_msg_x m = true /\
               (msg_strict m = true -> wf_msg m = true /\ spec_decode_message (m_header msg ++ m_body msg) = Some (m, hl + bl))).
Proof.
  intros Hb Hh. split.
  - intros m n Hd F. destruct (decode_implies_load d m n fds Hb Hd F) as (Hn & Hh' & msg & Hl & Hbytes & _).
    change DBUS_MAXIMUM_MESSAGE_LENGTH with max_message in Hh'. rewrite Hh in Hh'. injection Hh' as -> -> -> ->.
    split; [exact Hn|]. exists msg. split; [exact Hl|]. rewrite Hbytes. destruct (spec_decode_sound d m n Hb Hd) as (E & _). exact E.
  - intros msg Hl.
    destruct (load_message_sound_x max_message le fl hl bl fds d msg ltac:(lia) Hb Hh Hl) as (m & E & _ & Hn & W & _).
    exists m. split; [exact E|]. split; [exact (load_message_bytes _ _ _ _ _ _ _ Hl)|]. split; [exact W|].
    intros Hs. pose proof (wf_msg_x_strict m W Hs) as Wf. split; [exact Wf|].
    rewrite E, (message_roundtrip m Wf), Hn. reflexivity.
Qed.

(* ---- non-vacuity ---------------------------------------------------------------------------------- *)
(* the recorded F2 witness is the encoding of a message that is loosely but not strictly well formed *)
Definition f2_msg : smsg := mkSMsg true 5 3 2 [mkSField 6 (TBasic 115) (VStr 115 [58; 49; 45; 53])] [] [].
Example f2_msg_loose : spec_encode_message f2_msg = f2_witness /\ wf_msg_x f2_msg = true /\ wf_msg f2_msg = false /\ msg_strict f2_msg = false.
Proof. repeat split; vm_compute; reflexivity. Qed.

Example example_msg_loose : wf_msg_x example_msg = true /\ msg_strict example_msg = true.
Proof. split; vm_compute; reflexivity. Qed.

Example good_witness_characterised :
  all_bytes good_witness = true /\ have_message max_message good_witness = HaveOk true 61 80 0 true /\
  exists msg, load_message true 61 80 0 0 good_witness = inl msg.
Proof. split; [vm_compute; reflexivity|]. split; [vm_compute; reflexivity|]. eexists. vm_compute. reflexivity. Qed.

Print Assumptions wf_msg_iff.
Print Assumptions loader_vs_decoder.
