(* C15 proofs, part 4: the state against the history that produced it.  What a connection's loader
   accepted is, in order, part of what the client attached to its writes; what the process received
   is a sub-multiset of what the clients sent.  None of this needs the invariant. *)
From Coq Require Import Permutation.
From DV Require Import Lib.Base Gen.Tables Fds.Fds Proofs.FdsBase Proofs.FdsInv Proofs.FdsStep.
Require Import ZifyBool ZifyN ZifyNat.
Local Open Scope N_scope.

(* ---------------------------------------------------------------- order-preserving sublists *)
Inductive subseq {A : Type} : list A -> list A -> Prop :=
| ss_nil : subseq [] []
| ss_skip x l1 l2 : subseq l1 l2 -> subseq l1 (x :: l2)
| ss_take x l1 l2 : subseq l1 l2 -> subseq (x :: l1) (x :: l2).

Lemma subseq_nil_l {A} (l : list A) : subseq [] l.
Proof. induction l; [apply ss_nil | apply ss_skip; auto]. Qed.
Lemma subseq_refl {A} (l : list A) : subseq l l.
Proof. induction l; [apply ss_nil | apply ss_take; auto]. Qed.
Lemma subseq_app {A} (a b c d : list A) : subseq a b -> subseq c d -> subseq (a ++ c) (b ++ d).
Proof. induction 1; intros Hcd; simpl; [auto | apply ss_skip; auto | apply ss_take; auto]. Qed.

(* ---------------------------------------------------------------- what the history sent *)
Definition fds_of_event (e : event) : list fd := match e with EWrite _ _ fds => fds | _ => [] end.
Definition fds_of_event_by (c : N) (e : event) : list fd :=
  match e with EWrite c' _ fds => if c' =? c then fds else [] | _ => [] end.
Definition sent_fds (evs : list event) : list fd := concat (map fds_of_event evs).
Definition sent_by (c : N) (evs : list event) : list fd := concat (map (fds_of_event_by c) evs).

Lemma sent_fds_snoc evs e : sent_fds (evs ++ [e]) = sent_fds evs ++ fds_of_event e.
Proof. unfold sent_fds. rewrite map_app, concat_app. simpl. rewrite app_nil_r. reflexivity. Qed.
Lemma sent_by_snoc c evs e : sent_by c (evs ++ [e]) = sent_by c evs ++ fds_of_event_by c e.
Proof. unfold sent_by. rewrite map_app, concat_app. simpl. rewrite app_nil_r. reflexivity. Qed.

Lemma run_snoc cf evs : forall st e, run cf st (evs ++ [e]) = fst (step cf (run cf st evs) e).
Proof. induction evs as [|a evs IH]; intros st e; simpl; auto. Qed.

(* ---------------------------------------------------------------- unconditional growth facts *)
(* acc_step c c' sfds: the accepted list grew by nothing or by exactly the descriptors of this write *)
Definition acc_step (c c' : conn) (sfds : list fd) : Prop :=
  c_id c' = c_id c /\ exists A, c_acc c' = c_acc c ++ A /\ (A = [] \/ A = sfds).

Lemma acc_step_refl c sfds : acc_step c c sfds.
Proof. split; auto. exists []. rewrite app_nil_r. auto. Qed.

Lemma parse_acc c d h :
  match parse c d h with FMore c' | FCorrupt c' | FLoaded c' _ _ => c_id c' = c_id c /\ c_acc c' = c_acc c | FFault => True end.
Proof.
  unfold parse.
  repeat match goal with |- context [if ?b then _ else _] => destruct b end; simpl; auto.
Qed.

Lemma feed_acc c p :
  match feed c p with FMore c' | FCorrupt c' | FLoaded c' _ _ => c_id c' = c_id c /\ c_acc c' = c_acc c | FFault => True end.
Proof.
  unfold feed. destruct p; destruct (c_cur c) as [[? ?]|]; auto;
  match goal with |- context [if ?b then _ else _] => destruct b end; auto; apply parse_acc.
Qed.

Lemma feed_parts_acc ps : forall c, let '(c', _, _) := feed_parts c ps in c_id c' = c_id c /\ c_acc c' = c_acc c.
Proof.
  induction ps as [|p ps IH]; intros c; simpl; auto.
  pose proof (feed_acc c p) as P. destruct (feed c p) as [c1|c1 d F|c1|]; auto.
  - specialize (IH c1). destruct (feed_parts c1 ps) as [[c2 ?] ?]. destruct IH, P. split; congruence.
  - specialize (IH c1). destruct (feed_parts c1 ps) as [[c2 ?] ?]. destruct IH, P. split; congruence.
Qed.

Lemma recv_fds_hist cf now c may sfds led :
  let '(c1, led1, _) := recv_fds cf now c may sfds led in
  acc_step c c1 sfds /\ exists k, g_recv led1 = g_recv led ++ tag (c_id c) (firstn k sfds).
Proof.
  unfold recv_fds. destruct sfds as [|f0 sf].
  { split; [apply acc_step_refl|]. exists 0%nat. simpl. rewrite app_nil_r; auto. }
  destruct (c_neg c && may).
  - destruct (nlen (f0 :: sf) <=? room cf c).
    + split.
      * split; simpl; auto. eexists; split; [reflexivity|right; reflexivity].
      * exists (length (f0 :: sf)). rewrite firstn_all. reflexivity.
    + split; [apply acc_step_refl|]. eexists. simpl. reflexivity.
  - split; [apply acc_step_refl|]. exists 0%nat. simpl. rewrite app_nil_r; auto.
Qed.

Lemma acc_step_then_same c c1 c2 sfds :
  acc_step c c1 sfds -> c_id c2 = c_id c1 -> c_acc c2 = c_acc c1 -> acc_step c c2 sfds.
Proof. intros (I & A & E & H) I2 E2. split; [congruence|]. exists A. split; [congruence|auto]. Qed.

Lemma acc_step_then_nil c c1 c2 sfds : acc_step c c1 sfds -> acc_step c1 c2 [] -> acc_step c c2 sfds.
Proof.
  intros (I & A & E & H) (I2 & A2 & E2 & H2). split; [congruence|].
  assert (A2 = []) as -> by (destruct H2; auto). rewrite app_nil_r in E2.
  exists A. split; [congruence|auto].
Qed.

Lemma do_reading_hist cf now fuel : forall c sock sfds led acc total,
  let '(c', _, led', _) := do_reading fuel cf now c sock sfds led acc total in
  acc_step c c' sfds /\ exists k, g_recv led' = g_recv led ++ tag (c_id c) (firstn k sfds).
Proof.
  induction fuel as [|fuel IH]; intros c sock sfds led acc total; simpl.
  - split; [apply acc_step_refl|]. exists 0%nat. simpl. rewrite app_nil_r; auto.
  - assert (Hnop : acc_step c c sfds /\ exists k, g_recv led = g_recv led ++ tag (c_id c) (firstn k sfds)).
    { split; [apply acc_step_refl|]. exists 0%nat. simpl. rewrite app_nil_r; auto. }
    destruct (read_cap cf <? total); [exact Hnop|].
    destruct (get_buffer c) as [mx may].
    destruct (take_bytes (N.min mx (read_cap cf)) sock) as [taken rest].
    destruct taken as [|p0 tk]; [exact Hnop|].
    pose proof (recv_fds_hist cf now c may sfds led) as R.
    destruct (recv_fds cf now c may sfds led) as [[c1 led1] trunc]. destruct R as (A1 & R1).
    destruct trunc; [split; auto|].
    pose proof (feed_parts_acc (p0 :: tk) c1) as Fp.
    destruct (feed_parts c1 (p0 :: tk)) as [[c2 ld] s]. destruct Fp as (I2 & E2).
    assert (A2 : acc_step c c2 sfds) by (eapply acc_step_then_same; eauto).
    destruct s; try (split; auto; fail).
    specialize (IH c2 rest [] led1 (acc ++ ld) (total + bytes_of (p0 :: tk))).
    destruct (do_reading fuel cf now c2 rest [] led1 (acc ++ ld) (total + bytes_of (p0 :: tk))) as [[[c3 ?] led3] ?].
    destruct IH as (A3 & (k3 & R3)). split.
    + eapply acc_step_then_nil; eauto.
    + destruct R1 as (k & R1). exists k. rewrite R3, R1, firstn_nil. unfold tag; simpl. rewrite app_nil_r. reflexivity.
Qed.

Lemma dispatch_all_recv cf cs s gone q led : g_recv (snd (dispatch_all cf cs s gone q led)) = g_recv led.
Proof.
  pose proof (dispatch_all_spec cf cs s gone q led) as P.
  destruct (dispatch_all cf cs s gone q led) as [o led']. simpl. apply P.
Qed.

Lemma pump_hist cf now cs fuel : forall c sock sfds led o,
  let '(c', led', _, _) := pump fuel cf now cs c sock sfds led o in
  acc_step c c' sfds /\ exists k, g_recv led' = g_recv led ++ tag (c_id c) (firstn k sfds).
Proof.
  induction fuel as [|fuel IH]; intros c sock sfds led o.
  - simpl. split; [apply acc_step_refl|]. exists 0%nat. simpl. rewrite app_nil_r; auto.
  - cbn [pump].
    pose proof (do_reading_hist cf now (S fuel) c sock sfds led [] 0) as R.
    destruct (do_reading (S fuel) cf now c sock sfds led [] 0) as [[[c1 q] led1] rs].
    destruct R as (A1 & (k & R1)).
    pose proof (dispatch_all_recv cf cs (c_id c) (sender_gone rs) q led1) as D.
    destruct (dispatch_all cf cs (c_id c) (sender_gone rs) q led1) as [o1 led2]. simpl in D.
    assert (Hfin : acc_step c c1 sfds /\ exists k, g_recv led2 = g_recv led ++ tag (c_id c) (firstn k sfds)).
    { split; auto. exists k. congruence. }
    destruct rs as [|rest| | | |]; try exact Hfin.
    specialize (IH c1 rest [] led2 (o ++ o1)).
    destruct (pump fuel cf now cs c1 rest [] led2 (o ++ o1)) as [[[c3 led3] ?] ?].
    destruct IH as (A3 & (k3 & R3)). split.
    + eapply acc_step_then_nil; eauto.
    + exists k. rewrite R3, D, R1, firstn_nil. unfold tag; simpl. rewrite app_nil_r. reflexivity.
Qed.

(* ---------------------------------------------------------------- one event against the history *)
Definition recv_grow (st st' : state) (e : event) : Prop :=
  exists k, g_recv (st_led st') = g_recv (st_led st) ++
            match e with EWrite c _ fds => tag c (firstn k fds) | _ => [] end.

(* every record after the event continues a record before it (same id, accepted list extended by nothing or,
   for the writing connection, by the descriptors of the write), or is a new connection *)
Definition acc_grow (st st' : state) (e : event) : Prop :=
  forall y', In y' (all_conns st') ->
    (exists y, In y (all_conns st) /\ c_id y' = c_id y /\
       exists A, c_acc y' = c_acc y ++ A /\ (A = [] \/ A = fds_of_event_by (c_id y) e)) \/
    c_acc y' = [].

Lemma acc_grow_same st st' e :
  (forall y', In y' (all_conns st') -> In y' (all_conns st)) -> acc_grow st st' e.
Proof.
  intros H y' Hy. left. exists y'. splits; auto. exists []. rewrite app_nil_r. auto.
Qed.

Lemma drop_conn_all st l1 x l2 :
  st_conns st = l1 ++ x :: l2 -> (forall y, In y l1 -> c_id y <> c_id x) ->
  forall y', In y' (all_conns (drop_conn st x)) -> In y' (all_conns st).
Proof.
  intros Hcs Hn y' Hy. unfold all_conns in *. simpl in Hy.
  rewrite Hcs in Hy. rewrite del_conn_split in Hy by exact Hn. rewrite Hcs.
  apply in_app_or in Hy. destruct Hy as [Hy|Hy].
  - apply in_app_or in Hy. apply in_or_app. left. apply in_or_app. destruct Hy; [left|right; right]; auto.
  - apply in_app_or in Hy. destruct Hy as [Hy|[<-|[]]].
    + apply in_or_app. right; auto.
    + apply in_or_app. left. apply in_or_app. right. left; auto.
Qed.

Lemma step_hist cf st e : let st' := fst (step cf st e) in recv_grow st st' e /\ acc_grow st st' e.
Proof.
  destruct e as [neg listen|c ps fds|c|d]; unfold step.
  - simpl. split; [exists 0%nat; simpl; rewrite app_nil_r; auto|].
    intros y' Hy. unfold all_conns in *. simpl in Hy.
    apply in_app_or in Hy. destruct Hy as [Hy|Hy].
    + apply in_app_or in Hy. destruct Hy as [Hy|[<-|[]]].
      * left. exists y'. splits; auto. apply in_or_app; auto. exists []. rewrite app_nil_r; auto.
      * right. reflexivity.
    + left. exists y'. splits; auto. apply in_or_app; auto. exists []. rewrite app_nil_r; auto.
  - destruct (find_conn (st_conns st) c) as [x|] eqn:Ef.
    2:{ simpl. split; [exists 0%nat; simpl; rewrite app_nil_r; auto|]. apply acc_grow_same. auto. }
    destruct (find_conn_split _ _ _ Ef) as (l1 & l2 & Hcs & Hid & Hn).
    pose proof (pump_hist cf (st_now st) (st_conns st) (fuel_for ps) x ps fds (st_led st) []) as P.
    destruct (pump (fuel_for ps) cf (st_now st) (st_conns st) x ps fds (st_led st) []) as [[[x' led2] o] rs].
    destruct P as ((Hid' & A & EA & HA) & (k & R)).
    assert (Hn' : forall y, In y l1 -> c_id y <> c_id x) by (intros y Hy; rewrite Hid; apply Hn; auto).
    assert (Hupd : upd_conn (st_conns st) x' = l1 ++ x' :: l2) by (rewrite Hcs; apply upd_conn_split; auto).
    set (st1 := mkState (upd_conn (st_conns st) x') (st_dead st) (st_next st) (st_now st) led2 (st_fault st)).
    assert (G1 : acc_grow st st1 (EWrite c ps fds)).
    { intros y' Hy. left. unfold all_conns in *. simpl in Hy. rewrite Hupd in Hy. rewrite Hcs.
      apply in_app_or in Hy. destruct Hy as [Hy|Hy].
      - apply in_app_or in Hy. destruct Hy as [Hy|[<-|Hy]].
        + exists y'. splits; auto. apply in_or_app. left. apply in_or_app. left; auto. exists []. rewrite app_nil_r; auto.
        + exists x. splits; auto. apply in_or_app. left. apply in_or_app. right. left; auto.
          exists A. split; auto. destruct HA as [->| ->]; auto. right. simpl. rewrite Hid, N.eqb_refl. reflexivity.
        + exists y'. splits; auto. apply in_or_app. left. apply in_or_app. right. right; auto. exists []. rewrite app_nil_r; auto.
      - exists y'. splits; auto. apply in_or_app. right; auto. exists []. rewrite app_nil_r; auto. }
    assert (R1 : recv_grow st st1 (EWrite c ps fds)).
    { exists k. simpl. rewrite R, Hid. reflexivity. }
    assert (G2 : acc_grow st (drop_conn st1 x') (EWrite c ps fds)).
    { intros y' Hy. apply G1. eapply drop_conn_all; [exact Hupd| |exact Hy].
      intros y Hy0. rewrite Hid'. apply Hn'; auto. }
    fold st1. destruct rs; simpl; split; auto.
  - destruct (find_conn (st_conns st) c) as [x|] eqn:Ef.
    2:{ simpl. split; [exists 0%nat; simpl; rewrite app_nil_r; auto|]. apply acc_grow_same. auto. }
    destruct (find_conn_split _ _ _ Ef) as (l1 & l2 & Hcs & Hid & Hn).
    simpl. split; [exists 0%nat; simpl; rewrite app_nil_r; auto|].
    apply acc_grow_same. eapply drop_conn_all; [exact Hcs|]. intros y Hy. rewrite Hid. apply Hn; auto.
  - simpl. set (now' := st_now st + d).
    destruct (close_conns_fields (filter (expired cf now') (st_conns st)) (st_led st)) as (Fr & _).
    split; [exists 0%nat; simpl; rewrite Fr, app_nil_r; auto|].
    apply acc_grow_same. unfold all_conns; simpl. intros y' Hy.
    apply in_app_or in Hy. destruct Hy as [Hy|Hy].
    + apply filter_In in Hy. apply in_or_app. left. apply Hy.
    + apply in_app_or in Hy. destruct Hy as [Hy|Hy].
      * apply in_or_app. right; auto.
      * apply filter_In in Hy. apply in_or_app. left. apply Hy.
Qed.

(* ---------------------------------------------------------------- whole histories *)
Definition occ (l : list fd) (f : fd) : nat := count_occ N.eq_dec l f.

Lemma occ_app a b f : occ (a ++ b) f = (occ a f + occ b f)%nat.
Proof. apply count_occ_app. Qed.

Lemma occ_firstn_le k l f : (occ (firstn k l) f <= occ l f)%nat.
Proof.
  revert k. induction l as [|x l IH]; intros [|k]; simpl; try lia.
  specialize (IH k). unfold occ in *. destruct (N.eq_dec x f); lia.
Qed.

Lemma map_snd_tag c F : map snd (tag c F) = F.
Proof. unfold tag. rewrite map_map. simpl. apply map_id. Qed.

(* what the process received is a sub-multiset of what the clients attached to their writes *)
Theorem received_from_sent cf evs f : (occ (received (run cf init evs)) f <= occ (sent_fds evs) f)%nat.
Proof.
  induction evs as [|e evs IH] using rev_ind; [simpl; auto|].
  rewrite run_snoc, sent_fds_snoc, occ_app.
  destruct (step_hist cf (run cf init evs) e) as ((k & R) & _).
  unfold received in *. rewrite R, map_app, occ_app.
  destruct e; simpl; try lia.
  rewrite map_snd_tag. pose proof (occ_firstn_le k fds f). lia.
Qed.

(* what a connection's loader accepted is, in order, part of what that client sent *)
Theorem accepted_in_order cf evs x :
  In x (all_conns (run cf init evs)) -> subseq (c_acc x) (sent_by (c_id x) evs).
Proof.
  revert x. induction evs as [|e evs IH] using rev_ind; intros x Hx.
  - destruct Hx.
  - rewrite run_snoc in Hx. rewrite sent_by_snoc.
    destruct (step_hist cf (run cf init evs) e) as (_ & G).
    destruct (G x Hx) as [(y & Hy & Hid & A & EA & HA)|Hnil].
    + rewrite EA, Hid. apply subseq_app; [apply IH; exact Hy|].
      destruct HA as [->| ->]; [apply subseq_nil_l | apply subseq_refl].
    + rewrite Hnil. apply subseq_nil_l.
Qed.
