(* C13 proofs, part 5: a request is refused exactly when the resource it asks for is
   exhausted (counts read off the state, not the counters). *)
From DV Require Import Lib.Base Gen.Tables Wire.Names Registry.RegTypes Registry.Registry
  Spec.NamesSpec Spec.RegistrySpec Proofs.RegistryBase Proofs.RegistryInv Proofs.RegistryMain.
From DV Require Import Limits.Limits Spec.LimitsSpec Proofs.LimitsBase Proofs.LimitsReg Proofs.LimitsInv Proofs.LimitsMain.
From Coq Require Import ZifyBool ZifyN ZifyNat.
Local Open Scope N_scope.

Lemma acquire_refuse b cn name flags :
  match acquire_service b cn name flags with
  | RErr e => e = (if requestable name then ELimitsExceeded else EInvalidArgs) /\
              (requestable name = true -> b_limit b <= nlen (c_owned cn) /\ holds b (c_id cn) name = false)
  | _ => requestable name = true /\ (nlen (c_owned cn) < b_limit b \/ holds b (c_id cn) name = true)
  end.
Proof.
  pose proof (name_refused_spec name) as Hs. unfold name_refused in Hs.
  unfold acquire_service.
  destruct (negb (validate_bus_name name)) eqn:E1.
  { simpl in Hs. symmetry in Hs. apply negb_true_iff in Hs. rewrite Hs. split; [reflexivity | discriminate]. }
  destruct (starts_with_colon name) eqn:E2.
  { simpl in Hs. symmetry in Hs. apply negb_true_iff in Hs. rewrite Hs. split; [reflexivity | discriminate]. }
  destruct (bytes_eqb name DBUS_SERVICE_DBUS_str) eqn:E3.
  { simpl in Hs. symmetry in Hs. apply negb_true_iff in Hs. rewrite Hs. split; [reflexivity | discriminate]. }
  simpl in Hs. symmetry in Hs. apply negb_false_iff in Hs. rewrite Hs.
  change (match lookup (b_services b) (KW name) with
          | Some q => match find_owner q (c_id cn) with Some _ => true | None => false end
          | None => false end) with (holds b (c_id cn) name).
  destruct ((b_limit b <=? nlen (c_owned cn)) && negb (holds b (c_id cn) name)) eqn:El.
  { apply andb_true_iff in El. destruct El as [A B]. apply N.leb_le in A. apply negb_true_iff in B. split; [reflexivity | intros _; split; assumption]. }
  assert (Hok : nlen (c_owned cn) < b_limit b \/ holds b (c_id cn) name = true).
  { apply andb_false_iff in El. destruct El as [A|B]; [left; apply N.leb_gt; exact A | right; apply negb_false_iff; exact B]. }
  match goal with |- match ?X with _ => _ end => destruct X eqn:HX end; try (split; [reflexivity | exact Hok]).
  exfalso. break_hyp HX; discriminate.
Qed.

Lemma holds_spec L s c name : holds (reg L s) c name = holds_name s c name.
Proof.
  unfold holds, holds_name. simpl. destruct (lookup (s_services s) (KW name)) as [q|]; [|reflexivity].
  rewrite in_queue_queued. destruct (find_owner q c) eqn:E.
  - destruct (queued c q) eqn:Q; [reflexivity|]. apply find_owner_none in Q. rewrite Q in E. discriminate.
  - apply find_owner_none in E. rewrite E. reflexivity.
Qed.

Lemma refusal_single c m : refusal [(c, m)] = match m with OErr LLimitsExceeded => true | ONotAccepted => true | _ => false end.
Proof. unfold refusal, is_refusal. simpl. destruct m; try reflexivity. destruct e; reflexivity. Qed.

Lemma no_error_no_refusal ro : (forall o, In o ro -> not_error (snd o) = true) -> refusal (map conv ro) = false.
Proof.
  intros H. destruct (refusal (map conv ro)) eqn:Er; [|reflexivity]. exfalso.
  apply refusal_map_conv in Er. destruct Er as [o [Ho Eo]]. specialize (H o Ho). rewrite Eo in H. discriminate.
Qed.

Lemma request_refusal L s c name flags :
  refusal (snd (lstep L s (RequestName c name flags))) =
  match find_conn (s_conns s) c with
  | Some cn => c_active cn && requestable name && (max_names_per_connection L <=? nlen (c_owned cn)) && negb (holds_name s c name)
  | None => false
  end.
Proof.
  cbn [lstep]. unfold via_registry. destruct (step (reg L s) (EvRequest c name flags)) as [b' ro] eqn:Es.
  simpl in Es. unfold fault in Es.
  destruct (find_conn (s_conns s) c) as [cn|] eqn:Hf.
  - destruct (c_active cn) eqn:Ha; simpl in Es.
    + pose proof (acquire_refuse (reg L s) cn name flags) as Hr.
      assert (Hcid : c_id cn = c) by (apply find_conn_in in Hf; tauto). rewrite Hcid, holds_spec in Hr.
      assert (Hfalse : requestable name = true -> nlen (c_owned cn) < max_names_per_connection L \/ holds_name s c name = true ->
                       (max_names_per_connection L <=? nlen (c_owned cn)) && negb (holds_name s c name) = false).
      { intros _ [A|B]; [replace (max_names_per_connection L <=? nlen (c_owned cn)) with false by (symmetry; apply N.leb_gt; exact A); reflexivity
                        | rewrite B; apply andb_false_r]. }
      destruct (acquire_service (reg L s) cn name flags) eqn:Eacq.
      * inversion Es; subst. simpl. destruct Hr as [-> Hl]. destruct (requestable name) eqn:Erq; simpl.
        -- destruct (Hl eq_refl) as [A B]. simpl in A. rewrite B. replace (max_names_per_connection L <=? nlen (c_owned cn)) with true by (symmetry; apply N.leb_le; exact A). reflexivity.
        -- reflexivity.
      * destruct Hr as [Hrq Hl]. simpl in Hl. rewrite Hrq. simpl. rewrite (Hfalse Hrq Hl).
        inversion Es; subst b' ro. clear Es.
        destruct (existsb is_fault _); [reflexivity|]. cbn [snd].
        apply no_error_no_refusal. intros o Ho. eapply deliver_not_error; [|exact Ho].
        apply emits_ok_app; [apply signals_emits_ok; eapply acquire_signals; eauto|]. apply emits_ok_cons; [reflexivity|]. intros x [].
      * destruct Hr as [Hrq Hl]. simpl in Hl. rewrite Hrq. simpl. rewrite (Hfalse Hrq Hl).
        inversion Es; subst. reflexivity.
    + inversion Es; subst. reflexivity.
  - inversion Es; subst. reflexivity.
Qed.

Lemma release_refusal L s c name : refusal (snd (lstep L s (ReleaseName c name))) = false.
Proof.
  cbn [lstep]. unfold via_registry. destruct (step (reg L s) (EvRelease c name)) as [b' ro] eqn:Es.
  destruct (existsb is_fault ro); [reflexivity|]. cbn [snd].
  destruct (refusal (map conv ro)) eqn:Er; [|reflexivity]. exfalso.
  apply refusal_map_conv in Er. destruct Er as [o [Ho Eo]].
  assert (Hin : In o (snd (step (reg L s) (EvRelease c name)))) by (rewrite Es; exact Ho).
  destruct (step_error _ _ _ _ Hin Eo) as [_ [_ F]]. apply F. reflexivity.
Qed.

Lemma hello_refusal L s c :
  refusal (snd (lstep L s (Hello c))) =
  match find_conn (s_conns s) c, find_cd (s_cdata s) c with
  | Some cn, Some d => d_auth d && negb (c_active cn) &&
      ((max_completed_connections L <=? s_ncomplete s) || (max_connections_per_user L <=? get_uid (s_byuser s) (d_uid d)))
  | _, _ => false
  end.
Proof.
  cbn [lstep].
  destruct (find_conn (s_conns s) c) as [cn|] eqn:Hf; [|reflexivity].
  destruct (find_cd (s_cdata s) c) as [d|]; [|reflexivity].
  destruct (d_auth d); cbn [negb andb]; [|reflexivity].
  destruct (c_active cn) eqn:Ha; [reflexivity|]. simpl negb. rewrite andb_true_l.
  destruct (max_completed_connections L <=? s_ncomplete s); [reflexivity|].
  destruct (max_connections_per_user L <=? get_uid (s_byuser s) (d_uid d)); [reflexivity|].
  destruct (step (reg L s) (EvHello c)) as [b' ro] eqn:Es. destruct (existsb is_fault ro); [reflexivity|]. cbn [snd]. simpl orb.
  destruct (refusal (map conv ro)) eqn:Er; [|reflexivity]. exfalso.
  apply refusal_map_conv in Er. destruct Er as [o [Ho Eo]].
  assert (Hin : In o (snd (step (reg L s) (EvHello c)))) by (rewrite Es; exact Ho).
  destruct (step_error _ _ _ _ Hin Eo) as [_ [_ [cn' [Hf' Ha']]]]. simpl in Hf'. rewrite Hf in Hf'. inversion Hf'; subst. rewrite Ha in Ha'. discriminate.
Qed.

Lemma expect_scan_none l g sd s acc :
  expect_scan l g sd s acc = None <-> existsb (fun p => (p_get p =? g) && (p_send p =? sd) && (p_serial p =? s)) l = true.
Proof.
  revert acc. induction l as [|p l IH]; intros acc; simpl; [split; discriminate|].
  unfold pend_match. destruct (p_serial p =? s), (p_get p =? g), (p_send p =? sd); simpl; try (split; reflexivity); apply IH.
Qed.

Lemma call_refusal L s c d serial noreply :
  refusal (snd (lstep L s (Call c d serial noreply 0))) =
  registered s c && registered s d && negb noreply && negb (outstanding s c d serial) && (max_replies_per_connection L <=? n_awaiting s c).
Proof.
  cbn [lstep]. unfold registered, outstanding.
  destruct (find_conn (s_conns s) c) as [cn|] eqn:Hf; [|reflexivity].
  destruct (c_active cn); cbn [negb andb]; [|rewrite disconnect_no_refusal; reflexivity].
  unfold is_active. destruct (find_conn (s_conns s) d) as [dn|]; [|reflexivity].
  destruct (c_active dn); simpl; [|reflexivity].
  destruct noreply; simpl; [reflexivity|].
  destruct (expect_scan (s_pending s) c d serial 0) as [count|] eqn:Ex.
  - assert (Hn : existsb (fun p => (p_get p =? c) && (p_send p =? d) && (p_serial p =? serial)) (s_pending s) = false).
    { destruct (existsb _ (s_pending s)) eqn:Eb; [|reflexivity]. apply expect_scan_none with (acc := 0) in Eb. rewrite Eb in Ex. discriminate. }
    rewrite Hn. simpl. apply expect_scan_count in Ex. unfold n_awaiting. unfold cnt in Ex. rewrite N.add_0_l in Ex. subst count.
    destruct (max_replies_per_connection L <=? nlen (filter (fun p => p_get p =? c) (s_pending s))); reflexivity.
  - apply expect_scan_none in Ex. rewrite Ex. reflexivity.
Qed.

Lemma addmatch_refusal L s c r :
  refusal (snd (lstep L s (AddMatch c r))) =
  match find_conn (s_conns s) c, find_cd (s_cdata s) c with
  | Some cn, Some d => c_active cn && (max_match_rules_per_connection L <=? d_nrules d)
  | _, _ => false
  end.
Proof.
  cbn [lstep]. destruct (find_conn (s_conns s) c) as [cn|]; [|reflexivity]. destruct (find_cd (s_cdata s) c) as [d|]; [|reflexivity].
  destruct (c_active cn); simpl; [|reflexivity].
  destruct (max_match_rules_per_connection L <=? d_nrules d); [reflexivity|]. destruct r; reflexivity.
Qed.

Lemma refusal_signals l c tag : refusal (map (fun r : N => (r, OSignal c tag)) l) = false.
Proof. induction l as [|x l IH]; [reflexivity|]. exact IH. Qed.

Lemma linv_find_cd L s c x : linv L s -> find_conn (s_conns s) c = Some x -> exists d, find_cd (s_cdata s) c = Some d.
Proof.
  intros I Hf. destruct (find_cd (s_cdata s) c) eqn:E; [eauto|]. exfalso. apply find_cd_none in E. rewrite (li_ids _ _ I) in E.
  apply E. apply find_conn_in in Hf. destruct Hf as [Hin <-]. unfold ids. apply in_map. exact Hin.
Qed.

Theorem refusal_iff_exhausted L s e : linv L s -> plain e = true -> refusal (snd (lstep L s e)) = should_refuse L s e.
Proof.
  intros I Hplain. unfold should_refuse. destruct e.
  - cbn [lstep demand exhausted]. rewrite <- (li_ninc _ _ I). rewrite (li_watches _ _ I). unfold watches_for. rewrite negb_involutive.
    destruct (max_incomplete_connections L <=? s_nincomplete s) eqn:E; [reflexivity|].
    (* the assertion of bus_connections_setup_connection holds: accepting is only enabled below the limit *)
    apply N.leb_gt in E. replace (max_incomplete_connections L <? s_nincomplete s + 1) with false by (symmetry; apply N.ltb_ge; lia). reflexivity.
  - cbn [lstep demand]. destruct (find_cd (s_cdata s) c) as [d|]; [|reflexivity]. destruct (d_auth d); reflexivity.
  - rewrite hello_refusal. cbn [demand]. unfold connected, registered, authenticated, uid_of.
    destruct (find_conn (s_conns s) c) as [cn|] eqn:Hf; [|reflexivity].
    destruct (linv_find_cd L s c cn I Hf) as [d Hd]. rewrite Hd. simpl.
    destruct (d_auth d); simpl; [|reflexivity].
    destruct (c_active cn); simpl; [reflexivity|]. rewrite <- (li_ncomp _ _ I), <- (li_user _ _ I). reflexivity.
  - cbn [lstep demand]. apply disconnect_no_refusal.
  - rewrite request_refusal. cbn [demand]. unfold registered.
    destruct (find_conn (s_conns s) c) as [cn|] eqn:Hf; [|reflexivity].
    destruct (c_active cn); simpl; [|reflexivity]. destruct (requestable name); simpl; [|reflexivity].
    apply find_conn_in in Hf. destruct Hf as [Hin <-]. rewrite (linv_names_exact L s cn I Hin).
    destruct (holds_name s (c_id cn) name); simpl; [apply andb_false_r | apply andb_true_r].
  - rewrite release_refusal. reflexivity.
  - rewrite addmatch_refusal. cbn [demand]. unfold registered.
    destruct (find_conn (s_conns s) c) as [cn|] eqn:Hf; [|reflexivity].
    destruct (linv_find_cd L s c cn I Hf) as [d Hd]. rewrite Hd.
    destruct (c_active cn); simpl; [|reflexivity]. apply find_cd_in in Hd. destruct Hd as [Hin <-]. rewrite (li_nrules _ _ I d Hin). reflexivity.
  - cbn [lstep demand]. destruct (find_conn (s_conns s) c) as [cn|]; [|reflexivity]. destruct (find_cd (s_cdata s) c) as [d|]; [|reflexivity].
    destruct (negb (c_active cn)); [reflexivity|]. destruct rule; [|reflexivity]. destruct (remove_rule (s_rules s) c n); reflexivity.
  - simpl in Hplain. apply N.eqb_eq in Hplain. subst rserial. rewrite call_refusal. cbn [demand]. destruct (registered s c && registered s d && negb noreply && negb (outstanding s c d serial)); reflexivity.
  - cbn [lstep demand]. destruct (find_conn (s_conns s) d) as [dn|]; [|reflexivity].
    destruct (negb (c_active dn)); [apply disconnect_no_refusal|]. destruct (negb (is_active s c)); reflexivity.
  - cbn [lstep demand]. destruct (expire_one (s_pending s) c serial); reflexivity.
  - cbn [lstep demand]. destruct (find_conn (s_conns s) c) as [cn|]; [|reflexivity].
    destruct (negb (c_active cn)); [apply disconnect_no_refusal | apply refusal_signals].
  - cbn [lstep demand]. destruct (find_conn (s_conns s) c) as [cn|]; [|reflexivity].
    destruct (find_cd (s_cdata s) c) as [d|]; [|reflexivity].
    destruct (too_long_at (d_maxmsg d) hdr); [apply disconnect_no_refusal | reflexivity].
Qed.

Theorem refused_exactly_when_exhausted_proved : refused_exactly_when_exhausted.
Proof. intros L H h e Hp. cbv zeta. apply refusal_iff_exhausted; [|exact Hp]. apply reachable_linv. apply all_at_least_one_usable. exact H. Qed.
