(* Equations for the body validator model [vb] (Wire/Body.v), one per shape of
   type, with the inner fixpoints named. *)
From DV Require Import Lib.Base Gen.Tables Wire.Body Spec.SigSpec.
From Coq Require Import ZArith.
Local Open Scope N_scope.

Fixpoint vbs (le : bool) (d : nat) (ts : list ty) (depth : N) (c : cursor) : res :=
  match ts with
  | [] => inl c
  | t :: r => match vb le d t depth c with
              | inr e => inr e
              | inl c' => vbs le d r depth c'
              end
  end.

Fixpoint vb_elems (le : bool) (d : nat) (et : ty) (depth array_end : N) (n : nat) (c : cursor) : res :=
  match n with
  | O => inr V_OUT_OF_FUEL
  | S n' =>
      if cpos c <? array_end then
        if maxdepth <? depth + 1 then inr V_INVALID_NESTED_TOO_DEEPLY
        else match vb le d et (depth + 1) c with
             | inr e => inr e
             | inl c' => vb_elems le d et depth array_end n' c'
             end
      else inl c
  end.

Lemma seq_inner le d : forall ts depth c,
  (fix seq (ts : list ty) (depth : N) (c : cursor) {struct ts} : res :=
     match ts with
     | [] => inl c
     | t :: r => match vb le d t depth c with
                 | inr e => inr e
                 | inl c' => seq r depth c'
                 end
     end) ts depth c = vbs le d ts depth c.
Proof. induction ts as [|t r IH]; intros depth c; [reflexivity|]. cbn [vbs]. destruct (vb le d t depth c); [apply IH|reflexivity]. Qed.

Lemma elems_inner_vb le d et depth array_end : forall n c,
  (fix elems (n : nat) (c : cursor) {struct n} : res :=
     match n with
     | O => inr V_OUT_OF_FUEL
     | S n' =>
         if cpos c <? array_end then
           if maxdepth <? depth + 1 then inr V_INVALID_NESTED_TOO_DEEPLY
           else match vb le d et (depth + 1) c with
                | inr e => inr e
                | inl c' => elems n' c'
                end
         else inl c
     end) n c = vb_elems le d et depth array_end n c.
Proof.
  induction n as [|n IH]; intros c; [reflexivity|]. cbn [vb_elems].
  destruct (cpos c <? array_end); [|reflexivity]. destruct (maxdepth <? depth + 1); [reflexivity|].
  destruct (vb le d et (depth + 1) c); [apply IH|reflexivity].
Qed.

Lemma vb_struct le d ts depth c : (crem c =? 0) = false ->
  vb le (S d) (TStruct ts) depth c =
  let a := align_up (cpos c) 8 in
  if cpos c + crem c <? a then inr V_INVALID_NOT_ENOUGH_DATA
  else match pad_to c a with
       | inr e => inr e
       | inl c1 => if maxdepth <? depth + 1 then inr V_INVALID_NESTED_TOO_DEEPLY else vbs le d ts (depth + 1) c1
       end.
Proof.
  intros H. cbn [vb]. rewrite H. cbv zeta. destruct (cpos c + crem c <? align_up (cpos c) 8); [reflexivity|].
  destruct (pad_to c (align_up (cpos c) 8)) as [c1|e]; [|reflexivity]. destruct (maxdepth <? depth + 1); [reflexivity|]. apply (seq_inner le d ts (depth + 1) c1).
Qed.

Lemma vb_dict le d k v depth c : (crem c =? 0) = false ->
  vb le (S d) (TDict k v) depth c =
  let a := align_up (cpos c) 8 in
  if cpos c + crem c <? a then inr V_INVALID_NOT_ENOUGH_DATA
  else match pad_to c a with
       | inr e => inr e
       | inl c1 => if maxdepth <? depth + 1 then inr V_INVALID_NESTED_TOO_DEEPLY else vbs le d [TBasic k; v] (depth + 1) c1
       end.
Proof.
  intros H. cbn [vb]. rewrite H. cbv zeta. destruct (cpos c + crem c <? align_up (cpos c) 8); [reflexivity|].
  destruct (pad_to c (align_up (cpos c) 8)); [|reflexivity]. destruct (maxdepth <? depth + 1); [reflexivity|].
  cbn [vbs]. destruct (vb le d (TBasic k) (depth + 1) c0); [|reflexivity]. destruct (vb le d v (depth + 1) c1); reflexivity.
Qed.

Lemma vb_array le d et depth c : (crem c =? 0) = false ->
  vb le (S d) (TArray et) depth c =
  match read_len32 le c with
  | inr e => inr e
  | inl (len, c2) =>
      let al := ty_alignment et in
      let a := align_up (cpos c2) al in
      if cpos c2 + crem c2 <? a then inr V_INVALID_NOT_ENOUGH_DATA
      else match pad_to c2 a with
           | inr e => inr e
           | inl c3 =>
               if crem c3 <? len then inr V_INVALID_LENGTH_OUT_OF_BOUNDS
               else if len =? 0 then inl c3
               else if DBUS_MAXIMUM_ARRAY_LENGTH <? len then inr V_INVALID_ARRAY_LENGTH_EXCEEDS_MAXIMUM
               else
                 let array_end := cpos c3 + len in
                 let r : res :=
                   if ty_is_fixed et then
                     if negb (len mod al =? 0) then inr V_INVALID_ARRAY_LENGTH_INCORRECT else
                     match et with
                     | TBasic code =>
                         if code =? DBUS_TYPE_BOOLEAN then bool_array_loop (S (N.to_nat len)) le c3 array_end
                         else inl (advance c3 len)
                     | _ => inl (advance c3 len)
                     end
                   else vb_elems le d et depth array_end (S (N.to_nat len)) c3 in
                 match r with
                 | inr e => inr e
                 | inl c4 => if cpos c4 =? array_end then inl c4 else inr V_INVALID_ARRAY_LENGTH_INCORRECT
                 end
           end
  end.
Proof.
  intros H. cbn [vb]. rewrite H. destruct (read_len32 le c) as [[len c2]|e]; [|reflexivity]. cbv zeta.
  destruct (cpos c2 + crem c2 <? align_up (cpos c2) (ty_alignment et)); [reflexivity|].
  destruct (pad_to c2 (align_up (cpos c2) (ty_alignment et))) as [c3|e]; [|reflexivity].
  destruct (crem c3 <? len); [reflexivity|]. destruct (len =? 0); [reflexivity|].
  destruct (DBUS_MAXIMUM_ARRAY_LENGTH <? len); [reflexivity|].
  destruct (ty_is_fixed et); [reflexivity|]. rewrite (elems_inner_vb le d et depth (cpos c3 + len) (S (N.to_nat len)) c3). reflexivity.
Qed.

Lemma vb_byte le d depth c : (crem c =? 0) = false ->
  vb le (S d) (TBasic DBUS_TYPE_BYTE) depth c = inl (advance c 1).
Proof. intros H. cbn [vb]. rewrite H. rewrite N.eqb_refl. reflexivity. Qed.

Lemma vb_fixed le d code depth c : (crem c =? 0) = false -> (code =? DBUS_TYPE_BYTE) = false -> type_fixed code = true ->
  vb le (S d) (TBasic code) depth c =
  let al := type_alignment code in
  let a := align_up (cpos c) al in
  if cpos c + crem c <=? a then inr V_INVALID_NOT_ENOUGH_DATA
  else match pad_to c a with
       | inr e => inr e
       | inl c1 =>
           let post (c1 : cursor) : res := if crem c1 <? al then inr V_INVALID_NOT_ENOUGH_DATA else inl (advance c1 al) in
           if code =? DBUS_TYPE_BOOLEAN then
             if crem c1 <? 4 then inr V_INVALID_NOT_ENOUGH_DATA
             else match peek4 c1 with
                  | None => inr V_FAULT
                  | Some q => let v := unpack32 le q in
                              if (v =? 0) || (v =? 1) then post c1 else inr V_INVALID_BOOLEAN_NOT_ZERO_OR_ONE
                  end
           else post c1
       end.
Proof. intros H Hb Hf. cbn [vb]. rewrite H, Hb, Hf. reflexivity. Qed.

Lemma vb_string le d code depth c : (crem c =? 0) = false -> (code =? DBUS_TYPE_BYTE) = false -> type_fixed code = false ->
  ((code =? DBUS_TYPE_STRING) || (code =? DBUS_TYPE_OBJECT_PATH)) = true ->
  vb le (S d) (TBasic code) depth c =
  match read_len32 le c with
  | inr e => inr e
  | inl (len, c2) =>
      if crem c2 <? len then inr V_INVALID_LENGTH_OUT_OF_BOUNDS
      else
        let s := firstn (N.to_nat len) (cdat c2) in
        let ok := if code =? DBUS_TYPE_OBJECT_PATH then
                    if validate_path s then None else Some V_INVALID_BAD_PATH
                  else match validate_utf8 s with
                       | Some true => None
                       | Some false => Some V_INVALID_BAD_UTF8_IN_STRING
                       | None => Some V_OUT_OF_FUEL
                       end in
        match ok with
        | Some e => inr e
        | None =>
            let c3 := advance c2 len in
            if crem c3 =? 0 then inr V_INVALID_NOT_ENOUGH_DATA
            else match take1 c3 with
                 | None => inr V_FAULT
                 | Some (b, c4) => if b =? 0 then inl c4 else inr V_INVALID_STRING_MISSING_NUL
                 end
        end
  end.
Proof. intros H Hb Hf Hs. cbn [vb]. rewrite H, Hb, Hf, Hs. reflexivity. Qed.

Lemma vb_signature le d depth c : (crem c =? 0) = false ->
  vb le (S d) (TBasic DBUS_TYPE_SIGNATURE) depth c =
  match take1 c with
  | None => inr V_FAULT
  | Some (len, c1) =>
      if crem c1 <? len + 1 then inr V_INVALID_SIGNATURE_LENGTH_OUT_OF_BOUNDS
      else
        let s := firstn (N.to_nat len) (cdat c1) in
        let v := validate_signature_reason s in
        if negb (Z.eqb v V_VALID) then inr v
        else match take1 (advance c1 len) with
             | None => inr V_FAULT
             | Some (b, c2) => if b =? 0 then inl c2 else inr V_INVALID_SIGNATURE_MISSING_NUL
             end
  end.
Proof. intros H. cbn [vb]. rewrite H. reflexivity. Qed.

Lemma vb_variant le d depth c : (crem c =? 0) = false ->
  vb le (S d) TVariant depth c =
  match take1 c with
  | None => inr V_FAULT
  | Some (len, c1) =>
      if crem c1 <? len + 1 then inr V_INVALID_VARIANT_SIGNATURE_LENGTH_OUT_OF_BOUNDS
      else
        let s := firstn (N.to_nat len) (cdat c1) in
        if negb (Z.eqb (validate_signature_reason s) V_VALID) then inr V_INVALID_VARIANT_SIGNATURE_BAD
        else match take1 (advance c1 len) with
             | None => inr V_FAULT
             | Some (b, c2) =>
                 if negb (b =? 0) then inr V_INVALID_VARIANT_SIGNATURE_MISSING_NUL
                 else match parse_sig s with
                      | None => inr V_MODEL_GAP
                      | Some [] => inr V_INVALID_VARIANT_SIGNATURE_EMPTY
                      | Some (ct :: more) =>
                          let a := align_up (cpos c2) (ty_alignment ct) in
                          if cpos c2 + crem c2 <? a then inr V_INVALID_NOT_ENOUGH_DATA
                          else match pad_to c2 a with
                               | inr e => inr e
                               | inl c3 =>
                                   if maxdepth <? depth + 1 then inr V_INVALID_NESTED_TOO_DEEPLY
                                   else match vb le d ct (depth + 1) c3 with
                                        | inr e => inr e
                                        | inl c4 =>
                                            match more with
                                            | [] => inl c4
                                            | _ => inr V_INVALID_VARIANT_SIGNATURE_SPECIFIES_MULTIPLE_VALUES
                                            end
                                        end
                               end
                      end
             end
  end.
Proof. intros H. cbn [vb]. rewrite H. reflexivity. Qed.
