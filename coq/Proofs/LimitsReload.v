(* C13 proofs, part 7: the configuration is reloaded in mid-history (bus_context_reload_config).
   Counts above a lowered limit stay, but never grow; the listening state and the loaders'
   maxima are stale until something refreshes them. *)
From DV Require Import Lib.Base Gen.Tables Wire.Names Registry.RegTypes Registry.Registry
  Spec.NamesSpec Spec.RegistrySpec Proofs.RegistryBase Proofs.RegistryInv Proofs.RegistryMain.
From DV Require Import Limits.Limits Spec.LimitsSpec Proofs.LimitsBase Proofs.LimitsReg Proofs.LimitsInv Proofs.LimitsMain Proofs.LimitsRefuse Proofs.LimitsFree.
From Coq Require Import ZifyBool ZifyN ZifyNat.
Local Open Scope N_scope.

(* ---- the structural invariant with bounds read off the state itself ------------------------------------------ *)
Lemma ginv_names_exact B s x : ginv B s -> In x (s_conns s) -> nlen (c_owned x) = n_names s (c_id x).
Proof. intros I Hx. exact (names_exact (reg0 s) x (gi_reg _ _ I) Hx). Qed.

Lemma ginv_names_le B s c : ginv B s -> n_names s c <= b_names B c.
Proof.
  intros I. destruct (in_dec N.eq_dec c (ids (s_conns s))) as [Hin|Hn].
  - destruct (in_ids_find _ _ Hin) as [x Hx]. apply find_conn_in in Hx. destruct Hx as [Hx <-].
    rewrite <- (ginv_names_exact B s x I Hx). exact (gi_bounded _ _ I x Hx).
  - unfold n_names. pose proof (names_dead (reg0 s) c (gi_reg _ _ I) Hn) as E. simpl in E. rewrite E. unfold nlen. simpl. lia.
Qed.

Lemma ginv_rules_le B s c : ginv B s -> n_rules s c <= b_rules B c.
Proof.
  intros I. destruct (find_cd (s_cdata s) c) as [d|] eqn:Hd.
  - apply find_cd_in in Hd. destruct Hd as [Hin <-]. rewrite <- (gi_nrules _ _ I d Hin). exact (gi_rules_le _ _ I d Hin).
  - apply find_cd_none in Hd. rewrite (gi_ids _ _ I) in Hd. unfold n_rules.
    change (cnt (fun e => fst e =? c) (s_rules s) <= b_rules B c).
    rewrite (cnt_zero (fun e => fst e =? c) (s_rules s)); [lia|]. intros e He. apply N.eqb_neq. intros E. apply Hd. rewrite <- E.
    exact (gi_rules_live _ _ I e He).
Qed.

(* the bounds "what the state holds now, or the limit if that is more" *)
Definition own_or (L : limits) (s : state) : bounds :=
  mkB (N.max (s_ncomplete s) (max_completed_connections L))
      (fun u => N.max (get_uid (s_byuser s) u) (max_connections_per_user L))
      (N.max (s_nincomplete s) (max_incomplete_connections L))
      (fun c => N.max (n_names s c) (max_names_per_connection L))
      (fun c => N.max (n_rules s c) (max_match_rules_per_connection L))
      (fun c => N.max (n_awaiting s c) (max_replies_per_connection L)).

Lemma own_or_covers L s : covers (own_or L s) L.
Proof. constructor; simpl; intros; lia. Qed.

Lemma ginv_own_or B L s : ginv B s -> ginv (own_or L s) s.
Proof.
  intros I. pose proof I as I0. destruct I. constructor; try assumption; simpl.
  - intros x Hx. simpl. rewrite (ginv_names_exact B s x I0 Hx). lia.
  - lia.
  - lia.
  - intros u. lia.
  - intros d Hd. rewrite (gi_nrules d Hd). lia.
  - intros c. lia.
Qed.

(* ---- a count never grows past the limit in force ----------------------------------------------------------------- *)
Theorem step_never_grows B L s e : 1 <= max_names_per_connection L -> ginv B s -> never_grows L s (fst (lstep L s e)).
Proof.
  intros Hpos I. pose proof (ginv_own_or B L s I) as I1.
  pose proof (lstep_ginv (own_or L s) L s e (own_or_covers L s) Hpos I1) as I2.
  constructor.
  - rewrite <- (gi_ncomp _ _ I2), <- (gi_ncomp _ _ I). exact (gi_comp_le _ _ I2).
  - intros u. rewrite <- (gi_user _ _ I2 u), <- (gi_user _ _ I u). exact (gi_user_le _ _ I2 u).
  - rewrite <- (gi_ninc _ _ I2), <- (gi_ninc _ _ I). exact (gi_inc_le _ _ I2).
  - intros c. exact (ginv_names_le _ _ c I2).
  - intros c. exact (ginv_rules_le _ _ c I2).
  - intros c. exact (gi_pend_le _ _ I2 c).
Qed.

(* ---- histories with reloads ---------------------------------------------------------------------------------------- *)
Lemma crun_snoc cs h i : fst (crun cs (h ++ [i])) = fst (cstep (fst (crun cs h)) i).
Proof.
  revert cs. induction h as [|x h IH]; intros cs; simpl.
  - destruct (cstep cs i); reflexivity.
  - destruct (cstep cs x) as [cs1 o]. specialize (IH cs1). destruct (crun cs1 (h ++ [i])). destruct (crun cs1 h). exact IH.
Qed.

Lemma all_items_ok_app h i : all_items_ok (h ++ [i]) <-> all_items_ok h /\ all_items_ok [i].
Proof. induction h as [|x h IH]; simpl; [tauto|]. destruct x; rewrite IH; tauto. Qed.

Lemma ginv_with_watches B s w : ginv B s -> ginv B (with_watches s w).
Proof. intros I. destruct I. constructor; assumption. Qed.

(* every state of every such history satisfies the structural invariant, the limits in force are sane, and
   (since a reload re-evaluates it) the listening flag is the one the limits in force prescribe *)
Theorem creachable_ginv L0 h : all_at_least_one L0 -> all_items_ok h ->
  let cs := fst (crun (L0, linit) h) in
  all_at_least_one (fst cs) /\ (exists B, ginv B (snd cs)) /\ s_watches (snd cs) = watches_for (fst cs) (s_nincomplete (snd cs)).
Proof.
  intros H0. induction h as [|i h IH] using rev_ind; intros Hok.
  - simpl. split; [exact H0|]. split; [exists (bounds_of L0); apply init_ginv|].
    unfold watches_for. symmetry. apply negb_true_iff. apply N.leb_gt. unfold all_at_least_one in H0. lia.
  - apply all_items_ok_app in Hok. destruct Hok as [Hh Hi]. specialize (IH Hh). cbv zeta in *. rewrite crun_snoc.
    destruct (fst (crun (L0, linit) h)) as [L s]. simpl in IH. destruct IH as [HL [[B I] W]].
    destruct i as [e|L']; simpl.
    + destruct (lstep L s e) as [s' o] eqn:Es. simpl.
      replace s' with (fst (lstep L s e)) by (rewrite Es; reflexivity).
      split; [exact HL|]. split.
      * exists (own_or L s). apply lstep_ginv; [apply own_or_covers | unfold all_at_least_one in HL; tauto | eapply ginv_own_or; eauto].
      * assert (F : freshp L (fun _ => True) s) by (split; [exact W | auto]).
        exact (fr_watches _ _ _ (lstep_fresh L (fun _ => True) s e Logic.I F)).
    + simpl in Hi. split; [tauto|]. split; [exists B; apply ginv_with_watches; exact I | reflexivity].
Qed.

Theorem never_grows_across_reloads L0 h e : all_at_least_one L0 -> all_items_ok h ->
  let cs := fst (crun (L0, linit) h) in never_grows (fst cs) (snd cs) (fst (lstep (fst cs) (snd cs) e)).
Proof.
  intros H0 Hok. destruct (creachable_ginv L0 h H0 Hok) as [HL [[B I] _]]. cbv zeta.
  apply (step_never_grows B); [unfold all_at_least_one in HL; tauto | exact I].
Qed.

(* a reload itself changes nothing but the limits and the listening flag *)
Lemma reload_keeps_state cs L' : uncached (snd (fst (cstep cs (Reload L')))) = uncached (snd cs).
Proof. reflexivity. Qed.

(* ---- the assertion of bus_connections_setup_connection ---------------------------------------------------------------- *)
Lemma aborts_map_conv ro : aborts (map conv ro) = false.
Proof.
  induction ro as [|o ro IH]; [reflexivity|]. simpl. unfold aborts in *. simpl. rewrite IH. destruct o as [c m]. unfold conv. simpl.
  destruct m; reflexivity.
Qed.

Lemma aborts_app a b : aborts (a ++ b) = aborts a || aborts b.
Proof. unfold aborts. apply existsb_app. Qed.

Lemma drop_pending_no_abort l c : aborts (snd (drop_pending l c)) = false.
Proof.
  induction l as [|p l IH]; [reflexivity|]. simpl. destruct (drop_pending l c) as [r o]. simpl in IH.
  destruct (p_get p =? c); [exact IH|]. destruct (p_send p =? c); simpl; exact IH.
Qed.

Lemma disconnect_no_abort L s c byb : aborts (snd (disconnect L s c byb)) = false.
Proof.
  unfold disconnect.
  destruct (find_conn (s_conns s) c) as [cn|]; [|reflexivity]. destruct (find_cd (s_cdata s) c) as [d|]; [|reflexivity].
  destruct (step (reg L s) (EvDisconnect c)) as [b' ro]. destruct (existsb is_fault ro); [reflexivity|].
  pose proof (drop_pending_no_abort (s_pending s) c) as Hp. destruct (drop_pending (s_pending s) c) as [pl po]. simpl in Hp. cbn [snd].
  rewrite !aborts_app, Hp, aborts_map_conv. destruct byb; reflexivity.
Qed.

Lemma aborts_signals l c tag : aborts (map (fun r : N => (r, OSignal c tag)) l) = false.
Proof. induction l as [|x l IH]; [reflexivity | exact IH]. Qed.

(* the only place the model aborts: a connection is accepted (the listening flag is on) although that takes
   n_incomplete above the limit in force *)
Theorem abort_only_in_accept L s e : aborts (snd (lstep L s e)) = true ->
  exists uid, e = Connect uid /\ s_watches s = true /\ max_incomplete_connections L < s_nincomplete s + 1.
Proof.
  destruct e; cbn [lstep]; try (rewrite disconnect_no_abort; discriminate).
  - destruct (s_watches s) eqn:W; cbn [negb]; [|simpl; discriminate].
    destruct (max_incomplete_connections L <? s_nincomplete s + 1) eqn:E; [|simpl; discriminate].
    intros _. exists uid. apply N.ltb_lt in E. auto.
  - destruct (find_cd (s_cdata s) c) as [d|]; [|simpl; discriminate]. destruct (d_auth d); simpl; discriminate.
  - destruct (find_conn (s_conns s) c) as [cn|]; [|simpl; discriminate]. destruct (find_cd (s_cdata s) c) as [d|]; [|simpl; discriminate].
    destruct (negb (d_auth d)); [simpl; discriminate|]. destruct (c_active cn); [simpl; discriminate|].
    destruct (max_completed_connections L <=? s_ncomplete s); [simpl; discriminate|].
    destruct (max_connections_per_user L <=? get_uid (s_byuser s) (d_uid d)); [simpl; discriminate|].
    destruct (step (reg L s) (EvHello c)) as [b' ro]. destruct (existsb is_fault ro); [simpl; discriminate|]. cbn [snd]. rewrite aborts_map_conv. discriminate.
  - unfold via_registry. destruct (step (reg L s) (EvRequest c name flags)) as [b' ro]. destruct (existsb is_fault ro); [simpl; discriminate|]. cbn [snd]. rewrite aborts_map_conv. discriminate.
  - unfold via_registry. destruct (step (reg L s) (EvRelease c name)) as [b' ro]. destruct (existsb is_fault ro); [simpl; discriminate|]. cbn [snd]. rewrite aborts_map_conv. discriminate.
  - destruct (find_conn (s_conns s) c) as [cn|]; [|simpl; discriminate]. destruct (find_cd (s_cdata s) c) as [d|]; [|simpl; discriminate].
    destruct (negb (c_active cn)); [simpl; discriminate|]. destruct (max_match_rules_per_connection L <=? d_nrules d); [simpl; discriminate|].
    destruct rule; simpl; discriminate.
  - destruct (find_conn (s_conns s) c) as [cn|]; [|simpl; discriminate]. destruct (find_cd (s_cdata s) c) as [d|]; [|simpl; discriminate].
    destruct (negb (c_active cn)); [simpl; discriminate|]. destruct rule; [|simpl; discriminate]. destruct (remove_rule (s_rules s) c n); simpl; discriminate.
  - destruct (find_conn (s_conns s) c) as [cn|]; [|simpl; discriminate]. destruct (negb (c_active cn)); [rewrite disconnect_no_abort; discriminate|].
    destruct (negb (is_active s d)); [simpl; discriminate|]. destruct noreply; [simpl; discriminate|].
    destruct (expect_scan _ c d serial 0); [|simpl; discriminate]. destruct (max_replies_per_connection L <=? n); simpl; discriminate.
  - destruct (find_conn (s_conns s) d) as [dn|]; [|simpl; discriminate]. destruct (negb (c_active dn)); [rewrite disconnect_no_abort; discriminate|].
    destruct (negb (is_active s c)); simpl; discriminate.
  - destruct (expire_one (s_pending s) c serial); simpl; discriminate.
  - destruct (find_conn (s_conns s) c) as [cn|]; [|simpl; discriminate]. destruct (negb (c_active cn)); [rewrite disconnect_no_abort; discriminate|].
    cbn [snd]. rewrite aborts_signals. discriminate.
  - destruct (find_conn (s_conns s) c) as [cn|]; [|simpl; discriminate]. destruct (find_cd (s_cdata s) c) as [d|]; [|simpl; discriminate].
    destruct (too_long_at (d_maxmsg d) hdr); [rewrite disconnect_no_abort; discriminate | simpl; discriminate].
Qed.

(* under one configuration the assertion always holds *)
Theorem never_aborts_without_reload L h e : usable L -> aborts (snd (lstep L (fst (lrun L linit h)) e)) = false.
Proof.
  intros HL. pose proof (reachable_linv L h HL) as I.
  destruct (aborts (snd (lstep L (fst (lrun L linit h)) e))) eqn:A; [|reflexivity]. exfalso.
  destruct (abort_only_in_accept _ _ _ A) as [uid [_ [W Hlt]]].
  rewrite (li_watches _ _ I) in W. unfold watches_for in W. apply negb_true_iff in W. apply N.leb_gt in W. lia.
Qed.

(* ... and, since a reload re-evaluates the listening flag, across reloads as well *)
Lemma crun_outputs_snoc cs h i : snd (crun cs (h ++ [i])) = snd (crun cs h) ++ [snd (cstep (fst (crun cs h)) i)].
Proof.
  revert cs. induction h as [|x h IH]; intros cs; simpl.
  - destruct (cstep cs i); reflexivity.
  - destruct (cstep cs x) as [cs1 o]. specialize (IH cs1). destruct (crun cs1 (h ++ [i])). destruct (crun cs1 h). simpl in *. rewrite IH. reflexivity.
Qed.

Theorem step_never_aborts_across_reloads L0 h e : all_at_least_one L0 -> all_items_ok h ->
  let cs := fst (crun (L0, linit) h) in aborts (snd (lstep (fst cs) (snd cs) e)) = false.
Proof.
  intros H0 Hok. destruct (creachable_ginv L0 h H0 Hok) as [HL [[B I] W]]. cbv zeta in *.
  destruct (aborts (snd (lstep (fst (fst (crun (L0, linit) h))) (snd (fst (crun (L0, linit) h))) e))) eqn:A; [|reflexivity]. exfalso.
  destruct (abort_only_in_accept _ _ _ A) as [uid [_ [W1 Hlt]]].
  rewrite W in W1. unfold watches_for in W1. apply negb_true_iff in W1. apply N.leb_gt in W1. lia.
Qed.

Theorem never_aborts_across_reloads_proved : never_aborts_across_reloads.
Proof.
  intros L0 h H0. induction h as [|i h IH] using rev_ind; intros Hok; [reflexivity|].
  apply all_items_ok_app in Hok. destruct Hok as [Hh Hi]. rewrite crun_outputs_snoc, forallb_app, (IH Hh). simpl. rewrite andb_true_r.
  destruct i as [e|L']; [|reflexivity]. simpl.
  pose proof (step_never_aborts_across_reloads L0 h e H0 Hh) as A. cbv zeta in A.
  destruct (lstep (fst (fst (crun (L0, linit) h))) (snd (fst (crun (L0, linit) h))) e) as [s' o]. simpl in *. rewrite A. reflexivity.
Qed.

(* ---- the listening flag ------------------------------------------------------------------------------------------------- *)
(* a connection attempt is answered according to the flag, whatever the limits say now ... *)
Theorem accept_follows_flag L s uid : refusal (snd (lstep L s (Connect uid))) = negb (s_watches s).
Proof.
  cbn [lstep]. destruct (s_watches s); cbn [negb]; [|reflexivity].
  destruct (max_incomplete_connections L <? s_nincomplete s + 1); reflexivity.
Qed.

Theorem accept_follows_configuration_proved : accept_follows_configuration.
Proof.
  intros L0 h uid H0 Hok. destruct (creachable_ginv L0 h H0 Hok) as [HL [[B I] W]]. cbv zeta in *.
  rewrite accept_follows_flag, W. unfold watches_for. rewrite negb_involutive. rewrite (gi_ninc _ _ I). reflexivity.
Qed.

(* ... and the flag is recomputed from the limits in force exactly when the number of unregistered connections changes *)
Lemma disconnect_refreshes L s c byb :
  s_nincomplete (fst (disconnect L s c byb)) <> s_nincomplete s ->
  s_watches (fst (disconnect L s c byb)) = watches_for L (s_nincomplete (fst (disconnect L s c byb))).
Proof.
  unfold disconnect.
  destruct (find_conn (s_conns s) c) as [cn|]; [|intros H; exfalso; apply H; reflexivity].
  destruct (find_cd (s_cdata s) c) as [d|]; [|intros H; exfalso; apply H; reflexivity].
  destruct (step (reg L s) (EvDisconnect c)) as [b' ro]. destruct (existsb is_fault ro); [intros H; exfalso; apply H; reflexivity|].
  destruct (drop_pending (s_pending s) c) as [pl po]. cbn [fst s_nincomplete s_watches].
  destruct (c_active cn); [intros H; exfalso; apply H; reflexivity | reflexivity].
Qed.

Theorem flag_refreshed_when_count_changes L s e :
  s_nincomplete (fst (lstep L s e)) <> s_nincomplete s ->
  s_watches (fst (lstep L s e)) = watches_for L (s_nincomplete (fst (lstep L s e))).
Proof.
  destruct e; cbn [lstep]; try (apply disconnect_refreshes); try (intros H; exfalso; apply H; reflexivity).
  - destruct (negb (s_watches s)); [intros H; exfalso; apply H; reflexivity|].
    destruct (max_incomplete_connections L <? s_nincomplete s + 1); [intros H; exfalso; apply H; reflexivity|].
    cbn [step reg b_conns b_services b_next b_limit fst s_nincomplete s_watches]. reflexivity.
  - destruct (find_cd (s_cdata s) c) as [d|]; [|intros H; exfalso; apply H; reflexivity]. destruct (d_auth d); intros H; exfalso; apply H; reflexivity.
  - destruct (find_conn (s_conns s) c) as [cn|]; [|intros H; exfalso; apply H; reflexivity]. destruct (find_cd (s_cdata s) c) as [d|]; [|intros H; exfalso; apply H; reflexivity].
    destruct (negb (d_auth d)); [intros H; exfalso; apply H; reflexivity|]. destruct (c_active cn); [intros H; exfalso; apply H; reflexivity|].
    destruct (max_completed_connections L <=? s_ncomplete s); [intros H; exfalso; apply H; reflexivity|].
    destruct (max_connections_per_user L <=? get_uid (s_byuser s) (d_uid d)); [intros H; exfalso; apply H; reflexivity|].
    destruct (step (reg L s) (EvHello c)) as [b' ro]. destruct (existsb is_fault ro); [intros H; exfalso; apply H; reflexivity|]. reflexivity.
  - unfold via_registry. destruct (step (reg L s) (EvRequest c name flags)) as [b' ro]. destruct (existsb is_fault ro); intros H; exfalso; apply H; reflexivity.
  - unfold via_registry. destruct (step (reg L s) (EvRelease c name)) as [b' ro]. destruct (existsb is_fault ro); intros H; exfalso; apply H; reflexivity.
  - destruct (find_conn (s_conns s) c) as [cn|]; [|intros H; exfalso; apply H; reflexivity]. destruct (find_cd (s_cdata s) c) as [d|]; [|intros H; exfalso; apply H; reflexivity].
    destruct (negb (c_active cn)); [intros H; exfalso; apply H; reflexivity|]. destruct (max_match_rules_per_connection L <=? d_nrules d); [intros H; exfalso; apply H; reflexivity|].
    destruct rule; intros H; exfalso; apply H; reflexivity.
  - destruct (find_conn (s_conns s) c) as [cn|]; [|intros H; exfalso; apply H; reflexivity]. destruct (find_cd (s_cdata s) c) as [d|]; [|intros H; exfalso; apply H; reflexivity].
    destruct (negb (c_active cn)); [intros H; exfalso; apply H; reflexivity|]. destruct rule; [|intros H; exfalso; apply H; reflexivity].
    destruct (remove_rule (s_rules s) c n); intros H; exfalso; apply H; reflexivity.
  - destruct (find_conn (s_conns s) c) as [cn|]; [|intros H; exfalso; apply H; reflexivity]. destruct (negb (c_active cn)); [apply disconnect_refreshes|].
    destruct (negb (is_active s d)); [intros H; exfalso; apply H; reflexivity|]. destruct noreply; [intros H; exfalso; apply H; reflexivity|].
    destruct (expect_scan _ c d serial 0); [|intros H; exfalso; apply H; reflexivity]. destruct (max_replies_per_connection L <=? n); intros H; exfalso; apply H; reflexivity.
  - destruct (find_conn (s_conns s) d) as [dn|]; [|intros H; exfalso; apply H; reflexivity]. destruct (negb (c_active dn)); [apply disconnect_refreshes|].
    destruct (negb (is_active s c)); intros H; exfalso; apply H; reflexivity.
  - destruct (expire_one (s_pending s) c serial); intros H; exfalso; apply H; reflexivity.
  - destruct (find_conn (s_conns s) c) as [cn|]; [|intros H; exfalso; apply H; reflexivity]. destruct (negb (c_active cn)); [apply disconnect_refreshes | intros H; exfalso; apply H; reflexivity].
  - destruct (find_conn (s_conns s) c) as [cn|]; [|intros H; exfalso; apply H; reflexivity]. destruct (find_cd (s_cdata s) c) as [d|]; [|intros H; exfalso; apply H; reflexivity].
    destruct (too_long_at (d_maxmsg d) hdr); [apply disconnect_refreshes | intros H; exfalso; apply H; reflexivity].
Qed.

(* ---- the loaders' maxima ---------------------------------------------------------------------------------------------------- *)
Definition maxmsg_of (s : state) (c : N) : option N := option_map d_maxmsg (find_cd (s_cdata s) c).

Lemma maxmsg_upd ds c f c' : (forall d, d_id (f d) = d_id d) -> (forall d, d_maxmsg (f d) = d_maxmsg d) ->
  option_map d_maxmsg (find_cd (upd_cd ds c f) c') = option_map d_maxmsg (find_cd ds c').
Proof.
  intros Hi Hm. rewrite find_cd_upd by exact Hi. destruct (find_cd ds c') as [d|]; [|reflexivity]. simpl. destruct (d_id d =? c); [rewrite Hm|]; reflexivity.
Qed.

Lemma disconnect_keeps_maxmsg L s c byb c' : c' <> c -> maxmsg_of (fst (disconnect L s c byb)) c' = maxmsg_of s c'.
Proof.
  intros Hne. unfold disconnect, maxmsg_of.
  destruct (find_conn (s_conns s) c) as [cn|]; [|reflexivity]. destruct (find_cd (s_cdata s) c) as [d|]; [|reflexivity].
  destruct (step (reg L s) (EvDisconnect c)) as [b' ro]. destruct (existsb is_fault ro); [reflexivity|].
  destruct (drop_pending (s_pending s) c) as [pl po]. cbn [fst s_cdata]. rewrite find_cd_del_other by exact Hne. reflexivity.
Qed.

(* a connection that stays connected keeps the maximum it was given; whoever is accepted gets the one configured then *)
Theorem maxmsg_fixed_at_accept L s e c m :
  maxmsg_of s c = Some m -> connected (fst (lstep L s e)) c = true -> ginv (own_or L s) s -> maxmsg_of (fst (lstep L s e)) c = Some m.
Proof.
  intros Hm Hc I.
  assert (Dis : forall x byb, connected (fst (disconnect L s x byb)) c = true -> maxmsg_of (fst (disconnect L s x byb)) c = Some m).
  { intros x byb Hcx. destruct (N.eq_dec c x) as [->|Hne]; [|rewrite disconnect_keeps_maxmsg by exact Hne; exact Hm]. exfalso.
    unfold connected in Hcx. destruct (find_conn (s_conns s) x) as [cn|] eqn:Hf.
    - destruct (ginv_find_cd _ s x cn I Hf) as [d Hd].
      destruct (disconnect_effect_g _ L s x byb cn d I Hf Hd) as [S _ _ _ _ _].
      pose proof (ginv_nodup _ s I) as Nd. rewrite ids_shapes in Nd.
      pose proof (find_shape_del_same (shapes (s_conns s)) x Nd) as E. rewrite <- S, find_shape_conn in E.
      destruct (find_conn (s_conns (fst (disconnect L s x byb))) x); discriminate.
    - unfold disconnect in Hcx. rewrite Hf in Hcx. simpl in Hcx. rewrite Hf in Hcx. discriminate. }
  revert Hc. destruct e; cbn [lstep]; try (apply Dis); try (intros _; exact Hm).
  - destruct (negb (s_watches s)); [intros _; exact Hm|]. destruct (max_incomplete_connections L <? s_nincomplete s + 1); [intros _; exact Hm|].
    cbn [step reg b_conns b_services b_next b_limit fst]. intros _. unfold maxmsg_of in *. cbn [s_cdata]. rewrite find_cd_app.
    destruct (find_cd (s_cdata s) c); [exact Hm | discriminate Hm].
  - destruct (find_cd (s_cdata s) c0) as [d|]; [|intros _; exact Hm]. destruct (d_auth d); [intros _; exact Hm|]. intros _.
    unfold maxmsg_of in *. cbn [fst with_rules s_cdata]. rewrite maxmsg_upd by reflexivity. exact Hm.
  - destruct (find_conn (s_conns s) c0) as [cn|]; [|intros _; exact Hm]. destruct (find_cd (s_cdata s) c0) as [d|]; [|intros _; exact Hm].
    destruct (negb (d_auth d)); [intros _; exact Hm|]. destruct (c_active cn); [intros _; exact Hm|].
    destruct (max_completed_connections L <=? s_ncomplete s); [intros _; exact Hm|].
    destruct (max_connections_per_user L <=? get_uid (s_byuser s) (d_uid d)); [intros _; exact Hm|].
    destruct (step (reg L s) (EvHello c0)) as [b' ro]. destruct (existsb is_fault ro); intros _; exact Hm.
  - unfold via_registry. destruct (step (reg L s) (EvRequest c0 name flags)) as [b' ro]. destruct (existsb is_fault ro); intros _; exact Hm.
  - unfold via_registry. destruct (step (reg L s) (EvRelease c0 name)) as [b' ro]. destruct (existsb is_fault ro); intros _; exact Hm.
  - destruct (find_conn (s_conns s) c0) as [cn|]; [|intros _; exact Hm]. destruct (find_cd (s_cdata s) c0) as [d|]; [|intros _; exact Hm].
    destruct (negb (c_active cn)); [intros _; exact Hm|]. destruct (max_match_rules_per_connection L <=? d_nrules d); [intros _; exact Hm|].
    destruct rule; [|intros _; exact Hm]. intros _. unfold maxmsg_of in *. cbn [fst with_rules s_cdata]. rewrite maxmsg_upd by reflexivity. exact Hm.
  - destruct (find_conn (s_conns s) c0) as [cn|]; [|intros _; exact Hm]. destruct (find_cd (s_cdata s) c0) as [d|]; [|intros _; exact Hm].
    destruct (negb (c_active cn)); [intros _; exact Hm|]. destruct rule; [|intros _; exact Hm]. destruct (remove_rule (s_rules s) c0 n); [|intros _; exact Hm].
    intros _. unfold maxmsg_of in *. cbn [fst with_rules s_cdata]. rewrite maxmsg_upd by reflexivity. exact Hm.
  - destruct (find_conn (s_conns s) c0) as [cn|]; [|intros _; exact Hm]. destruct (negb (c_active cn)); [apply Dis|].
    destruct (negb (is_active s d)); [intros _; exact Hm|]. destruct noreply; [intros _; exact Hm|].
    destruct (expect_scan _ c0 d serial 0); [|intros _; exact Hm]. destruct (max_replies_per_connection L <=? n); intros _; exact Hm.
  - destruct (find_conn (s_conns s) d) as [dn|]; [|intros _; exact Hm]. destruct (negb (c_active dn)); [apply Dis|].
    destruct (negb (is_active s c0)); intros _; exact Hm.
  - destruct (expire_one (s_pending s) c0 serial); intros _; exact Hm.
  - destruct (find_conn (s_conns s) c0) as [cn|]; [|intros _; exact Hm]. destruct (negb (c_active cn)); [apply Dis | intros _; exact Hm].
  - destruct (find_conn (s_conns s) c0) as [cn|]; [|intros _; exact Hm]. destruct (find_cd (s_cdata s) c0) as [d|]; [|intros _; exact Hm].
    destruct (too_long_at (d_maxmsg d) hdr); [apply Dis | intros _; exact Hm].
Qed.

Theorem accepted_gets_configured_maximum L s uid :
  In (s_next s, OAccepted) (snd (lstep L s (Connect uid))) -> (forall d, In d (s_cdata s) -> d_id d <> s_next s) ->
  maxmsg_of (fst (lstep L s (Connect uid))) (s_next s) = Some (loader_max L).
Proof.
  cbn [lstep]. destruct (negb (s_watches s)); [intros [H|[]]; discriminate H|].
  destruct (max_incomplete_connections L <? s_nincomplete s + 1); [intros [H|[]]; discriminate H|].
  cbn [step reg b_conns b_services b_next b_limit fst]. intros _ Hfresh. unfold maxmsg_of. cbn [s_cdata]. rewrite find_cd_app.
  destruct (find_cd (s_cdata s) (s_next s)) as [d|] eqn:E.
  - apply find_cd_in in E. destruct E as [Hin Hid]. exfalso. exact (Hfresh d Hin Hid).
  - simpl. rewrite N.eqb_refl. reflexivity.
Qed.
