(* C15 proofs, part 10: a peer that follows the protocol -- every sendmsg carries a piece of one message, the
   descriptors travel with the piece holding the message's first byte, exactly as many as UNIX_FDS announces --
   gets every message delivered with exactly the descriptors it attached to it, in order, whatever the
   interleaving of its writes and the receiver's reads (coq/Fds/Async.v).  The reason is the read limit of
   _dbus_message_loader_get_buffer (at the byte level: C11_limit_boundary): while descriptors are pending the
   loader never reads past the end of the message they belong to, so the read that takes in the next message's
   first byte is always one with a control buffer and a free descriptor array. *)
From DV Require Import Lib.Base Gen.Tables Fds.Fds Fds.Async Proofs.FdsBase.
Require Import Arith ZifyBool ZifyN ZifyNat.
Local Open Scope N_scope.

Definition okmsg (cf : cfg) (d : wmsg) : Prop :=
  w_fixed_ok d = true /\ w_valid d = true /\ DBUS_MINIMUM_HEADER_SIZE <= w_len d /\ w_nfds d <= max_fds cf.

Definition pos := option (wmsg * N).

Definition next_pos (d : wmsg) (h : N) : pos := if h <? w_len d then Some (d, h) else None.

(* the queue continues the stream at position cur and follows the protocol *)
Fixpoint conf (cf : cfg) (cur : pos) (q : list skb) : Prop :=
  match q with
  | [] => True
  | (PHead d n, F) :: r =>
      cur = None /\ okmsg cf d /\ 0 < n /\ n <= w_len d /\ nlen F = w_nfds d /\ conf cf (next_pos d n) r
  | (PCont n, F) :: r =>
      F = [] /\ match cur with
                | Some (d, h) => 0 < n /\ h + n <= w_len d /\ conf cf (next_pos d (h + n)) r
                | None => False
                end
  end.

Fixpoint endpos (cur : pos) (q : list skb) : pos :=
  match q with
  | [] => cur
  | (PHead d n, _) :: r => endpos (next_pos d n) r
  | (PCont n, _) :: r => match cur with Some (d, h) => endpos (next_pos d (h + n)) r | None => None end
  end.

Lemma conf_app cf a : forall cur b, conf cf cur (a ++ b) <-> conf cf cur a /\ conf cf (endpos cur a) b.
Proof.
  induction a as [|[[d n|n] F] a IH]; intros cur b; simpl.
  - tauto.
  - rewrite IH. tauto.
  - destruct cur as [[d h]|]; [rewrite IH|]; tauto.
Qed.

Lemma heads_app a b : heads (a ++ b) = heads a ++ heads b.
Proof. induction a as [|[[d n|n] F] a IH]; simpl; auto. rewrite IH. reflexivity. Qed.

(* what feeding a conforming sequence must produce: loaded messages, final position, descriptors waiting for it *)
Definition inprog' (cur : pos) (fds : list fd) : list (wmsg * list fd) :=
  match cur with Some (d, _) => [(d, fds)] | None => [] end.

Fixpoint expect (cur : pos) (curfds : list fd) (aps : list skb) : list (wmsg * list fd) * pos * list fd :=
  match aps with
  | [] => ([], cur, curfds)
  | (PHead d n, F) :: r =>
      if n <? w_len d then expect (Some (d, n)) F r
      else let '(ld, c, f) := expect None [] r in ((d, F) :: ld, c, f)
  | (PCont n, _) :: r =>
      match cur with
      | Some (d, h) => if h + n <? w_len d then expect (Some (d, h + n)) curfds r
                       else let '(ld, c, f) := expect None [] r in ((d, curfds) :: ld, c, f)
      | None => ([], None, curfds)
      end
  end.

Lemma expect_heads cf aps : forall cur curfds, conf cf cur aps ->
  let '(ld, c, f) := expect cur curfds aps in
  inprog' cur curfds ++ heads aps = ld ++ inprog' c f /\ c = endpos cur aps /\
  ((cur = None -> curfds = []) -> c = None -> f = []).
Proof.
  induction aps as [|[[d n|n] F] r IH]; intros cur curfds Hc; simpl in *.
  - rewrite app_nil_r. auto.
  - destruct Hc as (-> & Hok & Hn0 & Hnl & HF & Hr). unfold next_pos in *. simpl.
    destruct (n <? w_len d).
    + specialize (IH (Some (d, n)) F Hr). destruct (expect (Some (d, n)) F r) as [[ld c] f].
      destruct IH as (A & B & C). split; [exact A|]. split; [exact B|]. intros _. apply C. discriminate.
    + specialize (IH None [] Hr). destruct (expect None [] r) as [[ld c] f].
      destruct IH as (A & B & C). simpl in A. split; [simpl; f_equal; exact A|]. split; [exact B|]. intros _. apply C. auto.
  - destruct Hc as (-> & Hc). destruct cur as [[d h]|]; [|contradiction].
    destruct Hc as (Hn0 & Hle & Hr). unfold next_pos in *. simpl.
    destruct (h + n <? w_len d).
    + specialize (IH (Some (d, h + n)) curfds Hr). destruct (expect (Some (d, h + n)) curfds r) as [[ld c] f].
      destruct IH as (A & B & C). split; [exact A|]. split; [exact B|]. intros _. apply C. discriminate.
    + specialize (IH None [] Hr). destruct (expect None [] r) as [[ld c] f].
      destruct IH as (A & B & C). simpl in A. split; [simpl; f_equal; exact A|]. split; [exact B|]. intros _. apply C. auto.
Qed.

(* ---------------------------------------------------------------- the loader on conforming input *)
Lemma parse_more cf c d h : okmsg cf d -> h < w_len d ->
  exists c', parse c d h = FMore c' /\ c_cur c' = Some (d, h) /\ c_pend c' = c_pend c /\ c_neg c' = c_neg c.
Proof.
  intros (Hf & Hv & Hl & Hn) Hh. unfold parse.
  destruct (h <? DBUS_MINIMUM_HEADER_SIZE); [eexists; splits; reflexivity|].
  rewrite Hf. simpl.
  assert (h <? w_len d = true) as -> by (apply N.ltb_lt; exact Hh).
  eexists; splits; reflexivity.
Qed.

Lemma firstn_app_exact {A} (a b : list A) n : n = length a -> firstn n (a ++ b) = a /\ skipn n (a ++ b) = b.
Proof.
  intros ->. split.
  - rewrite firstn_app, Nat.sub_diag, firstn_all. simpl. apply app_nil_r.
  - rewrite skipn_app, Nat.sub_diag, skipn_all. reflexivity.
Qed.

Lemma parse_load cf c d h F rest : okmsg cf d -> w_len d <= h -> c_pend c = F ++ rest -> nlen F = w_nfds d ->
  exists c', parse c d h = FLoaded c' d F /\ c_cur c' = None /\ c_pend c' = rest /\ c_neg c' = c_neg c.
Proof.
  intros (Hf & Hv & Hl & Hn) Hh Hp HF. unfold parse.
  assert (h <? DBUS_MINIMUM_HEADER_SIZE = false) as -> by (apply N.ltb_ge; lia).
  rewrite Hf, Hv. simpl.
  assert (h <? w_len d = false) as -> by (apply N.ltb_ge; exact Hh).
  assert (nlen (c_pend c) <? w_nfds d = false) as ->.
  { apply N.ltb_ge. rewrite Hp, nlen_app. lia. }
  destruct (firstn_app_exact F rest (N.to_nat (w_nfds d))) as [E1 E2]; [unfold nlen in HF; lia|].
  rewrite Hp, E1, E2. eexists; splits; reflexivity.
Qed.

(* L1: feeding a conforming sequence produces exactly what [expect] says and never corrupts *)
Lemma feed_conf cf aps : forall c cur curfds,
  conf cf cur aps -> c_cur c = cur -> c_pend c = curfds ++ concat (map snd aps) ->
  (match cur with Some (d, h) => okmsg cf d /\ h < w_len d /\ nlen curfds = w_nfds d | None => curfds = [] end) ->
  exists c', feed_parts c (map fst aps) = (c', fst (fst (expect cur curfds aps)), SOk) /\
             c_cur c' = snd (fst (expect cur curfds aps)) /\ c_pend c' = snd (expect cur curfds aps) /\ c_neg c' = c_neg c.
Proof.
  induction aps as [|[[d n|n] F] r IH]; intros c cur curfds Hc Hcur Hp Hinv; simpl in *.
  - rewrite app_nil_r in Hp. exists c. splits; auto.
  - destruct Hc as (-> & Hok & Hn0 & Hnl & HF & Hr). subst curfds. simpl in Hp.
    unfold feed. rewrite Hcur.
    assert ((n =? 0) || (w_len d <? n) = false) as ->.
    { apply orb_false_iff. split; [apply N.eqb_neq; lia | apply N.ltb_ge; exact Hnl]. }
    unfold next_pos in Hr. destruct (n <? w_len d) eqn:En.
    + apply N.ltb_lt in En. destruct (parse_more cf c d n Hok En) as (c1 & P & C1 & P1 & N1). rewrite P.
      destruct (IH c1 (Some (d, n)) F Hr C1) as (c' & E & A & B & D).
      * rewrite P1, Hp. reflexivity.
      * splits; auto.
      * exists c'. rewrite E. splits; auto. congruence.
    + apply N.ltb_ge in En.
      destruct (parse_load cf c d n F (concat (map snd r)) Hok En Hp HF) as (c1 & P & C1 & P1 & N1). rewrite P.
      destruct (IH c1 None [] Hr C1) as (c' & E & A & B & D); [rewrite P1; reflexivity | reflexivity |].
      rewrite E. destruct (expect None [] r) as [[ld cc] f]. simpl in *. exists c'. splits; auto. congruence.
  - destruct Hc as (-> & Hc). destruct cur as [[d h]|]; [|contradiction].
    destruct Hc as (Hn0 & Hle & Hr). destruct Hinv as (Hok & Hh & HF). simpl in Hp.
    unfold feed. rewrite Hcur.
    assert ((n =? 0) || (w_len d <? h + n) = false) as ->.
    { apply orb_false_iff. split; [apply N.eqb_neq; lia | apply N.ltb_ge; exact Hle]. }
    unfold next_pos in Hr. destruct (h + n <? w_len d) eqn:En.
    + apply N.ltb_lt in En. destruct (parse_more cf c d (h + n) Hok En) as (c1 & P & C1 & P1 & N1). rewrite P.
      destruct (IH c1 (Some (d, h + n)) curfds Hr C1) as (c' & E & A & B & D).
      * rewrite P1, Hp. reflexivity.
      * splits; auto.
      * exists c'. rewrite E. splits; auto. congruence.
    + apply N.ltb_ge in En.
      destruct (parse_load cf c d (h + n) curfds (concat (map snd r)) Hok En Hp HF) as (c1 & P & C1 & P1 & N1). rewrite P.
      destruct (IH c1 None [] Hr C1) as (c' & E & A & B & D); [rewrite P1; reflexivity | reflexivity |].
      rewrite E. destruct (expect None [] r) as [[ld cc] f]. simpl in *. exists c'. splits; auto. congruence.
Qed.

(* ---------------------------------------------------------------- the kernel's side *)
Lemma ktake_zero q : ktake 0 q = ([], q).
Proof. destruct q as [|[p F] r]; reflexivity. Qed.

(* L2: what a read takes and what it leaves are again conforming, and no message head is lost *)
Lemma ktake_conf cf q : forall k cur t q',
  conf cf cur q -> ktake k q = (t, q') ->
  conf cf cur t /\ conf cf (endpos cur t) q' /\ heads t ++ heads q' = heads q /\
  (concat (map snd t) = [] \/ exists d n F, In (PHead d n, F) t /\ concat (map snd t) = F).
Proof.
  induction q as [|[p F] r IH]; intros k cur t q' Hc H; simpl in H.
  - inversion H; subst. simpl. auto.
  - destruct (k =? 0) eqn:Ek; [inversion H; subst; simpl; auto|].
    apply N.eqb_neq in Ek.
    destruct (psize p <=? k) eqn:En.
    + destruct F as [|f0 F'].
      * destruct (ktake (k - psize p) r) as [t1 r1] eqn:Et. inversion H; subst. clear H.
        destruct p as [d n|n]; simpl in Hc |- *.
        -- destruct Hc as (-> & Hok & Hn0 & Hnl & HF & Hr).
           destruct (IH _ _ _ _ Hr Et) as (A & B & C & D).
           split; [splits; auto|]. split; [exact B|]. split; [rewrite <- C; reflexivity|].
           destruct D as [D|(d' & n' & F' & Hin & D)]; [left; exact D | right; exists d', n', F'; split; [right; exact Hin | exact D]].
        -- destruct Hc as (_ & Hc). destruct cur as [[d h]|]; [|contradiction]. destruct Hc as (Hn0 & Hle & Hr).
           destruct (IH _ _ _ _ Hr Et) as (A & B & C & D).
           split; [splits; auto|]. split; [exact B|]. split; [exact C|].
           destruct D as [D|(d' & n' & F' & Hin & D)]; [left; exact D | right; exists d', n', F'; split; [right; exact Hin | exact D]].
      * inversion H; subst. clear H.
        destruct p as [d n|n]; simpl in Hc |- *.
        -- destruct Hc as (-> & Hok & Hn0 & Hnl & HF & Hr).
           split; [splits; auto|]. split; [exact Hr|]. split; [reflexivity|].
           right. exists d, n, (f0 :: F'). split; [left; reflexivity | rewrite app_nil_r; reflexivity].
        -- destruct Hc as (Hd & _). discriminate.
    + apply N.leb_gt in En. inversion H; subst. clear H.
      destruct p as [d n|n]; simpl in Hc, En |- *.
      * destruct Hc as (-> & Hok & Hn0 & Hnl & HF & Hr). unfold next_pos in *.
        assert (k <? w_len d = true) as Ek' by (apply N.ltb_lt; lia). rewrite Ek'.
        split; [splits; auto; lia|].
        split; [splits; auto; try lia; replace (k + (n - k)) with n by lia; exact Hr|].
        split; [reflexivity|].
        destruct F; [left; reflexivity | right; exists d, k, (f :: F); split; [left; reflexivity | rewrite app_nil_r; reflexivity]].
      * destruct Hc as (-> & Hc). destruct cur as [[d h]|]; [|contradiction]. destruct Hc as (Hn0 & Hle & Hr). unfold next_pos in *.
        assert (h + k <? w_len d = true) as Ek' by (apply N.ltb_lt; lia). rewrite Ek'.
        split; [splits; auto; lia|].
        split; [splits; auto; try lia; replace (h + k + (n - k)) with (h + n) by lia; exact Hr|].
        split; [reflexivity | left; reflexivity].
Qed.

(* L3: on the slow path (limit = what is missing of the message in progress) no descriptor-carrying skb is touched *)
Lemma ktake_slow cf q : forall k d h t q',
  conf cf (Some (d, h)) q -> h + k <= w_len d -> ktake k q = (t, q') -> concat (map snd t) = [].
Proof.
  induction q as [|[p F] r IH]; intros k d h t q' Hc Hk H; simpl in H.
  - inversion H; reflexivity.
  - destruct (k =? 0) eqn:Ek; [inversion H; reflexivity|]. apply N.eqb_neq in Ek.
    destruct p as [d' n|n]; simpl in Hc; [destruct Hc as (Hd & _); discriminate|].
    destruct Hc as (-> & Hn0 & Hle & Hr). simpl in H.
    destruct (n <=? k) eqn:En.
    + apply N.leb_le in En. destruct (ktake (k - n) r) as [t1 r1] eqn:Et. inversion H; subst. simpl.
      unfold next_pos in Hr. destruct (h + n <? w_len d) eqn:E2.
      * eapply (IH (k - n) d (h + n)); eauto. lia.
      * apply N.ltb_ge in E2. assert (k - n = 0) by lia. rewrite H0, ktake_zero in Et. inversion Et; reflexivity.
    + inversion H; reflexivity.
Qed.

(* ---------------------------------------------------------------- one read *)
Definition pinv (cf : cfg) (cur : pos) (fds : list fd) : Prop :=
  match cur with Some (d, h) => okmsg cf d /\ h < w_len d /\ nlen fds = w_nfds d | None => fds = [] end.

Lemma expect_pinv cf aps : forall cur curfds, conf cf cur aps -> pinv cf cur curfds ->
  pinv cf (snd (fst (expect cur curfds aps))) (snd (expect cur curfds aps)).
Proof.
  induction aps as [|[[d n|n] F] r IH]; intros cur curfds Hc Hp; simpl in *; auto.
  - destruct Hc as (-> & Hok & Hn0 & Hnl & HF & Hr). unfold next_pos in Hr.
    destruct (n <? w_len d) eqn:En.
    + apply IH; auto. simpl. apply N.ltb_lt in En. auto.
    + specialize (IH None [] Hr eq_refl). destruct (expect None [] r) as [[ld c] f]. exact IH.
  - destruct Hc as (-> & Hc). destruct cur as [[d h]|]; [|contradiction].
    destruct Hc as (Hn0 & Hle & Hr). destruct Hp as (Hok & Hh & HF). unfold next_pos in Hr.
    destruct (h + n <? w_len d) eqn:En.
    + apply IH; auto. simpl. apply N.ltb_lt in En. auto.
    + specialize (IH None [] Hr eq_refl). destruct (expect None [] r) as [[ld c] f]. exact IH.
Qed.

Lemma conf_in_head cf t : forall cur d n F, conf cf cur t -> In (PHead d n, F) t -> okmsg cf d /\ nlen F = w_nfds d.
Proof.
  induction t as [|[[d' n'|n'] F'] r IH]; intros cur d n F Hc Hin; simpl in *; [contradiction| |].
  - destruct Hc as (-> & Hok & Hn0 & Hnl & HF & Hr). destruct Hin as [E|Hin]; [inversion E; subst; auto | eauto].
  - destruct Hc as (-> & Hc). destruct cur as [[dd h]|]; [|contradiction]. destruct Hc as (_ & _ & Hr).
    destruct Hin as [E|Hin]; [discriminate | eauto].
Qed.

(* the receiver's state matches the queue *)
Definition RI (cf : cfg) (c : conn) (q : list skb) : Prop :=
  c_neg c = true /\ conf cf (c_cur c) q /\ pinv cf (c_cur c) (c_pend c).

Lemma inprog_eq c : inprog c = inprog' (c_cur c) (c_pend c).
Proof. unfold inprog, inprog'. destruct (c_cur c) as [[d h]|]; reflexivity. Qed.

Theorem aread_ok cf now c q led : 0 < read_cap cf -> RI cf c q ->
  match aread cf now c q led with
  | AEagain => True
  | ATrunc _ _ _ => False
  | ARead c' ld led' q' st =>
      st = SOk /\ RI cf c' q' /\ g_kdrop led' = g_kdrop led /\ inprog c ++ heads q = ld ++ inprog c' ++ heads q'
  end.
Proof.
  intros Hcap (Hneg & Hc & Hp). unfold aread.
  (* the common tail: feeding what was taken *)
  assert (Htail : forall c1 led1 t q',
            t <> [] -> conf cf (c_cur c) t -> conf cf (endpos (c_cur c) t) q' -> heads t ++ heads q' = heads q ->
            c_cur c1 = c_cur c -> c_neg c1 = true -> c_pend c1 = c_pend c ++ concat (map snd t) -> g_kdrop led1 = g_kdrop led ->
            let '(c2, ld, s) := feed_parts c1 (map fst t) in
            s = SOk /\ RI cf c2 q' /\ g_kdrop led1 = g_kdrop led /\ inprog c ++ heads q = ld ++ inprog c2 ++ heads q').
  { intros c1 led1 t q' _ Ht Hq' Hh Hcur1 Hneg1 Hp1 Hk.
    destruct (feed_conf cf t c1 (c_cur c) (c_pend c) Ht Hcur1 Hp1) as (c2 & E & A & B & D).
    { unfold pinv in Hp. destruct (c_cur c) as [[d h]|]; auto. }
    rewrite E.
    pose proof (expect_heads cf t (c_cur c) (c_pend c) Ht) as X.
    pose proof (expect_pinv cf t (c_cur c) (c_pend c) Ht Hp) as Y.
    destruct (expect (c_cur c) (c_pend c) t) as [[ld ce] fe]. simpl in *. destruct X as (X1 & X2 & _).
    split; [reflexivity|]. split.
    - unfold RI. rewrite A, B, D. splits; auto. rewrite X2. exact Hq'.
    - split; [exact Hk|]. rewrite inprog_eq, (inprog_eq c2), A, B, <- Hh, app_assoc, X1, <- app_assoc. reflexivity. }
  destruct (c_pend c) as [|p0 P] eqn:Ep.
  - (* fast path *)
    unfold get_buffer. rewrite Ep.
    destruct (ktake (N.min DBUS_MAXIMUM_MESSAGE_LENGTH (read_cap cf)) q) as [t q'] eqn:Ek.
    destruct t as [|s0 t0] eqn:Et; [exact I|]. rewrite <- Et in *.
    destruct (ktake_conf cf q _ _ _ _ Hc Ek) as (A & B & C & D).
    assert (Hne : t <> []) by (rewrite Et; discriminate).
    unfold recv_fds.
    destruct (concat (map snd t)) as [|f0 F'] eqn:EF.
    + specialize (Htail c led t q' Hne A B C eq_refl Hneg). rewrite EF, Ep in Htail. specialize (Htail eq_refl eq_refl).
      destruct (feed_parts c (map fst t)) as [[c2 ld] s]. exact Htail.
    + destruct D as [D|(d & n & F & Hin & D)]; [rewrite D in EF; discriminate|].
      destruct (conf_in_head cf t _ _ _ _ A Hin) as ((_ & _ & _ & Hmax) & HnF).
      rewrite Hneg. simpl. unfold room. rewrite Ep.
      assert (nlen (f0 :: F') <=? max_fds cf - nlen (@nil fd) = true) as ->.
      { apply N.leb_le. rewrite D, HnF. unfold nlen; simpl. lia. }
      set (c1 := mkConn _ _ _ _ _ _ _ _).
      specialize (Htail c1 (led_recv led (c_id c) (f0 :: F')) t q' Hne A B C eq_refl eq_refl).
      rewrite EF in Htail. specialize (Htail eq_refl eq_refl).
      destruct (feed_parts c1 (map fst t)) as [[c2 ld] s]. exact Htail.
  - (* slow path: descriptors pending, so a message is in progress *)
    unfold pinv in Hp. destruct (c_cur c) as [[d h]|] eqn:Ecur; [|discriminate].
    destruct Hp as (Hok & Hh & HnP). pose proof Hok as (Hfix & _ & Hl16 & _).
    unfold get_buffer. rewrite Ep, Ecur.
    set (mx := if h <? DBUS_MINIMUM_HEADER_SIZE then DBUS_MINIMUM_HEADER_SIZE - h else w_len d - h).
    assert (Hgb : (if h <? DBUS_MINIMUM_HEADER_SIZE then (DBUS_MINIMUM_HEADER_SIZE - h, false)
                   else if negb (w_fixed_ok d) then (DBUS_MAXIMUM_MESSAGE_LENGTH, true)
                   else if h <? w_len d then (w_len d - h, false) else (DBUS_MAXIMUM_MESSAGE_LENGTH, true)) = (mx, false)).
    { unfold mx. destruct (h <? DBUS_MINIMUM_HEADER_SIZE); [reflexivity|]. rewrite Hfix. simpl.
      assert (h <? w_len d = true) as -> by (apply N.ltb_lt; exact Hh). reflexivity. }
    rewrite Hgb.
    assert (Hmx : h + mx <= w_len d).
    { unfold mx. destruct (h <? DBUS_MINIMUM_HEADER_SIZE) eqn:E; [apply N.ltb_lt in E|]; lia. }
    destruct (ktake (N.min mx (read_cap cf)) q) as [t q'] eqn:Ek.
    destruct t as [|s0 t0] eqn:Et; [exact I|]. rewrite <- Et in *.
    destruct (ktake_conf cf q _ _ _ _ Hc Ek) as (A & B & C & _).
    assert (EF : concat (map snd t) = []).
    { eapply (ktake_slow cf q (N.min mx (read_cap cf)) d h); eauto. lia. }
    assert (Hne : t <> []) by (rewrite Et; discriminate).
    rewrite EF. simpl.
    specialize (Htail c led t q' Hne A B C Ecur Hneg). rewrite EF, app_nil_r in Htail. specialize (Htail Ep eq_refl).
    destruct (feed_parts c (map fst t)) as [[c2 ld] s]. exact Htail.
Qed.

(* ---------------------------------------------------------------- any schedule *)
Record AInv (cf : cfg) (a : astate) : Prop := mkAInv {
  ai_ri : RI cf (as_conn a) (as_q a);
  ai_good : as_bad a = false;
  ai_sent : as_sent a = as_loaded a ++ inprog (as_conn a) ++ heads (as_q a) }.

(* the peer follows the protocol: whatever it sends continues its stream correctly *)
Fixpoint follows (cf : cfg) (now : N) (a : astate) (evs : list aev) : Prop :=
  match evs with
  | [] => True
  | AESend s :: r => conf cf (endpos (c_cur (as_conn a)) (as_q a)) [s] /\ follows cf now (astep cf now a (AESend s)) r
  | AERead :: r => follows cf now (astep cf now a AERead) r
  end.

Lemma AInv_step cf now a e : 0 < read_cap cf -> AInv cf a ->
  match e with AESend s => conf cf (endpos (c_cur (as_conn a)) (as_q a)) [s] | AERead => True end ->
  AInv cf (astep cf now a e).
Proof.
  intros Hcap [(Hn & Hc & Hp) Hg Hs] He. destruct e as [s|]; simpl.
  - constructor; simpl; auto.
    + unfold RI. splits; auto. apply conf_app. split; auto.
    + rewrite Hs, heads_app, !app_assoc. reflexivity.
  - pose proof (aread_ok cf now (as_conn a) (as_q a) (as_led a) Hcap (conj Hn (conj Hc Hp))) as R.
    destruct (aread cf now (as_conn a) (as_q a) (as_led a)) as [|c' ld led' q' st|]; [constructor; auto; unfold RI; splits; auto | | contradiction].
    destruct R as (-> & Hri & Hk & Hh). constructor; simpl; auto.
    + rewrite Hg, Hk, N.eqb_refl. reflexivity.
    + rewrite Hs, Hh, !app_assoc. reflexivity.
Qed.

Theorem protocol_sender_any_schedule cf now evs : 0 < read_cap cf -> forall a,
  AInv cf a -> follows cf now a evs -> AInv cf (arun cf now a evs).
Proof.
  intros Hcap. induction evs as [|e evs IH]; intros a I F; simpl; auto.
  destruct e as [s|]; simpl in F.
  - destruct F as [F1 F2]. apply IH; auto. apply AInv_step; auto.
  - apply IH; auto. apply AInv_step; auto.
Qed.

Lemma AInv_init cf : AInv cf (ainit true).
Proof. constructor; simpl; auto. unfold RI; simpl. auto. Qed.
