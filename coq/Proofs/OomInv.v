(* C14: every primitive state change keeps the invariant of Spec.OomSpec
   (non-empty queues of live owners, no connection twice in a queue). *)
From DV Require Import Spec.OomSpec Proofs.OomGeneric Proofs.OomLists.
Local Open Scope N_scope.

(* ---- the invariant is kept by every unfailed request ------------------------------------------------- *)
Lemma Forall_set_queue (P : key * queue -> Prop) ss k q :
  (forall k', P (k', q)) -> Forall P ss -> Forall P (set_queue ss k q).
Proof.
  intros Hq. induction 1 as [|[k' q'] r Hx Hr IH]; simpl; [constructor|].
  destruct (key_eqb k k'); constructor; auto.
Qed.

Lemma Forall_del_service (P : key * queue -> Prop) ss k : Forall P ss -> Forall P (del_service ss k).
Proof.
  induction 1 as [|[k' q'] r Hx Hr IH]; simpl; [constructor|].
  destruct (key_eqb k k'); [assumption|constructor; auto].
Qed.

Definition gq (kq : key * queue) : Prop := good_queue (snd kq).

Lemma Forall_put_queue ss k q :
  (q = [] \/ good_queue q) -> Forall gq ss -> Forall gq (put_queue ss k q).
Proof.
  intros Hq Hss. unfold put_queue. destruct q as [|o r].
  - apply Forall_del_service; exact Hss.
  - apply Forall_set_queue; [|exact Hss]. intros k'. unfold gq; simpl. destruct Hq as [Hq|Hq]; [discriminate|exact Hq].
Qed.

Lemma forallb_remove_first {A} (p f : A -> bool) l : forallb f l = true -> forallb f (remove_first p l) = true.
Proof.
  induction l as [|x r IH]; simpl; auto. rewrite andb_true_iff. intros [H1 H2].
  destruct (p x); [exact H2|]. simpl. rewrite H1, IH; auto.
Qed.

Lemma forallb_refresh_first q c flags : forallb o_live q = true -> forallb o_live (refresh_first q c flags) = true.
Proof.
  induction q as [|x r IH]; simpl; auto. rewrite andb_true_iff. intros [H1 H2].
  destruct (o_conn x =? c); simpl; [rewrite H1, H2|rewrite H1, IH]; auto.
Qed.

Lemma find_owner_live q c o : forallb o_live q = true -> find_owner q c = Some o -> o_live o = true.
Proof.
  induction q as [|x r IH]; simpl; [discriminate|]. rewrite andb_true_iff. intros [H1 H2].
  destruct (o_conn x =? c); [intros H; inversion H; subst; exact H1|auto].
Qed.

(* ---- connections of a queue ------------------------------------------------------------------------ *)
Definition conns (q : queue) : list N := map o_conn q.

Lemma find_owner_none_notin q c : find_owner q c = None -> ~ In c (conns q).
Proof.
  induction q as [|x r IH]; simpl; [tauto|]. destruct (o_conn x =? c) eqn:E; [discriminate|].
  intros H [Hx|Hr]; [apply N.eqb_neq in E; contradiction|exact (IH H Hr)].
Qed.

Lemma find_owner_conn q c o : find_owner q c = Some o -> o_conn o = c.
Proof.
  induction q as [|x r IH]; simpl; [discriminate|]. destruct (o_conn x =? c) eqn:E; [|exact IH].
  intros H; inversion H; subst. apply N.eqb_eq; exact E.
Qed.

Lemma conns_remove_first_incl c q x : In x (conns (remove_first (is_conn c) q)) -> In x (conns q).
Proof.
  induction q as [|y r IH]; simpl; [tauto|]. destruct (is_conn c y); simpl; [tauto|]. intros [H|H]; [left; exact H|right; exact (IH H)].
Qed.

Lemma nodup_remove_first c q : NoDup (conns q) -> NoDup (conns (remove_first (is_conn c) q)).
Proof.
  induction q as [|y r IH]; simpl; [auto|]. intros H; inversion H as [|? ? Hn Hr]; subst.
  destruct (is_conn c y); [exact Hr|]. simpl. constructor; [|exact (IH Hr)].
  intros Hin. apply Hn. eapply conns_remove_first_incl; exact Hin.
Qed.

Lemma removed_notin c q : NoDup (conns q) -> ~ In c (conns (remove_first (is_conn c) q)).
Proof.
  induction q as [|y r IH]; simpl; [tauto|]. intros H; inversion H as [|? ? Hn Hr]; subst.
  unfold is_conn at 1. destruct (o_conn y =? c) eqn:E.
  - apply N.eqb_eq in E. subst c. exact Hn.
  - simpl. intros [Hy|Hin]; [apply N.eqb_neq in E; contradiction|exact (IH Hr Hin)].
Qed.

Lemma conns_refresh_first q c flags : conns (refresh_first q c flags) = conns q.
Proof.
  induction q as [|y r IH]; simpl; [reflexivity|]. destruct (o_conn y =? c); simpl; [reflexivity|rewrite IH; reflexivity].
Qed.

Lemma do_action_queues a b b' hs : inv b -> do_action a b = Some (b', hs) -> Forall gq (b_services b').
Proof.
  intros Hinv0.
  assert (Hl : forall k q, lookup (b_services b) k = Some q -> good_queue q) by (intros k q; apply (inv_lookup b k q Hinv0)).
  destruct Hinv0 as [Hinv _]. fold gq in Hinv.
  destruct a as [|c|k c flags|k c flags|k c flags|k flags|k c|k|k|c r|c r|p|p]; simpl.
  - intros H; inversion H; subst; exact Hinv.
  - intros H; inversion H; subst; exact Hinv.
  - destruct (lookup (b_services b) k); [discriminate|]. intros H; inversion H; subst; simpl.
    apply Forall_app; split; [exact Hinv|]. constructor; [|constructor]. unfold gq; simpl.
    split; [discriminate|]. split; [reflexivity|]. constructor; [simpl; tauto|constructor].
  - destruct (lookup (b_services b) k) as [[|h t]|] eqn:El; try discriminate.
    destruct (find_owner (h :: t) c) eqn:Ef; [discriminate|]. intros H; inversion H; subst; simpl.
    destruct (Hl _ _ El) as (_ & Hlive & Hnd). simpl in Hlive. apply andb_true_iff in Hlive. destruct Hlive as [Hh Ht].
    pose proof (find_owner_none_notin _ _ Ef) as Hnot. fold (conns (h :: t)) in Hnd.
    apply Forall_set_queue; [|exact Hinv]. intros k'. unfold gq; simpl.
    destruct (has_flag flags DBUS_NAME_FLAG_REPLACE_EXISTING).
    + split; [discriminate|]. split; [simpl; rewrite Hh, Ht; reflexivity|].
      apply (Permutation_NoDup (l := c :: conns (h :: t))); [simpl; apply perm_swap|]. constructor; assumption.
    + split; [discriminate|]. split; [simpl; rewrite Hh; simpl; rewrite forallb_app; rewrite Ht; reflexivity|].
      change (NoDup (conns ((h :: t) ++ [new_owner c flags]))). unfold conns. rewrite map_app. simpl.
      apply (Permutation_NoDup (l := c :: conns (h :: t))); [apply Permutation_cons_append|]. constructor; assumption.
  - destruct (lookup (b_services b) k) as [q|] eqn:El; [|discriminate].
    destruct (find_owner q c) as [o|] eqn:Ef; [|discriminate].
    destruct (Hl _ _ El) as (Hne & Hlive & Hnd). fold (conns q) in Hnd.
    destruct (has_flag flags DBUS_NAME_FLAG_REPLACE_EXISTING).
    + destruct (remove_first (is_conn c) q) as [|h t] eqn:Er; [discriminate|]. intros H; inversion H; subst; simpl.
      apply Forall_set_queue; [|exact Hinv]. intros k'. unfold gq; simpl. split; [discriminate|].
      pose proof (forallb_remove_first (is_conn c) o_live q Hlive) as Hrf. rewrite Er in Hrf. simpl in Hrf.
      apply andb_true_iff in Hrf. destruct Hrf as [Hh Ht]. split.
      * simpl. rewrite Hh, Ht, (find_owner_live _ _ _ Hlive Ef). reflexivity.
      * pose proof (nodup_remove_first c q Hnd) as Hn1. pose proof (removed_notin c q Hnd) as Hn2. rewrite Er in Hn1, Hn2.
        simpl. rewrite (find_owner_conn _ _ _ Ef).
        apply (Permutation_NoDup (l := c :: conns (h :: t))); [simpl; apply perm_swap|]. constructor; assumption.
    + intros H; inversion H; subst; simpl. apply Forall_set_queue; [|exact Hinv]. intros k'. unfold gq; simpl. split; [|split].
      * destruct q; [congruence|]. simpl. destruct (o_conn o0 =? c); discriminate.
      * apply forallb_refresh_first; exact Hlive.
      * fold (conns (refresh_first q c flags)). rewrite conns_refresh_first. exact Hnd.
  - destruct (lookup (b_services b) k) as [[|p w]|] eqn:El; try discriminate. intros H; inversion H; subst; simpl.
    destruct (Hl _ _ El) as (_ & Hlive & Hnd). simpl in Hlive.
    apply Forall_set_queue; [|exact Hinv]. intros k'. unfold gq; simpl. split; [discriminate|]. split; [exact Hlive|exact Hnd].
  - destruct (lookup (b_services b) k) as [q|] eqn:El; [|discriminate].
    destruct (find_owner q c); [|discriminate]. intros H; inversion H; subst; simpl.
    destruct (Hl _ _ El) as (_ & Hlive & Hnd).
    apply Forall_put_queue; [|exact Hinv].
    destruct (remove_first (is_conn c) q) eqn:Er; [left; reflexivity|right]. split; [discriminate|]. split.
    + rewrite <- Er. apply forallb_remove_first; exact Hlive.
    + rewrite <- Er. apply (nodup_remove_first c q Hnd).
  - destruct (lookup (b_services b) k) as [[|p rest]|] eqn:El; try discriminate. intros H; inversion H; subst; simpl.
    destruct (Hl _ _ El) as (_ & Hlive & Hnd). simpl in Hlive. apply andb_true_iff in Hlive. destruct Hlive as [_ Hr].
    inversion Hnd; subst.
    apply Forall_put_queue; [|exact Hinv]. destruct rest; [left; reflexivity|right; split; [discriminate|split; assumption]].
  - destruct (lookup (b_services b) k) as [[|p [|n rest]]|] eqn:El; try discriminate. intros H; inversion H; subst; simpl.
    destruct (Hl _ _ El) as (_ & Hlive & Hnd). simpl in Hlive.
    apply Forall_set_queue; [|exact Hinv]. intros k'. unfold gq; simpl. split; [discriminate|]. split.
    + apply andb_true_iff in Hlive. destruct Hlive as [Hp Hr]. apply andb_true_iff in Hr. destruct Hr as [Hn Hr].
      simpl. rewrite Hp, Hn, Hr. reflexivity.
    + simpl. apply (Permutation_NoDup (l := o_conn p :: o_conn n :: map o_conn rest)); [apply perm_swap|exact Hnd].
  - intros H; inversion H; subst; exact Hinv.
  - destruct (find_conn (b_conns b) c) as [cn|]; [|discriminate].
    destruct (existsb (N.eqb r) (c_rules cn)); [|discriminate]. intros H; inversion H; subst; exact Hinv.
  - intros H; inversion H; subst; exact Hinv.
  - destruct (existsb (pend_eqb p) (b_pending b)); [|discriminate]. intros H; inversion H; subst; exact Hinv.
Qed.

Lemma keys_put_queue ss k q : NoDup (map fst ss) -> NoDup (map fst (put_queue ss k q)).
Proof.
  intros H. unfold put_queue. destruct q; [apply keys_del_nodup; exact H|rewrite keys_set_queue; exact H].
Qed.

Lemma do_action_keys a b b' hs : inv b -> do_action a b = Some (b', hs) -> NoDup (map fst (b_services b')).
Proof.
  intros [_ Hk].
  destruct a as [|c|k c flags|k c flags|k c flags|k flags|k c|k|k|c r|c r|p|p]; simpl.
  - intros H; inversion H; subst; exact Hk.
  - intros H; inversion H; subst; exact Hk.
  - destruct (lookup (b_services b) k) eqn:El; [discriminate|]. intros H; inversion H; subst; simpl.
    rewrite map_app. simpl. apply (Permutation_NoDup (l := k :: map fst (b_services b))); [apply Permutation_cons_append|].
    constructor; [apply lookup_none_notin; exact El|exact Hk].
  - destruct (lookup (b_services b) k) as [[|h t]|]; try discriminate.
    destruct (find_owner (h :: t) c); [discriminate|]. intros H; inversion H; subst; simpl. rewrite keys_set_queue; exact Hk.
  - destruct (lookup (b_services b) k) as [q|]; [|discriminate]. destruct (find_owner q c); [|discriminate].
    destruct (has_flag flags DBUS_NAME_FLAG_REPLACE_EXISTING).
    + destruct (remove_first (is_conn c) q); [discriminate|]. intros H; inversion H; subst; simpl. rewrite keys_set_queue; exact Hk.
    + intros H; inversion H; subst; simpl. rewrite keys_set_queue; exact Hk.
  - destruct (lookup (b_services b) k) as [[|p w]|]; try discriminate. intros H; inversion H; subst; simpl. rewrite keys_set_queue; exact Hk.
  - destruct (lookup (b_services b) k) as [q|]; [|discriminate]. destruct (find_owner q c); [|discriminate].
    intros H; inversion H; subst; simpl. apply keys_put_queue; exact Hk.
  - destruct (lookup (b_services b) k) as [[|p rest]|]; try discriminate. intros H; inversion H; subst; simpl. apply keys_put_queue; exact Hk.
  - destruct (lookup (b_services b) k) as [[|p [|n rest]]|]; try discriminate. intros H; inversion H; subst; simpl. rewrite keys_set_queue; exact Hk.
  - intros H; inversion H; subst; exact Hk.
  - destruct (find_conn (b_conns b) c) as [cn|]; [|discriminate].
    destruct (existsb (N.eqb r) (c_rules cn)); [|discriminate]. intros H; inversion H; subst; exact Hk.
  - intros H; inversion H; subst; exact Hk.
  - destruct (existsb (pend_eqb p) (b_pending b)); [|discriminate]. intros H; inversion H; subst; exact Hk.
Qed.

Lemma do_action_inv a b b' hs : inv b -> do_action a b = Some (b', hs) -> inv b'.
Proof. intros Hi Hd. split; [eapply do_action_queues; eauto|eapply do_action_keys; eauto]. Qed.

Lemma interp_inv A (p : prog A) F : forall s, inv (s_bus s) ->
  match interp F p s with
  | Ok _ s' | Oom s' | Err _ s' => inv (s_bus s')
  | Halt => True
  end.
Proof.
  induction p as [a|e| |k IH|o k IH|k IH|a k IH]; intros s Hinv; simpl.
  - exact Hinv.
  - exact Hinv.
  - exact I.
  - destruct (F (s_i s)); [exact Hinv|]. apply IH; exact Hinv.
  - destruct (any_fail F (s_i s) (stage_cost (s_msgs s) o)); [exact Hinv|]. apply IH; exact Hinv.
  - apply IH; exact Hinv.
  - destruct (do_action a (s_bus s)) as [[b' hs]|] eqn:Ed; [|exact I].
    apply IH. simpl. eapply do_action_inv; eauto.
Qed.

Lemma free_all_inv hs b : inv b -> inv (free_all hs b).
Proof.
  revert b; induction hs as [|h r IH]; intros b Hinv; simpl; [exact Hinv|].
  apply IH. destruct h; simpl; auto.
Qed.

Lemma interp_nofail_no_oom A (p : prog A) : forall s s', interp no_fail p s <> Oom s'.
Proof.
  induction p as [a|e| |k IH|o k IH|k IH|a k IH]; intros s s'; simpl.
  - discriminate.
  - discriminate.
  - discriminate.
  - apply IH.
  - rewrite any_fail_none. apply IH.
  - apply IH.
  - destruct (do_action a (s_bus s)) as [[b' hs]|]; [apply IH|discriminate].
Qed.

