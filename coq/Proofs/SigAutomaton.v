(* Signatures: the model of the C automaton (_dbus_validate_signature_with_reason)
   accepts the printed form of every sequence of well-formed single complete
   types within the limits, the nesting limits being counted the way the code
   counts them (arrays: longest run of consecutive 'a'; structs and dict
   entries: number of enclosing open brackets). *)
From DV Require Import Lib.Base Spec.Codec Wire.Sig Proofs.CodecBasics Proofs.CodecWf Proofs.SigRoundtrip.
From Coq Require Import ZArith ZifyBool ZifyN ZifyNat Arith.
Local Open Scope N_scope.

(* ---- nesting as the automaton counts it ---------------------------------------- *)
Fixpoint a_run (t : ty) : N := match t with TArray t' => 1 + a_run t' | _ => 0 end.
Fixpoint a_max (t : ty) : N :=
  match t with
  | TBasic _ | TVariant => 0
  | TArray t' => N.max (1 + a_run t') (a_max t')
  | TStruct ts => fold_right (fun t a => N.max (a_max t) a) 0 ts
  | TDict _ v => a_max v
  end.

Lemma a_run_le_max t : a_run t <= a_max t.
Proof. destruct t; cbn [a_run a_max]; lia. Qed.

Lemma fold_max_le {A} (g : A -> N) (m : N) : forall l,
  fold_right (fun t a => N.max (g t) a) 0 l <= m -> Forall (fun t => g t <= m) l.
Proof.
  induction l as [|x r IH]; intros H; [constructor|]. cbn [fold_right] in H.
  constructor; [lia|apply IH; lia].
Qed.

Lemma fold_max_mono {A} (g h : A -> N) : forall l, Forall (fun t => g t <= h t) l ->
  fold_right (fun t a => N.max (g t) a) 0 l <= fold_right (fun t a => N.max (h t) a) 0 l.
Proof. induction 1; cbn [fold_right]; lia. Qed.

Lemma a_run_le_nest : forall t, a_run t <= array_nest t.
Proof. induction t using ty_ind'; cbn [a_run array_nest]; lia. Qed.

Lemma a_max_le_nest : forall t, a_max t <= array_nest t.
Proof.
  induction t as [c| |t IH|ts IH|k v IH] using ty_ind'; cbn [a_max array_nest]; try lia.
  - pose proof (a_run_le_nest t). lia.
  - apply fold_max_mono. exact IH.
Qed.

(* ---- table facts ------------------------------------------------------------------ *)
Lemma basic_tbl c : is_basic_code c = true -> type_basic c = true /\ type_valid c = true.
Proof.
  intros H. apply basic_code_cases in H.
  repeat (destruct H as [H|H]; [subst c; split; vm_compute; reflexivity|]). subst c; split; vm_compute; reflexivity.
Qed.

(* ---- single steps ------------------------------------------------------------------- *)
Lemma step_basic sd ad dd lc cnt stk br c nxt : is_basic_code c = true ->
  sig_step (mkSigSt sd ad dd lc (cnt :: stk) br) c nxt = inl (mkSigSt sd 0 dd c (cnt + 1 :: stk) br).
Proof.
  intros H. destruct (basic_tbl c H) as [Hb Hv]. destruct (basic_code_ne c H) as (H1 & H2 & H3 & H4 & H5 & H6 & _).
  unfold sig_step, is_switch_basic. rewrite Hb, Hv. cbn [orb andb negb].
  change DBUS_TYPE_ARRAY with 97. change DBUS_DICT_ENTRY_BEGIN_CHAR with 123. change DBUS_STRUCT_BEGIN_CHAR with 40.
  apply N.eqb_neq in H2, H3, H5. rewrite H2, H3, H5. cbn [negb andb pop stack struct_depth array_depth dict_depth last_c brackets].
  destruct (0 <? ad) eqn:E; cbn [last_c struct_depth array_depth dict_depth stack brackets]; rewrite andb_false_r; [reflexivity|].
  apply N.ltb_ge in E. replace ad with 0 by lia. reflexivity.
Qed.

Ltac consts :=
  change DBUS_TYPE_ARRAY with 97; change DBUS_DICT_ENTRY_BEGIN_CHAR with 123; change DBUS_STRUCT_BEGIN_CHAR with 40;
  change DBUS_STRUCT_END_CHAR with 41; change DBUS_DICT_ENTRY_END_CHAR with 125; change DBUS_TYPE_VARIANT with 118;
  change DBUS_MAXIMUM_TYPE_RECURSION_DEPTH with 32.
Ltac projs := cbn [negb andb orb pop fst snd stack struct_depth array_depth dict_depth last_c brackets].

Lemma step_variant sd ad dd lc cnt stk br nxt : lc <> 123 ->
  sig_step (mkSigSt sd ad dd lc (cnt :: stk) br) 118 nxt = inl (mkSigSt sd 0 dd 118 (cnt + 1 :: stk) br).
Proof.
  intros Hl. apply N.eqb_neq in Hl.
  unfold sig_step, is_switch_basic. consts. change (118 =? 118) with true. rewrite orb_true_r.
  change (118 =? 97) with false. change (118 =? 123) with false. change (118 =? 40) with false. projs.
  destruct (0 <? ad) eqn:E; projs; rewrite Hl; projs; [reflexivity|].
  apply N.ltb_ge in E. replace ad with 0 by lia. reflexivity.
Qed.

Lemma step_array sd ad dd lc stk br nxt : lc <> 123 -> ad + 1 <= 32 -> nxt <> 41 -> nxt <> 125 ->
  sig_step (mkSigSt sd ad dd lc stk br) 97 nxt = inl (mkSigSt sd (ad + 1) dd 97 stk br).
Proof.
  intros Hl Ha Hn1 Hn2. apply N.eqb_neq in Hl, Hn1, Hn2.
  unfold sig_step. change (is_switch_basic 97) with false. consts. change (97 =? 97) with true. projs.
  replace (32 <? ad + 1) with false by lia. projs.
  replace (0 <? ad + 1) with true by lia. rewrite Hn1, Hn2. projs. rewrite Hl. projs. reflexivity.
Qed.

Lemma step_sopen sd ad dd lc stk br nxt : lc <> 123 -> sd + 1 <= 32 ->
  sig_step (mkSigSt sd ad dd lc stk br) 40 nxt = inl (mkSigSt (sd + 1) 0 dd 40 (0 :: stk) (40 :: br)).
Proof.
  intros Hl Hs. apply N.eqb_neq in Hl.
  unfold sig_step. change (is_switch_basic 40) with false. consts.
  change (40 =? 97) with false. change (40 =? 40) with true. change (40 =? 123) with false. projs.
  replace (32 <? sd + 1) with false by lia. projs.
  destruct (0 <? ad) eqn:E; projs; rewrite Hl; projs; [reflexivity|].
  apply N.ltb_ge in E. replace ad with 0 by lia. reflexivity.
Qed.

Lemma step_sclose sd ad dd lc cnt c2 stk br nxt : lc <> 123 -> lc <> 40 -> sd <> 0 ->
  sig_step (mkSigSt sd ad dd lc (cnt :: c2 :: stk) (40 :: br)) 41 nxt = inl (mkSigSt (sd - 1) 0 dd 41 (c2 + 1 :: stk) br).
Proof.
  intros Hl Hl2 Hs. apply N.eqb_neq in Hl, Hl2, Hs.
  unfold sig_step. change (is_switch_basic 41) with false. consts.
  change (41 =? 97) with false. change (41 =? 40) with false. change (41 =? 41) with true. change (41 =? 123) with false. projs.
  rewrite Hs, Hl2. change (40 =? 40) with true. projs.
  destruct (0 <? ad) eqn:E; projs; rewrite Hl; projs; [reflexivity|].
  apply N.ltb_ge in E. replace ad with 0 by lia. reflexivity.
Qed.

Lemma step_dopen sd ad dd stk br nxt : dd + 1 <= 32 ->
  sig_step (mkSigSt sd ad dd 97 stk br) 123 nxt = inl (mkSigSt sd 0 (dd + 1) 123 (0 :: stk) (123 :: br)).
Proof.
  intros Hd.
  unfold sig_step. change (is_switch_basic 123) with false. consts.
  change (123 =? 97) with false. change (123 =? 40) with false. change (123 =? 41) with false. change (123 =? 123) with true.
  projs. change (97 =? 97) with true. projs.
  replace (32 <? dd + 1) with false by lia. projs.
  destruct (0 <? ad) eqn:E; projs; change (97 =? 123) with false; projs; [reflexivity|].
  apply N.ltb_ge in E. replace ad with 0 by lia. reflexivity.
Qed.

Lemma step_dclose sd ad dd lc c2 stk br nxt : lc <> 123 -> dd <> 0 ->
  sig_step (mkSigSt sd ad dd lc (2 :: c2 :: stk) (123 :: br)) 125 nxt = inl (mkSigSt sd 0 (dd - 1) 125 (c2 + 1 :: stk) br).
Proof.
  intros Hl Hd. apply N.eqb_neq in Hl, Hd.
  unfold sig_step. change (is_switch_basic 125) with false. consts.
  change (125 =? 97) with false. change (125 =? 40) with false. change (125 =? 41) with false. change (125 =? 123) with false.
  change (125 =? 125) with true. projs.
  rewrite Hd. change (123 =? 123) with true. projs. change (2 =? 2) with true. projs.
  destruct (0 <? ad) eqn:E; projs; rewrite Hl; projs; [reflexivity|].
  apply N.ltb_ge in E. replace ad with 0 by lia. reflexivity.
Qed.

(* ---- running the automaton over a prefix ------------------------------------------- *)
Fixpoint sig_run (s : bytes) (nxt : N) (st : sigst) : sigst + Z :=
  match s with
  | [] => inl st
  | c :: r =>
      match sig_step st c (match r with [] => nxt | n :: _ => n end) with
      | inr e => inr e
      | inl st' => sig_run r nxt st'
      end
  end.

Lemma sig_run_app : forall s1 s2 nxt st,
  sig_run (s1 ++ s2) nxt st =
  match sig_run s1 (hd nxt s2) st with inl st' => sig_run s2 nxt st' | inr e => inr e end.
Proof.
  induction s1 as [|c r IH]; intros s2 nxt st; [reflexivity|].
  cbn [app sig_run].
  replace (match r ++ s2 with [] => nxt | n :: _ => n end) with (match r with [] => hd nxt s2 | n :: _ => n end)
    by (destruct r; [destruct s2|]; reflexivity).
  destruct (sig_step st c _) as [st'|e]; [apply IH|reflexivity].
Qed.

Lemma sig_loop_run : forall s st,
  sig_loop s st = match sig_run s 0 st with inl st' => sig_loop [] st' | inr e => e end.
Proof.
  induction s as [|c r IH]; intros st; [reflexivity|].
  cbn [sig_loop sig_run]. destruct (sig_step st c _) as [st'|e]; [apply IH|reflexivity].
Qed.

Lemma sig_run_cons c r nxt st :
  sig_run (c :: r) nxt st =
  match sig_step st c (hd nxt r) with inr e => inr e | inl st' => sig_run r nxt st' end.
Proof. destruct r; reflexivity. Qed.

(* ---- one single complete type, in any context ---------------------------------------- *)
Definition run_sct_statement (t : ty) : Prop :=
  forall sd ad dd lc cnt stk br nxt,
    lc <> 123 -> ad + a_run t <= 32 -> a_max t <= 32 -> sd + struct_nest t <= 32 -> dd + dict_nest t <= 32 ->
    exists l, l <> 40 /\ l <> 123 /\
      sig_run (print_ty t) nxt (mkSigSt sd ad dd lc (cnt :: stk) br) = inl (mkSigSt sd 0 dd l (cnt + 1 :: stk) br).

Section RunFields.
  Variable f : nat.
  Hypothesis IHf : forall t, ty_okb t = true -> (tdepth t < f)%nat -> run_sct_statement t.

  Lemma run_fields : forall ts, forallb ty_okb ts = true -> (tdepths ts < f)%nat ->
    forall sd dd lc cnt stk br nxt, lc <> 123 ->
      Forall (fun t => a_max t <= 32 /\ sd + struct_nest t <= 32 /\ dd + dict_nest t <= 32) ts ->
      exists l, l <> 123 /\ (ts <> [] -> l <> 40) /\
        sig_run (flat_map print_ty ts) nxt (mkSigSt sd 0 dd lc (cnt :: stk) br) =
        inl (mkSigSt sd 0 dd l (cnt + nlen ts :: stk) br).
  Proof.
    induction ts as [|t ts IH]; intros Hok Hd sd dd lc cnt stk br nxt Hl Hn.
    - exists lc. split; [exact Hl|]. split; [congruence|]. cbn [flat_map sig_run]. unfold nlen. cbn [length N.of_nat].
      rewrite N.add_0_r. reflexivity.
    - cbn [forallb] in Hok. apply andb_true_iff in Hok. destruct Hok as [Ht Hts].
      rewrite tdepths_cons in Hd. inversion Hn as [|? ? (Ha & Hs & Hdd) Hn']; subst.
      cbn [flat_map]. rewrite sig_run_app.
      pose proof (a_run_le_max t) as Hrm.
      destruct (IHf t Ht ltac:(lia) sd 0 dd lc cnt stk br (hd nxt (flat_map print_ty ts)) Hl ltac:(lia) Ha Hs Hdd)
        as (l & Hl1 & Hl2 & E).
      rewrite E.
      destruct ts as [|t2 ts2].
      + exists l. split; [exact Hl2|]. split; [intros _; exact Hl1|].
        cbn [flat_map sig_run]. f_equal.
      + destruct (IH Hts ltac:(lia) sd dd l (cnt + 1) stk br nxt Hl2 Hn') as (l' & Hl1' & Hl2' & E').
        rewrite E'. exists l'. split; [exact Hl1'|]. split; [intros _; apply Hl2'; discriminate|].
        f_equal. f_equal. f_equal. unfold nlen. cbn [length]. lia.
  Qed.
End RunFields.

Lemma run_sct_fuel : forall f t, ty_okb t = true -> (tdepth t < f)%nat -> run_sct_statement t.
Proof.
  induction f as [|f IH]; intros t Hok Hd; [lia|].
  unfold run_sct_statement. intros sd ad dd lc cnt stk br nxt Hl Har Ham Hsn Hdn.
  destruct t as [c| |t|ts|k v].
  - (* basic *)
    cbn [print_ty sig_run]. rewrite step_basic by exact Hok.
    destruct (basic_code_ne c Hok) as (_ & _ & ? & _ & ? & _). exists c. auto.
  - cbn [print_ty sig_run]. rewrite step_variant by exact Hl. exists 118. repeat split; discriminate.
  - cbn [tdepth] in Hd. destruct (ty_okb_array t Hok) as [(k & v & -> & Hk & Hv)|Ht].
    + (* a{kv} *)
      cbn [a_run a_max struct_nest dict_nest tdepth] in *.
      cbn [print_ty]. rewrite sig_run_cons. cbn [hd].
      rewrite step_array by (try lia; try discriminate; exact Hl).
      rewrite sig_run_cons. rewrite step_dopen by lia.
      rewrite sig_run_cons. rewrite step_basic by exact Hk.
      rewrite sig_run_app. cbn [hd].
      destruct (basic_code_ne k Hk) as (_ & _ & _ & _ & Hk123 & _).
      pose proof (a_run_le_max v) as Hrm.
      destruct f as [|f']; [lia|].
      destruct (IH v Hv ltac:(lia) sd 0 (dd + 1) k (0 + 1) (cnt :: stk) (123 :: br) 125 Hk123 ltac:(lia) ltac:(lia) Hsn ltac:(lia))
        as (l & Hl1 & Hl2 & E).
      rewrite E. change (0 + 1 + 1) with 2. cbn [sig_run].
      rewrite step_dclose by (try lia; exact Hl2).
      exists 125. split; [discriminate|]. split; [discriminate|]. rewrite N.add_sub. reflexivity.
    + (* a t *)
      destruct (print_ty_head t Ht) as (c & r & E & Hc41 & _ & Hc125).
      cbn [a_run a_max struct_nest dict_nest] in *.
      cbn [print_ty]. rewrite sig_run_cons. rewrite E. cbn [hd].
      rewrite step_array by (try lia; assumption). rewrite <- E.
      destruct (IH t Ht ltac:(lia) sd (ad + 1) dd 97 cnt stk br nxt ltac:(discriminate) ltac:(lia) ltac:(lia) Hsn Hdn)
        as (l & Hl1 & Hl2 & E2).
      exists l. auto.
  - (* struct *)
    cbn [ty_okb] in Hok. apply andb_true_iff in Hok. destruct Hok as [Hne Hts].
    cbn [tdepth] in Hd. fold (tdepths ts) in Hd.
    cbn [a_run a_max struct_nest dict_nest] in *.
    cbn [print_ty]. rewrite sig_run_cons. rewrite step_sopen by (try lia; exact Hl).
    rewrite sig_run_app. cbn [hd].
    destruct (run_fields f IH ts Hts ltac:(lia) (sd + 1) dd 40 0 (cnt :: stk) (40 :: br) 41 ltac:(discriminate)) as (l & Hl1 & Hl2 & E).
    { apply fold_max_le in Ham.
      assert (Hsn' : Forall (fun t => struct_nest t <= 32 - (sd + 1)) ts) by (apply fold_max_le; lia).
      assert (Hdn' : Forall (fun t => dict_nest t <= 32 - dd) ts) by (apply fold_max_le; lia).
      assert (Hsd : sd + 1 <= 32 /\ dd <= 32) by lia.
      clear Hsn Hdn. rename Hsn' into Hsn. rename Hdn' into Hdn.
      rewrite Forall_forall in *. intros t Hin. specialize (Ham t Hin). specialize (Hsn t Hin). specialize (Hdn t Hin).
      cbv beta in *. lia. }
    rewrite E. cbn [sig_run].
    assert (Hnn : ts <> []) by (destruct ts; [discriminate|discriminate]).
    rewrite step_sclose by (try lia; auto).
    exists 41. split; [discriminate|]. split; [discriminate|]. rewrite N.add_sub. reflexivity.
  - discriminate.
Qed.

Theorem run_sct : forall t, ty_okb t = true -> run_sct_statement t.
Proof. intros t Hok. apply (run_sct_fuel (S (tdepth t)) t Hok). lia. Qed.

(* ---- whole signatures ------------------------------------------------------------------- *)
(* the limits as the code counts them *)
Definition code_limits (t : ty) : Prop := a_max t <= 32 /\ struct_nest t <= 32 /\ dict_nest t <= 32.

Lemma code_limits_of_nest t : array_nest t <= 32 -> struct_nest t <= 32 -> dict_nest t <= 32 -> code_limits t.
Proof. intros Ha Hs Hd. pose proof (a_max_le_nest t). unfold code_limits. lia. Qed.

Theorem validate_signature_prints : forall ts, forallb ty_okb ts = true ->
  nlen (flat_map print_ty ts) <= 255 -> Forall code_limits ts ->
  validate_signature (flat_map print_ty ts) = true.
Proof.
  intros ts Hok Hlen Hlim.
  unfold validate_signature, validate_signature_reason.
  change DBUS_MAXIMUM_SIGNATURE_LENGTH with 255.
  replace (255 <? nlen (flat_map print_ty ts)) with false by lia.
  rewrite sig_loop_run. unfold sig_init.
  destruct (run_fields (S (tdepths ts)) (fun t H _ => run_sct t H) ts Hok ltac:(lia) 0 0 0 0 [] [] 0 ltac:(discriminate))
    as (l & _ & _ & E).
  { eapply Forall_impl; [|exact Hlim]. intros t (Ha & Hs & Hd). cbv beta. lia. }
  rewrite E. reflexivity.
Qed.

Corollary validate_signature_prints_nest : forall ts, forallb ty_okb ts = true ->
  nlen (flat_map print_ty ts) <= 255 ->
  Forall (fun t => array_nest t <= 32 /\ struct_nest t <= 32 /\ dict_nest t <= 32) ts ->
  validate_signature (flat_map print_ty ts) = true.
Proof.
  intros ts Hok Hlen Hlim. apply validate_signature_prints; [exact Hok|exact Hlen|].
  eapply Forall_impl; [|exact Hlim]. intros t (Ha & Hs & Hd). apply code_limits_of_nest; assumption.
Qed.

Corollary validate_signature_print : forall t, ty_okb t = true -> nlen (print_ty t) <= 255 ->
  array_nest t <= 32 -> struct_nest t <= 32 -> dict_nest t <= 32 ->
  validate_signature (print_ty t) = true.
Proof.
  intros t Hok Hlen Ha Hs Hd. pose proof (validate_signature_prints_nest [t]) as H.
  cbn [flat_map forallb] in H. rewrite app_nil_r, andb_true_r in H. apply H; [exact Hok|exact Hlen|].
  constructor; [auto|constructor].
Qed.

(* on printed well-formed types the model agrees with the grammar whenever the grammar's
   limits and the dict-entry limit hold *)
Corollary validate_eq_spec_on_prints : forall ts, forallb ty_okb ts = true ->
  nlen (flat_map print_ty ts) <= 255 ->
  Forall (fun t => array_nest t <= 32 /\ struct_nest t <= 32 /\ dict_nest t <= 32) ts ->
  validate_signature (flat_map print_ty ts) = spec_signature (flat_map print_ty ts).
Proof.
  intros ts Hok Hlen Hlim. rewrite validate_signature_prints_nest by assumption.
  symmetry. apply spec_signature_prints; [exact Hok|exact Hlen|].
  eapply Forall_impl; [|exact Hlim]. intros t (Ha & Hs & Hd). auto.
Qed.

(* the automaton's array limit is really weaker than the grammar's: 33 nested arrays separated
   by structs satisfy code_limits but not array_nest <= 32 (finding F11) *)
Example ex_code_limits_weaker :
  let t := Nat.iter 32 (fun t => TArray (TStruct [t])) (TArray (TBasic 105)) in
  ty_okb t = true /\ a_max t = 1 /\ array_nest t = 33.
Proof. vm_compute. auto. Qed.

(* ======================================================================================== *)
(* ---- converse: whatever the automaton accepts is the printed form of well-formed types ---- *)

(* table facts *)
Lemma big_basic_code c : 256 <= c -> is_basic_code c = false.
Proof.
  intros H. destruct (is_basic_code c) eqn:E; [|reflexivity]. apply basic_code_cases in E. lia.
Qed.

Lemma switch_basic_char : forall c, is_switch_basic c = is_basic_code c || (c =? 118).
Proof.
  apply sweep256; [vm_compute; reflexivity|]. intros c Hc. rewrite big_basic_code by exact Hc.
  unfold is_switch_basic, type_basic. rewrite tbl_big by (apply N.le_trans with 256; [vm_compute; discriminate|exact Hc]).
  reflexivity.
Qed.

Lemma valid_basic_char : forall c, type_valid c && type_basic c = is_basic_code c.
Proof.
  apply sweep256; [vm_compute; reflexivity|]. intros c Hc. rewrite big_basic_code by exact Hc.
  unfold type_basic. rewrite (tbl_big tbl_type_basic) by (apply N.le_trans with 256; [vm_compute; discriminate|exact Hc]).
  apply andb_false_r.
Qed.

Lemma step_errors st c nxt e : sig_step st c nxt = inr e -> e <> V_VALID.
Proof.
  unfold sig_step. intros H.
  repeat match type of H with
         | context [if ?b then _ else _] => destruct b
         | context [let '(_, _) := ?p in _] => destruct p
         end; cbn in H; try discriminate; inversion H; subst; vm_compute; discriminate.
Qed.

(* inversion of successful steps *)
Lemma ad_reset (ad : N) : (if 0 <? ad then 0 else ad) = 0.
Proof. destruct (0 <? ad) eqn:E; [reflexivity|]. apply N.ltb_ge in E. lia. Qed.

Lemma step_sb_inv sd ad dd lc cnt stk br c nxt st' : is_switch_basic c = true ->
  sig_step (mkSigSt sd ad dd lc (cnt :: stk) br) c nxt = inl st' ->
  (lc = 123 -> is_basic_code c = true) /\ st' = mkSigSt sd 0 dd c (cnt + 1 :: stk) br.
Proof.
  intros Hsw. pose proof Hsw as Hsw'. rewrite switch_basic_char in Hsw'.
  assert (Hne : (c =? 97) = false /\ (c =? 123) = false /\ (c =? 40) = false).
  { apply orb_true_iff in Hsw'. destruct Hsw' as [Hb|Hv].
    - destruct (basic_code_ne c Hb) as (_ & ? & ? & _ & ? & _). repeat split; apply N.eqb_neq; assumption.
    - apply N.eqb_eq in Hv. subst c. repeat split. }
  destruct Hne as (H2 & H5 & H3).
  unfold sig_step. rewrite Hsw. consts. rewrite H2, H3, H5. projs. rewrite valid_basic_char.
  destruct (0 <? ad) eqn:E; projs; destruct (lc =? 123) eqn:El; destruct (is_basic_code c) eqn:Eb; projs; intros H;
    try discriminate; inversion H; subst; (split; [intros ->; try reflexivity; discriminate|]);
    try reflexivity; apply N.ltb_ge in E; replace ad with 0 by lia; reflexivity.
Qed.

Lemma step97_inv sd ad dd lc stk br nxt st' :
  sig_step (mkSigSt sd ad dd lc stk br) 97 nxt = inl st' ->
  nxt <> 41 /\ nxt <> 125 /\ lc <> 123 /\ st' = mkSigSt sd (ad + 1) dd 97 stk br.
Proof.
  unfold sig_step. change (is_switch_basic 97) with false. consts. change (97 =? 97) with true. projs.
  destruct (32 <? ad + 1) eqn:E1; [discriminate|]. projs.
  replace (0 <? ad + 1) with true by lia.
  destruct (nxt =? 41) eqn:E2; [discriminate|]. destruct (nxt =? 125) eqn:E3; [discriminate|]. projs.
  change (type_valid 97 && type_basic 97) with false. projs. rewrite andb_true_r.
  destruct (lc =? 123) eqn:E4; [discriminate|]. intros H. inversion H.
  apply N.eqb_neq in E2, E3, E4. auto.
Qed.

Lemma step40_inv sd ad dd lc stk br nxt st' :
  sig_step (mkSigSt sd ad dd lc stk br) 40 nxt = inl st' ->
  lc <> 123 /\ sd + 1 <= 32 /\ st' = mkSigSt (sd + 1) 0 dd 40 (0 :: stk) (40 :: br).
Proof.
  unfold sig_step. change (is_switch_basic 40) with false. consts.
  change (40 =? 97) with false. change (40 =? 40) with true. change (40 =? 123) with false. projs.
  destruct (32 <? sd + 1) eqn:E1; [discriminate|]. projs.
  change (type_valid 40 && type_basic 40) with false.
  destruct (0 <? ad) eqn:E; projs; rewrite andb_true_r; destruct (lc =? 123) eqn:E4; try discriminate;
    intros H; inversion H; apply N.eqb_neq in E4; (split; [exact E4|]); (split; [lia|]); try reflexivity.
  apply N.ltb_ge in E. replace ad with 0 by lia. reflexivity.
Qed.

Lemma step41_inv sd ad dd lc stk br nxt st' :
  sig_step (mkSigSt sd ad dd lc stk br) 41 nxt = inl st' ->
  lc <> 123 /\ lc <> 40 /\ sd <> 0 /\ fst (pop br) = 40 /\
  st' = mkSigSt (sd - 1) 0 dd 41 (fst (pop (snd (pop stk))) + 1 :: snd (pop (snd (pop stk)))) (snd (pop br)).
Proof.
  unfold sig_step. change (is_switch_basic 41) with false. consts.
  change (41 =? 97) with false. change (41 =? 40) with false. change (41 =? 41) with true. change (41 =? 123) with false. projs.
  destruct (sd =? 0) eqn:E1; [discriminate|]. destruct (lc =? 40) eqn:E2; [discriminate|].
  destruct (fst (pop br) =? 40) eqn:E3; [|discriminate]. projs.
  change (type_valid 41 && type_basic 41) with false.
  destruct (pop (snd (pop stk))) as [c2 stk2] eqn:Ep. projs.
  apply N.eqb_neq in E1, E2. apply N.eqb_eq in E3.
  destruct (0 <? ad) eqn:E; projs; rewrite andb_true_r; destruct (lc =? 123) eqn:E4; try discriminate;
    intros H; inversion H; apply N.eqb_neq in E4; repeat (split; [assumption|]); try reflexivity.
  apply N.ltb_ge in E. replace ad with 0 by lia. reflexivity.
Qed.

Lemma step123_inv sd ad dd lc stk br nxt st' :
  sig_step (mkSigSt sd ad dd lc stk br) 123 nxt = inl st' ->
  lc = 97 /\ st' = mkSigSt sd 0 (dd + 1) 123 (0 :: stk) (123 :: br).
Proof.
  unfold sig_step. change (is_switch_basic 123) with false. consts.
  change (123 =? 97) with false. change (123 =? 40) with false. change (123 =? 41) with false. change (123 =? 123) with true. projs.
  destruct (lc =? 97) eqn:E1; [|discriminate]. projs. apply N.eqb_eq in E1. subst lc.
  destruct (32 <? dd + 1) eqn:E2; [discriminate|]. projs.
  change (97 =? 123) with false. projs.
  destruct (0 <? ad) eqn:E; projs; intros H; inversion H; (split; [reflexivity|]); try reflexivity.
  apply N.ltb_ge in E. replace ad with 0 by lia. reflexivity.
Qed.

Lemma step125_inv sd ad dd lc stk br nxt st' :
  sig_step (mkSigSt sd ad dd lc stk br) 125 nxt = inl st' ->
  lc <> 123 /\ dd <> 0 /\ fst (pop br) = 123 /\ fst (pop stk) = 2 /\
  st' = mkSigSt sd 0 (dd - 1) 125 (fst (pop (snd (pop stk))) + 1 :: snd (pop (snd (pop stk)))) (snd (pop br)).
Proof.
  unfold sig_step. change (is_switch_basic 125) with false. consts.
  change (125 =? 97) with false. change (125 =? 40) with false. change (125 =? 41) with false. change (125 =? 123) with false.
  change (125 =? 125) with true. projs.
  destruct (dd =? 0) eqn:E1; [discriminate|]. destruct (fst (pop br) =? 123) eqn:E3; [|discriminate]. projs.
  destruct (pop stk) as [cnt stk1] eqn:Ep1. projs.
  destruct (cnt =? 2) eqn:E5; [|destruct (cnt =? 0); [discriminate|destruct (cnt =? 1); discriminate]].
  projs. change (type_valid 125 && type_basic 125) with false.
  destruct (pop stk1) as [c2 stk2] eqn:Ep. projs.
  apply N.eqb_neq in E1. apply N.eqb_eq in E3, E5.
  destruct (0 <? ad) eqn:E; projs; rewrite andb_true_r; destruct (lc =? 123) eqn:E4; try discriminate;
    intros H; inversion H; apply N.eqb_neq in E4; repeat (split; [assumption|]); try reflexivity.
  apply N.ltb_ge in E. replace ad with 0 by lia. reflexivity.
Qed.

Lemma step_other_inv st c nxt st' :
  is_switch_basic c = false -> c <> 97 -> c <> 40 -> c <> 41 -> c <> 123 -> c <> 125 ->
  sig_step st c nxt = inl st' -> False.
Proof.
  intros Hsw H1 H2 H3 H4 H5. apply N.eqb_neq in H1, H2, H3, H4, H5.
  unfold sig_step. rewrite Hsw. consts. rewrite H1, H2, H3, H4, H5. discriminate.
Qed.

(* the partial parse a prefix stands for: a stack of open frames (innermost first), each with its
   opening bracket (0 for the top level), the completed element types (last first) and the number
   of array codes read since the last completed element *)
Record frame := mkF { fk : N; fel : list ty; fp : nat }.

Fixpoint wrap (n : nat) (t : ty) : ty := match n with O => t | S n' => TArray (wrap n' t) end.

Lemma print_wrap n t : print_ty (wrap n t) = repeat 97 n ++ print_ty t.
Proof. induction n as [|n IH]; [reflexivity|]. cbn [wrap print_ty repeat app]. rewrite IH. reflexivity. Qed.

Lemma wrap_snoc n t : wrap n (TArray t) = wrap (S n) t.
Proof. induction n as [|n IH]; [reflexivity|]. cbn [wrap] in *. rewrite IH. reflexivity. Qed.

Lemma ty_okb_array_nd x : (forall k v, x <> TDict k v) -> ty_okb (TArray x) = ty_okb x.
Proof. intros H. destruct x; try reflexivity. exfalso. eapply H. reflexivity. Qed.

Lemma ty_okb_wrap n t : (forall k v, t <> TDict k v) -> ty_okb (wrap n t) = ty_okb t.
Proof.
  intros H. induction n as [|n IH]; [reflexivity|]. cbn [wrap]. rewrite ty_okb_array_nd; [exact IH|].
  destruct n; cbn [wrap]; [exact H|discriminate].
Qed.

Definition open_of (k : N) : bytes := if k =? 0 then [] else [k].

Fixpoint pr (fs : list frame) : bytes :=
  match fs with
  | [] => []
  | F :: outer => pr outer ++ open_of (fk F) ++ flat_map print_ty (rev (fel F)) ++ repeat 97 (fp F)
  end.

Definition dfw (F : frame) : Prop :=
  fk F = 123 -> fel F = [] \/ exists k l, fel F = l ++ [TBasic k] /\ is_basic_code k = true.

Fixpoint adj (fs : list frame) : Prop :=
  match fs with
  | [] => True
  | F :: outer => match outer with G :: _ => fk F = 123 -> (0 < fp G)%nat | [] => True end /\ adj outer
  end.

Fixpoint sdepth (fs : list frame) : N :=
  match fs with [] => 0 | F :: outer => (if fk F =? 40 then 1 else 0) + sdepth outer end.

Fixpoint snest (fs : list frame) : Prop :=
  match fs with
  | [] => True
  | F :: outer => Forall (fun t => sdepth fs + struct_nest t <= 32) (fel F) /\ snest outer
  end.

Lemma struct_nest_wrap n t : struct_nest (wrap n t) = struct_nest t.
Proof. induction n as [|n IH]; [reflexivity|]. cbn [wrap struct_nest]. exact IH. Qed.

Lemma fold_max_bound {A} (g : A -> N) (m : N) : forall l,
  Forall (fun t => g t <= m) l -> fold_right (fun t a => N.max (g t) a) 0 l <= m.
Proof. induction 1; cbn [fold_right]; lia. Qed.

Definition Inv (fs : list frame) (st : sigst) (rest : bytes) : Prop :=
  match fs with
  | [] => False
  | F :: outer =>
      map fk fs = brackets st ++ [0] /\
      struct_depth st + dict_depth st = nlen (brackets st) /\
      stack st = map (fun F => nlen (fel F)) fs /\
      Forall (fun F => forallb ty_okb (fel F) = true) fs /\
      Forall dfw fs /\ adj fs /\
      Forall (fun G => fk G = 123 -> fel G <> []) outer /\
      array_depth st = N.of_nat (fp F) /\
      ((0 < fp F)%nat -> hd 0 rest <> 41 /\ hd 0 rest <> 125) /\
      (last_c st = 97 -> (0 < fp F)%nat) /\
      (fk F = 40 -> fel F = [] -> fp F = 0%nat -> last_c st = 40) /\
      (fk F = 123 -> fel F = [] -> fp F = 0%nat /\ last_c st = 123) /\
      struct_depth st = sdepth fs /\ sdepth fs <= 32 /\ snest fs
  end.

Lemma flat_map_app' {A B} (f : A -> list B) l1 l2 : flat_map f (l1 ++ l2) = flat_map f l1 ++ flat_map f l2.
Proof. induction l1 as [|x r IH]; [reflexivity|]. cbn [app flat_map]. rewrite IH, app_assoc. reflexivity. Qed.

Lemma repeat_snoc {A} (a : A) n : repeat a (S n) = repeat a n ++ [a].
Proof. induction n as [|n IH]; [reflexivity|]. cbn [repeat app] in *. rewrite <- IH. reflexivity. Qed.

(* adding a completed element [wrap p t0] to the innermost frame *)
Lemma pr_complete k el p outer t0 :
  pr (mkF k (wrap p t0 :: el) 0 :: outer) = pr (mkF k el p :: outer) ++ print_ty t0.
Proof.
  cbn [pr fk fel fp rev repeat]. rewrite flat_map_app'. cbn [flat_map]. rewrite print_wrap.
  rewrite !app_nil_r. rewrite <- !app_assoc. reflexivity.
Qed.

Lemma forallb_rev {A} (f : A -> bool) l : forallb f l = true -> forallb f (rev l) = true.
Proof. rewrite !forallb_forall. intros H x Hin. apply H. apply in_rev. exact Hin. Qed.

Lemma ty_okb_struct_rev el : el <> [] -> forallb ty_okb el = true -> ty_okb (TStruct (rev el)) = true.
Proof.
  intros Hne Hok. cbn [ty_okb]. rewrite (forallb_rev _ _ Hok), andb_true_r.
  destruct (rev el) eqn:E; [|reflexivity]. apply (f_equal (@length ty)) in E. rewrite rev_length in E.
  destruct el; [contradiction|discriminate].
Qed.

Lemma pop_head_eq br c : fst (pop br) = c -> c <> 0 -> exists br', br = c :: br'.
Proof. destruct br as [|b br']; cbn [pop fst]; intros H Hc; [congruence|]. subst. exists br'. reflexivity. Qed.

Lemma frames_two k (outer : list frame) c br' : k :: map fk outer = (c :: br') ++ [0] ->
  k = c /\ exists G outer', outer = G :: outer' /\ fk G :: map fk outer' = br' ++ [0].
Proof.
  cbn [app]. intros H. injection H as -> H. split; [reflexivity|].
  destruct outer as [|G outer']; [destruct br'; discriminate|]. exists G, outer'. split; [reflexivity|exact H].
Qed.

Lemma inv_step fs st c rest st' :
  Inv fs st (c :: rest) -> sig_step st c (hd 0 rest) = inl st' ->
  exists fs', Inv fs' st' rest /\ pr fs' = pr fs ++ [c].
Proof.
  intros HI Hstep. destruct fs as [|[k el p] outer]; [contradiction|].
  destruct st as [sd ad dd lc stk br].
  unfold Inv in HI. cbn [struct_depth array_depth dict_depth last_c stack brackets fk fel fp hd] in HI.
  destruct HI as (Hbr & Hsd & Hstk & Hok & Hdfw & Hadj & Hnh & Had & Hla & Hl97 & Hl40 & Hl123 & Hsdp & Hs32 & Hsn).
  cbn [snest sdepth fk fel] in Hsdp, Hs32, Hsn.
  cbn [map fk fel] in Hbr, Hstk.
  destruct (is_switch_basic c) eqn:Hsw.
  { (* basic or variant *)
    rewrite Hstk in Hstep. apply (step_sb_inv _ _ _ _ _ _ _ _ _ _ Hsw) in Hstep. destruct Hstep as (Hkey & ->).
    set (t0 := if c =? 118 then TVariant else TBasic c).
    assert (Hpt : print_ty t0 = [c]).
    { subst t0. destruct (c =? 118) eqn:E; [apply N.eqb_eq in E; subst c|]; reflexivity. }
    assert (Hnd : forall k v, t0 <> TDict k v) by (subst t0; destruct (c =? 118); discriminate).
    assert (Hok0 : ty_okb t0 = true).
    { subst t0. rewrite switch_basic_char in Hsw. destruct (c =? 118); [reflexivity|]. rewrite orb_false_r in Hsw. exact Hsw. }
    exists (mkF k (wrap p t0 :: el) 0 :: outer). split; [|rewrite pr_complete, Hpt; reflexivity].
    unfold Inv. cbn [struct_depth array_depth dict_depth last_c stack brackets fk fel fp hd map].
    split; [exact Hbr|]. split; [exact Hsd|]. split; [rewrite nlen_cons; reflexivity|].
    split. { inversion Hok; subst. constructor; [|assumption]. cbn [fel forallb] in *. rewrite ty_okb_wrap by exact Hnd. rewrite Hok0. assumption. }
    split. { inversion Hdfw as [|? ? HdF Hdo]; subst. constructor; [|assumption]. unfold dfw in *. cbn [fk fel] in *. intros Hk. right.
             destruct (HdF Hk) as [->|(k0 & l & -> & Hk0)].
             - destruct (Hl123 Hk eq_refl) as [-> ->]. cbn [wrap]. specialize (Hkey eq_refl).
               subst t0. destruct (c =? 118) eqn:E; [apply N.eqb_eq in E; subst c; discriminate|]. exists c, []. auto.
             - exists k0, (wrap p t0 :: l). auto. }
    split. { destruct outer; exact Hadj. }
    split; [exact Hnh|]. split; [reflexivity|]. split; [lia|].
    split. { intros ->. rewrite switch_basic_char in Hsw. discriminate. }
    split; [intros; discriminate|]. split; [intros; discriminate|].
    cbn [snest sdepth fk fel]. split; [exact Hsdp|]. split; [exact Hs32|].
    destruct Hsn as [HsF Hso]. split; [|exact Hso]. constructor; [|exact HsF].
    rewrite struct_nest_wrap. replace (struct_nest t0) with 0 by (subst t0; destruct (c =? 118); reflexivity). lia. }
  destruct (N.eq_dec c 97) as [->|H97].
  { (* array code *)
    apply step97_inv in Hstep. destruct Hstep as (Hn1 & Hn2 & Hlc & ->).
    exists (mkF k el (S p) :: outer). split.
    2:{ cbn [pr fk fel fp]. rewrite repeat_snoc. rewrite <- !app_assoc. reflexivity. }
    unfold Inv. cbn [struct_depth array_depth dict_depth last_c stack brackets fk fel fp hd map].
    split; [exact Hbr|]. split; [exact Hsd|]. split; [exact Hstk|].
    split. { inversion Hok; subst. constructor; assumption. }
    split. { inversion Hdfw; subst. constructor; assumption. }
    split. { destruct outer; exact Hadj. }
    split; [exact Hnh|]. split; [lia|]. split; [intros _; split; assumption|].
    split; [intros _; lia|]. split; [intros _ _ H; discriminate|].
    split. { intros Hk He. destruct (Hl123 Hk He) as [_ H]. contradiction. }
    cbn [snest sdepth fk fel]. auto. }
  destruct (N.eq_dec c 40) as [->|H40].
  { (* struct begin *)
    apply step40_inv in Hstep. destruct Hstep as (Hlc & Hsd1 & ->).
    exists (mkF 40 [] 0 :: mkF k el p :: outer). split.
    2:{ cbn [pr fk fel fp rev flat_map repeat app]. change (open_of 40) with [40]. rewrite !app_nil_r. reflexivity. }
    unfold Inv. cbn [struct_depth array_depth dict_depth last_c stack brackets fk fel fp hd map].
    split; [cbn [app]; f_equal; exact Hbr|]. split; [rewrite nlen_cons; lia|]. split; [f_equal; exact Hstk|].
    split; [constructor; [reflexivity|exact Hok]|].
    split; [constructor; [intros H; discriminate|exact Hdfw]|].
    split; [split; [intros H; discriminate|exact Hadj]|].
    split. { constructor; [|exact Hnh]. cbn [fk fel]. intros Hk He. destruct (Hl123 Hk He) as [_ H]. contradiction. }
    split; [reflexivity|]. split; [intros H; inversion H|]. split; [intros H; discriminate|].
    split; [reflexivity|]. split; [intros H; discriminate|].
    cbn [snest sdepth fk fel]. change (40 =? 40) with true. cbv iota.
    split; [lia|]. split; [lia|]. split; [constructor|]. exact Hsn. }
  destruct (N.eq_dec c 123) as [->|H123].
  { (* dict entry begin *)
    apply step123_inv in Hstep. destruct Hstep as (-> & ->). specialize (Hl97 eq_refl).
    exists (mkF 123 [] 0 :: mkF k el p :: outer). split.
    2:{ cbn [pr fk fel fp rev flat_map repeat app]. change (open_of 123) with [123]. rewrite !app_nil_r. reflexivity. }
    unfold Inv. cbn [struct_depth array_depth dict_depth last_c stack brackets fk fel fp hd map].
    split; [cbn [app]; f_equal; exact Hbr|]. split; [rewrite nlen_cons; lia|]. split; [f_equal; exact Hstk|].
    split; [constructor; [reflexivity|exact Hok]|].
    split; [constructor; [intros _; left; reflexivity|exact Hdfw]|].
    split; [split; [intros _; exact Hl97|exact Hadj]|].
    split. { constructor; [|exact Hnh]. cbn [fk fel]. intros Hk He. destruct (Hl123 Hk He) as [H _]. lia. }
    split; [reflexivity|]. split; [intros H; inversion H|]. split; [intros H; discriminate|].
    split; [intros H; discriminate|]. split; [intros _ _; split; reflexivity|].
    cbn [snest sdepth fk fel]. change (123 =? 40) with false. cbv iota. rewrite N.add_0_l.
    split; [exact Hsdp|]. split; [exact Hs32|]. split; [constructor|]. exact Hsn. }
  destruct (N.eq_dec c 41) as [->|H41].
  { (* struct end *)
    apply step41_inv in Hstep. destruct Hstep as (Hlc & Hlc40 & Hsd0 & Hpop & ->).
    destruct (pop_head_eq _ _ Hpop ltac:(discriminate)) as (br' & ->).
    destruct (frames_two _ _ _ _ Hbr) as (-> & [kG elG pG] & outer' & -> & Hbr').
    assert (Hp : p = 0%nat).
    { destruct p; [reflexivity|]. destruct (Hla ltac:(lia)) as [H _]. cbn [hd] in H. congruence. }
    subst p.
    assert (Hel : el <> []) by (intros ->; apply Hlc40; apply Hl40; reflexivity).
    subst stk. cbn [map fk fel pop fst snd].
    exists (mkF kG (wrap pG (TStruct (rev el)) :: elG) 0 :: outer'). split.
    2:{ rewrite pr_complete. cbn [pr fk fel fp repeat print_ty]. change (open_of 40) with [40].
        rewrite <- !app_assoc. cbn [app]. reflexivity. }
    inversion Hok as [|? ? HokF Hok']; subst. inversion Hok' as [|? ? HokG Hok'']; subst.
    inversion Hdfw as [|? ? _ Hdfw']; subst. inversion Hdfw' as [|? ? HdG Hdfw'']; subst.
    inversion Hnh as [|? ? HnG Hnh']; subst. cbn [fk fel fp] in *.
    unfold Inv. cbn [struct_depth array_depth dict_depth last_c stack brackets fk fel fp hd map].
    split; [exact Hbr'|]. split; [rewrite nlen_cons in Hsd; lia|]. split; [rewrite nlen_cons; reflexivity|].
    split. { constructor; [|exact Hok'']. cbn [fel forallb]. rewrite ty_okb_wrap by discriminate.
             rewrite (ty_okb_struct_rev el Hel HokF). exact HokG. }
    split. { constructor; [|exact Hdfw'']. unfold dfw in *. cbn [fk fel] in *. intros Hk. right.
             destruct (HdG Hk) as [->|(k0 & l & -> & Hk0)]; [exfalso; apply (HnG Hk); reflexivity|].
             exists k0, (wrap pG (TStruct (rev el)) :: l). auto. }
    split. { destruct Hadj as [_ Hadj]. destruct outer'; exact Hadj. }
    split; [exact Hnh'|]. split; [reflexivity|]. split; [intros H; inversion H|]. split; [intros H; discriminate|].
    split; [intros; discriminate|]. split; [intros; discriminate|].
    cbn [snest sdepth fk fel] in *. change (40 =? 40) with true in *. cbv iota in *.
    set (X := (if kG =? 40 then 1 else 0) + sdepth outer') in *.
    destruct Hsn as (HsF & HsG & Hso).
    split; [lia|]. split; [lia|]. split; [|exact Hso]. constructor; [|exact HsG].
    rewrite struct_nest_wrap. cbn [struct_nest].
    assert (Hb : fold_right (fun t a => N.max (struct_nest t) a) 0 (rev el) <= 32 - (1 + X)).
    { apply fold_max_bound. apply Forall_forall. intros t Hin. apply in_rev in Hin.
      rewrite Forall_forall in HsF. specialize (HsF t Hin). cbv beta in HsF. lia. }
    lia. }
  destruct (N.eq_dec c 125) as [->|H125].
  { (* dict entry end *)
    apply step125_inv in Hstep. destruct Hstep as (Hlc & Hdd0 & Hpop & Hcnt & ->).
    destruct (pop_head_eq _ _ Hpop ltac:(discriminate)) as (br' & ->).
    destruct (frames_two _ _ _ _ Hbr) as (-> & [kG elG pG] & outer' & -> & Hbr').
    assert (Hp : p = 0%nat).
    { destruct p; [reflexivity|]. destruct (Hla ltac:(lia)) as [_ H]. cbn [hd] in H. congruence. }
    subst p. subst stk. cbn [map fk fel pop fst snd] in *.
    inversion Hok as [|? ? HokF Hok']; subst. inversion Hok' as [|? ? HokG Hok'']; subst.
    inversion Hdfw as [|? ? HdF Hdfw']; subst. inversion Hdfw' as [|? ? HdG Hdfw'']; subst.
    inversion Hnh as [|? ? HnG Hnh']; subst. cbn [fk fel fp] in *.
    destruct Hadj as [HpG Hadj]. cbn [fk fp] in HpG. specialize (HpG eq_refl). destruct pG as [|m]; [lia|].
    assert (Hel : exists v k0, el = [v; TBasic k0] /\ is_basic_code k0 = true).
    { destruct el as [|v [|x [|y el']]]; unfold nlen in Hcnt; cbn [length] in Hcnt; try lia.
      destruct (HdF eq_refl) as [H|(k0 & l & H & Hk0)]; [discriminate|].
      destruct l as [|a [|b l']]; cbn [app] in H; try discriminate.
      - injection H as _ ->. exists v, k0. auto.
      - destruct l'; discriminate. }
    destruct Hel as (v & k0 & -> & Hk0).
    exists (mkF kG (wrap m (TArray (TDict k0 v)) :: elG) 0 :: outer'). split.
    2:{ rewrite pr_complete. cbn [pr fk fel fp rev flat_map print_ty app]. change (open_of 123) with [123].
        rewrite repeat_snoc. cbn [repeat]. rewrite !app_nil_r. rewrite <- !app_assoc. cbn [app]. reflexivity. }
    unfold Inv. cbn [struct_depth array_depth dict_depth last_c stack brackets fk fel fp hd map].
    split; [exact Hbr'|]. split; [rewrite nlen_cons in Hsd; lia|]. split; [rewrite nlen_cons; reflexivity|].
    split. { constructor; [|exact Hok'']. cbn [fel forallb]. rewrite ty_okb_wrap by discriminate.
             cbn [forallb] in HokF. apply andb_true_iff in HokF. destruct HokF as [Hv _].
             cbn [ty_okb]. rewrite Hk0, Hv. exact HokG. }
    split. { constructor; [|exact Hdfw'']. unfold dfw in *. cbn [fk fel] in *. intros Hk. right.
             destruct (HdG Hk) as [->|(k1 & l & -> & Hk1)]; [exfalso; apply (HnG Hk); reflexivity|].
             exists k1, (wrap m (TArray (TDict k0 v)) :: l). auto. }
    split. { destruct outer'; exact Hadj. }
    split; [exact Hnh'|]. split; [reflexivity|]. split; [intros H; inversion H|]. split; [intros H; discriminate|].
    split; [intros; discriminate|]. split; [intros; discriminate|].
    cbn [snest sdepth fk fel] in *. change (123 =? 40) with false in *. cbv iota in *.
    rewrite ?N.add_0_l in *.
    destruct Hsn as (HsF & HsG & Hso).
    split; [try reflexivity; try assumption; lia|]. split; [exact Hs32|]. split; [|exact Hso]. constructor; [|exact HsG].
    rewrite struct_nest_wrap. cbn [struct_nest]. inversion HsF; subst. assumption. }
  exfalso. eapply step_other_inv; eauto.
Qed.

Lemma inv_loop : forall rest fs st, Inv fs st rest -> sig_loop rest st = V_VALID ->
  exists ts, forallb ty_okb ts = true /\ Forall (fun t => struct_nest t <= 32) ts /\ pr fs ++ rest = flat_map print_ty ts.
Proof.
  induction rest as [|c rest IH]; intros fs st HI Hl.
  - destruct fs as [|[k el p] outer]; [contradiction|]. destruct st as [sd ad dd lc stk br].
    unfold Inv in HI. cbn [struct_depth array_depth dict_depth last_c stack brackets fk fel fp hd map] in HI.
    destruct HI as (Hbr & Hsd & Hstk & Hok & _ & _ & _ & Had & _ & _ & _ & _ & Hsdp & _ & Hsn).
    cbn [sig_loop array_depth struct_depth dict_depth] in Hl.
    destruct (0 <? ad) eqn:E1; [discriminate|]. destruct (0 <? sd) eqn:E2; [discriminate|].
    destruct (0 <? dd) eqn:E3; [discriminate|].
    assert (Hbr0 : br = []) by (destruct br; [reflexivity|rewrite nlen_cons in Hsd; lia]).
    subst br. cbn [app] in Hbr. injection Hbr as -> Hout. destruct outer; [|discriminate].
    assert (p = 0%nat) by lia. subst p.
    exists (rev el). inversion Hok; subst. split; [apply forallb_rev; assumption|].
    split. { cbn [snest sdepth fk fel] in Hsn. destruct Hsn as [Hsn _]. change (0 =? 40) with false in Hsn. cbv iota in Hsn.
             apply Forall_forall. intros t Hin. apply in_rev in Hin. rewrite Forall_forall in Hsn. specialize (Hsn t Hin).
             cbv beta in Hsn. lia. }
    cbn [pr fk fel fp repeat app]. change (open_of 0) with (@nil N). rewrite !app_nil_r. reflexivity.
  - cbn [sig_loop] in Hl. change (match rest with [] => 0 | n :: _ => n end) with (hd 0 rest) in Hl.
    destruct (sig_step st c (hd 0 rest)) as [st'|e] eqn:Hs.
    + destruct (inv_step fs st c rest st' HI Hs) as (fs' & HI' & Hpr).
      destruct (IH fs' st' HI' Hl) as (ts & Hok & Hsn & E). exists ts. split; [exact Hok|]. split; [exact Hsn|].
      rewrite <- E, Hpr, <- app_assoc. reflexivity.
    + exfalso. apply (step_errors _ _ _ _ Hs). exact Hl.
Qed.

Lemma inv_init s : Inv [mkF 0 [] 0] sig_init s.
Proof.
  unfold Inv, sig_init. cbn [struct_depth array_depth dict_depth last_c stack brackets fk fel fp hd map app].
  repeat split; try reflexivity; try (intros; discriminate); try lia.
  - constructor; [reflexivity|constructor].
  - constructor; [intros H; discriminate|constructor].
  - constructor.
  - constructor.
Qed.

(* every accepted string is the printed form of a sequence of well-formed types ... *)
Theorem validate_signature_shape : forall s, validate_signature s = true ->
  nlen s <= 255 /\ exists ts, forallb ty_okb ts = true /\ Forall (fun t => struct_nest t <= 32) ts /\ s = flat_map print_ty ts.
Proof.
  intros s H. unfold validate_signature, validate_signature_reason in H. change DBUS_MAXIMUM_SIGNATURE_LENGTH with 255 in H.
  destruct (255 <? nlen s) eqn:E; [discriminate|]. split; [lia|].
  apply Z.eqb_eq in H. destruct (inv_loop s _ _ (inv_init s) H) as (ts & Hok & Hsn & Hs). exists ts. split; [exact Hok|]. split; [exact Hsn|exact Hs].
Qed.

(* ... hence is in the grammar *)
Theorem validate_signature_sound : forall s, validate_signature s = true ->
  exists ts, parse_sig s = Some ts /\ forallb ty_okb ts = true.
Proof.
  intros s H. destruct (validate_signature_shape s H) as (_ & ts & Hok & _ & ->).
  exists ts. split; [apply parse_sig_prints; exact Hok|exact Hok].
Qed.

(* ---- model versus grammar ---------------------------------------------------------------------- *)
(* in well-formed types every dict entry sits directly under an array *)
Lemma dict_le_array : forall t, ty_okb t = true -> dict_nest t <= array_nest t.
Proof.
  assert (H : forall t, (ty_okb t = true -> dict_nest t <= array_nest t) /\
                        (forall k v, t = TDict k v -> ty_okb v = true -> dict_nest v <= array_nest v)).
  { induction t as [c| |t IH|ts IH|k v IH] using ty_ind'; (split; [|try discriminate]).
    - intros _. cbn. lia.
    - intros _. cbn. lia.
    - intros Hok. destruct IH as [IH1 IH2]. destruct (ty_okb_array t Hok) as [(k & v & -> & _ & Hv)|Ht].
      + specialize (IH2 k v eq_refl Hv). cbn [dict_nest array_nest]. lia.
      + specialize (IH1 Ht). cbn [dict_nest array_nest]. lia.
    - intros Hok. cbn [ty_okb] in Hok. apply andb_true_iff in Hok. destruct Hok as [_ Hok].
      cbn [dict_nest array_nest]. apply fold_max_mono.
      rewrite forallb_forall in Hok. rewrite Forall_forall in *. intros t Hin. apply (IH t Hin). apply Hok. exact Hin.
    - discriminate.
    - intros k0 v0 E Hv. injection E as <- <-. apply IH. exact Hv. }
  intros t. apply H.
Qed.

(* everything the grammar accepts within its limits, the model accepts *)
Theorem spec_signature_validate : forall s, spec_signature s = true -> validate_signature s = true.
Proof.
  intros s H. unfold spec_signature in H. apply andb_true_iff in H. destruct H as [Hlen H].
  destruct (parse_sig s) as [ts|] eqn:Hp; [|discriminate].
  destruct (parse_sig_sound s ts Hp) as [-> Hok].
  apply validate_signature_prints_nest; [exact Hok|lia|].
  rewrite forallb_forall in H, Hok. apply Forall_forall. intros t Hin.
  specialize (H t Hin). apply andb_true_iff in H. destruct H as [Ha Hs].
  pose proof (dict_le_array t (Hok t Hin)). lia.
Qed.

Lemma forallb_ext_in' {A} (f g : A -> bool) l : (forall x, In x l -> f x = g x) -> forallb f l = forallb g l.
Proof.
  induction l as [|x r IH]; intros H; [reflexivity|]. cbn [forallb]. rewrite (H x (or_introl eq_refl)).
  rewrite IH; [reflexivity|]. intros y Hy. apply H. right. exact Hy.
Qed.

(* everything the model accepts is in the grammar, within the length and struct limits; only the
   array nesting limit may be exceeded (the model counts consecutive array codes only) *)
Theorem validate_signature_spec : forall s, validate_signature s = true ->
  exists ts, parse_sig s = Some ts /\ spec_signature s = forallb (fun t => array_nest t <=? 32) ts.
Proof.
  intros s H. destruct (validate_signature_shape s H) as (Hlen & ts & Hok & Hsn & ->).
  exists ts. pose proof (parse_sig_prints ts Hok) as Hp. split; [exact Hp|].
  unfold spec_signature. rewrite Hp. replace (nlen (flat_map print_ty ts) <=? 255) with true by lia.
  cbn [andb]. apply forallb_ext_in'. intros t Hin.
  rewrite Forall_forall in Hsn. specialize (Hsn t Hin). cbv beta in Hsn.
  replace (struct_nest t <=? 32) with true by lia. apply andb_true_r.
Qed.

(* C16_signature restricted to inputs respecting the grammar's array nesting limit:
   model = grammar *)
Theorem signature_model_eq_spec : forall s,
  (forall ts, parse_sig s = Some ts -> Forall (fun t => array_nest t <= 32) ts) ->
  validate_signature s = spec_signature s.
Proof.
  intros s Hlim. destruct (validate_signature s) eqn:V.
  - destruct (validate_signature_spec s V) as (ts & Hp & ->). symmetry.
    apply forallb_forall. intros t Hin. specialize (Hlim ts Hp). rewrite Forall_forall in Hlim.
    specialize (Hlim t Hin). cbv beta in Hlim. lia.
  - destruct (spec_signature s) eqn:S; [|reflexivity]. apply spec_signature_validate in S. congruence.
Qed.

(* equivalently, without any premise: the two can differ only by the model accepting *)
Corollary signature_model_ge_spec : forall s, spec_signature s = true -> validate_signature s = true.
Proof. exact spec_signature_validate. Qed.

Print Assumptions validate_signature_prints.
Print Assumptions validate_signature_sound.
Print Assumptions signature_model_eq_spec.
