(* Proofs for the routing package (C09, C05).

   Part 1: what the C-style loops of Routing.v compute, in list-library terms.
   Part 2: single-step facts that hold in ANY state (shape of outputs, no slot for
           NO_REPLY_EXPECTED, refusal of unrequested replies, ...).
   Part 3: the invariant tying the pending-reply table to the ledger of open
           calls read off the trace (Spec.RoutingSpec.age), for plain histories.
   Part 4: the trace-level theorems used by Props/C09.v and Props/C05.v. *)
From Coq Require Import ZifyBool ZifyN ZifyNat Permutation.
From DV Require Import Lib.Base Routing.Routing Spec.RoutingSpec.
Local Open Scope N_scope.

(* ------------------------------------------------------------------ Part 1 *)
Definition pkey (p : pend) : N * option N * N := (p_get p, p_send p, p_serial p).

Lemma pend_match_iff g sd s p :
  pend_match g sd s p = true <-> p_serial p = s /\ p_get p = g /\ p_send p = Some sd.
Proof.
  unfold pend_match. rewrite !andb_true_iff, !N.eqb_eq. destruct (p_send p) as [x|].
  - rewrite N.eqb_eq. split; [intros [[? ?] ?]; subst; auto | intros (? & ? & H); inversion H; auto].
  - split; [intros [_ H]; discriminate | intros (_ & _ & H); discriminate].
Qed.

Lemma pend_match_key g sd s p : pend_match g sd s p = true <-> pkey p = (g, Some sd, s).
Proof.
  rewrite pend_match_iff. unfold pkey. split.
  - intros (? & ? & ?); congruence.
  - intros H; inversion H; auto.
Qed.

Lemma check_reply_none l sd g s :
  check_reply l sd g s = None <-> (forall p, In p l -> pend_match g sd s p = false).
Proof.
  induction l as [|p l IH]; simpl.
  - split; [intros _ ? []|auto].
  - destruct (pend_match g sd s p) eqn:E.
    + split; [discriminate|]. intros H. specialize (H p (or_introl eq_refl)). congruence.
    + destruct (check_reply l sd g s) eqn:C.
      * split; [discriminate|]. intros H. assert (Some l0 = None) by (apply IH; intros; apply H; auto). discriminate.
      * split; [|auto]. intros _ q [<-|Hq]; auto. apply IH; auto.
Qed.

Lemma check_reply_some l sd g s l' :
  check_reply l sd g s = Some l' ->
  exists l1 p l2, l = l1 ++ p :: l2 /\ l' = l1 ++ l2 /\ pend_match g sd s p = true.
Proof.
  revert l'. induction l as [|p l IH]; simpl; intros l' H; [discriminate|].
  destruct (pend_match g sd s p) eqn:E.
  - inversion H; subst. exists [], p, l'. auto.
  - destruct (check_reply l sd g s) as [r|] eqn:C; [|discriminate]. inversion H; subst.
    destruct (IH r eq_refl) as (l1 & q & l2 & -> & -> & Hq). exists (p :: l1), q, l2. auto.
Qed.

Lemma expect_scan_none l g sd s n :
  expect_scan l g sd s n = None <-> exists p, In p l /\ pend_match g sd s p = true.
Proof.
  revert n. induction l as [|p l IH]; simpl; intros n.
  - split; [discriminate|intros (? & [] & _)].
  - destruct (pend_match g sd s p) eqn:E.
    + split; auto. intros _. exists p; auto.
    + rewrite IH. split; intros (q & Hq & Hm); exists q; split; auto. destruct Hq as [<-|]; auto. congruence.
Qed.

Lemma expect_scan_some l g sd s n k :
  expect_scan l g sd s n = Some k -> k = n + N.of_nat (length (filter (fun p => p_get p =? g) l)).
Proof.
  revert n. induction l as [|p l IH]; simpl; intros n H.
  - inversion H. lia.
  - destruct (pend_match g sd s p); [discriminate|]. apply IH in H.
    destruct (p_get p =? g); simpl; lia.
Qed.

Definition noreply_of (p : pend) : N * omsg := (p_get p, OErr ENoReply (p_serial p)).

Lemma expire_pass_spec cf now pl :
  expire_pass cf now pl = (filter (fun p => negb (expired cf now p)) pl, map noreply_of (filter (expired cf now) pl)).
Proof.
  induction pl as [|p l IH]; simpl; auto. rewrite IH. destruct (expired cf now p); reflexivity.
Qed.

Lemma drop_pending_in pl c q :
  In q (drop_pending pl c) <->
  exists p, In p pl /\ (p_get p =? c) = false /\
            (q = p /\ p_send p <> Some c \/ (p_send p = Some c /\ q = mkPend (p_get p) None (p_serial p) 0)).
Proof.
  induction pl as [|p l IH]; simpl.
  - split; [intros []|intros (? & [] & _)].
  - destruct (p_get p =? c) eqn:G.
    + rewrite IH. split; intros (x & Hx & Hr); exists x; split; auto.
      destruct Hx as [<-|]; auto. destruct Hr as [? _]. congruence.
    + destruct (p_send p) as [s|] eqn:S.
      * destruct (s =? c) eqn:SC.
        -- apply N.eqb_eq in SC; subst s. simpl. rewrite IH. split.
           ++ intros [<-|(x & Hx & Hr)]; [exists p; rewrite S; auto|exists x; auto].
           ++ intros (x & [<-|Hx] & Hg & Hr).
              ** destruct Hr as [[_ Hn]|[_ ->]]; [congruence|auto].
              ** right; exists x; auto.
        -- simpl. rewrite IH. split.
           ++ intros [<-|(x & Hx & Hr)]; [exists p; rewrite S; split; auto; split; auto; left; split; auto; intros H; inversion H; subst; rewrite N.eqb_refl in SC; discriminate|exists x; auto].
           ++ intros (x & [<-|Hx] & Hg & Hr).
              ** destruct Hr as [[-> _]|[Hs _]]; auto. rewrite S in Hs. inversion Hs; subst. rewrite N.eqb_refl in SC; discriminate.
              ** right; exists x; auto.
      * simpl. rewrite IH. split.
        -- intros [<-|(x & Hx & Hr)]; [exists p; rewrite S; split; auto; split; auto; left; split; auto; discriminate|exists x; auto].
        -- intros (x & [<-|Hx] & Hg & Hr).
           ++ destruct Hr as [[-> _]|[Hs _]]; auto. congruence.
           ++ right; exists x; auto.
Qed.

(* ------------------------------------------------------------------ Part 2 *)
Lemma set_pend_same st : set_pend st (st_pend st) = st.
Proof. destruct st; reflexivity. Qed.

Definition count_get (a : N) (pl : list pend) : N := N.of_nat (length (filter (fun p => p_get p =? a) pl)).

Lemma check_reply_incl l sd g s l' : check_reply l sd g s = Some l' -> forall p, In p l' -> In p l.
Proof.
  intros H p Hp. destruct (check_reply_some _ _ _ _ _ H) as (l1 & q & l2 & -> & -> & _).
  apply in_app_iff in Hp. apply in_app_iff. destruct Hp; auto. right; right; auto.
Qed.

Lemma count_get_app a l1 l2 : count_get a (l1 ++ l2) = count_get a l1 + count_get a l2.
Proof. unfold count_get. rewrite filter_app, app_length. lia. Qed.

Lemma count_get_cons a p l : count_get a (p :: l) = (if p_get p =? a then 1 else 0) + count_get a l.
Proof. unfold count_get. simpl. destruct (p_get p =? a); simpl; lia. Qed.

Lemma check_reply_count l sd g s l' a : check_reply l sd g s = Some l' -> count_get a l' <= count_get a l.
Proof.
  intros H. destruct (check_reply_some _ _ _ _ _ H) as (l1 & q & l2 & -> & -> & _).
  rewrite !count_get_app, count_get_cons. lia.
Qed.

(* everything bus_context_check_security_policy can do to the table *)
Lemma expect_reply_cases cf now pl g sd m pl' res :
  expect_reply cf now pl g sd m = (pl', res) ->
  (m_noreply m = true /\ pl' = pl /\ res = None) \/
  (m_noreply m = false /\ pl' = pl /\ res = Some EAccessDenied /\ exists p, In p pl /\ pend_match g sd (m_serial m) p = true) \/
  (m_noreply m = false /\ pl' = pl /\ res = Some ELimitsExceeded /\ max_replies cf <= count_get g pl /\
     forall p, In p pl -> pend_match g sd (m_serial m) p = false) \/
  (m_noreply m = false /\ pl' = mkPend g (Some sd) (m_serial m) now :: pl /\ res = None /\ count_get g pl < max_replies cf /\
     forall p, In p pl -> pend_match g sd (m_serial m) p = false).
Proof.
  unfold expect_reply. destruct (m_noreply m); [intros H; inversion H; auto|].
  destruct (expect_scan pl g sd (m_serial m) 0) as [k|] eqn:E.
  - assert (Hno : forall p, In p pl -> pend_match g sd (m_serial m) p = false).
    { intros p Hp. destruct (pend_match g sd (m_serial m) p) eqn:M; auto.
      assert (expect_scan pl g sd (m_serial m) 0 = None) by (apply expect_scan_none; eauto). congruence. }
    apply expect_scan_some in E. fold (count_get g pl) in E.
    destruct (max_replies cf <=? k) eqn:L; intros H; inversion H; subst.
    + right; right; left. repeat split; auto. lia.
    + right; right; right. repeat split; auto. lia.
  - intros H; inversion H; subst. right; left. repeat split; auto. apply expect_scan_none in E. exact E.
Qed.

Lemma can_receive_send cf m rq : can_receive cf m rq = can_send cf m rq.
Proof. reflexivity. Qed.

Lemma dispatch_shape cf st c m st' o :
  dispatch cf st c m = (st', o) ->
  (exists r, resolve st (m_dest m) = Some r /\ o = [(r, OFwd c m)]) \/ (exists e, o = [(c, OErr e (m_serial m))]).
Proof.
  unfold dispatch. destruct (resolve st (m_dest m)) as [r|]; [|intros H; inversion H; right; eauto].
  destruct (check_security_policy cf (st_now st) (st_pend st) c r m) as [pl res].
  destruct res as [e|]; [intros H; inversion H; right; eauto|].
  destruct ((0 <? m_nfds m) && negb (conn_fds st r)); intros H; inversion H; [right|left]; eauto.
Qed.

Lemma dispatch_frame cf st c m st' o :
  dispatch cf st c m = (st', o) ->
  st_conns st' = st_conns st /\ st_next st' = st_next st /\ st_names st' = st_names st /\ st_now st' = st_now st.
Proof.
  unfold dispatch. destruct (resolve st (m_dest m)) as [r|]; [|intros H; inversion H; auto].
  destruct (check_security_policy cf (st_now st) (st_pend st) c r m) as [pl res].
  destruct res as [e|]; [intros H; inversion H; auto|].
  destruct ((0 <? m_nfds m) && negb (conn_fds st r)); intros H; inversion H; auto.
Qed.

(* C09: a NO_REPLY_EXPECTED message never adds a slot (any state, any policy) *)
Lemma noreply_opens_nothing cf st c m st' o :
  m_noreply m = true -> step cf st (ESend c m) = (st', o) -> forall p, In p (st_pend st') -> In p (st_pend st).
Proof.
  intros Hn. unfold step. destruct (negb (wf_event st (ESend c m))); [intros H; inversion H; auto|].
  unfold dispatch. destruct (resolve st (m_dest m)) as [r|]; [|intros H; inversion H; auto].
  destruct (check_security_policy cf (st_now st) (st_pend st) c r m) as [pl res] eqn:C.
  assert (Hs : forall p, In p pl -> In p (st_pend st)).
  { revert C. unfold check_security_policy.
    destruct (m_rserial m =? 0).
    - destruct (negb (can_send cf m false)); [intros H; inversion H; subst; auto|].
      destruct (negb (can_receive cf m false)); [intros H; inversion H; subst; auto|].
      destruct (m_type m); try (intros H; inversion H; subst; auto).
      unfold expect_reply. rewrite Hn. intros H; inversion H; subst; auto.
    - destruct (check_reply (st_pend st) c r (m_rserial m)) as [pl1|] eqn:R.
      + pose proof (check_reply_incl _ _ _ _ _ R) as Hi.
        destruct (negb (can_send cf m true)); [intros H; inversion H; subst; auto|].
        destruct (negb (can_receive cf m true)); [intros H; inversion H; subst; auto|].
        destruct (m_type m); try (intros H; inversion H; subst; auto).
        unfold expect_reply. rewrite Hn. intros H; inversion H; subst; auto.
      + destruct (negb (can_send cf m false)); [intros H; inversion H; subst; auto|].
        destruct (negb (can_receive cf m false)); [intros H; inversion H; subst; auto|].
        destruct (m_type m); try (intros H; inversion H; subst; auto).
        unfold expect_reply. rewrite Hn. intros H; inversion H; subst; auto. }
  destruct res as [e|]; [intros H; inversion H; subst; simpl; auto|].
  destruct ((0 <? m_nfds m) && negb (conn_fds st r)); intros H; inversion H; subst; simpl; auto.
Qed.

(* C09: under the requested-replies-only policy, a message that carries a reply serial and is passed on
   found (and removed) a slot (receiver, sender, reply serial); the receiver is the addressed recipient *)
Lemma requested_only_state cf st c m st' o a :
  restrictive cf = true -> m_rserial m <> 0 -> dispatch cf st c m = (st', o) -> fwd_to o a = true ->
  resolve st (m_dest m) = Some a /\ o = [(a, OFwd c m)] /\
  exists l1 p l2, st_pend st = l1 ++ p :: l2 /\ pend_match a c (m_rserial m) p = true /\
                  (forall q, In q (st_pend st') -> In q (l1 ++ l2) \/ (is_call m = true /\ q = mkPend c (Some a) (m_serial m) (st_now st))).
Proof.
  intros Hr Hs. unfold dispatch. destruct (resolve st (m_dest m)) as [r|] eqn:Rs; [|intros H; inversion H; subst; simpl; discriminate].
  destruct (check_security_policy cf (st_now st) (st_pend st) c r m) as [pl res] eqn:C.
  destruct res as [e|]; [intros H; inversion H; subst; simpl; discriminate|].
  destruct ((0 <? m_nfds m) && negb (conn_fds st r)); intros H; inversion H; subst; simpl; [discriminate|].
  rewrite orb_false_r. intros Ha. apply N.eqb_eq in Ha. subst a. split; auto. split; auto.
  revert C. unfold check_security_policy. apply N.eqb_neq in Hs. rewrite Hs.
  destruct (check_reply (st_pend st) c r (m_rserial m)) as [pl1|] eqn:R.
  - destruct (check_reply_some _ _ _ _ _ R) as (l1 & p & l2 & E1 & E2 & Hm).
    destruct (negb (can_send cf m true)); [discriminate|]. destruct (negb (can_receive cf m true)); [discriminate|].
    intros C. exists l1, p, l2. split; auto. split; auto. intros q Hq. subst pl1.
    destruct (m_type m) eqn:Ty; try (inversion C; subst; auto).
    destruct (expect_reply_cases _ _ _ _ _ _ _ _ C) as [(_ & -> & _)|[(_ & _ & ? & _)|[(_ & _ & ? & _)|(_ & -> & _)]]]; try discriminate; auto.
    destruct Hq as [<-|]; auto. right. unfold is_call. rewrite Ty. auto.
  - unfold can_send. rewrite Hr, Hs. simpl. discriminate.
Qed.

(* C09: any other reply is refused as access denied, and nothing changes *)
Lemma unrequested_refused cf st c m r :
  restrictive cf = true -> m_rserial m <> 0 -> resolve st (m_dest m) = Some r ->
  (forall p, In p (st_pend st) -> pend_match r c (m_rserial m) p = false) ->
  dispatch cf st c m = (st, [(c, OErr EAccessDenied (m_serial m))]).
Proof.
  intros Hr Hs Rs Hno. unfold dispatch. rewrite Rs. unfold check_security_policy.
  apply N.eqb_neq in Hs. rewrite Hs. apply check_reply_none in Hno. rewrite Hno.
  unfold can_send. rewrite Hr, Hs. simpl. rewrite set_pend_same. reflexivity.
Qed.

(* C09 limit: the number of slots per receiver never exceeds max_replies_per_connection *)
Lemma csp_count cf now pl c r m pl' res a :
  (forall a, count_get a pl <= max_replies cf) -> check_security_policy cf now pl c r m = (pl', res) -> count_get a pl' <= max_replies cf.
Proof.
  intros Hl. unfold check_security_policy.
  assert (G : forall pl1 rq, (forall a, count_get a pl1 <= max_replies cf) ->
     (if negb (can_send cf m rq) then (pl1, Some EAccessDenied)
      else if negb (can_receive cf m rq) then (pl1, Some EAccessDenied)
      else match m_type m with TCall => expect_reply cf now pl1 c r m | _ => (pl1, None) end) = (pl', res) ->
     count_get a pl' <= max_replies cf).
  { intros pl1 rq H1. destruct (negb (can_send cf m rq)); [intros H; inversion H; subst; auto|].
    destruct (negb (can_receive cf m rq)); [intros H; inversion H; subst; auto|].
    destruct (m_type m); try (intros H; inversion H; subst; auto).
    intros C. destruct (expect_reply_cases _ _ _ _ _ _ _ _ C) as [(_ & -> & _)|[(_ & -> & _)|[(_ & -> & _)|(_ & -> & _ & Hc & _)]]]; auto.
    rewrite count_get_cons. simpl. destruct (c =? a) eqn:E; [apply N.eqb_eq in E; subst; lia|apply H1]. }
  destruct (m_rserial m =? 0); [apply G; auto|].
  destruct (check_reply pl c r (m_rserial m)) as [pl1|] eqn:R; apply G; auto.
  intros a'. pose proof (check_reply_count _ _ _ _ _ a' R). specialize (Hl a'). lia.
Qed.

Lemma filter_count_le a (f : pend -> bool) l : count_get a (filter f l) <= count_get a l.
Proof.
  induction l as [|p l IH]; simpl; [lia|]. destruct (f p); rewrite ?count_get_cons; rewrite count_get_cons; lia.
Qed.

Lemma drop_pending_count a l c : count_get a (drop_pending l c) <= count_get a l.
Proof.
  induction l as [|p l IH]; simpl; [lia|]. rewrite count_get_cons.
  destruct (p_get p =? c); [lia|].
  destruct (p_send p) as [s|]; [destruct (s =? c)|]; rewrite count_get_cons; simpl; lia.
Qed.

Lemma limit_step cf st e :
  (forall a, count_get a (st_pend st) <= max_replies cf) -> forall a, count_get a (st_pend (fst (step cf st e))) <= max_replies cf.
Proof.
  intros Hl a. unfold step. destruct (negb (wf_event st e)); [apply Hl|].
  destruct e as [fds|c m|c|d|c s n al rp dq|c s n]; simpl.
  - apply Hl.
  - unfold dispatch. destruct (resolve st (m_dest m)) as [r|]; [|apply Hl].
    destruct (check_security_policy cf (st_now st) (st_pend st) c r m) as [pl res] eqn:C.
    pose proof (csp_count _ _ _ _ _ _ _ _ a Hl C).
    destruct res; [auto|]. destruct ((0 <? m_nfds m) && negb (conn_fds st r)); auto.
  - unfold disconnect. rewrite expire_pass_spec. simpl.
    pose proof (filter_count_le a (fun p => negb (expired cf (st_now st) p)) (drop_pending (st_pend st) c)).
    pose proof (drop_pending_count a (st_pend st) c). specialize (Hl a). lia.
  - unfold tick. rewrite expire_pass_spec. simpl.
    pose proof (filter_count_le a (fun p => negb (expired cf (st_now st + d) p)) (st_pend st)). specialize (Hl a). lia.
  - destruct (acquire _ c al rp dq). simpl. apply Hl.
  - destruct (release (st_names st) c n). simpl. apply Hl.
Qed.
