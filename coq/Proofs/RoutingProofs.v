(* Proofs for the routing package (C09, C05).

   Part 1: what the C-style loops of Routing.v compute, in list-library terms.
   Part 2: single-step facts that hold in ANY state (shape of outputs, no slot for
           NO_REPLY_EXPECTED, refusal of unrequested replies, ...).
   Part 3: the invariant tying the pending-reply table to the ledger of open
           calls read off the trace (Spec.RoutingSpec.age), for plain histories.
   Part 4: the trace-level theorems used by Props/C09.v and Props/C05.v. *)
From Coq Require Import ZifyBool ZifyN ZifyNat Permutation.
From DV Require Import Lib.Base Routing.Routing Spec.RoutingSpec.
Local Open Scope N_scope.

(* ------------------------------------------------------------------ Part 1 *)
Definition pkey (p : pend) : N * option N * N := (p_get p, p_send p, p_serial p).

Lemma pend_match_iff g sd s p :
  pend_match g sd s p = true <-> p_serial p = s /\ p_get p = g /\ p_send p = Some sd.
Proof.
  unfold pend_match. rewrite !andb_true_iff, !N.eqb_eq. destruct (p_send p) as [x|].
  - rewrite N.eqb_eq. split; [intros [[? ?] ?]; subst; auto | intros (? & ? & H); inversion H; auto].
  - split; [intros [_ H]; discriminate | intros (_ & _ & H); discriminate].
Qed.

Lemma pend_match_key g sd s p : pend_match g sd s p = true <-> pkey p = (g, Some sd, s).
Proof.
  rewrite pend_match_iff. unfold pkey. split.
  - intros (? & ? & ?); congruence.
  - intros H; inversion H; auto.
Qed.

Lemma check_reply_none l sd g s :
  check_reply l sd g s = None <-> (forall p, In p l -> pend_match g sd s p = false).
Proof.
  induction l as [|p l IH]; simpl.
  - split; [intros _ ? []|auto].
  - destruct (pend_match g sd s p) eqn:E.
    + split; [discriminate|]. intros H. specialize (H p (or_introl eq_refl)). congruence.
    + destruct (check_reply l sd g s) eqn:C.
      * split; [discriminate|]. intros H. assert (Some l0 = None) by (apply IH; intros; apply H; auto). discriminate.
      * split; [|auto]. intros _ q [<-|Hq]; auto. apply IH; auto.
Qed.

Lemma check_reply_some l sd g s l' :
  check_reply l sd g s = Some l' ->
  exists l1 p l2, l = l1 ++ p :: l2 /\ l' = l1 ++ l2 /\ pend_match g sd s p = true.
Proof.
  revert l'. induction l as [|p l IH]; simpl; intros l' H; [discriminate|].
  destruct (pend_match g sd s p) eqn:E.
  - inversion H; subst. exists [], p, l'. auto.
  - destruct (check_reply l sd g s) as [r|] eqn:C; [|discriminate]. inversion H; subst.
    destruct (IH r eq_refl) as (l1 & q & l2 & -> & -> & Hq). exists (p :: l1), q, l2. auto.
Qed.

Lemma expect_scan_none l g sd s n :
  expect_scan l g sd s n = None <-> exists p, In p l /\ pend_match g sd s p = true.
Proof.
  revert n. induction l as [|p l IH]; simpl; intros n.
  - split; [discriminate|intros (? & [] & _)].
  - destruct (pend_match g sd s p) eqn:E.
    + split; auto. intros _. exists p; auto.
    + rewrite IH. split; intros (q & Hq & Hm); exists q; split; auto. destruct Hq as [<-|]; auto. congruence.
Qed.

Lemma expect_scan_some l g sd s n k :
  expect_scan l g sd s n = Some k -> k = n + N.of_nat (length (filter (fun p => p_get p =? g) l)).
Proof.
  revert n. induction l as [|p l IH]; simpl; intros n H.
  - inversion H. lia.
  - destruct (pend_match g sd s p); [discriminate|]. apply IH in H.
    destruct (p_get p =? g); simpl; lia.
Qed.

Definition noreply_of (p : pend) : N * omsg := (p_get p, OErr ENoReply (p_serial p)).

Lemma expire_pass_spec cf now pl :
  expire_pass cf now pl = (filter (fun p => negb (expired cf now p)) pl, map noreply_of (filter (expired cf now) pl)).
Proof.
  induction pl as [|p l IH]; simpl; auto. rewrite IH. destruct (expired cf now p); reflexivity.
Qed.

Lemma drop_pending_in pl c q :
  In q (drop_pending pl c) <->
  exists p, In p pl /\ (p_get p =? c) = false /\
            (q = p /\ p_send p <> Some c \/ (p_send p = Some c /\ q = mkPend (p_get p) None (p_serial p) 0)).
Proof.
  induction pl as [|p l IH]; simpl.
  - split; [intros []|intros (? & [] & _)].
  - destruct (p_get p =? c) eqn:G.
    + rewrite IH. split; intros (x & Hx & Hr); exists x; split; auto.
      destruct Hx as [<-|]; auto. destruct Hr as [? _]. congruence.
    + destruct (p_send p) as [s|] eqn:S.
      * destruct (s =? c) eqn:SC.
        -- apply N.eqb_eq in SC; subst s. simpl. rewrite IH. split.
           ++ intros [<-|(x & Hx & Hr)]; [exists p; rewrite S; auto|exists x; auto].
           ++ intros (x & [<-|Hx] & Hg & Hr).
              ** destruct Hr as [[_ Hn]|[_ ->]]; [congruence|auto].
              ** right; exists x; auto.
        -- simpl. rewrite IH. split.
           ++ intros [<-|(x & Hx & Hr)]; [exists p; rewrite S; split; auto; split; auto; left; split; auto; intros H; inversion H; subst; rewrite N.eqb_refl in SC; discriminate|exists x; auto].
           ++ intros (x & [<-|Hx] & Hg & Hr).
              ** destruct Hr as [[-> _]|[Hs _]]; auto. rewrite S in Hs. inversion Hs; subst. rewrite N.eqb_refl in SC; discriminate.
              ** right; exists x; auto.
      * simpl. rewrite IH. split.
        -- intros [<-|(x & Hx & Hr)]; [exists p; rewrite S; split; auto; split; auto; left; split; auto; discriminate|exists x; auto].
        -- intros (x & [<-|Hx] & Hg & Hr).
           ++ destruct Hr as [[-> _]|[Hs _]]; auto. congruence.
           ++ right; exists x; auto.
Qed.

(* ------------------------------------------------------------------ Part 2 *)
Lemma set_pend_same st : set_pend st (st_pend st) = st.
Proof. destruct st; reflexivity. Qed.

Definition count_get (a : N) (pl : list pend) : N := N.of_nat (length (filter (fun p => p_get p =? a) pl)).

Lemma check_reply_incl l sd g s l' : check_reply l sd g s = Some l' -> forall p, In p l' -> In p l.
Proof.
  intros H p Hp. destruct (check_reply_some _ _ _ _ _ H) as (l1 & q & l2 & -> & -> & _).
  apply in_app_iff in Hp. apply in_app_iff. destruct Hp; auto. right; right; auto.
Qed.

Lemma count_get_app a l1 l2 : count_get a (l1 ++ l2) = count_get a l1 + count_get a l2.
Proof. unfold count_get. rewrite filter_app, app_length. lia. Qed.

Lemma count_get_cons a p l : count_get a (p :: l) = (if p_get p =? a then 1 else 0) + count_get a l.
Proof. unfold count_get. cbn [filter]. destruct (p_get p =? a); cbn [length]; lia. Qed.

Lemma check_reply_count l sd g s l' a : check_reply l sd g s = Some l' -> count_get a l' <= count_get a l.
Proof.
  intros H. destruct (check_reply_some _ _ _ _ _ H) as (l1 & q & l2 & -> & -> & _).
  rewrite !count_get_app, count_get_cons. lia.
Qed.

(* everything bus_context_check_security_policy can do to the table *)
Lemma expect_reply_cases cf now pl g sd m pl' res :
  expect_reply cf now pl g sd m = (pl', res) ->
  (m_noreply m = true /\ pl' = pl /\ res = None) \/
  (m_noreply m = false /\ pl' = pl /\ res = Some EAccessDenied /\ exists p, In p pl /\ pend_match g sd (m_serial m) p = true) \/
  (m_noreply m = false /\ pl' = pl /\ res = Some ELimitsExceeded /\ max_replies cf <= count_get g pl /\
     forall p, In p pl -> pend_match g sd (m_serial m) p = false) \/
  (m_noreply m = false /\ pl' = mkPend g (Some sd) (m_serial m) now :: pl /\ res = None /\ count_get g pl < max_replies cf /\
     forall p, In p pl -> pend_match g sd (m_serial m) p = false).
Proof.
  unfold expect_reply. destruct (m_noreply m); [intros H; inversion H; auto|].
  destruct (expect_scan pl g sd (m_serial m) 0) as [k|] eqn:E.
  - assert (Hno : forall p, In p pl -> pend_match g sd (m_serial m) p = false).
    { intros p Hp. destruct (pend_match g sd (m_serial m) p) eqn:M; auto.
      assert (expect_scan pl g sd (m_serial m) 0 = None) by (apply expect_scan_none; eauto). congruence. }
    apply expect_scan_some in E. fold (count_get g pl) in E.
    destruct (max_replies cf <=? k) eqn:L; intros H; inversion H; subst.
    + right; right; left. repeat split; auto. lia.
    + right; right; right. repeat split; auto. lia.
  - intros H; inversion H; subst. right; left. repeat split; auto. apply expect_scan_none in E. exact E.
Qed.

Lemma can_receive_send cf m rq : can_receive cf m rq = can_send cf m rq.
Proof. reflexivity. Qed.

(* ---- the no-owner branch (errors, or hold for an activation) and the release of held messages ---- *)
Lemma no_owner_props cf st c m :
  let st' := fst (no_owner cf st c m) in let o := snd (no_owner cf st c m) in
  st_conns st' = st_conns st /\ st_next st' = st_next st /\ st_names st' = st_names st /\ st_now st' = st_now st /\
  st_pend st' = st_pend st /\ st_full st' = st_full st /\ st_rules st' = st_rules st /\
  (o = [] \/ exists e, o = [(c, OErr e (m_serial m))] /\ e <> ENoReply).
Proof.
  unfold no_owner. destruct (m_dest m) as [u|n]; cbn [fst snd].
  - repeat split; auto. right. destruct (m_noauto m); eexists; split; eauto; discriminate.
  - destruct (negb (m_noauto m) && activatable n).
    + destruct (can_send cf m false && negb (unknown_type m)); cbn [fst snd]; repeat split; auto. right. eexists; split; eauto; discriminate.
    + cbn [fst snd]. repeat split; auto. right. destruct (m_noauto m); eexists; split; eauto; discriminate.
Qed.

Lemma drv_copies_in cf st c s x : In x (drv_copies cf st c s) -> snd x = OCall c s.
Proof. unfold drv_copies. intros H. apply in_map_iff in H. destruct H as (e & <- & _). reflexivity. Qed.

Lemma filter_drv (f : N * omsg -> bool) cf st c s :
  (forall x, snd x = OCall c s -> f x = false) -> filter f (drv_copies cf st c s) = [].
Proof.
  intros H. destruct (filter f (drv_copies cf st c s)) as [|x l] eqn:E; auto.
  assert (Hx : In x (filter f (drv_copies cf st c s))) by (rewrite E; left; auto).
  apply filter_In in Hx. destruct Hx as [Hx Fx]. rewrite H in Fx; [discriminate|]. eapply drv_copies_in; eauto.
Qed.

Lemma count_noreply_drv cf st c s code a s' : count_noreply ([(c, ODrv s code)] ++ drv_copies cf st c s) a s' = 0%nat.
Proof.
  unfold count_noreply. rewrite filter_app, app_length. rewrite filter_drv; [|intros x Hx; unfold nr_is; rewrite Hx; apply andb_false_r].
  cbn [filter]. unfold nr_is. cbn [fst snd]. rewrite andb_false_r. reflexivity.
Qed.

Definition fwd_out (cf : cfg) (st : state) (c r : N) (m : msg) : out := (r, OFwd c m) :: eav_out cf st c r m.

Lemma eav_out_in cf st c r m x : In x (eav_out cf st c r m) -> snd x = OEav c m.
Proof. unfold eav_out. intros H. apply in_map_iff in H. destruct H as (e & <- & _). reflexivity. Qed.

Lemma existsb_eav (f : N * omsg -> bool) cf st c r m :
  (forall x, snd x = OEav c m -> f x = false) -> existsb f (eav_out cf st c r m) = false.
Proof.
  intros H. destruct (existsb f (eav_out cf st c r m)) eqn:E; auto.
  apply existsb_exists in E. destruct E as (x & Hx & Fx). rewrite H in Fx; [discriminate|]. eapply eav_out_in; eauto.
Qed.

Lemma filter_eav (f : N * omsg -> bool) cf st c r m :
  (forall x, snd x = OEav c m -> f x = false) -> filter f (eav_out cf st c r m) = [].
Proof.
  intros H. destruct (filter f (eav_out cf st c r m)) as [|x l] eqn:E; auto.
  assert (Hx : In x (filter f (eav_out cf st c r m))) by (rewrite E; left; auto).
  apply filter_In in Hx. destruct Hx as [Hx Fx]. rewrite H in Fx; [discriminate|]. eapply eav_out_in; eauto.
Qed.

Lemma fwd_to_single cf st c r m x : fwd_to (fwd_out cf st c r m) x = (r =? x).
Proof.
  unfold fwd_to, fwd_out. cbn [existsb snd fst]. rewrite existsb_eav; [apply orb_false_r|]. intros y Hy. rewrite Hy. reflexivity.
Qed.

Lemma dispatch_shape cf st c m st' o :
  dispatch cf st c m = (st', o) ->
  (exists r, resolve st (m_dest m) = Some r /\ o = fwd_out cf st c r m) \/ (exists e, o = [(c, OErr e (m_serial m))]) \/
  (o = [] /\ resolve st (m_dest m) = None).
Proof.
  unfold dispatch, deliver. destruct (resolve st (m_dest m)) as [r|];
    [|pose proof (no_owner_props cf st c m) as NP; destruct (no_owner cf st c m) as [stn on]; cbn [fst snd] in NP; destruct NP as (N1 & N2 & N3 & N4 & N5 & N6 & N7 & N8); intros H; inversion H; subst; destruct N8 as [->|(e & -> & _)]; right; [right; auto|left; eauto]].
  destruct ((0 <? m_nfds m) && negb (conn_fds st r)); [intros H; inversion H; right; left; eauto|].
  destruct (check_security_policy cf (st_now st) (st_pend st) c r m (is_full st r)) as [pl res].
  destruct res as [e|]; intros H; inversion H; [right; left|left]; eauto.
Qed.

Lemma dispatch_frame cf st c m st' o :
  dispatch cf st c m = (st', o) ->
  st_conns st' = st_conns st /\ st_next st' = st_next st /\ st_names st' = st_names st /\ st_now st' = st_now st.
Proof.
  unfold dispatch, deliver. destruct (resolve st (m_dest m)) as [r|]; [|pose proof (no_owner_props cf st c m) as NP; destruct (no_owner cf st c m) as [stn on]; cbn [fst snd] in NP; destruct NP as (N1 & N2 & N3 & N4 & N5 & N6 & N7 & N8); intros H; inversion H; subst; auto].
  destruct ((0 <? m_nfds m) && negb (conn_fds st r)); [intros H; inversion H; auto|].
  destruct (check_security_policy cf (st_now st) (st_pend st) c r m (is_full st r)) as [pl res].
  destruct res as [e|]; intros H; inversion H; auto.
Qed.

(* C09: a NO_REPLY_EXPECTED message never adds a slot (any state, any policy) *)
Lemma noreply_opens_nothing cf st c m st' o :
  m_noreply m = true -> step cf st (ESend c m) = (st', o) -> forall p, In p (st_pend st') -> In p (st_pend st).
Proof.
  intros Hn. unfold step. destruct (negb (wf_event st (ESend c m))); [intros H; inversion H; auto|].
  unfold dispatch, deliver. destruct (resolve st (m_dest m)) as [r|]; [|pose proof (no_owner_props cf st c m) as NP; destruct (no_owner cf st c m) as [stn on]; cbn [fst snd] in NP; destruct NP as (N1 & N2 & N3 & N4 & N5 & N6 & N7 & N8); intros H; inversion H; subst; rewrite N5; auto].
  destruct ((0 <? m_nfds m) && negb (conn_fds st r)); [intros H; inversion H; auto|].
  destruct (check_security_policy cf (st_now st) (st_pend st) c r m (is_full st r)) as [pl res] eqn:C.
  assert (Hs : forall p, In p pl -> In p (st_pend st)).
  { revert C. unfold check_security_policy. destruct (unknown_type m); [intros H; inversion H; subst; auto|].
    destruct (m_rserial m =? 0).
    - destruct (negb (can_send cf m false)); [intros H; inversion H; subst; auto|].
      destruct (negb (can_receive cf m false)); [intros H; inversion H; subst; auto|]. destruct (is_full st r); [intros H; inversion H; subst; auto|].
      destruct (m_type m); try solve [intros H; inversion H; subst; auto].
      unfold expect_reply. rewrite Hn. intros H; inversion H; subst; auto.
    - destruct (check_reply (st_pend st) c r (m_rserial m)) as [pl1|] eqn:R.
      + pose proof (check_reply_incl _ _ _ _ _ R) as Hi.
        destruct (negb (can_send cf m true)); [intros H; inversion H; subst; auto|].
        destruct (negb (can_receive cf m true)); [intros H; inversion H; subst; auto|]. destruct (is_full st r); [intros H; inversion H; subst; auto|].
        destruct (m_type m); try solve [intros H; inversion H; subst; auto].
        unfold expect_reply. rewrite Hn. intros H; inversion H; subst; auto.
      + destruct (negb (can_send cf m false)); [intros H; inversion H; subst; auto|].
        destruct (negb (can_receive cf m false)); [intros H; inversion H; subst; auto|]. destruct (is_full st r); [intros H; inversion H; subst; auto|].
        destruct (m_type m); try solve [intros H; inversion H; subst; auto].
        unfold expect_reply. rewrite Hn. intros H; inversion H; subst; auto. }
  destruct res as [e|]; intros H; inversion H; subst; simpl; auto.
Qed.

(* C09: under the requested-replies-only policy, a message that carries a reply serial and is passed on
   found (and removed) a slot (receiver, sender, reply serial); the receiver is the addressed recipient *)
Lemma requested_only_state cf st c m st' o a :
  restrictive cf = true -> m_rserial m <> 0 -> dispatch cf st c m = (st', o) -> fwd_to o a = true ->
  resolve st (m_dest m) = Some a /\ o = fwd_out cf st c a m /\
  exists l1 p l2, st_pend st = l1 ++ p :: l2 /\ pend_match a c (m_rserial m) p = true /\
                  (forall q, In q (st_pend st') -> In q (l1 ++ l2) \/ (is_call m = true /\ q = mkPend c (Some a) (m_serial m) (st_now st))).
Proof.
  intros Hr Hs. unfold dispatch, deliver. destruct (resolve st (m_dest m)) as [r|] eqn:Rs; [|pose proof (no_owner_props cf st c m) as NP; destruct (no_owner cf st c m) as [stn on]; cbn [fst snd] in NP; destruct NP as (N1 & N2 & N3 & N4 & N5 & N6 & N7 & N8); intros H; inversion H; subst; destruct N8 as [->|(e & -> & _)]; simpl; discriminate].
  destruct ((0 <? m_nfds m) && negb (conn_fds st r)); [intros H; inversion H; subst; simpl; discriminate|].
  destruct (check_security_policy cf (st_now st) (st_pend st) c r m (is_full st r)) as [pl res] eqn:C.
  destruct res as [e|]; intros H; inversion H; subst; [simpl; discriminate|].
  fold (fwd_out cf st c r m). rewrite fwd_to_single. intros Ha. apply N.eqb_eq in Ha. subst a. split; auto. split; auto.
  revert C. unfold check_security_policy. destruct (unknown_type m); [intros X; discriminate|]. apply N.eqb_neq in Hs. rewrite Hs.
  destruct (check_reply (st_pend st) c r (m_rserial m)) as [pl1|] eqn:R.
  - destruct (check_reply_some _ _ _ _ _ R) as (l1 & p & l2 & E1 & E2 & Hm).
    destruct (negb (can_send cf m true)); [discriminate|]. destruct (negb (can_receive cf m true)); [discriminate|]. destruct (is_full st r); [discriminate|].
    intros C. exists l1, p, l2. split; auto. split; auto. intros q Hq. subst pl1.
    destruct (m_type m) eqn:Ty; try (inversion C; subst; auto).
    destruct (expect_reply_cases _ _ _ _ _ _ _ _ C) as [(_ & -> & _)|[(_ & _ & ? & _)|[(_ & _ & ? & _)|(_ & -> & _)]]]; try discriminate; auto.
    destruct Hq as [<-|]; auto. right. unfold is_call. rewrite Ty. auto.
  - unfold can_send. rewrite Hr, Hs. simpl. discriminate.
Qed.

(* C09: any other reply is refused as access denied, and nothing changes *)
Lemma unrequested_refused cf st c m r :
  restrictive cf = true -> m_rserial m <> 0 -> resolve st (m_dest m) = Some r ->
  (0 <? m_nfds m) && negb (conn_fds st r) = false ->
  (forall p, In p (st_pend st) -> pend_match r c (m_rserial m) p = false) ->
  dispatch cf st c m = (st, [(c, OErr EAccessDenied (m_serial m))]).
Proof.
  intros Hr Hs Rs Hfd Hno. unfold dispatch, deliver. rewrite Rs, Hfd. unfold check_security_policy. destruct (unknown_type m); [cbn; rewrite set_pend_same; reflexivity|].
  apply N.eqb_neq in Hs. rewrite Hs. apply check_reply_none in Hno. rewrite Hno.
  unfold can_send. rewrite Hr, Hs. simpl. rewrite set_pend_same. reflexivity.
Qed.

(* C09 limit: the number of slots per receiver never exceeds max_replies_per_connection *)
Lemma csp_count cf now pl c r m fl pl' res a :
  (forall a, count_get a pl <= max_replies cf) -> check_security_policy cf now pl c r m fl = (pl', res) -> count_get a pl' <= max_replies cf.
Proof.
  intros Hl. unfold check_security_policy. destruct (unknown_type m); [intros H; inversion H; subst; auto|].
  assert (G : forall pl1 rq, (forall a, count_get a pl1 <= max_replies cf) ->
     (if negb (can_send cf m rq) then (pl1, Some EAccessDenied)
      else if negb (can_receive cf m rq) then (pl1, Some EAccessDenied)
      else if fl then (pl1, Some ELimitsExceeded)
      else match m_type m with TCall => expect_reply cf now pl1 c r m | _ => (pl1, None) end) = (pl', res) ->
     count_get a pl' <= max_replies cf).
  { intros pl1 rq H1. destruct (negb (can_send cf m rq)); [intros H; inversion H; subst; auto|].
    destruct (negb (can_receive cf m rq)); [intros H; inversion H; subst; auto|]. destruct fl; [intros H; inversion H; subst; auto|].
    destruct (m_type m); try solve [intros H; inversion H; subst; auto].
    intros C. destruct (expect_reply_cases _ _ _ _ _ _ _ _ C) as [(_ & -> & _)|[(_ & -> & _)|[(_ & -> & _)|(_ & -> & _ & Hc & _)]]]; auto.
    rewrite count_get_cons. simpl. destruct (c =? a) eqn:E; [apply N.eqb_eq in E; subst; lia|apply H1]. }
  destruct (m_rserial m =? 0); [apply G; auto|].
  destruct (check_reply pl c r (m_rserial m)) as [pl1|] eqn:R; apply G; auto.
  intros a'. pose proof (check_reply_count _ _ _ _ _ a' R). specialize (Hl a'). lia.
Qed.

(* ---- bus_dispatch_matches towards a given recipient, and the release of held messages: what they leave alone ---- *)
Definition same_frame (st st' : state) : Prop :=
  st_conns st' = st_conns st /\ st_next st' = st_next st /\ st_names st' = st_names st /\ st_now st' = st_now st /\
  st_full st' = st_full st /\ st_rules st' = st_rules st.

Lemma deliver_frame cf st c r m : same_frame st (fst (deliver cf st c r m)) /\ st_held (fst (deliver cf st c r m)) = st_held st.
Proof.
  unfold deliver, same_frame. destruct ((0 <? m_nfds m) && negb (conn_fds st r)); [cbn [fst]; tauto|].
  destruct (check_security_policy cf (st_now st) (st_pend st) c r m (is_full st r)) as [pl [e|]]; cbn [fst]; simpl; tauto.
Qed.

Lemma deliver_count cf st c r m :
  (forall a, count_get a (st_pend st) <= max_replies cf) -> forall a, count_get a (st_pend (fst (deliver cf st c r m))) <= max_replies cf.
Proof.
  intros Hl a. unfold deliver. destruct ((0 <? m_nfds m) && negb (conn_fds st r)); [apply Hl|].
  destruct (check_security_policy cf (st_now st) (st_pend st) c r m (is_full st r)) as [pl res] eqn:C.
  pose proof (csp_count _ _ _ _ _ _ _ _ _ a Hl C). destruct res; auto.
Qed.

Lemma release_held_frame cf l r : forall st, same_frame st (fst (release_held cf st l r)) /\ st_held (fst (release_held cf st l r)) = st_held st.
Proof.
  induction l as [|[c m] l IH]; intros st; simpl; [unfold same_frame; tauto|].
  pose proof (deliver_frame cf st c r m) as [F H]. destruct (deliver cf st c r m) as [st1 o1]. cbn [fst] in *.
  specialize (IH st1). destruct (release_held cf st1 l r) as [st2 o2]. cbn [fst] in *. destruct IH as [F2 H2].
  unfold same_frame in *. intuition congruence.
Qed.

Lemma release_held_count cf l r : forall st,
  (forall a, count_get a (st_pend st) <= max_replies cf) -> forall a, count_get a (st_pend (fst (release_held cf st l r))) <= max_replies cf.
Proof.
  induction l as [|[c m] l IH]; intros st Hl a; simpl; [apply Hl|].
  pose proof (deliver_count cf st c r m Hl) as H1. destruct (deliver cf st c r m) as [st1 o1]. cbn [fst] in *.
  specialize (IH st1 H1 a). destruct (release_held cf st1 l r) as [st2 o2]. exact IH.
Qed.

Lemma release_name_frame cf st n : same_frame st (fst (release_name cf st n)).
Proof.
  unfold release_name. destruct (held_for (st_held st) n) as [|x l]; [unfold same_frame; cbn [fst]; tauto|].
  destruct (lookup (st_names st) n) as [[|ow q]|]; try (unfold same_frame; cbn [fst]; tauto).
  destruct (release_held_frame cf (x :: l) (o_conn ow) (with_held st (set_held (st_held st) n []))) as [F _].
  unfold same_frame in *. simpl in F. tauto.
Qed.

Lemma release_name_count cf st n :
  (forall a, count_get a (st_pend st) <= max_replies cf) -> forall a, count_get a (st_pend (fst (release_name cf st n))) <= max_replies cf.
Proof.
  intros Hl. unfold release_name. destruct (held_for (st_held st) n) as [|x l]; [exact Hl|].
  destruct (lookup (st_names st) n) as [[|ow q]|]; try exact Hl.
  apply release_held_count. exact Hl.
Qed.

Lemma release_name_nil cf st n : st_held st = [] -> release_name cf st n = (st, []).
Proof. intros H. unfold release_name. rewrite H. reflexivity. Qed.

Lemma filter_count_le a (f : pend -> bool) l : count_get a (filter f l) <= count_get a l.
Proof.
  induction l as [|p l IH]; cbn [filter]; [lia|]. destruct (f p); rewrite !count_get_cons; lia.
Qed.

Lemma drop_pending_count a l c : count_get a (drop_pending l c) <= count_get a l.
Proof.
  induction l as [|p l IH]; cbn [drop_pending]; [lia|]. rewrite count_get_cons.
  destruct (p_get p =? c); [lia|].
  destruct (p_send p) as [s|]; [destruct (s =? c)|]; rewrite count_get_cons; cbn [p_get]; lia.
Qed.

Lemma limit_step cf st e :
  (forall a, count_get a (st_pend st) <= max_replies cf) -> forall a, count_get a (st_pend (fst (step cf st e))) <= max_replies cf.
Proof.
  intros Hl a. unfold step. destruct (negb (wf_event st e)); [apply Hl|].
  destruct e as [fds|c m|c|d|c s n al rp dq|c s n|c s rl|c|c|c s|c]; simpl.
  - apply Hl.
  - unfold dispatch, deliver. destruct (resolve st (m_dest m)) as [r|]; [|pose proof (no_owner_props cf st c m) as NP; destruct (no_owner cf st c m) as [stn on]; cbn [fst snd] in NP; destruct NP as (N1 & N2 & N3 & N4 & N5 & N6 & N7 & N8); cbn [fst]; rewrite N5; apply Hl].
    destruct ((0 <? m_nfds m) && negb (conn_fds st r)); [apply Hl|].
    destruct (check_security_policy cf (st_now st) (st_pend st) c r m (is_full st r)) as [pl res] eqn:C.
    pose proof (csp_count _ _ _ _ _ _ _ _ _ a Hl C).
    destruct res; auto.
  - unfold disconnect. rewrite expire_pass_spec. simpl.
    pose proof (filter_count_le a (fun p => negb (expired cf (st_now st) p)) (drop_pending (st_pend st) c)).
    pose proof (drop_pending_count a (st_pend st) c). specialize (Hl a). lia.
  - unfold tick. rewrite expire_pass_spec. simpl.
    pose proof (filter_count_le a (fun p => negb (expired cf (st_now st + d) p)) (st_pend st)). specialize (Hl a). lia.
  - destruct (acquire _ c al rp dq) as [q' code].
    pose proof (release_name_count cf (set_names st (set_queue (st_names st) n q')) n Hl a) as R.
    destruct (release_name cf (set_names st (set_queue (st_names st) n q')) n). exact R.
  - destruct (release (st_names st) c n). simpl. apply Hl.
  - apply Hl.
  - apply Hl.
  - apply Hl.
  - apply Hl.
  - apply Hl.
Qed.

(* ------------------------------------------------------------------ Part 3a: registry and connections *)
Definition names_ok (st : state) : Prop :=
  forall n q o, In (n, q) (st_names st) -> In o q -> connected st (o_conn o) = true.

Lemma lookup_in names n q : lookup names n = Some q -> In (n, q) names.
Proof.
  induction names as [|[k q0] rest IH]; simpl; [discriminate|].
  destruct (k =? n) eqn:E; [apply N.eqb_eq in E; subst; intros H; inversion H; auto|auto].
Qed.

Lemma set_queue_in names n q n' q' : In (n', q') (set_queue names n q) -> (n' = n /\ q' = q) \/ In (n', q') names.
Proof.
  induction names as [|[k q0] rest IH]; simpl.
  - destruct q; simpl; [intros []|intros [H|[]]; inversion H; auto].
  - destruct (k =? n) eqn:E.
    + apply N.eqb_eq in E; subst. destruct q; simpl; [auto|intros [H|H]; [inversion H; auto|auto]].
    + simpl. intros [H|H]; [auto|]. destruct (IH H); auto.
Qed.

Lemma names_drop_in names c n q' : In (n, q') (names_drop names c) -> exists q, In (n, q) names /\ q' = remove_owner q c.
Proof.
  induction names as [|[k q0] rest IH]; simpl; [intros []|].
  destruct (remove_owner q0 c) eqn:E.
  - intros H. destruct (IH H) as (q & ? & ?). exists q; auto.
  - intros [H|H].
    + inversion H; subst. exists q0; auto.
    + destruct (IH H) as (q & ? & ?). exists q; auto.
Qed.

Definition conn_in (q : list owner) (x : N) : Prop := exists o, In o q /\ o_conn o = x.

Lemma remove_owner_in q c o : In o (remove_owner q c) -> In o q /\ o_conn o <> c.
Proof.
  unfold remove_owner. rewrite filter_In. intros [H1 H2]. split; auto.
  apply negb_true_iff, N.eqb_neq in H2. auto.
Qed.

Lemma set_flags_in q c al dq o : In o (set_flags q c al dq) -> o_conn o = c \/ In o q.
Proof.
  unfold set_flags. rewrite in_map_iff. intros (x & Hx & Hin).
  destruct (o_conn x =? c); [subst; simpl; auto|subst; auto].
Qed.

Lemma insert_second_in q x o : In o (insert_second q x) -> o = x \/ In o q.
Proof. destruct q; simpl; intuition. Qed.

Lemma add_owner_in q c al rp dq o : In o (add_owner q c al rp dq) -> o_conn o = c \/ In o q.
Proof.
  unfold add_owner. destruct (in_queue q c), rp.
  - intros H. apply insert_second_in in H. destruct H as [->|H]; [simpl; auto|]. apply remove_owner_in in H. tauto.
  - apply set_flags_in.
  - intros H. apply insert_second_in in H. destruct H as [->|H]; simpl; auto.
  - rewrite in_app_iff. intros [H|[<-|[]]]; simpl; auto.
Qed.

Lemma swap_owner_in q o : In o (swap_owner q) -> In o q.
Proof. destruct q as [|p [|s rest]]; simpl; intuition. Qed.

Lemma acquire_in q c al rp dq o : In o (fst (acquire q c al rp dq)) -> o_conn o = c \/ In o q.
Proof.
  unfold acquire. destruct q as [|p rest]; [simpl; intros [<-|[]]; auto|].
  destruct (o_conn p =? c); [cbn [fst]; apply set_flags_in|].
  destruct (dq && (negb (o_allow p) || negb rp)); [cbn [fst]; intros H; apply remove_owner_in in H; tauto|].
  destruct (negb dq && (negb rp || negb (o_allow p))); [cbn [fst]; apply add_owner_in|].
  cbn [fst]. destruct (o_dnq p); intros H.
  - apply remove_owner_in in H. destruct H as [H _]. apply add_owner_in in H. auto.
  - apply swap_owner_in in H. apply add_owner_in in H. auto.
Qed.

Lemma find_conn_app cs x c : find_conn (cs ++ [x]) c = match find_conn cs c with Some y => Some y | None => if c_id x =? c then Some x else None end.
Proof. unfold find_conn. induction cs as [|y cs IH]; simpl; [reflexivity|]. destruct (c_id y =? c); auto. Qed.

Lemma find_conn_filter cs c x :
  find_conn (filter (fun y => negb (c_id y =? c)) cs) x = if x =? c then None else find_conn cs x.
Proof.
  unfold find_conn. induction cs as [|y cs IH]; simpl; [destruct (x =? c); reflexivity|].
  destruct (c_id y =? c) eqn:E; simpl.
  - rewrite IH. destruct (x =? c) eqn:X; auto. apply N.eqb_eq in E. apply N.eqb_neq in X.
    destruct (c_id y =? x) eqn:Y; auto. apply N.eqb_eq in Y. congruence.
  - destruct (c_id y =? x) eqn:Y; auto. apply N.eqb_eq in Y. apply N.eqb_neq in E.
    destruct (x =? c) eqn:X; auto. apply N.eqb_eq in X. congruence.
Qed.

Lemma resolve_connected st d r : names_ok st -> resolve st d = Some r -> connected st r = true.
Proof.
  intros Hn. destruct d as [c|n]; simpl.
  - destruct (connected st c) eqn:E; intros H; inversion H; subst; auto.
  - destruct (lookup (st_names st) n) as [[|o q]|] eqn:L; try discriminate.
    intros H; inversion H; subst. apply lookup_in in L. apply (Hn n (o :: q) o L). left; auto.
Qed.

(* how each step moves the set of connected ids *)
Definition conn_rel (st st' : state) (e : event) : Prop :=
  match e with
  | EDisconnect c => if connected st c then forall x, connected st' x = (if x =? c then false else connected st x)
                     else forall x, connected st' x = connected st x
  | EConnect _ => forall x, connected st x = true -> connected st' x = true
  | _ => forall x, connected st' x = connected st x
  end.

Lemma step_conn cf st e : conn_rel st (fst (step cf st e)) e.
Proof.
  unfold step. destruct (negb (wf_event st e)) eqn:W.
  - simpl. destruct e; simpl; auto. simpl in W. apply negb_true_iff in W. rewrite W. auto.
  - apply negb_false_iff in W. destruct e as [fds|c m|c|d|c s n al rp dq|c s n|c s rl|c|c|c s|c]; simpl.
    + intros x. unfold connected. simpl. rewrite find_conn_app. destruct (find_conn (st_conns st) x); auto. discriminate.
    + intros x. destruct (dispatch cf st c m) as [st' o] eqn:D. apply dispatch_frame in D. unfold connected. simpl. destruct D as (-> & _). auto.
    + simpl in W. rewrite W. intros x. unfold disconnect. destruct (expire_pass cf (st_now st) (drop_pending (st_pend st) c)).
      unfold connected. simpl. rewrite find_conn_filter. destruct (x =? c); auto.
    + intros x. unfold tick. destruct (expire_pass cf (st_now st + d) (st_pend st)). reflexivity.
    + intros x. destruct (acquire _ c al rp dq) as [q' code].
      pose proof (release_name_frame cf (set_names st (set_queue (st_names st) n q')) n) as (F & _).
      destruct (release_name cf (set_names st (set_queue (st_names st) n q')) n) as [st2 o2]. cbn [fst] in *. unfold connected. rewrite F. reflexivity.
    + intros x. destruct (release (st_names st) c n). reflexivity.
    + intros x. reflexivity.
    + intros x. reflexivity.
    + intros x. reflexivity.
    + intros x. reflexivity.
    + intros x. reflexivity.
Qed.

Lemma names_ok_step cf st e : names_ok st -> names_ok (fst (step cf st e)).
Proof.
  intros Hn. pose proof (step_conn cf st e) as Hc. revert Hc. unfold step.
  destruct (negb (wf_event st e)) eqn:W; [auto|]. apply negb_false_iff in W.
  destruct e as [fds|c m|c|d|c s n al rp dq|c s n|c s rl|c|c|c s|c]; simpl; intros Hc.
  - intros n q o H1 H2. apply Hc. simpl in H1. eapply Hn; eauto.
  - destruct (dispatch cf st c m) as [st' o] eqn:D. simpl in *. pose proof (dispatch_frame _ _ _ _ _ _ D) as (_ & _ & E & _).
    intros n q o' H1 H2. rewrite Hc. rewrite E in H1. eapply Hn; eauto.
  - simpl in W. rewrite W in Hc. unfold disconnect in *. destruct (expire_pass cf (st_now st) (drop_pending (st_pend st) c)) as [pl oo]. simpl in *.
    intros n q o H1 H2. apply names_drop_in in H1. destruct H1 as (q0 & H1 & ->). apply remove_owner_in in H2. destruct H2 as [H2 H3].
    rewrite Hc. apply N.eqb_neq in H3. rewrite H3. eapply Hn; eauto.
  - unfold tick in *. destruct (expire_pass cf (st_now st + d) (st_pend st)) as [pl oo]. simpl in *.
    intros n q o H1 H2. rewrite Hc. eapply Hn; eauto.
  - simpl in W. rewrite !andb_true_iff in W. destruct W as [[W _] _].
    destruct (acquire (match lookup (st_names st) n with Some q => q | None => [] end) c al rp dq) as [q' code] eqn:A.
    pose proof (release_name_frame cf (set_names st (set_queue (st_names st) n q')) n) as (_ & _ & Fn & _).
    destruct (release_name cf (set_names st (set_queue (st_names st) n q')) n) as [st2 o2]. simpl in *.
    intros n' q o H1 H2. rewrite Hc. rewrite Fn in H1. apply set_queue_in in H1. destruct H1 as [[-> ->]|H1]; [|eapply Hn; eauto].
    assert (H3 : In o (fst (acquire (match lookup (st_names st) n with Some q => q | None => [] end) c al rp dq))) by (rewrite A; auto).
    apply acquire_in in H3. destruct H3 as [->|H3]; auto.
    destruct (lookup (st_names st) n) eqn:L; [|destruct H3]. apply lookup_in in L. eapply Hn; eauto.
  - unfold release in *. destruct (lookup (st_names st) n) as [q|] eqn:L; simpl in *.
    + destruct (in_queue q c); simpl in *.
      * intros n' q' o H1 H2. rewrite Hc. apply set_queue_in in H1. destruct H1 as [[-> ->]|H1]; [|eapply Hn; eauto].
        apply remove_owner_in in H2. destruct H2 as [H2 _]. apply lookup_in in L. eapply Hn; eauto.
      * intros n' q' o H1 H2. rewrite Hc. eapply Hn; eauto.
    + intros n' q' o H1 H2. rewrite Hc. eapply Hn; eauto.
  - intros n' q' o H1 H2. simpl in *. try rewrite Hc. eapply Hn; eauto.  - intros n' q' o H1 H2. simpl in *. try rewrite Hc. eapply Hn; eauto.
  - intros n' q' o H1 H2. simpl in *. try rewrite Hc. eapply Hn; eauto.
  - intros n' q' o H1 H2. simpl in *. try rewrite Hc. eapply Hn; eauto.
  - intros n' q' o H1 H2. simpl in *. try rewrite Hc. eapply Hn; eauto.
Qed.

(* ------------------------------------------------------------------ Part 3b: what a plain send does to the table *)
Lemma fwd_to_err c e s x : fwd_to [(c, OErr e s)] x = false.
Proof. reflexivity. Qed.

Lemma can_send_true cf m : can_send cf m true = true.
Proof. unfold can_send. destruct (restrictive cf); auto. apply orb_true_r. Qed.

Lemma can_receive_true cf m : can_receive cf m true = true.
Proof. unfold can_receive. destruct (restrictive cf); auto. apply orb_true_r. Qed.

Inductive send_case (cf : cfg) (st : state) (c : N) (m : msg) (st' : state) (o : out) : Prop :=
| SC_refused : st_pend st' = st_pend st -> (forall x, fwd_to o x = false) -> send_case cf st c m st' o
| SC_through r : o = fwd_out cf st c r m -> st_pend st' = st_pend st -> (is_call m = false \/ m_noreply m = true) ->
     (m_rserial m = 0 \/ forall p, In p (st_pend st) -> pend_match r c (m_rserial m) p = false) -> send_case cf st c m st' o
| SC_opens r : resolve st (m_dest m) = Some r -> o = fwd_out cf st c r m -> is_call m = true -> m_noreply m = false -> m_rserial m = 0 ->
     st_pend st' = mkPend c (Some r) (m_serial m) (st_now st) :: st_pend st ->
     (forall p, In p (st_pend st) -> pend_match c r (m_serial m) p = false) -> count_get c (st_pend st) < max_replies cf -> send_case cf st c m st' o
| SC_answers r l1 p l2 : o = fwd_out cf st c r m -> is_call m = false -> m_rserial m <> 0 -> st_pend st = l1 ++ p :: l2 ->
     pend_match r c (m_rserial m) p = true -> st_pend st' = l1 ++ l2 -> send_case cf st c m st' o.

Definition full_idle (st : state) : Prop := forall p, In p (st_pend st) -> is_full st (p_get p) = false.

Lemma send_cases cf st c m st' o :
  full_idle st -> plain_msg m = true -> dispatch cf st c m = (st', o) -> send_case cf st c m st' o.
Proof.
  unfold plain_msg. intros Hfi Hp. apply andb_true_iff in Hp. destruct Hp as [Hp _]. unfold dispatch, deliver.
  destruct (resolve st (m_dest m)) as [r|] eqn:Rs; [|pose proof (no_owner_props cf st c m) as NP; destruct (no_owner cf st c m) as [stn on]; cbn [fst snd] in NP; destruct NP as (N1 & N2 & N3 & N4 & N5 & N6 & N7 & N8); intros H; inversion H; subst; apply SC_refused; auto; destruct N8 as [->|(e & -> & _)]; auto].
  destruct ((0 <? m_nfds m) && negb (conn_fds st r)); [intros H; inversion H; subst; apply SC_refused; auto|].
  destruct (check_security_policy cf (st_now st) (st_pend st) c r m (is_full st r)) as [pl res] eqn:C. revert C. unfold check_security_policy. destruct (unknown_type m); [intros C H; inversion C; subst; simpl in H; inversion H; subst; apply SC_refused; auto|].
  destruct (m_rserial m =? 0) eqn:R0.
  - apply N.eqb_eq in R0.
    destruct (negb (can_send cf m false)); [intros C H; inversion C; subst; simpl in H; inversion H; subst; apply SC_refused; auto|].
    destruct (negb (can_receive cf m false)); [intros C H; inversion C; subst; simpl in H; inversion H; subst; apply SC_refused; auto|]. destruct (is_full st r); [intros C H; inversion C; subst; simpl in H; inversion H; subst; apply SC_refused; auto|].
    destruct (m_type m) eqn:Ty;
      try solve [intros C H; inversion C; subst; simpl in H; inversion H; subst; simpl; apply (SC_through _ _ _ _ _ _ r); auto; left; unfold is_call; rewrite Ty; auto].
    intros C. destruct (expect_reply_cases _ _ _ _ _ _ _ _ C) as [(Hn & -> & ->)|[(Hn & -> & -> & _)|[(Hn & -> & -> & _)|(Hn & -> & -> & Hc & Hno)]]];
      intros H; inversion H; subst; simpl.
    + apply (SC_through _ _ _ _ _ _ r); auto.
    + apply SC_refused; auto.
    + apply SC_refused; auto.
    + apply (SC_opens _ _ _ _ _ _ r); auto; unfold is_call; rewrite Ty; auto.
  - assert (Hnc : is_call m = false).
    { destruct (is_call m); auto; simpl in Hp; congruence. }
    apply N.eqb_neq in R0.
    destruct (check_reply (st_pend st) c r (m_rserial m)) as [pl1|] eqn:R.
    + destruct (check_reply_some _ _ _ _ _ R) as (l1 & p & l2 & E1 & E2 & Hm).
      rewrite can_receive_true, can_send_true. simpl.
      assert (Fr : is_full st r = false).
      { apply pend_match_iff in Hm. destruct Hm as (_ & <- & _). apply Hfi. rewrite E1. apply in_app_iff. right; left; auto. }
      rewrite Fr.
      destruct (m_type m) eqn:Ty; try (unfold is_call in Hnc; rewrite Ty in Hnc; discriminate);
        intros C H; inversion C; subst; simpl in H; inversion H; subst; simpl; apply (SC_answers _ _ _ _ _ _ r l1 p l2); auto.
    + pose proof (proj1 (check_reply_none _ _ _ _) R) as Hno.
      destruct (negb (can_send cf m false)); [intros C H; inversion C; subst; simpl in H; inversion H; subst; apply SC_refused; auto|].
      destruct (negb (can_receive cf m false)); [intros C H; inversion C; subst; simpl in H; inversion H; subst; apply SC_refused; auto|]. destruct (is_full st r); [intros C H; inversion C; subst; simpl in H; inversion H; subst; apply SC_refused; auto|].
      destruct (m_type m) eqn:Ty; try (unfold is_call in Hnc; rewrite Ty in Hnc; discriminate);
        intros C H; inversion C; subst; simpl in H; inversion H; subst; simpl; apply (SC_through _ _ _ _ _ _ r); auto.
Qed.

(* stalled connections have no call open (wf_event admits EBlock only then, and a stalled connection writes nothing) *)
Lemma existsb_eqb_mono x (l l' : list N) : (forall y, In y l' -> In y l) -> existsb (N.eqb x) l' = true -> existsb (N.eqb x) l = true.
Proof.
  intros H E. apply existsb_exists in E. destruct E as (y & Hy & Ey). apply existsb_exists. exists y. split; auto.
Qed.

Lemma csp_getters cf now pl c r m fl pl' res :
  check_security_policy cf now pl c r m fl = (pl', res) -> forall p, In p pl' -> In p pl \/ p_get p = c.
Proof.
  unfold check_security_policy. destruct (unknown_type m); [intros H; inversion H; subst; auto|].
  assert (G : forall pl1 rq, (forall p, In p pl1 -> In p pl) ->
     (if negb (can_send cf m rq) then (pl1, Some EAccessDenied)
      else if negb (can_receive cf m rq) then (pl1, Some EAccessDenied)
      else if fl then (pl1, Some ELimitsExceeded)
      else match m_type m with TCall => expect_reply cf now pl1 c r m | _ => (pl1, None) end) = (pl', res) ->
     forall p, In p pl' -> In p pl \/ p_get p = c).
  { intros pl1 rq H1. destruct (negb (can_send cf m rq)); [intros H; inversion H; subst; auto|].
    destruct (negb (can_receive cf m rq)); [intros H; inversion H; subst; auto|]. destruct fl; [intros H; inversion H; subst; auto|].
    destruct (m_type m); try solve [intros H; inversion H; subst; auto].
    intros C. destruct (expect_reply_cases _ _ _ _ _ _ _ _ C) as [(_ & -> & _)|[(_ & -> & _)|[(_ & -> & _)|(_ & -> & _)]]]; auto.
    intros p [<-|Hp]; auto. }
  destruct (m_rserial m =? 0); [apply G; auto|].
  destruct (check_reply pl c r (m_rserial m)) as [pl1|] eqn:R; [|apply G; auto].
  apply G. apply (check_reply_incl _ _ _ _ _ R).
Qed.

Lemma dispatch_getters cf st c m st' o :
  dispatch cf st c m = (st', o) -> st_full st' = st_full st /\ forall p, In p (st_pend st') -> In p (st_pend st) \/ p_get p = c.
Proof.
  unfold dispatch, deliver. destruct (resolve st (m_dest m)) as [r|]; [|pose proof (no_owner_props cf st c m) as NP; destruct (no_owner cf st c m) as [stn on]; cbn [fst snd] in NP; destruct NP as (N1 & N2 & N3 & N4 & N5 & N6 & N7 & N8); intros H; inversion H; subst; rewrite N5; auto].
  destruct ((0 <? m_nfds m) && negb (conn_fds st r)); [intros H; inversion H; auto|].
  destruct (check_security_policy cf (st_now st) (st_pend st) c r m (is_full st r)) as [pl res] eqn:C.
  pose proof (csp_getters _ _ _ _ _ _ _ _ _ C) as G.
  destruct res as [e|]; intros H; inversion H; subst; simpl; auto.
Qed.

(* ---- who can get a new slot; held entries ---- *)
Lemma deliver_getters cf st c r m p : In p (st_pend (fst (deliver cf st c r m))) -> In p (st_pend st) \/ p_get p = c.
Proof.
  unfold deliver. destruct ((0 <? m_nfds m) && negb (conn_fds st r)); [cbn [fst]; auto|].
  destruct (check_security_policy cf (st_now st) (st_pend st) c r m (is_full st r)) as [pl res] eqn:C.
  pose proof (csp_getters _ _ _ _ _ _ _ _ _ C) as G. destruct res; cbn [fst]; simpl; auto.
Qed.

Lemma release_held_getters cf l r : forall st p,
  In p (st_pend (fst (release_held cf st l r))) -> In p (st_pend st) \/ exists x, In x l /\ p_get p = fst x.
Proof.
  induction l as [|[c m] l IH]; intros st p; simpl; auto.
  pose proof (deliver_getters cf st c r m p) as G. destruct (deliver cf st c r m) as [st1 o1]. cbn [fst] in *.
  specialize (IH st1 p). destruct (release_held cf st1 l r) as [st2 o2]. cbn [fst] in *. intros H.
  destruct (IH H) as [H1|(x & Hx & E)]; [|right; exists x; auto].
  destruct (G H1) as [H2|E]; auto. right. exists (c, m). auto.
Qed.

Lemma held_for_in h n x : In x (held_for h n) -> exists l, In (n, l) h /\ In x l.
Proof.
  induction h as [|[k l] h IH]; simpl; [tauto|]. destruct (k =? n) eqn:E.
  - apply N.eqb_eq in E. subst. intros H. exists l. auto.
  - intros H. destruct (IH H) as (l' & H1 & H2). exists l'. auto.
Qed.

Lemma set_held_in h n l n' l' : In (n', l') (set_held h n l) -> (n' = n /\ l' = l) \/ In (n', l') h.
Proof.
  unfold set_held. rewrite in_app_iff. intros [H|H].
  - destruct l; [destruct H|]. destruct H as [H|[]]. inversion H. auto.
  - apply filter_In in H. tauto.
Qed.

Definition held_idle (st : state) : Prop := forall n l x, In (n, l) (st_held st) -> In x l -> is_full st (fst x) = false.
Definition idle (st : state) : Prop := full_idle st /\ held_idle st.

Lemma is_full_filter st c x l : existsb (N.eqb x) (st_full st) = false -> l = filter (fun y => negb (y =? c)) (st_full st) -> existsb (N.eqb x) l = false.
Proof.
  intros H ->. destruct (existsb (N.eqb x) (filter (fun y => negb (y =? c)) (st_full st))) eqn:E; auto.
  apply existsb_eqb_mono with (l := st_full st) in E; [congruence|]. intros y Hy. apply filter_In in Hy. tauto.
Qed.

Lemma idle_step cf st e : idle st -> idle (fst (step cf st e)).
Proof.
  intros [Hf Hh]. unfold step. destruct (negb (wf_event st e)) eqn:W; [split; auto|]. apply negb_false_iff in W.
  destruct e as [fds|c m|c|d|c s n al rp dq|c s n|c s rl|c|c|c s|c]; cbn [fst].
  - split; auto.
  - simpl in W. rewrite !andb_true_iff in W. destruct W as [[_ W] _]. apply negb_true_iff in W.
    unfold dispatch. destruct (resolve st (m_dest m)) as [r|].
    + pose proof (deliver_frame cf st c r m) as [(_ & _ & _ & _ & Ff & _) Fh]. pose proof (deliver_getters cf st c r m) as G.
      destruct (deliver cf st c r m) as [st1 o1]. cbn [fst] in *. split.
      * intros p Hp. unfold is_full. rewrite Ff. destruct (G p Hp) as [H| ->]; [apply Hf; auto|exact W].
      * intros n l x H1 H2. unfold is_full. rewrite Ff. rewrite Fh in H1. apply (Hh n l x H1 H2).
    + pose proof (no_owner_props cf st c m) as NP. unfold no_owner in *. destruct (m_dest m) as [u|n]; [cbn [fst] in *; split; auto|].
      destruct (negb (m_noauto m) && activatable n); [|cbn [fst]; split; auto].
      destruct (can_send cf m false && negb (unknown_type m)); cbn [fst]; [|split; auto]. split.
      * intros p Hp. apply (Hf p Hp).
      * intros n' l x H1 H2. cbn [st_held with_held] in H1. unfold is_full. cbn [st_full with_held]. apply set_held_in in H1.
        destruct H1 as [[-> ->]|H1]; [|apply (Hh n' l x H1 H2)]. apply in_app_iff in H2. destruct H2 as [H2|[<-|[]]]; [|exact W].
        destruct (held_for_in _ _ _ H2) as (l0 & H3 & H4). apply (Hh n l0 x H3 H4).
  - unfold disconnect. rewrite expire_pass_spec. cbn [fst]. split.
    + intros p Hp. cbn [st_pend] in Hp. apply filter_In in Hp. destruct Hp as [Hp _].
      apply drop_pending_in in Hp. destruct Hp as (p0 & Hin & _ & Hq).
      assert (Eg : p_get p = p_get p0) by (destruct Hq as [[-> _]|[_ ->]]; reflexivity). rewrite Eg.
      unfold is_full. cbn [st_full]. eapply is_full_filter; [apply (Hf p0 Hin)|reflexivity].
    + intros n l x H1 H2. cbn [st_held] in H1. apply in_map_iff in H1. destruct H1 as ([k l0] & E & H1). simpl in E. injection E as E1 E2. subst n l.
      apply filter_In in H2. destruct H2 as [H2 _]. unfold is_full. cbn [st_full]. eapply is_full_filter; [apply (Hh k l0 x H1 H2)|reflexivity].
  - unfold tick. rewrite expire_pass_spec. cbn [fst]. split.
    + intros p Hp. cbn [st_pend] in Hp. apply filter_In in Hp. destruct Hp as [Hp _]. apply (Hf p Hp).
    + intros n l x H1 H2. apply (Hh n l x H1 H2).
  - destruct (acquire _ c al rp dq) as [q' code]. set (st1 := set_names st (set_queue (st_names st) n q')).
    assert (I1 : idle st1) by (split; auto).
    unfold release_name. destruct (held_for (st_held st1) n) as [|x0 l0] eqn:El; [cbn [fst]; exact I1|].
    destruct (lookup (st_names st1) n) as [[|ow q]|]; try (cbn [fst]; exact I1).
    set (st1' := with_held st1 (set_held (st_held st1) n [])).
    pose proof (release_held_frame cf (x0 :: l0) (o_conn ow) st1') as [(_ & _ & _ & _ & Ff & _) Fh].
    pose proof (release_held_getters cf (x0 :: l0) (o_conn ow) st1') as G.
    destruct (release_held cf st1' (x0 :: l0) (o_conn ow)) as [st2 o2]. cbn [fst] in *. split.
    + intros p Hp. unfold is_full. rewrite Ff. destruct (G p Hp) as [H|(x & Hx & E)]; [apply (Hf p H)|].
      rewrite E. rewrite <- El in Hx. destruct (held_for_in _ _ _ Hx) as (l1 & H3 & H4). apply (Hh n l1 x H3 H4).
    + intros n' l x H1 H2. unfold is_full. rewrite Ff. rewrite Fh in H1. cbn [st_held st1' with_held] in H1. apply set_held_in in H1.
      destruct H1 as [[_ ->]|H1]; [destruct H2|apply (Hh n' l x H1 H2)].
  - destruct (release (st_names st) c n). split; auto.
  - split; auto.
  - simpl in W. rewrite !andb_true_iff in W. destruct W as [[_ W1] W2]. rewrite forallb_forall in W1, W2. split.
    + intros p Hp. cbn [st_pend] in Hp. unfold is_full. cbn [st_full existsb]. specialize (W1 p Hp). apply negb_true_iff in W1. rewrite W1. apply (Hf p Hp).
    + intros n l x H1 H2. cbn [st_held] in H1. unfold is_full. cbn [st_full existsb]. specialize (W2 (n, l) H1). cbn [snd] in W2.
      rewrite forallb_forall in W2. specialize (W2 x H2). apply negb_true_iff in W2. rewrite W2. apply (Hh n l x H1 H2).
  - split.
    + intros p Hp. cbn [st_pend] in Hp. unfold is_full. cbn [st_full]. eapply is_full_filter; [apply (Hf p Hp)|reflexivity].
    + intros n l x H1 H2. cbn [st_held] in H1. unfold is_full. cbn [st_full]. eapply is_full_filter; [apply (Hh n l x H1 H2)|reflexivity].
  - split; auto.
  - split; auto.
Qed.

(* ------------------------------------------------------------------ Part 3c: table = ledger *)
Lemma timed_out_0 T : timed_out T 0 = false.
Proof. unfold timed_out. destruct T as [x|]; auto. destruct (0 <? x) eqn:A; auto. simpl. apply N.leb_gt. apply N.ltb_lt in A. exact A. Qed.

Lemma expired_some cf now p b : p_send p = Some b -> expired cf now p = timed_out (reply_timeout cf) (now - p_added p).
Proof. intros H. unfold expired, timed_out. rewrite H. reflexivity. Qed.

Lemma NoDup_map_filter {A B} (f : A -> B) (g : A -> bool) l : NoDup (map f l) -> NoDup (map f (filter g l)).
Proof.
  induction l as [|x l IH]; simpl; auto. intros H. inversion H; subst. destruct (g x); simpl; auto.
  constructor; auto. intros Hin. apply H2. apply in_map_iff in Hin. destruct Hin as (y & <- & Hy).
  apply filter_In in Hy. apply in_map. tauto.
Qed.

Lemma NoDup_other l1 (p : pend) l2 q : NoDup (map pkey (l1 ++ p :: l2)) -> In q (l1 ++ l2) -> pkey q <> pkey p.
Proof.
  rewrite map_app. simpl. intros H Hq E. apply NoDup_remove_2 in H. apply H. rewrite <- map_app, <- E. apply in_map. auto.
Qed.

Definition stays (c : N) (p : pend) : bool :=
  negb (p_get p =? c) && negb (match p_send p with Some s => s =? c | None => false end).

Lemma disconnect_filter cf now l c :
  (forall p, In p l -> exists b, p_send p = Some b) ->
  (forall p, In p l -> timed_out (reply_timeout cf) (now - p_added p) = false) ->
  filter (fun p => negb (expired cf now p)) (drop_pending l c) = filter (stays c) l.
Proof.
  induction l as [|p l IH]; simpl; auto. intros H1 H2.
  assert (IH' : filter (fun p => negb (expired cf now p)) (drop_pending l c) = filter (stays c) l) by (apply IH; auto).
  destruct (H1 p (or_introl eq_refl)) as [b Hb]. unfold stays at 1. rewrite Hb.
  destruct (p_get p =? c); simpl; auto.
  destruct (b =? c); simpl; auto.
  rewrite (expired_some _ _ _ _ Hb), (H2 p (or_introl eq_refl)). simpl. rewrite IH'. reflexivity.
Qed.

Lemma disconnect_out cf now l c :
  (forall p, In p l -> exists b, p_send p = Some b) ->
  (forall p, In p l -> timed_out (reply_timeout cf) (now - p_added p) = false) ->
  map noreply_of (filter (expired cf now) (drop_pending l c)) =
  map noreply_of (filter (fun p => negb (p_get p =? c) && (match p_send p with Some s => s =? c | None => false end)) l).
Proof.
  induction l as [|p l IH]; simpl; auto. intros H1 H2.
  assert (IH' : map noreply_of (filter (expired cf now) (drop_pending l c)) =
    map noreply_of (filter (fun p => negb (p_get p =? c) && (match p_send p with Some s => s =? c | None => false end)) l)) by (apply IH; auto).
  destruct (H1 p (or_introl eq_refl)) as [b Hb]. rewrite Hb.
  destruct (p_get p =? c); simpl; auto.
  destruct (b =? c); simpl; [rewrite IH'; reflexivity|].
  rewrite (expired_some _ _ _ _ Hb), (H2 p (or_introl eq_refl)). auto.
Qed.

Section Ledger.
Variable cf : cfg.
Let T := reply_timeout cf.

Record Inv (st : state) (tr : trace) : Prop := mkInv {
  inv_parties : forall p, In p (st_pend st) -> exists b, p_send p = Some b /\ connected st (p_get p) = true /\ connected st b = true;
  inv_age : forall p b, In p (st_pend st) -> p_send p = Some b ->
            p_added p <= st_now st /\ age T tr (p_get p) b (p_serial p) = Some (st_now st - p_added p);
  inv_slot : forall a b s t, age T tr a b s = Some t ->
             exists p, In p (st_pend st) /\ p_get p = a /\ p_send p = Some b /\ p_serial p = s;
  inv_nodup : NoDup (map pkey (st_pend st));
  inv_fresh : forall p, In p (st_pend st) -> timed_out T (st_now st - p_added p) = false }.

Lemma Inv_init : Inv init [].
Proof. constructor; simpl; try tauto; try discriminate. constructor. Qed.

(* steps that leave table, clock and ledger alone *)
Lemma Inv_same st tr st' e o :
  Inv st tr -> st_pend st' = st_pend st -> st_now st' = st_now st ->
  (forall x, connected st x = true -> connected st' x = true) ->
  (forall a b s, age T ((e, o) :: tr) a b s = age T tr a b s) -> Inv st' ((e, o) :: tr).
Proof.
  intros [I1 I2 I3 I4 I5] Hp Hn Hc Ha. constructor; rewrite ?Hp, ?Hn; auto.
  - intros p Hin. destruct (I1 p Hin) as (b & ? & ? & ?). exists b. auto.
  - intros p b Hin Hs. rewrite Ha. auto.
  - intros a b s t. rewrite Ha. apply I3.
Qed.

Lemma Inv_send st tr c m st' o :
  Inv st tr -> names_ok st -> full_idle st -> connected st c = true -> plain_msg m = true ->
  dispatch cf st c m = (st', o) -> Inv st' ((ESend c m, o) :: tr).
Proof.
  intros I Hn Hfi Hc Hpl D. pose proof (dispatch_frame _ _ _ _ _ _ D) as (Fc & _ & _ & Fn).
  assert (Hconn : forall x, connected st' x = connected st x) by (intros x; unfold connected; rewrite Fc; auto).
  destruct (send_cases _ _ _ _ _ _ Hfi Hpl D) as [Hp Hf | r Ho Hp Hnc Hno | r Rs Ho Hcall Hnr Hrs Hp Hno Hcnt | r l1 p l2 Ho Hnc Hrs Hpe Hm Hp].
  - (* refused *)
    apply (Inv_same st tr st'); auto; [intros x; rewrite Hconn; auto|].
    intros a b s. simpl. rewrite !Hf, !andb_false_r. reflexivity.
  - (* passed on, table untouched *)
    assert (Hop : forall a b s, opens a b s (ESend c m) o = false).
    { intros a b s. simpl. destruct Hnc as [E|E]; rewrite E; simpl; rewrite ?andb_false_r; auto. }
    assert (Han : forall q b, In q (st_pend st) -> p_send q = Some b -> answers (p_get q) b (p_serial q) (ESend c m) o = false).
    { intros q b Hq Hs. subst o. unfold answers. rewrite fwd_to_single.
      destruct ((c =? b) && (m_rserial m =? p_serial q) && negb (p_serial q =? 0) && (r =? p_get q)) eqn:E; auto. exfalso.
      rewrite !andb_true_iff, !N.eqb_eq, negb_true_iff, N.eqb_neq in E. destruct E as [[[E1 E2] E3] E4]. subst.
      destruct Hno as [Z|Hno]; [congruence|].
      assert (pend_match (p_get q) b (m_rserial m) q = true) by (apply pend_match_iff; auto). rewrite Hno in H; auto; discriminate. }
    destruct I as [I1 I2 I3 I4 I5]. constructor; rewrite ?Hp, ?Fn; auto.
    + intros q Hq. destruct (I1 q Hq) as (b & ? & ? & ?). exists b. rewrite !Hconn. auto.
    + intros q b Hq Hs. destruct (I2 q b Hq Hs) as [L A]. split; auto.
      change (age T ((ESend c m, o) :: tr) (p_get q) b (p_serial q)) with
        (if opens (p_get q) b (p_serial q) (ESend c m) o then Some 0 else if answers (p_get q) b (p_serial q) (ESend c m) o then None else age T tr (p_get q) b (p_serial q)).
      rewrite Hop, Han; auto.
    + intros a b s t.
      change (age T ((ESend c m, o) :: tr) a b s) with
        (if opens a b s (ESend c m) o then Some 0 else if answers a b s (ESend c m) o then None else age T tr a b s).
      rewrite Hop. destruct (answers a b s (ESend c m) o); [discriminate|]. apply I3.
  - (* call opens a slot *)
    assert (Han : forall a b s, answers a b s (ESend c m) o = false).
    { intros a b s. simpl. rewrite Hrs. destruct (s =? 0) eqn:Z; [rewrite andb_false_r; auto|].
      rewrite (N.eqb_sym 0 s), Z. rewrite !andb_false_r. auto. }
    assert (Hop : forall a b s, opens a b s (ESend c m) o = (c =? a) && (m_serial m =? s) && (r =? b)).
    { intros a b s. subst o. unfold opens. rewrite fwd_to_single, Hcall, Hnr. simpl. rewrite !andb_true_r. reflexivity. }
    assert (Hage : forall a b s, age T ((ESend c m, o) :: tr) a b s = if (c =? a) && (m_serial m =? s) && (r =? b) then Some 0 else age T tr a b s).
    { intros a b s.
      change (age T ((ESend c m, o) :: tr) a b s) with
        (if opens a b s (ESend c m) o then Some 0 else if answers a b s (ESend c m) o then None else age T tr a b s).
      rewrite Hop, Han. reflexivity. }
    destruct I as [I1 I2 I3 I4 I5]. constructor; rewrite ?Hp, ?Fn.
    + intros q [<-|Hq]; simpl.
      * exists r. rewrite !Hconn. split; auto. split; auto. eapply resolve_connected; eauto.
      * destruct (I1 q Hq) as (b & ? & ? & ?). exists b. rewrite !Hconn. auto.
    + intros q b [<-|Hq]; cbn [p_get p_send p_serial p_added].
      * intros E; inversion E; subst b. split; [lia|]. rewrite Hage, !N.eqb_refl. simpl. f_equal. lia.
      * intros Hs. destruct (I2 q b Hq Hs) as [L A]. split; auto. rewrite Hage.
        destruct ((c =? p_get q) && (m_serial m =? p_serial q) && (r =? b)) eqn:E; auto. exfalso.
        rewrite !andb_true_iff, !N.eqb_eq in E. destruct E as [[E1 E2] E3]. subst.
        assert (pend_match (p_get q) b (m_serial m) q = true) by (apply pend_match_iff; auto). rewrite Hno in H; auto; discriminate.
    + intros a b s t. rewrite Hage. destruct ((c =? a) && (m_serial m =? s) && (r =? b)) eqn:E.
      * intros _. rewrite !andb_true_iff, !N.eqb_eq in E. destruct E as [[E1 E2] E3]. subst.
        eexists. split; [left; reflexivity|simpl; auto].
      * intros A. destruct (I3 _ _ _ _ A) as (q & ? & ?). exists q. split; auto. right; auto.
    + simpl. constructor; auto. intros Hin. apply in_map_iff in Hin. destruct Hin as (q & Hk & Hq).
      assert (pend_match c r (m_serial m) q = true) by (apply pend_match_key; auto). rewrite Hno in H; auto; discriminate.
    + intros q [<-|Hq]; simpl; auto. rewrite N.sub_diag. apply timed_out_0.
  - (* reply consumes the slot *)
    assert (Hop : forall a b s, opens a b s (ESend c m) o = false).
    { intros a b s. simpl. rewrite Hnc. rewrite andb_false_r. auto. }
    assert (Han : forall a b s, answers a b s (ESend c m) o = (c =? b) && (m_rserial m =? s) && negb (s =? 0) && (r =? a)).
    { intros a b s. subst o. unfold answers. rewrite fwd_to_single. reflexivity. }
    assert (Hage : forall a b s, age T ((ESend c m, o) :: tr) a b s =
                                 if (c =? b) && (m_rserial m =? s) && negb (s =? 0) && (r =? a) then None else age T tr a b s).
    { intros a b s.
      change (age T ((ESend c m, o) :: tr) a b s) with
        (if opens a b s (ESend c m) o then Some 0 else if answers a b s (ESend c m) o then None else age T tr a b s).
      rewrite Hop, Han. reflexivity. }
    apply pend_match_iff in Hm. destruct Hm as (M1 & M2 & M3).
    destruct I as [I1 I2 I3 I4 I5]. rewrite Hpe in *.
    assert (Hin : forall q, In q (l1 ++ l2) -> In q (l1 ++ p :: l2)).
    { intros q Hq. apply in_app_iff in Hq. apply in_app_iff. destruct Hq; auto. right; right; auto. }
    constructor; rewrite ?Hp, ?Fn.
    + intros q Hq. destruct (I1 q (Hin q Hq)) as (b & ? & ? & ?). exists b. rewrite !Hconn. auto.
    + intros q b Hq Hs. destruct (I2 q b (Hin q Hq) Hs) as [L A]. split; auto. rewrite Hage.
      destruct ((c =? b) && (m_rserial m =? p_serial q) && negb (p_serial q =? 0) && (r =? p_get q)) eqn:E; auto. exfalso.
      rewrite !andb_true_iff, !N.eqb_eq in E. destruct E as [[[E1 E2] _] E4]. subst b.
      apply (NoDup_other _ _ _ _ I4 Hq). unfold pkey. congruence.
    + intros a b s t. rewrite Hage.
      destruct ((c =? b) && (m_rserial m =? s) && negb (s =? 0) && (r =? a)) eqn:E; [discriminate|].
      intros A. destruct (I3 _ _ _ _ A) as (q & Hq & Q1 & Q2 & Q3). exists q. split; auto.
      apply in_app_iff in Hq. apply in_app_iff. destruct Hq as [|[->|]]; auto. exfalso.
      rewrite Q1, Q3 in *. rewrite M3 in Q2. inversion Q2; subst.
      rewrite !N.eqb_refl in E. simpl in E. rewrite andb_true_r in E. apply negb_false_iff, N.eqb_eq in E. congruence.
    + rewrite map_app in *. simpl in I4. apply NoDup_remove_1 in I4. auto.
    + intros q Hq. apply I5; auto.
Qed.
End Ledger.

Lemma Inv_tick cf st tr d :
  Inv cf st tr -> Inv cf (fst (tick cf st d)) ((ETick d, snd (tick cf st d)) :: tr).
Proof.
  intros [I1 I2 I3 I4 I5]. unfold tick. rewrite expire_pass_spec. cbn [fst snd].
  set (now' := st_now st + d). set (o := map noreply_of (filter (expired cf now') (st_pend st))).
  assert (Hage : forall a b s, age (reply_timeout cf) ((ETick d, o) :: tr) a b s =
     match age (reply_timeout cf) tr a b s with
     | Some t => if timed_out (reply_timeout cf) (t + d) then None else Some (t + d) | None => None end) by reflexivity.
  constructor; cbn [st_pend st_now].
  - intros p Hp. apply filter_In in Hp. destruct Hp as [Hp _]. apply I1 in Hp. exact Hp.
  - intros p b Hp Hs. apply filter_In in Hp. destruct Hp as [Hp He]. destruct (I2 p b Hp Hs) as [L A].
    rewrite (expired_some _ _ _ _ Hs) in He. apply negb_true_iff in He. unfold now' in *.
    split; [lia|]. rewrite Hage, A. replace (st_now st - p_added p + d) with (st_now st + d - p_added p) by lia. rewrite He. reflexivity.
  - intros a b s t. rewrite Hage. destruct (age (reply_timeout cf) tr a b s) as [t0|] eqn:A; [|discriminate].
    destruct (timed_out (reply_timeout cf) (t0 + d)) eqn:E; [discriminate|]. intros _.
    destruct (I3 _ _ _ _ A) as (p & Hp & Q1 & Q2 & Q3). exists p. split; auto. apply filter_In. split; auto.
    rewrite (expired_some _ _ _ _ Q2). apply negb_true_iff. destruct (I2 p b Hp Q2) as [L A']. rewrite Q1, Q3, A in A'. inversion A'; subst t0.
    unfold now'. replace (st_now st + d - p_added p) with (st_now st - p_added p + d) by lia. exact E.
  - apply NoDup_map_filter. exact I4.
  - intros p Hp. apply filter_In in Hp. destruct Hp as [Hp He]. destruct (I1 p Hp) as (b & Hs & _).
    rewrite (expired_some _ _ _ _ Hs) in He. apply negb_true_iff in He. exact He.
Qed.

Lemma stays_iff c p b : p_send p = Some b -> (stays c p = true <-> p_get p <> c /\ b <> c).
Proof.
  intros Hs. unfold stays. rewrite Hs, andb_true_iff, !negb_true_iff, !N.eqb_neq. tauto.
Qed.

Lemma Inv_disconnect cf st tr c :
  Inv cf st tr -> connected st c = true ->
  Inv cf (fst (disconnect cf st c)) ((EDisconnect c, snd (disconnect cf st c)) :: tr).
Proof.
  intros [I1 I2 I3 I4 I5] Hc. unfold disconnect. rewrite expire_pass_spec. cbn [fst snd].
  rewrite disconnect_filter; [|intros p Hp; destruct (I1 p Hp) as (b & ? & _); eauto|exact I5].
  set (o := map noreply_of _).
  assert (Hage : forall a b s, age (reply_timeout cf) ((EDisconnect c, o) :: tr) a b s =
     if (c =? a) || (c =? b) then None else age (reply_timeout cf) tr a b s) by reflexivity.
  constructor; cbn [st_pend st_now].
  - intros p Hp. apply filter_In in Hp. destruct Hp as [Hp Hs]. destruct (I1 p Hp) as (b & Hb & C1 & C2).
    apply (stays_iff _ _ _ Hb) in Hs. destruct Hs as [S1 S2]. exists b. split; auto.
    unfold connected in *. cbn [st_conns]. rewrite !find_conn_filter. apply N.eqb_neq in S1, S2. rewrite S1, S2. auto.
  - intros p b Hp Hb. apply filter_In in Hp. destruct Hp as [Hp Hs]. destruct (I2 p b Hp Hb) as [L A]. split; auto.
    apply (stays_iff _ _ _ Hb) in Hs. destruct Hs as [S1 S2]. rewrite Hage.
    apply not_eq_sym in S1, S2. apply N.eqb_neq in S1, S2. rewrite S1, S2. exact A.
  - intros a b s t. rewrite Hage. destruct ((c =? a) || (c =? b)) eqn:E; [discriminate|]. intros A.
    apply orb_false_iff in E. destruct E as [E1 E2]. apply N.eqb_neq in E1, E2.
    destruct (I3 _ _ _ _ A) as (p & Hp & Q1 & Q2 & Q3). exists p. split; auto. apply filter_In. split; auto.
    apply (stays_iff _ _ _ Q2). split; congruence.
  - apply NoDup_map_filter. exact I4.
  - intros p Hp. apply filter_In in Hp. destruct Hp as [Hp _]. auto.
Qed.

Lemma Inv_noop_disconnect cf st tr c o :
  Inv cf st tr -> connected st c = false -> Inv cf st ((EDisconnect c, o) :: tr).
Proof.
  intros I Hc. pose proof I as [I1 I2 I3 I4 I5].
  assert (Hage : forall a b s, age (reply_timeout cf) ((EDisconnect c, o) :: tr) a b s =
     if (c =? a) || (c =? b) then None else age (reply_timeout cf) tr a b s) by reflexivity.
  constructor; auto.
  - intros p b Hp Hb. destruct (I2 p b Hp Hb) as [L A]. split; auto. rewrite Hage.
    destruct (I1 p Hp) as (b' & Hb' & C1 & C2). rewrite Hb in Hb'. inversion Hb'; subst b'.
    destruct (c =? p_get p) eqn:E1; [apply N.eqb_eq in E1; congruence|]. destruct (c =? b) eqn:E2; [apply N.eqb_eq in E2; congruence|]. exact A.
  - intros a b s t. rewrite Hage. destruct ((c =? a) || (c =? b)); [discriminate|]. apply I3.
Qed.

Lemma age_other T e o tr a b s :
  match e with ESend _ _ | EDisconnect _ | ETick _ => False | _ => True end ->
  age T ((e, o) :: tr) a b s = age T tr a b s.
Proof. destruct e; simpl; tauto. Qed.

Lemma Inv_step cf st tr e :
  Inv cf st tr -> names_ok st -> full_idle st -> st_held st = [] -> plain_event e = true ->
  Inv cf (fst (step cf st e)) ((e, snd (step cf st e)) :: tr).
Proof.
  intros I Hn Hfi Hnh Hp. pose proof (step_conn cf st e) as Hc. revert Hc. unfold step.
  destruct (negb (wf_event st e)) eqn:W; cbn [fst snd].
  - (* ill-formed: nothing happens *)
    intros _. destruct e as [fds|c m|c|d|c s n al rp dq|c s n|c s rl|c|c|c s|c]; try discriminate.
    + apply (Inv_same cf st tr st); auto. intros a b s. simpl. rewrite !andb_false_r. reflexivity.
    + apply Inv_noop_disconnect; auto; simpl in W; apply negb_true_iff in W; exact W.
    + apply (Inv_same cf st tr st); auto; intros; apply age_other; exact Logic.I.
    + apply (Inv_same cf st tr st); auto; intros; apply age_other; exact Logic.I.
    + apply (Inv_same cf st tr st); auto; intros; apply age_other; exact Logic.I.
    + apply (Inv_same cf st tr st); auto; intros; apply age_other; exact Logic.I.
    + apply (Inv_same cf st tr st); auto; intros; apply age_other; exact Logic.I.
    + apply (Inv_same cf st tr st); auto; intros; apply age_other; exact Logic.I.
    + apply (Inv_same cf st tr st); auto; intros; apply age_other; exact Logic.I.
  - apply negb_false_iff in W. destruct e as [fds|c m|c|d|c s n al rp dq|c s n|c s rl|c|c|c s|c]; cbn [fst snd]; intros Hc.
    + apply (Inv_same cf st tr); auto; intros; apply age_other; exact Logic.I.
    + simpl in W. rewrite !andb_true_iff in W. destruct W as [[[[W _] _] _] _].
      destruct (dispatch cf st c m) as [st' o] eqn:D. cbn [fst snd]. apply (Inv_send cf st); auto.
    + apply Inv_disconnect; auto.
    + apply Inv_tick; auto.
    + destruct (acquire _ c al rp dq) as [q' code]. rewrite release_name_nil by exact Hnh. cbn [fst snd app]. apply (Inv_same cf st tr); auto;
        try solve [intros x Hx; simpl in Hc; rewrite Hc; auto]; try solve [intros; apply age_other; exact Logic.I].
    + destruct (release (st_names st) c n) as [nm code]. cbn [fst snd]. apply (Inv_same cf st tr); auto;
        try solve [intros x Hx; simpl in Hc; rewrite Hc; auto]; try solve [intros; apply age_other; exact Logic.I].
    + apply (Inv_same cf st tr); auto;
        try solve [intros x Hx; simpl in Hc; rewrite Hc; auto]; try solve [intros; apply age_other; exact Logic.I].
    + apply (Inv_same cf st tr); auto;
        try solve [intros x Hx; simpl in Hc; rewrite Hc; auto]; try solve [intros; apply age_other; exact Logic.I].
    + apply (Inv_same cf st tr); auto;
        try solve [intros x Hx; simpl in Hc; rewrite Hc; auto]; try solve [intros; apply age_other; exact Logic.I].
    + apply (Inv_same cf st tr); auto;
        try solve [intros x Hx; simpl in Hc; rewrite Hc; auto]; try solve [intros; apply age_other; exact Logic.I].
    + apply (Inv_same cf st tr); auto;
        try solve [intros x Hx; simpl in Hc; try rewrite Hc; auto]; try solve [intros; apply age_other; exact Logic.I].
Qed.

(* runs *)
Definition state_of (cf : cfg) (h : list event) : state := fst (run cf init h []).
Definition trace_of (cf : cfg) (h : list event) : trace := snd (run cf init h []).

Lemma run_app cf h1 h2 st acc :
  run cf st (h1 ++ h2) acc = run cf (fst (run cf st h1 acc)) h2 (snd (run cf st h1 acc)).
Proof.
  revert st acc. induction h1 as [|e h1 IH]; intros st acc; simpl; auto.
  destruct (step cf st e) as [st' o]. apply IH.
Qed.

Lemma run_snoc cf h e :
  run cf init (h ++ [e]) [] =
  (fst (step cf (state_of cf h) e), (e, snd (step cf (state_of cf h) e)) :: trace_of cf h).
Proof.
  rewrite run_app. unfold state_of, trace_of. simpl. destruct (step cf (fst (run cf init h [])) e); reflexivity.
Qed.

Lemma plain_app h1 h2 : plain (h1 ++ h2) = plain h1 && plain h2.
Proof. unfold plain. apply forallb_app. Qed.

Lemma idle_all cf h : idle (state_of cf h).
Proof.
  induction h as [|e h IH] using rev_ind.
  - split; [intros p []|intros n l x []].
  - unfold state_of. rewrite run_snoc. cbn [fst]. apply idle_step; auto.
Qed.

Lemma full_idle_all cf h : full_idle (state_of cf h).
Proof. apply idle_all. Qed.

Lemma no_held_step' cf st e :
  st_held st = [] -> match e with ESend _ m => auto_starts m = false | _ => True end -> st_held (fst (step cf st e)) = [].
Proof.
  intros Hh Hp. unfold step. destruct (negb (wf_event st e)); [exact Hh|].
  destruct e as [fds|c m|c|d|c s n al rp dq|c s n|c s rl|c|c|c s|c]; cbn [fst]; try exact Hh.
  - unfold dispatch. destruct (resolve st (m_dest m)) as [r|].
    + destruct (deliver_frame cf st c r m) as [_ F]. rewrite F. exact Hh.
    + unfold auto_starts in Hp.
      unfold no_owner. destruct (m_dest m) as [u|n]; [exact Hh|]. rewrite andb_comm in Hp. rewrite Hp. exact Hh.
  - unfold disconnect. destruct (expire_pass cf (st_now st) (drop_pending (st_pend st) c)). cbn [fst st_held]. rewrite Hh. reflexivity.
  - unfold tick. destruct (expire_pass cf (st_now st + d) (st_pend st)). exact Hh.
  - destruct (acquire _ c al rp dq) as [q' code]. rewrite release_name_nil by exact Hh. exact Hh.
  - destruct (release (st_names st) c n). exact Hh.
Qed.

Lemma no_held_step cf st e : st_held st = [] -> plain_event e = true -> st_held (fst (step cf st e)) = [].
Proof.
  intros Hh Hp. apply no_held_step'; auto. destruct e; auto. simpl in Hp. unfold plain_msg in Hp.
  apply andb_true_iff in Hp. destruct Hp as [_ Hp]. apply negb_true_iff in Hp. exact Hp.
Qed.

Lemma no_held_noauto cf h : noauto h = true -> st_held (state_of cf h) = [].
Proof.
  induction h as [|e h IH] using rev_ind; intros Hp; [reflexivity|].
  unfold noauto in Hp. rewrite forallb_app in Hp. apply andb_true_iff in Hp. destruct Hp as [Hp He]. simpl in He. rewrite andb_true_r in He.
  unfold state_of. rewrite run_snoc. cbn [fst]. apply no_held_step'; [apply IH; exact Hp|].
  destruct e; auto. apply negb_true_iff in He. exact He.
Qed.

Lemma no_held_all cf h : plain h = true -> st_held (state_of cf h) = [].
Proof.
  induction h as [|e h IH] using rev_ind; intros Hp; [reflexivity|].
  rewrite plain_app in Hp. apply andb_true_iff in Hp. destruct Hp as [Hp He]. simpl in He. rewrite andb_true_r in He.
  unfold state_of. rewrite run_snoc. cbn [fst]. apply no_held_step; auto.
Qed.

Theorem ledger_invariant cf h : plain h = true -> Inv cf (state_of cf h) (trace_of cf h) /\ names_ok (state_of cf h).
Proof.
  induction h as [|e h IH] using rev_ind; intros Hp.
  - split; [apply Inv_init|]. intros n q o [].
  - rewrite plain_app in Hp. apply andb_true_iff in Hp. destruct Hp as [Hp He]. simpl in He. rewrite andb_true_r in He.
    destruct (IH Hp) as [I Hn]. unfold state_of, trace_of. rewrite run_snoc. cbn [fst snd]. split.
    + apply Inv_step; auto; [apply full_idle_all|apply no_held_all; auto].
    + apply names_ok_step; auto.
Qed.

Lemma names_ok_all cf h : names_ok (state_of cf h).
Proof.
  induction h as [|e h IH] using rev_ind.
  - intros n q o [].
  - unfold state_of. rewrite run_snoc. cbn [fst]. apply names_ok_step; auto.
Qed.

(* ------------------------------------------------------------------ Part 4: trace-level theorems *)
Lemma trace_events cf h : map fst (trace_of cf h) = rev h.
Proof.
  induction h as [|e h IH] using rev_ind; auto.
  unfold trace_of. rewrite run_snoc. cbn [snd map fst]. fold (trace_of cf h). rewrite IH, rev_app_distr. reflexivity.
Qed.

Lemma trace_cons_inv cf h x rest :
  trace_of cf h = x :: rest ->
  exists h' e, h = h' ++ [e] /\ rest = trace_of cf h' /\ x = (e, snd (step cf (state_of cf h') e)).
Proof.
  destruct h as [|e0 h0 _] using rev_ind; [discriminate|].
  unfold trace_of. rewrite run_snoc. cbn [snd]. intros H. inversion H. exists h0, e0. auto.
Qed.

(* the ledger is the table (plain histories) *)
Theorem ledger_is_table cf h a b s :
  plain h = true ->
  (is_open (reply_timeout cf) (trace_of cf h) a b s = true <->
   exists p, In p (st_pend (state_of cf h)) /\ p_get p = a /\ p_send p = Some b /\ p_serial p = s).
Proof.
  intros Hp. destruct (ledger_invariant cf h Hp) as [[I1 I2 I3 I4 I5] _]. unfold is_open. split.
  - destruct (age (reply_timeout cf) (trace_of cf h) a b s) eqn:A; [|discriminate]. intros _. eapply I3; eauto.
  - intros (p & Hin & <- & Hs & <-). destruct (I2 p b Hin Hs) as [_ A]. rewrite A. reflexivity.
Qed.

Lemma step_send cf st c m : wf_event st (ESend c m) = true -> step cf st (ESend c m) = dispatch cf st c m.
Proof. intros W. unfold step. rewrite W. reflexivity. Qed.

Lemma step_illformed cf st e : wf_event st e = false -> step cf st e = (st, []).
Proof. intros W. unfold step. rewrite W. reflexivity. Qed.

(* C09: only the addressee of a still-open call gets a reply through *)
Theorem only_addressee cf h c m a :
  restrictive cf = true -> plain h = true -> m_rserial m <> 0 ->
  fwd_to (snd (step cf (state_of cf h) (ESend c m))) a = true ->
  open_call (reply_timeout cf) (trace_of cf h) a c (m_rserial m) /\ resolve (state_of cf h) (m_dest m) = Some a.
Proof.
  intros Hr Hp Hs. destruct (wf_event (state_of cf h) (ESend c m)) eqn:W; [|rewrite step_illformed; auto; discriminate].
  rewrite step_send; auto. destruct (dispatch cf (state_of cf h) c m) as [st' o] eqn:D. cbn [snd]. intros Hf.
  destruct (requested_only_state _ _ _ _ _ _ _ Hr Hs D Hf) as (Rs & _ & l1 & p & l2 & E & Hm & _). split; auto.
  destruct (ledger_invariant cf h Hp) as [[I1 I2 I3 I4 I5] _].
  apply pend_match_iff in Hm. destruct Hm as (M1 & M2 & M3).
  assert (Hin : In p (st_pend (state_of cf h))) by (rewrite E; apply in_app_iff; right; left; auto).
  destruct (I2 p c Hin M3) as [_ A]. unfold open_call. rewrite <- M1, <- M2, A. discriminate.
Qed.

(* C09: any other reply is refused as access denied and changes nothing *)
Theorem unrequested_denied cf h c m r :
  restrictive cf = true -> plain h = true -> wf_event (state_of cf h) (ESend c m) = true -> m_rserial m <> 0 ->
  resolve (state_of cf h) (m_dest m) = Some r -> (0 <? m_nfds m) && negb (conn_fds (state_of cf h) r) = false ->
  age (reply_timeout cf) (trace_of cf h) r c (m_rserial m) = None ->
  step cf (state_of cf h) (ESend c m) = (state_of cf h, [(c, OErr EAccessDenied (m_serial m))]).
Proof.
  intros Hr Hp W Hs Rs Hfd A. rewrite step_send; auto. apply unrequested_refused with (r := r); auto.
  intros p Hin. destruct (pend_match r c (m_rserial m) p) eqn:M; auto. exfalso.
  destruct (ledger_invariant cf h Hp) as [[I1 I2 I3 I4 I5] _].
  apply pend_match_iff in M. destruct M as (M1 & M2 & M3). destruct (I2 p c Hin M3) as [_ A']. rewrite M1, M2 in A'. congruence.
Qed.

(* C09: at most one reply per call *)
Lemma age_none_until_opened T tr2 tr1 a b s :
  age T tr1 a b s = None -> opened_in tr2 a b s = false -> age T (tr2 ++ tr1) a b s = None.
Proof.
  intros H1. induction tr2 as [|[e o] tr2 IH]; simpl; auto. intros H. apply orb_false_iff in H. destruct H as [Ho Hr].
  change (opens a b s (fst (e, o)) (snd (e, o))) with (opens a b s e o) in Ho. rewrite Ho.
  destruct (answers a b s e o); auto. specialize (IH Hr).
  destruct e; auto; rewrite IH; auto. destruct ((c =? a) || (c =? b)); auto.
Qed.

Theorem at_most_one cf h a b s e1 o1 e2 o2 tr1 tr2 :
  restrictive cf = true -> plain h = true ->
  trace_of cf h = (e2, o2) :: tr2 ++ (e1, o1) :: tr1 ->
  answers a b s e1 o1 = true -> answers a b s e2 o2 = true -> opened_in tr2 a b s = true.
Proof.
  intros Hr Hp Ht A1 A2.
  destruct (trace_cons_inv _ _ _ _ Ht) as (h' & e & -> & Hrest & Hx). inversion Hx; subst e o2. clear Hx.
  rewrite plain_app in Hp. apply andb_true_iff in Hp. destruct Hp as [Hp' He2].
  (* e1 is a plain event of h', so it cannot open the call it answers *)
  assert (Hop1 : opens a b s e1 o1 = false).
  { assert (Hin : In e1 (rev h')) by (rewrite <- trace_events with (cf := cf), <- Hrest, map_app; apply in_app_iff; right; left; auto).
    apply in_rev in Hin. unfold plain in Hp'. rewrite forallb_forall in Hp'. specialize (Hp' _ Hin).
    destruct e1 as [|c1 m1| | | | | | | | |]; try discriminate. simpl in A1, Hp' |- *.
    rewrite !andb_true_iff, !N.eqb_eq, negb_true_iff, N.eqb_neq in A1. destruct A1 as [[[_ R] Z] _].
    unfold plain_msg in Hp'. apply andb_true_iff in Hp'. destruct Hp' as [Hc _].
    destruct (is_call m1); [|rewrite andb_false_r; auto]. simpl in Hc. apply N.eqb_eq in Hc. congruence. }
  destruct (opened_in tr2 a b s) eqn:O; auto. exfalso.
  destruct e2 as [|c2 m2| | | | | | | | |]; try discriminate. simpl in A2.
  rewrite !andb_true_iff, !N.eqb_eq, negb_true_iff, N.eqb_neq in A2. destruct A2 as [[[C2 R2] Z2] F2]. subst c2 s.
  destruct (only_addressee cf h' b m2 a Hr Hp' Z2 F2) as [Hopen _].
  apply Hopen. rewrite <- Hrest. apply age_none_until_opened; auto.
  change (age (reply_timeout cf) ((e1, o1) :: tr1) a b (m_rserial m2)) with
    (if opens a b (m_rserial m2) e1 o1 then Some 0 else if answers a b (m_rserial m2) e1 o1 then None
     else match e1 with
          | EDisconnect c => if (c =? a) || (c =? b) then None else age (reply_timeout cf) tr1 a b (m_rserial m2)
          | ETick d => match age (reply_timeout cf) tr1 a b (m_rserial m2) with
                       | Some t => if timed_out (reply_timeout cf) (t + d) then None else Some (t + d) | None => None end
          | _ => age (reply_timeout cf) tr1 a b (m_rserial m2) end).
  rewrite Hop1, A1. reflexivity.
Qed.

(* C09: the per-receiver limit *)
Theorem limit_holds cf h a : count_get a (st_pend (state_of cf h)) <= max_replies cf.
Proof.
  revert a. induction h as [|e h IH] using rev_ind; intros a.
  - unfold state_of, count_get. simpl. lia.
  - unfold state_of. rewrite run_snoc. cbn [fst]. apply limit_step. exact IH.
Qed.

Theorem limit_refuses cf st c m r :
  wf_event st (ESend c m) = true -> is_call m = true -> m_noreply m = false -> m_rserial m = 0 ->
  resolve st (m_dest m) = Some r -> (0 <? m_nfds m) && negb (conn_fds st r) = false ->
  max_replies cf <= count_get c (st_pend st) ->
  (forall p, In p (st_pend st) -> pend_match c r (m_serial m) p = false) ->
  step cf st (ESend c m) = (st, [(c, OErr ELimitsExceeded (m_serial m))]).
Proof.
  intros W Hc Hn Hr Rs Hfd Hl Hno. rewrite step_send; auto. unfold dispatch, deliver. rewrite Rs, Hfd. unfold check_security_policy. assert (Uk : unknown_type m = false) by (unfold unknown_type; unfold is_call in Hc; destruct (m_type m); auto; discriminate). rewrite Uk.
  assert (Hcs : forall rq, can_send cf m rq = true) by (intros rq; unfold can_send; rewrite Hr; destruct (restrictive cf); auto).
  assert (Hcr : forall rq, can_receive cf m rq = true) by (intros rq; unfold can_receive; rewrite Hr; destruct (restrictive cf); auto).
  rewrite Hr. cbn [N.eqb]. rewrite Hcs, Hcr. cbn [negb].
  destruct (is_full st r); [simpl; rewrite set_pend_same; reflexivity|].
  unfold is_call in Hc. destruct (m_type m); try discriminate.
  unfold expect_reply. rewrite Hn.
  destruct (expect_scan (st_pend st) c r (m_serial m) 0) as [k|] eqn:E.
  - apply expect_scan_some in E. fold (count_get c (st_pend st)) in E.
    assert (L : (max_replies cf <=? k) = true) by (apply N.leb_le; lia). rewrite L. rewrite set_pend_same. reflexivity.
  - apply expect_scan_none in E. destruct E as (p & Hp & M). rewrite Hno in M; auto. discriminate.
Qed.

(* C09: NoReply exactly once *)
Lemma count_key l p (f : pend -> bool) :
  NoDup (map pkey l) -> In p l -> (forall q, In q l -> (f q = true <-> pkey q = pkey p)) -> length (filter f l) = 1%nat.
Proof.
  induction l as [|x l IH]; simpl; [tauto|]. intros Hnd Hin Hf. inversion Hnd as [|? ? Hx Hnd']; subst.
  destruct (f x) eqn:Fx.
  - assert (Hk : pkey x = pkey p) by (apply Hf; auto).
    assert (Hnone : filter f l = []).
    { destruct (filter f l) as [|q r] eqn:E; auto. exfalso.
      assert (Hq : In q (filter f l)) by (rewrite E; left; auto). apply filter_In in Hq. destruct Hq as [Hq Fq].
      apply Hx. rewrite Hk. assert (pkey q = pkey p) by (apply Hf; auto). rewrite <- H. apply in_map. auto. }
    rewrite Hnone. reflexivity.
  - destruct Hin as [->|Hin].
    + assert (f p = true) by (apply Hf; auto). congruence.
    + apply IH; auto.
Qed.

Lemma filter_map_len {A B} (h : B -> bool) (f : A -> B) l : length (filter h (map f l)) = length (filter (fun x => h (f x)) l).
Proof. induction l as [|x l IH]; simpl; auto. destruct (h (f x)); simpl; auto. Qed.

Lemma filter_filter_len {A} (h g : A -> bool) l : length (filter h (filter g l)) = length (filter (fun x => g x && h x) l).
Proof. induction l as [|x l IH]; simpl; auto. destruct (g x); simpl; auto. destruct (h x); simpl; auto. Qed.

Lemma filter_nonempty {A} (f : A -> bool) l : (0 < length (filter f l))%nat -> exists x, In x l /\ f x = true.
Proof.
  destruct (filter f l) as [|x r] eqn:E; simpl; [lia|]. intros _. exists x. apply filter_In. rewrite E. left; auto.
Qed.

Definition leaves_with (c : N) (p : pend) : bool :=
  negb (p_get p =? c) && (match p_send p with Some s => s =? c | None => false end).

Lemma disconnect_output cf h c :
  plain h = true -> connected (state_of cf h) c = true ->
  snd (step cf (state_of cf h) (EDisconnect c)) = map noreply_of (filter (leaves_with c) (st_pend (state_of cf h))).
Proof.
  intros Hp Hc. destruct (ledger_invariant cf h Hp) as [[I1 I2 I3 I4 I5] _].
  unfold step. cbn [wf_event]. rewrite Hc. cbn [negb]. unfold disconnect. rewrite expire_pass_spec. cbn [snd].
  apply disconnect_out; auto. intros p Hin. destruct (I1 p Hin) as (b & ? & _). eauto.
Qed.

Lemma tick_output cf st d : snd (step cf st (ETick d)) = map noreply_of (filter (expired cf (st_now st + d)) (st_pend st)).
Proof. unfold step. cbn [wf_event negb]. unfold tick. rewrite expire_pass_spec. reflexivity. Qed.

Theorem noreply_once_on_disconnect cf h a b s t :
  plain h = true -> age (reply_timeout cf) (trace_of cf h) a b s = Some t -> a <> b ->
  count_noreply (snd (step cf (state_of cf h) (EDisconnect b))) a s = 1%nat.
Proof.
  intros Hp A Hab. destruct (ledger_invariant cf h Hp) as [[I1 I2 I3 I4 I5] _].
  destruct (I3 _ _ _ _ A) as (p & Hin & P1 & P2 & P3). destruct (I1 p Hin) as (b' & Hb' & _ & Cb). rewrite P2 in Hb'. inversion Hb'; subst b'.
  rewrite disconnect_output; auto. unfold count_noreply. rewrite filter_map_len, filter_filter_len.
  apply count_key with (p := p); auto. intros q Hq. unfold leaves_with, nr_is, noreply_of, pkey. cbn [fst snd].
  rewrite P1, P2, P3. destruct (I1 q Hq) as (bq & Hbq & _). rewrite Hbq.
  rewrite !andb_true_iff, negb_true_iff, !N.eqb_eq, N.eqb_neq. split.
  - intros [[_ ->] [-> ->]]. reflexivity.
  - intros E. inversion E; subst. repeat split; auto; congruence.
Qed.

Theorem noreply_once_on_timeout cf h a b s t d :
  plain h = true -> age (reply_timeout cf) (trace_of cf h) a b s = Some t -> timed_out (reply_timeout cf) (t + d) = true ->
  (forall b', b' <> b -> age (reply_timeout cf) (trace_of cf h) a b' s = None) ->
  count_noreply (snd (step cf (state_of cf h) (ETick d))) a s = 1%nat.
Proof.
  intros Hp A Hto Huniq. destruct (ledger_invariant cf h Hp) as [[I1 I2 I3 I4 I5] _].
  destruct (I3 _ _ _ _ A) as (p & Hin & P1 & P2 & P3).
  rewrite tick_output. unfold count_noreply. rewrite filter_map_len, filter_filter_len.
  apply count_key with (p := p); auto. intros q Hq. unfold nr_is, noreply_of, pkey. cbn [fst snd].
  rewrite P1, P2, P3. destruct (I1 q Hq) as (bq & Hbq & _). destruct (I2 q bq Hq Hbq) as [Lq Aq].
  rewrite (expired_some _ _ _ _ Hbq), Hbq. rewrite !andb_true_iff, !N.eqb_eq. split.
  - intros [_ [G S]]. rewrite G, S in Aq. destruct (N.eq_dec bq b) as [->|Hne]; [congruence|].
    rewrite (Huniq bq Hne) in Aq. discriminate.
  - intros E. injection E as E1 E2 E3. split; auto. rewrite E1, E2, E3, A in Aq. inversion Aq; subst t.
    replace (st_now (state_of cf h) + d - p_added q) with (st_now (state_of cf h) - p_added q + d) by lia. exact Hto.
Qed.

Lemma csp_error_kinds cf now pl c r m fl pl' e :
  check_security_policy cf now pl c r m fl = (pl', Some e) -> e = EAccessDenied \/ e = ELimitsExceeded.
Proof.
  unfold check_security_policy. destruct (unknown_type m); [intros H; inversion H; auto|].
  assert (G : forall pl1 rq,
     (if negb (can_send cf m rq) then (pl1, Some EAccessDenied)
      else if negb (can_receive cf m rq) then (pl1, Some EAccessDenied)
      else if fl then (pl1, Some ELimitsExceeded)
      else match m_type m with TCall => expect_reply cf now pl1 c r m | _ => (pl1, None) end) = (pl', Some e) ->
     e = EAccessDenied \/ e = ELimitsExceeded).
  { intros pl1 rq. destruct (negb (can_send cf m rq)); [intros H; inversion H; auto|].
    destruct (negb (can_receive cf m rq)); [intros H; inversion H; auto|]. destruct fl; [intros H; inversion H; auto|].
    destruct (m_type m); try discriminate. intros C.
    destruct (expect_reply_cases _ _ _ _ _ _ _ _ C) as [(_ & _ & ?)|[(_ & _ & ? & _)|[(_ & _ & ? & _)|(_ & _ & ? & _)]]]; try discriminate;
      inversion H; auto. }
  destruct (m_rserial m =? 0); [apply G|]. destruct (check_reply pl c r (m_rserial m)); apply G.
Qed.

Lemma count_noreply_fwd_out cf st c r m a s : count_noreply (fwd_out cf st c r m) a s = 0%nat.
Proof.
  unfold count_noreply, fwd_out. cbn [filter].
  assert (E : nr_is a s (r, OFwd c m) = false) by (unfold nr_is; cbn [fst snd]; apply andb_false_r).
  rewrite E. rewrite filter_eav; auto. intros x Hx. unfold nr_is. rewrite Hx. apply andb_false_r.
Qed.

Lemma dispatch_no_noreply cf st c m a s : count_noreply (snd (dispatch cf st c m)) a s = 0%nat.
Proof.
  unfold dispatch, deliver. destruct (resolve st (m_dest m)) as [r|].
  - destruct ((0 <? m_nfds m) && negb (conn_fds st r)); [unfold count_noreply, nr_is; simpl; destruct (c =? a); reflexivity|].
    destruct (check_security_policy cf (st_now st) (st_pend st) c r m (is_full st r)) as [pl [e|]] eqn:C.
    + destruct (csp_error_kinds _ _ _ _ _ _ _ _ _ C) as [->| ->]; unfold count_noreply, nr_is; simpl; destruct (c =? a); reflexivity.
    + cbn [snd]. apply count_noreply_fwd_out.
  - pose proof (no_owner_props cf st c m) as NP. destruct (no_owner cf st c m) as [stn on]. cbn [fst snd] in *.
    destruct NP as (_ & _ & _ & _ & _ & _ & _ & [->|(e & -> & He)]); [reflexivity|].
    unfold count_noreply, nr_is. simpl. destruct e; try congruence; destruct (c =? a); reflexivity.
Qed.

Theorem noreply_only_for_open_calls cf h e a s :
  plain h = true -> (0 < count_noreply (snd (step cf (state_of cf h) e)) a s)%nat ->
  exists b, is_open (reply_timeout cf) (trace_of cf h) a b s = true /\
            is_open (reply_timeout cf) (trace_of cf (h ++ [e])) a b s = false /\
            (e = EDisconnect b \/ exists d, e = ETick d).
Proof.
  intros Hp Hc. destruct (ledger_invariant cf h Hp) as [[I1 I2 I3 I4 I5] _].
  destruct (wf_event (state_of cf h) e) eqn:W; [|rewrite step_illformed in Hc; auto; unfold count_noreply in Hc; simpl in Hc; lia].
  unfold trace_of at 2. rewrite run_snoc. cbn [snd]. fold (trace_of cf h).
  destruct e as [fds|c m|c|d|c sr n al rp dq|c sr n|c sr rl|c|c|c sr|c].
  - unfold step in Hc. rewrite W in Hc. unfold count_noreply in Hc. simpl in Hc. lia.
  - rewrite step_send in Hc; auto. rewrite dispatch_no_noreply in Hc. lia.
  - simpl in W. rewrite disconnect_output in *; auto.
    unfold count_noreply in Hc. rewrite filter_map_len, filter_filter_len in Hc. apply filter_nonempty in Hc.
    destruct Hc as (q & Hq & Hf). unfold leaves_with, nr_is, noreply_of in Hf. cbn [fst snd] in Hf.
    destruct (I1 q Hq) as (b & Hb & _). rewrite Hb in Hf. rewrite !andb_true_iff, !N.eqb_eq in Hf. destruct Hf as [[_ ->] [<- <-]].
    destruct (I2 q c Hq Hb) as [_ A]. exists c. unfold is_open. rewrite A. split; auto. split; auto.
    change (age (reply_timeout cf) ((EDisconnect c, map noreply_of (filter (leaves_with c) (st_pend (state_of cf h)))) :: trace_of cf h) (p_get q) c (p_serial q))
      with (if (c =? p_get q) || (c =? c) then None else age (reply_timeout cf) (trace_of cf h) (p_get q) c (p_serial q)).
    rewrite N.eqb_refl, orb_true_r. reflexivity.
  - rewrite tick_output in *.
    unfold count_noreply in Hc. rewrite filter_map_len, filter_filter_len in Hc. apply filter_nonempty in Hc.
    destruct Hc as (q & Hq & Hf). unfold nr_is, noreply_of in Hf. cbn [fst snd] in Hf.
    destruct (I1 q Hq) as (b & Hb & _). rewrite (expired_some _ _ _ _ Hb) in Hf.
    rewrite !andb_true_iff, !N.eqb_eq in Hf. destruct Hf as [He [<- <-]].
    destruct (I2 q b Hq Hb) as [L A]. exists b. unfold is_open. rewrite A. split; auto. split; [|right; eauto].
    set (o := map noreply_of _).
    change (age (reply_timeout cf) ((ETick d, o) :: trace_of cf h) (p_get q) b (p_serial q))
      with (match age (reply_timeout cf) (trace_of cf h) (p_get q) b (p_serial q) with
            | Some t => if timed_out (reply_timeout cf) (t + d) then None else Some (t + d) | None => None end).
    rewrite A. replace (st_now (state_of cf h) - p_added q + d) with (st_now (state_of cf h) + d - p_added q) by lia.
    rewrite He. reflexivity.
  - unfold step in Hc. rewrite W in Hc. cbn [negb] in Hc. destruct (acquire _ c al rp dq) in Hc. rewrite release_name_nil in Hc by (apply no_held_all; exact Hp).
    cbn [snd] in Hc. rewrite app_nil_l in Hc. rewrite count_noreply_drv in Hc. lia.
  - unfold step in Hc. rewrite W in Hc. cbn [negb] in Hc. destruct (release _ c n) in Hc. cbn [snd] in Hc. rewrite count_noreply_drv in Hc. lia.
  - unfold step in Hc. rewrite W in Hc. cbn [negb snd] in Hc. rewrite count_noreply_drv in Hc. lia.
  - unfold step in Hc. rewrite W in Hc. cbn [negb] in Hc. unfold count_noreply in Hc. simpl in Hc. lia.
  - unfold step in Hc. rewrite W in Hc. cbn [negb] in Hc. unfold count_noreply in Hc. simpl in Hc. lia.
  - unfold step in Hc. rewrite W in Hc. cbn [negb snd] in Hc. rewrite count_noreply_drv in Hc. lia.
  - unfold step in Hc. rewrite W in Hc. cbn [negb] in Hc. unfold count_noreply in Hc. simpl in Hc. lia.
Qed.

(* C09: the NO_REPLY_EXPECTED flag, on the ledger (holds by definition of the ledger) and on the table (noreply_opens_nothing) *)
Theorem noreply_flag_ledger T tr c m o a b s :
  m_noreply m = true -> is_open T ((ESend c m, o) :: tr) a b s = true -> is_open T tr a b s = true.
Proof.
  intros Hn. unfold is_open.
  change (age T ((ESend c m, o) :: tr) a b s) with
    (if opens a b s (ESend c m) o then Some 0 else if answers a b s (ESend c m) o then None else age T tr a b s).
  assert (Ho : opens a b s (ESend c m) o = false) by (simpl; rewrite Hn; simpl; rewrite !andb_false_r; auto).
  rewrite Ho. destruct (answers a b s (ESend c m) o); auto. discriminate.
Qed.

(* ------------------------------------------------------------------ C05 *)
(* a send yields exactly one of: the message to the owner (plus eavesdropped copies), one error to the sender, or -- for an
   auto-start message to an unowned activatable name -- nothing yet: the message is held *)
Lemma no_owner_hold cf st c m :
  snd (no_owner cf st c m) = [] ->
  exists n, m_dest m = DName n /\ auto_starts m = true /\
            st_held (fst (no_owner cf st c m)) = set_held (st_held st) n (held_for (st_held st) n ++ [(c, m)]).
Proof.
  unfold no_owner, auto_starts. destruct (m_dest m) as [u|n]; [cbn [snd]; discriminate|].
  rewrite (andb_comm (activatable n)). destruct (negb (m_noauto m) && activatable n); [|cbn [snd]; discriminate].
  destruct (can_send cf m false && negb (unknown_type m)); cbn [fst snd]; [|discriminate]. intros _. exists n. auto.
Qed.

Theorem send_exactly_once cf st c m :
  wf_event st (ESend c m) = true ->
  (exists r, resolve st (m_dest m) = Some r /\ snd (step cf st (ESend c m)) = fwd_out cf st c r m) \/
  (exists e, snd (step cf st (ESend c m)) = [(c, OErr e (m_serial m))]) \/
  (snd (step cf st (ESend c m)) = [] /\ resolve st (m_dest m) = None /\ auto_starts m = true /\
   exists n, m_dest m = DName n /\
     st_held (fst (step cf st (ESend c m))) = set_held (st_held st) n (held_for (st_held st) n ++ [(c, m)])).
Proof.
  intros W. rewrite step_send; auto. destruct (dispatch cf st c m) as [st' o] eqn:D. pose proof D as D0. apply dispatch_shape in D.
  destruct D as [D|[D|[-> R]]]; auto. right; right. cbn [fst snd]. split; auto. split; auto.
  unfold dispatch in D0. rewrite R in D0. destruct (no_owner_hold cf st c m) as (n & E1 & E2 & E3); [rewrite D0; reflexivity|].
  rewrite D0 in E3. cbn [fst] in E3. split; auto. exists n. auto.
Qed.

Theorem no_third_party cf st c m x f m' :
  In (x, OFwd f m') (snd (step cf st (ESend c m))) -> resolve st (m_dest m) = Some x /\ f = c /\ m' = m.
Proof.
  destruct (wf_event st (ESend c m)) eqn:W; [|rewrite step_illformed; auto; intros []].
  destruct (send_exactly_once cf st c m W) as [(r & Rs & ->)|[(e & ->)|(-> & _)]].
  - intros [H|H]; [inversion H; subst; auto|]. apply eav_out_in in H. discriminate.
  - intros [H|[]]; inversion H.
  - intros [].
Qed.

Theorem no_owner_error cf st c m :
  wf_event st (ESend c m) = true -> resolve st (m_dest m) = None -> auto_starts m = false ->
  step cf st (ESend c m) = (st, [(c, OErr (if m_noauto m then ENameHasNoOwner else EServiceUnknown) (m_serial m))]).
Proof.
  intros W R A. rewrite step_send; auto. unfold dispatch. rewrite R. unfold no_owner, auto_starts in *.
  destruct (m_dest m) as [u|n]; auto. rewrite andb_comm in A. rewrite A. reflexivity.
Qed.

Theorem permissive_delivers cf st c m r :
  wf_event st (ESend c m) = true -> restrictive cf = false -> resolve st (m_dest m) = Some r ->
  (0 <? m_nfds m) && negb (conn_fds st r) = false -> is_full st r = false -> unknown_type m = false ->
  (is_call m = false \/ m_noreply m = true \/
   ((forall p, In p (st_pend st) -> pend_match c r (m_serial m) p = false) /\ count_get c (st_pend st) < max_replies cf)) ->
  snd (step cf st (ESend c m)) = fwd_out cf st c r m.
Proof.
  intros W Hr Rs Hf Hfl Huk Hc. rewrite step_send; auto. unfold dispatch, deliver. rewrite Rs, Hfl.
  destruct (check_security_policy cf (st_now st) (st_pend st) c r m false) as [pl res] eqn:C.
  assert (res = None); [|subst res; rewrite Hf; reflexivity].
  revert C. unfold check_security_policy. rewrite Huk.
  assert (G : forall pl1 rq, (forall p, In p pl1 -> In p (st_pend st)) -> count_get c pl1 <= count_get c (st_pend st) ->
     (if negb (can_send cf m rq) then (pl1, Some EAccessDenied)
      else if negb (can_receive cf m rq) then (pl1, Some EAccessDenied)
      else if false then (pl1, Some ELimitsExceeded)
      else match m_type m with TCall => expect_reply cf (st_now st) pl1 c r m | _ => (pl1, None) end) = (pl, res) -> res = None).
  { intros pl1 rq Hsub Hcnt. unfold can_send, can_receive. rewrite Hr. cbn [negb].
    destruct (m_type m) eqn:Ty; try solve [intros H; inversion H; auto].
    intros C. destruct (expect_reply_cases _ _ _ _ _ _ _ _ C) as [(_ & _ & ?)|[(Hn & _ & _ & q & Hq & Mq)|[(Hn & _ & _ & Hl & _)|(_ & _ & ? & _)]]]; auto; exfalso.
    - destruct Hc as [Hc|[Hc|[Hno _]]]; [unfold is_call in Hc; rewrite Ty in Hc; discriminate|congruence|].
      rewrite Hno in Mq; auto; discriminate.
    - destruct Hc as [Hc|[Hc|[_ Hlt]]]; [unfold is_call in Hc; rewrite Ty in Hc; discriminate|congruence|lia]. }
  destruct (m_rserial m =? 0); [apply G; auto; lia|].
  destruct (check_reply (st_pend st) c r (m_rserial m)) as [pl1|] eqn:R; [|apply G; auto; lia].
  apply G; [apply (check_reply_incl _ _ _ _ _ R)|apply (check_reply_count _ _ _ _ _ c R)].
Qed.

Lemma step_nonsend_no_fwd cf st e x :
  st_held st = [] ->
  match e with ESend _ _ => False | _ => True end -> In x (snd (step cf st e)) -> match snd x with OFwd _ _ => False | _ => True end.
Proof.
  intros Hh He. unfold step. destruct (negb (wf_event st e)); [intros []|].
  destruct e as [fds|c m|c|d|c s n al rp dq|c s n|c s rl|c|c|c s|c]; try tauto.
  - intros [].
  - unfold disconnect. rewrite expire_pass_spec. cbn [snd]. intros H. apply in_map_iff in H. destruct H as (p & <- & _). exact I.
  - unfold tick. rewrite expire_pass_spec. cbn [snd]. intros H. apply in_map_iff in H. destruct H as (p & <- & _). exact I.
  - destruct (acquire _ c al rp dq). rewrite release_name_nil by exact Hh. cbn [snd]. rewrite app_nil_l.
    intros [<-|H]; [exact I|]. apply drv_copies_in in H. rewrite H. exact I.
  - destruct (release (st_names st) c n). cbn [snd]. intros [<-|H]; [exact I|]. apply drv_copies_in in H. rewrite H. exact I.
  - cbn [snd]. intros [<-|H]; [exact I|]. apply drv_copies_in in H. rewrite H. exact I.
  - intros [].
  - intros [].
  - cbn [snd]. intros [<-|H]; [exact I|]. apply drv_copies_in in H. rewrite H. exact I.
  - intros [].
Qed.

Lemma no_fwd_filter a b (o : out) :
  (forall x, In x o -> match snd x with OFwd _ _ => False | _ => True end) ->
  filter (from_conn a) (map snd (filter (fun x => fst x =? b) o)) = [].
Proof.
  induction o as [|x o IH]; simpl; auto. intros H. destruct (fst x =? b); simpl.
  - specialize (H x (or_introl eq_refl)) as Hx. destruct (snd x); try tauto; simpl; apply IH; intros; apply H; auto.
  - apply IH; intros; apply H; auto.
Qed.

Lemma eav_from_conn a (g : N * omsg -> bool) cf st c r m :
  filter (from_conn a) (map snd (filter g (eav_out cf st c r m))) = [].
Proof.
  assert (G : forall l, (forall x, In x l -> snd x = OEav c m) -> filter (from_conn a) (map snd (filter g l)) = []).
  { induction l as [|x l IH]; simpl; auto. intros H. destruct (g x); simpl.
    - rewrite (H x (or_introl eq_refl)). simpl. apply IH. intros; apply H; auto.
    - apply IH. intros; apply H; auto. }
  apply G. intros x Hx. eapply eav_out_in; eauto.
Qed.

(* per (sender, recipient) FIFO: what b reads from a is, in order, what a wrote and the bus passed on to b *)
Theorem fifo cf h a b :
  noauto h = true ->
  filter (from_conn a) (inbox (trace_of cf h) b) = map (OFwd a) (passed_on (trace_of cf h) a b).
Proof.
  induction h as [|e h IH] using rev_ind; auto. intros Hna.
  unfold noauto in Hna. rewrite forallb_app in Hna. apply andb_true_iff in Hna. destruct Hna as [Hna _]. fold (noauto h) in Hna.
  specialize (IH Hna). pose proof (no_held_noauto cf h Hna) as Hnh.
  unfold trace_of. rewrite run_snoc. cbn [snd]. fold (trace_of cf h).
  set (st := state_of cf h). set (o := snd (step cf st e)).
  assert (Hin : inbox ((e, o) :: trace_of cf h) b = inbox (trace_of cf h) b ++ map snd (filter (fun x => fst x =? b) o)) by reflexivity.
  rewrite Hin, filter_app, IH.
  destruct e as [fds|c m|c|d|c s n al rp dq|c s n|c s rl|c|c|c s|c];
    try (rewrite no_fwd_filter; [rewrite app_nil_r; reflexivity|intros x; apply step_nonsend_no_fwd; [exact Hnh|exact I]]).
  assert (Hpo : passed_on ((ESend c m, o) :: trace_of cf h) a b = passed_on (trace_of cf h) a b ++ (if (c =? a) && fwd_to o b then [m] else [])) by reflexivity.
  rewrite Hpo, map_app. f_equal.
  destruct (wf_event st (ESend c m)) eqn:W.
  - destruct (send_exactly_once cf st c m W) as [(r & _ & E)|[(er & E)|(E & _)]]; fold o in E; rewrite E; [| |simpl; rewrite andb_false_r; reflexivity].
    + rewrite fwd_to_single. unfold fwd_out. cbn [filter fst]. destruct (r =? b); cbn [map snd filter from_conn].
      * rewrite andb_true_r. rewrite eav_from_conn. destruct (c =? a) eqn:Ca; auto. apply N.eqb_eq in Ca. subst. reflexivity.
      * rewrite andb_false_r. apply eav_from_conn.
    + rewrite fwd_to_err, andb_false_r. simpl. destruct (c =? b); reflexivity.
  - unfold o. rewrite step_illformed; auto. simpl. rewrite andb_false_r. reflexivity.
Qed.

(* ------------------------------------------------------------------ C05: at most one error per serial (plain histories) *)
Definition gs (a s : N) (p : pend) : bool := (p_get p =? a) && (p_serial p =? s).
Definition count_gs (a s : N) (pl : list pend) : nat := length (filter (gs a s) pl).
Definition is_send_as (a s : N) (e : event) : bool :=
  match e with ESend c m => (c =? a) && (m_serial m =? s) | _ => false end.

Lemma errors_cons e o tr a s : errors_in ((e, o) :: tr) a s = (length (filter (err_is a s) o) + errors_in tr a s)%nat.
Proof. unfold errors_in. simpl. rewrite filter_app, app_length. reflexivity. Qed.

Lemma count_gs_drop a s l c : (count_gs a s (drop_pending l c) <= count_gs a s l)%nat.
Proof.
  unfold count_gs. induction l as [|p l IH]; cbn [drop_pending]; auto.
  destruct (p_get p =? c).
  - cbn [filter]. destruct (gs a s p); cbn [length]; lia.
  - destruct (p_send p) as [x|]; [destruct (x =? c)|]; cbn [filter];
      try change (gs a s {| p_get := p_get p; p_send := None; p_serial := p_serial p; p_added := 0 |}) with (gs a s p);
      destruct (gs a s p); cbn [length]; lia.
Qed.

Lemma expire_partition a s (f : pend -> bool) l :
  (length (filter (err_is a s) (map noreply_of (filter f l))) + count_gs a s (filter (fun p => negb (f p)) l) = count_gs a s l)%nat.
Proof.
  unfold count_gs. induction l as [|p l IH]; cbn [filter map]; auto.
  destruct (f p); cbn [negb filter map].
  - change (err_is a s (noreply_of p)) with (gs a s p). destruct (gs a s p); cbn [length]; lia.
  - destruct (gs a s p); cbn [length]; lia.
Qed.

Lemma err_fwd_out cf st c r m a s : filter (err_is a s) (fwd_out cf st c r m) = [].
Proof.
  unfold fwd_out. cbn [filter].
  assert (E : err_is a s (r, OFwd c m) = false) by (unfold err_is; cbn [fst snd]; apply andb_false_r).
  rewrite E. apply filter_eav. intros x Hx. unfold err_is. rewrite Hx. apply andb_false_r.
Qed.

Lemma count_gs_app a s l1 l2 : count_gs a s (l1 ++ l2) = (count_gs a s l1 + count_gs a s l2)%nat.
Proof. unfold count_gs. rewrite filter_app, app_length. reflexivity. Qed.

Lemma csp_gs cf now pl c r m fl pl' res a s :
  check_security_policy cf now pl c r m fl = (pl', res) ->
  (count_gs a s pl' <= count_gs a s pl +
     match res with None => if (c =? a) && (m_serial m =? s) then 1 else 0 | Some _ => 0 end)%nat.
Proof.
  unfold check_security_policy. destruct (unknown_type m); [intros H; inversion H; subst; lia|].
  assert (G : forall pl1 rq, (count_gs a s pl1 <= count_gs a s pl)%nat ->
     (if negb (can_send cf m rq) then (pl1, Some EAccessDenied)
      else if negb (can_receive cf m rq) then (pl1, Some EAccessDenied)
      else if fl then (pl1, Some ELimitsExceeded)
      else match m_type m with TCall => expect_reply cf now pl1 c r m | _ => (pl1, None) end) = (pl', res) ->
     (count_gs a s pl' <= count_gs a s pl +
        match res with None => if (c =? a) && (m_serial m =? s) then 1 else 0 | Some _ => 0 end)%nat).
  { intros pl1 rq H1. destruct (negb (can_send cf m rq)); [intros H; inversion H; subst; lia|].
    destruct (negb (can_receive cf m rq)); [intros H; inversion H; subst; lia|]. destruct fl; [intros H; inversion H; subst; lia|].
    destruct (m_type m); try solve [intros H; inversion H; subst; destruct ((c =? a) && (m_serial m =? s)); lia].
    intros C. destruct (expect_reply_cases _ _ _ _ _ _ _ _ C) as [(_ & -> & ->)|[(_ & -> & -> & _)|[(_ & -> & -> & _)|(_ & -> & -> & _)]]];
      try (destruct ((c =? a) && (m_serial m =? s)); lia).
    unfold count_gs in *. cbn [filter]. unfold gs at 1. cbn [p_get p_serial].
    destruct ((c =? a) && (m_serial m =? s)); cbn [length]; lia. }
  destruct (m_rserial m =? 0); [apply G; lia|].
  destruct (check_reply pl c r (m_rserial m)) as [pl1|] eqn:R; [|apply G; lia].
  apply G. destruct (check_reply_some _ _ _ _ _ R) as (l1 & p & l2 & -> & -> & _).
  rewrite !count_gs_app. unfold count_gs at 4. cbn [filter]. destruct (gs a s p); cbn [length]; unfold count_gs; lia.
Qed.

(* every message: errors produced + slots afterwards + entries still held <= the same before + 1 if this is a's message with
   serial s *)
Definition hkey (a s : N) (x : N * msg) : bool := (fst x =? a) && (m_serial (snd x) =? s).
Definition hcount (a s : N) (h : list (N * list (N * msg))) : nat := length (filter (hkey a s) (flat_map snd h)).

Lemma hcount_filter_le a s n h :
  (length (filter (hkey a s) (flat_map snd (filter (fun e => negb (fst e =? n)) h))) + length (filter (hkey a s) (held_for h n))
   <= length (filter (hkey a s) (flat_map snd h)))%nat.
Proof.
  induction h as [|[k l0] h IH]; simpl; [lia|]. destruct (k =? n) eqn:E; simpl.
  - rewrite filter_app, app_length.
    assert (length (filter (hkey a s) (flat_map snd (filter (fun e => negb (fst e =? n)) h))) <= length (filter (hkey a s) (flat_map snd h)))%nat by lia. lia.
  - rewrite !filter_app, !app_length. lia.
Qed.

Lemma hcount_set_held a s h n l :
  (hcount a s (set_held h n l) + length (filter (hkey a s) (held_for h n)) <= hcount a s h + length (filter (hkey a s) l))%nat.
Proof.
  unfold hcount, set_held. rewrite flat_map_app, filter_app, app_length. pose proof (hcount_filter_le a s n h).
  destruct l as [|p l']; [simpl; lia|]. cbn [flat_map snd]. rewrite app_nil_r. lia.
Qed.

Lemma deliver_gs cf st c r m a s :
  (length (filter (err_is a s) (snd (deliver cf st c r m))) + count_gs a s (st_pend (fst (deliver cf st c r m)))
   <= count_gs a s (st_pend st) + (if (c =? a) && (m_serial m =? s) then 1 else 0))%nat.
Proof.
  assert (E1 : forall x, length (filter (err_is a s) [(c, OErr x (m_serial m))]) = if (c =? a) && (m_serial m =? s) then 1%nat else 0%nat).
  { intros x. cbn [filter]. unfold err_is. cbn [fst snd]. destruct ((c =? a) && (m_serial m =? s)); reflexivity. }
  unfold deliver. destruct ((0 <? m_nfds m) && negb (conn_fds st r)); [cbn [fst snd]; rewrite E1; lia|].
  destruct (check_security_policy cf (st_now st) (st_pend st) c r m (is_full st r)) as [pl res] eqn:C.
  pose proof (csp_gs _ _ _ _ _ _ _ _ _ a s C) as G.
  destruct res as [x|]; cbn [fst snd set_pend st_pend].
  - rewrite E1. destruct ((c =? a) && (m_serial m =? s)); lia.
  - fold (fwd_out cf st c r m). rewrite err_fwd_out. simpl. lia.
Qed.

Lemma release_held_gs cf l r a s : forall st,
  (length (filter (err_is a s) (snd (release_held cf st l r))) + count_gs a s (st_pend (fst (release_held cf st l r)))
   <= count_gs a s (st_pend st) + length (filter (hkey a s) l))%nat.
Proof.
  induction l as [|[c m] l IH]; intros st; simpl; [lia|].
  pose proof (deliver_gs cf st c r m a s) as D. destruct (deliver cf st c r m) as [st1 o1]. cbn [fst snd] in *.
  specialize (IH st1). destruct (release_held cf st1 l r) as [st2 o2]. cbn [fst snd] in *.
  rewrite filter_app, app_length. unfold hkey at 1. cbn [fst snd]. destruct ((c =? a) && (m_serial m =? s)); simpl; lia.
Qed.

Lemma err_drv cf st c s code a s' : filter (err_is a s') ([(c, ODrv s code)] ++ drv_copies cf st c s) = [].
Proof.
  rewrite filter_app. rewrite filter_drv; [|intros x Hx; unfold err_is; rewrite Hx; apply andb_false_r].
  cbn [filter]. unfold err_is. cbn [fst snd]. rewrite andb_false_r. reflexivity.
Qed.

Lemma errors_step cf st e a s :
  (length (filter (err_is a s) (snd (step cf st e))) + count_gs a s (st_pend (fst (step cf st e))) + hcount a s (st_held (fst (step cf st e)))
   <= count_gs a s (st_pend st) + hcount a s (st_held st) + (if is_send_as a s e then 1 else 0))%nat.
Proof.
  unfold step. destruct (negb (wf_event st e)); [simpl; lia|].
  destruct e as [fds|c m|c|d|c sr n al rp dq|c sr n|c sr rl|c|c|c sr|c]; cbn [is_send_as].
  - simpl. lia.
  - unfold dispatch. destruct (resolve st (m_dest m)) as [r|].
    + pose proof (deliver_gs cf st c r m a s) as D. destruct (deliver_frame cf st c r m) as [_ Fh].
      destruct (deliver cf st c r m) as [st1 o1]. cbn [fst snd] in *. rewrite Fh. lia.
    + unfold no_owner. destruct (m_dest m) as [u|n].
      * cbn [fst snd filter]. unfold err_is. cbn [fst snd]. destruct ((c =? a) && (m_serial m =? s)); simpl; lia.
      * destruct (negb (m_noauto m) && activatable n).
        -- destruct (can_send cf m false && negb (unknown_type m)); cbn [fst snd filter].
           ++ cbn [st_pend st_held with_held]. pose proof (hcount_set_held a s (st_held st) n (held_for (st_held st) n ++ [(c, m)])) as H.
              rewrite filter_app, app_length in H. cbn [filter] in H. unfold hkey at 3 in H. cbn [fst snd] in H.
              destruct ((c =? a) && (m_serial m =? s)); simpl in *; lia.
           ++ unfold err_is. cbn [fst snd]. destruct ((c =? a) && (m_serial m =? s)); simpl; lia.
        -- cbn [fst snd filter]. unfold err_is. cbn [fst snd]. destruct ((c =? a) && (m_serial m =? s)); simpl; lia.
  - unfold disconnect. rewrite expire_pass_spec. cbn [fst snd st_pend st_held].
    pose proof (expire_partition a s (expired cf (st_now st)) (drop_pending (st_pend st) c)).
    pose proof (count_gs_drop a s (st_pend st) c).
    assert (Hh : (hcount a s (map (fun e => (fst e, filter (fun x => negb (fst x =? c)) (snd e))) (st_held st)) <= hcount a s (st_held st))%nat).
    { unfold hcount. induction (st_held st) as [|[k l] h IH]; simpl; [lia|]. rewrite !filter_app, !app_length.
      assert (length (filter (hkey a s) (filter (fun x => negb (fst x =? c)) l)) <= length (filter (hkey a s) l))%nat.
      { clear. induction l as [|x l IH]; simpl; [lia|]. destruct (negb (fst x =? c)); simpl; destruct (hkey a s x); simpl; lia. }
      lia. }
    lia.
  - unfold tick. rewrite expire_pass_spec. cbn [fst snd st_pend st_held].
    pose proof (expire_partition a s (expired cf (st_now st + d)) (st_pend st)). lia.
  - destruct (acquire _ c al rp dq) as [q' code]. set (st1 := set_names st (set_queue (st_names st) n q')).
    assert (Ed : forall o st', length (filter (err_is a s) (o ++ [(c, ODrv sr code)] ++ drv_copies cf st' c sr)) = length (filter (err_is a s) o)).
    { intros o st'. rewrite filter_app, app_length, err_drv. simpl. lia. }
    unfold release_name. change (st_held st1) with (st_held st). change (st_pend st) with (st_pend st1).
    destruct (held_for (st_held st) n) as [|x0 l0] eqn:El; [cbn [fst snd]; rewrite Ed; simpl; lia|].
    destruct (lookup (st_names st1) n) as [[|ow q]|]; try (cbn [fst snd]; rewrite Ed; simpl; lia).
    set (st1' := with_held st1 (set_held (st_held st) n [])).
    pose proof (release_held_gs cf (x0 :: l0) (o_conn ow) a s st1') as G.
    destruct (release_held_frame cf (x0 :: l0) (o_conn ow) st1') as [_ Fh].
    destruct (release_held cf st1' (x0 :: l0) (o_conn ow)) as [st2 o2]. cbn [fst snd] in *. rewrite Ed, Fh.
    pose proof (hcount_set_held a s (st_held st) n []) as H. rewrite El in H. cbn [st_held st1' with_held].
    change (st_pend st1') with (st_pend st1) in G. change (length (filter (hkey a s) [])) with 0%nat in H. lia.
  - destruct (release (st_names st) c n). cbn [fst snd]. rewrite err_drv. simpl. lia.
  - cbn [fst snd]. rewrite err_drv. simpl. lia.
  - simpl. lia.
  - simpl. lia.
  - cbn [fst snd]. rewrite err_drv. simpl. lia.
  - simpl. lia.
Qed.

Lemma sends_snoc h e a s : sends_with_serial (h ++ [e]) a s = (sends_with_serial h a s + (if is_send_as a s e then 1 else 0))%nat.
Proof.
  unfold sends_with_serial. rewrite filter_app, app_length. simpl. fold (is_send_as a s e). destruct (is_send_as a s e); reflexivity.
Qed.

Theorem errors_bounded cf h a s :
  (errors_in (trace_of cf h) a s + count_gs a s (st_pend (state_of cf h)) + hcount a s (st_held (state_of cf h)) <= sends_with_serial h a s)%nat.
Proof.
  induction h as [|e h IH] using rev_ind.
  - simpl. unfold errors_in, count_gs, hcount. simpl. lia.
  - unfold trace_of, state_of. rewrite run_snoc. cbn [fst snd]. fold (trace_of cf h).
    rewrite errors_cons, sends_snoc. pose proof (errors_step cf (state_of cf h) e a s). lia.
Qed.

(* C05: an undeliverable call earns exactly one error: if a wrote one message with serial s, at most one error with that
   reply serial ever reaches a -- every history (holds since the fix for F7) *)
Theorem one_error_per_serial cf h a s :
  sends_with_serial h a s = 1%nat -> (errors_in (trace_of cf h) a s <= 1)%nat.
Proof. intros H1. pose proof (errors_bounded cf h a s). lia. Qed.
(* ------------------------------------------------------------------ C05: copies made for match rules *)
Lemma existsb_eqb_in o seen : existsb (N.eqb o) seen = true <-> In o seen.
Proof.
  rewrite existsb_exists. split; [intros (x & Hx & E); apply N.eqb_eq in E; subst; auto|intros H; exists o; split; auto; apply N.eqb_refl].
Qed.

Lemma eav_list_spec st rules c r m : forall seen,
  NoDup (eav_list st rules c r m seen) /\
  forall e, In e (eav_list st rules c r m seen) ->
    ~ In e seen /\ exists rl, In (e, rl) rules /\ rule_matches st rl c r m = true.
Proof.
  induction rules as [|[o rl] rest IH]; intros seen; simpl.
  - split; [constructor|intros e []].
  - destruct (rule_matches st rl c r m && negb (existsb (N.eqb o) seen)) eqn:E.
    + apply andb_true_iff in E. destruct E as [Em Es]. apply negb_true_iff in Es.
      destruct (IH (o :: seen)) as [Hnd Hall]. split.
      * constructor; auto. intros Hin. apply Hall in Hin. destruct Hin as [Hn _]. apply Hn. left; auto.
      * intros e [<-|He].
        -- split; [intros Hin; apply existsb_eqb_in in Hin; congruence|exists rl; auto].
        -- destruct (Hall e He) as [Hn (rl' & Hr & Hm)]. split; [intros Hin; apply Hn; right; auto|exists rl'; auto].
    + destruct (IH seen) as [Hnd Hall]. split; auto. intros e He. destruct (Hall e He) as [Hn (rl' & Hr & Hm)]. split; auto. exists rl'; auto.
Qed.

Theorem eavesdrop_copies cf st c r m x :
  In x (eav_out cf st c r m) ->
  snd x = OEav c m /\ fst x <> r /\
  exists rl, In (fst x, rl) (st_rules st) /\ r_eaves rl = true /\ rule_matches st rl c r m = true.
Proof.
  intros H. split; [eapply eav_out_in; eauto|]. unfold eav_out in H. apply in_map_iff in H. destruct H as (e & <- & He).
  apply filter_In in He. destruct He as [He _]. cbn [fst]. unfold eavesdroppers in He.
  destruct (eav_list_spec st (st_rules st) c r m [r]) as [_ Hall]. destruct (Hall e He) as [Hn (rl & Hr & Hm)].
  split; [intros ->; apply Hn; left; auto|]. exists rl. split; auto. split; auto.
  unfold rule_matches in Hm. rewrite !andb_true_iff in Hm. tauto.
Qed.

Theorem eavesdrop_once cf st c r m : NoDup (map fst (eav_out cf st c r m)).
Proof.
  unfold eav_out. rewrite map_map. cbn [fst]. rewrite map_id. apply NoDup_filter.
  destruct (eav_list_spec st (st_rules st) c r m [r]) as [Hnd _]. exact Hnd.
Qed.

(* ------------------------------------------------------------------ C05: a sender that closes after writing *)
(* closing is one more event at the END of what was written: every earlier step, in particular every message the sender wrote
   before, has been processed exactly as if it were still connected (the trace of the prefix is untouched) ... *)
Theorem close_keeps_earlier_steps cf h c :
  trace_of cf (h ++ [EDisconnect c]) = (EDisconnect c, snd (step cf (state_of cf h) (EDisconnect c))) :: trace_of cf h.
Proof. unfold trace_of at 1. rewrite run_snoc. reflexivity. Qed.

Lemma names_drop_clean names c n q o : In (n, q) (names_drop names c) -> In o q -> o_conn o <> c.
Proof. intros H Ho. apply names_drop_in in H. destruct H as (q0 & _ & ->). apply remove_owner_in in Ho. tauto. Qed.

(* ... and afterwards nothing of the sender is left: not connected, no slot with it as caller or callee, no name, no rule *)
Theorem close_cleans_up cf st c :
  connected st c = true ->
  let st' := fst (step cf st (EDisconnect c)) in
  connected st' c = false /\
  (forall p, In p (st_pend st') -> p_get p <> c /\ p_send p <> Some c) /\
  (forall n q o, In (n, q) (st_names st') -> In o q -> o_conn o <> c) /\
  (forall x, In x (st_rules st') -> fst x <> c).
Proof.
  intros Hc. unfold step. cbn [wf_event]. rewrite Hc. cbn [negb]. unfold disconnect. rewrite expire_pass_spec. cbn [fst].
  repeat split.
  - unfold connected. cbn [st_conns]. rewrite find_conn_filter, N.eqb_refl. reflexivity.
  - cbn [st_pend] in H. apply filter_In in H. destruct H as [H _]. apply drop_pending_in in H.
    destruct H as (p0 & _ & Hg & [[-> _]|[_ ->]]); [apply N.eqb_neq; auto|cbn [p_get]; apply N.eqb_neq; auto].
  - cbn [st_pend] in H. apply filter_In in H. destruct H as [H He]. apply drop_pending_in in H.
    destruct H as (p0 & _ & Hg & [[-> Hs]|[_ ->]]); [exact Hs|discriminate].
  - cbn [st_names]. intros n q o H Ho. eapply names_drop_clean; eauto.
  - cbn [st_rules]. intros x H. apply filter_In in H. destruct H as [_ H]. apply negb_true_iff, N.eqb_neq in H. exact H.
Qed.

(* ------------------------------------------------------------------ C09: a message the bus answers itself leaves no slot *)
(* any refusal -- no owner, fd passing, policy, outstanding serial, reply limit, full outgoing queue of the recipient --
   of a message that carries no REPLY_SERIAL leaves the pending-reply table exactly as it was (any state, any policy) *)
Theorem refused_leaves_no_slot cf st c m st' o :
  m_rserial m = 0 -> dispatch cf st c m = (st', o) -> (forall x, fwd_to o x = false) -> st_pend st' = st_pend st.
Proof.
  intros Hr. unfold dispatch, deliver. destruct (resolve st (m_dest m)) as [r|]; [|pose proof (no_owner_props cf st c m) as NP; destruct (no_owner cf st c m) as [stn on]; cbn [fst snd] in NP; destruct NP as (N1 & N2 & N3 & N4 & N5 & N6 & N7 & N8); intros H; inversion H; subst; auto].
  destruct ((0 <? m_nfds m) && negb (conn_fds st r)); [intros H; inversion H; auto|].
  unfold check_security_policy. destruct (unknown_type m); [intros H; inversion H; auto|]. rewrite Hr. cbn [N.eqb].
  destruct (negb (can_send cf m false)); [intros H; inversion H; auto|].
  destruct (negb (can_receive cf m false)); [intros H; inversion H; auto|].
  destruct (is_full st r); [intros H; inversion H; auto|].
  assert (Hd : forall pl, (set_pend st pl, fwd_out cf st c r m) = (st', o) -> (forall x, fwd_to o x = false) -> st_pend st' = st_pend st).
  { intros pl H Hf. inversion H; subst. specialize (Hf r). rewrite fwd_to_single, N.eqb_refl in Hf. discriminate. }
  destruct (m_type m); try (apply Hd).
  destruct (expect_reply cf (st_now st) (st_pend st) c r m) as [pl res] eqn:C.
  destruct (expect_reply_cases _ _ _ _ _ _ _ _ C) as [(_ & -> & ->)|[(_ & -> & -> & _)|[(_ & -> & -> & _)|(_ & -> & -> & _)]]];
    first [solve [intros H; inversion H; auto] | apply Hd].
Qed.

(* ------------------------------------------------------------------ C09: callee hung up but not yet disconnected *)
(* the transport noticing EOF changes nothing the routing code looks at: the connection stays registered and addressable *)
Theorem hangup_changes_nothing cf st c :
  let st' := fst (step cf st (EHangup c)) in
  snd (step cf st (EHangup c)) = [] /\ st_pend st' = st_pend st /\ st_names st' = st_names st /\ st_conns st' = st_conns st /\
  st_held st' = st_held st /\ st_full st' = st_full st /\ forall d, resolve st' d = resolve st d.
Proof.
  unfold step. destruct (negb (wf_event st (EHangup c))); cbn [fst snd]; repeat split; auto.
Qed.

(* a call that is routed to such a connection (its name is still owned) records its slot like any other, and the caller gets
   exactly one NoReply when the Disconnected message is processed *)
Theorem call_to_hung_up_callee cf h a b m :
  plain (h ++ [EHangup b; ESend a m]) = true -> a <> b -> is_call m = true -> m_noreply m = false ->
  fwd_to (snd (step cf (state_of cf (h ++ [EHangup b])) (ESend a m))) b = true ->
  count_noreply (snd (step cf (state_of cf (h ++ [EHangup b; ESend a m])) (EDisconnect b))) a (m_serial m) = 1%nat.
Proof.
  intros Hp Hab Hc Hn Hf.
  apply (noreply_once_on_disconnect cf (h ++ [EHangup b; ESend a m]) a b (m_serial m) 0); auto.
  replace (h ++ [EHangup b; ESend a m]) with ((h ++ [EHangup b]) ++ [ESend a m]) by (rewrite <- app_assoc; reflexivity).
  unfold trace_of. rewrite run_snoc. cbn [snd]. 
  set (o := snd (step cf (state_of cf (h ++ [EHangup b])) (ESend a m))) in *.
  change (age (reply_timeout cf) ((ESend a m, o) :: trace_of cf (h ++ [EHangup b])) a b (m_serial m)) with
    (if opens a b (m_serial m) (ESend a m) o then Some 0 else if answers a b (m_serial m) (ESend a m) o then None
     else age (reply_timeout cf) (trace_of cf (h ++ [EHangup b])) a b (m_serial m)).
  assert (Ho : opens a b (m_serial m) (ESend a m) o = true).
  { simpl. rewrite !N.eqb_refl, Hc, Hn, Hf. reflexivity. }
  rewrite Ho. reflexivity.
Qed.

(* ------------------------------------------------------------------ C05: messages addressed to the bus driver are unicast too *)
Lemma drv_eav_list_spec st rules c : forall seen,
  NoDup (drv_eav_list st rules c seen) /\
  forall e, In e (drv_eav_list st rules c seen) ->
    ~ In e seen /\ exists rl, In (e, rl) rules /\ drv_rule_matches st rl c = true.
Proof.
  induction rules as [|[o rl] rest IH]; intros seen; simpl.
  - split; [constructor|intros e []].
  - destruct (drv_rule_matches st rl c && negb (existsb (N.eqb o) seen)) eqn:E.
    + apply andb_true_iff in E. destruct E as [Em Es]. apply negb_true_iff in Es.
      destruct (IH (o :: seen)) as [Hnd Hall]. split.
      * constructor; auto. intros Hin. apply Hall in Hin. destruct Hin as [Hn _]. apply Hn. left; auto.
      * intros e [<-|He].
        -- split; [intros Hin; apply existsb_eqb_in in Hin; congruence|exists rl; auto].
        -- destruct (Hall e He) as [Hn (rl' & Hr & Hm)]. split; [intros Hin; apply Hn; right; auto|exists rl'; auto].
    + destruct (IH seen) as [Hnd Hall]. split; auto. intros e He. destruct (Hall e He) as [Hn (rl' & Hr & Hm)]. split; auto. exists rl'; auto.
Qed.

(* a copy of a call to the driver goes only to a connection holding an eavesdrop='true' rule that matches it, one per connection *)
Theorem driver_call_copies cf st c s x :
  In x (drv_copies cf st c s) ->
  snd x = OCall c s /\ exists rl, In (fst x, rl) (st_rules st) /\ r_eaves rl = true /\ drv_rule_matches st rl c = true.
Proof.
  intros H. split; [eapply drv_copies_in; eauto|]. unfold drv_copies in H. apply in_map_iff in H. destruct H as (e & <- & He).
  apply filter_In in He. destruct He as [He _]. cbn [fst]. unfold drv_eavesdroppers in He.
  destruct (drv_eav_list_spec st (st_rules st) c []) as [_ Hall]. destruct (Hall e He) as [_ (rl & Hr & Hm)].
  exists rl. split; auto. split; auto. unfold drv_rule_matches in Hm. rewrite !andb_true_iff in Hm. tauto.
Qed.

Theorem driver_call_copies_once cf st c s : NoDup (map fst (drv_copies cf st c s)).
Proof.
  unfold drv_copies. rewrite map_map. cbn [fst]. rewrite map_id. apply NoDup_filter.
  destruct (drv_eav_list_spec st (st_rules st) c []) as [Hnd _]. exact Hnd.
Qed.

(* the output of a driver step: the reply to the caller, then only such copies *)
Theorem driver_step_output cf st e c s :
  wf_event st e = true ->
  match e with EReleaseName c' s' _ | EAddMatch c' s' _ | EDriverCall c' s' => c' = c /\ s' = s | _ => False end ->
  exists code st', snd (step cf st e) = [(c, ODrv s code)] ++ drv_copies cf st' c s.
Proof.
  intros W He. unfold step. rewrite W. cbn [negb].
  destruct e as [fds|c0 m|c0|d|c0 s0 n al rp dq|c0 s0 n|c0 s0 rl|c0|c0|c0 s0|c0]; try tauto; destruct He as [-> ->].
  - destruct (release (st_names st) c n) as [nm code]. cbn [snd]. eauto.
  - cbn [snd]. eauto.
  - cbn [snd]. eauto.
Qed.

(* ------------------------------------------------------------------ C09: refusals and the table, every message type *)
(* a message of a type the bus does not know is refused before anything is looked up: AccessDenied (NotSupported if it carries fds
   the recipient cannot take), nothing forwarded, and the state -- in particular the pending-reply table -- is untouched, whatever
   REPLY_SERIAL it carries *)
Theorem unknown_type_changes_nothing cf st c m :
  unknown_type m = true -> resolve st (m_dest m) <> None ->
  fst (dispatch cf st c m) = st /\
  (snd (dispatch cf st c m) = [(c, OErr EAccessDenied (m_serial m))] \/ snd (dispatch cf st c m) = [(c, OErr ENotSupported (m_serial m))]).
Proof.
  intros Hu Hr. unfold dispatch, deliver. destruct (resolve st (m_dest m)) as [r|]; [|congruence].
  destruct ((0 <? m_nfds m) && negb (conn_fds st r)); [cbn [fst snd]; auto|].
  unfold check_security_policy. rewrite Hu. cbn [fst snd]. rewrite set_pend_same. auto.
Qed.

(* every refusal of every message leaves the table as it was -- except the two ways a message can be refused AFTER it consumed a
   slot as a reply (finding F7b): a method call carrying REPLY_SERIAL bounced by the duplicate / limit test, and a reply to a caller
   whose queue is full *)
Theorem refused_leaves_table cf st c m st' o :
  dispatch cf st c m = (st', o) -> (forall x, fwd_to o x = false) ->
  (is_call m = true -> m_rserial m = 0) ->
  (forall r, resolve st (m_dest m) = Some r -> m_rserial m <> 0 -> is_full st r = false) ->
  st_pend st' = st_pend st.
Proof.
  intros D Hf Hc Hq. destruct (N.eq_dec (m_rserial m) 0) as [Z|Z]; [eapply refused_leaves_no_slot; eauto|].
  revert D. unfold dispatch, deliver. destruct (resolve st (m_dest m)) as [r|] eqn:R.
  2:{ pose proof (no_owner_props cf st c m) as NP. destruct (no_owner cf st c m) as [stn on]. cbn [fst snd] in NP.
      destruct NP as (_ & _ & _ & _ & N5 & _). intros H. inversion H; subst. exact N5. }
  destruct ((0 <? m_nfds m) && negb (conn_fds st r)); [intros H; inversion H; auto|].
  assert (Hd : forall pl, (set_pend st pl, fwd_out cf st c r m) = (st', o) -> st_pend st' = st_pend st).
  { intros pl H. inversion H; subst. specialize (Hf r). rewrite fwd_to_single, N.eqb_refl in Hf. discriminate. }
  unfold check_security_policy. destruct (unknown_type m); [intros H; inversion H; auto|].
  assert (Hnc : is_call m = false) by (destruct (is_call m); auto; exfalso; apply Z; auto).
  assert (Hz : (m_rserial m =? 0) = false) by (apply N.eqb_neq; auto). rewrite Hz. rewrite (Hq r eq_refl Z).
  destruct (check_reply (st_pend st) c r (m_rserial m)) as [pl1|].
  - rewrite can_send_true, can_receive_true. cbn [negb].
    unfold is_call in Hnc. destruct (m_type m); try discriminate; apply Hd.
  - destruct (negb (can_send cf m false)); [intros H; inversion H; auto|].
    destruct (negb (can_receive cf m false)); [intros H; inversion H; auto|].
    unfold is_call in Hnc. destruct (m_type m); try discriminate; apply Hd.
Qed.
