(* C17: which faults are reachable.  The C assertions (reply slot empty, reply
   serial matches, not yet completed) can never fail; the only reachable fault
   is the NULL timeout_link of F17.3. *)
From Coq Require Import List NArith Bool Lia ZArith ZifyBool ZifyN ZifyNat.
Import ListNotations.
From DV Require Import PendingCall.Pending Spec.PendingSpec Proofs.PendingSerial Proofs.PendingLemmas Proofs.PendingInv Proofs.PendingRel.
Local Open Scope N_scope.

Lemma find_reply_some q s m q' : find_reply q s = Some (m, q') -> m_rs m = s /\ In m q.
Proof.
  revert m q'; induction q as [|x q IH]; simpl; intros m q' H; [discriminate|].
  destruct (m_rs x =? s) eqn:E.
  - inversion H; subst. apply N.eqb_eq in E. auto.
  - destruct (find_reply q s) as [[y r]|]; [|discriminate]. inversion H; subst. destruct (IH m r eq_refl). auto.
Qed.

Lemma find_reply_none q s : find_reply q s = None -> forall m, In m q -> m_rs m <> s.
Proof.
  induction q as [|x q IH]; simpl; intros H m Hin; [contradiction|].
  destruct (m_rs x =? s) eqn:E; [discriminate|]. destruct (find_reply q s) as [[y r]|]; [discriminate|].
  destruct Hin as [<-|Hin]; [apply N.eqb_neq; auto|apply IH; auto].
Qed.

Lemma find_reply_exists q s m : In m q -> m_rs m = s -> exists x q', find_reply q s = Some (x, q').
Proof.
  intros Hin Hs. destruct (find_reply q s) as [[x q']|] eqn:E; [eauto|].
  exfalso. eapply find_reply_none; eauto.
Qed.

(* the successful branch, spelled out *)
Lemma start_complete_ok st i c x :
  nth_error (calls st) i = Some c -> c_reply c = None -> m_rs x = c_serial c -> c_completed c = false ->
  start_complete st i (Some x) =
  (set_calls st (upd (detach_serial (calls st) (c_serial c)) i (fun c' => unhash (set_started x (c_link c) c'))), [OComplete i x]).
Proof.
  intros Hn Hr Hs Hc. unfold start_complete. rewrite Hn, Hr, Hc. apply N.eqb_eq in Hs. rewrite Hs. simpl.
  rewrite start_calls_eq by exact Hn. reflexivity.
Qed.

Definition f01 (st : state) : Prop := fault st = 0 \/ fault st = 1.

Definition open_at (i : nat) (st : state) : Prop := forall k, nth_error (cores st) i = Some k -> k_completed k = false.

Lemma open_at_call i st c : open_at i st -> nth_error (calls st) i = Some c -> c_completed c = false.
Proof. intros H Hn. apply (H (core_of c)). unfold cores. rewrite nth_error_map, Hn. reflexivity. Qed.

Lemma open_at_quiet i st st' : quiet st st' -> open_at i st -> open_at i st'.
Proof. intros (Hc & _) H k Hk. rewrite Hc in Hk. auto. Qed.

Lemma sc_some_nofault st i x c :
  calls_ok st -> fault st = 0 -> nth_error (calls st) i = Some c -> c_completed c = false -> m_rs x = c_serial c ->
  fault (fst (start_complete st i (Some x))) = 0.
Proof.
  intros Hok Hf Hn Hc Hs. pose proof (Forall_nth_error _ _ _ _ Hok Hn) as (_ & _ & _ & Hr & _).
  rewrite (start_complete_ok st i c x); auto.
Qed.

Lemma sc_none_f01 st i :
  calls_ok st -> fault st = 0 -> open_at i st -> f01 (fst (start_complete st i None)).
Proof.
  intros Hok Hf Ho. unfold start_complete. destruct (nth_error (calls st) i) as [c|] eqn:Hn; [|left; auto].
  pose proof (open_at_call _ _ _ Ho Hn) as Hc. pose proof (Forall_nth_error _ _ _ _ Hok Hn) as (_ & _ & _ & Hr & _).
  destruct (c_link c); [|right; reflexivity]. rewrite (Hr Hc), Hc. simpl. rewrite N.eqb_refl. simpl. left. exact Hf.
Qed.

Lemma f01_status st : f01 st -> f01 (u_status st).
Proof. unfold f01. destruct (quiet_u_status st) as (_ & _ & -> & _). auto. Qed.

Lemma blk_check_f0 st i st' o : calls_ok st -> fault st = 0 -> open_at i st -> blk_check st i = Some (st', o) -> fault st' = 0.
Proof.
  intros Hok Hf Ho. unfold blk_check. destruct (nth_error (calls st) i) as [c|] eqn:Hn; [|discriminate].
  destruct (find_reply (queue st) (c_serial c)) as [[m q']|] eqn:Ef; [|discriminate].
  apply find_reply_some in Ef. destruct Ef as [Hs _].
  pose proof (sc_some_nofault (set_queue st q') i m c Hok Hf Hn (open_at_call _ _ _ Ho Hn) Hs) as H0.
  destruct (start_complete (set_queue st q') i (Some m)) as [s l]. simpl in H0. intros H; inversion H; subst.
  rewrite H0. simpl. destruct (quiet_u_status s) as (_ & _ & -> & _). exact H0.
Qed.

Lemma timeout_complete_f01 st i : calls_ok st -> fault st = 0 -> open_at i st -> f01 (fst (timeout_complete st i)).
Proof.
  intros Hok Hf Ho. unfold timeout_complete. pose proof (sc_none_f01 st i Hok Hf Ho) as H.
  destruct (start_complete st i None) as [s l]. simpl in *. destruct (fault s =? 0); [apply f01_status|]; exact H.
Qed.

Lemma blk_recheck_f01 st i t st' o : calls_ok st -> fault st = 0 -> blk_recheck st i t = inl (st', o) -> f01 st'.
Proof.
  intros Hok Hf. unfold blk_recheck.
  destruct (quiet_u_status st) as (Hc & _ & Hfs & Hoks). set (s1 := u_status st) in *. rewrite <- Hfs in Hf.
  destruct (nth_error (calls s1) i) as [c|] eqn:Hn; [|intros H; inversion H; subst; left; auto].
  destruct (c_completed c) eqn:Hcc; [intros H; inversion H; subst; left; auto|].
  assert (Ho : open_at i s1).
  { intros k Hk. unfold cores in Hk. rewrite nth_error_map, Hn in Hk. inversion Hk; subst. exact Hcc. }
  destruct (blk_check s1 i) as [r|] eqn:E.
  { destruct r as [s l]. intros H; inversion H; subst. left. exact (blk_check_f0 s1 i st' o (Hoks Hok) Hf Ho E). }
  destruct (negb (connected s1)).
  { intros H; inversion H as [H1]. left.
    pose proof (sc_some_nofault s1 i (disconnected_err (c_serial c)) c (Hoks Hok) Hf Hn Hcc eq_refl) as H0. rewrite H1 in H0. exact H0. }
  destruct (negb (disc_link s1)).
  { intros H; inversion H as [H1]. pose proof (timeout_complete_f01 s1 i (Hoks Hok) Hf Ho) as H0. rewrite H1 in H0. exact H0. }
  destruct (negb (c_finite c)); [discriminate|]. destruct (negb t); [discriminate|].
  intros H; inversion H as [H1]. pose proof (timeout_complete_f01 s1 i (Hoks Hok) Hf Ho) as H0. rewrite H1 in H0. exact H0.
Qed.

Lemma quiet_fault st st' : quiet st st' -> fault st' = fault st.
Proof. intros (_ & _ & H & _); exact H. Qed.
Lemma quiet_ok st st' : quiet st st' -> calls_ok st -> calls_ok st'.
Proof. intros (_ & _ & _ & H); exact H. Qed.

Lemma ev_block_f01 st i : calls_ok st -> fault st = 0 -> f01 (fst (ev_block st i)).
Proof.
  intros Hok Hf. unfold ev_block.
  destruct (nth_error (calls st) i) as [c|] eqn:Hn; [|left; auto].
  destruct (c_completed c) eqn:Hcc; [left; auto|].
  assert (Ho : open_at i st).
  { intros k Hk. unfold cores in Hk. rewrite nth_error_map, Hn in Hk. inversion Hk; subst. exact Hcc. }
  pose proof (quiet_u_flush st) as Q0. set (s0 := u_flush st) in *.
  assert (Hf0 : fault s0 = 0) by (rewrite (quiet_fault _ _ Q0); auto).
  destruct (blk_check s0 i) as [[s l]|] eqn:E1.
  { simpl. left. exact (blk_check_f0 s0 i s l (quiet_ok _ _ Q0 Hok) Hf0 (open_at_quiet _ _ _ Q0 Ho) E1). }
  destruct (blk_iter s0 (c_finite c)) as [[st1 t1]|] eqn:E2; [|left; auto].
  pose proof (quiet_blk_iter _ _ _ _ E2) as Q1.
  assert (Hf1 : fault st1 = 0) by (rewrite (quiet_fault _ _ Q1); auto).
  assert (Hok1 : calls_ok st1) by (apply (quiet_ok _ _ Q1), (quiet_ok _ _ Q0); exact Hok).
  destruct (blk_recheck st1 i t1) as [[s l]|st2] eqn:E3.
  { simpl. exact (blk_recheck_f01 st1 i t1 s l Hok1 Hf1 E3). }
  pose proof (quiet_blk_recheck_inr _ _ _ _ E3) as Q2.
  assert (Hf2 : fault st2 = 0) by (rewrite (quiet_fault _ _ Q2); auto).
  destruct (blk_iter st2 (c_finite c)) as [[st3 t2]|] eqn:E4; [|left; auto].
  pose proof (quiet_blk_iter _ _ _ _ E4) as Q3.
  assert (Hf3 : fault st3 = 0) by (rewrite (quiet_fault _ _ Q3); auto).
  assert (Hok3 : calls_ok st3) by (apply (quiet_ok _ _ Q3), (quiet_ok _ _ Q2); exact Hok1).
  destruct (blk_recheck st3 i (t1 || t2)) as [[s l]|st4] eqn:E5.
  { simpl. exact (blk_recheck_f01 st3 i (t1 || t2) s l Hok3 Hf3 E5). }
  simpl. left. rewrite (quiet_fault _ _ (quiet_blk_recheck_inr _ _ _ _ E5)). auto.
Qed.

(* a dispatch never faults *)
Lemma ev_dispatch_f0 st : calls_ok st -> fault st = 0 -> fault (fst (ev_dispatch st)) = 0.
Proof.
  intros Hok Hf. unfold ev_dispatch.
  pose proof (quiet_u_status st) as Q0. set (s1 := u_status st) in *.
  assert (Hf1 : fault s1 = 0) by (rewrite (quiet_fault _ _ Q0); auto).
  destruct (queue s1) as [|m q]; [exact Hf1|].
  pose proof (quiet_set_queue s1 q) as Q2. set (s2 := set_queue s1 q) in *.
  assert (Hf2 : fault s2 = 0) by (rewrite (quiet_fault _ _ Q2); auto).
  assert (Hok2 : calls_ok s2) by eauto using quiet_ok.
  destruct (lookup (calls s2) (m_rs m)) as [i|] eqn:El.
  - apply lookup_some in El. destruct El as [c [Hn [Ht Hs]]].
    pose proof (Forall_nth_error _ _ _ _ Hok2 Hn) as (Hc1 & _). destruct (Hc1 Ht) as [Hcc _].
    pose proof (sc_some_nofault s2 i m c Hok2 Hf2 Hn Hcc (eq_sym Hs)) as H0.
    destruct (start_complete s2 i (Some m)) as [s3 o3]. simpl in H0. rewrite H0. simpl.
    rewrite (quiet_fault _ _ (quiet_u_status s3)). exact H0.
  - rewrite Hf2. simpl. rewrite (quiet_fault _ _ (quiet_u_status s2)). exact Hf2.
Qed.

Theorem step_f01 st e : calls_ok st -> f01 st -> f01 (fst (step st e)).
Proof.
  intros Hok [Hf|Hf].
  2:{ unfold step. rewrite Hf. simpl. right; exact Hf. }
  unfold step. rewrite Hf. simpl.
  destruct e; simpl.
  - left. destruct (ev_send st finite nf) as [s o] eqn:E. unfold ev_send in E. destruct (negb (connected st)); [inversion E; subst; auto|].
    unfold next_serial in E. inversion E; subst. simpl. rewrite (quiet_fault _ _ (quiet_u_status _)). exact Hf.
  - left. unfold ev_plain, next_serial. simpl. rewrite (quiet_fault _ _ (quiet_u_status _)). exact Hf.
  - left. rewrite (quiet_fault _ _ (quiet_ev_peer st k rs tag)). exact Hf.
  - left. destruct (nth_error (calls st) i); simpl; [rewrite (quiet_fault _ _ (quiet_ev_peer _ _ _ _))|]; exact Hf.
  - left. exact Hf.
  - left. unfold ev_read. destruct (connected (u_status st)); [rewrite (quiet_fault _ _ (quiet_u_read _))|]; rewrite (quiet_fault _ _ (quiet_u_status _)); exact Hf.
  - left. unfold ev_watch. destruct (connected st); simpl; [rewrite (quiet_fault _ _ (quiet_u_status _)), (quiet_fault _ _ (quiet_u_read _))|]; exact Hf.
  - left. unfold ev_fire. destruct (nth_error (calls st) i) as [c|]; [destruct (c_tadded c)|]; simpl; auto.
    rewrite (quiet_fault _ _ (quiet_u_status _)). exact Hf.
  - left. unfold ev_cancel. destruct (nth_error (calls st) i); simpl; exact Hf.
  - apply ev_block_f01; auto.
  - left. apply ev_dispatch_f0; auto.
  - left. unfold ev_steal. destruct (nth_error (calls st) i) as [c|]; [destruct (c_completed c)|]; simpl; exact Hf.
  - left. unfold ev_local_close. destruct (connected st); [rewrite (quiet_fault _ _ (quiet_u_status _))|]; exact Hf.
  - left. unfold finish. destruct (nth_error (calls st) i) as [c|]; [destruct (c_inflight c)|]; simpl; exact Hf.
  - left. rewrite (quiet_fault _ _ (quiet_u_status _)). exact Hf.
  - left. rewrite (quiet_fault _ _ (quiet_u_read _)). exact Hf.
  - destruct (nth_error (calls st) i) as [c|] eqn:Hn; [|left; exact Hf].
    destruct (c_completed c) eqn:Hcc; [left; exact Hf|].
    destruct (blk_check st i) as [[s l]|] eqn:E; [|left; exact Hf].
    simpl. left. eapply blk_check_f0; eauto.
    intros k Hk. unfold cores in Hk. rewrite nth_error_map, Hn in Hk. inversion Hk; subst. exact Hcc.
  - destruct (blk_recheck st i timedout) as [[s l]|s2] eqn:E; simpl.
    + eapply blk_recheck_f01; eauto.
    + left. rewrite (quiet_fault _ _ (quiet_blk_recheck_inr _ _ _ _ E)). exact Hf.
Qed.

Theorem fault_only_null_link b h : f01 (fst (run (init_at b) h)).
Proof.
  assert (G : forall h st, calls_ok st -> f01 st -> f01 (fst (run st h))).
  { clear h. induction h as [|e h IH]; intros st Hok Hf; simpl; auto.
    pose proof (step_f01 st e Hok Hf) as H1. destruct (step st e) as [st1 o1] eqn:E. simpl in H1.
    destruct (step_good _ _ _ _ E Hok) as [Hok1 _]. specialize (IH st1 Hok1 H1). destruct (run st1 h). exact IH. }
  apply G; [constructor|left; reflexivity].
Qed.
