(* C13 proofs, part 3: the invariant of the limits model and its preservation
   by every event. *)
From DV Require Import Lib.Base Gen.Tables Wire.Names Registry.RegTypes Registry.Registry
  Spec.NamesSpec Spec.RegistrySpec Proofs.RegistryBase Proofs.RegistryInv Proofs.RegistryMain.
From DV Require Import Limits.Limits Spec.LimitsSpec Proofs.LimitsBase Proofs.LimitsReg.
From Coq Require Import ZifyBool ZifyN ZifyNat.
Local Open Scope N_scope.

(* Bounds on the counts, possibly different for every user / connection.  A step under the limits L keeps
   the counts within B as soon as B is at least L everywhere ([covers]): a count only grows while it is
   below L's limit.  With B constant = L this is the invariant of a run under L; with B = max (count, L) it
   says that a count above its limit (after a reload lowered the limit) cannot grow. *)
Record bounds := mkB { b_comp : N; b_user : N -> N; b_inc : N; b_names : N -> N; b_rules : N -> N; b_pend : N -> N }.

Definition bounds_of (L : limits) : bounds :=
  mkB (max_completed_connections L) (fun _ => max_connections_per_user L) (max_incomplete_connections L)
      (fun _ => max_names_per_connection L) (fun _ => max_match_rules_per_connection L) (fun _ => max_replies_per_connection L).

Record covers (B : bounds) (L : limits) : Prop := mkCov {
  cv_comp : max_completed_connections L <= b_comp B;
  cv_user : forall u, max_connections_per_user L <= b_user B u;
  cv_inc : max_incomplete_connections L <= b_inc B;
  cv_names : forall c, max_names_per_connection L <= b_names B c;
  cv_rules : forall c, max_match_rules_per_connection L <= b_rules B c;
  cv_pend : forall c, max_replies_per_connection L <= b_pend B c
}.

Lemma covers_self L : covers (bounds_of L) L.
Proof. constructor; simpl; intros; lia. Qed.

(* the registry part of a state; its invariant (C04) does not mention the limit *)
Definition reg0 (s : state) : bus := mkBus (s_conns s) (s_services s) (s_next s) 0.

Record ginv (B : bounds) (s : state) : Prop := mkGinv {
  gi_reg : inv (reg0 s);
  gi_ids : cids (s_cdata s) = ids (s_conns s);
  gi_bounded : boundedf (b_names B) (s_conns s);
  gi_ncomp : s_ncomplete s = n_registered s;
  gi_ninc : s_nincomplete s = n_unregistered s;
  gi_user : forall u, get_uid (s_byuser s) u = n_registered_of s u;
  gi_nrules : forall d, In d (s_cdata s) -> d_nrules d = n_rules s (d_id d);
  gi_rules_live : forall e, In e (s_rules s) -> In (fst e) (ids (s_conns s));
  gi_comp_le : s_ncomplete s <= b_comp B;
  gi_inc_le : s_nincomplete s <= b_inc B;
  gi_user_le : forall u, get_uid (s_byuser s) u <= b_user B u;
  gi_rules_le : forall d, In d (s_cdata s) -> d_nrules d <= b_rules B (d_id d);
  gi_pend_le : forall c, n_awaiting s c <= b_pend B c;
  gi_auth : forall c, registered s c = true -> authenticated s c = true
}.

Lemma ginv_inv B L s : ginv B s -> inv (reg L s).
Proof. intros I. exact (inv_relimit _ _ _ _ _ (gi_reg _ _ I)). Qed.

Lemma ginv_nodup B s : ginv B s -> NoDup (ids (s_conns s)).
Proof. intros I. exact (inv_ids _ (gi_reg _ _ I)). Qed.

Lemma ginv_nodup_cd B s : ginv B s -> NoDup (cids (s_cdata s)).
Proof. intros I. rewrite (gi_ids _ _ I). eapply ginv_nodup; eauto. Qed.

(* ---- the counts as functions of shapes and uids ------------------------------------------ *)
Definition uidf (ds : list cdata) (c : N) : N := match find_cd ds c with Some d => d_uid d | None => 0 end.

Lemma n_registered_shapes s : n_registered s = cnt (fun p => snd p) (shapes (s_conns s)).
Proof. unfold n_registered. rewrite <- cnt_shapes. reflexivity. Qed.
Lemma n_unregistered_shapes s : n_unregistered s = cnt (fun p => negb (snd p)) (shapes (s_conns s)).
Proof. unfold n_unregistered. rewrite <- cnt_shapes. reflexivity. Qed.
Lemma n_registered_of_shapes s u :
  n_registered_of s u = cnt (fun p => snd p && (uidf (s_cdata s) (fst p) =? u)) (shapes (s_conns s)).
Proof. unfold n_registered_of. rewrite <- cnt_shapes. reflexivity. Qed.

Definition authf (ds : list cdata) (c : N) : bool := match find_cd ds c with Some d => d_auth d | None => false end.

Lemma registered_shapes s c : registered s c = match find_shape (shapes (s_conns s)) c with Some a => a | None => false end.
Proof. unfold registered. rewrite find_shape_conn. destruct (find_conn (s_conns s) c); reflexivity. Qed.
Lemma connected_shapes s c : connected s c = match find_shape (shapes (s_conns s)) c with Some _ => true | None => false end.
Proof. unfold connected. rewrite find_shape_conn. destruct (find_conn (s_conns s) c); reflexivity. Qed.

Lemma find_conn_app cs x c : find_conn (cs ++ [x]) c = match find_conn cs c with Some y => Some y | None => if c_id x =? c then Some x else None end.
Proof. induction cs as [|y cs IH]; simpl; [reflexivity|]. destruct (c_id y =? c); [reflexivity | exact IH]. Qed.

Lemma find_cd_upd ds c f c' : (forall d, d_id (f d) = d_id d) ->
  find_cd (upd_cd ds c f) c' = option_map (fun d => if d_id d =? c then f d else d) (find_cd ds c').
Proof.
  intros Hf. induction ds as [|y ds IH]; [reflexivity|]. simpl. destruct (d_id y =? c) eqn:E; simpl.
  - rewrite Hf. destruct (d_id y =? c') eqn:E2; simpl; [rewrite E; reflexivity|].
    clear IH. induction ds as [|z ds IH2]; [reflexivity|]. simpl. destruct (d_id z =? c') eqn:E3; simpl.
    + destruct (d_id z =? c) eqn:E4; [|reflexivity]. apply N.eqb_eq in E, E3, E4. apply N.eqb_neq in E2. congruence.
    + exact IH2.
  - destruct (d_id y =? c') eqn:E2; simpl; [rewrite E; reflexivity | exact IH].
Qed.

Lemma find_conn_upd_other cs c f c' : (forall x, c_id (f x) = c_id x) -> c' <> c -> find_conn (upd_conn cs c f) c' = find_conn cs c'.
Proof.
  intros Hf Hne. induction cs as [|y cs IH]; [reflexivity|]. simpl. destruct (c_id y =? c) eqn:E; simpl.
  - rewrite Hf. destruct (c_id y =? c') eqn:E2; [apply N.eqb_eq in E, E2; congruence | reflexivity].
  - destruct (c_id y =? c'); [reflexivity | exact IH].
Qed.

Lemma init_ginv B : ginv B linit.
Proof.
  constructor.
  - apply (inv_relimit _ _ _ 0 0). exact (init_inv 0).
  - reflexivity.
  - intros x [].
  - reflexivity.
  - reflexivity.
  - intros u. reflexivity.
  - intros d [].
  - intros e [].
  - simpl. lia.
  - simpl. lia.
  - intros u. simpl. lia.
  - intros d [].
  - intros c. unfold n_awaiting, nlen. simpl. lia.
  - intros c H. discriminate H.
Qed.

(* ---- shapes lists ------------------------------------------------------------------------------ *)
Lemma fst_del_shape l c : map fst (del_shape l c) = del_id (map fst l) c.
Proof. induction l as [|[i a] l IH]; [reflexivity|]. simpl. destruct (i =? c); simpl; [|rewrite IH]; reflexivity. Qed.

Lemma cnt_del_shape (p : N * bool -> bool) l c a : find_shape l c = Some a ->
  cnt p (del_shape l c) + b2n (p (c, a)) = cnt p l.
Proof.
  induction l as [|[i b] l IH]; simpl; [discriminate|]. destruct (i =? c) eqn:E.
  - intros H. inversion H; subst. apply N.eqb_eq in E. subst. rewrite cnt_cons. reflexivity.
  - intros H. specialize (IH H). rewrite !cnt_cons. lia.
Qed.

Lemma del_shape_in l c x : In x (del_shape l c) -> In x l.
Proof. induction l as [|[i b] l IH]; simpl; [tauto|]. destruct (i =? c); simpl; [auto|]. intros [H|H]; auto. Qed.

Lemma del_shape_ne l c x : NoDup (map fst l) -> In x (del_shape l c) -> fst x <> c.
Proof.
  intros N H E. apply (del_id_notin (map fst l) c N). rewrite <- fst_del_shape. apply in_map_iff. exists x. auto.
Qed.

Lemma find_shape_del l c d : d <> c -> find_shape (del_shape l c) d = find_shape l d.
Proof.
  intros H. induction l as [|[i a] l IH]; [reflexivity|]. simpl. destruct (i =? c) eqn:E.
  - apply N.eqb_eq in E. subst i. destruct (c =? d) eqn:E2; [apply N.eqb_eq in E2; congruence | reflexivity].
  - simpl. destruct (i =? d); [reflexivity | exact IH].
Qed.

Lemma find_shape_del_same l c : NoDup (map fst l) -> find_shape (del_shape l c) c = None.
Proof.
  intros N. destruct (find_shape (del_shape l c) c) eqn:E; [|reflexivity]. exfalso.
  assert (G : forall l', find_shape l' c = Some b -> In c (map fst l')).
  { induction l' as [|[i a] l' IH]; simpl; [discriminate|]. destruct (i =? c) eqn:Ei; [apply N.eqb_eq in Ei; auto | intros H; right; auto]. }
  apply G in E. rewrite fst_del_shape in E. exact (del_id_notin _ _ N E).
Qed.


(* ---- per-connection data ------------------------------------------------------------------------- *)
Lemma upd_cd_map ds c f : (forall d, d_id (f d) = d_id d) -> NoDup (cids ds) ->
  upd_cd ds c f = map (fun d => if d_id d =? c then f d else d) ds.
Proof.
  intros Hf. induction ds as [|y ds IH]; intros N; [reflexivity|]. simpl. inversion N; subst.
  destruct (d_id y =? c) eqn:E.
  - f_equal. apply N.eqb_eq in E. symmetry. rewrite <- (map_id ds) at 2. apply map_ext_in. intros d Hd.
    destruct (d_id d =? c) eqn:E2; [|reflexivity]. apply N.eqb_eq in E2. exfalso. apply H1. unfold cids. apply in_map_iff. exists d. split; [congruence | exact Hd].
  - f_equal. apply IH. assumption.
Qed.

Lemma cids_upd_cd ds c f : (forall d, d_id (f d) = d_id d) -> cids (upd_cd ds c f) = cids ds.
Proof.
  intros Hf. induction ds as [|y ds IH]; [reflexivity|]. simpl. destruct (d_id y =? c); simpl; [rewrite Hf | rewrite IH]; reflexivity.
Qed.

Lemma uidf_upd_cd ds c f c' : (forall d, d_id (f d) = d_id d) -> (forall d, d_uid (f d) = d_uid d) ->
  uidf (upd_cd ds c f) c' = uidf ds c'.
Proof.
  intros Hi Hu. unfold uidf. induction ds as [|y ds IH]; [reflexivity|]. simpl. destruct (d_id y =? c) eqn:E; simpl.
  - rewrite Hi. destruct (d_id y =? c'); [rewrite Hu|]; reflexivity.
  - destruct (d_id y =? c'); [reflexivity | exact IH].
Qed.

Lemma uidf_app_old ds d c : In c (cids ds) -> uidf (ds ++ [d]) c = uidf ds c.
Proof.
  intros H. unfold uidf. rewrite find_cd_app. destruct (find_cd ds c) eqn:E; [reflexivity|].
  apply find_cd_none in E. contradiction.
Qed.

Lemma uidf_del_other ds c c' : c' <> c -> uidf (del_cd ds c) c' = uidf ds c'.
Proof. intros H. unfold uidf. rewrite find_cd_del_other by exact H. reflexivity. Qed.

Lemma del_cd_in ds c d : In d (del_cd ds c) -> In d ds.
Proof. induction ds as [|y ds IH]; simpl; [tauto|]. destruct (d_id y =? c); simpl; [auto|]. intros [H|H]; auto. Qed.

Lemma del_cd_ne ds c d : NoDup (cids ds) -> In d (del_cd ds c) -> d_id d <> c.
Proof.
  intros N H E. apply (del_id_notin (cids ds) c N). rewrite <- cids_del_cd. unfold cids. apply in_map_iff. exists d. auto.
Qed.

(* ---- pending replies ----------------------------------------------------------------------------------- *)
Lemma expect_scan_count l g sd s acc n : expect_scan l g sd s acc = Some n -> n = acc + cnt (fun p => p_get p =? g) l.
Proof.
  revert acc. induction l as [|p l IH]; intros acc; simpl.
  - intros H; inversion H. rewrite cnt_nil. lia.
  - destruct (pend_match g sd s p); [discriminate|]. intros H. apply IH in H. rewrite cnt_cons. unfold b2n.
    destruct (p_get p =? g); lia.
Qed.

Lemma check_reply_cnt (q : pend -> bool) l g sd s : cnt q (check_reply l g sd s) <= cnt q l.
Proof.
  induction l as [|p l IH]; simpl; [lia|]. destruct (pend_match g sd s p); rewrite !cnt_cons; unfold b2n; destruct (q p); lia.
Qed.

Lemma drop_pending_cnt (q : pend -> bool) l c : cnt q (fst (drop_pending l c)) <= cnt q l.
Proof.
  induction l as [|p l IH]; simpl; [lia|]. destruct (drop_pending l c) as [r o]. simpl in IH.
  destruct (p_get p =? c); [|destruct (p_send p =? c)]; simpl; rewrite ?cnt_cons; unfold b2n; destruct (q p); lia.
Qed.

Lemma expire_one_cnt (q : pend -> bool) l g s pl : expire_one l g s = Some pl -> cnt q pl <= cnt q l.
Proof.
  revert pl. induction l as [|p l IH]; intros pl; simpl; [discriminate|].
  destruct (expire_one l g s) as [r|].
  - intros H; inversion H; subst. specialize (IH r eq_refl). rewrite !cnt_cons. lia.
  - destruct ((p_get p =? g) && (p_serial p =? s)); [|discriminate]. intros H; inversion H; subst. rewrite cnt_cons. lia.
Qed.

(* ---- match rules ------------------------------------------------------------------------------------------- *)
Lemma remove_rule_cnt l c r rl c' : remove_rule l c r = Some rl ->
  cnt (fun e => fst e =? c') rl + b2n (c =? c') = cnt (fun e => fst e =? c') l.
Proof.
  revert rl. induction l as [|e l IH]; intros rl; simpl; [discriminate|].
  destruct (rule_is c r e) eqn:E.
  - intros H; inversion H; subst. rewrite cnt_cons. unfold rule_is in E. apply andb_true_iff in E. destruct E as [E _].
    apply N.eqb_eq in E. rewrite E. reflexivity.
  - destruct (remove_rule l c r) as [x|]; [|discriminate]. intros H; inversion H; subst. specialize (IH x eq_refl).
    rewrite !cnt_cons. lia.
Qed.

Lemma remove_rule_in l c r rl e : remove_rule l c r = Some rl -> In e rl -> In e l.
Proof.
  revert rl. induction l as [|y l IH]; intros rl; simpl; [discriminate|].
  destruct (rule_is c r y).
  - intros H; inversion H; subst. auto.
  - destruct (remove_rule l c r) as [x|]; [|discriminate]. intros H; inversion H; subst. intros [<-|Hi]; [auto|]. right. eapply IH; eauto.
Qed.

(* ---- states that differ in the pending list only ---------------------------------------------------------- *)
Lemma ginv_with_pending B s pl : ginv B s ->
  (forall c, cnt (fun p => p_get p =? c) pl <= b_pend B c) -> ginv B (with_pending s pl).
Proof. intros I H. destruct I. constructor; try assumption. Qed.

(* ---- registry events ------------------------------------------------------------------------------------------ *)
Lemma ginv_same_shapes B s b :
  ginv B s -> inv b -> shapes (b_conns b) = shapes (s_conns s) ->
  boundedf (b_names B) (b_conns b) -> ginv B (with_reg s b).
Proof.
  intros I Rb S Bd.
  constructor; simpl.
  - unfold reg0. simpl. destruct b as [cs ss n l]. simpl. exact (inv_relimit _ _ _ _ _ Rb).
  - rewrite (gi_ids _ _ I). symmetry. apply shapes_ids. exact S.
  - exact Bd.
  - rewrite (gi_ncomp _ _ I), !n_registered_shapes. simpl. rewrite S. reflexivity.
  - rewrite (gi_ninc _ _ I), !n_unregistered_shapes. simpl. rewrite S. reflexivity.
  - intros u. rewrite (gi_user _ _ I), !n_registered_of_shapes. simpl. rewrite S. reflexivity.
  - exact (gi_nrules _ _ I).
  - intros e He. rewrite (shapes_ids _ _ S). exact (gi_rules_live _ _ I e He).
  - exact (gi_comp_le _ _ I).
  - exact (gi_inc_le _ _ I).
  - exact (gi_user_le _ _ I).
  - exact (gi_rules_le _ _ I).
  - exact (gi_pend_le _ _ I).
  - intros c Hc. rewrite registered_shapes in Hc. simpl in Hc. rewrite S in Hc. rewrite <- registered_shapes in Hc. exact (gi_auth _ _ I c Hc).
Qed.

Lemma via_registry_ginv B L s c e :
  covers B L ->
  (exists name flags, e = EvRequest c name flags) \/ (exists name, e = EvRelease c name) ->
  ginv B s -> ginv B (fst (via_registry L s c e)).
Proof.
  intros Cv He I. unfold via_registry. destruct (step (reg L s) e) as [b' ro] eqn:Es.
  destruct (existsb is_fault ro); [exact I|]. simpl.
  assert (Rb : inv b').
  { replace b' with (fst (step (reg L s) e)) by (rewrite Es; reflexivity). apply inv_step. exact (ginv_inv B L s I). }
  assert (Bd : boundedf (b_names B) (b_conns (reg L s))) by exact (gi_bounded _ _ I).
  destruct He as [[name [flags ->]]|[name ->]].
  - destruct (step_request_conns (reg L s) c name flags (b_names B) (cv_names _ _ Cv) Bd) as [S [Bd' _]]. rewrite Es in S, Bd'. simpl in S, Bd'.
    apply ginv_same_shapes; assumption.
  - destruct (step_release_conns (reg L s) c name (b_names B) Bd) as [S [Bd' _]]. rewrite Es in S, Bd'. simpl in S, Bd'.
    apply ginv_same_shapes; assumption.
Qed.

(* ---- Connect ----------------------------------------------------------------------------------------------------- *)
Lemma fresh_next B s : ginv B s -> ~ In (s_next s) (ids (s_conns s)).
Proof.
  intros I H. unfold ids in H. apply in_map_iff in H. destruct H as [x [E Hx]].
  pose proof (inv_next _ (gi_reg _ _ I) x Hx) as Hn. simpl in Hn. lia.
Qed.

Lemma ids_app cs x : ids (cs ++ [x]) = ids cs ++ [c_id x].
Proof. unfold ids. rewrite map_app. reflexivity. Qed.

Lemma nlen_filter_snoc {A} (p : A -> bool) l x : nlen (filter p (l ++ [x])) = nlen (filter p l) + b2n (p x).
Proof. change (cnt p (l ++ [x]) = cnt p l + b2n (p x)). rewrite cnt_app. unfold cnt at 2. simpl. destruct (p x); reflexivity. Qed.

Lemma nlen_filter_ext {A} (p q : A -> bool) l : (forall x, In x l -> p x = q x) -> nlen (filter p l) = nlen (filter q l).
Proof. exact (cnt_ext p q l). Qed.

Lemma connect_ginv B L s uid : covers B L -> ginv B s -> ginv B (fst (lstep L s (Connect uid))).
Proof.
  intros Cv I. cbn [lstep]. destruct (negb (s_watches s)); [exact I|].
  destruct (max_incomplete_connections L <? s_nincomplete s + 1) eqn:E; [exact I|]. apply N.ltb_ge in E.
  cbn [step reg b_conns b_services b_next b_limit fst].
  pose proof (fresh_next B s I) as Hfresh.
  set (new := mkConn (s_next s) false false []).
  assert (Huid : forall x, In x (s_conns s) -> uidf (s_cdata s ++ [mkCd (s_next s) uid 0 false (loader_max L)]) (c_id x) = uidf (s_cdata s) (c_id x)).
  { intros x Hx. apply uidf_app_old. rewrite (gi_ids _ _ I). unfold ids. apply in_map. exact Hx. }
  constructor; cbn [s_conns s_services s_next s_cdata s_rules s_pending s_ncomplete s_nincomplete s_byuser].
  - pose proof (inv_step (reg0 s) EvConnect (gi_reg _ _ I)) as H. exact H.
  - unfold cids. rewrite map_app, ids_app. simpl. fold (cids (s_cdata s)). rewrite (gi_ids _ _ I). reflexivity.
  - intros x Hx. apply in_app_or in Hx. destruct Hx as [Hx|[<-|[]]]; [exact (gi_bounded _ _ I x Hx)|]. simpl. unfold nlen. simpl. lia.
  - rewrite (gi_ncomp _ _ I). unfold n_registered. cbn [s_conns]. rewrite nlen_filter_snoc. simpl. lia.
  - rewrite (gi_ninc _ _ I). unfold n_unregistered. cbn [s_conns]. rewrite nlen_filter_snoc. simpl. lia.
  - intros u. rewrite (gi_user _ _ I). unfold n_registered_of, uid_of. cbn [s_conns s_cdata].
    rewrite nlen_filter_snoc. simpl. rewrite N.add_0_r. apply nlen_filter_ext. intros x Hx.
    pose proof (Huid x Hx) as Hu. unfold uidf in Hu. rewrite Hu. reflexivity.
  - intros d Hd. apply in_app_or in Hd. unfold n_rules. cbn [s_rules]. destruct Hd as [Hd|[<-|[]]]; [exact (gi_nrules _ _ I d Hd)|].
    simpl. symmetry. apply (cnt_zero (fun e => fst e =? s_next s) (s_rules s)). intros e He.
    apply N.eqb_neq. intros Eq. apply Hfresh. rewrite <- Eq. exact (gi_rules_live _ _ I e He).
  - intros e He. rewrite ids_app. apply in_or_app. left. exact (gi_rules_live _ _ I e He).
  - exact (gi_comp_le _ _ I).
  - pose proof (cv_inc _ _ Cv). lia.
  - exact (gi_user_le _ _ I).
  - intros d Hd. apply in_app_or in Hd. destruct Hd as [Hd|[<-|[]]]; [exact (gi_rules_le _ _ I d Hd)|]. simpl. lia.
  - exact (gi_pend_le _ _ I).
  - intros c. unfold registered, authenticated. cbn [s_conns s_cdata]. rewrite find_conn_app, find_cd_app.
    pose proof (gi_auth _ _ I c) as A. unfold registered, authenticated in A.
    destruct (find_conn (s_conns s) c) as [x|] eqn:Hf.
    + intros Hx. specialize (A Hx). destruct (find_cd (s_cdata s) c); [exact A | discriminate A].
    + unfold new. simpl. destruct (s_next s =? c); discriminate.
Qed.

(* ---- Hello ----------------------------------------------------------------------------------------------------------- *)
Lemma ids_upd_conn cs c f : (forall x, c_id (f x) = c_id x) -> ids (upd_conn cs c f) = ids cs.
Proof.
  intros H. induction cs as [|x cs IH]; [reflexivity|]. simpl. destruct (c_id x =? c); simpl; [rewrite H | rewrite IH]; reflexivity.
Qed.

Lemma hello_ginv B L s c : covers B L -> 1 <= max_names_per_connection L -> ginv B s -> ginv B (fst (lstep L s (Hello c))).
Proof.
  intros Cv Hpos I. cbn [lstep].
  destruct (find_conn (s_conns s) c) as [cn|] eqn:Hf; [|exact I].
  destruct (find_cd (s_cdata s) c) as [d|] eqn:Hd; [|exact I].
  destruct (d_auth d) eqn:Hau; cbn [negb]; [|exact I].
  destruct (c_active cn) eqn:Ha; [exact I|].
  destruct (max_completed_connections L <=? s_ncomplete s) eqn:E1; [exact I|]. apply N.leb_gt in E1.
  destruct (max_connections_per_user L <=? get_uid (s_byuser s) (d_uid d)) eqn:E2; [exact I|]. apply N.leb_gt in E2.
  destruct (step (reg L s) (EvHello c)) as [b' ro] eqn:Es.
  destruct (existsb is_fault ro) eqn:Ef; [exact I|].
  destruct (step_hello _ _ _ _ Es Ef) as [cn' [Hf' [[Ha' _]|[_ [Hc Hn]]]]]; simpl in Hf'; rewrite Hf in Hf'; inversion Hf'; subst cn'.
  { rewrite Ha in Ha'. discriminate. }
  simpl in Hc, Hn. cbn [fst].
  set (act := fun x : conn => mkConn (c_id x) true (c_match x) (c_owned x ++ [KU c])) in *.
  assert (Hcid : c_id cn = c) by (apply find_conn_in in Hf; tauto).
  assert (Hown : c_owned cn = []).
  { pose proof (inv_active _ (ginv_inv B L s I) cn) as X. simpl in X. apply find_conn_in in Hf. specialize (X (proj1 Hf)). rewrite Ha in X. exact X. }
  assert (Huidc : uidf (s_cdata s) c = d_uid d) by (unfold uidf; rewrite Hd; reflexivity).
  pose proof (cnt_upd_conn c_active (s_conns s) c act cn Hf) as X1.
  pose proof (cnt_upd_conn (fun x => negb (c_active x)) (s_conns s) c act cn Hf) as X2.
  unfold cnt in X1, X2. simpl in X1, X2. rewrite Ha in X1, X2. simpl in X1, X2.
  constructor; cbn [s_conns s_services s_next s_cdata s_rules s_pending s_ncomplete s_nincomplete s_byuser].
  - assert (Ib : inv b').
    { replace b' with (fst (step (reg L s) (EvHello c))) by (rewrite Es; reflexivity). apply inv_step. exact (ginv_inv B L s I). }
    rewrite <- (bus_eta b') in Ib. exact (inv_relimit _ _ _ _ _ Ib).
  - rewrite Hc, ids_upd_conn by reflexivity. exact (gi_ids _ _ I).
  - rewrite Hc. intros y Hy. apply upd_conn_in in Hy. destruct Hy as [Hy|[x [Hx ->]]]; [exact (gi_bounded _ _ I y Hy)|].
    rewrite Hf in Hx. inversion Hx; subst x. simpl. rewrite Hown. unfold nlen. simpl. pose proof (cv_names _ _ Cv (c_id cn)). lia.
  - rewrite (gi_ncomp _ _ I). unfold n_registered. cbn [s_conns]. rewrite Hc. lia.
  - rewrite (gi_ninc _ _ I). unfold n_unregistered. cbn [s_conns]. rewrite Hc. lia.
  - intros u. rewrite get_set_uid. unfold n_registered_of, uid_of. cbn [s_conns s_cdata]. rewrite Hc.
    pose proof (cnt_upd_conn (fun x => c_active x && (uidf (s_cdata s) (c_id x) =? u)) (s_conns s) c act cn Hf) as X3.
    unfold cnt, uidf in X3. simpl in X3. rewrite Ha, Hcid in X3. simpl in X3. unfold uidf in Huidc. rewrite Huidc in X3.
    destruct (u =? d_uid d) eqn:Eu.
    + apply N.eqb_eq in Eu. subst u. rewrite (gi_user _ _ I (d_uid d)). unfold n_registered_of, uid_of. rewrite N.eqb_refl in X3. simpl in X3. lia.
    + rewrite (gi_user _ _ I u). unfold n_registered_of, uid_of. rewrite N.eqb_sym in Eu. rewrite Eu in X3. simpl in X3. lia.
  - exact (gi_nrules _ _ I).
  - intros e He. rewrite Hc, ids_upd_conn by reflexivity. exact (gi_rules_live _ _ I e He).
  - pose proof (cv_comp _ _ Cv). lia.
  - pose proof (gi_inc_le _ _ I). lia.
  - intros u. rewrite get_set_uid. destruct (u =? d_uid d) eqn:Eu; [|exact (gi_user_le _ _ I u)].
    apply N.eqb_eq in Eu. subst u. pose proof (cv_user _ _ Cv (d_uid d)). lia.
  - exact (gi_rules_le _ _ I).
  - exact (gi_pend_le _ _ I).
  - intros c'. unfold registered, authenticated. cbn [s_conns s_cdata]. rewrite Hc.
    destruct (N.eq_dec c' c) as [->|Hne].
    + intros _. rewrite Hd. exact Hau.
    + rewrite find_conn_upd_other by (auto; reflexivity). exact (gi_auth _ _ I c').
Qed.

(* ---- disconnection (by the client or by the bus) ------------------------------------------------------------------------ *)
Lemma disconnect_ginv B L s c byb : ginv B s -> ginv B (fst (disconnect L s c byb)).
Proof.
  intros I. unfold disconnect.
  destruct (find_conn (s_conns s) c) as [cn|] eqn:Hf; [|exact I].
  destruct (find_cd (s_cdata s) c) as [d|] eqn:Hd; [|exact I].
  destruct (step (reg L s) (EvDisconnect c)) as [b' ro] eqn:Es.
  destruct (existsb is_fault ro) eqn:Ef; [exact I|].
  destruct (drop_pending (s_pending s) c) as [pl po] eqn:Ep. cbn [fst].
  destruct (step_disconnect _ _ _ _ (b_names B) Es Ef) as [cn' [Hf' [S [Hn Bd]]]].
  simpl in Hf', S, Hn, Bd. rewrite Hf in Hf'. inversion Hf'; subst cn'. clear Hf'.
  pose proof (ginv_nodup B s I) as Nd. pose proof (ginv_nodup_cd B s I) as Ndc.
  assert (Nds : NoDup (map fst (shapes (s_conns s)))) by (rewrite <- ids_shapes; exact Nd).
  assert (Hfs : find_shape (shapes (s_conns s)) c = Some (c_active cn)) by (rewrite find_shape_conn, Hf; reflexivity).
  assert (Huidc : uidf (s_cdata s) c = d_uid d) by (unfold uidf; rewrite Hd; reflexivity).
  assert (Hids : ids (b_conns b') = del_id (ids (s_conns s)) c).
  { rewrite !ids_shapes, S. apply fst_del_shape. }
  pose proof (cnt_del_shape (fun p => snd p) _ _ _ Hfs) as X1.
  pose proof (cnt_del_shape (fun p => negb (snd p)) _ _ _ Hfs) as X2. cbn [snd] in X1, X2.
  pose proof (gi_ncomp _ _ I) as C1. pose proof (gi_ninc _ _ I) as C2. rewrite n_registered_shapes in C1. rewrite n_unregistered_shapes in C2.
  constructor; cbn [s_conns s_services s_next s_cdata s_rules s_pending s_ncomplete s_nincomplete s_byuser].
  - assert (Ib : inv b').
    { replace b' with (fst (step (reg L s) (EvDisconnect c))) by (rewrite Es; reflexivity). apply inv_step. exact (ginv_inv B L s I). }
    rewrite <- (bus_eta b') in Ib. exact (inv_relimit _ _ _ _ _ Ib).
  - rewrite cids_del_cd, Hids, (gi_ids _ _ I). reflexivity.
  - apply Bd. exact (gi_bounded _ _ I).
  - rewrite n_registered_shapes. cbn [s_conns]. rewrite S. destruct (c_active cn); simpl in X1; lia.
  - rewrite n_unregistered_shapes. cbn [s_conns]. rewrite S. destruct (c_active cn); simpl in X2; lia.
  - intros u. rewrite n_registered_of_shapes. cbn [s_conns s_cdata]. rewrite S.
    rewrite (cnt_ext _ (fun p => snd p && (uidf (s_cdata s) (fst p) =? u)) (del_shape (shapes (s_conns s)) c)).
    2:{ intros p Hp. rewrite uidf_del_other; [reflexivity|]. eapply del_shape_ne; eauto. }
    pose proof (cnt_del_shape (fun p => snd p && (uidf (s_cdata s) (fst p) =? u)) _ _ _ Hfs) as X3. cbn [fst snd] in X3. rewrite Huidc in X3.
    pose proof (gi_user _ _ I u) as C3. rewrite n_registered_of_shapes in C3.
    destruct (c_active cn); simpl in X3.
    + rewrite get_set_uid. destruct (u =? d_uid d) eqn:Eu.
      * apply N.eqb_eq in Eu. subst u. rewrite N.eqb_refl in X3. simpl in X3. lia.
      * rewrite N.eqb_sym in Eu. rewrite Eu in X3. simpl in X3. lia.
    + lia.
  - intros x Hx. pose proof (del_cd_ne _ _ _ Ndc Hx) as Hne. apply del_cd_in in Hx. rewrite (gi_nrules _ _ I x Hx).
    unfold n_rules. cbn [s_rules]. symmetry.
    apply (cnt_filter_other (fun e => fst e =? d_id x) (fun e => negb (fst e =? c)) (s_rules s)).
    intros e He. apply N.eqb_eq in He. rewrite He. apply negb_true_iff. apply N.eqb_neq. exact Hne.
  - intros e He. apply filter_In in He. destruct He as [He Hne]. rewrite Hids. apply del_id_other.
    + apply negb_true_iff in Hne. apply N.eqb_neq in Hne. exact Hne.
    + exact (gi_rules_live _ _ I e He).
  - pose proof (gi_comp_le _ _ I). destruct (c_active cn); lia.
  - pose proof (gi_inc_le _ _ I). destruct (c_active cn); lia.
  - intros u. pose proof (gi_user_le _ _ I u). destruct (c_active cn); [|assumption]. rewrite get_set_uid.
    destruct (u =? d_uid d) eqn:Eu; [|assumption]. apply N.eqb_eq in Eu. subst u. lia.
  - intros x Hx. apply del_cd_in in Hx. exact (gi_rules_le _ _ I x Hx).
  - intros g. unfold n_awaiting. cbn [s_pending]. pose proof (drop_pending_cnt (fun p => p_get p =? g) (s_pending s) c) as X.
    rewrite Ep in X. simpl in X. unfold cnt in X. pose proof (gi_pend_le _ _ I g) as Y. unfold n_awaiting in Y. lia.
  - intros c'. rewrite registered_shapes. cbn [s_conns]. rewrite S. unfold authenticated. cbn [s_cdata].
    destruct (N.eq_dec c' c) as [->|Hne].
    + rewrite find_shape_del_same by exact Nds. discriminate.
    + rewrite find_shape_del by exact Hne. rewrite find_cd_del_other by exact Hne. rewrite <- registered_shapes. exact (gi_auth _ _ I c').
Qed.

(* ---- AddMatch / RemoveMatch ------------------------------------------------------------------------------------------------ *)
Lemma ginv_with_rules B s ds rl :
  ginv B s -> cids ds = cids (s_cdata s) -> (forall c, uidf ds c = uidf (s_cdata s) c) ->
  (forall d, In d ds -> d_nrules d = cnt (fun e => fst e =? d_id d) rl /\ d_nrules d <= b_rules B (d_id d)) ->
  (forall e, In e rl -> In (fst e) (ids (s_conns s))) ->
  (forall c, authf (s_cdata s) c = true -> authf ds c = true) ->
  ginv B (with_rules s ds rl).
Proof.
  intros I Hc Hu Hr Hl Hau. destruct I. constructor; cbn [with_rules s_conns s_services s_next s_cdata s_rules s_pending s_ncomplete s_nincomplete s_byuser]; try assumption.
  - rewrite Hc. assumption.
  - intros u. rewrite gi_user0. unfold n_registered_of, uid_of. cbn [with_rules s_conns s_cdata]. apply nlen_filter_ext. intros x _.
    pose proof (Hu (c_id x)) as E. unfold uidf in E. rewrite E. reflexivity.
  - intros d Hd. exact (proj1 (Hr d Hd)).
  - intros d Hd. exact (proj2 (Hr d Hd)).
  - intros c Hc'. apply (Hau c). exact (gi_auth0 c Hc').
Qed.

Lemma authf_upd_same ds c f c' : (forall d, d_id (f d) = d_id d) -> (forall d, d_auth d = true -> d_auth (f d) = true) ->
  authf ds c' = true -> authf (upd_cd ds c f) c' = true.
Proof.
  intros Hi Ha. unfold authf. rewrite find_cd_upd by exact Hi. destruct (find_cd ds c') as [d|]; simpl; [|discriminate].
  destruct (d_id d =? c); auto.
Qed.

Lemma addmatch_ginv B L s c r : covers B L -> ginv B s -> ginv B (fst (lstep L s (AddMatch c r))).
Proof.
  intros Cv I. cbn [lstep].
  destruct (find_conn (s_conns s) c) as [cn|] eqn:Hf; [|exact I].
  destruct (find_cd (s_cdata s) c) as [d|] eqn:Hd; [|exact I].
  destruct (negb (c_active cn)); [exact I|].
  destruct (max_match_rules_per_connection L <=? d_nrules d) eqn:E; [exact I|]. apply N.leb_gt in E.
  destruct r as [r|]; [|exact I]. cbn [fst].
  pose proof (ginv_nodup_cd B s I) as Ndc.
  set (f := fun x : cdata => mkCd (d_id x) (d_uid x) (d_nrules x + 1) (d_auth x) (d_maxmsg x)).
  assert (Hdid : d_id d = c) by (apply find_cd_in in Hd; tauto).
  apply ginv_with_rules; [exact I | apply cids_upd_cd; reflexivity | intros c'; apply uidf_upd_cd; reflexivity | | | intros c'; apply authf_upd_same; auto].
  - intros y Hy. rewrite (upd_cd_map _ _ f) in Hy by (auto; reflexivity). apply in_map_iff in Hy. destruct Hy as [x [<- Hx]].
    rewrite cnt_cons. cbn [fst]. pose proof (gi_nrules _ _ I x Hx) as Hn. unfold n_rules in Hn. fold (cnt (fun e => fst e =? d_id x) (s_rules s)) in Hn.
    pose proof (gi_rules_le _ _ I x Hx) as Hle.
    destruct (d_id x =? c) eqn:Ex.
    + apply N.eqb_eq in Ex. assert (x = d).
      { destruct (find_cd_in _ _ _ Hd) as [Hin _]. clear - Ndc Hx Hin Ex Hdid.
        assert (G : forall (l : list cdata) a b, NoDup (cids l) -> In a l -> In b l -> d_id a = d_id b -> a = b).
        { induction l as [|y l IH]; intros a b N Ha Hb Eq; [destruct Ha|]. inversion N; subst. destruct Ha as [->|Ha], Hb as [->|Hb]; auto.
          - exfalso. apply H1. unfold cids. apply in_map_iff. exists b. auto.
          - exfalso. apply H1. unfold cids. apply in_map_iff. exists a. auto. }
        apply (G (s_cdata s)); auto. congruence. }
      subst x. unfold f. simpl. rewrite Hdid, N.eqb_refl. simpl. rewrite Hdid in Hn. pose proof (cv_rules _ _ Cv c). split; lia.
    + simpl. rewrite N.eqb_sym, Ex. simpl. split; lia.
  - intros e [<-|He]; [|exact (gi_rules_live _ _ I e He)]. simpl. apply find_conn_in in Hf. destruct Hf as [Hin <-]. unfold ids. apply in_map. exact Hin.
Qed.

Lemma nodup_cd_eq (l : list cdata) a b : NoDup (cids l) -> In a l -> In b l -> d_id a = d_id b -> a = b.
Proof.
  induction l as [|y l IH]; intros N Ha Hb Eq; [destruct Ha|]. inversion N; subst. destruct Ha as [->|Ha], Hb as [->|Hb]; auto.
  - exfalso. apply H1. unfold cids. apply in_map_iff. exists b. auto.
  - exfalso. apply H1. unfold cids. apply in_map_iff. exists a. auto.
Qed.

Lemma removematch_ginv B L s c r : ginv B s -> ginv B (fst (lstep L s (RemoveMatch c r))).
Proof.
  intros I. cbn [lstep].
  destruct (find_conn (s_conns s) c) as [cn|] eqn:Hf; [|exact I].
  destruct (find_cd (s_cdata s) c) as [d|] eqn:Hd; [|exact I].
  destruct (negb (c_active cn)); [exact I|].
  destruct r as [r|]; [|exact I].
  destruct (remove_rule (s_rules s) c r) as [rl|] eqn:Er; [|exact I]. cbn [fst].
  pose proof (ginv_nodup_cd B s I) as Ndc.
  set (f := fun x : cdata => mkCd (d_id x) (d_uid x) (d_nrules x - 1) (d_auth x) (d_maxmsg x)).
  assert (Hdid : d_id d = c) by (apply find_cd_in in Hd; tauto).
  apply ginv_with_rules; [exact I | apply cids_upd_cd; reflexivity | intros c'; apply uidf_upd_cd; reflexivity | | | intros c'; apply authf_upd_same; auto].
  - intros y Hy. rewrite (upd_cd_map _ _ f) in Hy by (auto; reflexivity). apply in_map_iff in Hy. destruct Hy as [x [<- Hx]].
    pose proof (gi_nrules _ _ I x Hx) as Hn. unfold n_rules in Hn. fold (cnt (fun e => fst e =? d_id x) (s_rules s)) in Hn.
    pose proof (gi_rules_le _ _ I x Hx) as Hle.
    pose proof (remove_rule_cnt _ _ _ _ (d_id x) Er) as Hc.
    destruct (d_id x =? c) eqn:Ex.
    + apply N.eqb_eq in Ex. unfold f. simpl. rewrite N.eqb_sym in Hc. rewrite <- Ex, N.eqb_refl in Hc. simpl in Hc. split; lia.
    + rewrite N.eqb_sym, Ex in Hc. simpl in Hc. split; lia.
  - intros e He. apply (gi_rules_live _ _ I e). eapply remove_rule_in; eauto.
Qed.

(* ---- the whole step -------------------------------------------------------------------------------------------------------------- *)
Theorem lstep_ginv B L s e : covers B L -> 1 <= max_names_per_connection L -> ginv B s -> ginv B (fst (lstep L s e)).
Proof.
  intros Cv Hpos I. destruct e.
  - apply connect_ginv; assumption.
  - cbn [lstep]. destruct (find_cd (s_cdata s) c) as [d|] eqn:Hd; [|exact I]. destruct (d_auth d); [exact I|]. cbn [fst].
    pose proof (ginv_nodup_cd B s I) as Ndc.
    set (f := fun x : cdata => mkCd (d_id x) (d_uid x) (d_nrules x) true (d_maxmsg x)).
    apply ginv_with_rules; [exact I | apply cids_upd_cd; reflexivity | intros c'; apply uidf_upd_cd; reflexivity | | exact (gi_rules_live _ _ I) | intros c'; apply authf_upd_same; auto].
    intros y Hy. rewrite (upd_cd_map _ _ f) in Hy by (auto; reflexivity). apply in_map_iff in Hy. destruct Hy as [x [<- Hx]].
    pose proof (gi_nrules _ _ I x Hx) as Hn. unfold n_rules in Hn. pose proof (gi_rules_le _ _ I x Hx) as Hle.
    destruct (d_id x =? c); unfold cnt; simpl; split; assumption.
  - apply hello_ginv; assumption.
  - apply disconnect_ginv; assumption.
  - apply via_registry_ginv; [assumption | left; eauto | assumption].
  - apply via_registry_ginv; [assumption | right; eauto | assumption].
  - apply addmatch_ginv; assumption.
  - apply removematch_ginv; assumption.
  - cbn [lstep]. destruct (find_conn (s_conns s) c) as [cn|]; [|exact I].
    destruct (negb (c_active cn)); [apply disconnect_ginv; exact I|].
    destruct (negb (is_active s d)); [exact I|].
    set (pl := if rserial =? 0 then s_pending s else check_reply (s_pending s) d c rserial).
    assert (Hpl : forall g, cnt (fun p => p_get p =? g) pl <= b_pend B g).
    { intros g. pose proof (gi_pend_le _ _ I g) as Y. unfold n_awaiting in Y. unfold pl. destruct (rserial =? 0); [exact Y|].
      pose proof (check_reply_cnt (fun p => p_get p =? g) (s_pending s) d c rserial). unfold cnt in *. lia. }
    destruct noreply; [cbn [fst]; apply ginv_with_pending; assumption|].
    destruct (expect_scan pl c d serial 0) as [count|] eqn:Ex; [|cbn [fst]; apply ginv_with_pending; assumption].
    destruct (max_replies_per_connection L <=? count) eqn:El; [cbn [fst]; apply ginv_with_pending; assumption|]. apply N.leb_gt in El. cbn [fst].
    apply ginv_with_pending; [exact I|]. intros g. rewrite cnt_cons. cbn [p_get].
    apply expect_scan_count in Ex. specialize (Hpl g).
    destruct (c =? g) eqn:Ec; simpl; [|lia]. apply N.eqb_eq in Ec. subst g. pose proof (cv_pend _ _ Cv c). lia.
  - cbn [lstep]. destruct (find_conn (s_conns s) d) as [dn|]; [|exact I].
    destruct (negb (c_active dn)); [apply disconnect_ginv; exact I|].
    destruct (negb (is_active s c)); [exact I|]. cbn [fst].
    apply ginv_with_pending; [exact I|]. intros g.
    pose proof (check_reply_cnt (fun p => p_get p =? g) (s_pending s) c d serial). pose proof (gi_pend_le _ _ I g) as Y. unfold n_awaiting in Y. unfold cnt in *. lia.
  - cbn [lstep]. destruct (expire_one (s_pending s) c serial) as [pl|] eqn:Ex; [|exact I]. cbn [fst].
    apply ginv_with_pending; [exact I|]. intros g.
    pose proof (expire_one_cnt (fun p => p_get p =? g) _ _ _ _ Ex). pose proof (gi_pend_le _ _ I g) as Y. unfold n_awaiting in Y. unfold cnt in *. lia.
  - cbn [lstep]. destruct (find_conn (s_conns s) c) as [cn|]; [|exact I].
    destruct (negb (c_active cn)); [apply disconnect_ginv; exact I | exact I].
  - cbn [lstep]. destruct (find_conn (s_conns s) c) as [cn|]; [|exact I]. destruct (find_cd (s_cdata s) c) as [d|]; [|exact I].
    destruct (too_long_at (d_maxmsg d) hdr); [apply disconnect_ginv; exact I | exact I].
Qed.

(* ---- what a fixed configuration adds: the cached state of the listening watches is the one
   bus_context_check_all_watches would compute now, and every connection's loader has the configured maximum ---- *)
Record freshp (L : limits) (P : N -> Prop) (s : state) : Prop := mkFresh {
  fr_watches : s_watches s = watches_for L (s_nincomplete s);
  fr_maxmsg : forall d, In d (s_cdata s) -> P (d_maxmsg d)
}.
(* under one configuration: every loader has the configured maximum *)
Definition fresh (L : limits) (s : state) : Prop := freshp L (fun m => m = loader_max L) s.

Lemma upd_cd_in ds c f y : In y (upd_cd ds c f) -> In y ds \/ exists x, In x ds /\ y = f x.
Proof.
  induction ds as [|x ds IH]; simpl; [tauto|]. destruct (d_id x =? c); simpl.
  - intros [<-|H]; [right; eauto | left; auto].
  - intros [<-|H]; [left; auto|]. destruct (IH H) as [H1|[z [Hz ->]]]; [left; auto | right; eauto].
Qed.

Lemma disconnect_fresh L (P : N -> Prop) s c byb : freshp L P s -> freshp L P (fst (disconnect L s c byb)).
Proof.
  intros [W M]. unfold disconnect.
  destruct (find_conn (s_conns s) c) as [cn|]; [|split; assumption]. destruct (find_cd (s_cdata s) c) as [d|]; [|split; assumption].
  destruct (step (reg L s) (EvDisconnect c)) as [b' ro]. destruct (existsb is_fault ro); [split; assumption|].
  destruct (drop_pending (s_pending s) c) as [pl po]. cbn [fst]. split; cbn [s_watches s_nincomplete s_cdata].
  - destruct (c_active cn); [exact W | reflexivity].
  - intros x Hx. apply del_cd_in in Hx. exact (M x Hx).
Qed.

Lemma lstep_fresh L (P : N -> Prop) s e : P (loader_max L) -> freshp L P s -> freshp L P (fst (lstep L s e)).
Proof.
  intros HP F. pose proof F as [W M]. destruct e; cbn [lstep]; try exact F; try (apply disconnect_fresh; exact F).
  - destruct (negb (s_watches s)); [exact F|]. destruct (max_incomplete_connections L <? s_nincomplete s + 1); [exact F|].
    cbn [step reg b_conns b_services b_next b_limit fst]. split; cbn [s_watches s_nincomplete s_cdata]; [reflexivity|].
    intros d Hd. apply in_app_or in Hd. destruct Hd as [Hd|[<-|[]]]; [exact (M d Hd) | exact HP].
  - destruct (find_cd (s_cdata s) c) as [d|]; [|exact F]. destruct (d_auth d); [exact F|]. cbn [fst]. split; cbn [with_rules s_watches s_nincomplete s_cdata]; [exact W|].
    intros y Hy. apply upd_cd_in in Hy. destruct Hy as [Hy|[x [Hx ->]]]; [exact (M y Hy) | exact (M x Hx)].
  - destruct (find_conn (s_conns s) c) as [cn|]; [|exact F]. destruct (find_cd (s_cdata s) c) as [d|]; [|exact F].
    destruct (negb (d_auth d)); [exact F|]. destruct (c_active cn); [exact F|].
    destruct (max_completed_connections L <=? s_ncomplete s); [exact F|].
    destruct (max_connections_per_user L <=? get_uid (s_byuser s) (d_uid d)); [exact F|].
    destruct (step (reg L s) (EvHello c)) as [b' ro]. destruct (existsb is_fault ro); [exact F|]. cbn [fst].
    split; cbn [s_watches s_nincomplete s_cdata]; [reflexivity | exact M].
  - unfold via_registry. destruct (step (reg L s) (EvRequest c name flags)) as [b' ro]. destruct (existsb is_fault ro); [exact F | split; assumption].
  - unfold via_registry. destruct (step (reg L s) (EvRelease c name)) as [b' ro]. destruct (existsb is_fault ro); [exact F | split; assumption].
  - destruct (find_conn (s_conns s) c) as [cn|]; [|exact F]. destruct (find_cd (s_cdata s) c) as [d|]; [|exact F].
    destruct (negb (c_active cn)); [exact F|]. destruct (max_match_rules_per_connection L <=? d_nrules d); [exact F|].
    destruct rule; [|exact F]. cbn [fst]. split; cbn [with_rules s_watches s_nincomplete s_cdata]; [exact W|].
    intros y Hy. apply upd_cd_in in Hy. destruct Hy as [Hy|[x [Hx ->]]]; [exact (M y Hy) | exact (M x Hx)].
  - destruct (find_conn (s_conns s) c) as [cn|]; [|exact F]. destruct (find_cd (s_cdata s) c) as [d|]; [|exact F].
    destruct (negb (c_active cn)); [exact F|]. destruct rule; [|exact F]. destruct (remove_rule (s_rules s) c n); [|exact F].
    cbn [fst]. split; cbn [with_rules s_watches s_nincomplete s_cdata]; [exact W|].
    intros y Hy. apply upd_cd_in in Hy. destruct Hy as [Hy|[x [Hx ->]]]; [exact (M y Hy) | exact (M x Hx)].
  - destruct (find_conn (s_conns s) c) as [cn|]; [|exact F]. destruct (negb (c_active cn)); [apply disconnect_fresh; exact F|].
    destruct (negb (is_active s d)); [exact F|]. destruct noreply; [split; assumption|].
    destruct (expect_scan _ c d serial 0); [|split; assumption]. destruct (max_replies_per_connection L <=? n); split; assumption.
  - destruct (find_conn (s_conns s) d) as [dn|]; [|exact F]. destruct (negb (c_active dn)); [apply disconnect_fresh; exact F|].
    destruct (negb (is_active s c)); [exact F | split; assumption].
  - destruct (expire_one (s_pending s) c serial); [split; assumption | exact F].
  - destruct (find_conn (s_conns s) c) as [cn|]; [|exact F]. destruct (negb (c_active cn)); [apply disconnect_fresh; exact F | exact F].
  - destruct (find_conn (s_conns s) c) as [cn|]; [|exact F]. destruct (find_cd (s_cdata s) c) as [d|]; [|exact F].
    destruct (too_long_at (d_maxmsg d) hdr); [apply disconnect_fresh; exact F | exact F].
Qed.

(* ---- the invariant of a run under one configuration -------------------------------------------------------------------------- *)
Definition linv (L : limits) (s : state) : Prop := ginv (bounds_of L) s /\ fresh L s.

Section Accessors.
  Variables (L : limits) (s : state) (I : linv L s).
  Definition li_ids := gi_ids _ _ (proj1 I).
  Definition li_bounded : bounded (max_names_per_connection L) (s_conns s) := gi_bounded _ _ (proj1 I).
  Definition li_ncomp := gi_ncomp _ _ (proj1 I).
  Definition li_ninc := gi_ninc _ _ (proj1 I).
  Definition li_user := gi_user _ _ (proj1 I).
  Definition li_nrules := gi_nrules _ _ (proj1 I).
  Definition li_rules_live := gi_rules_live _ _ (proj1 I).
  Definition li_comp_le : s_ncomplete s <= max_completed_connections L := gi_comp_le _ _ (proj1 I).
  Definition li_inc_le : s_nincomplete s <= max_incomplete_connections L := gi_inc_le _ _ (proj1 I).
  Definition li_user_le : forall u, get_uid (s_byuser s) u <= max_connections_per_user L := gi_user_le _ _ (proj1 I).
  Definition li_rules_le : forall d, In d (s_cdata s) -> d_nrules d <= max_match_rules_per_connection L := gi_rules_le _ _ (proj1 I).
  Definition li_pend_le : forall c, n_awaiting s c <= max_replies_per_connection L := gi_pend_le _ _ (proj1 I).
  Definition li_auth := gi_auth _ _ (proj1 I).
  Definition li_watches := fr_watches _ _ _ (proj2 I).
  Definition li_maxmsg : forall d, In d (s_cdata s) -> d_maxmsg d = loader_max L := fr_maxmsg _ _ _ (proj2 I).
End Accessors.

Lemma linv_inv L s : linv L s -> inv (reg L s).
Proof. intros [I _]. exact (ginv_inv _ L s I). Qed.
Lemma linv_nodup L s : linv L s -> NoDup (ids (s_conns s)).
Proof. intros [I _]. exact (ginv_nodup _ s I). Qed.
Lemma linv_nodup_cd L s : linv L s -> NoDup (cids (s_cdata s)).
Proof. intros [I _]. exact (ginv_nodup_cd _ s I). Qed.

Lemma init_linv L : 1 <= max_incomplete_connections L -> linv L linit.
Proof.
  intros H. split; [apply init_ginv|]. split; [|intros d []]. simpl. unfold watches_for.
  symmetry. apply negb_true_iff. apply N.leb_gt. lia.
Qed.

Theorem lstep_linv L s e : 1 <= max_names_per_connection L -> linv L s -> linv L (fst (lstep L s e)).
Proof. intros Hpos [I F]. split; [apply lstep_ginv; [apply covers_self | exact Hpos | exact I] | apply lstep_fresh; [reflexivity | exact F]]. Qed.

Lemma disconnect_linv L s c byb : linv L s -> linv L (fst (disconnect L s c byb)).
Proof. intros [I F]. split; [apply disconnect_ginv; exact I | apply disconnect_fresh; exact F]. Qed.

Lemma hello_linv L s c : 1 <= max_names_per_connection L -> linv L s -> linv L (fst (lstep L s (Hello c))).
Proof. intros Hpos I. apply lstep_linv; assumption. Qed.

Lemma via_registry_linv L s c e :
  (exists name flags, e = EvRequest c name flags) \/ (exists name, e = EvRelease c name) ->
  linv L s -> linv L (fst (via_registry L s c e)).
Proof.
  intros He [I F]. split; [apply via_registry_ginv; [apply covers_self | exact He | exact I]|].
  unfold via_registry. destruct (step (reg L s) e) as [b' ro]. destruct (existsb is_fault ro); [exact F|]. destruct F as [W M]. split; assumption.
Qed.

Lemma lrun_snoc L s h e : fst (lrun L s (h ++ [e])) = fst (lstep L (fst (lrun L s h)) e).
Proof.
  revert s. induction h as [|x h IH]; intros s; simpl.
  - destruct (lstep L s e); reflexivity.
  - destruct (lstep L s x) as [s1 o]. specialize (IH s1). destruct (lrun L s1 (h ++ [e])). destruct (lrun L s1 h). exact IH.
Qed.

Theorem reachable_linv L h : usable L -> linv L (fst (lrun L linit h)).
Proof.
  intros [Hpos Hinc]. induction h as [|e h IH] using rev_ind; [apply init_linv; exact Hinc|]. rewrite lrun_snoc. apply lstep_linv; assumption.
Qed.
