(* C14, Hello and max_connections_per_user: a Hello that reports NoMemory
   either did nothing at all, or made the connection active and counted it -
   the per-user count never moves without the activation (finding F14.4,
   fixed by c7c9e6b: the count is taken back when the last allocation of
   bus_connection_complete fails). *)
From DV Require Import Spec.OomSpec Proofs.OomGeneric Proofs.OomLists Proofs.OomInv Proofs.OomHandlers Proofs.OomMain Proofs.OomClean Proofs.OomTight.
Local Open Scope N_scope.

(* a prefix that changes no state either gives up (state and hooks as they were) or hands over *)
Lemma interp_bind_pure A B (p : prog A) (f : A -> prog B) F : pure p -> forall s,
  (exists s', interp F (bind p f) s = Oom s' /\ s_bus s' = s_bus s /\ s_hooks s' = s_hooks s) \/
  (exists a s', interp F (bind p f) s = interp F (f a) s' /\ s_bus s' = s_bus s /\ s_hooks s' = s_hooks s /\
                (Forall not_oom (s_msgs s) -> clean p -> Forall not_oom (s_msgs s'))).
Proof.
  induction 1 as [a|k Hk IH|o k Hk IH|k Hk IH]; intros s; simpl.
  - right. exists a, s. auto.
  - destruct (F (s_i s)).
    + left. eexists; split; [reflexivity|]. auto.
    + destruct (IH (mkSt (s_bus s) (s_msgs s) (s_hooks s) (s_i s + 1))) as [(s' & E & H1 & H2)|(a & s' & E & H1 & H2 & H3)].
      * left. exists s'. auto.
      * right. exists a, s'. repeat split; auto. intros Hm Hc. apply H3; [exact Hm|inversion Hc; assumption].
  - destruct (any_fail F (s_i s) (stage_cost (s_msgs s) o)).
    + left. eexists; split; [reflexivity|]. auto.
    + destruct (IH (mkSt (s_bus s) (s_msgs s ++ [o]) (s_hooks s) (s_i s + N.of_nat (stage_cost (s_msgs s) o)))) as [(s' & E & H1 & H2)|(a & s' & E & H1 & H2 & H3)].
      * left. exists s'. auto.
      * right. exists a, s'. repeat split; auto. intros Hm Hc. inversion Hc; subst. apply H3; [|assumption].
        simpl. apply Forall_app; split; [exact Hm|constructor; [assumption|constructor]].
  - destruct (IH (s_bus s) s) as [(s' & E & H1 & H2)|(a & s' & E & H1 & H2 & H3)].
    + left. exists s'. auto.
    + right. exists a, s'. repeat split; auto. intros Hm Hc. apply H3; [exact Hm|inversion Hc; auto].
Qed.

(* what bus_dispatch's out: label makes of a handler result (the body of run_request) *)
Definition finish (F : N -> bool) (c : N) (r : res unit) : outcome :=
  match r with
  | Ok _ s => executed s
  | Oom s => cancelled c s
  | Err e s =>
      match interp F (error_reply (is_active (s_bus s) c) c e) s with
      | Ok _ s' => executed s'
      | Oom s' => cancelled c s'
      | Err _ _ => OStop
      | Halt => OStop
      end
  | Halt => OStop
  end.

Lemma run_request_finish F c p b : run_request F c p b = finish F c (interp F (allocs 3 ;;; p) (mkSt b [] [] 0)).
Proof. reflexivity. Qed.

Lemma not_oom_nomem c : ~ Forall not_oom [(c, MError ENoMemory)].
Proof. intros H. inversion H as [|x l Hx _]; subst. apply Hx. reflexivity. Qed.

(* from a point where the hooks lead back to b0, a safe and clean remainder that ends in "NoMemory only" ended in b0 *)
Lemma finish_nomem (R : bus -> bus -> Prop) b0 F c (p : prog unit) b hs msgs i b' :
  safe R b0 b hs p -> undoes R b0 hs b -> clean p -> Forall not_oom msgs ->
  finish F c (interp F p (mkSt b msgs hs i)) = OOk b' [(c, MError ENoMemory)] -> R b' b0.
Proof.
  intros Hsafe Hun Hcl Hm. unfold finish.
  pose proof (interp_safe R b0 _ p F b hs Hsafe Hun msgs i) as Hsf.
  pose proof (interp_clean _ p F Hcl (mkSt b msgs hs i) Hm) as Hc.
  destruct (interp F p (mkSt b msgs hs i)) as [a s|s|e s|].
  - unfold executed. intros H. assert (Hms : s_msgs s = [(c, MError ENoMemory)]) by (inversion H; reflexivity). rewrite Hms in Hc. exfalso. exact (not_oom_nomem c Hc).
  - unfold cancelled. destruct Hsf as (bc & -> & HR). intros H; inversion H; subst. exact HR.
  - destruct Hc as [Hm2 He]. destruct s as [sb sm sh si]. simpl in Hsf, Hm2. simpl s_bus.
    pose proof (interp_safe R b0 _ (error_reply (is_active sb c) c e) F sb sh (safe_error_reply R b0 sb sh _ c e) Hsf sm si) as Hsf2.
    pose proof (interp_clean _ _ F (clean_error_reply (is_active sb c) c e He) (mkSt sb sm sh si) Hm2) as Hc2.
    destruct (interp F (error_reply (is_active sb c) c e) (mkSt sb sm sh si)) as [a2 s2|s2|e2 s2|].
    + unfold executed. intros H. assert (Hms : s_msgs s2 = [(c, MError ENoMemory)]) by (inversion H; reflexivity). rewrite Hms in Hc2. exfalso. exact (not_oom_nomem c Hc2).
    + unfold cancelled. destruct Hsf2 as (bc & -> & HR). intros H; inversion H; subst. exact HR.
    + discriminate.
    + discriminate.
  - discriminate.
Qed.

(* bus_registry_ensure is safe wherever the name is not in the registry *)
Lemma safe_ensure (R : bus -> bus -> Prop) b0 b hs k c flags :
  lookup (b_services b) k = None -> undoes R b0 hs b -> safe R b0 b hs (ensure k c flags).
Proof.
  intros El Hun. unfold ensure.
  apply safe_bind_pure; [apply pure_allocs|]. intros _.
  apply safe_bind_pure; [apply pure_send_noc|]. intros _.
  apply safe_bind_pure; [apply pure_send_acquired|]. intros _.
  apply safe_bind_pure; [apply pure_allocs|]. intros _.
  apply safe_bind_pure; [apply pure_alloc1|]. intros _.
  unfold act.
  destruct (do_action (ACreateOwn k c flags) b) as [[b1 hs1]|] eqn:Ed.
  - eapply safe_act; [exact Ed| |constructor].
    apply (undoes_step R b0 hs hs1 b b1); [apply (undo_create b _ _ _ _ _ Ed)|exact Hun].
  - simpl in Ed. rewrite El in Ed. discriminate.
Qed.

(* the state after bus_connection_complete *)
Definition completed (b : bus) (c : N) : bus :=
  with_conns (with_uidcount b (b_uidcount b + 1)) (set_active (b_conns b) c).

Ltac peel Hp s1 Hb Hh Hm :=
  match goal with
  | |- context [interp ?F (bind ?p ?f) ?s] =>
      let a := fresh "a" in
      destruct (interp_bind_pure _ _ p f F Hp s) as [(s1 & -> & Hb & Hh)|(a & s1 & -> & Hb & Hh & Hm)]
  end.

Theorem hello_count_follows_activation b c cn F b' :
  find_conn (b_conns b) c = Some cn -> c_active cn = false -> (b_maxconns b <=? b_uidcount b) = false ->
  lookup (b_services b) (KU c) = None ->
  step_f F b (EvHello c) = OOk b' [(c, MError ENoMemory)] ->
  b' = b \/ b' = completed b c.
Proof.
  intros Ef Ea Hlim El.
  pose proof (find_conn_id _ _ _ Ef) as Hid.
  unfold step_f, handler. rewrite Ef, run_request_finish. unfold hello. rewrite Ea, Hid.
  (* the prelude of bus_dispatch *)
  peel (pure_allocs 3) s1 Hb1 Hh1 Hm1.
  { simpl. unfold cancelled. rewrite Hh1, Hb1. simpl. intros H; inversion H; auto. }
  simpl in Hb1, Hh1. unfold get. cbn [bind interp]. rewrite Hb1, Hlim.
  peel (pure_allocs 2) s2 Hb2 Hh2 Hm2.
  { simpl. unfold cancelled. rewrite Hh2, Hh1, Hb2, Hb1. simpl. intros H; inversion H; auto. }
  peel (pure_allocs 3) s3 Hb3 Hh3 Hm3.
  { simpl. unfold cancelled. rewrite Hh3, Hh2, Hh1, Hb3, Hb2, Hb1. simpl. intros H; inversion H; auto. }
  peel pure_alloc1 s4 Hb4 Hh4 Hm4.
  { simpl. unfold cancelled. rewrite Hh4, Hh3, Hh2, Hh1, Hb4, Hb3, Hb2, Hb1. simpl. intros H; inversion H; auto. }
  (* counted and active: two state changes with nothing fallible between them *)
  unfold act. cbn [bind interp do_action]. rewrite Hb4, Hb3, Hb2, Hb1. cbn [s_bus s_msgs s_hooks s_i app do_action].
  rewrite Hh4, Hh3, Hh2, Hh1. cbn [app].
  fold (completed b c).
  intros H. right.
  assert (Hmsgs : Forall not_oom (s_msgs s4)).
  { apply Hm4; [|unfold alloc; repeat constructor]. apply Hm3; [|apply clean_allocs]. apply Hm2; [|apply clean_allocs]. apply Hm1; [constructor|apply clean_allocs]. }
  refine (finish_nomem eq (completed b c) F c _ (completed b c) [] (s_msgs s4) (s_i s4) b' _ _ _ Hmsgs H).
  - (* the rest of the handler: set_sender, the welcome message, bus_registry_ensure *)
    apply safe_bind_pure; [apply pure_alloc1|]. intros _.
    apply safe_bind_pure; [apply pure_allocs|]. intros _.
    apply safe_bind_pure; [apply pure_send_from_driver|]. intros _.
    apply safe_get.
    assert (El2 : lookup (b_services (completed b c)) (KU c) = None) by exact El.
    rewrite El2.
    apply safe_ensure; [exact El2|]. exists (completed b c); simpl; auto.
  - exists (completed b c); simpl; auto.
  - unfold alloc, get. cl; apply clean_ensure.
Qed.

(* a Hello that reported NoMemory and did not make the connection active changed nothing - in particular
   not the per-user count - so the retried Hello is the Hello that was never attempted *)
Corollary hello_not_active_unchanged b c cn F b' :
  find_conn (b_conns b) c = Some cn -> c_active cn = false -> (b_maxconns b <=? b_uidcount b) = false ->
  lookup (b_services b) (KU c) = None ->
  step_f F b (EvHello c) = OOk b' [(c, MError ENoMemory)] -> is_active b' c = false ->
  b' = b /\ step b' (EvHello c) = step b (EvHello c).
Proof.
  intros Ef Ea Hlim El Hs Hna.
  destruct (hello_count_follows_activation b c cn F b' Ef Ea Hlim El Hs) as [Hb|Hb]; subst b'; [auto|].
  exfalso. unfold is_active, completed in Hna. simpl in Hna. rewrite (find_conn_set_active _ _ _ Ef) in Hna. discriminate.
Qed.
