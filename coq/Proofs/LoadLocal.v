(* Locality of the message loader (Wire/Message.v): the verdict of
   [load_message] on a complete message does not depend on the bytes that
   follow it in the buffer, provided the framing values are the ones
   [have_message] computed from the buffer (fields_len is the length word at
   offset 12).  For framing values unrelated to the bytes the statement
   [load_local] of Proofs/LoaderProofs.v is false ([load_local_refuted]). *)
From DV Require Import Lib.Base Gen.Tables Wire.Body Wire.Message Spec.SigSpec Proofs.BodyVbEq Proofs.BodyLocal Proofs.LoaderProofs.
From Coq Require Import ZArith ZifyBool ZifyN ZifyNat Arith.
Local Open Scope N_scope.
Ltac Zify.zify_post_hook ::= Z.div_mod_to_equations.

(* ---- [load_local] needs the tie between fields_len and the buffer ------------------- *)
Theorem load_local_refuted : ~ load_local.
Proof.
  intros H.
  specialize (H true 0 16 0 0 [108; 9; 0; 1; 0;0;0;0; 1;0;0;0; 5;0;0;0] [200; 1; 121; 0; 7]).
  vm_compute in H. apply H. discriminate.
Qed.

(* ---- the header signature ------------------------------------------------------------- *)
Definition field_ty : ty := TStruct [TBasic 121; TVariant].
Definition hdr_tys : list ty :=
  [TBasic 121; TBasic 121; TBasic 121; TBasic 121; TBasic 117; TBasic 117; TArray field_ty].

Lemma header_tys_eq : header_tys = Some hdr_tys.
Proof. vm_compute. reflexivity. Qed.

Lemma hdr_tys_good : forallb goodb hdr_tys = true.
Proof. reflexivity. Qed.

Lemma byte_run le d depth c c' : vb le (S d) (TBasic 121) depth c = inl c' -> c' = advance c 1 /\ crem c <> 0.
Proof.
  change 121 with DBUS_TYPE_BYTE. rewrite vbc_byte. unfold entry, post.
  destruct (crem c =? 0) eqn:E0; [discriminate|]. destruct (crem c <? 1); [discriminate|].
  intros H. inversion H. split; [reflexivity | lia].
Qed.

Lemma u32_run le d depth c c' : vb le (S d) (TBasic 117) depth c = inl c' -> align_up (cpos c) 4 = cpos c ->
  c' = advance c 4 /\ 4 <= crem c.
Proof.
  rewrite (vbc_fixed le d 117 depth c eq_refl eq_refl). unfold entry, fixedbody, bind.
  change (type_alignment 117) with 4. cbv zeta. intros H Ha. rewrite Ha in H.
  destruct (crem c =? 0); [discriminate|]. destruct (cpos c + crem c <=? cpos c); [discriminate|].
  unfold pad_to in H. rewrite N.sub_diag in H. cbn [N.to_nat pad_loop] in H.
  change (117 =? DBUS_TYPE_BOOLEAN) with false in H. cbv iota in H. unfold post in H.
  destruct (crem c <? 4) eqn:E4; inversion H. split; [reflexivity | lia].
Qed.

Lemma nth_skipn {A} (d : A) : forall n i (l : list A), nth i (skipn n l) d = nth (n + i) l d.
Proof.
  induction n as [|n IH]; intros i l; [reflexivity|].
  destruct l as [|x l]; [rewrite skipn_nil; destruct i; reflexivity|]. cbn [skipn Nat.add nth]. apply IH.
Qed.

Lemma peek4_u32 le c q x n : peek4 c = Some q -> cdat c = skipn n x -> unpack32 le q = u32_at le x n.
Proof.
  unfold peek4, u32_at, byte_at. intros H Hd. rewrite Hd in H.
  destruct (skipn n x) as [|b0 [|b1 [|b2 [|b3 r]]]] eqn:E; try discriminate. inversion H; subst q.
  pose proof (nth_skipn 0 n 0 x) as N0. pose proof (nth_skipn 0 n 1 x) as N1.
  pose proof (nth_skipn 0 n 2 x) as N2. pose proof (nth_skipn 0 n 3 x) as N3.
  rewrite E in N0, N1, N2, N3. cbn [nth] in N0, N1, N2, N3. rewrite Nat.add_0_r in N0.
  rewrite <- N0, <- N1, <- N2, <- N3. reflexivity.
Qed.

(* a successful parse of the fixed part of the header: six fixed fields, then
   the length word at offset 12 and the field array starting at 16 *)
Lemma hdr_inv le x c' :
  vbs le DEPTH_FUEL hdr_tys 0 (cur_of 0 x) = inl c' ->
  16 <= nlen x /\
  arrbody (arr_elems le 79 field_ty 0 (u32_at le x 12)) (u32_at le x 12) (mkCur 16 (nlen x - 16) (skipn 16 x)) = inl c'.
Proof.
  unfold hdr_tys. change DEPTH_FUEL with (S 79). cbn [vbs]. intros H.
  destruct (vb le 80 (TBasic 121) 0 (cur_of 0 x)) as [c1|] eqn:V1; [|discriminate]. apply byte_run in V1. destruct V1 as [-> R1].
  destruct (vb le 80 (TBasic 121) 0 _) as [c2|] eqn:V2 in H; [|discriminate]. apply byte_run in V2. destruct V2 as [-> R2].
  destruct (vb le 80 (TBasic 121) 0 _) as [c3|] eqn:V3 in H; [|discriminate]. apply byte_run in V3. destruct V3 as [-> R3].
  destruct (vb le 80 (TBasic 121) 0 _) as [c4|] eqn:V4 in H; [|discriminate]. apply byte_run in V4. destruct V4 as [-> R4].
  destruct (vb le 80 (TBasic 117) 0 _) as [c5|] eqn:V5 in H; [|discriminate]. apply u32_run in V5; [|reflexivity]. destruct V5 as [-> R5].
  destruct (vb le 80 (TBasic 117) 0 _) as [c6|] eqn:V6 in H; [|discriminate]. apply u32_run in V6; [|reflexivity]. destruct V6 as [-> R6].
  destruct (vb le 80 (TArray field_ty) 0 _) as [c7|] eqn:V7 in H; [|discriminate]. inversion H; subst c7. clear H.
  assert (E6 : advance (advance (advance (advance (advance (advance (cur_of 0 x) 1) 1) 1) 1) 4) 4 = mkCur 12 (nlen x - 12) (skipn 12 x)).
  { unfold advance, cur_of. cbn [cpos crem cdat]. f_equal; [lia|]. rewrite !bl_skipn_skipn. reflexivity. }
  rewrite E6 in V7. clear E6. cbn [advance cur_of cpos crem cdat] in *. set (x12 := skipn 12 x) in V7.
  rewrite vbc_array in V7. unfold entry, bindp in V7. cbn [crem] in V7.
  destruct (nlen x - 12 =? 0); [discriminate|].
  destruct (read_len32 le _) as [[len c2]|] eqn:RL in V7; [|discriminate].
  unfold read_len32 in RL. cbn [cpos crem] in RL. change (align_up 12 4) with 12 in RL. cbv zeta in RL.
  destruct (12 + (nlen x - 12) <? 12 + 4) eqn:E16; [discriminate|]. split; [lia|].
  unfold pad_to in RL. cbn [cpos N.sub Pos.sub_mask Pos.sub_mask_carry Pos.double_mask Pos.double_pred_mask N.to_nat pad_loop] in RL.
  destruct (peek4 _) as [q|] eqn:K in RL; [|discriminate]. inversion RL; subst len c2. clear RL.
  rewrite (peek4_u32 le _ q x 12 K eq_refl) in V7.
  unfold bind, padchk, advance in V7. cbn [cpos crem cdat ty_alignment field_ty] in V7.
  change (align_up (12 + 4) 8) with 16 in V7. cbv zeta in V7.
  destruct (12 + 4 + (nlen x - 12 - 4) <? 16); [discriminate|].
  unfold pad_to in V7. cbn [cpos] in V7. change (N.to_nat (16 - (12 + 4))) with 0%nat in V7. cbn [pad_loop] in V7.
  replace (mkCur (12 + 4) (nlen x - 12 - 4) (skipn (N.to_nat 4) x12)) with (mkCur 16 (nlen x - 16) (skipn 16 x)) in V7.
  - exact V7.
  - f_equal; [lia|]. unfold x12. rewrite bl_skipn_skipn. reflexivity.
Qed.

Lemma hdr_end le x c' : vbs le DEPTH_FUEL hdr_tys 0 (cur_of 0 x) = inl c' -> cpos c' = 16 + u32_at le x 12.
Proof.
  intros H. apply hdr_inv in H. destruct H as [_ H]. unfold arrbody in H. cbn [cpos crem] in H.
  destruct (nlen x - 16 <? u32_at le x 12); [discriminate|].
  destruct (u32_at le x 12 =? 0) eqn:E0; [inversion H; subst; cbn [cpos]; lia|].
  destruct (DBUS_MAXIMUM_ARRAY_LENGTH <? _); [discriminate|].
  destruct (arr_elems _ _ _ _ _ _ _) as [c4|]; [|discriminate].
  destruct (cpos c4 =? 16 + u32_at le x 12) eqn:E; inversion H; subst. lia.
Qed.

(* ---- read_fields ------------------------------------------------------------------------ *)
Lemma take1_advance_lt c n b c3 : wfc c -> take1 (advance c n) = Some (b, c3) -> n < crem c.
Proof.
  unfold take1, advance, wfc. cbn [cdat]. intros Hw H.
  destruct (skipn (N.to_nat n) (cdat c)) as [|x r] eqn:E; [discriminate|].
  apply (f_equal (@length N)) in E. rewrite skipn_length in E. cbn [length] in E. unfold nlen in Hw. lia.
Qed.

Lemma parse_sig_single_good s t : parse_sig s = Some [t] -> goodb t = true.
Proof. intros H. apply parse_sig_good in H. cbn [forallb] in H. apply andb_true_iff in H. exact (proj1 H). Qed.

(* (B) for read_fields: appending bytes keeps a successful walk and its result *)
Lemma rf_ext le y e : forall f c fs, wfc c -> read_fields f le c e = Some fs -> read_fields f le (ext y c) e = Some fs.
Proof.
  induction f as [|f IH]; intros c fs Hw H; [discriminate|]. cbn [read_fields] in *. rewrite cpos_ext.
  destruct (cpos c <? e); [|exact H].
  destruct (pad_to c (align_up (cpos c) 8)) as [c0|] eqn:P0; [|discriminate].
  rewrite (pad_to_ext y _ _ _ Hw P0). destruct (pad_to_W _ _ _ Hw P0) as [(W0 & _) _].
  destruct (take1 c0) as [[code c1]|] eqn:T0; [|discriminate].
  rewrite (take1_ext y _ _ _ W0 T0). destruct (take1_W _ _ _ W0 T0) as [(W1 & _) _].
  destruct (take1 c1) as [[slen c2]|] eqn:T1; [|discriminate].
  rewrite (take1_ext y _ _ _ W1 T1). destruct (take1_W _ _ _ W1 T1) as [(W2 & _) _].
  destruct (take1 (advance c2 slen)) as [[b c3]|] eqn:T2; [|discriminate].
  pose proof (take1_advance_lt _ _ _ _ W2 T2) as Hlt.
  rewrite advance_ext by (try exact W2; lia).
  rewrite (take1_ext y _ _ _ (wfc_advance c2 slen W2) T2).
  destruct (take1_W _ _ _ (wfc_advance c2 slen W2) T2) as [(W3 & _) _].
  cbn [ext cdat]. rewrite bl_firstn_app_le by (unfold wfc, nlen in W2; lia).
  destruct (parse_sig (firstn (N.to_nat slen) (cdat c2))) as [[|t [|? ?]]|] eqn:PS; try discriminate.
  change (mkCur (cpos c3) (crem c3 + nlen y) (cdat c3 ++ y)) with (ext y c3). rewrite cpos_ext.
  destruct (pad_to c3 (align_up (cpos c3) (ty_alignment t))) as [c4|] eqn:P3; [|discriminate].
  rewrite (pad_to_ext y _ _ _ W3 P3). destruct (pad_to_W _ _ _ W3 P3) as [(W4 & _) _].
  destruct (vb le DEPTH_FUEL t 2 c4) as [c5|] eqn:V; [|discriminate].
  pose proof (parse_sig_single_good _ _ PS) as Hg.
  rewrite (vb_append le _ _ _ y _ _ Hg W4 V).
  destruct (vb_W le _ _ _ Hg _ _ W4 V) as (W5 & Q1 & Q2 & _).
  cbn [ext cdat cpos]. rewrite bl_firstn_app_le by (unfold wfc, nlen, endp in *; lia).
  change (mkCur (cpos c5) (crem c5 + nlen y) (cdat c5 ++ y)) with (ext y c5).
  destruct (read_fields f le c5 e) as [r|] eqn:R; [|discriminate].
  rewrite (IH c5 r W5 R). exact H.
Qed.

Lemma take1_is_advance c : wfc c -> crem c <> 0 -> exists b, take1 c = Some (b, advance c 1).
Proof.
  unfold take1, advance, wfc. destruct c as [p r l]. cbn [cpos crem cdat]. intros Hw H.
  destruct l as [|x l]; [cbn in Hw; lia|]. exists x. reflexivity.
Qed.

Lemma field_ty_good : goodb field_ty = true.
Proof. reflexivity. Qed.

(* a validated array of (yv) structs can be walked by read_fields *)
Lemma rf_of_elems le d2 depth ae : (d2 <= DEPTH_FUEL)%nat ->
  forall n c c' f, wfc c ->
    vb_elems le (S (S d2)) field_ty depth ae n c = inl c' ->
    (N.to_nat (ae - cpos c) < f)%nat ->
    exists fs, read_fields f le c ae = Some fs.
Proof.
  intros Hd2. induction n as [|n IH]; intros c c' f Hw H Hf; [discriminate|].
  destruct f as [|f]; [lia|]. rewrite vb_elems_S in H. cbn [read_fields].
  destruct (cpos c <? ae) eqn:Hlt; [|exists []; reflexivity].
  unfold depthchk, bind in H. destruct (maxdepth <? depth + 1); [discriminate|].
  destruct (vb le (S (S d2)) field_ty (depth + 1) c) as [cN|] eqn:V; [|discriminate].
  destruct (vb_W le _ _ _ field_ty_good _ _ Hw V) as (WN & PN & _).
  (* open the struct *)
  unfold field_ty in V. rewrite vbc_struct in V. unfold entry, bind, padchk, depthchk in V. cbv zeta in V.
  destruct (crem c =? 0); [discriminate|].
  destruct (cpos c + crem c <? align_up (cpos c) 8); [discriminate|].
  destruct (pad_to c (align_up (cpos c) 8)) as [c0|] eqn:P0; [|discriminate].
  destruct (pad_to_W _ _ _ Hw P0) as [(W0 & _) _].
  destruct (maxdepth <? depth + 1 + 1); [discriminate|].
  cbn [vbs] in V.
  destruct (vb le (S d2) (TBasic 121) (depth + 1 + 1) c0) as [c1|] eqn:V1; [|discriminate].
  apply byte_run in V1. destruct V1 as [-> R0].
  destruct (take1_is_advance c0 W0 R0) as [code T0]. rewrite T0.
  pose proof (wfc_advance c0 1 W0) as W1. set (c1 := advance c0 1) in *.
  destruct (vb le (S d2) TVariant (depth + 1 + 1) c1) as [c6|] eqn:V2; [|discriminate]. inversion V; subst c6. clear V.
  (* open the variant *)
  rewrite vbc_variant in V2. unfold entry, bindp, sigread in V2.
  destruct (crem c1 =? 0); [discriminate|].
  destruct (take1 c1) as [[slen c2]|] eqn:T1; [|discriminate].
  destruct (take1_W _ _ _ W1 T1) as [(W2 & _) _].
  destruct (crem c2 <? slen + 1); [discriminate|]. cbv zeta in V2.
  destruct (negb _); [discriminate|].
  destruct (take1 (advance c2 slen)) as [[b c3]|] eqn:T2; [|discriminate].
  destruct (take1_W _ _ _ (wfc_advance c2 slen W2) T2) as [(W3 & _) _].
  destruct (b =? 0); [|discriminate].
  unfold varbody in V2. set (s := firstn (N.to_nat slen) (cdat c2)) in *.
  destruct (parse_sig s) as [[|ct more]|] eqn:PS; try discriminate.
  unfold bind, padchk, depthchk, final in V2. cbv zeta in V2.
  destruct (cpos c3 + crem c3 <? align_up (cpos c3) (ty_alignment ct)); [discriminate|].
  destruct (pad_to c3 (align_up (cpos c3) (ty_alignment ct))) as [c4|] eqn:P3; [|discriminate].
  destruct (maxdepth <? depth + 1 + 1 + 1); [discriminate|].
  destruct (vb le d2 ct (depth + 1 + 1 + 1) c4) as [c5|] eqn:V3; [|discriminate].
  destruct more as [|? ?]; [|discriminate]. inversion V2; subst c5. clear V2.
  rewrite (vb_sub le d2 DEPTH_FUEL ct (depth + 1 + 1 + 1) 2 Hd2 ltac:(lia) _ _ V3).
  destruct (IH cN c' f WN H ltac:(lia)) as [fs Hfs]. rewrite Hfs. eexists. reflexivity.
Qed.

(* after a successful parse of the fixed header, read_fields succeeds on the field array *)
Lemma header_rf le x c' :
  vbs le DEPTH_FUEL hdr_tys 0 (cur_of 0 x) = inl c' ->
  exists fs, read_fields (S (N.to_nat (u32_at le x 12))) le (mkCur 16 (nlen x - 16) (skipn 16 x)) (16 + u32_at le x 12) = Some fs.
Proof.
  intros H. apply hdr_inv in H. destruct H as [H16 H]. set (fl := u32_at le x 12) in *.
  set (c3 := mkCur 16 (nlen x - 16) (skipn 16 x)) in *.
  assert (W3 : wfc c3). { unfold wfc, c3. cbn [crem cdat]. rewrite bl_nlen_skipn. lia. }
  unfold arrbody in H. destruct (crem c3 <? fl); [discriminate|].
  destruct (fl =? 0) eqn:E0.
  { cbn [read_fields]. replace (cpos c3 <? 16 + fl) with false by (cbn [c3 cpos]; lia). exists []. reflexivity. }
  destruct (DBUS_MAXIMUM_ARRAY_LENGTH <? fl); [discriminate|].
  destruct (arr_elems le 79 field_ty 0 fl (cpos c3 + fl) c3) as [c4|] eqn:A; [|discriminate].
  unfold arr_elems in A. change (ty_is_fixed field_ty) with false in A. cbv iota in A.
  change 79%nat with (S (S 77)) in A.
  apply (rf_of_elems le 77 0 (cpos c3 + fl) ltac:(unfold DEPTH_FUEL; lia) _ _ _ _ W3 A).
  cbn [c3 cpos]. lia.
Qed.

(* ---- header_load and load_message --------------------------------------------------------- *)
Definition same_verdict {A} (r r' : A + Z) : Prop :=
  match r, r' with
  | inl a, inl b => a = b
  | inr _, inr _ => True
  | _, _ => False
  end.

Lemma same_verdict_refl {A} (r : A + Z) : same_verdict r r.
Proof. destruct r; cbn; auto. Qed.

Lemma header_load_local le fl hl d y :
  fl = u32_at le d 12 -> 16 + fl <= hl -> hl <= nlen d ->
  same_verdict (header_load le fl hl d) (header_load le fl hl (d ++ y)).
Proof.
  intros Hfl Hhl Hd. assert (H16 : (16 <= length d)%nat) by (unfold nlen in Hd; lia).
  unfold header_load. rewrite header_tys_eq. unfold validate_body_prefix. rewrite !vb_seq_vbs, <- ext_cur_of.
  pose proof (vbs_L y le DEPTH_FUEL 0 hdr_tys hdr_tys_good (cur_of 0 d) (wfc_cur_of 0 d)) as Q.
  destruct (vbs le DEPTH_FUEL hdr_tys 0 (cur_of 0 d)) as [c'|e] eqn:V; cbn [locr] in Q.
  - rewrite Q.
    (* the fixed checks read inside [d] *)
    assert (E1 : firstn (N.to_nat (hl - (16 + fl))) (skipn (N.to_nat (16 + fl)) (d ++ y)) =
                 firstn (N.to_nat (hl - (16 + fl))) (skipn (N.to_nat (16 + fl)) d)).
    { rewrite bl_skipn_app_le by (unfold nlen in Hd; lia). apply bl_firstn_app_le. rewrite skipn_length. unfold nlen in Hd. lia. }
    rewrite E1. rewrite !(byte_at_app d y) by lia. rewrite (u32_at_app le d y 8) by lia.
    destruct (negb (all_zero _)); [exact I|].
    destruct (byte_at d 1 =? DBUS_MESSAGE_TYPE_INVALID); [exact I|].
    destruct (negb (byte_at d 3 =? DBUS_MAJOR_PROTOCOL_VERSION)); [exact I|].
    destruct (u32_at le d 8 =? 0); [exact I|].
    (* the field walk *)
    destruct (header_rf le d c' V) as [fs Hfs]. rewrite <- Hfl in Hfs.
    set (c3 := mkCur 16 (nlen d - 16) (skipn 16 d)) in *.
    assert (W3 : wfc c3). { unfold wfc, c3. cbn [crem cdat]. rewrite bl_nlen_skipn. lia. }
    assert (E3 : mkCur 16 (nlen (d ++ y) - 16) (skipn 16 (d ++ y)) = ext y c3).
    { unfold ext, c3. cbn [cpos crem cdat]. rewrite bl_nlen_app, bl_skipn_app_le by lia. f_equal. unfold nlen in *. lia. }
    rewrite E3, (rf_ext le y _ _ _ _ W3 Hfs), Hfs. apply same_verdict_refl.
  - destruct (vbs le DEPTH_FUEL hdr_tys 0 (ext y (cur_of 0 d))) as [c''|e'] eqn:V'; [|exact I].
    exfalso. specialize (Q c'' eq_refl). rewrite ext_cur_of in V'. apply hdr_end in V'.
    rewrite (u32_at_app le d y 12) in V' by lia. unfold endp in Q. cbn [cur_of cpos crem] in Q. lia.
Qed.

Lemma load_message_local le fl hl bl fds d y :
  fl = u32_at le d 12 -> 16 + fl <= hl -> hl + bl <= nlen d ->
  same_verdict (load_message le fl hl bl fds d) (load_message le fl hl bl fds (d ++ y)).
Proof.
  intros Hfl Hhl Hd. pose proof (header_load_local le fl hl d y Hfl Hhl ltac:(lia)) as Hh.
  unfold load_message.
  destruct (header_load le fl hl d) as [fs|e]; destruct (header_load le fl hl (d ++ y)) as [fs'|e']; cbn in Hh; try contradiction; [|exact I].
  subst fs'.
  assert (E1 : firstn (N.to_nat bl) (skipn (N.to_nat hl) (d ++ y)) = firstn (N.to_nat bl) (skipn (N.to_nat hl) d)).
  { rewrite bl_skipn_app_le by (unfold nlen in Hd; lia). apply bl_firstn_app_le. rewrite skipn_length. unfold nlen in Hd. lia. }
  assert (E2 : firstn (N.to_nat hl) (d ++ y) = firstn (N.to_nat hl) d).
  { apply bl_firstn_app_le. unfold nlen in Hd. lia. }
  rewrite E1, E2. apply same_verdict_refl.
Qed.

(* the version of [load_local] that holds: framing values computed by have_message *)
Lemma have_ok_full max d le fl hl bl c :
  have_message max d = HaveOk le fl hl bl c ->
  fl = u32_at le d 12 /\ hl = align_up (16 + fl) 8 /\ c = (bl + hl <=? nlen d).
Proof.
  unfold have_message.
  destruct (negb _); [discriminate|].
  destruct (max <? _); [discriminate|].
  destruct (max <? _); [discriminate|].
  destruct (max <? _); [discriminate|].
  intros H. inversion H. subst. repeat split; reflexivity.
Qed.

Theorem load_local_from_have : forall max le fl hl bl fds d c,
  have_message max d = HaveOk le fl hl bl true ->
  match load_message le fl hl bl fds d, load_message le fl hl bl fds (d ++ c) with
  | inl m, inl m' => m = m'
  | inr _, inr _ => True
  | _, _ => False
  end.
Proof.
  intros max le fl hl bl fds d c Hh. apply have_ok_full in Hh. destruct Hh as (Hfl & Hhl & Hc).
  apply (load_message_local le fl hl bl fds d c Hfl).
  - subst hl. apply align_up_ge.
  - symmetry in Hc. lia.
Qed.

(* ---- chunking independence, unconditionally ---------------------------------------------------
   Proofs/LoaderProofs.v proves [stab] / [chunking] in a section with the
   hypothesis [Hlocal : load_local].  That hypothesis is used exactly once, in
   [stab]:
       pose proof (Hlocal le fl hl bl (l_fds l) (l_buf l) c Hfit) as Hloc.
   and at that point the context contains
       Hh : have_message (l_max l) (l_buf l) = HaveOk le fl hl bl true
   (the branch [destruct cpl; [|reflexivity]] of the case analysis on
   [have_message]), so only instances with framing values computed by
   have_message from the buffer are ever needed.  [load_local_from_have]
   provides exactly those; below the proof of [stab] is repeated with it. *)
Lemma stab' : forall f l c, (length (l_buf l) < f)%nat ->
  outcome (norm (append (queue_messages f l) c)) = outcome (norm (append l c)).
Proof.
  induction f as [|f IH]; intros l c Hf; [lia|].
  rewrite qm_S.
  destruct (l_corrupted l) eqn:Hcor; [reflexivity|].
  destruct (nlen (l_buf l) <? DBUS_MINIMUM_HEADER_SIZE) eqn:Hshort; [reflexivity|].
  assert (H16 : (16 <= length (l_buf l))%nat).
  { unfold nlen in Hshort. change DBUS_MINIMUM_HEADER_SIZE with 16 in Hshort. lia. }
  assert (Hshort' : (nlen (l_buf l ++ c) <? DBUS_MINIMUM_HEADER_SIZE) = false).
  { rewrite nlen_app. unfold nlen in *. change DBUS_MINIMUM_HEADER_SIZE with 16 in *. lia. }
  destruct (have_message (l_max l) (l_buf l)) as [r|le fl hl bl cpl] eqn:Hh.
  - rewrite corrupted_norm by reflexivity.
    unfold norm at 1. rewrite qm_S. cbn [append l_corrupted l_buf l_max l_msgs l_fds].
    rewrite Hcor, Hshort', have_message_app by exact H16. rewrite Hh. reflexivity.
  - destruct cpl; [|reflexivity].
    pose proof (have_ok_hl _ _ _ _ _ _ _ Hh) as Hhl.
    pose proof (have_ok_inv _ _ _ _ _ _ _ Hh) as [_ Hc]. symmetry in Hc.
    assert (Hfit : hl + bl <= nlen (l_buf l)) by lia.
    assert (Hc' : (bl + hl <=? nlen (l_buf l ++ c)) = true) by (rewrite nlen_app; lia).
    pose proof (load_local_from_have (l_max l) le fl hl bl (l_fds l) (l_buf l) c Hh) as Hloc.
    destruct (load_message le fl hl bl (l_fds l) (l_buf l)) as [m|r] eqn:Hl1.
    + destruct (load_message le fl hl bl (l_fds l) (l_buf l ++ c)) as [m'|r'] eqn:Hl2; [|contradiction]. subst m'.
      set (l' := mkLoader (skipn (N.to_nat (hl + bl)) (l_buf l)) false V_VALID (l_msgs l ++ [m]) (l_fds l - m_nfds m) (l_max l)).
      assert (Hlen : (length (l_buf l') < f)%nat).
      { cbn [l' l_buf]. assert ((length (skipn (N.to_nat (hl + bl)) (l_buf l)) < length (l_buf l))%nat); [apply skipn_shorter; unfold nlen in Hfit; lia | lia]. }
      rewrite (IH l' c Hlen).
      unfold norm at 2. rewrite qm_S. cbn [append l_corrupted l_buf l_max l_msgs l_fds].
      rewrite Hcor, Hshort', have_message_app by exact H16. rewrite Hh, Hc', Hl2.
      assert (Hsk : skipn (N.to_nat (hl + bl)) (l_buf l ++ c) = skipn (N.to_nat (hl + bl)) (l_buf l) ++ c).
      { rewrite skipn_app. replace (N.to_nat (hl + bl) - length (l_buf l))%nat with 0%nat by (unfold nlen in Hfit; lia). reflexivity. }
      rewrite Hsk.
      change (mkLoader (skipn (N.to_nat (hl + bl)) (l_buf l) ++ c) false V_VALID (l_msgs l ++ [m]) (l_fds l - m_nfds m) (l_max l)) with (append l' c).
      unfold norm. f_equal. apply qm_fuel.
      * lia.
      * cbn [append l_buf l']. rewrite !app_length. rewrite skipn_length. lia.
    + destruct (load_message le fl hl bl (l_fds l) (l_buf l ++ c)) as [m'|r'] eqn:Hl2; [contradiction|].
      rewrite corrupted_norm by reflexivity.
      unfold norm at 1. rewrite qm_S. cbn [append l_corrupted l_buf l_max l_msgs l_fds].
      rewrite Hcor, Hshort', have_message_app by exact H16. rewrite Hh, Hc', Hl2. reflexivity.
Qed.

Lemma stab_norm' l c : outcome (norm (append (norm l) c)) = outcome (norm (append l c)).
Proof. apply stab'. lia. Qed.

Theorem chunking_general : forall chunks l,
  outcome (feed_all (norm l) chunks) = outcome (norm (append l (concat chunks))).
Proof.
  induction chunks as [|c r IH]; intros l.
  - cbn [feed_all fold_left concat]. rewrite append_nil. reflexivity.
  - unfold feed_all. cbn [fold_left concat]. fold (feed_all (feed (norm l) c 0) r).
    rewrite feed_norm. rewrite IH. rewrite append_append. rewrite <- (append_append l c (concat r)).
    rewrite <- !append_append. rewrite !append_append.
    rewrite <- (append_append (norm l) c (concat r)). rewrite !append_append.
    apply stab_norm'.
Qed.

(* splitting a byte stream into chunks does not change what the loader produces *)
Theorem chunking_unconditional : forall chunks,
  outcome (feed_all loader_new chunks) = outcome (feed loader_new (concat chunks) 0).
Proof.
  intros chunks. rewrite feed_norm. change loader_new with (norm loader_new) at 1. apply chunking_general.
Qed.

