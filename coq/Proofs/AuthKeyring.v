(* dbus-keyring.c model (Auth/Keyring.v) against the cookie-store specification
   (Spec/KeyringSpec.v): what a loaded key proves about the file line it came
   from, which keys are served / announced, completeness on well-formed lines,
   context names, and the consequences for the handshake environment. *)
From Coq Require Import ZArith.
From DV Require Import Lib.Base Auth.Types Gen.AuthTables Auth.Sha1 Auth.Server Auth.Keyring Spec.AuthSpec Spec.KeyringSpec
  Proofs.AuthLex.
Require Import ZifyBool ZifyN ZifyNat.
Local Open Scope Z_scope.

(* ---------- hex: a decoded non-empty argument is non-empty ---------- *)
Lemma hex_loop_nonempty : forall s pending acc i,
  (pending <> None \/ acc <> []) -> fst (hex_decode_loop s pending acc i) <> [].
Proof.
  assert (R : forall (x : N) l, rev (x :: l) <> []) by (intros x l; cbn; intros H; apply app_eq_nil in H; destruct H; discriminate).
  induction s as [|c r IH]; intros pending acc i H; cbn [hex_decode_loop].
  - cbn [fst]. destruct pending as [h|]; [apply R|]. destruct H as [H|H]; [congruence|]. destruct acc; [congruence|apply R].
  - destruct (hexval c) as [v|].
    + destruct pending as [h|]; apply IH; [right; discriminate|left; discriminate].
    + cbn [fst]. destruct pending as [h|]; [apply R|]. destruct H as [H|H]; [congruence|]. destruct acc; [congruence|apply R].
Qed.

Lemma hex_decode_all_nonempty s d : s <> [] -> hex_decode s = (d, nlen s) -> d <> [].
Proof.
  unfold hex_decode. destruct s as [|c r]; [congruence|]. intros _ H. cbn [hex_decode_loop] in H.
  destruct (hexval c) as [v|].
  - assert (P : Some (16 * v)%N <> None \/ (@nil N) <> []) by (left; discriminate).
    pose proof (hex_loop_nonempty r _ [] (0 + 1)%N P) as X.
    destruct (hex_decode_loop r (Some (16 * v)%N) [] (0 + 1)%N) as [d' e'] eqn:Eq.
    inversion H; subst. exact X.
  - inversion H.
Qed.

(* ---------- one line ---------- *)
Lemma consts : Z.of_N MAX_TIME_TRAVEL_SECONDS = 300 /\ Z.of_N EXPIRE_KEYS_TIMEOUT_SECONDS = 420 /\ Z.of_N NEW_KEY_TIMEOUT_SECONDS = 300.
Proof. repeat split; reflexivity. Qed.

Theorem parse_key_line_sound now l k : parse_key_line now l = Some k ->
  0 <= k_time k /\ cookie_kept_at now (k_time k) /\ Z.of_N (k_id k) <= INT32_MAX /\ k_secret k <> [].
Proof.
  destruct consts as (C1 & C2 & _). unfold parse_key_line, cookie_kept_at. rewrite C1, C2.
  destruct (strtol_prefix l) as [[v r1]|]; [|discriminate].
  destruct ((INT32_MAX <? v) || (v <? 0)) eqn:E1; [discriminate|].
  destruct (strtol_prefix (skip_blanks r1)) as [[t r2]|]; [|discriminate].
  destruct ((t <? 0) || (now + 300 <? t) || (t <? now - 420)) eqn:E2; [discriminate|].
  destruct (is_empty (skip_blanks r2)) eqn:E3; [discriminate|].
  destruct (hex_decode (skip_blanks r2)) as [sec e] eqn:E4.
  destruct (e =? nlen (skip_blanks r2))%N eqn:E5; [|discriminate].
  intros H. inversion H; subst k. cbn [k_time k_id k_secret].
  apply N.eqb_eq in E5. subst e.
  repeat split; try lia.
  eapply hex_decode_all_nonempty; [|exact E4]. destruct (skip_blanks r2); [discriminate|discriminate].
Qed.

(* ---------- the load loop ---------- *)
Lemma load_keys_sound now m : forall lines acc k,
  In k (load_keys now m lines acc) -> In k acc \/ exists l, In l lines /\ parse_key_line now l = Some k.
Proof.
  induction lines as [|l r IH]; intros acc k H; cbn [load_keys] in H.
  - left. apply in_rev. exact H.
  - destruct (m <=? length acc)%nat; [left; apply in_rev; exact H|].
    destruct (parse_key_line now l) as [k'|] eqn:E.
    + destruct (IH _ _ H) as [[X|X]|(l' & X & Y)].
      * subst k'. right. exists l. split; [left; reflexivity|exact E].
      * left. exact X.
      * right. exists l'. split; [right; exact X|exact Y].
    + destruct (IH _ _ H) as [X|(l' & X & Y)]; [left; exact X|]. right. exists l'. split; [right; exact X|exact Y].
Qed.

Lemma load_keys_length now m : forall lines acc, (length acc <= m -> length (load_keys now m lines acc) <= m)%nat.
Proof.
  induction lines as [|l r IH]; intros acc H; cbn [load_keys]; [rewrite rev_length; exact H|].
  destruct (m <=? length acc)%nat eqn:E; [rewrite rev_length; exact H|].
  apply Nat.leb_gt in E. destruct (parse_key_line now l); apply IH; cbn [length]; lia.
Qed.

(* where a key of the keyring comes from: a line of the file as read at attempt j that is inside the validity
   window of that moment, or this server's own random generator at attempt j *)
Definition key_origin (w : kworld) (j : N) (k : key) : Prop :=
  (exists l, In l (w_file w j) /\ parse_key_line (w_now w j) l = Some k) \/
  (k_time k = w_now w j /\ In (k_id k) (w_new_ids w j) /\ w_new_secret w j = Some (k_secret k)).

Theorem reload_sound w dp j add ks : reload w dp j add = Some ks ->
  forall k, In k ks -> key_origin w j k.
Proof.
  unfold reload. destruct (negb dp); [discriminate|]. destruct (add && negb (w_lock_ok w j)); [discriminate|].
  set (lines := if forallb validate_ascii (w_file w j) then w_file w j else []).
  assert (Hl : forall l, In l lines -> In l (w_file w j)).
  { unfold lines. destruct (forallb validate_ascii (w_file w j)); [auto|intros l []]. }
  clearbody lines. set (m := (if add then N.to_nat MAX_KEYS_IN_FILE - 1 else N.to_nat MAX_KEYS_IN_FILE)%nat). clearbody m.
  assert (Hload : forall k, In k (load_keys (w_now w j) m lines []) -> key_origin w j k).
  { intros k H. destruct (load_keys_sound _ _ _ _ _ H) as [[]|(l & X & Y)]. left. exists l. split; auto. }
  destruct add.
  - unfold add_new_key.
    destruct (find _ (w_new_ids w j)) as [id|] eqn:Ef; [|discriminate].
    destruct (w_new_secret w j) as [sec|] eqn:Es; [|discriminate].
    destruct (w_save_ok w j); [|discriminate].
    intros H k Hk. inversion H; subst ks. apply in_app_or in Hk. destruct Hk as [Hk|[Hk|[]]]; [auto|].
    subst k. right. cbn [k_time k_id k_secret]. repeat split; auto. apply find_some in Ef. apply Ef.
  - intros H k Hk. inversion H; subst ks. auto.
Qed.

(* ---------- which key is announced, which is served ---------- *)
Lemma find_recent_sound now ks k : find_recent_key now ks = Some k -> In k ks /\ cookie_recent_at now (k_time k).
Proof.
  destruct consts as (_ & _ & C3). unfold cookie_recent_at.
  induction ks as [|x r IH]; cbn [find_recent_key]; [discriminate|]. rewrite C3.
  destruct (now - 300 <? k_time x) eqn:E.
  - intros H. inversion H; subst. split; [left; reflexivity|lia].
  - intros H. destruct (IH H). split; [right; assumption|assumption].
Qed.

Lemma find_key_by_id_sound ks id k : find_key_by_id ks id = Some k -> In k ks /\ k_id k = id.
Proof.
  induction ks as [|x r IH]; cbn [find_key_by_id]; [discriminate|].
  destruct (k_id x =? id)%N eqn:E.
  - intros H. inversion H; subst. split; [left; reflexivity|apply N.eqb_eq; exact E].
  - intros H. destruct (IH H). split; [right; assumption|assumption].
Qed.

(* every key the connection's keyring ever holds has an origin at some earlier attempt *)
Theorem keys_origin w : forall n k, In k (keys_before w n) -> exists j, (N.to_nat j < Nat.max n 1)%nat /\ key_origin w j k.
Proof.
  induction n as [|n IH]; intros k H; cbn [keys_before] in H.
  - unfold keyring_new in H. destruct (reload w (w_dir_private0 w) 0%N false) as [ks|] eqn:E; [|destruct H].
    exists 0%N. split; [cbn; lia|]. eapply reload_sound; eauto.
  - unfold get_best_key in H. destruct (find_recent_key _ (keys_before w n)).
    + cbn [fst] in H. destruct (IH _ H) as (j & Hj & Ho). exists j. split; [lia|exact Ho].
    + destruct (reload w (w_dir_private w (N.of_nat n)) (N.of_nat n) true) as [ks|] eqn:E; cbn [fst] in H.
      * exists (N.of_nat n). split; [lia|]. eapply reload_sound; eauto.
      * destruct (IH _ H) as (j & Hj & Ho). exists j. split; [lia|exact Ho].
Qed.

Theorem best_key_recent w k ks id : snd (get_best_key w k ks) = Some id ->
  exists key, In key (fst (get_best_key w k ks)) /\ k_id key = id /\ cookie_recent_at (w_now w k) (k_time key).
Proof.
  unfold get_best_key. destruct (find_recent_key (w_now w k) ks) as [key|] eqn:E.
  - cbn [fst snd]. intros H. inversion H; subst. destruct (find_recent_sound _ _ _ E). exists key. auto.
  - destruct (reload w (w_dir_private w k) k true) as [ks'|]; cbn [fst snd]; [|discriminate].
    destruct (find_recent_key (w_now w k) ks') as [key|] eqn:E'; [|discriminate].
    intros H. inversion H; subst. destruct (find_recent_sound _ _ _ E'). exists key. auto.
Qed.

(* ---------- context names ---------- *)
Theorem validate_context_spec ctx : validate_context ctx = true <-> spec_context_ok ctx.
Proof.
  unfold validate_context, spec_context_ok, validate_ascii. rewrite !andb_true_iff, !forallb_forall. split.
  - intros [[H1 H2] H3]. split; [destruct ctx; [discriminate|discriminate]|].
    intros c Hc. specialize (H2 c Hc). specialize (H3 c Hc). unfold is_ascii, is_blank in *. lia.
  - intros [H1 H2]. repeat split.
    + destruct ctx; [congruence|reflexivity].
    + intros c Hc. specialize (H2 c Hc). unfold is_ascii. lia.
    + intros c Hc. specialize (H2 c Hc). unfold is_blank. lia.
Qed.

(* ---------- completeness on well-formed lines ---------- *)
Lemma digits_dec : forall ds acc any rest, forallb is_digit ds = true ->
  digits 10 (ds ++ 32%N :: rest) acc any = (dec_val ds acc, any || negb (is_empty ds), 32%N :: rest).
Proof.
  induction ds as [|c r IH]; intros acc any rest H.
  - cbn. rewrite orb_false_r. reflexivity.
  - cbn [forallb] in H. apply andb_true_iff in H. destruct H as [Hc Hr].
    cbn [app digits dec_val is_empty negb]. unfold digit_val. unfold is_digit in Hc. rewrite Hc.
    assert (X : (c - 48 <? 10)%N = true) by lia. rewrite X. rewrite IH by exact Hr. rewrite orb_true_r.
    reflexivity.
Qed.

Lemma digit_cases c : is_digit c = true ->
  c = 48%N \/ c = 49%N \/ c = 50%N \/ c = 51%N \/ c = 52%N \/ c = 53%N \/ c = 54%N \/ c = 55%N \/ c = 56%N \/ c = 57%N.
Proof. unfold is_digit. lia. Qed.

Lemma strtol_decimal f n rest : spec_decimal f = Some n -> (n <= LONG_MAX)%N ->
  strtol_prefix (f ++ 32%N :: rest) = Some (Z.of_N n, 32%N :: rest).
Proof.
  unfold spec_decimal. destruct f as [|c r]; [discriminate|].
  destruct (N.eq_dec c 48) as [->|Hn].
  - destruct r; [|discriminate]. intros H Hle. inversion H; subst. reflexivity.
  - assert (Hm : (match c with 48%N => match r with [] => Some 0%N | _ :: _ => None end
                  | _ => if forallb is_digit (c :: r) then Some (dec_val (c :: r) 0) else None end)
                 = (if forallb is_digit (c :: r) then Some (dec_val (c :: r) 0) else None)).
    { destruct c as [|[[[[[[?|?|]|[?|?|]|]|[[?|?|]|[?|?|]|]|]|[[[?|?|]|[?|?|]|]|[[?|?|]|[?|?|]|]|]|]|[[[[?|?|]|[?|?|]|]|[[?|?|]|[?|?|]|]|]|[[[?|?|]|[?|?|]|]|[[?|?|]|[?|?|]|]|]|]|]|[[[[[?|?|]|[?|?|]|]|[[?|?|]|[?|?|]|]|]|[[[?|?|]|[?|?|]|]|[[?|?|]|[?|?|]|]|]|]|[[[[?|?|]|[?|?|]|]|[[?|?|]|[?|?|]|]|]|[[[?|?|]|[?|?|]|]|[[?|?|]|[?|?|]|]|]|]|]|]]; try reflexivity; congruence. }
    rewrite Hm. clear Hm.
    destruct (forallb is_digit (c :: r)) eqn:Ed; [|discriminate]. intros H Hle. inversion H; subst n. clear H.
    assert (Hc : is_digit c = true) by (cbn [forallb] in Ed; apply andb_true_iff in Ed; apply Ed).
    unfold strtol_prefix.
    assert (Hle' : (LONG_MAX <? dec_val (c :: r) 0)%N = false) by (apply N.ltb_ge; exact Hle). clear Hle.
    destruct (digit_cases c Hc) as [X|[X|[X|[X|[X|[X|[X|[X|[X|X]]]]]]]]]; [congruence|..]; subst c;
      cbn [app];
      (match goal with |- context [skip_spaces ?x] => change (skip_spaces x) with x end);
      cbv beta iota;
      (match goal with |- context [digits ?b (?d :: r ++ 32%N :: rest) 0%N false] =>
         change (d :: r ++ 32%N :: rest) with ((d :: r) ++ 32%N :: rest); rewrite (digits_dec (d :: r) 0%N false rest Ed) end);
      cbn [orb negb is_empty]; rewrite Hle'; reflexivity.
Qed.

Lemma span_field_app s : let '(f, r) := span_field s in s = f ++ r /\ (r = [] \/ exists r', r = 32%N :: r').
Proof.
  induction s as [|c t IH]; cbn [span_field]; [split; auto|].
  destruct (c =? 32)%N eqn:E.
  - apply N.eqb_eq in E. subst. split; [reflexivity|right; eauto].
  - destruct (span_field t) as [f r]. destruct IH as [H1 H2]. split; [cbn; congruence|exact H2].
Qed.

Lemma spec_decimal_head f n : spec_decimal f = Some n -> exists c r, f = c :: r /\ is_digit c = true.
Proof.
  unfold spec_decimal. destruct f as [|c r]; [discriminate|]. intros H. exists c, r. split; [reflexivity|].
  destruct (N.eq_dec c 48) as [->|Hn]; [reflexivity|].
  destruct (forallb is_digit (c :: r)) eqn:E.
  - cbn [forallb] in E. apply andb_true_iff in E. apply E.
  - exfalso. revert H.
    destruct c as [|[[[[[[?|?|]|[?|?|]|]|[[?|?|]|[?|?|]|]|]|[[[?|?|]|[?|?|]|]|[[?|?|]|[?|?|]|]|]|]|[[[[?|?|]|[?|?|]|]|[[?|?|]|[?|?|]|]|]|[[[?|?|]|[?|?|]|]|[[?|?|]|[?|?|]|]|]|]|]|[[[[[?|?|]|[?|?|]|]|[[?|?|]|[?|?|]|]|]|[[[?|?|]|[?|?|]|]|[[?|?|]|[?|?|]|]|]|]|[[[[?|?|]|[?|?|]|]|[[?|?|]|[?|?|]|]|]|[[[?|?|]|[?|?|]|]|[[?|?|]|[?|?|]|]|]|]|]|]]; try discriminate; congruence.
Qed.

Lemma skip_blanks_digit c r : is_digit c = true -> skip_blanks (32%N :: c :: r) = c :: r.
Proof.
  intros H. cbn [skip_blanks]. change (is_blank 32) with true. cbv iota. cbn [skip_blanks].
  assert (X : is_blank c = false) by (unfold is_blank, is_digit in *; lia). rewrite X. reflexivity.
Qed.

(* a line that the specification calls a cookie line, with values in range and inside the window, is loaded as that cookie *)
Theorem parse_key_line_complete now l id t cookie :
  spec_cookie_line l = Some (id, t, cookie) -> Z.of_N id <= INT32_MAX -> t <= Z.of_N LONG_MAX -> cookie_kept_at now t ->
  parse_key_line now l = Some (mkKey id t cookie).
Proof.
  destruct consts as (C1 & C2 & _). unfold spec_cookie_line, cookie_kept_at.
  pose proof (span_field_app l) as S1. destruct (span_field l) as [f1 r1]. destruct S1 as [L1 _].
  destruct r1 as [|c1 r1']; [discriminate|].
  destruct (N.eq_dec c1 32) as [->|Hn].
  2:{ intros H. exfalso. revert H.
      destruct c1 as [|[[[[[[?|?|]|[?|?|]|]|[[?|?|]|[?|?|]|]|]|[[[?|?|]|[?|?|]|]|[[?|?|]|[?|?|]|]|]|]|[[[[?|?|]|[?|?|]|]|[[?|?|]|[?|?|]|]|]|[[[?|?|]|[?|?|]|]|[[?|?|]|[?|?|]|]|]|]|]|[[[[[?|?|]|[?|?|]|]|[[?|?|]|[?|?|]|]|]|[[[?|?|]|[?|?|]|]|[[?|?|]|[?|?|]|]|]|]|[[[[?|?|]|[?|?|]|]|[[?|?|]|[?|?|]|]|]|[[[?|?|]|[?|?|]|]|[[?|?|]|[?|?|]|]|]|]|]|]]; try discriminate; congruence. }
  pose proof (span_field_app r1') as S2. destruct (span_field r1') as [f2 r2]. destruct S2 as [L2 _].
  destruct r2 as [|c2 f3]; [discriminate|].
  destruct (N.eq_dec c2 32) as [->|Hn].
  2:{ intros H. exfalso. revert H.
      destruct c2 as [|[[[[[[?|?|]|[?|?|]|]|[[?|?|]|[?|?|]|]|]|[[[?|?|]|[?|?|]|]|[[?|?|]|[?|?|]|]|]|]|[[[[?|?|]|[?|?|]|]|[[?|?|]|[?|?|]|]|]|[[[?|?|]|[?|?|]|]|[[?|?|]|[?|?|]|]|]|]|]|[[[[[?|?|]|[?|?|]|]|[[?|?|]|[?|?|]|]|]|[[[?|?|]|[?|?|]|]|[[?|?|]|[?|?|]|]|]|]|[[[[?|?|]|[?|?|]|]|[[?|?|]|[?|?|]|]|]|[[[?|?|]|[?|?|]|]|[[?|?|]|[?|?|]|]|]|]|]|]]; try discriminate; congruence. }
  destruct (spec_decimal f1) as [id'|] eqn:D1; [|discriminate].
  destruct (spec_decimal f2) as [t'|] eqn:D2; [|discriminate].
  destruct f3 as [|h0 hr]; [discriminate|].
  destruct (unhex (h0 :: hr)) as [ck|] eqn:U; [|discriminate].
  intros H Hid Ht [Hlo Hhi]. inversion H; subst id' t cookie. clear H.
  unfold parse_key_line. rewrite C1, C2. subst l r1'.
  rewrite (strtol_decimal f1 id _ D1) by (unfold INT32_MAX, LONG_MAX in *; lia).
  assert (E1 : (INT32_MAX <? Z.of_N id) || (Z.of_N id <? 0) = false) by lia. rewrite E1.
  destruct (spec_decimal_head _ _ D2) as (d & dr & Hf2 & Hd).
  rewrite Hf2 at 1. cbn [app]. rewrite (skip_blanks_digit d _ Hd).
  change (d :: dr ++ 32%N :: h0 :: hr) with ((d :: dr) ++ 32%N :: h0 :: hr). rewrite <- Hf2.
  rewrite (strtol_decimal f2 t' _ D2) by lia.
  assert (E2 : (Z.of_N t' <? 0) || (now + 300 <? Z.of_N t') || (Z.of_N t' <? now - 420) = false) by lia. rewrite E2.
  (* the cookie *)
  assert (Hh : hexv h0 <> None) by (cbn [unhex] in U; destruct hr; [discriminate|]; destruct (hexv h0); [discriminate|discriminate]).
  assert (Hb : is_blank h0 = false).
  { unfold is_blank. unfold hexv in Hh. destruct ((48 <=? h0) && (h0 <=? 57))%N eqn:A; [lia|].
    destruct ((97 <=? h0) && (h0 <=? 102))%N eqn:B; [lia|]. destruct ((65 <=? h0) && (h0 <=? 70))%N eqn:C; [lia|congruence]. }
  cbn [skip_blanks]. change (is_blank 32) with true. cbv iota. cbn [skip_blanks]. rewrite Hb. cbn [is_empty].
  pose proof (hex_loop_strict (h0 :: hr) [] 0%N) as X. rewrite U in X. unfold hex_decode. rewrite X. cbn [rev app].
  rewrite N.eqb_refl. rewrite N2Z.id. reflexivity.
Qed.

(* ---------- what the handshake environment built on this keyring guarantees ---------- *)
Section Env.
  Variables (w : kworld) (sock : creds) (allowed : option (list bytes)) (guid : bytes) (fdp asserts : bool)
            (puid : N) (userdb : bytes -> option N) (ctx : bytes) (chal : N -> option bytes).
  Let e := env_of_world w sock allowed guid fdp asserts puid userdb ctx chal.

  (* the keyring object exists only for a context name the specification allows *)
  Theorem env_keyring_ok : e_keyring_ok e = true <-> spec_context_ok ctx.
  Proof. apply validate_context_spec. Qed.

  (* a cookie that can make a response succeed at attempt k is the secret of a key that entered the keyring from
     a file line inside the validity window of the moment it was read (so neither expired nor future-dated), or
     from this server's own generator -- at some attempt j <= k *)
  Theorem env_cookie_origin k id : e_cookie e k id <> [] ->
    exists key j, find_key_by_id (keys_after w k) id = Some key /\ k_id key = id /\
                  e_cookie e k id = hex_encode (k_secret key) /\
                  (j <= k)%N /\ key_origin w j key /\ cookie_kept_at (w_now w j) (k_time key).
  Proof.
    unfold e. cbn [env_of_world e_cookie]. unfold get_hex_key.
    destruct (find_key_by_id (keys_after w k) id) as [key|] eqn:E; [|congruence].
    intros _. destruct (find_key_by_id_sound _ _ _ E) as [Hin Hid].
    unfold keys_after in Hin. destruct (keys_origin w _ _ Hin) as (j & Hj & Ho).
    exists key, j. repeat split; auto; [lia| |].
    - destruct Ho as [(l & Hl & Hp)|(Ht & _)].
      + apply parse_key_line_sound in Hp. apply Hp.
      + rewrite Ht. unfold cookie_kept_at. lia.
    - destruct Ho as [(l & Hl & Hp)|(Ht & _)].
      + apply parse_key_line_sound in Hp. apply Hp.
      + rewrite Ht. unfold cookie_kept_at. lia.
  Qed.

  (* the id announced with the k-th challenge belongs to a key that is recent at that moment *)
  Theorem env_best_key_recent k id : e_best_key e k = Some id ->
    exists key, In key (keys_after w k) /\ k_id key = id /\ cookie_recent_at (w_now w k) (k_time key).
  Proof.
    unfold e. cbn [env_of_world e_best_key]. intros H. apply best_key_recent in H.
    destruct H as (key & Hin & Hid & Hr). exists key. split; [|auto].
    unfold keys_after. cbn [keys_before]. rewrite N2Nat.id. exact Hin.
  Qed.
End Env.

(* no origin, no cookie: an id for which no line of the file ever loads and which this server never generated
   cannot be used to authenticate *)
Theorem env_no_origin_no_cookie (w : kworld) sock allowed guid fdp asserts puid userdb ctx chal k id :
  (forall j l key, (j <= k)%N -> In l (w_file w j) -> parse_key_line (w_now w j) l = Some key -> k_id key <> id) ->
  (forall j, (j <= k)%N -> ~ In id (w_new_ids w j)) ->
  e_cookie (env_of_world w sock allowed guid fdp asserts puid userdb ctx chal) k id = [].
Proof.
  intros Hf Hn.
  destruct (e_cookie (env_of_world w sock allowed guid fdp asserts puid userdb ctx chal) k id) as [|c0 cr] eqn:E; [reflexivity|].
  exfalso.
  assert (Hne : e_cookie (env_of_world w sock allowed guid fdp asserts puid userdb ctx chal) k id <> []) by (rewrite E; discriminate).
  destruct (env_cookie_origin w sock allowed guid fdp asserts puid userdb ctx chal k id Hne) as (key & j & _ & Hid & _ & Hj & Ho & _).
  destruct Ho as [(l & Hl & Hp)|(_ & Hi & _)].
  - eapply Hf; eauto.
  - rewrite Hid in Hi. eapply Hn; eauto.
Qed.

Local Open Scope N_scope.
(* the literal reading "only lines of the specified format are loaded" does not hold: numbers are read by strtol base 0 *)
Definition keyring_line_full_statement : Prop :=
  forall now l k, parse_key_line now l = Some k -> spec_cookie_line l = Some (k_id k, k_time k, k_secret k).
Theorem keyring_line_refuted : ~ keyring_line_full_statement.
Proof.
  intros H. specialize (H 100%Z [48; 49; 48; 32; 49; 48; 48; 32; 97; 98] (mkKey 8 100%Z [171])).
  vm_compute in H. specialize (H eq_refl). discriminate.
Qed.
