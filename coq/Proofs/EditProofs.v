(* Laws of the abstract header editor and of message construction (Wire/HeaderEdit.v). *)
From DV Require Import Lib.Base Spec.Codec Wire.HeaderEdit.
Local Open Scope N_scope.

Lemma get_set_same fs c v : get_field (set_field fs c v) c = Some v.
Proof.
  unfold get_field. induction fs as [|f r IH]; cbn [set_field find].
  - cbn. rewrite N.eqb_refl. reflexivity.
  - destruct (sf_code f =? c) eqn:E; cbn [find sf_code mk_field].
    + rewrite N.eqb_refl. reflexivity.
    + rewrite E. exact IH.
Qed.

Lemma get_set_other fs c c' v : c' <> c -> get_field (set_field fs c v) c' = get_field fs c'.
Proof.
  intros Hne. unfold get_field. induction fs as [|f r IH]; cbn [set_field find].
  - cbn. replace (c =? c') with false by (symmetry; apply N.eqb_neq; congruence). reflexivity.
  - destruct (sf_code f =? c) eqn:E; cbn [find sf_code mk_field].
    + apply N.eqb_eq in E. rewrite E.
      replace (c =? c') with false by (symmetry; apply N.eqb_neq; congruence). reflexivity.
    + destruct (sf_code f =? c'); [reflexivity|exact IH].
Qed.

(* all other fields keep their values AND their relative order *)
Lemma set_preserves_others fs c v : del_field (set_field fs c v) c = del_field fs c.
Proof.
  unfold del_field. induction fs as [|f r IH]; cbn [set_field filter].
  - cbn. rewrite N.eqb_refl. reflexivity.
  - destruct (sf_code f =? c) eqn:E; cbn [filter sf_code mk_field].
    + rewrite N.eqb_refl. reflexivity.
    + rewrite E. cbn [negb]. rewrite IH. reflexivity.
Qed.

Lemma get_del_same fs c : get_field (del_field fs c) c = None.
Proof.
  unfold get_field, del_field. induction fs as [|f r IH]; [reflexivity|].
  cbn [filter]. destruct (sf_code f =? c) eqn:E; cbn [negb]; [exact IH|]. cbn [find]. rewrite E. exact IH.
Qed.

Lemma get_del_other fs c c' : c' <> c -> get_field (del_field fs c) c' = get_field fs c'.
Proof.
  intros Hne. unfold get_field, del_field. induction fs as [|f r IH]; [reflexivity|].
  cbn [filter find]. destruct (sf_code f =? c) eqn:E; cbn [negb].
  - apply N.eqb_eq in E. replace (sf_code f =? c') with false by (symmetry; apply N.eqb_neq; congruence). exact IH.
  - cbn [find]. destruct (sf_code f =? c'); [reflexivity|exact IH].
Qed.

Lemma del_commutes_filter fs c c' : del_field (del_field fs c) c' = del_field (del_field fs c') c.
Proof.
  unfold del_field. induction fs as [|f r IH]; [reflexivity|]. cbn [filter].
  destruct (sf_code f =? c) eqn:E1; destruct (sf_code f =? c') eqn:E2; cbn [negb filter]; rewrite ?E1, ?E2; cbn [negb]; rewrite ?IH; reflexivity.
Qed.

(* setting a field never adds or removes any other field *)
Lemma set_frame fs c v c' : c' <> c -> del_field (del_field (set_field fs c v) c') c = del_field (del_field fs c') c.
Proof. intros _. rewrite del_commutes_filter, set_preserves_others, del_commutes_filter. reflexivity. Qed.

Lemma strip_known fs c : c <= 10 -> get_field (strip_unknown fs) c = get_field fs c.
Proof.
  intros Hc. unfold get_field, strip_unknown. induction fs as [|f r IH]; [reflexivity|].
  cbn [filter find]. destruct (sf_code f <=? 10) eqn:E.
  - cbn [find]. destruct (sf_code f =? c); [reflexivity|exact IH].
  - assert (Hne : (sf_code f =? c) = false).
    { apply N.eqb_neq. intros Heq. apply N.leb_gt in E. rewrite Heq in E. apply N.lt_nge in E. apply E. exact Hc. }
    rewrite Hne. exact IH.
Qed.

Lemma strip_removes fs : forallb (fun f => sf_code f <=? 10) (strip_unknown fs) = true.
Proof.
  unfold strip_unknown. induction fs as [|f r IH]; [reflexivity|]. cbn [filter].
  destruct (sf_code f <=? 10) eqn:E; [cbn [forallb]; rewrite E; exact IH|exact IH].
Qed.

Lemma strip_keeps_known_order fs : strip_unknown fs = filter (fun f => sf_code f <=? 10) fs.
Proof. reflexivity. Qed.

(* an edit touches nothing but the field list *)
Lemma edit_frame m e :
  s_le (apply_edit m e) = s_le m /\ s_type (apply_edit m e) = s_type m /\ s_flags (apply_edit m e) = s_flags m /\
  s_serial (apply_edit m e) = s_serial m /\ s_sig (apply_edit m e) = s_sig m /\ s_body (apply_edit m e) = s_body m.
Proof. destruct e; repeat split; reflexivity. Qed.

Lemma edits_frame : forall es m,
  let m' := fold_left apply_edit es m in
  s_le m' = s_le m /\ s_type m' = s_type m /\ s_flags m' = s_flags m /\ s_serial m' = s_serial m /\ s_sig m' = s_sig m /\ s_body m' = s_body m.
Proof.
  induction es as [|e r IH]; intros m; cbn [fold_left]; [repeat split; reflexivity|].
  specialize (IH (apply_edit m e)). cbn zeta in IH. destruct IH as (A & B & C & D & E & F).
  destruct (edit_frame m e) as (A' & B' & C' & D' & E' & F'). repeat split; congruence.
Qed.

(* construction / copy / byte-order conversion *)
Lemma swap_involutive m : swap_order (swap_order m) = m.
Proof. destruct m. unfold swap_order. cbn. rewrite negb_involutive. reflexivity. Qed.

Lemma swap_same_values m :
  s_fields (swap_order m) = s_fields m /\ s_body (swap_order m) = s_body m /\ s_sig (swap_order m) = s_sig m /\
  s_type (swap_order m) = s_type m /\ s_flags (swap_order m) = s_flags m /\ s_serial (swap_order m) = s_serial m.
Proof. repeat split; reflexivity. Qed.

Lemma copy_equal_serial0 m :
  s_serial (copy_msg m) = 0 /\ s_fields (copy_msg m) = s_fields m /\ s_body (copy_msg m) = s_body m /\ s_sig (copy_msg m) = s_sig m /\
  s_type (copy_msg m) = s_type m /\ s_flags (copy_msg m) = s_flags m /\ s_le (copy_msg m) = s_le m.
Proof. repeat split; reflexivity. Qed.

Lemma build_body le t f s es body : s_body (build le t f s es body) = body /\ s_sig (build le t f s es body) = sig_of_vals body.
Proof. split; reflexivity. Qed.

Lemma build_signature_field le t f s es b bs :
  get_field (s_fields (build le t f s es (b :: bs))) 8 = Some (VStr 103 (sig_of_vals (b :: bs))).
Proof. unfold build. cbn [s_fields]. apply get_set_same. Qed.
