(* C07: the indexed matchmaker of bus/signals.c (Match/Index.v: pools per message type, hash by interface,
   garbage collection of empty entries) against the flat rule list of Match/Bus.v, for every history. *)
From DV Require Import Lib.Base Match.Rule Match.Matcher Match.Bus Match.Index Spec.MatchSpec
  Proofs.MatchRecipients Proofs.MatchSemantics Proofs.MatchHistory.
From Coq Require Import ZArith ZifyBool ZifyN ZifyNat Permutation.
Local Open Scope N_scope.

(* ---- the hash table ------------------------------------------------------------------------------------ *)
Lemma hash_lookup_none h k : hash_lookup h k = None <-> ~ In k (map fst h).
Proof.
  induction h as [|[k' l] h IH]; simpl; [tauto|].
  destruct (bytes_eqb k' k) eqn:E.
  - apply bytes_eqb_eq in E. subst. split; [discriminate | intros H; exfalso; apply H; now left].
  - rewrite IH. split; [intros H [F|F]; [subst; now rewrite bytes_eqb_refl in E | auto] | tauto].
Qed.

Lemma hash_lookup_replace_same h k l : hash_lookup h k <> None -> hash_lookup (hash_replace h k l) k = Some l.
Proof.
  induction h as [|[k' l'] h IH]; simpl; [congruence|].
  destruct (bytes_eqb k' k) eqn:E; simpl; rewrite E; auto.
Qed.

Lemma hash_lookup_replace_other h k l k' : k' <> k -> hash_lookup (hash_replace h k l) k' = hash_lookup h k'.
Proof.
  intros Hne. induction h as [|[k0 l0] h IH]; simpl; [reflexivity|].
  destruct (bytes_eqb k0 k) eqn:E; simpl.
  - apply bytes_eqb_eq in E. subst k0. destruct (bytes_eqb k k') eqn:E2; [apply bytes_eqb_eq in E2; congruence | reflexivity].
  - destruct (bytes_eqb k0 k'); auto.
Qed.

Lemma hash_lookup_remove_same h k : hash_lookup (hash_remove h k) k = None.
Proof.
  induction h as [|[k' l'] h IH]; simpl; [reflexivity|].
  destruct (bytes_eqb k' k) eqn:E; simpl; [assumption | now rewrite E].
Qed.

Lemma hash_lookup_remove_other h k k' : k' <> k -> hash_lookup (hash_remove h k) k' = hash_lookup h k'.
Proof.
  intros Hne. induction h as [|[k0 l0] h IH]; simpl; [reflexivity|].
  destruct (bytes_eqb k0 k) eqn:E; simpl.
  - apply bytes_eqb_eq in E. subst k0. destruct (bytes_eqb k k') eqn:E2; [apply bytes_eqb_eq in E2; congruence | assumption].
  - destruct (bytes_eqb k0 k'); auto.
Qed.

Lemma hash_lookup_app_other h k l k' : k' <> k -> hash_lookup (h ++ [(k, l)]) k' = hash_lookup h k'.
Proof.
  intros Hne. induction h as [|[k0 l0] h IH]; simpl.
  - destruct (bytes_eqb k k') eqn:E; [apply bytes_eqb_eq in E; congruence | reflexivity].
  - destruct (bytes_eqb k0 k'); auto.
Qed.

Lemma hash_lookup_app_same h k l : hash_lookup h k = None -> hash_lookup (h ++ [(k, l)]) k = Some l.
Proof.
  induction h as [|[k0 l0] h IH]; simpl; [now rewrite bytes_eqb_refl|].
  destruct (bytes_eqb k0 k); [discriminate | assumption].
Qed.

Lemma keys_replace h k l : map fst (hash_replace h k l) = map fst h.
Proof. induction h as [|[k' l'] h IH]; simpl; [reflexivity|]. destruct (bytes_eqb k' k); simpl; congruence. Qed.

Lemma nodup_remove h k : NoDup (map fst h) -> NoDup (map fst (hash_remove h k)).
Proof.
  induction h as [|[k' l'] h IH]; simpl; [auto|]. intros H. inversion H; subst.
  destruct (bytes_eqb k' k); simpl; [auto|]. constructor; [|auto].
  intros F. apply H2. unfold hash_remove in F. apply in_map_iff in F. destruct F as [e [E1 E2]].
  apply filter_In in E2. apply in_map_iff. exists e. tauto.
Qed.

(* what is stored, as a multiset: replacing the list under k *)
Definition hash_set (h : list (bytes * list rule)) (k : bytes) (l : list rule) :=
  match l with
  | [] => hash_remove h k
  | _ => match hash_lookup h k with Some _ => hash_replace h k l | None => h ++ [(k, l)] end
  end.

Lemma flat_remove_notin h k : ~ In k (map fst h) -> hash_remove h k = h.
Proof.
  induction h as [|[k' l'] h IH]; simpl; [reflexivity|]. intros H.
  destruct (bytes_eqb k' k) eqn:E; [apply bytes_eqb_eq in E; subst; exfalso; apply H; now left|].
  simpl. rewrite IH; [reflexivity | tauto].
Qed.

Lemma hash_set_perm h k l : NoDup (map fst h) ->
  Permutation (flat_map snd (hash_set h k l) ++ or_nil (hash_lookup h k)) (flat_map snd h ++ l).
Proof.
  intros Hnd. assert (Hrm : Permutation (flat_map snd (hash_remove h k) ++ or_nil (hash_lookup h k)) (flat_map snd h)).
  { induction h as [|[k' l'] h IH]; simpl; [constructor|]. inversion Hnd; subst.
    destruct (bytes_eqb k' k) eqn:E; simpl.
    - apply bytes_eqb_eq in E. subst k'. rewrite (flat_remove_notin h k H1). apply Permutation_app_comm.
    - rewrite <- app_assoc. apply Permutation_app_head. apply IH. assumption. }
  assert (Hrp : hash_lookup h k <> None ->
                Permutation (flat_map snd (hash_replace h k l) ++ or_nil (hash_lookup h k)) (flat_map snd h ++ l)).
  { clear Hrm. induction h as [|[k' l'] h IH]; simpl; [congruence|]. inversion Hnd; subst. intros Hl.
    destruct (bytes_eqb k' k) eqn:E; simpl.
    - etransitivity; [apply Permutation_app_comm|]. rewrite <- (app_assoc l' (flat_map snd h) l).
      apply Permutation_app_head. apply Permutation_app_comm.
    - rewrite <- !app_assoc. apply Permutation_app_head. apply IH; assumption. }
  unfold hash_set. destruct l as [|x l].
  - rewrite app_nil_r. exact Hrm.
  - destruct (hash_lookup h k) eqn:El.
    + apply Hrp. discriminate.
    + simpl. rewrite app_nil_r. rewrite flat_map_app. simpl. rewrite app_nil_r. reflexivity.
Qed.

Lemma hash_set_nodup h k l : NoDup (map fst h) -> NoDup (map fst (hash_set h k l)).
Proof.
  intros H. unfold hash_set. destruct l; [now apply nodup_remove|].
  destruct (hash_lookup h k) eqn:E.
  - now rewrite keys_replace.
  - rewrite map_app. simpl. apply hash_lookup_none in E.
    apply (Permutation_NoDup (l := k :: map fst h)); [apply Permutation_cons_append|]. constructor; assumption.
Qed.

(* ---- pools and the array of pools ---------------------------------------------------------------------------- *)
Lemma nth_error_update_same {A} : forall (l : list A) n x, (n < length l)%nat -> nth_error (update_nth l n x) n = Some x.
Proof. induction l as [|y l IH]; intros [|n] x H; simpl in *; try lia; [reflexivity | apply IH; lia]. Qed.

Lemma nth_error_update_other {A} : forall (l : list A) n x m, m <> n -> nth_error (update_nth l n x) m = nth_error l m.
Proof.
  induction l as [|y l IH]; intros [|n] x [|m] H; simpl; try reflexivity; try congruence. apply IH. congruence.
Qed.

Lemma update_nth_length {A} : forall (l : list A) n x, length (update_nth l n x) = length l.
Proof. induction l as [|y l IH]; intros [|n] x; simpl; auto. Qed.

Lemma pool_set_hash p k l : pool_set p (Some k) l = mkPool (hash_set (p_by_iface p) k l) (p_without p).
Proof. reflexivity. Qed.

Definition pool_get (p : rule_pool) (i : option bytes) : option (list rule) :=
  match i with None => Some (p_without p) | Some k => hash_lookup (p_by_iface p) k end.

Lemma pool_get_set_same p i l : or_nil (pool_get (pool_set p i l) i) = l.
Proof.
  destruct i as [k|]; [|reflexivity]. rewrite pool_set_hash. simpl. unfold hash_set.
  destruct l as [|x l]; [now rewrite hash_lookup_remove_same|].
  destruct (hash_lookup (p_by_iface p) k) eqn:E.
  - rewrite hash_lookup_replace_same; [reflexivity | congruence].
  - rewrite hash_lookup_app_same; [reflexivity | assumption].
Qed.

Lemma pool_get_set_other p i l i' : i' <> i -> pool_get (pool_set p i l) i' = pool_get p i'.
Proof.
  intros Hne. destruct i as [k|], i' as [k'|]; try reflexivity; try congruence.
  rewrite pool_set_hash. simpl. assert (k' <> k) by congruence. unfold hash_set.
  destruct l as [|x l]; [now apply hash_lookup_remove_other|].
  destruct (hash_lookup (p_by_iface p) k); [now apply hash_lookup_replace_other | now apply hash_lookup_app_other].
Qed.

Lemma iget_pool m t i : iget m t i = match nth_error m (N.to_nat t) with Some p => pool_get p i | None => None end.
Proof. reflexivity. Qed.

Lemma iget_iset_same m t i l : (N.to_nat t < length m)%nat -> or_nil (iget (iset m t i l) t i) = l.
Proof.
  intros H. unfold iset. destruct (nth_error m (N.to_nat t)) as [p|] eqn:E.
  - rewrite iget_pool, nth_error_update_same by assumption. apply pool_get_set_same.
  - apply nth_error_None in E. lia.
Qed.

Lemma iget_iset_other m t i l t' i' : (t', i') <> (t, i) -> iget (iset m t i l) t' i' = iget m t' i'.
Proof.
  intros Hne. unfold iset. destruct (nth_error m (N.to_nat t)) as [p|] eqn:E; [|reflexivity].
  rewrite !iget_pool. destruct (N.eq_dec t' t) as [->|Ht].
  - rewrite nth_error_update_same by (apply nth_error_Some; congruence). rewrite E.
    apply pool_get_set_other. congruence.
  - rewrite nth_error_update_other by lia. reflexivity.
Qed.

Lemma iset_length m t i l : length (iset m t i l) = length m.
Proof. unfold iset. destruct (nth_error m (N.to_nat t)); [apply update_nth_length | reflexivity]. Qed.

Definition pools_nodup (m : imm) : Prop := forall p, In p m -> NoDup (map fst (p_by_iface p)).

Lemma in_update_nth {A} : forall (l : list A) n x y, In y (update_nth l n x) -> y = x \/ In y l.
Proof.
  induction l as [|z l IH]; intros [|n] x y H; simpl in *; try tauto.
  - destruct H as [H|H]; auto.
  - destruct H as [H|H]; [auto|]. destruct (IH _ _ _ H); auto.
Qed.

Lemma iset_nodup m t i l : pools_nodup m -> pools_nodup (iset m t i l).
Proof.
  intros H q Hq. unfold iset in Hq. destruct (nth_error m (N.to_nat t)) as [p|] eqn:E; [|auto].
  apply in_update_nth in Hq. destruct Hq as [->|Hq]; [|auto].
  assert (Hp : NoDup (map fst (p_by_iface p))) by (apply H; eapply nth_error_In; eauto).
  destruct i as [k|]; [rewrite pool_set_hash; simpl; now apply hash_set_nodup | exact Hp].
Qed.

Lemma pool_set_perm p i l : NoDup (map fst (p_by_iface p)) ->
  Permutation (pool_rules (pool_set p i l) ++ or_nil (pool_get p i)) (pool_rules p ++ l).
Proof.
  intros Hnd. unfold pool_rules. destruct i as [k|].
  - rewrite pool_set_hash. simpl. rewrite <- !app_assoc. apply Permutation_app_head. now apply hash_set_perm.
  - simpl. etransitivity; [apply Permutation_app_comm|]. rewrite <- app_assoc.
    apply Permutation_app_head. apply Permutation_app_comm.
Qed.

Lemma all_rules_update : forall (m : imm) n p q, nth_error m n = Some p ->
  forall extra_old extra_new, Permutation (pool_rules q ++ extra_old) (pool_rules p ++ extra_new) ->
  Permutation (all_rules (update_nth m n q) ++ extra_old) (all_rules m ++ extra_new).
Proof.
  induction m as [|p0 m IH]; intros [|n] p q E eo en H; simpl in *; try discriminate.
  - inversion E; subst p0. unfold all_rules. simpl. fold (all_rules m).
    rewrite <- !app_assoc.
    etransitivity; [apply Permutation_app_head, Permutation_app_comm|]. rewrite app_assoc.
    etransitivity; [apply Permutation_app_tail, H|]. rewrite <- app_assoc. apply Permutation_app_head, Permutation_app_comm.
  - unfold all_rules. simpl. fold (all_rules m). fold (all_rules (update_nth m n q)).
    rewrite <- !app_assoc. apply Permutation_app_head. eapply IH; eauto.
Qed.

Lemma all_rules_iset m t i l : pools_nodup m -> (N.to_nat t < length m)%nat ->
  Permutation (all_rules (iset m t i l) ++ or_nil (iget m t i)) (all_rules m ++ l).
Proof.
  intros Hnd Hlen. unfold iset. rewrite iget_pool.
  destruct (nth_error m (N.to_nat t)) as [p|] eqn:E; [|apply nth_error_None in E; lia].
  eapply all_rules_update; [exact E|]. apply pool_set_perm. apply Hnd. eapply nth_error_In; eauto.
Qed.

(* ---- the representation relation --------------------------------------------------------------------------------- *)
Definition key_of (t : N) : option N := if t =? DBUS_MESSAGE_TYPE_INVALID then None else Some t.

(* [im] represents the flat list [mk]: each indexed list is the pool of mk in the same order, and nothing else
   is stored *)
Definition repr (im : imm) (mk : mm) : Prop :=
  length im = N.to_nat DBUS_NUM_MESSAGE_TYPES /\
  pools_nodup im /\
  (forall t i, t < DBUS_NUM_MESSAGE_TYPES -> or_nil (iget im t i) = pool mk (key_of t) i) /\
  Permutation (all_rules im) mk.

Lemma type_index_lt r : type_wf r -> type_index (r_type r) < DBUS_NUM_MESSAGE_TYPES.
Proof.
  unfold type_wf, type_index, valid_type. destruct (r_type r) as [t|]; [|intros _; vm_compute; reflexivity].
  intros H. apply andb_true_iff in H. destruct H as [_ H]. apply N.ltb_lt in H. exact H.
Qed.

Lemma key_of_type_index r : type_wf r -> key_of (type_index (r_type r)) = r_type r.
Proof.
  unfold type_wf, type_index, key_of, valid_type. destruct (r_type r) as [t|]; [|reflexivity].
  intros H. apply andb_true_iff in H. destruct H as [H _]. apply N.ltb_lt in H.
  destruct (t =? DBUS_MESSAGE_TYPE_INVALID) eqn:E; [apply N.eqb_eq in E; lia | reflexivity].
Qed.

Lemma key_of_inj a b : key_of a = key_of b -> a = b.
Proof.
  unfold key_of. destruct (a =? DBUS_MESSAGE_TYPE_INVALID) eqn:Ea, (b =? DBUS_MESSAGE_TYPE_INVALID) eqn:Eb; intros H; try discriminate.
  - apply N.eqb_eq in Ea, Eb. congruence.
  - congruence.
Qed.

Lemma repr_new : repr imm_new [].
Proof.
  split; [reflexivity|]. split.
  - intros p Hp. apply repeat_spec in Hp. subst. constructor.
  - split; [|constructor]. intros t i Ht. unfold pool. simpl.
    assert (t = 0 \/ t = 1 \/ t = 2 \/ t = 3 \/ t = 4) as [->|[->|[->|[->| ->]]]] by (unfold DBUS_NUM_MESSAGE_TYPES in Ht; lia);
      destruct i; reflexivity.
Qed.

Lemma pool_app mk r k i : pool (mk ++ [r]) k i = pool mk k i ++ (if in_pool k i r then [r] else []).
Proof. unfold pool. rewrite filter_app. simpl. destruct (in_pool k i r); reflexivity. Qed.

(* bus_matchmaker_add_rule *)
Lemma repr_add im mk r : repr im mk -> type_wf r -> repr (iadd im r) (add_rule mk r).
Proof.
  intros (Hlen & Hnd & Hget & Hperm) Hwf. unfold iadd, add_rule.
  set (t := type_index (r_type r)). set (i := r_iface r).
  assert (Ht : t < DBUS_NUM_MESSAGE_TYPES) by now apply type_index_lt.
  assert (Htl : (N.to_nat t < length im)%nat) by lia.
  assert (Hk : key_of t = r_type r) by now apply key_of_type_index.
  split; [now rewrite iset_length|]. split; [now apply iset_nodup|]. split.
  - intros t' i' Ht'. rewrite pool_app.
    destruct (in_pool (key_of t') i' r) eqn:Ein.
    + apply in_pool_iff in Ein. destruct Ein as [E1 E2]. rewrite <- Hk in E1. apply key_of_inj in E1. subst t' i'.
      rewrite iget_iset_same by assumption. fold i. rewrite (Hget t i Ht). reflexivity.
    + rewrite iget_iset_other.
      * rewrite app_nil_r. now apply Hget.
      * intros E. inversion E; subst t' i'. assert (in_pool (key_of t) i r = true) by (apply in_pool_iff; auto). congruence.
  - pose proof (all_rules_iset im t i (or_nil (iget im t i) ++ [r]) Hnd Htl) as Hp.
    apply (Permutation_app_inv_r (or_nil (iget im t i))).
    etransitivity; [exact Hp|].
    etransitivity; [apply Permutation_app_head, Permutation_app_comm|]. rewrite app_assoc.
    apply Permutation_app_tail, Permutation_app_tail. exact Hperm.
Qed.

(* bus_matchmaker_remove_rule_by_value: looking only in the value's pool finds the same rule *)
Lemma remove_front_agree : forall l v,
  match remove_first_equal l v, remove_newest_equal (filter (in_pool (r_type v) (r_iface v)) l) v with
  | Some l', Some f' => filter (in_pool (r_type v) (r_iface v)) l' = f'
  | None, None => True
  | _, _ => False
  end.
Proof.
  induction l as [|r l IH]; intros v; simpl; [exact I|].
  destruct (in_pool (r_type v) (r_iface v) r) eqn:Ep; cbn [andb].
  - cbn [remove_newest_equal]. destruct (rule_equal r v); [reflexivity|].
    specialize (IH v). destruct (remove_first_equal l v), (remove_newest_equal (filter _ l) v); try contradiction; [|exact I].
    simpl. rewrite Ep. congruence.
  - specialize (IH v). destruct (remove_first_equal l v), (remove_newest_equal (filter _ l) v); try contradiction; [|exact I].
    simpl. rewrite Ep. exact IH.
Qed.

Lemma filter_rev {A} (f : A -> bool) l : filter f (rev l) = rev (filter f l).
Proof.
  induction l as [|x l IH]; simpl; [reflexivity|]. rewrite filter_app, IH. simpl. destruct (f x); simpl; [reflexivity | now rewrite app_nil_r].
Qed.

Lemma option_eq_dec_bytes (a b : option bytes) : {a = b} + {a <> b}.
Proof. decide equality. apply list_eq_dec. apply N.eq_dec. Qed.

Lemma repr_remove im mk v : repr im mk -> type_wf v ->
  match iremove im v, remove_rule_by_value mk v with
  | Some im', Some mk' => repr im' mk'
  | None, None => True
  | _, _ => False
  end.
Proof.
  intros (Hlen & Hnd & Hget & Hperm) Hwf. unfold iremove, remove_rule_by_value.
  set (t := type_index (r_type v)). set (i := r_iface v).
  assert (Ht : t < DBUS_NUM_MESSAGE_TYPES) by now apply type_index_lt.
  assert (Htl : (N.to_nat t < length im)%nat) by lia.
  assert (Hk : key_of t = r_type v) by now apply key_of_type_index.
  pose proof (Hget t i Ht) as Hold. rewrite Hk in Hold. unfold pool in Hold. fold i in Hold.
  pose proof (remove_front_agree (rev mk) v) as Hag. fold i in Hag. rewrite filter_rev in Hag.
  pose proof (remove_rule_by_value_spec mk v) as Hspec. unfold remove_rule_by_value in Hspec.
  destruct (iget im t i) as [old|] eqn:Eg.
  - simpl in Hold. rewrite <- Hold in Hag.
    destruct (remove_first_equal (rev mk) v) as [l'|], (remove_newest_equal (rev old) v) as [f'|]; try contradiction; [|exact I].
    destruct Hspec as [l1 [x [l2 [Emk [Emk' [Heq Hnewest]]]]]].
    assert (Hpx : in_pool (r_type v) i x = true) by (apply rule_equal_same_pool; assumption).
    split; [now rewrite iset_length|]. split; [now apply iset_nodup|]. split.
    + intros t' i' Ht'. destruct (N.eq_dec t' t) as [->|Hne]; [destruct (option_eq_dec_bytes i' i) as [->|Hni]|].
      * rewrite iget_iset_same by assumption. rewrite Hk. unfold pool. rewrite <- Hag. now rewrite filter_rev.
      * rewrite iget_iset_other by congruence. rewrite (Hget t i' Ht). rewrite Emk, Emk'. unfold pool. rewrite !filter_app. simpl.
        assert (in_pool (key_of t) i' x = false) as ->; [|reflexivity].
        destruct (in_pool (key_of t) i' x) eqn:E; [|reflexivity]. apply in_pool_iff in E. apply in_pool_iff in Hpx. destruct E, Hpx. congruence.
      * rewrite iget_iset_other by congruence. rewrite (Hget t' i' Ht'). rewrite Emk, Emk'. unfold pool. rewrite !filter_app. simpl.
        assert (in_pool (key_of t') i' x = false) as ->; [|reflexivity].
        destruct (in_pool (key_of t') i' x) eqn:E; [|reflexivity]. apply in_pool_iff in E. apply in_pool_iff in Hpx. destruct E as [E1 _], Hpx as [E2 _].
        rewrite <- Hk in E2. rewrite E2 in E1. apply key_of_inj in E1. congruence.
    + pose proof (all_rules_iset im t i (rev f') Hnd Htl) as Hp. rewrite Eg in Hp. simpl in Hp.
      assert (Hnew : rev f' = filter (in_pool (r_type v) i) (l1 ++ l2)).
      { rewrite <- Hag. rewrite <- filter_rev. rewrite Emk'. reflexivity. }
      assert (Hold2 : Permutation old (x :: rev f')).
      { rewrite Hold, Hnew, Emk. rewrite !filter_app. simpl. rewrite Hpx. symmetry. apply Permutation_middle. }
      assert (Hmk : Permutation mk (x :: rev l')) by (rewrite Emk, Emk'; symmetry; apply Permutation_middle).
      apply (Permutation_app_inv_r (rev f')). apply (Permutation_cons_inv (a := x)).
      etransitivity; [apply Permutation_middle|].
      etransitivity; [apply Permutation_app_head; symmetry; exact Hold2|].
      etransitivity; [exact Hp|].
      change (x :: rev l' ++ rev f') with ((x :: rev l') ++ rev f'). apply Permutation_app_tail.
      etransitivity; [exact Hperm | exact Hmk].
  - simpl in Hold. rewrite <- Hold in Hag. simpl in Hag.
    destruct (remove_first_equal (rev mk) v); [contradiction | exact I].
Qed.

(* ---- bus_matchmaker_disconnected ------------------------------------------------------------------------------------ *)
Lemma Permutation_filter {A} (f : A -> bool) l l' : Permutation l l' -> Permutation (filter f l) (filter f l').
Proof.
  induction 1; simpl.
  - constructor.
  - destruct (f x); [now constructor | assumption].
  - destruct (f x), (f y); try reflexivity; try apply perm_swap; now constructor.
  - etransitivity; eauto.
Qed.

Lemma filter_flat_map {A B} (f : B -> bool) (g : A -> list B) l : filter f (flat_map g l) = flat_map (fun x => filter f (g x)) l.
Proof. induction l as [|x l IH]; simpl; [reflexivity|]. now rewrite filter_app, IH. Qed.

Section HashDisc.
  Variable keep : rule -> bool.

  Lemma hash_disc_rules h :
    flat_map snd (filter (fun e : bytes * list rule => match snd e with [] => false | _ => true end)
                         (map (fun e => (fst e, filter keep (snd e))) h)) = filter keep (flat_map snd h).
  Proof.
    induction h as [|[k l] h IH]; simpl; [reflexivity|]. rewrite filter_app, <- IH.
    destruct (filter keep l); reflexivity.
  Qed.

  Lemma hash_disc_lookup h k : NoDup (map fst h) ->
    or_nil (hash_lookup (filter (fun e : bytes * list rule => match snd e with [] => false | _ => true end)
                                (map (fun e => (fst e, filter keep (snd e))) h)) k) = filter keep (or_nil (hash_lookup h k)).
  Proof.
    induction h as [|[k' l] h IH]; intros Hnd; simpl; [reflexivity|]. inversion Hnd; subst.
    destruct (bytes_eqb k' k) eqn:E.
    - destruct (filter keep l) eqn:El; simpl.
      + apply bytes_eqb_eq in E. subst k'. rewrite IH by assumption.
        assert (hash_lookup h k = None) as -> by now apply hash_lookup_none. simpl. now rewrite El.
      + rewrite E. simpl. now rewrite El.
    - destruct (filter keep l) eqn:El; simpl; [|rewrite E]; now apply IH.
  Qed.

  Lemma hash_disc_nodup h : NoDup (map fst h) ->
    NoDup (map fst (filter (fun e : bytes * list rule => match snd e with [] => false | _ => true end)
                           (map (fun e => (fst e, filter keep (snd e))) h))).
  Proof.
    induction h as [|[k l] h IH]; intros Hnd; simpl; [constructor|]. inversion Hnd; subst.
    destruct (filter keep l); simpl; [auto|]. constructor; [|auto].
    intros F. apply H1. apply in_map_iff in F. destruct F as [e [E1 E2]]. apply filter_In in E2. destruct E2 as [E2 _].
    apply in_map_iff in E2. destruct E2 as [e0 [E3 E4]]. subst e. simpl in E1. apply in_map_iff. exists e0. auto.
  Qed.

End HashDisc.

Section Disc.
  Variables (c : conn) (name : bytes).
  Let keep := keep_on_disconnect c name.

  Lemma repr_disconnected im mk : repr im mk -> repr (idisconnected im c name) (matchmaker_disconnected mk c name).
  Proof.
    intros (Hlen & Hnd & Hget & Hperm). unfold idisconnected, matchmaker_disconnected.
    split; [now rewrite map_length|]. split.
    - intros p Hp. apply in_map_iff in Hp. destruct Hp as [p0 [<- Hp0]]. simpl. apply (hash_disc_nodup keep). now apply Hnd.
    - split.
      + intros t i Ht. unfold pool. fold keep.
        assert (filter (in_pool (key_of t) i) (filter (fun r => negb (dropped_on_disconnect c name r)) mk) =
                filter keep (filter (in_pool (key_of t) i) mk)) as ->.
        { clear. induction mk as [|r mk IH]; simpl; [reflexivity|]. unfold keep, keep_on_disconnect in *.
          destruct (negb (dropped_on_disconnect c name r)) eqn:E1, (in_pool (key_of t) i r) eqn:E2; simpl; rewrite ?E1, ?E2; congruence. }
        fold (pool mk (key_of t) i). rewrite <- (Hget t i Ht).
        rewrite !iget_pool. rewrite nth_error_map. destruct (nth_error im (N.to_nat t)) as [p|] eqn:E; [|reflexivity].
        simpl. destruct i as [k|]; simpl; [|reflexivity]. apply (hash_disc_lookup keep). apply Hnd. eapply nth_error_In; eauto.
      + assert (all_rules (map (pool_disconnected c name) im) = filter keep (all_rules im)) as ->.
        { unfold all_rules. rewrite filter_flat_map. clear. induction im as [|p im IH]; simpl; [reflexivity|]. rewrite IH. f_equal.
          unfold pool_rules. simpl. rewrite filter_app. f_equal. apply (hash_disc_rules keep). }
        apply Permutation_filter. exact Hperm.
  Qed.
End Disc.

(* ---- counting and the three driver-level operations ------------------------------------------------------------------- *)
Lemma repr_count im mk c : repr im mk -> icount im c = n_match_rules mk c.
Proof.
  intros (_ & _ & _ & Hperm). unfold icount, n_match_rules, nlen. f_equal.
  apply Permutation_length. apply Permutation_filter. exact Hperm.
Qed.

Lemma repr_recipients im mk ns s a m : repr im mk -> iget_recipients ns im s a m = get_recipients ns mk s a m.
Proof.
  intros (_ & _ & Hget & _). unfold iget_recipients, get_recipients.
  assert (H0 : DBUS_MESSAGE_TYPE_INVALID < DBUS_NUM_MESSAGE_TYPES) by (vm_compute; reflexivity).
  rewrite (Hget _ None H0). change (key_of DBUS_MESSAGE_TYPE_INVALID) with (@None N).
  assert (E2 : match m_iface m with Some i => or_nil (iget im DBUS_MESSAGE_TYPE_INVALID (Some i)) | None => [] end =
               match m_iface m with Some i => pool mk None (Some i) | None => [] end).
  { destruct (m_iface m); [apply (Hget _ _ H0) | reflexivity]. }
  rewrite E2. clear E2.
  destruct (valid_type (m_type m)) eqn:Ev; [|reflexivity].
  assert (Ht : m_type m < DBUS_NUM_MESSAGE_TYPES) by (unfold valid_type in Ev; lia).
  assert (Hk : key_of (m_type m) = Some (m_type m)).
  { unfold key_of. unfold valid_type in Ev. destruct (m_type m =? DBUS_MESSAGE_TYPE_INVALID) eqn:E; [lia | reflexivity]. }
  rewrite (Hget _ None Ht), Hk.
  destruct (m_iface m) as [i|]; [rewrite (Hget _ (Some i) Ht), Hk|]; reflexivity.
Qed.

Lemma repr_handle_add limit priv im mk c text : repr im mk ->
  snd (ihandle_add_match limit priv im c text) = snd (handle_add_match limit priv mk c text) /\
  repr (fst (ihandle_add_match limit priv im c text)) (fst (handle_add_match limit priv mk c text)).
Proof.
  intros H. unfold ihandle_add_match, handle_add_match. rewrite (repr_count im mk c H).
  destruct (limit <=? n_match_rules mk c); [auto|].
  destruct (parse_rule c text) as [| |r] eqn:Ep; auto.
  destruct (r_eaves r && negb priv); [auto|]. simpl. split; [reflexivity|].
  apply repr_add; [assumption|]. apply (parse_rule_ok _ _ _ Ep).
Qed.

Lemma repr_handle_remove im mk c text : repr im mk ->
  snd (ihandle_remove_match im c text) = snd (handle_remove_match mk c text) /\
  repr (fst (ihandle_remove_match im c text)) (fst (handle_remove_match mk c text)).
Proof.
  intros H. unfold ihandle_remove_match, handle_remove_match.
  destruct (parse_rule c text) as [| |r] eqn:Ep; auto.
  assert (Hwf : type_wf r) by apply (parse_rule_ok _ _ _ Ep).
  pose proof (repr_remove im mk r H Hwf) as Hr.
  destruct (iremove im r), (remove_rule_by_value mk r); try contradiction; simpl; auto.
Qed.

Lemma repr_handle_disconnect im mk c name : repr im mk -> repr (ihandle_disconnect im c name) (handle_disconnect mk c name).
Proof.
  intros H. unfold ihandle_disconnect, handle_disconnect. rewrite (repr_count im mk c H).
  destruct (0 <? n_match_rules mk c); [now apply repr_disconnected | assumption].
Qed.

(* ---- two representations of the matchmaker under the same world -------------------------------------------------------- *)
Section Refine.
  Variables (M1 M2 : Type) (R : M1 -> M2 -> Prop).
  Variable rcp1 : names -> M1 -> option conn -> option conn -> msg -> option (list conn).
  Variable rcp2 : names -> M2 -> option conn -> option conn -> msg -> option (list conn).
  Variable add1 : N -> bool -> M1 -> conn -> bytes -> M1 * reply.
  Variable add2 : N -> bool -> M2 -> conn -> bytes -> M2 * reply.
  Variable rm1 : M1 -> conn -> bytes -> M1 * reply.
  Variable rm2 : M2 -> conn -> bytes -> M2 * reply.
  Variable dc1 : M1 -> conn -> bytes -> M1.
  Variable dc2 : M2 -> conn -> bytes -> M2.
  Hypothesis Hrcp : forall ns a b s ad m, R a b -> rcp1 ns a s ad m = rcp2 ns b s ad m.
  Hypothesis Hadd : forall l p a b c t, R a b -> snd (add1 l p a c t) = snd (add2 l p b c t) /\ R (fst (add1 l p a c t)) (fst (add2 l p b c t)).
  Hypothesis Hrm : forall a b c t, R a b -> snd (rm1 a c t) = snd (rm2 b c t) /\ R (fst (rm1 a c t)) (fst (rm2 b c t)).
  Hypothesis Hdc : forall a b c n, R a b -> R (dc1 a c n) (dc2 b c n).

  Definition wrel (w1 : gworld M1) (w2 : gworld M2) : Prop :=
    R (w_mm w1) (w_mm w2) /\ w_names w1 = w_names w2 /\ w_caps w1 = w_caps w2.

  Definition res_rel (r1 : option (gworld M1 * output)) (r2 : option (gworld M2 * output)) : Prop :=
    match r1, r2 with
    | Some (w1, o1), Some (w2, o2) => o1 = o2 /\ wrel w1 w2
    | None, None => True
    | _, _ => False
    end.

  Lemma release_all_rel : forall l ns a b c u acc, R a b ->
    release_all_with M1 rcp1 ns a c u l acc = release_all_with M2 rcp2 ns b c u l acc.
  Proof.
    induction l as [|n l IH]; intros ns a b c u acc HR; cbn [release_all_with]; [reflexivity|].
    destruct (release_one ns c u n) as [ns' [sig|]]; [|now apply IH].
    unfold driver_broadcast_with. rewrite (Hrcp ns' a b None None sig HR).
    destruct (rcp2 ns' b None None sig); [now apply IH | reflexivity].
  Qed.

  Theorem step_refines limit w1 w2 e : wrel w1 w2 ->
    res_rel (step_with M1 rcp1 add1 rm1 dc1 limit w1 e) (step_with M2 rcp2 add2 rm2 dc2 limit w2 e).
  Proof.
    intros (HR & Hn & Hc). destruct w1 as [a ns caps], w2 as [b ns2 caps2]. simpl in *. subst ns2 caps2.
    unfold res_rel, wrel. destruct e as [c u fd|c name|c name|c text|c text|c m nfds|c]; cbn [step_with w_mm w_names w_caps].
    - unfold driver_broadcast_with, after_driver_call_with.
      rewrite (Hrcp _ a b None None _ HR), (Hrcp _ a b (Some c) None _ HR).
      destruct (rcp2 _ b None None _); [|exact I]. destruct (rcp2 _ b (Some c) None _); simpl; auto.
    - destruct (own_plan ns c name) as [[code ns'] sig]. unfold driver_broadcast_with, after_driver_call_with.
      rewrite (Hrcp _ a b (Some c) None _ HR).
      destruct sig as [s|]; [rewrite (Hrcp _ a b None None _ HR); destruct (rcp2 ns' b None None s); [|exact I]|];
        destruct (rcp2 ns' b (Some c) None _); simpl; auto.
    - destruct (release_one ns c (unique_of ns c) name) as [ns' sig]. unfold driver_broadcast_with, after_driver_call_with.
      rewrite (Hrcp _ a b (Some c) None _ HR).
      destruct sig as [s|]; [rewrite (Hrcp _ a b None None _ HR); destruct (rcp2 ns' b None None s); [|exact I]|];
        destruct (rcp2 ns' b (Some c) None _); simpl; auto.
    - destruct (Hadd limit true a b c text HR) as [Hs Hf].
      destruct (add1 limit true a c text) as [a' r1], (add2 limit true b c text) as [b' r2]. simpl in Hs, Hf. subst r2.
      unfold after_driver_call_with. destruct r1; simpl; auto.
      rewrite (Hrcp _ a' b' (Some c) None _ Hf). destruct (rcp2 ns b' (Some c) None _); simpl; auto.
    - destruct (Hrm a b c text HR) as [Hs Hf].
      destruct (rm1 a c text) as [a' r1], (rm2 b c text) as [b' r2]. simpl in Hs, Hf. subst r2.
      unfold after_driver_call_with. destruct r1; simpl; auto.
      rewrite (Hrcp _ a' b' (Some c) None _ Hf). destruct (rcp2 ns b' (Some c) None _); simpl; auto.
    - assert (E : dispatch_with (rcp1 ns a) ns caps c m nfds = dispatch_with (rcp2 ns b) ns caps c m nfds).
      { unfold dispatch_with. destruct (m_dest m) as [d|].
        - destruct (bytes_eqb d S_org_freedesktop_DBus); [reflexivity|]. destruct (owner_of ns d) as [a0|]; [|reflexivity].
          now rewrite (Hrcp ns a b (Some c) (Some a0) m HR).
        - now rewrite (Hrcp ns a b (Some c) None m HR). }
      rewrite E. destruct (dispatch_with (rcp2 ns b) ns caps c m nfds); simpl; auto.
    - specialize (Hdc a b c (unique_of ns c) HR).
      rewrite (release_all_rel _ ns _ _ c (unique_of ns c) [] Hdc).
      destruct (release_all_with M2 rcp2 ns (dc2 b c (unique_of ns c)) c (unique_of ns c) (released_names ns c) []) as [[ns' l]|]; simpl; auto.
  Qed.
End Refine.

(* the indexed world does, event by event, what the flat world does *)
Theorem istep_refines limit (iw : iworld) (w : world) e :
  wrel imm mm repr iw w -> res_rel imm mm repr (istep limit iw e) (step limit w e).
Proof.
  apply step_refines.
  - intros ns a b s ad m H. now apply repr_recipients.
  - intros l p a b c t H. now apply repr_handle_add.
  - intros a b c t H. now apply repr_handle_remove.
  - intros a b c n H. now apply repr_handle_disconnect.
Qed.

(* whole histories, from the empty bus *)
Fixpoint run {W} (st : W -> event -> option (W * output)) (w : W) (es : list event) : list (option output) :=
  match es with
  | [] => []
  | e :: rest => match st w e with
                 | None => [None]
                 | Some (w', o) => Some o :: run st w' rest
                 end
  end.

Theorem index_history limit es :
  run (istep limit) iworld_new es = run (step limit) (mkWorld [] [] []) es.
Proof.
  assert (H : forall es iw w, wrel imm mm repr iw w -> run (istep limit) iw es = run (step limit) w es).
  { induction es0 as [|e es0 IH]; intros iw w Hw; simpl; [reflexivity|].
    pose proof (istep_refines limit iw w e Hw) as Hr. unfold res_rel in Hr.
    destruct (istep limit iw e) as [[iw' o1]|], (step limit w e) as [[w' o2]|]; try contradiction; [|reflexivity].
    destruct Hr as [-> Hw']. f_equal. now apply IH. }
  apply H. split; [apply repr_new|]. split; reflexivity.
Qed.

(* the states of the indexed matchmaker under any AddMatch / RemoveMatch / disconnect history, paired with the flat list *)
Inductive ireachable (limit : N) : imm -> mm -> Prop :=
| ireach_empty : ireachable limit imm_new []
| ireach_add im mk c text priv : ireachable limit im mk ->
    ireachable limit (fst (ihandle_add_match limit priv im c text)) (fst (handle_add_match limit priv mk c text))
| ireach_remove im mk c text : ireachable limit im mk ->
    ireachable limit (fst (ihandle_remove_match im c text)) (fst (handle_remove_match mk c text))
| ireach_disconnect im mk c name : ireachable limit im mk ->
    ireachable limit (ihandle_disconnect im c name) (handle_disconnect mk c name).

Lemma ireachable_repr limit im mk : ireachable limit im mk -> repr im mk /\ reachable limit mk.
Proof.
  induction 1 as [|im mk c text priv _ [IH1 IH2]|im mk c text _ [IH1 IH2]|im mk c name _ [IH1 IH2]].
  - split; [apply repr_new | constructor].
  - split; [now apply repr_handle_add | now constructor].
  - split; [now apply repr_handle_remove | now constructor].
  - split; [now apply repr_handle_disconnect | now constructor].
Qed.

(* The recipient list computed from the pools, in any state the indexed matchmaker can be in: nobody twice, and
   exactly the connections for which SOME stored rule (whatever its pool) matches by the specification. *)
Theorem index_recipients limit im mk ns s a m l :
  ireachable limit im mk ->
  iget_recipients ns im s a m = Some l ->
  NoDup l /\
  forall x, In x l <-> a <> Some x /\ exists r, In r (all_rules im) /\ r_owner r = x /\ spec_matches ns (abs_rule r) s a m = true.
Proof.
  intros Hr Hg. destruct (ireachable_repr _ _ _ Hr) as [Hrep Hreach].
  rewrite (repr_recipients im mk ns s a m Hrep) in Hg.
  destruct (reachable_inv _ _ Hreach) as [Hok _].
  assert (Hwf : Forall type_wf mk) by (eapply Forall_impl; [|exact Hok]; intros r [Hx _]; exact Hx).
  destruct (get_recipients_exact _ _ _ _ _ _ Hwf Hg) as [Hnd [Hin Hnf]].
  split; [assumption|]. destruct Hrep as (_ & _ & _ & Hperm).
  assert (Hmem : forall r, In r (all_rules im) <-> In r mk).
  { intros r. split; intros H; [eapply Permutation_in; eauto | eapply Permutation_in; [symmetry; eauto | assumption]]. }
  rewrite Forall_forall in Hok.
  intros x. rewrite Hin. split.
  - intros [Hne [r [Hr1 [Ho Hf]]]]. split; [assumption|]. exists r. split; [now apply Hmem|]. split; [assumption|].
    apply (matches_spec ns r s a m true); [apply Hok; assumption | exact Hf].
  - intros [Hne [r [Hr1 [Ho Hs]]]]. apply Hmem in Hr1. split; [assumption|]. exists r. split; [assumption|]. split; [assumption|].
    unfold full. destruct (rule_matches ns r s a m false) as [b|] eqn:Em.
    + rewrite (matches_spec ns r s a m b) in Hs; [congruence | apply Hok; assumption | exact Em].
    + exfalso. exact (Hnf r Hr1 Em).
Qed.

(* ---- name ownership changes do not touch the rules -------------------------------------------------------------------- *)
Definition names_only (e : event) : bool :=
  match e with EvHello _ _ _ | EvOwn _ _ | EvRelease _ _ | EvSend _ _ _ => true | _ => false end.

Theorem names_events_keep_rules limit (w w' : world) e o :
  names_only e = true -> step limit w e = Some (w', o) -> w_mm w' = w_mm w.
Proof.
  intros He H. unfold step in H. destruct e; try discriminate; cbn [step_with] in H.
  - destruct (driver_broadcast_with _ _ _ _ _); [|discriminate]. destruct (after_driver_call_with _ _ _ _ _ _); inversion H; reflexivity.
  - destruct (own_plan (w_names w) c name) as [[code ns] sig].
    destruct (match sig with Some s => _ | None => _ end); [|discriminate]. destruct (after_driver_call_with _ _ _ _ _ _); inversion H; reflexivity.
  - destruct (release_one (w_names w) c (unique_of (w_names w) c) name) as [ns sig].
    destruct (match sig with Some s => _ | None => _ end); [|discriminate]. destruct (after_driver_call_with _ _ _ _ _ _); inversion H; reflexivity.
  - destruct (dispatch_with _ _ _ _ _ _); inversion H; reflexivity.
Qed.
