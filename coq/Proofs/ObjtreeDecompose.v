(* C20 proofs, part 8: _dbus_decompose_path returns exactly the elements of the
   path string: complete characterisation of its successful runs, and the tie to
   the object-path grammar of the D-Bus specification (Spec.NamesSpec.spec_path,
   which C16 proves equal to _dbus_validate_path). *)
From DV Require Import Lib.Base ObjTree.ObjTree ObjTree.Decompose Spec.NamesSpec.
From Coq Require Import Arith.
Local Open Scope nat_scope.

Definition slash_free (c : bytes) : Prop := Forall (fun x => x <> SLASH) c.
Definition good_comp (c : bytes) : Prop := c <> [] /\ slash_free c.
(* [] or starts with '/' *)
Definition at_boundary (b : bytes) : Prop := b = [] \/ exists b', b = SLASH :: b'.

Lemma span_comp_app c rest : slash_free c -> at_boundary rest -> span_comp (c ++ rest) = (c, rest).
Proof.
  intros Hc Hb. induction Hc as [|x c Hx Hc IH]; simpl.
  - destruct Hb as [->|[b' ->]]; simpl; auto.
  - destruct (N.eqb x SLASH) eqn:E; [apply N.eqb_eq in E; contradiction|]. rewrite IH. reflexivity.
Qed.

Lemma span_comp_spec : forall s a b, span_comp s = (a, b) -> s = a ++ b /\ slash_free a /\ at_boundary b.
Proof.
  induction s as [|c r IH]; intros a b H; simpl in H.
  - inversion H; subst. repeat split; [constructor | left; auto].
  - destruct (N.eqb c SLASH) eqn:E.
    + inversion H; subst. apply N.eqb_eq in E; subst. repeat split; [constructor | right; eauto].
    + destruct (span_comp r) as [a' b'] eqn:Es. inversion H; subst.
      destruct (IH a' b eq_refl) as (-> & Hf & Hb). repeat split; auto.
      constructor; auto. intros ->. rewrite N.eqb_refl in E. discriminate.
Qed.

Lemma count_slash_app a b : count_slash (a ++ b) = count_slash a + count_slash b.
Proof. induction a as [|x a IH]; simpl; auto. destruct (N.eqb x SLASH); simpl; rewrite IH; reflexivity. Qed.

Lemma count_slash_free c : slash_free c -> count_slash c = 0.
Proof.
  induction 1 as [|x c Hx _ IH]; simpl; auto. destruct (N.eqb x SLASH) eqn:E; auto. apply N.eqb_eq in E; contradiction.
Qed.

Lemma count_slash_flatten cs : Forall good_comp cs -> count_slash (flatten_elems cs) = length cs.
Proof.
  induction 1 as [|c cs [_ Hc] _ IH]; simpl; auto. rewrite ?N.eqb_refl, count_slash_app, count_slash_free, IH; auto.
Qed.

Lemma flatten_boundary cs : at_boundary (flatten_elems cs).
Proof. destruct cs; [left | right]; simpl; eauto. Qed.

(* completeness: every well-formed element list is recovered *)
Lemma comps_complete cs : Forall good_comp cs -> comps (length cs) (flatten_elems cs) = Ok cs.
Proof.
  induction 1 as [|c cs [Hne Hc] _ IH]; simpl; auto. rewrite ?N.eqb_refl.
  rewrite span_comp_app by auto using flatten_boundary. destruct c; [congruence|]. rewrite IH. reflexivity.
Qed.

Lemma good_comp_head c rest : good_comp c -> ~ at_boundary (c ++ rest).
Proof.
  intros [Hne Hf] [H|[b' H]]; destruct c as [|x c]; try congruence; simpl in H; try discriminate.
  inversion H; subst. inversion Hf; subst. congruence.
Qed.

(* soundness *)
Lemma comps_sound : forall n rest cs, comps n rest = Ok cs ->
  Forall good_comp cs /\ length cs = n /\
  (rest = flatten_elems cs \/ exists c cs', cs = c :: cs' /\ rest = c ++ flatten_elems cs').
Proof.
  induction n as [|n IH]; intros rest cs H; simpl in H.
  - destruct rest; inversion H; subst. repeat split; auto.
  - destruct rest as [|c0 r]; [discriminate|].
    match type of H with context [span_comp ?a] => destruct (span_comp a) as [comp r2] eqn:Es end.
    destruct comp as [|x comp]; [discriminate|].
    destruct (comps n r2) as [l| |] eqn:Ec; try discriminate. inversion H; subst cs.
    destruct (IH r2 l Ec) as (Hg & Hl & Hr).
    destruct (span_comp_spec _ _ _ Es) as (Er & Hf & Hb).
    assert (Hgc : good_comp (x :: comp)) by (split; [discriminate | auto]).
    assert (Hr2 : r2 = flatten_elems l).
    { destruct Hr as [->|(c' & l' & -> & ->)]; auto. exfalso. inversion Hg; subst.
      eapply good_comp_head; eauto. }
    subst r2. repeat split; auto; [simpl; congruence|].
    destruct (N.eqb c0 SLASH) eqn:E.
    + apply N.eqb_eq in E; subst c0. left. simpl. rewrite Er. reflexivity.
    + right. exists (x :: comp), l. split; auto.
Qed.

(* complete characterisation of the successful runs of _dbus_decompose_path *)
Lemma decompose_body_spec s cs :
  decompose_body s = Ok cs <->
  (cs = [] /\ exists c, s = [c]) \/ (cs <> [] /\ Forall good_comp cs /\ s = flatten_elems cs).
Proof.
  unfold decompose_body. split.
  - intros H. destruct (1 <? length s) eqn:El.
    + destruct (count_slash s) as [|n] eqn:En.
      * destruct s as [|c [|? ?]]; try discriminate; inversion H; subst; left; eauto.
      * right. destruct (comps_sound _ _ _ H) as (Hg & Hl & [->|(c & cs' & -> & ->)]).
        -- repeat split; auto. destruct cs; [simpl in Hl; discriminate | discriminate].
        -- exfalso. inversion Hg; subst. destruct H2 as [_ Hc].
           rewrite count_slash_app, count_slash_free, count_slash_flatten in En by auto. simpl in Hl, En. lia.
    + destruct s as [|c [|? ?]]; try discriminate; inversion H; subst; left; eauto.
  - intros [[-> [c ->]] | (Hne & Hg & ->)]; [reflexivity|].
    assert (Hlen : 1 <? length (flatten_elems cs) = true).
    { destruct cs as [|c cs]; [congruence|]. inversion Hg; subst. destruct H1 as [Hn _].
      destruct c; [congruence|]. simpl. reflexivity. }
    rewrite Hlen, count_slash_flatten by auto. destruct cs as [|c cs]; [congruence|].
    change (S (length cs)) with (length (c :: cs)). apply comps_complete; auto.
Qed.

Definition nul_free (s : bytes) : Prop := Forall (fun x => x <> 0%N) s.

Lemma existsb_nul s : existsb (N.eqb 0%N) s = false <-> nul_free s.
Proof.
  unfold nul_free. induction s as [|x s IH]; simpl; [split; auto|].
  rewrite orb_false_iff, IH. split.
  - intros [H1 H2]. constructor; auto. intros ->. discriminate.
  - intros H. inversion H; subst. split; auto. destruct x; [congruence | reflexivity].
Qed.

Theorem decompose_spec s cs :
  decompose s = Ok cs <->
  (cs = [] /\ exists c, s = [c]) \/ (cs <> [] /\ Forall good_comp cs /\ s = flatten_elems cs /\ nul_free s).
Proof.
  unfold decompose. destruct (1 <? length s) eqn:El; simpl.
  - destruct (existsb (N.eqb 0%N) s) eqn:En.
    + split; [discriminate|]. intros [[-> [c ->]] | (_ & _ & _ & Hn)]; [simpl in El; discriminate|].
      apply existsb_nul in Hn. congruence.
    + apply existsb_nul in En. rewrite decompose_body_spec. split.
      * intros [H | (H1 & H2 & H3)]; [left; auto | right; auto].
      * intros [H | (H1 & H2 & H3 & _)]; [left; auto | right; auto].
  - rewrite decompose_body_spec. split.
    + intros [H | (H1 & H2 & ->)]; [left; auto|]. exfalso.
      destruct cs as [|c cs]; [congruence|]. inversion H2; subst. destruct H3 as [Hn _]. destruct c; [congruence|].
      simpl in El. discriminate.
    + intros [H | (H1 & H2 & H3 & _)]; [left; auto | right; auto].
Qed.

(* ---- tie to the object-path grammar --------------------------------------------------------- *)
Lemma split_ne sep s : split sep s <> [].
Proof. destruct s as [|c t]; simpl; [discriminate|]. destruct (N.eqb c sep); [discriminate|]. destruct (split sep t); discriminate. Qed.

Lemma split_unsplit : forall s e0 es, split SLASH s = e0 :: es -> s = e0 ++ flatten_elems es.
Proof.
  induction s as [|c t IH]; intros e0 es H; simpl in H.
  - inversion H; subst. reflexivity.
  - destruct (N.eqb c SLASH) eqn:E.
    + inversion H; subst. apply N.eqb_eq in E; subst c.
      destruct (split SLASH t) as [|e0' es'] eqn:Et; [exfalso; eapply split_ne; eauto|].
      simpl. rewrite (IH e0' es' eq_refl). reflexivity.
    + destruct (split SLASH t) as [|e es'] eqn:Et; [exfalso; eapply split_ne; eauto|].
      inversion H; subst. simpl. rewrite (IH e es eq_refl). reflexivity.
Qed.

Lemma element_good e : element is_alnum_us is_alnum_us e = true -> good_comp e.
Proof.
  unfold element. destruct e as [|c t]; [discriminate|]. intros H. apply andb_true_iff in H. destruct H as [H1 H2].
  split; [discriminate|]. constructor.
  - intros ->. vm_compute in H1. discriminate.
  - rewrite forallb_forall in H2. apply Forall_forall. intros x Hx ->. specialize (H2 _ Hx). vm_compute in H2. discriminate.
Qed.

Lemma element_nul_free e : element is_alnum_us is_alnum_us e = true -> nul_free e.
Proof.
  unfold element. destruct e as [|c t]; [discriminate|]. intros H. apply andb_true_iff in H. destruct H as [H1 H2].
  constructor.
  - intros ->. vm_compute in H1. discriminate.
  - rewrite forallb_forall in H2. apply Forall_forall. intros x Hx ->. specialize (H2 _ Hx). vm_compute in H2. discriminate.
Qed.

Lemma flatten_nul_free es : Forall nul_free es -> nul_free (flatten_elems es).
Proof.
  induction 1 as [|e es He _ IH]; simpl; [constructor|]. constructor; [discriminate|].
  apply Forall_app; split; auto.
Qed.

(* the elements of a valid object path: nothing for "/", else the pieces between the slashes *)
Definition path_elements (s : bytes) : path :=
  match split SLASH s with
  | [] :: [[]] => []
  | [] :: es => es
  | _ => []
  end.

Theorem decompose_valid_path s : spec_path s = true ->
  decompose s = Ok (path_elements s) /\ flatten (path_elements s) = s /\ Forall good_comp (path_elements s).
Proof.
  unfold spec_path, path_elements. change 47%N with SLASH.
  destruct (split SLASH s) as [|e0 es] eqn:Es; [discriminate|].
  destruct e0; [|discriminate]. destruct es as [|e1 es]; [discriminate|].
  pose proof (split_unsplit _ _ _ Es) as Hs. simpl in Hs.
  destruct e1 as [|x e1].
  - destruct es as [|e2 es].
    + intros _. subst s. simpl. repeat split; auto.
    + intros H. simpl in H. discriminate.
  - intros H. assert (Hg : Forall good_comp ((x :: e1) :: es)).
    { apply Forall_forall. intros e He. apply element_good. rewrite forallb_forall in H. apply H. exact He. }
    split; [|split; [|exact Hg]].
    + apply decompose_spec. right. split; [discriminate|]. split; [exact Hg|]. split; [exact Hs|].
      rewrite Hs. apply (flatten_nul_free ((x :: e1) :: es)). apply Forall_forall. intros e He. apply element_nul_free.
      rewrite forallb_forall in H. apply H. exact He.
    + simpl. rewrite Hs. reflexivity.
Qed.
