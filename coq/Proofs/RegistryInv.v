(* C04 proofs, part 2: the invariant of the registry model, the refinement
   relation to the specification state, and the generic "one name changes"
   preservation lemma used for RequestName and ReleaseName. *)
From DV Require Import Lib.Base Gen.Tables Wire.Names Registry.RegTypes Registry.Registry
  Spec.NamesSpec Spec.RegistrySpec Proofs.RegistryBase.
Local Open Scope N_scope.

Definition abs_conn (x : conn) : sconn := mkSConn (c_id x) (c_active x) (c_match x).

(* a stored queue: somebody owns the name, nobody is in it twice, nobody waits with DO_NOT_QUEUE *)
Definition qwf (q : queue) : Prop := q <> [] /\ NoDup (qconns q) /\ no_dnq (tl q).

Record inv (b : bus) : Prop := mkInv {
  inv_keys : NoDup (keys (b_services b));
  inv_q : forall k q, lookup (b_services b) k = Some q -> qwf q;
  inv_ids : NoDup (ids (b_conns b));
  inv_next : forall x, In x (b_conns b) -> c_id x < b_next b;
  inv_owned : forall x, In x (b_conns b) ->
      NoDup (c_owned x) /\ forall k, In k (c_owned x) <-> queued (c_id x) (mget (b_services b) k) = true;
  inv_members : forall k c, queued c (mget (b_services b) k) = true ->
      exists x, In x (b_conns b) /\ c_id x = c /\ c_active x = true;
  inv_unique : forall c q, lookup (b_services b) (KU c) = Some q -> q = [mkOwner c false false];
  inv_active : forall x, In x (b_conns b) ->
      if c_active x then exists r, c_owned x = KU (c_id x) :: r else c_owned x = [];
  inv_reserved : forall s q, lookup (b_services b) (KW s) = Some q -> requestable s = true
}.

Record R (b : bus) (s : sstate) : Prop := mkR {
  R_conns : s_conns s = map abs_conn (b_conns b);
  R_names : forall k, sget (s_names s) k = mget (b_services b) k;
  R_next : s_next s = b_next b;
  R_limit : s_limit s = b_limit b;
  R_skeys : NoDup (map fst (s_names s))
}.

(* ---- connection tables under the abstraction ------------------------------------------- *)
Lemma sfind_abs cs c : sfind (map abs_conn cs) c = option_map abs_conn (find_conn cs c).
Proof.
  unfold sfind. induction cs as [|x r IH]; simpl; [reflexivity|].
  destruct (c_id x =? c); [reflexivity | exact IH].
Qed.

Lemma listeners_abs cs : listeners (map abs_conn cs) = subscribers cs.
Proof.
  unfold listeners, subscribers. induction cs as [|x r IH]; simpl; [reflexivity|].
  destruct (c_active x && c_match x); simpl; [f_equal|]; exact IH.
Qed.

Lemma sdeliver_abs cs es : sdeliver (map abs_conn cs) es = deliver cs es.
Proof.
  unfold sdeliver, deliver. induction es as [|e r IH]; simpl; [reflexivity|].
  rewrite IH. f_equal. destruct e; simpl; [reflexivity | rewrite listeners_abs; reflexivity].
Qed.

Definition same_shape (g : conn -> conn) : Prop :=
  forall x, c_id (g x) = c_id x /\ c_active (g x) = c_active x /\ c_match (g x) = c_match x.

Lemma map_abs_same_shape g cs : same_shape g -> map abs_conn (map g cs) = map abs_conn cs.
Proof.
  intros H. rewrite map_map. apply map_ext. intros x. destruct (H x) as [H1 [H2 H3]]. unfold abs_conn. rewrite H1, H2, H3. reflexivity.
Qed.

Lemma ids_map_same_shape g cs : same_shape g -> ids (map g cs) = ids cs.
Proof.
  intros H. unfold ids. rewrite map_map. apply map_ext. intros x. apply H.
Qed.

(* bus_connection_add_owned_service / _remove_owned_service as maps over the table *)
Definition g_add (c : N) (k : key) (x : conn) : conn :=
  if c_id x =? c then mkConn (c_id x) (c_active x) (c_match x) (c_owned x ++ [k]) else x.
Definition g_del (c : N) (k : key) (x : conn) : conn :=
  if c_id x =? c then mkConn (c_id x) (c_active x) (c_match x) (remove_last k (c_owned x)) else x.

Lemma own_add_map cs c k : NoDup (ids cs) -> own_add cs c k = map (g_add c k) cs.
Proof. intros ND. unfold own_add. rewrite upd_conn_map; [reflexivity | reflexivity | exact ND]. Qed.
Lemma own_del_map cs c k : NoDup (ids cs) -> own_del cs c k = map (g_del c k) cs.
Proof. intros ND. unfold own_del. rewrite upd_conn_map; [reflexivity | reflexivity | exact ND]. Qed.

Lemma g_add_shape c k : same_shape (g_add c k).
Proof. intros x. unfold g_add. destruct (c_id x =? c); simpl; auto. Qed.
Lemma g_del_shape c k : same_shape (g_del c k).
Proof. intros x. unfold g_del. destruct (c_id x =? c); simpl; auto. Qed.
Lemma id_shape : same_shape (fun x => x).
Proof. intros x. auto. Qed.
Lemma comp_shape f g : same_shape f -> same_shape g -> same_shape (fun x => f (g x)).
Proof.
  intros Hf Hg x. destruct (Hf (g x)) as [A [B C]]. destruct (Hg x) as [A' [B' C']]. rewrite A, B, C. auto.
Qed.

Lemma remove_last_head k h r : h <> k -> exists r', remove_last k (h :: r) = h :: r'.
Proof.
  intros Hne. simpl. destruct (existsb (key_eqb k) r); [eauto|].
  destruct (key_eqb k h) eqn:E; [apply key_eqb_eq in E; congruence | eauto].
Qed.

(* ---- how one name's queue may change ---------------------------------------------------------- *)
Definition upd_law (ss ss' : list (key * queue)) (k : key) (q' : queue) : Prop :=
  forall k', lookup ss' k' = if key_eqb k' k then match q' with [] => None | _ => Some q' end else lookup ss k'.

Lemma upd_law_mget ss ss' k q' : upd_law ss ss' k q' -> forall k', mget ss' k' = if key_eqb k' k then q' else mget ss k'.
Proof.
  intros H k'. unfold mget. rewrite H. destruct (key_eqb k' k); [destruct q'; reflexivity | reflexivity].
Qed.

Lemma upd_law_set ss k q' : lookup ss k <> None -> q' <> [] -> upd_law ss (set_queue ss k q') k q'.
Proof.
  intros Hk Hq k'. rewrite lookup_set_queue. destruct (key_eqb k' k); [|reflexivity].
  destruct (lookup ss k); [|congruence]. destruct q'; [congruence | reflexivity].
Qed.

Lemma upd_law_put ss k q' : NoDup (keys ss) -> lookup ss k <> None -> upd_law ss (put_queue ss k q') k q'.
Proof.
  intros ND Hk k'. unfold put_queue. destruct q' as [|o q'].
  - rewrite lookup_del_service by exact ND. reflexivity.
  - rewrite lookup_set_queue. destruct (key_eqb k' k); [|reflexivity]. destruct (lookup ss k); [reflexivity | congruence].
Qed.

Lemma upd_law_new ss k q' : lookup ss k = None -> q' <> [] -> upd_law ss (ss ++ [(k, q')]) k q'.
Proof.
  intros Hk Hq k'. rewrite lookup_app_new. destruct (key_eqb k' k) eqn:E.
  - apply key_eqb_eq in E. subst k'. rewrite Hk. destruct q'; [congruence | reflexivity].
  - destruct (lookup ss k'); reflexivity.
Qed.

Lemma upd_law_same ss k q : lookup ss k = Some q -> q <> [] -> upd_law ss ss k q.
Proof.
  intros Hk Hq k'. destruct (key_eqb k' k) eqn:E; [|reflexivity]. apply key_eqb_eq in E. subst k'. rewrite Hk. destruct q; [congruence | reflexivity].
Qed.

Lemma nodup_keys_new ss k q : NoDup (keys ss) -> lookup ss k = None -> NoDup (keys (ss ++ [(k, q)])).
Proof.
  intros ND Hk. rewrite keys_app. apply nodup_app_new; [exact ND | apply lookup_none_keys; exact Hk].
Qed.

(* what the change does to one connection's services_owned *)
Definition owned_tracks (k : key) (q' : queue) (x gx : conn) : Prop :=
  NoDup (c_owned gx) /\
  (In k (c_owned gx) <-> queued (c_id x) q' = true) /\
  (forall k', k' <> k -> (In k' (c_owned gx) <-> In k' (c_owned x))) /\
  (forall h r, c_owned x = h :: r -> h <> k -> exists r', c_owned gx = h :: r') /\
  (c_active x = false -> gx = x).

Lemma update_preserves b s name q' g ss' :
  inv b -> R b s ->
  same_shape g ->
  upd_law (b_services b) ss' (KW name) q' ->
  NoDup (keys ss') ->
  (q' = [] \/ qwf q') ->
  (forall c, queued c q' = true -> exists x, In x (b_conns b) /\ c_id x = c /\ c_active x = true) ->
  requestable name = true ->
  (forall x, In x (b_conns b) -> owned_tracks (KW name) q' x (g x)) ->
  inv (with_services b (map g (b_conns b)) ss') /\
  R (with_services b (map g (b_conns b)) ss') (with_names s (s_conns s) (sset (s_names s) (KW name) q')).
Proof.
  intros I Rr Hg Hu NDk Hq Hmem Hreq Hown.
  assert (Hm := upd_law_mget _ _ _ _ Hu).
  split.
  - constructor; simpl.
    + exact NDk.
    + intros k q Hl. rewrite Hu in Hl. destruct (key_eqb k (KW name)) eqn:E.
      * destruct q' as [|o q'']; [discriminate|]. inversion Hl. subst q. destruct Hq as [Hq|Hq]; [discriminate | exact Hq].
      * eapply inv_q; eauto.
    + rewrite ids_map_same_shape by exact Hg. apply inv_ids; exact I.
    + intros gx Hin. apply in_map_iff in Hin. destruct Hin as [x [E Hx]]. subst gx. destruct (Hg x) as [-> _]. apply inv_next; auto.
    + intros gx Hin. apply in_map_iff in Hin. destruct Hin as [x [E Hx]]. subst gx.
      destruct (Hown x Hx) as [ND [Hk [Hother _]]]. destruct (inv_owned b I x Hx) as [_ Hold].
      split; [exact ND|]. intros k. rewrite Hm. destruct (Hg x) as [-> _].
      destruct (key_eqb k (KW name)) eqn:E.
      * apply key_eqb_eq in E. subst k. exact Hk.
      * apply key_eqb_neq in E. rewrite Hother by exact E. apply Hold.
    + intros k c Hc. rewrite Hm in Hc.
      assert (Hex : exists x, In x (b_conns b) /\ c_id x = c /\ c_active x = true).
      { destruct (key_eqb k (KW name)); [apply Hmem; exact Hc | eapply inv_members; eauto]. }
      destruct Hex as [x [Hx [Hid Hact]]]. exists (g x). split; [apply in_map; exact Hx|].
      destruct (Hg x) as [-> [-> _]]. auto.
    + intros c q Hl. rewrite Hu in Hl. simpl in Hl. eapply inv_unique; eauto.
    + intros gx Hin. apply in_map_iff in Hin. destruct Hin as [x [E Hx]]. subst gx.
      destruct (Hown x Hx) as [_ [_ [_ [Hhead Hinact]]]]. assert (Ha := inv_active b I x Hx).
      destruct (Hg x) as [Hid [Hact _]]. rewrite Hact, Hid. destruct (c_active x) eqn:Ea.
      * destruct Ha as [r Hr]. apply (Hhead _ _ Hr). discriminate.
      * rewrite Hinact by reflexivity. exact Ha.
    + intros s0 q Hl. rewrite Hu in Hl. destruct (key_eqb (KW s0) (KW name)) eqn:E.
      * apply key_eqb_eq in E. inversion E. subst. exact Hreq.
      * eapply inv_reserved; eauto.
  - constructor; simpl.
    + rewrite map_abs_same_shape by exact Hg. apply R_conns; exact Rr.
    + intros k. rewrite sget_sset, Hm. destruct (key_eqb k (KW name)); [reflexivity | apply R_names; exact Rr].
    + apply R_next; exact Rr.
    + apply R_limit; exact Rr.
    + apply nodup_sset. apply R_skeys with (b := b); exact Rr.
Qed.

(* ---- owned_tracks for the three shapes of change ------------------------------------------------ *)
Lemma tracks_id k q q' x :
  NoDup (c_owned x) -> (In k (c_owned x) <-> queued (c_id x) q = true) ->
  queued (c_id x) q' = queued (c_id x) q -> owned_tracks k q' x x.
Proof.
  intros ND Hk E. repeat split; auto; try tauto.
  - rewrite E. apply Hk.
  - rewrite E. apply Hk.
  - eauto.
Qed.

Lemma tracks_add k q q' x :
  NoDup (c_owned x) -> (In k (c_owned x) <-> queued (c_id x) q = true) ->
  queued (c_id x) q = false -> queued (c_id x) q' = true -> c_active x = true ->
  owned_tracks k q' x (mkConn (c_id x) (c_active x) (c_match x) (c_owned x ++ [k])).
Proof.
  intros ND Hk Hq Hq' Ha. unfold owned_tracks. simpl.
  assert (Hn : ~ In k (c_owned x)) by (rewrite Hk, Hq; discriminate).
  repeat split.
  - apply nodup_app_new; assumption.
  - intros _. exact Hq'.
  - intros _. apply in_app_iff. simpl. auto.
  - rewrite in_app_iff. simpl. intros [H1|[H1|[]]]; [exact H1 | congruence].
  - intros H1. apply in_app_iff. auto.
  - intros h r E _. rewrite E. simpl. eauto.
  - congruence.
Qed.

Lemma tracks_del k q q' x :
  NoDup (c_owned x) -> (In k (c_owned x) <-> queued (c_id x) q = true) ->
  queued (c_id x) q' = false -> c_active x = true ->
  owned_tracks k q' x (mkConn (c_id x) (c_active x) (c_match x) (remove_last k (c_owned x))).
Proof.
  intros ND Hk Hq' Ha. unfold owned_tracks. simpl. repeat split.
  - apply nodup_remove_last; exact ND.
  - intros H. apply in_remove_last in H; [|exact ND]. tauto.
  - rewrite Hq'. discriminate.
  - intros H1. apply in_remove_last in H1; [tauto | exact ND].
  - intros H1. apply in_remove_last; [exact ND | tauto].
  - intros h r E Hne. rewrite E. apply remove_last_head. exact Hne.
  - congruence.
Qed.
