(* C07: what match_rule_matches computes is what the specification says a rule
   means (every key), whenever the evaluation does not fault; and it can only
   fault on an empty argNpath value. *)
From DV Require Import Lib.Base Match.Rule Match.Matcher Spec.MatchSpec Proofs.MatchRecipients.
From Coq Require Import ZArith ZifyBool ZifyN ZifyNat.
Local Open Scope N_scope.

(* ---- list / prefix facts --------------------------------------------------------- *)
Lemma bytes_eqb_sym a b : bytes_eqb a b = bytes_eqb b a.
Proof.
  destruct (bytes_eqb a b) eqn:E.
  - apply bytes_eqb_eq in E. subst. symmetry. apply bytes_eqb_refl.
  - destruct (bytes_eqb b a) eqn:E'; [|reflexivity]. apply bytes_eqb_eq in E'. subst. now rewrite bytes_eqb_refl in E.
Qed.

Lemma is_prefix_iff p s : is_prefix p s = true <-> exists r, s = p ++ r.
Proof.
  revert s; induction p as [|x p IH]; intros s; simpl.
  - split; [eauto|auto].
  - destruct s as [|y s].
    + split; [discriminate|]. intros [r E]. discriminate.
    + rewrite andb_true_iff, N.eqb_eq, IH. split.
      * intros [-> [r ->]]. eauto.
      * intros [r E]. inversion E. eauto.
Qed.

Lemma is_prefix_app p q r : is_prefix (p ++ q) (p ++ r) = is_prefix q r.
Proof. induction p as [|x p IH]; simpl; [reflexivity|]. now rewrite N.eqb_refl, IH. Qed.

Lemma bytes_eqb_app p q r : bytes_eqb (p ++ q) (p ++ r) = bytes_eqb q r.
Proof. induction p as [|x p IH]; simpl; [reflexivity|]. now rewrite N.eqb_refl, IH. Qed.

Lemma is_prefix_refl p : is_prefix p p = true.
Proof. apply is_prefix_iff. exists []. now rewrite app_nil_r. Qed.

Lemma is_prefix_longer p s : (length s < length p)%nat -> is_prefix p s = false.
Proof.
  intros H. destruct (is_prefix p s) eqn:E; [|reflexivity].
  apply is_prefix_iff in E. destruct E as [r ->]. rewrite app_length in H. lia.
Qed.

Lemma is_prefix_same_len p s : length p = length s -> is_prefix p s = bytes_eqb p s.
Proof.
  revert s; induction p as [|x p IH]; intros [|y s] H; simpl in *; try discriminate; [reflexivity|].
  rewrite IH by lia. reflexivity.
Qed.

Lemma bytes_eqb_len a b : bytes_eqb a b = true -> length a = length b.
Proof. intros H. apply bytes_eqb_eq in H. now subst. Qed.

Lemma bytes_eqb_len_ne a b : length a <> length b -> bytes_eqb a b = false.
Proof. intros H. destruct (bytes_eqb a b) eqn:E; [|reflexivity]. apply bytes_eqb_len in E. contradiction. Qed.

(* memcmp over the first n bytes, n = the shorter length *)
Lemma firstn_prefix a e : (length a <= length e)%nat ->
  bytes_eqb (firstn (length a) a) (firstn (length a) e) = is_prefix a e.
Proof.
  revert e; induction a as [|x a IH]; intros e H; simpl.
  - reflexivity.
  - destruct e as [|y e]; simpl in *; [lia|]. rewrite IH by lia. reflexivity.
Qed.

Lemma last_byte_app l c : last_byte (l ++ [c]) = Some c.
Proof.
  induction l as [|x l IH]; [reflexivity|]. simpl. destruct (l ++ [c]) eqn:E.
  - destruct l; discriminate.
  - exact IH.
Qed.

Lemma nonempty_snoc {A} (l : list A) : l <> [] -> exists l' c, l = l' ++ [c].
Proof.
  intros H. destruct (exists_last H) as [l' [c E]]. eauto.
Qed.

Lemma nth_error_last (l : bytes) : l <> [] -> nth_error l (length l - 1) = last_byte l.
Proof.
  intros H. destruct (nonempty_snoc l H) as [l' [c ->]]. rewrite last_byte_app.
  rewrite app_length. simpl. replace (length l' + 1 - 1)%nat with (length l') by lia.
  rewrite nth_error_app2 by lia. now rewrite Nat.sub_diag.
Qed.

Lemma read_heap_last e : e <> [] -> read_heap e (zlen e - 1) = last_byte e.
Proof.
  intros H. unfold read_heap, zlen.
  assert (0 < length e)%nat by (destruct e; [congruence | simpl; lia]).
  destruct (Z.of_nat (length e) - 1 <? 0)%Z eqn:E; [lia|].
  replace (Z.to_nat (Z.of_nat (length e) - 1)) with (length e - 1)%nat by lia.
  rewrite nth_error_last by assumption.
  destruct (nonempty_snoc e H) as [l' [c ->]]. now rewrite last_byte_app.
Qed.

Lemma read_body_last a : a <> [] -> read_body a (zlen a - 1) = last_byte a.
Proof. intros H. unfold read_body. apply read_heap_last. assumption. Qed.

Lemma ends_with_slash_last s c : last_byte s = Some c -> ends_with_slash s = (c =? 47).
Proof.
  intros H. unfold ends_with_slash. rewrite H.
  destruct (c =? 47) eqn:E.
  - apply N.eqb_eq in E. now subst.
  - destruct c as [|p]; [reflexivity|]. do 6 (destruct p; try reflexivity). simpl in E. discriminate.
Qed.

Lemma last_byte_some s : s <> [] -> exists c, last_byte s = Some c.
Proof. intros H. destruct (nonempty_snoc s H) as [l [c ->]]. exists c. apply last_byte_app. Qed.

(* ---- argNpath ---------------------------------------------------------------------- *)
Lemma argpath_sound e a b :
  arg_matches ArgPath e (Some (AStr a)) = Some b -> spec_argpath e a = b.
Proof.
  unfold arg_matches, spec_argpath, starts_with, SLASH_C.
  destruct (Nat.compare_spec (length a) (length e)) as [Heq|Hlt|Hgt].
  - (* same length *)
    replace (zlen a <? zlen e)%Z with false by (unfold zlen; lia).
    replace (zlen e <? zlen a)%Z with false by (unfold zlen; lia).
    intros H. inversion H; subst b; clear H.
    replace (Z.to_nat (Z.min (zlen a) (zlen e))) with (length a) by (unfold zlen; lia).
    rewrite firstn_all. rewrite Heq, firstn_all.
    rewrite (is_prefix_same_len e a) by lia. rewrite (is_prefix_same_len a e) by lia.
    rewrite (bytes_eqb_sym a e). destruct (bytes_eqb e a); [reflexivity|]. now rewrite !andb_false_r.
  - (* the argument is shorter *)
    replace (zlen a <? zlen e)%Z with true by (unfold zlen; lia).
    rewrite (bytes_eqb_len_ne e a) by lia. rewrite (is_prefix_longer e a) by lia. rewrite andb_false_r. cbn [orb].
    destruct a as [|x a'].
    + change (zlen [] =? 0)%Z with true. cbn iota. intros H. inversion H. reflexivity.
    + set (a := x :: a') in *. assert (Hne : a <> []) by discriminate.
      replace (zlen a =? 0)%Z with false by (unfold zlen, a; simpl length; lia).
      rewrite read_body_last by assumption.
      destruct (last_byte_some a Hne) as [c Hc]. rewrite Hc. rewrite (ends_with_slash_last a c Hc).
      destruct (c =? 47) eqn:Ec; cbn [negb].
      * replace (zlen e <? zlen a)%Z with false by (unfold zlen; lia).
        intros H. inversion H; subst b; clear H.
        replace (Z.to_nat (Z.min (zlen a) (zlen e))) with (length a) by (unfold zlen; lia).
        rewrite firstn_prefix by lia. reflexivity.
      * intros H. inversion H. reflexivity.
  - (* the rule value is shorter *)
    replace (zlen a <? zlen e)%Z with false by (unfold zlen; lia).
    replace (zlen e <? zlen a)%Z with true by (unfold zlen; lia).
    rewrite (bytes_eqb_len_ne e a) by lia. rewrite (is_prefix_longer a e) by lia. rewrite andb_false_r, orb_false_r. cbn [orb].
    destruct e as [|x e'].
    + change (zlen [] =? 0)%Z with true. cbn iota. intros H. inversion H. reflexivity.
    + set (e := x :: e') in *. assert (Hne : e <> []) by discriminate.
      replace (zlen e =? 0)%Z with false by (unfold zlen, e; simpl length; lia).
      rewrite read_heap_last by assumption.
      destruct (last_byte_some e Hne) as [c Hc]. rewrite Hc. rewrite (ends_with_slash_last e c Hc).
      destruct (c =? 47) eqn:Ec; cbn [negb].
      * intros H. inversion H; subst b; clear H.
        replace (Z.to_nat (Z.min (zlen a) (zlen e))) with (length e) by (unfold zlen; lia).
        rewrite bytes_eqb_sym. rewrite firstn_prefix by lia. reflexivity.
      * intros H. inversion H. reflexivity.
Qed.

(* since commit c577f29 no read of the comparison can leave its object *)
Lemma argpath_no_fault e a : arg_matches ArgPath e (Some (AStr a)) <> None.
Proof.
  unfold arg_matches.
  destruct (zlen a <? zlen e)%Z eqn:E1.
  - destruct a as [|x a'].
    + change (zlen [] =? 0)%Z with true. cbn iota. discriminate.
    + replace (zlen (x :: a') =? 0)%Z with false by (unfold zlen; simpl length; lia).
      rewrite read_body_last by discriminate. destruct (last_byte_some (x :: a')) as [c ->]; [discriminate|].
      destruct (negb (c =? SLASH_C)); [discriminate|].
      replace (zlen e <? zlen (x :: a'))%Z with false by lia. discriminate.
  - destruct (zlen e <? zlen a)%Z eqn:E2; [|discriminate].
    destruct e as [|y e'].
    + change (zlen [] =? 0)%Z with true. cbn iota. discriminate.
    + replace (zlen (y :: e') =? 0)%Z with false by (unfold zlen; simpl length; lia).
      rewrite read_heap_last by discriminate. destruct (last_byte_some (y :: e')) as [c ->]; [discriminate|].
      destruct (negb (c =? SLASH_C)); discriminate.
Qed.

(* ---- arg0namespace ------------------------------------------------------------------- *)
Lemma read_body_at (e r : bytes) c : read_body (e ++ c :: r) (zlen e) = Some c.
Proof.
  unfold read_body, read_heap, zlen.
  destruct (Z.of_nat (length e) <? 0)%Z eqn:E2; [lia|].
  rewrite Nat2Z.id. rewrite nth_error_app2 by lia. now rewrite Nat.sub_diag.
Qed.

Lemma bytes_eqb_self_app e r : bytes_eqb e (e ++ r) = match r with [] => true | _ => false end.
Proof.
  induction e as [|x e IH]; simpl.
  - destruct r; reflexivity.
  - now rewrite N.eqb_refl, IH.
Qed.

Lemma argns_sound e a b :
  arg_matches ArgNamespace e (Some (AStr a)) = Some b -> spec_argns e a = b.
Proof.
  unfold arg_matches, spec_argns, starts_with, DOT_C.
  destruct (zlen a <? zlen e)%Z eqn:E1.
  - intros H. inversion H; subst b. unfold zlen in E1.
    rewrite (bytes_eqb_len_ne e a) by lia. apply is_prefix_longer. rewrite app_length. simpl. lia.
  - unfold zlen in E1.
    replace (bytes_eqb (firstn (length e) a) e) with (is_prefix e a).
    2:{ rewrite bytes_eqb_sym. replace e with (firstn (length e) e) at 2 by apply firstn_all.
        symmetry. apply firstn_prefix. lia. }
    destruct (is_prefix e a) eqn:Ep; cbn [negb].
    + apply is_prefix_iff in Ep. destruct Ep as [r ->].
      rewrite bytes_eqb_self_app, is_prefix_app.
      destruct r as [|c r].
      * replace (zlen e <? zlen (e ++ []))%Z with false by (unfold zlen; rewrite app_length; simpl; lia).
        intros H. inversion H. reflexivity.
      * replace (zlen e <? zlen (e ++ c :: r))%Z with true by (unfold zlen; rewrite app_length; simpl; lia).
        rewrite read_body_at. intros H. inversion H. cbn [orb is_prefix]. rewrite andb_true_r. apply N.eqb_sym.
    + intros H. inversion H; subst b.
      assert (bytes_eqb e a = false) as ->.
      { destruct (bytes_eqb e a) eqn:E; [|reflexivity]. apply bytes_eqb_eq in E. subst. now rewrite is_prefix_refl in Ep. }
      destruct (is_prefix (e ++ [46]) a) eqn:E; [|reflexivity].
      apply is_prefix_iff in E. destruct E as [r ->]. rewrite <- app_assoc in Ep.
      replace e with (e ++ []) in Ep at 1 by apply app_nil_r. rewrite is_prefix_app in Ep. discriminate.
Qed.

(* ---- one argument slot --------------------------------------------------------------- *)
Definition spec_arg (k : argkind) (v : bytes) (cur : option marg) : bool :=
  match cur, k with
  | Some (AStr a), ArgString => bytes_eqb v a
  | Some (AStr a), ArgPath | Some (APath a), ArgPath => spec_argpath v a
  | Some (AStr a), ArgNamespace => spec_argns v a
  | _, _ => false
  end.

Lemma arg_sound k e cur b : arg_matches k e cur = Some b -> spec_arg k e cur = b.
Proof.
  destruct cur as [[a|a|]|]; destruct k; try (simpl; intros H; inversion H; reflexivity).
  - apply argpath_sound.
  - apply argns_sound.
  - intros H. apply argpath_sound. exact H.
Qed.

Lemma arg_no_fault k e cur : arg_matches k e cur <> None.
Proof.
  destruct cur as [[a|a|]|]; destruct k; try (simpl; discriminate).
  - apply argpath_no_fault.
  - unfold arg_matches. destruct (zlen a <? zlen e)%Z eqn:E1; [discriminate|].
    destruct (negb (bytes_eqb (firstn (length e) a) e)) eqn:E2; [discriminate|].
    destruct (zlen e <? zlen a)%Z eqn:E3; [|discriminate].
    apply negb_false_iff in E2. apply bytes_eqb_eq in E2.
    assert (exists c r, a = e ++ c :: r) as [c [r ->]].
    { rewrite <- (firstn_skipn (length e) a). rewrite E2. unfold zlen in E3.
      destruct (skipn (length e) a) as [|c r] eqn:Es.
      - exfalso. assert (length (skipn (length e) a) = 0%nat) by now rewrite Es. rewrite skipn_length in H. lia.
      - eauto. }
    rewrite read_body_at. discriminate.
  - apply (argpath_no_fault e a).
Qed.

(* ---- the argument loop ------------------------------------------------------------------ *)
Lemma hd_skipn {A} (l : list A) i : match skipn i l with x :: _ => Some x | [] => None end = nth_error l i.
Proof.
  revert l; induction i as [|i IH]; intros [|x l]; simpl; auto.
Qed.

Lemma tl_skipn {A} (l : list A) i : match skipn i l with _ :: r => r | [] => [] end = skipn (S i) l.
Proof.
  revert l; induction i as [|i IH]; intros l.
  - destruct l; reflexivity.
  - destruct l as [|x l]; [reflexivity|]. change (skipn (S i) (x :: l)) with (skipn i l). rewrite IH. reflexivity.
Qed.

Lemma args_sound ns s a m : forall expected i b,
  args_match expected (skipn i (m_args m)) = Some b ->
  forallb (holds ns s a m) (arg_constraints expected (N.of_nat i)) = b.
Proof.
  induction expected as [|e rest IH]; intros i b H; simpl in H |- *.
  - inversion H. reflexivity.
  - rewrite tl_skipn in H. rewrite hd_skipn in H.
    replace (N.of_nat i + 1) with (N.of_nat (S i)) by lia.
    destruct e as [[k v]|].
    + destruct (arg_matches k v (nth_error (m_args m) i)) as [[|]|] eqn:Ea; [| |discriminate].
      * apply arg_sound in Ea. cbn [forallb holds]. rewrite Nat2N.id.
        assert (Hh : match nth_error (m_args m) i, k with
                     | Some (AStr a0), ArgString => bytes_eqb v a0
                     | Some (AStr a0), ArgPath | Some (APath a0), ArgPath => spec_argpath v a0
                     | Some (AStr a0), ArgNamespace => spec_argns v a0
                     | _, _ => false end = true) by exact Ea.
        rewrite Hh. cbn [andb]. apply IH. exact H.
      * apply arg_sound in Ea. inversion H; subst b. cbn [forallb holds]. rewrite Nat2N.id.
        assert (Hh : match nth_error (m_args m) i, k with
                     | Some (AStr a0), ArgString => bytes_eqb v a0
                     | Some (AStr a0), ArgPath | Some (APath a0), ArgPath => spec_argpath v a0
                     | Some (AStr a0), ArgNamespace => spec_argns v a0
                     | _, _ => false end = false) by exact Ea.
        rewrite Hh. reflexivity.
    + apply IH. exact H.
Qed.

Lemma args_no_fault : forall expected actual, args_match expected actual <> None.
Proof.
  induction expected as [|e rest IH]; intros actual; simpl; [discriminate|].
  destruct e as [[k v]|]; [|apply IH].
  pose proof (arg_no_fault k v (match actual with a :: _ => Some a | [] => None end)) as Hn.
  destruct (arg_matches k v _) as [[|]|]; [apply IH | discriminate | congruence].
Qed.

(* ---- path_namespace ------------------------------------------------------------------------ *)
Definition path_wf (r : rule) : Prop :=
  match r_path r with Some (true, p) => validate_path p = true | _ => True end.

Lemma skipn_app_exact {A} (p r : list A) : skipn (length p) (p ++ r) = r.
Proof. induction p; simpl; auto. Qed.

Lemma pathns_sound p mp : validate_path p = true ->
  (if negb (is_prefix p mp) then true
   else (1 <? nlen p) && match skipn (length p) mp with [] => false | c :: _ => negb (c =? SLASH_C) end)
  = negb (spec_pathns p mp).
Proof.
  intros Hv. unfold spec_pathns, starts_with, SLASH_C.
  destruct p as [|c0 rest]; [discriminate|]. simpl in Hv.
  destruct (c0 =? SLASH) eqn:Ec; [|discriminate]. apply N.eqb_eq in Ec. unfold SLASH in Ec. subst c0. clear Hv.
  destruct (is_prefix (47 :: rest) mp) eqn:Ep; cbn [negb].
  - apply is_prefix_iff in Ep. destruct Ep as [r ->].
    rewrite skipn_app_exact, bytes_eqb_self_app.
    destruct rest as [|c1 rest].
    + simpl. destruct r; reflexivity.
    + assert (bytes_eqb (47 :: c1 :: rest) [47] = false) as -> by (simpl; destruct (bytes_eqb rest []); reflexivity).
      rewrite is_prefix_app.
      replace (1 <? nlen (47 :: c1 :: rest)) with true by (unfold nlen; simpl length; lia).
      destruct r as [|c r]; [reflexivity|]. cbn [orb andb is_prefix]. rewrite andb_true_r. now rewrite N.eqb_sym.
  - assert (bytes_eqb (47 :: rest) mp = false) as ->.
    { destruct (bytes_eqb (47 :: rest) mp) eqn:E; [|reflexivity]. apply bytes_eqb_eq in E. subst. now rewrite is_prefix_refl in Ep. }
    destruct (bytes_eqb (47 :: rest) [47]) eqn:E1.
    + apply bytes_eqb_eq in E1. inversion E1; subst. now rewrite Ep.
    + destruct (is_prefix ((47 :: rest) ++ [47]) mp) eqn:E2; [|reflexivity].
      apply is_prefix_iff in E2. destruct E2 as [r ->]. rewrite <- app_assoc in Ep.
      assert (is_prefix (47 :: rest) ((47 :: rest) ++ [47] ++ r) = true) by (apply is_prefix_iff; eauto).
      congruence.
Qed.

(* ---- match_rule_matches = the conjunction of the specification ---------------------------------- *)
Lemma forallb_opt {A} (h : constraint -> bool) (o : option A) f :
  forallb h (opt_list o f) = match o with Some x => h (f x) | None => true end.
Proof. destruct o; simpl; [apply andb_true_r | reflexivity]. Qed.

Section Clauses.
  Variables (ns : names) (r : rule) (s a : option conn) (m : msg).
  Let H := holds ns s a m.

  Definition cl_type : bool := match r_type r with Some t => negb (t =? m_type m) | None => false end.
  Definition cl_iface : bool :=
    match r_iface r with
    | Some i => match m_iface m with Some mi => negb (bytes_eqb mi i) | None => true end
    | None => false end.
  Definition cl_member : bool :=
    match r_member r with
    | Some x => match m_member m with Some mx => negb (bytes_eqb mx x) | None => true end
    | None => false end.
  Definition cl_sender : bool :=
    match r_sender r with
    | Some sn => match s with
                 | None => negb (bytes_eqb sn S_org_freedesktop_DBus)
                 | Some c => negb (is_primary_owner ns c sn)
                 end
    | None => false end.
  Definition cl_dest : bool :=
    match r_dest r with
    | Some d =>
        match m_dest m with
        | None => true
        | Some md => if negb (r_eaves r) then true
                     else match a with None => negb (bytes_eqb d md) | Some c => negb (is_primary_owner ns c d) end
        end
    | None => negb (r_eaves r) && isSome (m_dest m)
    end.
  Definition cl_path : bool :=
    match r_path r with
    | Some (false, p) => match m_path m with Some mp => negb (bytes_eqb mp p) | None => true end
    | Some (true, p) =>
        match m_path m with
        | None => true
        | Some mp =>
            if negb (is_prefix p mp) then true
            else (1 <? nlen p) && match skipn (length p) mp with [] => false | c :: _ => negb (c =? SLASH_C) end
        end
    | None => false end.

  Lemma rule_matches_chain :
    rule_matches ns r s a m false =
    if cl_type then Some false else if cl_iface then Some false else if cl_member then Some false
    else if cl_sender then Some false else if cl_dest then Some false else if cl_path then Some false
    else args_match (r_args r) (m_args m).
  Proof. reflexivity. Qed.

  Lemma cl_type_spec : cl_type = negb (forallb H (opt_list (r_type r) CType)).
  Proof. unfold cl_type. rewrite forallb_opt. destruct (r_type r); reflexivity. Qed.

  Lemma cl_iface_spec : cl_iface = negb (forallb H (opt_list (r_iface r) CIface)).
  Proof. unfold cl_iface. rewrite forallb_opt. destruct (r_iface r); [|reflexivity]. unfold H. cbn [holds]. destruct (m_iface m); reflexivity. Qed.

  Lemma cl_member_spec : cl_member = negb (forallb H (opt_list (r_member r) CMember)).
  Proof. unfold cl_member. rewrite forallb_opt. destruct (r_member r); [|reflexivity]. unfold H. cbn [holds]. destruct (m_member m); reflexivity. Qed.

  Lemma cl_sender_spec : cl_sender = negb (forallb H (opt_list (r_sender r) CSender)).
  Proof.
    unfold cl_sender. rewrite forallb_opt. destruct (r_sender r) as [sn|]; [|reflexivity]. unfold H. cbn [holds].
    unfold sender_is, is_primary_owner. destruct s; reflexivity.
  Qed.

  Lemma cl_dest_spec :
    cl_dest = negb (forallb H (opt_list (r_dest r) CDest) && (r_eaves r || negb (isSome (m_dest m)))).
  Proof.
    unfold cl_dest. rewrite forallb_opt. unfold H. cbn [holds]. unfold dest_is, is_primary_owner.
    destruct (r_dest r) as [d|]; destruct (m_dest m) as [md|]; destruct (r_eaves r); cbn [negb andb orb isSome];
      rewrite ?andb_true_r, ?andb_false_r; try reflexivity.
    destruct a as [ac|]; [|reflexivity].
    destruct (owner_of ns d) as [o2|]; reflexivity.
  Qed.

  Lemma cl_path_spec : path_wf r ->
    cl_path = negb (forallb H (match r_path r with Some (false, p) => [CPath p] | Some (true, p) => [CPathNs p] | None => [] end)).
  Proof.
    intros Hwf. unfold cl_path, path_wf in *. destruct (r_path r) as [[[|] p]|]; cbn [forallb]; unfold H; cbn [holds].
    - destruct (m_path m) as [mp|]; [|reflexivity]. rewrite (pathns_sound p mp Hwf). now rewrite andb_true_r.
    - destruct (m_path m) as [mp|]; [|reflexivity]. now rewrite andb_true_r.
    - reflexivity.
  Qed.
End Clauses.

Theorem matches_spec ns r s a m b :
  path_wf r ->
  rule_matches ns r s a m false = Some b ->
  spec_matches ns (abs_rule r) s a m = b.
Proof.
  intros Hwf. rewrite rule_matches_chain.
  rewrite (cl_type_spec ns r s a m), (cl_iface_spec ns r s a m), (cl_member_spec ns r s a m), (cl_sender_spec ns r s a m),
    (cl_dest_spec ns r s a m), (cl_path_spec ns r s a m Hwf).
  unfold spec_matches, abs_rule. cbn [sr_cons sr_eaves].
  rewrite !forallb_app.
  set (H := holds ns s a m).
  destruct (forallb H (opt_list (r_type r) CType)); cbn [negb andb]; [|intros E; now inversion E].
  destruct (forallb H (opt_list (r_iface r) CIface)); cbn [negb andb]; [|intros E; now inversion E].
  destruct (forallb H (opt_list (r_member r) CMember)); cbn [negb andb]; [|intros E; now inversion E].
  destruct (forallb H (opt_list (r_sender r) CSender)); cbn [negb andb]; [|intros E; now inversion E].
  destruct (forallb H (opt_list (r_dest r) CDest)); cbn [negb andb].
  2:{ intros E; now inversion E. }
  destruct (r_eaves r || negb (isSome (m_dest m))); cbn [negb andb].
  2:{ intros E; inversion E. now rewrite andb_false_r. }
  rewrite andb_true_r.
  destruct (forallb H match r_path r with Some (false, p) => [CPath p] | Some (true, p) => [CPathNs p] | None => [] end); cbn [negb andb].
  2:{ intros E; now inversion E. }
  intros E. apply (args_sound ns s a m (r_args r) 0 b) in E. exact E.
Qed.

(* ---- absence of faults ------------------------------------------------------------------------------ *)
Theorem no_fault ns r s a m skip : rule_matches ns r s a m skip <> None.
Proof.
  unfold rule_matches.
  repeat match goal with |- (if ?c then Some false else _) <> None => destruct c; [discriminate|] end.
  apply args_no_fault.
Qed.
