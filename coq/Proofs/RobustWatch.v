(* C10 — the main loop cannot be woken by a descriptor nobody watches, and every wake-up is consumed. *)
From DV Require Import Lib.Base Robust.Watch.
From Coq Require Import ZArith ZifyBool ZifyN ZifyNat.
Local Open Scope N_scope.

Lemma refresh_flags_interested ws : fst (refresh_flags ws) = existsb active ws.
Proof. induction ws as [|w r IH]; [reflexivity|]. cbn [refresh_flags existsb]. destruct (refresh_flags r) as [i f]. cbn [fst] in *. destruct (active w); cbn [fst orb]; [reflexivity|exact IH]. Qed.

(* a descriptor with no enabled watch is armed edge-triggered without events: a hang-up / error may end ONE
   iteration early, no later one — the loop goes back to sleep; and data or writability never wake it *)
Theorem no_watch_bounded_wakeup ws ready : existsb active ws = false ->
  iterate ws ready false = (false, 0) /\
  (N.land ready (N.lor W_ERROR W_HANGUP) = 0 -> iterate ws ready true = (false, 0)).
Proof.
  intros H. unfold iterate, iterate_with, entry_of. destruct ws as [|w0 r]; [split; reflexivity|].
  unfold refresh. pose proof (refresh_flags_interested (w0 :: r)) as E. destruct (refresh_flags (w0 :: r)) as [i f]. cbn [fst] in E.
  rewrite E, H. cbn [apply_op reported]. split; [reflexivity|]. intros ->. reflexivity.
Qed.

Lemma land_sub a b c : N.land a b = 0 -> N.land (N.land a c) b = 0.
Proof. intros H. rewrite <- N.land_assoc, (N.land_comm c b), N.land_assoc, H. apply N.land_0_l. Qed.

(* the flags asked of the set are exactly those some active watch asks for *)
Lemma refresh_flags_bits ws : forall x, N.land x (snd (refresh_flags ws)) <> 0 -> exists w, In w ws /\ active w = true /\ N.land x (w_flags w) <> 0.
Proof.
  induction ws as [|w r IH]; intros x; cbn [refresh_flags]; [cbn; rewrite N.land_0_r; intros H; contradiction|].
  destruct (refresh_flags r) as [i f]. cbn [snd] in *. destruct (active w) eqn:Ea; cbn [snd].
  - intros H. destruct (N.eq_dec (N.land x (w_flags w)) 0) as [Ez|Ez].
    + rewrite N.land_lor_distr_r, Ez, N.lor_0_l in H. destruct (IH x H) as (w' & Hin & Ha & Hb). exists w'. split; [right; exact Hin|auto].
    + exists w. split; [left; reflexivity|auto].
  - intros H. destruct (IH x H) as (w' & Hin & Ha & Hb). exists w'. split; [right; exact Hin|auto].
Qed.

(* every wake-up is consumed: whenever the descriptor wakes the loop at least one handler runs on it *)
Theorem wakeup_is_handled ws ready first : existsb active ws = true -> fst (iterate ws ready first) = true -> 1 <= snd (iterate ws ready first).
Proof.
  intros Ex. unfold iterate, iterate_with, entry_of. destruct ws as [|w0 r0]; [discriminate|]. set (ws := w0 :: r0) in *. unfold refresh. pose proof (refresh_flags_interested ws) as Ei. pose proof (refresh_flags_bits ws) as Hb.
  destruct (refresh_flags ws) as [i f]. cbn [fst snd] in *. subst i.
  rewrite Ex. cbn [apply_op reported].
  set (cond := N.land ready (N.lor f (N.lor W_ERROR W_HANGUP))).
  destruct (cond =? 0) eqn:Ec; [cbn; discriminate|]. intros _. cbn [snd]. apply N.eqb_neq in Ec.
  (* some active watch keeps a bit of the condition *)
  assert (Hw : exists w, In w ws /\ w_enabled w = true /\ sanitize w cond <> 0).
  { destruct (N.eq_dec (N.land cond (N.lor W_ERROR W_HANGUP)) 0) as [Ez|Ez].
    - (* only requested events: one of them was requested by an active watch *)
      assert (Habs : N.land cond (N.lor f (N.lor W_ERROR W_HANGUP)) = cond) by (unfold cond; rewrite <- N.land_assoc, N.land_diag; reflexivity).
      rewrite N.land_lor_distr_r, Ez, N.lor_0_r in Habs.
      assert (Hf : N.land cond f <> 0) by (rewrite Habs; exact Ec).
      destruct (Hb cond Hf) as (w & Hin & Ha & Hbit). exists w. split; [exact Hin|]. unfold active in Ha. apply andb_true_iff in Ha. split; [tauto|].
      unfold sanitize. rewrite N.land_lor_distr_r. intros Hz. apply N.lor_eq_0_iff in Hz. tauto.
    - (* an error or hang-up: every enabled watch sees it *)
      apply existsb_exists in Ex. destruct Ex as (w & Hin & Ha). exists w. split; [exact Hin|]. unfold active in Ha. apply andb_true_iff in Ha. split; [tauto|].
      unfold sanitize. rewrite N.land_lor_distr_r. intros Hz. apply N.lor_eq_0_iff in Hz. tauto. }
  destruct Hw as (w & Hin & He & Hs). unfold handled, nlen.
  assert (In w (filter (fun w => w_enabled w && negb (sanitize w cond =? 0)) ws)).
  { apply filter_In. split; [exact Hin|]. rewrite He. cbn [andb]. apply negb_true_iff. apply N.eqb_neq. exact Hs. }
  destruct (filter _ ws); [destruct H|cbn [length]; lia].
Qed.

(* so: in every iteration, either the loop is not woken, or a handler runs, or it is the single spurious
   wake-up of a descriptor nobody watches *)
Theorem no_spin ws ready first :
  fst (iterate ws ready first) = false \/ 1 <= snd (iterate ws ready first) \/ (first = true /\ existsb active ws = false).
Proof.
  destruct (existsb active ws) eqn:Ex.
  - destruct (fst (iterate ws ready first)) eqn:E; [right; left; apply wakeup_is_handled; assumption|left; reflexivity].
  - destruct first; [right; right; auto|]. left. rewrite (proj1 (no_watch_bounded_wakeup ws ready Ex)). reflexivity.
Qed.
