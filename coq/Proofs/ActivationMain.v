(* C19, bus part: the property theorems, derived from the invariant of
   Proofs/ActivationInv.v, and the refutation witnesses. *)
From DV Require Import Lib.Base Activation.Activation Spec.ActivationSpec Proofs.ActivationBase Proofs.ActivationInv.
From Coq Require Import ZifyBool ZifyN ZifyNat Permutation.
Local Open Scope N_scope.

(* state and trace after a history *)
Definition after (cf : cfg) (h : list event) : state * trace := run_trace cf (start cf) [] h.

Lemma after_inv cf h st tr : wk_services cf /\ wk_history h -> after cf h = (st, tr) -> Inv cf st tr.
Proof.
  intros [W Wh] H. pose proof (reachable_inv cf h W Wh) as I. unfold after in H. rewrite H in I. exact I.
Qed.

Lemma run_trace_app cf h1 : forall h2 st tr,
  run_trace cf st tr (h1 ++ h2) = run_trace cf (fst (run_trace cf st tr h1)) (snd (run_trace cf st tr h1)) h2.
Proof.
  induction h1 as [|e h1 IH]; intros h2 st tr; simpl; [reflexivity|].
  destruct (step cf st e) as [st1 o]. apply IH.
Qed.

Lemma after_snoc cf h e st tr : after cf h = (st, tr) ->
  after cf (h ++ [e]) = (fst (step cf st e), tr ++ [(e, snd (step cf st e))]).
Proof.
  unfold after. intros H. rewrite run_trace_app, H. simpl. destruct (step cf st e); reflexivity.
Qed.

(* ---------------------------------------------------------------- every call meets at most one fate; the table is the ledger *)
Theorem one_fate cf h st tr : wk_services cf /\ wk_history h -> after cf h = (st, tr) ->
  NoDup (fated tr) /\ (forall i, In i (fated tr) -> exists c, In c (calls tr) /\ c.(c_id) = i).
Proof.
  intros W H. pose proof (after_inv cf h st tr W H) as I. split; [apply I|].
  intros i Hi. pose proof (i_fated_lt _ _ _ I i Hi) as Hlt.
  (* ids of calls are 0 .. n_calls-1 *)
  assert (forall t : trace, forall j, j < n_calls t -> exists c, In c (calls t) /\ c_id c = j) as Hall.
  { induction t as [|[e o] t IH] using rev_ind; intros j Hj.
    - unfold n_calls, calls, nlen in Hj. simpl in Hj. lia.
    - rewrite n_calls_snoc in Hj. rewrite calls_snoc.
      destruct (N.lt_ge_cases j (n_calls t)) as [Hlt'|Hge].
      + destruct (IH j Hlt') as [c [H1 H2]]. exists c. split; [apply in_app_iff; left; exact H1 | exact H2].
      + destruct e; simpl in Hj; unfold nlen in Hj; simpl in Hj; try lia.
        * eexists. split; [apply in_app_iff; right; left; reflexivity|]. simpl. lia.
        * eexists. split; [apply in_app_iff; right; left; reflexivity|]. simpl. lia. }
  apply Hall. exact Hlt.
Qed.

Theorem ledger cf h st tr n : wk_services cf /\ wk_history h -> after cf h = (st, tr) ->
  pend_entries st.(st_pend) n = map entry_of (waiting tr n).
Proof. intros W H. apply (i_ledger _ _ _ (after_inv cf h st tr W H)). Qed.

(* ---------------------------------------------------------------- spawn once *)
Lemma no_spawn_created st p x : In x (created_outs st p) -> is_spawn x = false.
Proof.
  unfold created_outs. intros H. apply in_flat_map in H. destruct H as [e [_ H]].
  destruct (connected st (e_conn e) && negb (e_auto e)); [destruct H as [<-|[]]; reflexivity | contradiction].
Qed.

Lemma deliver_no_spawn cf names fdok replies o id from serial cl : is_spawn (snd (deliver cf names fdok replies o id from serial cl)) = false.
Proof.
  unfold deliver. destruct (msg_fd cf cl && negb fdok); [reflexivity|].
  destruct (negb (pol_deliver cf names cl)); [reflexivity|].
  destruct (msg_reply cf cl && (max_replies cf <=? count_replies from replies)); reflexivity.
Qed.

Lemma no_spawn_replay_gen cf st names fdok o x : forall es replies, In x (snd (replay cf st names fdok o replies es)) -> is_spawn x = false.
Proof.
  induction es as [|e r IH]; intros replies; [intros []|]. cbn [replay].
  destruct (e_auto e && connected st (e_conn e)).
  - destruct (deliver cf names fdok replies o (e_id e) (e_conn e) (e_serial e) (e_class e)) as [r1 y] eqn:D.
    specialize (IH r1). destruct (replay cf st names fdok o r1 r) as [r2 xs]. cbn [snd] in *.
    intros [<-|H]; [|auto]. pose proof (deliver_no_spawn cf names fdok replies o (e_id e) (e_conn e) (e_serial e) (e_class e)) as S.
    rewrite D in S. exact S.
  - destruct (connected st (e_conn e)); [apply IH|].
    specialize (IH replies). destruct (replay cf st names fdok o replies r) as [r2 xs]. cbn [snd] in *.
    intros [<-|H]; [reflexivity | auto].
Qed.

Lemma no_spawn_replay cf st o p x : In x (snd (replay_outs cf st o p)) -> is_spawn x = false.
Proof. unfold replay_outs. apply no_spawn_replay_gen. Qed.

Lemma no_spawn_fail st er p x : In x (fail_outs st er p) -> is_spawn x = false.
Proof.
  unfold fail_outs. intros H. apply in_flat_map in H. destruct H as [e [_ H]].
  destruct (connected st (e_conn e)); destruct H as [<-|[]]; reflexivity.
Qed.

Lemma spawn_in_activate cf st c id s n auto cl st' o sid m x :
  activate cf st c id s n auto cl = (st', o) -> In (OSpawn sid m x) o ->
  m = n /\ sid = st.(st_next_sid) /\ o = [OSpawn sid m x] /\ find_pending n st.(st_pend) = None.
Proof.
  intros H Hin. apply activate_cases in H.
  destruct H as [[_ [_ Hns]] | [[p [sv [_ [_ [_ ->]]]]] | [sv [Fp [_ [_ [-> _]]]]]]].
  - apply Hns in Hin. discriminate.
  - contradiction.
  - destruct Hin as [Hin|[]]. inversion Hin; subst. repeat split. exact Fp.
Qed.

Lemma spawn_in_step cf st e sid n x :
  In (OSpawn sid n x) (snd (step cf st e)) ->
  snd (step cf st e) = [OSpawn sid n x] /\ sid = st.(st_next_sid) /\ find_pending n st.(st_pend) = None /\
  ((exists c s cl, e = ESend c s n false cl) \/ (exists c s, e = EStart c s n)).
Proof.
  destruct e; simpl.
  - unfold created. simpl. destruct (find_pending _ _); [|intros []]. intros H. apply no_spawn_created in H. discriminate.
  - destruct (connected st c); [|simpl; intros [H|[]]; discriminate].
    unfold send. destruct (owner_of (bump_id st) dest) as [ow|].
    { pose proof (deliver_no_spawn cf (names_of (st_owners (bump_id st)) ow) (fd_capable (bump_id st) ow) (st_replies (bump_id st)) ow (st_next_id st) c serial cl) as S.
      destruct (deliver cf _ _ _ ow (st_next_id st) c serial cl) as [rp y]. simpl in *. intros [H|[]]. subst y. discriminate. }
    destruct noauto; [simpl; intros [H|[]]; discriminate|].
    destruct (activate cf (bump_id st) c (st_next_id st) serial dest true cl) as [st' o] eqn:A. simpl.
    intros Hin. destruct (spawn_in_activate _ _ _ _ _ _ _ _ _ _ _ _ _ A Hin) as [-> [-> [-> Fp]]].
    repeat split; auto. left. eauto.
  - destruct (connected st c); [|simpl; intros [H|[]]; discriminate].
    destruct (activate cf (bump_id st) c (st_next_id st) serial n0 false 0) as [st' o] eqn:A. simpl.
    intros Hin. destruct (spawn_in_activate _ _ _ _ _ _ _ _ _ _ _ _ _ A Hin) as [-> [-> [-> Fp]]].
    repeat split; auto. right. eauto.
  - destruct (connected st c); [|intros []].
    destruct (assoc k (st_owners st)).
    + unfold resolve. destruct (find_pending _ _) as [p|].
      * pose proof (no_spawn_replay cf st n0 p) as NS. destruct (replay_outs cf st n0 p) as [rp ro]. simpl in *. intros H.
        apply in_app_iff in H. destruct H as [H|[H|[]]]; [apply NS in H|]; discriminate.
      * simpl. intros H. destruct H as [H|[]]; discriminate.
    + unfold resolve, created. simpl. destruct (find_pending _ _) as [p|].
      * match goal with |- context [replay_outs cf ?s1 c p] => set (st1 := s1) end.
        pose proof (no_spawn_replay cf st1 c p) as NS. destruct (replay_outs cf st1 c p) as [rp ro]. simpl in *. intros H.
        apply in_app_iff in H. destruct H as [H|H]; [apply no_spawn_created in H; discriminate|].
        apply in_app_iff in H. destruct H as [H|[H|[]]]; [apply NS in H|]; discriminate.
      * simpl. intros H. destruct H as [H|[]]. discriminate.
  - destruct (connected st c); [|intros []].
    destruct (assoc k (st_owners st)) as [o|]; [destruct (o =? c)|]; simpl; intros [H|[]]; discriminate.
  - intros [].
  - destruct (find_sid sid0 (st_pend st)); [|intros []]. destruct (child_error r); [|intros []]. simpl.
    intros H. apply in_flat_map in H. destruct H as [q [_ H]]. apply no_spawn_fail in H. discriminate.
  - destruct (find_sid sid0 (st_pend st)); [|intros []]. simpl. intros [H|H]; [discriminate|].
    apply no_spawn_fail in H. discriminate.
  - destruct (connected st c); [intros [H|[]]; discriminate | intros []].
  - intros [].
Qed.

(* A process is started for n only when no call is waiting for n; the step starts exactly one process, for the
   call that arrives in this very step, and that call is waiting afterwards.  Hence: as long as calls wait for n
   (an activation of n is pending, by [ledger]), nothing further is started for n. *)
Theorem spawn_once cf h st tr e sid n x : wk_services cf /\ wk_history h -> after cf h = (st, tr) ->
  In (OSpawn sid n x) (snd (step cf st e)) ->
  waiting tr n = [] /\
  snd (step cf st e) = [OSpawn sid n x] /\
  (exists c, call_of (n_calls tr) e = [c] /\ c.(c_dest) = n /\ waiting (tr ++ [(e, snd (step cf st e))]) n = [c]).
Proof.
  intros W H Hin. pose proof (after_inv cf h st tr W H) as I.
  destruct (spawn_in_step cf st e sid n x Hin) as [Ho [Hsid [Fp He]]].
  split; [apply (inv_find_none_waiting cf st tr I n Fp)|]. split; [exact Ho|].
  assert (waiting tr n = []) as Hw by apply (inv_find_none_waiting cf st tr I n Fp).
  rewrite Ho. rewrite waiting_snoc by apply I. rewrite Hw. simpl.
  destruct He as [[c [s [cl ->]]]|[c [s ->]]]; simpl; rewrite bname_eqb_refl; simpl; eexists; repeat split.
Qed.

Corollary no_spawn_while_waiting cf h st tr e sid n x : wk_services cf /\ wk_history h -> after cf h = (st, tr) ->
  waiting tr n <> [] -> ~ In (OSpawn sid n x) (snd (step cf st e)).
Proof. intros W H Hw Hin. destruct (spawn_once cf h st tr e sid n x W H Hin) as [Hn _]. contradiction. Qed.

(* ---------------------------------------------------------------- the name is taken: held messages once, in order, subject to policy *)
Lemma filter_flat_map {A B} (P : B -> bool) (f : A -> list B) l : filter P (flat_map f l) = flat_map (fun x => filter P (f x)) l.
Proof. induction l as [|x l IH]; simpl; [reflexivity|]. rewrite filter_app, IH. reflexivity. Qed.

Lemma flat_map_map {A B C} (f : B -> list C) (g : A -> B) l : flat_map f (map g l) = flat_map (fun x => f (g x)) l.
Proof. induction l as [|x l IH]; simpl; [reflexivity|]. rewrite IH. reflexivity. Qed.

Definition fwd_to (o : N) (w : call) : out := OFwd o w.(c_id) w.(c_conn) w.(c_serial).
Definition err_to (er : err) (w : call) : out := OErr w.(c_conn) w.(c_id) w.(c_serial) er.
Definition started_to (w : call) : out := OStarted w.(c_conn) w.(c_id) w.(c_serial) 1.

(* what the release of a name does with the calls waiting for it, in arrival order, written over the specification's
   notions (waiting calls, [live]); [deliver] is the verdict of bus_dispatch_matches for one message *)
Fixpoint release (cf : cfg) (alive : N -> bool) (names : list N) (fdok : bool) (o : N) (replies : list (N * N)) (W : list call)
  : list (N * N) * list out :=
  match W with
  | [] => (replies, [])
  | w :: r =>
      if w.(c_auto) && alive w.(c_conn) then
        let '(replies1, x) := deliver cf names fdok replies o w.(c_id) w.(c_conn) w.(c_serial) w.(c_class) in
        let '(replies2, xs) := release cf alive names fdok o replies1 r in (replies2, x :: xs)
      else if alive w.(c_conn) then release cf alive names fdok o replies r
      else let '(replies2, xs) := release cf alive names fdok o replies r in (replies2, OGone w.(c_id) :: xs)
  end.

Lemma replay_release cf st names fdok o : forall W replies,
  replay cf st names fdok o replies (map entry_of W) = release cf (connected st) names fdok o replies W.
Proof.
  induction W as [|w r IH]; intros replies; [reflexivity|]. cbn [map replay release].
  change (e_auto (entry_of w)) with (c_auto w). change (e_conn (entry_of w)) with (c_conn w).
  change (e_id (entry_of w)) with (c_id w). change (e_serial (entry_of w)) with (c_serial w). change (e_class (entry_of w)) with (c_class w).
  destruct (c_auto w && connected st (c_conn w)).
  - destruct (deliver cf names fdok replies o (c_id w) (c_conn w) (c_serial w) (c_class w)) as [r1 x]. rewrite IH. reflexivity.
  - destruct (connected st (c_conn w)); rewrite IH; reflexivity.
Qed.

Lemma release_ext cf f g names fdok o : (forall x, f x = g x) -> forall W replies,
  release cf f names fdok o replies W = release cf g names fdok o replies W.
Proof.
  intros E. induction W as [|w r IH]; intros replies; [reflexivity|]. cbn [release]. rewrite E.
  destruct (c_auto w && g (c_conn w)).
  - destruct (deliver cf names fdok replies o (c_id w) (c_conn w) (c_serial w) (c_class w)) as [r1 x]. rewrite IH. reflexivity.
  - destruct (g (c_conn w)); rewrite IH; reflexivity.
Qed.

(* one output per held message, for ITS sender: passed on, or exactly one of the three refusals; a StartServiceByName
   entry gets nothing here; the entry of a caller that has gone is dropped.  Whatever happens to one message, the loop
   carries on with the next *)
Definition release_outcome (alive : N -> bool) (o : N) (w : call) (x : out) : Prop :=
  if w.(c_auto) && alive w.(c_conn)
  then x = fwd_to o w \/ x = err_to EAccessDenied w \/ x = err_to ELimitsExceeded w \/ x = err_to ENotSupported w
  else x = OGone w.(c_id).

Lemma deliver_outcome cf names fdok replies o w :
  let x := snd (deliver cf names fdok replies o w.(c_id) w.(c_conn) w.(c_serial) w.(c_class)) in
  x = fwd_to o w \/ x = err_to EAccessDenied w \/ x = err_to ELimitsExceeded w \/ x = err_to ENotSupported w.
Proof.
  unfold deliver. destruct (msg_fd cf (c_class w) && negb fdok); [right; right; right; reflexivity|].
  destruct (negb (pol_deliver cf names (c_class w))); [right; left; reflexivity|].
  destruct (msg_reply cf (c_class w) && (max_replies cf <=? count_replies (c_conn w) replies)); [right; right; left; reflexivity | left; reflexivity].
Qed.

Lemma release_per_message cf alive names fdok o : forall W replies,
  Forall2 (release_outcome alive o) (filter (fun w => negb (alive w.(c_conn) && negb w.(c_auto))) W)
          (snd (release cf alive names fdok o replies W)).
Proof.
  induction W as [|w r IH]; intros replies; [constructor|]. cbn [release filter].
  destruct (c_auto w) eqn:Ea, (alive (c_conn w)) eqn:El; cbn [andb negb].
  - pose proof (deliver_outcome cf names fdok replies o w) as D.
    destruct (deliver cf names fdok replies o (c_id w) (c_conn w) (c_serial w) (c_class w)) as [r1 x]. specialize (IH r1).
    destruct (release cf alive names fdok o r1 r) as [r2 xs]. cbn [snd] in *. constructor; [|exact IH].
    unfold release_outcome. rewrite Ea, El. exact D.
  - specialize (IH replies). destruct (release cf alive names fdok o replies r) as [r2 xs]. cbn [snd] in *. constructor; [|exact IH].
    unfold release_outcome. rewrite Ea, El. reflexivity.
  - apply IH.
  - specialize (IH replies). destruct (release cf alive names fdok o replies r) as [r2 xs]. cbn [snd] in *. constructor; [|exact IH].
    unfold release_outcome. rewrite Ea, El. reflexivity.
Qed.

Lemma created_outs_map st p W : p.(p_entries) = map entry_of W ->
  created_outs st p = map started_to (filter (fun w => connected st w.(c_conn) && negb w.(c_auto)) W).
Proof.
  intros H. unfold created_outs. rewrite H, flat_map_map. apply flat_map_single. intros w. reflexivity.
Qed.

Lemma fail_outs_map st er p W : p.(p_entries) = map entry_of W ->
  fail_outs st er p = map (fun w => if connected st w.(c_conn) then err_to er w else OGone w.(c_id)) W.
Proof.
  intros H. unfold fail_outs. rewrite H. clear H. induction W as [|w W IH]; simpl; [reflexivity|].
  rewrite IH. destruct (connected st (c_conn w)); reflexivity.
Qed.

Theorem held_once_in_order cf h st tr c s k : wk_services cf /\ wk_history h -> after cf h = (st, tr) ->
  connected st c = true -> assoc k st.(st_owners) = None ->
  let W := waiting tr (Wk k) in
  let o := snd (step cf st (ERequest c s k)) in
  let names := k :: names_of st.(st_owners) c in
  let rel := snd (release cf (live tr) names (fd_capable st c) c st.(st_replies) W) in
  (* StartServiceByName callers first, then the held messages in arrival order, then the RequestName reply: always PRIMARY_OWNER *)
  o = map started_to (filter (fun w => live tr w.(c_conn) && negb w.(c_auto)) W) ++ rel ++ [ODrv c s 1] /\
  Forall2 (release_outcome (live tr) c) (filter (fun w => negb (live tr w.(c_conn) && negb w.(c_auto))) W) rel /\
  waiting (tr ++ [(ERequest c s k, o)]) (Wk k) = [].
Proof.
  intros W H Hc Ho. pose proof (after_inv cf h st tr W H) as I. cbv zeta.
  pose proof (step_inv cf st tr (ERequest c s k) Logic.I I) as I'.
  assert (forall x, connected st x = live tr x) as Hl by apply I.
  split; [|split; [apply release_per_message|]].
  - simpl. rewrite Hc, Ho. unfold resolve, created. simpl.
    assert (names_of ((k, c) :: st_owners st) c = k :: names_of (st_owners st) c) as Hnames.
    { unfold names_of. simpl. rewrite N.eqb_refl. reflexivity. }
    destruct (find_pending (Wk k) (st_pend st)) as [p|] eqn:F.
    + apply find_pending_In in F as F'. destruct F' as [Hp Hname].
      pose proof (inv_entries cf st tr I p Hp) as He. rewrite Hname in He.
      unfold replay_outs. simpl. rewrite Hnames, He, replay_release.
      change (fd_capable _ c) with (fd_capable st c).
      rewrite (release_ext cf _ (live tr) _ _ _ Hl).
      destruct (release cf (live tr) (k :: names_of (st_owners st) c) (fd_capable st c) c (st_replies st) (waiting tr (Wk k))) as [rp ro].
      simpl. rewrite (created_outs_map st p _ He). f_equal. f_equal. apply filter_ext. intros w. rewrite Hl. reflexivity.
    + rewrite (inv_find_none_waiting cf st tr I _ F). reflexivity.
  - simpl in I' |- *. rewrite Hc, Ho in I' |- *. unfold resolve, created in I' |- *. simpl in I' |- *.
    destruct (find_pending (Wk k) (st_pend st)) as [p|] eqn:F.
    + destruct (replay_outs cf _ c p) as [rp ro]. simpl in I' |- *.
      apply (inv_find_none_waiting _ _ _ I'). simpl. rewrite find_pending_remove, bname_eqb_refl. reflexivity.
    + simpl in I' |- *. apply (inv_find_none_waiting _ _ _ I'). simpl. exact F.
Qed.

(* ---------------------------------------------------------------- failures: every waiting caller is answered once *)
Definition fail_to (tr : trace) (er : err) (w : call) : out :=
  if live tr w.(c_conn) then err_to er w else OGone w.(c_id).

Lemma fail_outs_waiting cf st tr er p : Inv cf st tr -> In p st.(st_pend) ->
  fail_outs st er p = map (fail_to tr er) (waiting tr p.(p_name)).
Proof.
  intros I Hp. rewrite (fail_outs_map st er p _ (inv_entries cf st tr I p Hp)).
  apply map_ext. intros w. unfold fail_to. rewrite (i_conn _ _ _ I). reflexivity.
Qed.

Lemma waiting_after_fates tr e o n :
  (forall i, In i (fated tr) -> i < n_calls tr) -> call_of (n_calls tr) e = [] ->
  waiting (tr ++ [(e, o)]) n = filter (fun c => negb (mem c.(c_id) (fates o))) (waiting tr n).
Proof. intros Hlt Hc. rewrite waiting_snoc by exact Hlt. rewrite Hc. simpl. apply app_nil_r. Qed.

Theorem timeout_each_waiter_once cf h st tr sid p : wk_services cf /\ wk_history h -> after cf h = (st, tr) ->
  find_sid sid st.(st_pend) = Some p ->
  let o := snd (step cf st (ETimeout sid)) in
  o = OKill sid :: map (fail_to tr ETimedOut) (waiting tr p.(p_name)) /\
  waiting (tr ++ [(ETimeout sid, o)]) p.(p_name) = [] /\
  (forall m, m <> p.(p_name) -> waiting (tr ++ [(ETimeout sid, o)]) m = waiting tr m).
Proof.
  intros W H F. pose proof (after_inv cf h st tr W H) as I. cbv zeta. simpl. rewrite F. simpl.
  apply find_sid_In in F. destruct F as [Hp Hsid].
  rewrite (fail_outs_waiting cf st tr ETimedOut p I Hp). split; [reflexivity|].
  assert (fates (OKill sid :: map (fail_to tr ETimedOut) (waiting tr (p_name p))) = map c_id (waiting tr (p_name p))) as Hf.
  { simpl. rewrite <- (fail_outs_waiting cf st tr ETimedOut p I Hp), fates_fail. apply (inv_ids_of cf st tr I p Hp). }
  split.
  - rewrite waiting_after_fates by (try apply I; reflexivity). rewrite Hf. apply filter_none.
    intros c Hc. apply negb_false_iff, mem_In. apply in_map. exact Hc.
  - intros m Hm. rewrite waiting_after_fates by (try apply I; reflexivity). rewrite Hf. apply filter_all.
    intros c Hc. apply negb_true_iff, mem_false. intros Hin. apply in_map_iff in Hin. destruct Hin as [c' [E Hc']].
    eapply (waiting_disjoint tr m (p_name p)); eauto.
Qed.

Lemma exit_zero_ignored cf st sid : step cf st (EChild sid (Exited 0)) = (st, []).
Proof. simpl. destruct (find_sid sid (st_pend st)); reflexivity. Qed.

Lemma perm_filter_split {A} (f : A -> bool) l : Permutation l (filter f l ++ filter (fun x => negb (f x)) l).
Proof.
  induction l as [|x l IH]; simpl; [constructor|].
  destruct (f x); simpl; [constructor; exact IH|].
  eapply perm_trans; [constructor; exact IH|]. apply Permutation_middle.
Qed.

Lemma filter_unique_sid (l : list pending) p : NoDup (map p_sid l) -> In p l ->
  filter (fun q => negb (negb (p_sid q =? p_sid p))) l = [p].
Proof.
  induction l as [|x l IH]; simpl; intros Hn Hp; [contradiction|].
  inversion Hn; subst. destruct Hp as [->|Hp].
  - rewrite N.eqb_refl. simpl. f_equal. apply filter_none. intros q Hq.
    rewrite negb_involutive. apply N.eqb_neq. intros E. apply H1. rewrite <- E. apply in_map. exact Hq.
  - assert (p_sid x =? p_sid p = false) as ->.
    { apply N.eqb_neq. intros E. apply H1. rewrite E. apply in_map. exact Hp. }
    simpl. apply IH; auto.
Qed.

Theorem failure_each_waiter_once cf h st tr sid r p er : wk_services cf /\ wk_history h -> after cf h = (st, tr) ->
  find_sid sid st.(st_pend) = Some p -> child_error r = Some er ->
  let o := snd (step cf st (EChild sid r)) in
  let same := filter (fun q => p_exec q =? p_exec p) st.(st_pend) in
  Permutation o (flat_map (fun q => map (fail_to tr er) (waiting tr q.(p_name))) same) /\
  In p same /\
  (forall q, In q same -> waiting (tr ++ [(EChild sid r, o)]) q.(p_name) = []) /\
  (forall m, (forall q, In q same -> q.(p_name) <> m) -> waiting (tr ++ [(EChild sid r, o)]) m = waiting tr m).
Proof.
  intros W H F Hr. pose proof (after_inv cf h st tr W H) as I. cbv zeta. simpl. rewrite F, Hr. simpl.
  apply find_sid_In in F. destruct F as [Hp Hsid].
  set (same := filter (fun q => p_exec q =? p_exec p) (st_pend st)).
  set (others := filter (fun q => negb (p_sid q =? sid)) same).
  assert (In p same) as Hps by (apply filter_In; split; [exact Hp | apply N.eqb_refl]).
  assert (forall q, In q same -> In q (st_pend st)) as Hsub by (intros q Hq; apply filter_In in Hq; tauto).
  assert (Permutation (others ++ [p]) same) as Hperm.
  { apply Permutation_sym. eapply perm_trans; [apply (perm_filter_split (fun q => negb (p_sid q =? sid)) same)|].
    apply Permutation_app_head. rewrite <- Hsid. rewrite filter_unique_sid; auto.
    unfold same. apply NoDup_map_filter. apply I. }
  assert (forall l, (forall q, In q l -> In q (st_pend st)) ->
          flat_map (fail_outs st er) l = flat_map (fun q => map (fail_to tr er) (waiting tr (p_name q))) l) as Hfm.
  { induction l as [|q l IH]; simpl; intros Hl; [reflexivity|].
    rewrite (fail_outs_waiting cf st tr er q I) by (apply Hl; left; reflexivity). f_equal. apply IH. intros; apply Hl; right; auto. }
  assert (forall i, In i (fates (flat_map (fail_outs st er) (others ++ [p]))) <-> exists q, In q same /\ In i (map c_id (waiting tr (p_name q)))) as Hfates.
  { intros i. rewrite fates_flat_map, in_flat_map. split.
    - intros [q [Hq Hi]]. exists q. split; [eapply Permutation_in; eauto|]. rewrite fates_fail in Hi.
      rewrite <- (inv_ids_of cf st tr I q); auto. apply Hsub. eapply Permutation_in; eauto.
    - intros [q [Hq Hi]]. exists q. split; [eapply Permutation_in; [apply Permutation_sym; eauto | exact Hq]|].
      rewrite fates_fail. rewrite (inv_ids_of cf st tr I q); auto. }
  repeat split.
  - rewrite Hfm.
    + apply Permutation_flat_map. exact Hperm.
    + intros q Hq. apply Hsub. eapply Permutation_in; eauto.
  - exact Hps.
  - intros q Hq. rewrite waiting_after_fates by (try apply I; reflexivity). apply filter_none.
    intros c Hc. apply negb_false_iff, mem_In. apply Hfates. exists q. split; [exact Hq | apply in_map; exact Hc].
  - intros m Hm. rewrite waiting_after_fates by (try apply I; reflexivity). apply filter_all.
    intros c Hc. apply negb_true_iff, mem_false. intros Hin. apply Hfates in Hin. destruct Hin as [q [Hq Hi]].
    apply in_map_iff in Hi. destruct Hi as [c' [E Hc']].
    apply (waiting_disjoint tr m (p_name q) c c'); [intros E2; apply (Hm q Hq); congruence | exact Hc | exact Hc' | congruence].
Qed.

(* with Exec lines that are not shared, only the callers waiting for the failed process's own name are answered *)
Corollary failure_own_name_only cf h st tr sid r p er : wk_services cf /\ wk_history h -> after cf h = (st, tr) ->
  find_sid sid st.(st_pend) = Some p -> child_error r = Some er ->
  (forall q, In q st.(st_pend) -> p_exec q = p_exec p -> q = p) ->
  snd (step cf st (EChild sid r)) = map (fail_to tr er) (waiting tr p.(p_name)).
Proof.
  intros W H F Hr Hu. pose proof (after_inv cf h st tr W H) as I. simpl. rewrite F, Hr. simpl.
  apply find_sid_In in F. destruct F as [Hp Hsid].
  assert (filter (fun q => negb (p_sid q =? sid)) (filter (fun q => p_exec q =? p_exec p) (st_pend st)) = []) as ->.
  { apply filter_none. intros q Hq. apply filter_In in Hq. destruct Hq as [Hq E]. apply N.eqb_eq in E.
    rewrite (Hu q Hq E), Hsid, N.eqb_refl. reflexivity. }
  simpl. rewrite app_nil_r. apply (fail_outs_waiting cf st tr er p I Hp).
Qed.

(* ---------------------------------------------------------------- reloading the configuration *)
(* ReloadConfig / SIGHUP and changes of the service directories answer nobody, start nothing and leave every pending
   activation as it is; so (by the theorems above, which hold for histories containing such events) whatever was
   pending before is still resolved exactly once afterwards *)
Theorem reload_keeps_pending cf st tr e : (exists c s, e = EReload c s) \/ (exists l, e = ESetServices l) ->
  (fst (step cf st e)).(st_pend) = st.(st_pend) /\
  fates (snd (step cf st e)) = [] /\
  (forall x, In x (snd (step cf st e)) -> is_spawn x = false) /\
  ((forall i, In i (fated tr) -> i < n_calls tr) -> forall n, waiting (tr ++ [(e, snd (step cf st e))]) n = waiting tr n).
Proof.
  intros He.
  assert (call_of (n_calls tr) e = [] /\ (fst (step cf st e)).(st_pend) = st.(st_pend) /\ fates (snd (step cf st e)) = [] /\
          (forall x, In x (snd (step cf st e)) -> is_spawn x = false)) as [Hc [Hp [Hf Hs]]].
  { destruct He as [[c [s ->]]|[l ->]]; simpl.
    - destruct (connected st c); simpl; repeat split; auto; intros x Hx; [destruct Hx as [<-|[]]; reflexivity | destruct Hx].
    - repeat split; auto. intros x []. }
  repeat split; auto.
  intros Hlt n. rewrite waiting_after_fates by auto. rewrite Hf. apply filter_all. intros; reflexivity.
Qed.

Definition is_reload (e : event) : Prop := (exists c s, e = EReload c s) \/ (exists l, e = ESetServices l).

Lemma reload_keeps_rest cf st tr e : is_reload e ->
  (fst (step cf st e)).(st_conns) = st.(st_conns) /\ (fst (step cf st e)).(st_owners) = st.(st_owners) /\
  (fst (step cf st e)).(st_fdok) = st.(st_fdok) /\ (fst (step cf st e)).(st_replies) = st.(st_replies) /\
  (forall c, live (tr ++ [(e, snd (step cf st e))]) c = live tr c).
Proof.
  intros [[c [s ->]]|[l ->]]; simpl.
  - destruct (connected st c); simpl; repeat split; intros x; rewrite live_snoc; reflexivity.
  - repeat split. intros x. rewrite live_snoc. reflexivity.
Qed.

(* the messages held before a reload are the ones released, in order, when the name is taken after it *)
Corollary held_once_in_order_across_reload cf h st tr e c s k :
  wk_services cf /\ wk_history h -> wk_event e -> is_reload e -> after cf h = (st, tr) ->
  connected st c = true -> assoc k st.(st_owners) = None ->
  let st1 := fst (step cf st e) in
  let o := snd (step cf st1 (ERequest c s k)) in
  let W := waiting tr (Wk k) in
  let names := k :: names_of st.(st_owners) c in
  o = map started_to (filter (fun w => live tr w.(c_conn) && negb w.(c_auto)) W) ++
      snd (release cf (live tr) names (fd_capable st c) c st.(st_replies) W) ++ [ODrv c s 1] /\
  waiting ((tr ++ [(e, snd (step cf st e))]) ++ [(ERequest c s k, o)]) (Wk k) = [].
Proof.
  intros [W Wh] We Hr H Hc Ho. cbv zeta.
  pose proof (after_inv cf h st tr (conj W Wh) H) as I.
  destruct (reload_keeps_rest cf st tr e Hr) as [Ec [Eo [Ef [Er El]]]].
  destruct (reload_keeps_pending cf st tr e Hr) as [_ [_ [_ Ew]]].
  specialize (Ew (i_fated_lt _ _ _ I)).
  assert (wk_history (h ++ [e])) as Wh'.
  { intros x Hx. apply in_app_iff in Hx. destruct Hx as [Hx|[<-|[]]]; auto. }
  pose proof (after_snoc cf h e st tr H) as H'.
  assert (connected (fst (step cf st e)) c = true) as Hc' by (unfold connected in *; rewrite Ec; exact Hc).
  assert (assoc k (st_owners (fst (step cf st e))) = None) as Ho' by (rewrite Eo; exact Ho).
  destruct (held_once_in_order cf (h ++ [e]) _ _ c s k (conj W Wh') H' Hc' Ho') as [F1 [_ F3]].
  split; [|exact F3].
  rewrite F1, Eo, Er, Ew. unfold fd_capable. rewrite Ef.
  rewrite (release_ext cf _ (live tr) _ _ _ El). f_equal.
  f_equal. apply filter_ext. intros w. rewrite El. reflexivity.
Qed.

(* ---------------------------------------------------------------- what the faithful model does NOT satisfy *)
(* F19.1: with a service file for a unique name a StartServiceByName caller is answered twice *)
Definition f19_1_cfg : cfg := std_cfg [mkService (Uq 2) 7 true] 50.
Definition f19_1_history : list event := [EConnect false; EConnect false; EStart 0 1 (Uq 2); EConnect false; ETimeout 0].

Lemma one_fate_refuted : ~ NoDup (fated (snd (after f19_1_cfg f19_1_history))).
Proof.
  assert (fated (snd (after f19_1_cfg f19_1_history)) = [0; 0]) as -> by (vm_compute; reflexivity).
  intros H. inversion H; subst. apply H2. left. reflexivity.
Qed.

(* ... and a message held for the unique name is not delivered although the name has an owner *)
Definition f19_1_history2 : list event := [EConnect false; EConnect false; ESend 1 1 (Uq 2) false 0; EConnect false].
Lemma held_for_unique_not_delivered :
  let '(st, tr) := after f19_1_cfg f19_1_history2 in
  owner_of st (Uq 2) = Some 2 /\ (waiting tr (Uq 2) <> []) /\ fated tr = [].
Proof. vm_compute. repeat split; discriminate. Qed.

(* F19.2: the failure of one process answers the callers of another name that shares the Exec line *)
Definition f19_2_cfg : cfg := std_cfg [mkService (Wk 1) 1 true; mkService (Wk 2) 1 true] 50.
Definition f19_2_history : list event := [EConnect false; EConnect false; ESend 0 1 (Wk 1) false 0; ESend 1 1 (Wk 2) false 0].

Lemma failure_own_name_refuted :
  let '(st, tr) := after f19_2_cfg f19_2_history in
  exists p, find_sid 0 st.(st_pend) = Some p /\ p.(p_name) = Wk 1 /\
  snd (step f19_2_cfg st (EChild 0 (Exited 3))) <> map (fail_to tr EChildExited) (waiting tr p.(p_name)) /\
  In (OErr 1 1 1 EChildExited) (snd (step f19_2_cfg st (EChild 0 (Exited 3)))).
Proof. vm_compute. eexists. repeat split; [discriminate | left; reflexivity]. Qed.
