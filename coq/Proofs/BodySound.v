(* Soundness of the body validator model [vb] (Wire/Body.v) against the
   specification codec (Spec/Codec.v): whenever the model accepts, the bytes it
   consumed ARE the canonical encoding of a value of the requested type, and
   that value is well formed -- up to two recorded deviations of the C code,
   which are made explicit by the relaxed predicate [wfx] and the exclusion
   predicate [nodev]:
     F11   the signature automaton counts only consecutive array codes, so a
           SIGNATURE value / variant signature may nest more than 32 arrays;
     FD65  a non-empty array of fixed-size elements is validated without
           entering its elements, so it is accepted at nesting depth 64 although
           its elements then sit at depth 65 (> max_value_depth).
   [wfx] differs from [wfb] (Proofs/CodecRoundtrip.v) exactly there;
   [wfx_wfb]: wfx + nodev -> wfb;  [vb_sound]: vb accepts -> wfx;
   [vb_sound_unrestricted_refuted]: the statement with [wfb] is false. *)
From DV Require Import Lib.Base Gen.Tables Wire.Body Wire.Utf8 Spec.Codec Spec.NamesSpec Spec.Utf8Spec Wire.HeaderEdit
  Proofs.CodecBasics Proofs.CodecWf Proofs.CodecRoundtrip Proofs.BodyCursor Proofs.BodyVbEq Proofs.BodyComplete
  Proofs.BodyLocal Proofs.NamesProofs Proofs.Utf8Proofs Proofs.SigRoundtrip Proofs.SigAutomaton.
From Coq Require Import ZArith ZifyBool ZifyN ZifyNat Arith.
Local Open Scope N_scope.
Ltac Zify.zify_post_hook ::= Z.div_mod_to_equations.

(* ---- bytes ------------------------------------------------------------------- *)
Lemma ab_app a b : all_bytes (a ++ b) = all_bytes a && all_bytes b.
Proof. unfold all_bytes. apply forallb_app. Qed.

Lemma ab_app_inv a b : all_bytes (a ++ b) = true -> all_bytes a = true /\ all_bytes b = true.
Proof. rewrite ab_app. intros H. apply andb_true_iff in H. exact H. Qed.

Lemma ab_cons_inv x b : all_bytes (x :: b) = true -> x < 256 /\ all_bytes b = true.
Proof. apply all_bytes_cons. Qed.

Lemma ab_firstn n d : all_bytes d = true -> all_bytes (firstn n d) = true.
Proof. intros H. rewrite <- (firstn_skipn n d) in H. apply ab_app_inv in H. exact (proj1 H). Qed.

Lemma ab_skipn n d : all_bytes d = true -> all_bytes (skipn n d) = true.
Proof. intros H. rewrite <- (firstn_skipn n d) in H. apply ab_app_inv in H. exact (proj2 H). Qed.

Lemma nlen_firstn {A} n (d : list A) : n <= nlen d -> nlen (firstn (N.to_nat n) d) = n.
Proof. unfold nlen. intros H. rewrite firstn_length. lia. Qed.

(* ---- cursors in the form [curof pos data] --------------------------------------- *)
Lemma curof_eq c : wfc c -> c = curof (cpos c) (cdat c).
Proof. destruct c as [p r l]. unfold wfc, curof. cbn [cpos crem cdat]. intros ->. reflexivity. Qed.

Lemma take1_inv pos d b c' : take1 (curof pos d) = Some (b, c') -> exists d', d = b :: d' /\ c' = curof (pos + 1) d'.
Proof.
  destruct d as [|x d']; [discriminate|]. rewrite take1_cons. intros H. injection H as <- <-.
  exists d'. split; reflexivity.
Qed.

Lemma peek4_inv pos d q : peek4 (curof pos d) = Some q ->
  exists b0 b1 b2 b3 d', d = b0 :: b1 :: b2 :: b3 :: d' /\ q = (b0, b1, b2, b3).
Proof.
  unfold peek4, curof. cbn [cdat]. destruct d as [|b0 [|b1 [|b2 [|b3 d']]]]; try discriminate.
  intros H. inversion H. exists b0, b1, b2, b3, d'. split; reflexivity.
Qed.

Lemma advance_curof pos d n : n <= nlen d ->
  advance (curof pos d) n = curof (pos + n) (skipn (N.to_nat n) d).
Proof.
  intros H. unfold advance, curof. cbn [cpos crem cdat]. f_equal. rewrite bl_nlen_skipn. lia.
Qed.

Lemma pad_loop_inv : forall n pos d c', pad_loop n (curof pos d) = inl c' ->
  exists d', d = repeat 0 n ++ d' /\ c' = curof (pos + N.of_nat n) d'.
Proof.
  induction n as [|n IH]; intros pos d c' H.
  - cbn in H. inversion H; subst. exists d. split; [reflexivity|]. f_equal. lia.
  - cbn [pad_loop] in H. destruct (take1 (curof pos d)) as [[b c1]|] eqn:T; [|discriminate].
    destruct (take1_inv _ _ _ _ T) as (d1 & -> & ->).
    destruct (b =? 0) eqn:Eb; [|discriminate]. apply N.eqb_eq in Eb. subst b.
    destruct (IH _ _ _ H) as (d' & -> & ->). exists d'. split; [reflexivity|]. f_equal. lia.
Qed.

(* alignment padding: the bytes skipped are exactly the specification's padding *)
Lemma pad_to_inv pos al d c' : (al = 1 \/ al = 2 \/ al = 4 \/ al = 8) ->
  pad_to (curof pos d) (align_up pos al) = inl c' ->
  exists d', d = zeros (pad_amount pos al) ++ d' /\ c' = curof (pos + pad_amount pos al) d'.
Proof.
  intros Hal H. unfold pad_to in H. cbn [curof cpos] in H. rewrite (align_up_pad pos al Hal) in H.
  replace (pos + pad_amount pos al - pos) with (pad_amount pos al) in H by lia.
  destruct (pad_loop_inv _ _ _ _ H) as (d' & -> & ->). exists d'. split; [reflexivity|]. f_equal. lia.
Qed.

(* ---- numbers: bytes < 256 are the digits of the number they denote -------------- *)
Lemma le_num_bound : forall bs, all_bytes bs = true -> le_num bs < 256 ^ nlen bs.
Proof.
  induction bs as [|b r IH]; intros H; [cbn; lia|].
  apply ab_cons_inv in H. destruct H as [Hb Hr]. specialize (IH Hr). cbn [le_num].
  rewrite nlen_cons. rewrite N.pow_add_r. change (256 ^ 1) with 256. lia.
Qed.

Lemma le_bytes_num : forall bs, all_bytes bs = true -> le_bytes (length bs) (le_num bs) = bs.
Proof.
  induction bs as [|b r IH]; intros H; [reflexivity|].
  apply ab_cons_inv in H. destruct H as [Hb Hr]. cbn [length le_num le_bytes].
  replace ((b + 256 * le_num r) mod 256) with b by lia.
  replace ((b + 256 * le_num r) / 256) with (le_num r) by lia. rewrite (IH Hr). reflexivity.
Qed.

Lemma ab_rev bs : all_bytes (rev bs) = all_bytes bs.
Proof.
  unfold all_bytes. induction bs as [|b r IH]; [reflexivity|]. cbn [rev forallb].
  rewrite forallb_app, IH. cbn [forallb]. rewrite andb_true_r. apply andb_comm.
Qed.

Lemma bytes_of_num le bs : all_bytes bs = true ->
  bytes_of le (length bs) (num_of le bs) = bs /\ num_of le bs < 256 ^ nlen bs.
Proof.
  intros H. unfold bytes_of, num_of. destruct le.
  - split; [apply le_bytes_num; exact H | apply le_num_bound; exact H].
  - assert (Hr : all_bytes (rev bs) = true) by (rewrite ab_rev; exact H).
    split.
    + rewrite <- (rev_length bs). rewrite (le_bytes_num _ Hr). apply rev_involutive.
    + rewrite <- (nlen_rev bs). apply le_num_bound. exact Hr.
Qed.

Lemma unpack32_num le b0 b1 b2 b3 : unpack32 le (b0, b1, b2, b3) = num_of le [b0; b1; b2; b3].
Proof. unfold unpack32, num_of. destruct le; cbn [rev app le_num]; lia. Qed.

Lemma unpack32_bytes le b0 b1 b2 b3 : all_bytes [b0; b1; b2; b3] = true ->
  bytes_of le 4 (unpack32 le (b0, b1, b2, b3)) = [b0; b1; b2; b3] /\ unpack32 le (b0, b1, b2, b3) < 4294967296.
Proof.
  intros H. rewrite unpack32_num. destruct (bytes_of_num le _ H) as [E B]. split; [exact E|].
  exact B.
Qed.

(* length word: alignment padding, four bytes, and the number they denote *)
Lemma read_len32_inv le pos d len c2 : all_bytes d = true ->
  read_len32 le (curof pos d) = inl (len, c2) ->
  exists d', d = zeros (pad_amount pos 4) ++ bytes_of le 4 len ++ d' /\ len < 4294967296 /\
             c2 = curof (pos + pad_amount pos 4 + 4) d'.
Proof.
  intros Hb H. unfold read_len32 in H. cbv zeta in H. cbn [curof cpos crem] in H.
  destruct (pos + nlen d <? align_up pos 4 + 4); [discriminate|].
  fold (curof pos d) in H.
  destruct (pad_to (curof pos d) (align_up pos 4)) as [c1|] eqn:P; [|discriminate].
  destruct (pad_to_inv pos 4 d c1 ltac:(lia) P) as (d1 & -> & ->).
  destruct (peek4 _) as [q|] eqn:K in H; [|discriminate].
  destruct (peek4_inv _ _ _ K) as (b0 & b1 & b2 & b3 & d' & -> & ->).
  remember (unpack32 le (b0, b1, b2, b3)) as u eqn:Eu. injection H as <- <-. subst u.
  apply ab_app_inv in Hb. destruct Hb as [_ Hb].
  assert (H4 : all_bytes [b0; b1; b2; b3] = true).
  { change (b0 :: b1 :: b2 :: b3 :: d') with ([b0; b1; b2; b3] ++ d') in Hb. apply ab_app_inv in Hb. exact (proj1 Hb). }
  destruct (unpack32_bytes le _ _ _ _ H4) as [E B].
  exists d'. rewrite E. split; [reflexivity|]. split; [exact B|].
  rewrite advance_curof by (rewrite !nlen_cons; lia). reflexivity.
Qed.

(* ---- types ---------------------------------------------------------------------- *)
Definition isnil {A} (l : list A) : bool := match l with [] => true | _ => false end.

(* types as produced by the signature parser, closed under taking components *)
Fixpoint tygood (t : ty) : bool :=
  match t with
  | TBasic c => is_basic_code c
  | TVariant => true
  | TArray t' => tygood t'
  | TStruct ts => negb (isnil ts) && forallb tygood ts
  | TDict k v => is_basic_code k && tygood v
  end.

Lemma ty_okb_tygood : forall t, ty_okb t = true -> tygood t = true.
Proof.
  assert (H : forall t, (ty_okb t = true -> tygood t = true) /\
                        (forall k v, t = TDict k v -> ty_okb v = true -> tygood v = true)).
  { induction t as [c| |t IH|ts IH|k v IH] using ty_ind'; (split; [|try discriminate]).
    - intros H. exact H.
    - reflexivity.
    - intros Hok. destruct IH as [IH1 IH2]. destruct (ty_okb_array t Hok) as [(k & v & -> & Hk & Hv)|Ht].
      + cbn [tygood]. rewrite Hk. apply (IH2 k v eq_refl Hv).
      + cbn [tygood]. apply IH1. exact Ht.
    - intros Hok. cbn [ty_okb] in Hok. apply andb_true_iff in Hok. destruct Hok as [Hne Hok].
      cbn [tygood]. apply andb_true_iff. split; [destruct ts; [discriminate|reflexivity]|].
      rewrite forallb_forall in *. rewrite Forall_forall in IH. intros t Hin. apply (IH t Hin). apply Hok. exact Hin.
    - discriminate.
    - intros k0 v0 E Hv. injection E as <- <-. apply IH. exact Hv. }
  intros t. apply H.
Qed.

Lemma tygood_goodb : forall t, tygood t = true -> goodb t = true.
Proof.
  induction t as [c| |t IH|ts IH|k v IH] using ty_ind'; cbn [tygood goodb]; intros H; try reflexivity.
  - apply IH. exact H.
  - apply andb_true_iff in H. destruct H as [Hne H]. apply andb_true_iff. split; [destruct ts; [discriminate|reflexivity]|].
    rewrite forallb_forall in *. rewrite Forall_forall in IH. intros t Hin. apply (IH t Hin). apply H. exact Hin.
  - apply andb_true_iff in H. apply IH. exact (proj2 H).
Qed.

Lemma parse_sig_tygood s ts : parse_sig s = Some ts -> forallb tygood ts = true.
Proof.
  intros H. apply parse_sig_sound in H. destruct H as [_ H]. rewrite forallb_forall in *.
  intros t Hin. apply ty_okb_tygood. apply H. exact Hin.
Qed.

(* the generated tables against the specification's table *)
Lemma big_fixed_size c : 256 <= c -> fixed_size c = None.
Proof.
  intros H. unfold fixed_size.
  replace (c =? 121) with false by lia. replace ((c =? 110) || (c =? 113)) with false by lia.
  replace ((c =? 98) || (c =? 105) || (c =? 117) || (c =? 104)) with false by lia.
  replace ((c =? 120) || (c =? 116) || (c =? 100)) with false by lia. reflexivity.
Qed.

Definition is_fixed_code (c : N) : bool := match fixed_size c with Some _ => true | None => false end.

Lemma type_fixed_spec : forall c, type_fixed c = is_fixed_code c.
Proof.
  apply sweep256; [vm_compute; reflexivity|]. intros c H. unfold is_fixed_code. rewrite (big_fixed_size c H).
  unfold type_fixed. apply tbl_big. assert (Hl : N.of_nat (length tbl_type_fixed) <= 256) by (vm_compute; discriminate). lia.
Qed.

Lemma type_fixed_size c : type_fixed c = true -> exists sz, fixed_size c = Some sz.
Proof. rewrite type_fixed_spec. unfold is_fixed_code. destruct (fixed_size c) as [sz|]; [eexists; reflexivity|discriminate]. Qed.

Lemma not_fixed_size c : type_fixed c = false -> fixed_size c = None.
Proof. rewrite type_fixed_spec. unfold is_fixed_code. destruct (fixed_size c) as [sz|]; [discriminate|reflexivity]. Qed.

Lemma align_cases_basic c : is_basic_code c = true ->
  type_alignment c = spec_align (TBasic c) /\
  (spec_align (TBasic c) = 1 \/ spec_align (TBasic c) = 2 \/ spec_align (TBasic c) = 4 \/ spec_align (TBasic c) = 8).
Proof.
  intros H. apply basic_code_cases in H.
  destruct H as [->|[->|[->|[->|[->|[->|[->|[->|[->|[->|[->|[->| ->]]]]]]]]]]]]; (split; [vm_compute; reflexivity | vm_compute; intuition congruence]).
Qed.

Lemma tygood_align t : tygood t = true ->
  ty_alignment t = spec_align t /\ (spec_align t = 1 \/ spec_align t = 2 \/ spec_align t = 4 \/ spec_align t = 8).
Proof.
  destruct t as [c| |t'|ts|k v]; cbn [tygood ty_alignment]; intros H.
  - apply align_cases_basic. exact H.
  - cbn. split; [reflexivity|lia].
  - cbn. split; [reflexivity|lia].
  - cbn. split; [reflexivity|lia].
  - cbn. split; [reflexivity|lia].
Qed.

(* ---- relaxed well-formedness: what the validator really guarantees ---------------- *)
Definition is_fixed_ty (t : ty) : bool := match t with TBasic c => is_fixed_code c | _ => false end.

Lemma ty_is_fixed_spec t : ty_is_fixed t = is_fixed_ty t.
Proof. destruct t; try reflexivity. apply type_fixed_spec. Qed.

(* the variant signature as the C automaton accepts it (array nesting not bounded: F11) *)
Definition sig_model (t : ty) : bool :=
  (nlen (print_ty t) <? 256) && validate_signature (print_ty t) &&
  match parse_sig (print_ty t) with Some [t'] => ty_eqb t' t | _ => false end.

(* [wfb] with: signatures judged by the automaton, and the elements of an array of fixed-size
   elements not counted as one more nesting level *)
Fixpoint wfx (le : bool) (depth pos : N) (v : val) {struct v} : bool :=
  let wfs := (fix wfs (vs : list val) (depth pos : N) : bool :=
                match vs with
                | [] => true
                | x :: r => wfx le depth pos x && wfs r depth (pos + nlen (enc le x pos))
                end) in
  (depth <=? max_value_depth) &&
  match v with
  | VNum c n => match fixed_size c with
                | Some sz => (n <? 256 ^ sz) && (negb (c =? 98) || (n <=? 1))
                | None => false
                end
  | VStr c s => if c =? 115 then spec_utf8 s && (nlen s <? 4294967296)
                else if c =? 111 then spec_path s && (nlen s <? 4294967296)
                else if c =? 103 then validate_signature s
                else false
  | VArr et vs =>
      let start := pos + pad_amount pos 4 + 4 + pad_amount (pos + pad_amount pos 4 + 4) (spec_align et) in
      forallb (fun x => ty_eqb (ty_of_val x) et) vs &&
      (nlen (encs le vs start) <=? max_array) &&
      wfs vs (if is_fixed_ty et then depth else depth + 1) start
  | VStruct fs => negb (match fs with [] => true | _ => false end) && wfs fs (depth + 1) (pos + pad_amount pos 8)
  | VDictE k x => is_basic_val k && wfs [k; x] (depth + 1) (pos + pad_amount pos 8)
  | VVar t x => ty_eqb (ty_of_val x) t && sig_model t && wfx le (depth + 1) (pos + (nlen (print_ty t) + 2)) x
  end.

Fixpoint wfxs (le : bool) (vs : list val) (depth pos : N) : bool :=
  match vs with
  | [] => true
  | x :: r => wfx le depth pos x && wfxs le r depth (pos + nlen (enc le x pos))
  end.

Lemma wfxs_inner le : forall vs depth pos,
  (fix wfs (vs : list val) (depth pos : N) : bool :=
     match vs with
     | [] => true
     | x :: r => wfx le depth pos x && wfs r depth (pos + nlen (enc le x pos))
     end) vs depth pos = wfxs le vs depth pos.
Proof. induction vs as [|x r IH]; intros; [reflexivity|]. cbn [wfxs]. rewrite IH. reflexivity. Qed.

Lemma wfx_arr le depth pos et vs :
  wfx le depth pos (VArr et vs) =
  (depth <=? max_value_depth) &&
  (forallb (fun x => ty_eqb (ty_of_val x) et) vs && (nlen (encs le vs (arr_start pos et)) <=? max_array) &&
   wfxs le vs (if is_fixed_ty et then depth else depth + 1) (arr_start pos et)).
Proof. cbn [wfx]. rewrite (wfxs_inner le vs). reflexivity. Qed.

Lemma wfx_struct le depth pos fs :
  wfx le depth pos (VStruct fs) =
  (depth <=? max_value_depth) && (negb (match fs with [] => true | _ => false end) && wfxs le fs (depth + 1) (pos + pad_amount pos 8)).
Proof. cbn [wfx]. rewrite (wfxs_inner le fs). reflexivity. Qed.

Lemma wfx_dict le depth pos k x :
  wfx le depth pos (VDictE k x) =
  (depth <=? max_value_depth) && (is_basic_val k && wfxs le [k; x] (depth + 1) (pos + pad_amount pos 8)).
Proof. cbn [wfx]. rewrite (wfxs_inner le [k; x]). reflexivity. Qed.

Lemma wfx_depth le depth pos v : wfx le depth pos v = true -> depth <= max_value_depth.
Proof. destruct v; cbn [wfx]; intros H; apply andb_true_iff in H; destruct H as [H _]; apply N.leb_le; exact H. Qed.

(* ---- what separates [wfx] from [wfb]: the two deviations ----------------------------- *)
Fixpoint nodev (depth : N) (v : val) : bool :=
  match v with
  | VNum _ _ => true
  | VStr c s => negb (c =? 103) || spec_signature s                                    (* F11 *)
  | VArr et vs => (negb (is_fixed_ty et) || isnil vs || (depth + 1 <=? max_value_depth))      (* FD65 *)
                  && forallb (nodev (depth + 1)) vs
  | VStruct fs => forallb (nodev (depth + 1)) fs
  | VDictE k x => nodev (depth + 1) k && nodev (depth + 1) x
  | VVar t x => (array_nest t <=? 32) && nodev (depth + 1) x                           (* F11 *)
  end.

Lemma leaf_shift le d d' pos x : is_basic_val x = true -> nodev d' x = true -> d' <= max_value_depth ->
  wfx le d pos x = true -> wfb le d' pos x = true.
Proof.
  destruct x as [c n|c s| | | | ]; try discriminate; intros _ Hn Hd H; cbn [wfx wfb nodev] in *;
    apply andb_true_iff in H; destruct H as [_ H]; apply andb_true_iff; (split; [lia|]).
  - exact H.
  - destruct (c =? 115); [exact H|]. destruct (c =? 111); [exact H|]. destruct (c =? 103); [|discriminate].
    cbn [negb orb] in Hn. exact Hn.
Qed.

Lemma sig_model_roundtrips t : sig_model t = true -> array_nest t <= 32 -> sig_roundtrips t = true.
Proof.
  unfold sig_model, sig_roundtrips. intros H Ha.
  apply andb_true_iff in H. destruct H as [H Hp]. apply andb_true_iff in H. destruct H as [Hl Hv].
  rewrite Hl, Hp. rewrite andb_true_r. cbn [andb].
  destruct (parse_sig (print_ty t)) as [[|t' [|? ?]]|] eqn:P; try discriminate. apply ty_eqb_eq in Hp. subst t'.
  destruct (validate_signature_spec _ Hv) as (ts & P' & E). rewrite P in P'. injection P' as <-.
  unfold spec_single_signature. rewrite P, E. cbn [forallb]. rewrite andb_true_r. lia.
Qed.

Lemma wfxs_wfsb le : forall vs,
  Forall (fun v => forall depth pos, nodev depth v = true -> wfx le depth pos v = true -> wfb le depth pos v = true) vs ->
  forall depth pos, forallb (nodev depth) vs = true -> wfxs le vs depth pos = true -> wfsb le vs depth pos = true.
Proof.
  induction 1 as [|x r Hx Hr IH]; intros depth pos Hn H; [reflexivity|].
  cbn [wfxs wfsb forallb] in *. apply andb_true_iff in H. destruct H as [H1 H2].
  apply andb_true_iff in Hn. destruct Hn as [Hn1 Hn2].
  rewrite (Hx _ _ Hn1 H1). cbn [andb]. apply IH; assumption.
Qed.

Lemma fixed_elems_leaf et x : is_fixed_ty et = true -> ty_eqb (ty_of_val x) et = true -> is_basic_val x = true.
Proof.
  intros Hf Ht. apply ty_eqb_eq in Ht. destruct et; try discriminate. destruct x; try discriminate; reflexivity.
Qed.

(* outside the two deviations the relaxed predicate is the specification's *)
Theorem wfx_wfb le : forall v depth pos, nodev depth v = true -> wfx le depth pos v = true -> wfb le depth pos v = true.
Proof.
  induction v as [c n|c s|et vs IH|fs IH|k x IHk IHx|t x IHx] using val_ind'; intros depth pos Hn H.
  - exact H.
  - apply (leaf_shift le depth depth pos (VStr c s) eq_refl Hn (wfx_depth _ _ _ _ H) H).
  - rewrite wfx_arr in H. rewrite wfb_arr. apply andb_true_iff in H. destruct H as [Hd H]. rewrite Hd. cbn [andb].
    apply andb_true_iff in H. destruct H as [H Hws]. rewrite H. cbn [andb].
    apply andb_true_iff in H. destruct H as [Hty _].
    cbn [nodev] in Hn. apply andb_true_iff in Hn. destruct Hn as [Hfd Hn].
    destruct (is_fixed_ty et) eqn:Hf.
    + (* elements are leaves: shift them one level down *)
      cbn [negb orb] in Hfd. clear IH. revert Hty Hn Hws Hfd. generalize (arr_start pos et).
      induction vs as [|x r IHr]; intros p Hty Hn Hws Hfd; [reflexivity|].
      cbn [isnil orb] in Hfd. cbn [forallb wfxs wfsb] in *.
      apply andb_true_iff in Hty. destruct Hty as [Ht1 Ht2]. apply andb_true_iff in Hn. destruct Hn as [Hn1 Hn2].
      apply andb_true_iff in Hws. destruct Hws as [Hw1 Hw2].
      rewrite (leaf_shift le depth (depth + 1) p x (fixed_elems_leaf et x Hf Ht1) Hn1 ltac:(lia) Hw1). cbn [andb].
      apply IHr; try assumption. rewrite Hfd. apply orb_true_r.
    + apply (wfxs_wfsb le vs IH); assumption.
  - rewrite wfx_struct in H. rewrite wfb_struct. apply andb_true_iff in H. destruct H as [Hd H]. rewrite Hd. cbn [andb].
    apply andb_true_iff in H. destruct H as [Hne Hws]. rewrite Hne. cbn [andb]. cbn [nodev] in Hn.
    apply (wfxs_wfsb le fs IH); assumption.
  - rewrite wfx_dict in H. rewrite wfb_dict. apply andb_true_iff in H. destruct H as [Hd H]. rewrite Hd. cbn [andb].
    apply andb_true_iff in H. destruct H as [Hk Hws]. rewrite Hk. cbn [andb]. cbn [nodev] in Hn.
    apply (wfxs_wfsb le [k; x] (Forall_cons k IHk (Forall_cons x IHx (Forall_nil _)))); [|exact Hws].
    cbn [forallb]. rewrite andb_true_r. exact Hn.
  - cbn [wfx] in H. cbn [wfb]. apply andb_true_iff in H. destruct H as [Hd H]. rewrite Hd. cbn [andb].
    apply andb_true_iff in H. destruct H as [H Hx]. apply andb_true_iff in H. destruct H as [Hty Hsm]. rewrite Hty. cbn [andb].
    cbn [nodev] in Hn. apply andb_true_iff in Hn. destruct Hn as [Ha Hn].
    rewrite (sig_model_roundtrips t Hsm ltac:(lia)). cbn [andb]. apply IHx; assumption.
Qed.

(* ---- alignment padding in front of a value ------------------------------------------ *)
Lemma enc_split_x le v depth pos : wfx le depth pos v = true ->
  enc le v pos = zeros (pad_amount pos (spec_align (ty_of_val v))) ++ enc le v (pos + pad_amount pos (spec_align (ty_of_val v))).
Proof.
  intros H. destruct v as [c n|c s|et vs|fs|k x|t x]; cbn [ty_of_val spec_align] in *.
  - cbn [wfx] in H. apply andb_true_iff in H. destruct H as [_ H]. destruct (fixed_size c) as [sz|] eqn:Hsz; [|discriminate].
    destruct (fixed_tables c sz Hsz) as (_ & _ & Hal).
    rewrite !enc_num, Hsz. rewrite (pad_amount_aligned pos sz Hal). cbn [zeros repeat N.to_nat app]. reflexivity.
  - cbn [wfx] in H. apply andb_true_iff in H. destruct H as [_ H]. rewrite !enc_str.
    destruct (c =? 103) eqn:E3.
    + apply N.eqb_eq in E3. subst c. cbn [fixed_size N.eqb Pos.eqb orb]. change (pad_amount pos 1) with ((1 - pos mod 1) mod 1).
      replace ((1 - pos mod 1) mod 1) with 0 by (rewrite N.mod_1_r; reflexivity). reflexivity.
    + assert (Hc : c = 115 \/ c = 111).
      { destruct (N.eq_dec c 115) as [->|N1]; [left; reflexivity|]. destruct (N.eq_dec c 111) as [->|N2]; [right; reflexivity|].
        exfalso. replace (c =? 115) with false in H by lia. replace (c =? 111) with false in H by lia. discriminate. }
      replace (match fixed_size c with Some n => n | None => 4 end) with 4 in * by (destruct Hc as [-> | ->]; reflexivity).
      rewrite (pad_amount_aligned pos 4 ltac:(lia)). cbn [zeros repeat N.to_nat app]. reflexivity.
  - rewrite !enc_arr. cbv zeta. rewrite (pad_amount_aligned pos 4 ltac:(lia)). rewrite N.add_0_r. cbn [zeros repeat N.to_nat app]. reflexivity.
  - rewrite !enc_struct. rewrite (pad_amount_aligned pos 8 ltac:(lia)). rewrite N.add_0_r. cbn [zeros repeat N.to_nat app]. reflexivity.
  - rewrite !enc_dict. rewrite (pad_amount_aligned pos 8 ltac:(lia)). rewrite N.add_0_r. cbn [zeros repeat N.to_nat app]. reflexivity.
  - change (pad_amount pos 1) with ((1 - pos mod 1) mod 1). replace ((1 - pos mod 1) mod 1) with 0 by (rewrite N.mod_1_r; reflexivity).
    rewrite N.add_0_r. reflexivity.
Qed.

Lemma wfx_split le v depth pos : wfx le depth (pos + pad_amount pos (spec_align (ty_of_val v))) v = wfx le depth pos v.
Proof.
  destruct v as [c n|c s|et vs|fs|k x|t x]; cbn [ty_of_val spec_align].
  - reflexivity.
  - reflexivity.
  - rewrite !wfx_arr. unfold arr_start. rewrite (pad_amount_aligned pos 4 ltac:(lia)). rewrite N.add_0_r. reflexivity.
  - rewrite !wfx_struct. rewrite (pad_amount_aligned pos 8 ltac:(lia)). rewrite N.add_0_r. reflexivity.
  - rewrite !wfx_dict. rewrite (pad_amount_aligned pos 8 ltac:(lia)). rewrite N.add_0_r. reflexivity.
  - change (pad_amount pos 1) with ((1 - pos mod 1) mod 1). replace ((1 - pos mod 1) mod 1) with 0 by (rewrite N.mod_1_r; reflexivity).
    rewrite N.add_0_r. reflexivity.
Qed.

(* ---- the statement, per fuel --------------------------------------------------------- *)
Definition RES (le : bool) (t : ty) (depth pos : N) (data : bytes) (c' : cursor) : Prop :=
  exists v rest, ty_of_val v = t /\ wfx le depth pos v = true /\ wire_ok v = true /\
                 data = enc le v pos ++ rest /\ c' = curof (pos + nlen (enc le v pos)) rest.

Definition SOUND (le : bool) (d : nat) : Prop :=
  forall t depth pos data c', tygood t = true -> depth <= max_value_depth -> all_bytes data = true ->
    vb le d t depth (curof pos data) = inl c' -> RES le t depth pos data c'.

Definition RESS (le : bool) (vs : list val) (depth pos : N) (data : bytes) (c' : cursor) : Prop :=
  exists rest, wfxs le vs depth pos = true /\ forallb wire_ok vs = true /\
               data = encs le vs pos ++ rest /\ c' = curof (pos + nlen (encs le vs pos)) rest.

Lemma padchk_inv al pos d c' : (al = 1 \/ al = 2 \/ al = 4 \/ al = 8) -> padchk al (curof pos d) = inl c' ->
  exists d', d = zeros (pad_amount pos al) ++ d' /\ c' = curof (pos + pad_amount pos al) d'.
Proof.
  intros Hal H. unfold padchk in H. cbv zeta in H. cbn [curof cpos crem] in H.
  destruct (pos + nlen d <? align_up pos al); [discriminate|]. fold (curof pos d) in H. apply pad_to_inv; assumption.
Qed.

Lemma depthchk_inv depth f c c' : depthchk depth f c = inl c' -> depth + 1 <= max_value_depth /\ f c = inl c'.
Proof.
  unfold depthchk, maxdepth, max_value_depth. change (DBUS_MAXIMUM_TYPE_RECURSION_DEPTH * 2) with 64.
  destruct (64 <? depth + 1) eqn:E; [discriminate|]. intros H. split; [lia | exact H].
Qed.

(* a number of [sz] bytes *)
Lemma num_chunk le sz d1 : sz <= nlen d1 -> all_bytes d1 = true ->
  d1 = bytes_of le (N.to_nat sz) (num_of le (firstn (N.to_nat sz) d1)) ++ skipn (N.to_nat sz) d1 /\
  num_of le (firstn (N.to_nat sz) d1) < 256 ^ sz.
Proof.
  intros Hsz Hb. pose proof (ab_firstn (N.to_nat sz) d1 Hb) as Hf.
  destruct (bytes_of_num le _ Hf) as [E B].
  assert (Hl : length (firstn (N.to_nat sz) d1) = N.to_nat sz) by (rewrite firstn_length; unfold nlen in Hsz; lia).
  rewrite Hl in E. rewrite E. split; [symmetry; apply firstn_skipn|].
  unfold nlen in B. rewrite Hl in B. rewrite N2Nat.id in B. exact B.
Qed.

Lemma enc_num_aligned le c sz n p : fixed_size c = Some sz -> enc le (VNum c n) p = zeros (pad_amount p sz) ++ bytes_of le (N.to_nat sz) n.
Proof. intros H. rewrite enc_num, H. reflexivity. Qed.

Lemma wfx_num le depth pos c sz n : fixed_size c = Some sz -> depth <= max_value_depth -> n < 256 ^ sz -> (c = 98 -> n <= 1) ->
  wfx le depth pos (VNum c n) = true.
Proof.
  intros Hsz Hd Hn Hb. cbn [wfx]. rewrite Hsz. apply andb_true_iff. split; [lia|]. apply andb_true_iff. split; [lia|].
  destruct (c =? 98) eqn:E; [|reflexivity]. apply N.eqb_eq in E. specialize (Hb E). cbn [negb orb]. lia.
Qed.

(* ---- basic types ------------------------------------------------------------------------- *)
Lemma snd_byte le d depth pos data c' : depth <= max_value_depth -> all_bytes data = true ->
  vb le (S d) (TBasic DBUS_TYPE_BYTE) depth (curof pos data) = inl c' -> RES le (TBasic 121) depth pos data c'.
Proof.
  intros Hd Hb H. rewrite vbc_byte in H. unfold entry, post in H.
  destruct data as [|b d']; [cbn in H; discriminate|]. cbn [curof crem] in H. rewrite nlen_cons in H.
  replace (nlen d' + 1 =? 0) with false in H by lia. replace (nlen d' + 1 <? 1) with false in H by lia.
  fold (curof pos (b :: d')) in H. rewrite advance_curof in H by (rewrite nlen_cons; lia). cbn [N.to_nat Pos.to_nat Pos.iter_op skipn] in H.
  injection H as <-. apply ab_cons_inv in Hb. destruct Hb as [Hb _].
  exists (VNum 121 b), d'. split; [reflexivity|].
  assert (E : enc le (VNum 121 b) pos = [b]).
  { rewrite (enc_num_aligned le 121 1 b pos eq_refl). change (pad_amount pos 1) with ((1 - pos mod 1) mod 1).
    replace ((1 - pos mod 1) mod 1) with 0 by (rewrite N.mod_1_r; reflexivity).
    change (zeros 0) with (@nil N). change (N.to_nat 1) with 1%nat. unfold bytes_of. cbn [le_bytes rev app]. replace (b mod 256) with b by lia. destruct le; reflexivity. }
  rewrite E. split; [apply (wfx_num le depth pos 121 1 b eq_refl Hd); [change (256 ^ 1) with 256; lia | discriminate]|].
  split; [reflexivity|]. split; reflexivity.
Qed.

Lemma snd_fixed le d code depth pos data c' : (code =? DBUS_TYPE_BYTE) = false -> type_fixed code = true ->
  depth <= max_value_depth -> all_bytes data = true ->
  vb le (S d) (TBasic code) depth (curof pos data) = inl c' -> RES le (TBasic code) depth pos data c'.
Proof.
  intros Eb Ef Hd Hb H. rewrite (vbc_fixed le d code depth _ Eb Ef) in H.
  destruct (type_fixed_size code Ef) as [sz Hsz]. destruct (fixed_tables code sz Hsz) as (_ & Hal & Hs).
  unfold entry, fixedbody, bind in H. cbv zeta in H. rewrite Hal in H. clear Hal. cbn [curof cpos crem] in H.
  destruct (nlen data =? 0); [discriminate|]. destruct (pos + nlen data <=? align_up pos sz); [discriminate|].
  fold (curof pos data) in H.
  destruct (pad_to (curof pos data) (align_up pos sz)) as [c1|] eqn:P; [|discriminate].
  destruct (pad_to_inv pos sz data c1 Hs P) as (d1 & -> & ->). apply ab_app_inv in Hb. destruct Hb as [_ Hb1].
  (* both branches end in [post sz]; the boolean one also bounds the value *)
  assert (HH : post sz (curof (pos + pad_amount pos sz) d1) = inl c' /\ (code = 98 -> num_of le (firstn (N.to_nat sz) d1) <= 1)).
  { destruct (code =? DBUS_TYPE_BOOLEAN) eqn:E98.
    - apply N.eqb_eq in E98. change DBUS_TYPE_BOOLEAN with 98 in E98. subst code.
      assert (sz = 4) by (cbn in Hsz; congruence). subst sz.
      unfold boolpost in H. destruct (crem _ <? 4); [discriminate|].
      destruct (peek4 _) as [q|] eqn:K; [|discriminate]. cbv zeta in H.
      destruct (peek4_inv _ _ _ K) as (b0 & b1 & b2 & b3 & d' & -> & ->).
      destruct ((unpack32 le (b0, b1, b2, b3) =? 0) || (unpack32 le (b0, b1, b2, b3) =? 1)) eqn:E01; [|discriminate].
      split; [exact H|]. intros _. change (firstn (N.to_nat 4) (b0 :: b1 :: b2 :: b3 :: d')) with [b0; b1; b2; b3].
      rewrite <- unpack32_num. lia.
    - split; [exact H|]. intros ->. discriminate. }
  destruct HH as [HP Hbool]. unfold post in HP. cbn [curof crem] in HP.
  destruct (nlen d1 <? sz) eqn:Elen; [discriminate|]. fold (curof (pos + pad_amount pos sz) d1) in HP.
  rewrite advance_curof in HP by lia. injection HP as <-.
  destruct (num_chunk le sz d1 ltac:(lia) Hb1) as [E B].
  set (n := num_of le (firstn (N.to_nat sz) d1)) in *.
  exists (VNum code n), (skipn (N.to_nat sz) d1). split; [reflexivity|].
  split; [apply (wfx_num le depth pos code sz n Hsz Hd B Hbool)|]. split; [reflexivity|].
  rewrite (enc_num_aligned le code sz n pos Hsz). rewrite <- app_assoc. rewrite <- E. split; [reflexivity|].
  rewrite nlen_app, nlen_zeros, bytes_of_length. f_equal. lia.
Qed.

Lemma firstn_skipn_cons {A} n (d : list A) x r : skipn n d = x :: r -> d = firstn n d ++ x :: r.
Proof. intros H. rewrite <- H. symmetry. apply firstn_skipn. Qed.

Lemma snd_string le d code depth pos data c' : (code =? DBUS_TYPE_BYTE) = false -> type_fixed code = false ->
  ((code =? DBUS_TYPE_STRING) || (code =? DBUS_TYPE_OBJECT_PATH)) = true ->
  depth <= max_value_depth -> all_bytes data = true ->
  vb le (S d) (TBasic code) depth (curof pos data) = inl c' -> RES le (TBasic code) depth pos data c'.
Proof.
  intros Eb Ef Es Hd Hb H. rewrite (vbc_string le d code depth _ Eb Ef Es) in H.
  unfold entry, bindp in H. destruct (crem _ =? 0); [discriminate|].
  destruct (read_len32 le (curof pos data)) as [[len c2]|] eqn:RL; [|discriminate].
  destruct (read_len32_inv le pos data len c2 Hb RL) as (d2 & -> & Hlen & ->).
  apply ab_app_inv in Hb. destruct Hb as [_ Hb]. apply ab_app_inv in Hb. destruct Hb as [_ Hb2].
  unfold strbody in H. cbn [curof crem cdat] in H. destruct (nlen d2 <? len) eqn:El; [discriminate|].
  set (s := firstn (N.to_nat len) d2) in *.
  destruct (str_ok code s) eqn:Eok; [discriminate|]. cbv zeta in H.
  fold (curof (pos + pad_amount pos 4 + 4) d2) in H. rewrite advance_curof in H by lia.
  cbn [curof crem] in H. destruct (nlen (skipn (N.to_nat len) d2) =? 0); [discriminate|].
  fold (curof (pos + pad_amount pos 4 + 4 + len) (skipn (N.to_nat len) d2)) in H.
  destruct (take1 _) as [[b c4]|] eqn:T; [|discriminate].
  destruct (take1_inv _ _ _ _ T) as (rest & Hsk & ->).
  destruct (b =? 0) eqn:E0; [|discriminate]. apply N.eqb_eq in E0. subst b. injection H as <-.
  assert (Hs : nlen s = len) by (apply nlen_firstn; lia).
  assert (Hbs : all_bytes s = true) by (apply ab_firstn; exact Hb2).
  assert (Hc : code = 115 \/ code = 111).
  { change DBUS_TYPE_STRING with 115 in Es. change DBUS_TYPE_OBJECT_PATH with 111 in Es. lia. }
  assert (Hspec : (if code =? 115 then spec_utf8 s else spec_path s) = true).
  { unfold str_ok in Eok. change DBUS_TYPE_OBJECT_PATH with 111 in Eok. destruct Hc as [-> | ->].
    - change (115 =? 111) with false in Eok. cbv iota in Eok. rewrite (utf8_correct s Hbs) in Eok.
      change (115 =? 115) with true. cbv iota. destruct (spec_utf8 s); [reflexivity|discriminate].
    - change (111 =? 111) with true in Eok. cbv iota in Eok. rewrite path_correct in Eok.
      change (111 =? 115) with false. cbv iota. destruct (spec_path s); [reflexivity|discriminate]. }
  exists (VStr code s), rest. split; [reflexivity|]. split.
  { cbn [wfx]. apply andb_true_iff. split; [lia|].
    destruct Hc as [-> | ->]; [change (115 =? 115) with true in * | change (111 =? 115) with false in *; change (111 =? 111) with true]; cbv iota in *;
      rewrite Hspec; cbn [andb]; lia. }
  split.
  { cbn [wire_ok]. rewrite Hbs. replace (code =? 103) with false by lia. reflexivity. }
  rewrite enc_str. replace (code =? 103) with false by lia. rewrite Hs.
  rewrite (firstn_skipn_cons _ _ _ _ Hsk). fold s. split.
  - rewrite <- !app_assoc. reflexivity.
  - rewrite !nlen_app, nlen_zeros, (bytes_of_length le 4), Hs. change (nlen [0]) with 1. f_equal. lia.
Qed.

(* one-byte length, signature, NUL *)
Lemma sigread_inv e1 e2 e3 pos data s c2 : sigread e1 e2 e3 (curof pos data) = inl (s, c2) ->
  exists rest, data = nlen s :: s ++ 0 :: rest /\ validate_signature s = true /\ c2 = curof (pos + 1 + nlen s + 1) rest.
Proof.
  intros H. unfold sigread in H. destruct (take1 _) as [[len c1]|] eqn:T; [|discriminate].
  destruct (take1_inv _ _ _ _ T) as (d1 & -> & ->). cbn [curof crem cdat] in H.
  destruct (nlen d1 <? len + 1) eqn:El; [discriminate|]. cbv zeta in H.
  destruct (Z.eqb (validate_signature_reason (firstn (N.to_nat len) d1)) V_VALID) eqn:Ev; [|discriminate]. cbn [negb] in H.
  fold (curof (pos + 1) d1) in H. rewrite advance_curof in H by lia.
  destruct (take1 _) as [[b c3]|] eqn:T2; [|discriminate].
  destruct (take1_inv _ _ _ _ T2) as (rest & Hsk & ->).
  destruct (b =? 0) eqn:E0; [|discriminate]. apply N.eqb_eq in E0. subst b. injection H as <- <-.
  assert (Hs : nlen (firstn (N.to_nat len) d1) = len) by (apply nlen_firstn; lia).
  exists rest. rewrite Hs. split; [|split; [exact Ev|reflexivity]].
  f_equal. apply firstn_skipn_cons. exact Hsk.
Qed.

Lemma snd_signature le d depth pos data c' : depth <= max_value_depth -> all_bytes data = true ->
  vb le (S d) (TBasic DBUS_TYPE_SIGNATURE) depth (curof pos data) = inl c' -> RES le (TBasic 103) depth pos data c'.
Proof.
  intros Hd Hb H. rewrite vbc_signature in H. unfold entry, bindp, ret in H. destruct (crem _ =? 0); [discriminate|].
  destruct (sigread _ _ _ _) as [[s c2]|] eqn:SR; [|discriminate]. injection H as <-.
  destruct (sigread_inv _ _ _ _ _ _ _ SR) as (rest & -> & Hv & ->).
  apply ab_cons_inv in Hb. destruct Hb as [_ Hb]. apply ab_app_inv in Hb. destruct Hb as [Hbs _].
  exists (VStr 103 s), rest. split; [reflexivity|]. split.
  { cbn [wfx]. apply andb_true_iff. split; [lia|]. change (103 =? 115) with false. change (103 =? 111) with false. change (103 =? 103) with true. exact Hv. }
  split.
  { cbn [wire_ok]. rewrite Hbs, Hv. reflexivity. }
  rewrite enc_str. change (103 =? 103) with true. cbv iota. split.
  - cbn [app]. rewrite <- app_assoc. reflexivity.
  - rewrite nlen_cons, nlen_app. change (nlen [0]) with 1. f_equal. lia.
Qed.

(* ---- sequences of values (struct fields, dict entry, body) ---------------------------------- *)
Lemma vbs_sound le d : SOUND le d ->
  forall ts depth pos data c', forallb tygood ts = true -> depth <= max_value_depth -> all_bytes data = true ->
    vbs le d ts depth (curof pos data) = inl c' ->
    exists vs, map ty_of_val vs = ts /\ RESS le vs depth pos data c'.
Proof.
  intros IH. induction ts as [|t r IHr]; intros depth pos data c' Hg Hd Hb H.
  - cbn in H. injection H as <-. exists []. split; [reflexivity|]. exists data. cbn [wfxs forallb encs app].
    repeat split. rewrite nlen_nil, N.add_0_r. reflexivity.
  - cbn [forallb] in Hg. apply andb_true_iff in Hg. destruct Hg as [Hg1 Hg2]. cbn [vbs] in H.
    destruct (vb le d t depth (curof pos data)) as [c1|] eqn:V; [|discriminate].
    destruct (IH t depth pos data c1 Hg1 Hd Hb V) as (v & rest & Ht & Hw & Hk & -> & ->).
    apply ab_app_inv in Hb. destruct Hb as [_ Hb].
    destruct (IHr depth _ rest c' Hg2 Hd Hb H) as (vs & Hts & rest' & Hws & Hks & -> & ->).
    exists (v :: vs). split; [cbn [map]; rewrite Ht, Hts; reflexivity|]. exists rest'.
    cbn [wfxs forallb encs]. rewrite Hw, Hk, Hws, Hks. repeat split.
    + rewrite <- app_assoc. reflexivity.
    + rewrite nlen_app. f_equal. lia.
Qed.

(* ---- array elements -------------------------------------------------------------------------- *)
Lemma elems_sound le d et depth ae : SOUND le d -> tygood et = true ->
  forall n pos data c', all_bytes data = true -> vb_elems le d et depth ae n (curof pos data) = inl c' ->
    exists vs, forallb (fun x => ty_eqb (ty_of_val x) et) vs = true /\ RESS le vs (depth + 1) pos data c' /\
               ae <= pos + nlen (encs le vs pos).
Proof.
  intros IH Hg. induction n as [|n IHn]; intros pos data c' Hb H; [discriminate|].
  rewrite vb_elems_S in H. cbn [curof cpos] in H. destruct (pos <? ae) eqn:Elt.
  - fold (curof pos data) in H. apply depthchk_inv in H. destruct H as [Hd H]. unfold bind in H.
    destruct (vb le d et (depth + 1) (curof pos data)) as [c1|] eqn:V; [|discriminate].
    destruct (IH et (depth + 1) pos data c1 Hg Hd Hb V) as (v & rest & Ht & Hw & Hk & -> & ->).
    apply ab_app_inv in Hb. destruct Hb as [_ Hb].
    destruct (IHn _ rest c' Hb H) as (vs & Hts & (rest' & Hws & Hks & -> & ->) & Hae).
    exists (v :: vs). split; [cbn [forallb]; rewrite Ht, ty_eqb_refl, Hts; reflexivity|]. split.
    + exists rest'. cbn [wfxs forallb encs]. rewrite Hw, Hk, Hws, Hks. repeat split.
      * rewrite <- app_assoc. reflexivity.
      * rewrite nlen_app. f_equal. lia.
    + cbn [encs]. rewrite nlen_app. lia.
  - injection H as <-. exists []. split; [reflexivity|]. split.
    + exists data. cbn [wfxs forallb encs app]. repeat split. rewrite nlen_nil, N.add_0_r. reflexivity.
    + cbn [encs]. rewrite nlen_nil. lia.
Qed.

(* fixed-size elements, not looked at: every aligned chunk of [sz] bytes is a number *)
Lemma chunks_sound le c sz depth : fixed_size c = Some sz -> c <> 98 -> depth <= max_value_depth ->
  forall k b start, nlen b = N.of_nat k * sz -> all_bytes b = true -> start mod sz = 0 ->
    exists vs, encs le vs start = b /\ forallb (fun x => ty_eqb (ty_of_val x) (TBasic c)) vs = true /\
               wfxs le vs depth start = true /\ forallb wire_ok vs = true.
Proof.
  intros Hsz Hnb Hd. destruct (fixed_tables c sz Hsz) as (_ & _ & Hs).
  induction k as [|k IH]; intros b start Hl Hb Hal.
  - exists []. destruct b; [|rewrite nlen_cons in Hl; lia]. repeat split.
  - assert (Hle : sz <= nlen b) by lia.
    destruct (num_chunk le sz b Hle Hb) as [E B]. set (n := num_of le (firstn (N.to_nat sz) b)) in *.
    assert (Hl2 : nlen (skipn (N.to_nat sz) b) = N.of_nat k * sz) by (rewrite bl_nlen_skipn; lia).
    destruct (IH (skipn (N.to_nat sz) b) (start + sz) Hl2 (ab_skipn _ _ Hb) (aligned_step start sz Hs Hal)) as (vs & E1 & E2 & E3 & E4).
    assert (He : enc le (VNum c n) start = bytes_of le (N.to_nat sz) n).
    { rewrite (enc_num_aligned le c sz n start Hsz), (aligned_no_pad start sz Hs Hal). reflexivity. }
    assert (Hn : nlen (enc le (VNum c n) start) = sz) by (rewrite He, bytes_of_length; lia).
    exists (VNum c n :: vs). cbn [encs forallb wfxs wire_ok ty_of_val]. rewrite Hn, E1, E2, E3, E4, He, ty_eqb_refl.
    rewrite (wfx_num le depth start c sz n Hsz Hd B ltac:(intros; contradiction)). repeat split. symmetry. exact E.
Qed.

Lemma bool_loop_sound le depth ae : depth <= max_value_depth ->
  forall fuel p d c', all_bytes d = true -> p mod 4 = 0 -> bool_array_loop fuel le (curof p d) ae = inl c' ->
    exists vs, forallb (fun x => ty_eqb (ty_of_val x) (TBasic 98)) vs = true /\ RESS le vs depth p d c' /\
               ae <= p + nlen (encs le vs p).
Proof.
  intros Hd. induction fuel as [|f IH]; intros p d c' Hb Hal H; [discriminate|].
  cbn [bool_array_loop] in H. cbn [curof cpos] in H. destruct (p <? ae) eqn:Elt.
  - fold (curof p d) in H. destruct (peek4 _) as [q|] eqn:K; [|discriminate]. cbv zeta in H.
    destruct (peek4_inv _ _ _ K) as (b0 & b1 & b2 & b3 & d' & -> & ->).
    destruct ((unpack32 le (b0, b1, b2, b3) =? 0) || (unpack32 le (b0, b1, b2, b3) =? 1)) eqn:E01; [|discriminate].
    rewrite advance_curof in H by (rewrite !nlen_cons; lia). cbn [N.to_nat Pos.to_nat Pos.iter_op skipn] in H.
    change (b0 :: b1 :: b2 :: b3 :: d') with ([b0; b1; b2; b3] ++ d') in Hb. apply ab_app_inv in Hb. destruct Hb as [Hb4 Hb'].
    destruct (IH (p + 4) d' c' Hb' ltac:(lia) H) as (vs & Hts & (rest' & Hws & Hks & -> & ->) & Hae).
    destruct (unpack32_bytes le _ _ _ _ Hb4) as [E B]. set (n := unpack32 le (b0, b1, b2, b3)) in *.
    assert (He : enc le (VNum 98 n) p = [b0; b1; b2; b3]).
    { rewrite (enc_num_aligned le 98 4 n p eq_refl), (aligned_no_pad p 4 ltac:(lia) Hal). change (N.to_nat 4) with 4%nat. rewrite E. reflexivity. }
    assert (Hn : nlen (enc le (VNum 98 n) p) = 4) by (rewrite He; reflexivity).
    exists (VNum 98 n :: vs). split; [cbn [forallb ty_of_val]; rewrite Hts; reflexivity|]. split.
    + exists rest'. cbn [wfxs forallb encs wire_ok]. rewrite Hn, Hws, Hks.
      rewrite (wfx_num le depth p 98 4 n eq_refl Hd ltac:(change (256 ^ 4) with 4294967296; lia) ltac:(intros; lia)). repeat split.
      * rewrite He. reflexivity.
      * rewrite nlen_app, Hn. f_equal. lia.
    + cbn [encs]. rewrite nlen_app, Hn. lia.
  - injection H as <-. exists []. split; [reflexivity|]. split.
    + exists d. cbn [wfxs forallb encs app]. repeat split. rewrite nlen_nil, N.add_0_r. reflexivity.
    + cbn [encs]. rewrite nlen_nil. lia.
Qed.

(* the element region of an array *)
Lemma arrbody_sound le d et depth len start d3 c' : SOUND le d -> tygood et = true -> depth <= max_value_depth ->
  all_bytes d3 = true -> start mod spec_align et = 0 ->
  arrbody (arr_elems le d et depth len) len (curof start d3) = inl c' ->
  exists vs, forallb (fun x => ty_eqb (ty_of_val x) et) vs = true /\
             RESS le vs (if is_fixed_ty et then depth else depth + 1) start d3 c' /\
             nlen (encs le vs start) = len /\ len <= max_array.
Proof.
  intros IH Hg Hd Hb Hal H. unfold arrbody in H. cbn [curof crem cpos] in H.
  destruct (nlen d3 <? len) eqn:El; [discriminate|].
  destruct (len =? 0) eqn:E0.
  { injection H as <-. apply N.eqb_eq in E0. subst len. exists []. split; [reflexivity|]. split; [|split; [reflexivity | unfold max_array; lia]].
    exists d3. cbn [wfxs forallb encs app]. repeat split. rewrite nlen_nil, N.add_0_r. reflexivity. }
  destruct (DBUS_MAXIMUM_ARRAY_LENGTH <? len) eqn:Emax; [discriminate|].
  change DBUS_MAXIMUM_ARRAY_LENGTH with 67108864 in Emax.
  fold (curof start d3) in H.
  destruct (arr_elems le d et depth len (start + len) (curof start d3)) as [c4|] eqn:A; [|discriminate].
  destruct (cpos c4 =? start + len) eqn:Eend; [|discriminate]. injection H as <-. apply N.eqb_eq in Eend.
  unfold arr_elems in A. rewrite ty_is_fixed_spec in A.
  destruct (is_fixed_ty et) eqn:Hfx.
  - destruct et as [code| | | |]; try discriminate. cbn [is_fixed_ty] in Hfx. cbn [ty_alignment] in A.
    unfold is_fixed_code in Hfx. destruct (fixed_size code) as [sz|] eqn:Hsz; [|discriminate].
    destruct (fixed_tables code sz Hsz) as (_ & Hta & Hs). rewrite Hta in A.
    assert (Hsa : spec_align (TBasic code) = sz) by (cbn [spec_align]; rewrite Hsz; reflexivity). rewrite Hsa in Hal.
    destruct (len mod sz =? 0) eqn:Emod; [|discriminate]. cbn [negb] in A.
    destruct (code =? DBUS_TYPE_BOOLEAN) eqn:E98.
    + apply N.eqb_eq in E98. change DBUS_TYPE_BOOLEAN with 98 in E98. subst code.
      assert (sz = 4) by (cbn in Hsz; congruence). subst sz.
      destruct (bool_loop_sound le depth (start + len) Hd _ _ _ _ Hb Hal A) as (vs & Hts & (rest & Hws & Hks & E & Ec) & Hae).
      exists vs. split; [exact Hts|]. rewrite Ec in Eend. cbn [curof cpos] in Eend.
      split; [exists rest; repeat split; assumption|]. split; [lia | unfold max_array; lia].
    + injection A as <-. cbn [curof cpos advance] in Eend.
      assert (Hk : len = N.of_nat (N.to_nat (len / sz)) * sz) by (destruct Hs as [-> | [-> | [-> | ->]]]; lia).
      assert (Hlf : nlen (firstn (N.to_nat len) d3) = len) by (apply nlen_firstn; lia).
      rewrite Hk in Hlf at 2.
      destruct (chunks_sound le code sz depth Hsz ltac:(change DBUS_TYPE_BOOLEAN with 98 in E98; lia) Hd _ _ start Hlf (ab_firstn _ _ Hb) Hal) as (vs & E1 & E2 & E3 & E4).
      exists vs. split; [exact E2|]. rewrite E1. split; [|split; [apply nlen_firstn; lia | unfold max_array; lia]].
      exists (skipn (N.to_nat len) d3). rewrite E1. repeat split; try assumption.
      * symmetry. apply firstn_skipn.
      * rewrite advance_curof by lia. rewrite nlen_firstn by lia. reflexivity.
  - destruct (elems_sound le d et depth (start + len) IH Hg _ _ _ _ Hb A) as (vs & Hts & (rest & Hws & Hks & E & Ec) & Hae).
    exists vs. split; [exact Hts|]. rewrite Ec in Eend. cbn [curof cpos] in Eend.
    split; [exists rest; repeat split; assumption|]. split; [lia | unfold max_array; lia].
Qed.

Lemma snd_array le d et depth pos data c' : SOUND le d -> tygood et = true -> depth <= max_value_depth -> all_bytes data = true ->
  vb le (S d) (TArray et) depth (curof pos data) = inl c' -> RES le (TArray et) depth pos data c'.
Proof.
  intros IH Hg Hd Hb H. rewrite vbc_array in H. unfold entry, bindp in H. destruct (crem _ =? 0); [discriminate|].
  destruct (read_len32 le (curof pos data)) as [[len c2]|] eqn:RL; [|discriminate].
  destruct (read_len32_inv le pos data len c2 Hb RL) as (d2 & -> & Hlen & ->).
  apply ab_app_inv in Hb. destruct Hb as [_ Hb]. apply ab_app_inv in Hb. destruct Hb as [_ Hb2].
  destruct (tygood_align et Hg) as [Hta Hal]. unfold bind in H. rewrite Hta in H.
  destruct (padchk (spec_align et) _) as [c3|] eqn:P; [|discriminate].
  destruct (padchk_inv _ _ _ _ Hal P) as (d3 & -> & ->). apply ab_app_inv in Hb2. destruct Hb2 as [_ Hb3].
  change (pos + pad_amount pos 4 + 4 + pad_amount (pos + pad_amount pos 4 + 4) (spec_align et)) with (arr_start pos et) in H.
  assert (Hst : arr_start pos et mod spec_align et = 0) by (unfold arr_start; apply aligned_after_pad; exact Hal).
  destruct (arrbody_sound le d et depth len _ d3 c' IH Hg Hd Hb3 Hst H) as (vs & Hts & (rest & Hws & Hks & -> & ->) & Hn & Hmax).
  exists (VArr et vs), rest. split; [reflexivity|]. split.
  { rewrite wfx_arr. apply andb_true_iff. split; [lia|]. rewrite Hts, Hws, Hn. cbn [andb]. rewrite andb_true_r. lia. }
  split.
  { cbn [wire_ok]. rewrite Hks, Hta, N.eqb_refl. cbn [andb]. rewrite andb_true_r. lia. }
  rewrite enc_arr. cbv zeta. fold (arr_start pos et). rewrite Hn. split.
  - rewrite <- !app_assoc. reflexivity.
  - rewrite !nlen_app, !nlen_zeros, (bytes_of_length le 4), Hn. f_equal. unfold arr_start. lia.
Qed.

(* ---- struct, dict entry --------------------------------------------------------------------------- *)
Lemma snd_struct le d ts depth pos data c' : SOUND le d -> tygood (TStruct ts) = true -> depth <= max_value_depth -> all_bytes data = true ->
  vb le (S d) (TStruct ts) depth (curof pos data) = inl c' -> RES le (TStruct ts) depth pos data c'.
Proof.
  intros IH Hg Hd Hb H. cbn [tygood] in Hg. apply andb_true_iff in Hg. destruct Hg as [Hne Hg].
  rewrite vbc_struct in H. unfold entry, bind in H. destruct (crem _ =? 0); [discriminate|].
  destruct (padchk 8 _) as [c1|] eqn:P; [|discriminate].
  destruct (padchk_inv 8 _ _ _ ltac:(lia) P) as (d1 & -> & ->). apply ab_app_inv in Hb. destruct Hb as [_ Hb1].
  apply depthchk_inv in H. destruct H as [Hd1 H].
  destruct (vbs_sound le d IH ts (depth + 1) _ d1 c' Hg Hd1 Hb1 H) as (vs & Hts & rest & Hws & Hks & -> & ->).
  exists (VStruct vs), rest. split; [cbn [ty_of_val]; rewrite Hts; reflexivity|]. split.
  { rewrite wfx_struct. apply andb_true_iff. split; [lia|]. rewrite Hws, andb_true_r.
    destruct vs; [cbn in Hts; subst ts; discriminate | reflexivity]. }
  split; [exact Hks|]. rewrite enc_struct. split.
  - rewrite <- app_assoc. reflexivity.
  - rewrite nlen_app, nlen_zeros. f_equal. lia.
Qed.

Lemma snd_dict le d k vt depth pos data c' : SOUND le d -> tygood (TDict k vt) = true -> depth <= max_value_depth -> all_bytes data = true ->
  vb le (S d) (TDict k vt) depth (curof pos data) = inl c' -> RES le (TDict k vt) depth pos data c'.
Proof.
  intros IH Hg Hd Hb H. cbn [tygood] in Hg.
  rewrite vbc_dict in H. unfold entry, bind in H. destruct (crem _ =? 0); [discriminate|].
  destruct (padchk 8 _) as [c1|] eqn:P; [|discriminate].
  destruct (padchk_inv 8 _ _ _ ltac:(lia) P) as (d1 & -> & ->). apply ab_app_inv in Hb. destruct Hb as [_ Hb1].
  apply depthchk_inv in H. destruct H as [Hd1 H].
  assert (Hg2 : forallb tygood [TBasic k; vt] = true) by (cbn [forallb tygood]; rewrite andb_true_r; exact Hg).
  destruct (vbs_sound le d IH _ (depth + 1) _ d1 c' Hg2 Hd1 Hb1 H) as (vs & Hts & rest & Hws & Hks & -> & ->).
  destruct vs as [|kv [|vv [|? ?]]]; try discriminate. cbn [map] in Hts. injection Hts as Hk Hv.
  assert (Hbk : is_basic_val kv = true) by (destruct kv; try discriminate; reflexivity).
  exists (VDictE kv vv), rest. split.
  { cbn [ty_of_val]. rewrite Hv. f_equal. destruct kv; try discriminate; cbn [ty_of_val] in Hk; congruence. }
  split.
  { rewrite wfx_dict. apply andb_true_iff. split; [lia|]. rewrite Hbk, Hws. reflexivity. }
  split.
  { cbn [wire_ok]. cbn [forallb] in Hks. rewrite andb_true_r in Hks. exact Hks. }
  rewrite enc_dict. split.
  - rewrite <- app_assoc. reflexivity.
  - rewrite nlen_app, nlen_zeros. f_equal. lia.
Qed.

(* ---- variant ------------------------------------------------------------------------------------------ *)
Lemma snd_variant le d depth pos data c' : SOUND le d -> depth <= max_value_depth -> all_bytes data = true ->
  vb le (S d) TVariant depth (curof pos data) = inl c' -> RES le TVariant depth pos data c'.
Proof.
  intros IH Hd Hb H. rewrite vbc_variant in H. unfold entry, bindp in H. destruct (crem _ =? 0); [discriminate|].
  destruct (sigread _ _ _ _) as [[s c2]|] eqn:SR; [|discriminate].
  destruct (sigread_inv _ _ _ _ _ _ _ SR) as (d0 & -> & Hv & ->).
  apply ab_cons_inv in Hb. destruct Hb as [_ Hb]. apply ab_app_inv in Hb. destruct Hb as [_ Hb].
  apply ab_cons_inv in Hb. destruct Hb as [_ Hb0].
  unfold varbody in H. destruct (parse_sig s) as [[|ct more]|] eqn:PS; try discriminate.
  destruct (parse_sig_sound s _ PS) as [Es Hok]. cbn [forallb] in Hok. apply andb_true_iff in Hok. destruct Hok as [Hok _].
  pose proof (ty_okb_tygood ct Hok) as Hg. destruct (tygood_align ct Hg) as [Hta Hal].
  unfold bind in H. rewrite Hta in H. set (p0 := pos + 1 + nlen s + 1) in *.
  destruct (padchk (spec_align ct) _) as [c3|] eqn:P; [|discriminate].
  destruct (padchk_inv _ _ _ _ Hal P) as (d3 & -> & ->). apply ab_app_inv in Hb0. destruct Hb0 as [_ Hb3].
  apply depthchk_inv in H. destruct H as [Hd1 H].
  destruct (vb le d ct (depth + 1) _) as [c4|] eqn:V; [|discriminate].
  unfold final in H. destruct more as [|? ?]; [|discriminate]. injection H as <-.
  cbn [flat_map] in Es. rewrite app_nil_r in Es. subst s.
  destruct (IH ct (depth + 1) _ d3 c4 Hg Hd1 Hb3 V) as (x & rest & Ht & Hw & Hk & -> & ->).
  assert (Hw0 : wfx le (depth + 1) p0 x = true) by (rewrite <- Ht, wfx_split in Hw; exact Hw).
  assert (Hp0 : p0 = pos + (nlen (print_ty ct) + 2)) by (unfold p0; lia).
  assert (Hsplit : zeros (pad_amount p0 (spec_align ct)) ++ enc le x (p0 + pad_amount p0 (spec_align ct)) = enc le x p0).
  { rewrite (enc_split_x le x _ _ Hw0), Ht. reflexivity. }
  exists (VVar ct x), rest. split; [reflexivity|]. split.
  { cbn [wfx]. apply andb_true_iff. split; [lia|]. rewrite Ht, ty_eqb_refl. rewrite <- Hp0, Hw0. cbn [andb]. rewrite andb_true_r.
    unfold sig_model. rewrite PS, ty_eqb_refl, Hv. destruct (validate_signature_shape _ Hv) as [Hl _]. rewrite !andb_true_r. lia. }
  split.
  { cbn [wire_ok]. rewrite Hv, Hk. reflexivity. }
  rewrite enc_var. cbv zeta.
  assert (Hhd : pos + nlen (nlen (print_ty ct) :: print_ty ct ++ [0]) = p0).
  { rewrite nlen_cons, nlen_app. change (nlen [0]) with 1. unfold p0. lia. }
  rewrite Hhd. split.
  - cbn [app]. rewrite <- !app_assoc. cbn [app]. rewrite <- Hsplit. rewrite <- !app_assoc. reflexivity.
  - rewrite nlen_app. rewrite <- Hsplit. rewrite nlen_app, nlen_zeros. f_equal.
    rewrite nlen_cons, nlen_app. change (nlen [0]) with 1. unfold p0. lia.
Qed.

(* ---- the value-level theorem ------------------------------------------------------------------------------ *)
Theorem vb_sound_fuel le : forall d, SOUND le d.
Proof.
  induction d as [|d IH]; intros t depth pos data c' Hg Hd Hb H; [discriminate|].
  destruct t as [code| |et|ts|k v].
  - destruct (code =? DBUS_TYPE_BYTE) eqn:Eb.
    { apply N.eqb_eq in Eb. subst code. apply (snd_byte le d); assumption. }
    destruct (type_fixed code) eqn:Ef.
    { apply (snd_fixed le d); assumption. }
    destruct ((code =? DBUS_TYPE_STRING) || (code =? DBUS_TYPE_OBJECT_PATH)) eqn:Es.
    { apply (snd_string le d); assumption. }
    destruct (code =? DBUS_TYPE_SIGNATURE) eqn:Eg.
    { apply N.eqb_eq in Eg. subst code. apply (snd_signature le d); assumption. }
    rewrite (vbc_gap le d code depth _ Eb Ef Es Eg) in H. unfold entry in H. destruct (crem _ =? 0); discriminate.
  - apply (snd_variant le d); assumption.
  - apply (snd_array le d); assumption.
  - apply (snd_struct le d); assumption.
  - apply (snd_dict le d); assumption.
Qed.

(* ---- an error verdict of the validator is never V_VALID ------------------------------------------------ *)
Definition NV (f : cursor -> res) : Prop := forall c e, f c = inr e -> e <> V_VALID.
Definition NVp {A} (f : cursor -> pres A) : Prop := forall c e, f c = inr e -> e <> V_VALID.

Ltac nvc := let E := fresh "E" in intro E; vm_compute in E; discriminate E.
Ltac nvi H := injection H as <-; nvc.

Lemma NV_eq f g : (forall c, f c = g c) -> NV g -> NV f.
Proof. intros E H c e Hf. rewrite E in Hf. exact (H c e Hf). Qed.
Lemma NV_ret : NV ret. Proof. intros c e H. discriminate. Qed.
Lemma NV_err e0 : e0 <> V_VALID -> NV (fun _ => inr e0).
Proof. intros H0 c e H. injection H as <-. exact H0. Qed.
Lemma NV_bind f k : NV f -> NV k -> NV (bind f k).
Proof. intros Hf Hk c e H. unfold bind in H. destruct (f c) as [c1|e1] eqn:E1; [exact (Hk c1 e H) | injection H as <-; exact (Hf c e1 E1)]. Qed.
Lemma NV_bindp {A} (f : cursor -> pres A) k : NVp f -> (forall a, NV (k a)) -> NV (bindp f k).
Proof. intros Hf Hk c e H. unfold bindp in H. destruct (f c) as [[a c1]|e1] eqn:E1; [exact (Hk a c1 e H) | injection H as <-; exact (Hf c e1 E1)]. Qed.
Lemma NV_entry f : NV f -> NV (entry f).
Proof. intros Hf c e H. unfold entry in H. destruct (crem c =? 0); [nvi H | exact (Hf c e H)]. Qed.
Lemma NV_depthchk depth f : NV f -> NV (depthchk depth f).
Proof. intros Hf c e H. unfold depthchk in H. destruct (maxdepth <? depth + 1); [nvi H | exact (Hf c e H)]. Qed.

Lemma NV_pad_loop : forall n, NV (pad_loop n).
Proof.
  induction n as [|n IH]; intros c e H; [discriminate|]. cbn [pad_loop] in H.
  destruct (take1 c) as [[b c1]|]; [|nvi H]. destruct (b =? 0); [exact (IH c1 e H) | nvi H].
Qed.
Lemma NV_pad_to a : NV (fun c => pad_to c a).
Proof. intros c e H. exact (NV_pad_loop _ c e H). Qed.
Lemma NV_padchk al : NV (padchk al).
Proof. intros c e H. unfold padchk in H. cbv zeta in H. destruct (_ <? _); [nvi H | exact (NV_pad_to _ c e H)]. Qed.
Lemma NV_read_len32 le : NVp (read_len32 le).
Proof.
  intros c e H. unfold read_len32 in H. cbv zeta in H. destruct (_ <? _); [nvi H|].
  destruct (pad_to c (align_up (cpos c) 4)) as [c1|e1] eqn:P; [|injection H as <-; exact (NV_pad_to _ c e1 P)].
  destruct (peek4 c1); [discriminate | nvi H].
Qed.
Lemma NV_post al : NV (post al).
Proof. intros c e H. unfold post in H. destruct (_ <? _); [nvi H | discriminate]. Qed.
Lemma NV_boolpost le : NV (boolpost le).
Proof.
  intros c e H. unfold boolpost in H. destruct (_ <? _); [nvi H|]. destruct (peek4 c); [|nvi H]. cbv zeta in H.
  destruct (_ || _); [exact (NV_post 4 c e H) | nvi H].
Qed.
Lemma NV_fixedbody le code : NV (fixedbody le code).
Proof.
  intros c e H. unfold fixedbody in H. cbv zeta in H. destruct (_ <=? _); [nvi H|]. revert H. apply NV_bind; [apply NV_pad_to|].
  destruct (code =? DBUS_TYPE_BOOLEAN); [apply NV_boolpost | apply NV_post].
Qed.
Lemma NV_strbody code len : NV (strbody (str_ok code) len).
Proof.
  intros c e H. unfold strbody in H. destruct (_ <? _); [nvi H|].
  destruct (str_ok code _) as [e0|] eqn:Eok.
  - injection H as <-. unfold str_ok in Eok. destruct (code =? DBUS_TYPE_OBJECT_PATH).
    + destruct (validate_path _); [discriminate | nvi Eok].
    + destruct (validate_utf8 _) as [[|]|]; [discriminate | nvi Eok | nvi Eok].
  - cbv zeta in H. destruct (_ =? 0); [nvi H|]. destruct (take1 _) as [[b c4]|]; [|nvi H]. destruct (b =? 0); [discriminate | nvi H].
Qed.
Lemma NV_sigread e1 e2 e3 : e1 <> V_VALID -> (forall v, v <> V_VALID -> e2 v <> V_VALID) -> e3 <> V_VALID -> NVp (sigread e1 e2 e3).
Proof.
  intros H1 H2 H3 c e H. unfold sigread in H. destruct (take1 c) as [[len c1]|]; [|nvi H].
  destruct (_ <? _); [injection H as <-; exact H1|]. cbv zeta in H.
  destruct (Z.eqb _ V_VALID) eqn:Ev; cbn [negb] in H.
  - destruct (take1 _) as [[b c2]|]; [|nvi H]. destruct (b =? 0); [discriminate | injection H as <-; exact H3].
  - injection H as <-. apply H2. intros E. rewrite E in Ev. discriminate.
Qed.
Lemma NV_bool_loop le ae : forall fuel, NV (fun c => bool_array_loop fuel le c ae).
Proof.
  induction fuel as [|f IH]; intros c e H; [nvi H|]. cbn [bool_array_loop] in H.
  destruct (_ <? _); [|discriminate]. destruct (peek4 c); [|nvi H]. cbv zeta in H.
  destruct (_ || _); [exact (IH _ e H) | nvi H].
Qed.
Lemma NV_vbs le d depth : forall ts, (forall t, NV (vb le d t depth)) -> NV (vbs le d ts depth).
Proof.
  induction ts as [|t r IH]; intros Ht; [exact NV_ret|].
  apply (NV_eq _ _ (vbs_cons le d t r depth)). apply NV_bind; [apply Ht | apply IH; exact Ht].
Qed.
Lemma NV_vb_elems le d et depth ae : NV (vb le d et (depth + 1)) -> forall n, NV (vb_elems le d et depth ae n).
Proof.
  intros Hv. induction n as [|n IH]; intros c e H; [nvi H|]. rewrite vb_elems_S in H.
  destruct (_ <? _); [|discriminate]. revert H. apply NV_depthchk. apply NV_bind; assumption.
Qed.
Lemma NV_arr_elems le d et depth len ae : NV (vb le d et (depth + 1)) -> NV (arr_elems le d et depth len ae).
Proof.
  intros Hv c e H. unfold arr_elems in H. destruct (ty_is_fixed et).
  - destruct (negb _); [nvi H|]. destruct et as [code| | | |]; try discriminate.
    destruct (code =? DBUS_TYPE_BOOLEAN); [exact (NV_bool_loop le ae _ c e H) | discriminate].
  - exact (NV_vb_elems le d et depth ae Hv _ c e H).
Qed.
Lemma NV_arrbody r len : (forall ae, NV (r ae)) -> NV (arrbody r len).
Proof.
  intros Hr c e H. unfold arrbody in H. destruct (_ <? _); [nvi H|]. destruct (len =? 0); [discriminate|].
  destruct (_ <? _); [nvi H|]. destruct (r (cpos c + len) c) as [c4|e4] eqn:R; [|injection H as <-; exact (Hr _ c e4 R)].
  destruct (_ =? _); [discriminate | nvi H].
Qed.
Lemma NV_final more : NV (final more).
Proof. intros c e H. unfold final in H. destruct more; [discriminate | nvi H]. Qed.
Lemma NV_varbody le d depth s : (forall t depth, NV (vb le d t depth)) -> NV (varbody le d depth s).
Proof.
  intros IH. unfold varbody. destruct (parse_sig s) as [[|ct more]|]; [apply NV_err; nvc | | apply NV_err; nvc].
  apply NV_bind; [apply NV_padchk|]. apply NV_depthchk. apply NV_bind; [apply IH | apply NV_final].
Qed.

Theorem vb_NV le : forall d t depth, NV (vb le d t depth).
Proof.
  induction d as [|d IH]; intros t depth; [intros c e H; nvi H|].
  destruct t as [code| |et|ts|k v].
  - destruct (code =? DBUS_TYPE_BYTE) eqn:Eb.
    { apply N.eqb_eq in Eb. subst code. apply (NV_eq _ _ (vbc_byte le d depth)). apply NV_entry, NV_post. }
    destruct (type_fixed code) eqn:Ef.
    { apply (NV_eq _ _ (fun c => vbc_fixed le d code depth c Eb Ef)). apply NV_entry, NV_fixedbody. }
    destruct ((code =? DBUS_TYPE_STRING) || (code =? DBUS_TYPE_OBJECT_PATH)) eqn:Es.
    { apply (NV_eq _ _ (fun c => vbc_string le d code depth c Eb Ef Es)). apply NV_entry.
      apply NV_bindp; [apply NV_read_len32 | intros len; apply NV_strbody]. }
    destruct (code =? DBUS_TYPE_SIGNATURE) eqn:Eg.
    { apply N.eqb_eq in Eg. subst code. apply (NV_eq _ _ (vbc_signature le d depth)). apply NV_entry.
      apply NV_bindp; [apply NV_sigread; [nvc | intros v Hv; exact Hv | nvc] | intros _; apply NV_ret]. }
    apply (NV_eq _ _ (fun c => vbc_gap le d code depth c Eb Ef Es Eg)). apply NV_entry. apply NV_err. nvc.
  - apply (NV_eq _ _ (vbc_variant le d depth)). apply NV_entry.
    apply NV_bindp; [apply NV_sigread; [nvc | intros v _; nvc | nvc] | intros s; apply NV_varbody; exact IH].
  - apply (NV_eq _ _ (vbc_array le d et depth)). apply NV_entry.
    apply NV_bindp; [apply NV_read_len32 | intros len].
    apply NV_bind; [apply NV_padchk|]. apply NV_arrbody. intros ae. apply NV_arr_elems. apply IH.
  - apply (NV_eq _ _ (vbc_struct le d ts depth)). apply NV_entry.
    apply NV_bind; [apply NV_padchk|]. apply NV_depthchk. apply NV_vbs. intros t. apply IH.
  - apply (NV_eq _ _ (vbc_dict le d k v depth)). apply NV_entry.
    apply NV_bind; [apply NV_padchk|]. apply NV_depthchk. apply NV_vbs. intros t. apply IH.
Qed.

Lemma vb_seq_NV le depth : forall ts c e, vb_seq le ts depth c = inr e -> e <> V_VALID.
Proof. intros ts c e H. rewrite vb_seq_vbs in H. revert H. apply NV_vbs. intros t. apply vb_NV. Qed.

(* (1) in cursor form.  [wfc c]: crem c = nlen (cdat c). *)
Theorem vb_sound le d t depth c c' : wfc c -> all_bytes (cdat c) = true -> tygood t = true -> depth <= max_value_depth ->
  vb le d t depth c = inl c' ->
  exists v, ty_of_val v = t /\ wfx le depth (cpos c) v = true /\ wire_ok v = true /\
            cdat c = enc le v (cpos c) ++ cdat c' /\ cpos c' = cpos c + nlen (enc le v (cpos c)) /\ wfc c'.
Proof.
  intros Hw Hb Hg Hd H. rewrite (curof_eq c Hw) in H.
  destruct (vb_sound_fuel le d t depth (cpos c) (cdat c) c' Hg Hd Hb H) as (v & rest & Ht & Hwx & Hk & E & ->).
  exists v. cbn [curof cdat cpos]. repeat split; assumption.
Qed.

(* the same with the specification's own well-formedness, outside the two deviations *)
Corollary vb_sound_wfb le d t depth c c' : wfc c -> all_bytes (cdat c) = true -> tygood t = true -> depth <= max_value_depth ->
  vb le d t depth c = inl c' ->
  exists v, ty_of_val v = t /\ (nodev depth v = true -> wfb le depth (cpos c) v = true) /\ wire_ok v = true /\
            cdat c = enc le v (cpos c) ++ cdat c' /\ cpos c' = cpos c + nlen (enc le v (cpos c)).
Proof.
  intros Hw Hb Hg Hd H. destruct (vb_sound le d t depth c c' Hw Hb Hg Hd H) as (v & Ht & Hwx & Hk & E & P & _).
  exists v. repeat split; try assumption. intros Hn. apply wfx_wfb; assumption.
Qed.

(* types coming out of the signature parser satisfy the premise *)
Corollary vb_sound_parsed le d s ts t depth c c' : parse_sig s = Some ts -> In t ts ->
  wfc c -> all_bytes (cdat c) = true -> depth <= max_value_depth -> vb le d t depth c = inl c' ->
  exists v, ty_of_val v = t /\ wfx le depth (cpos c) v = true /\ wire_ok v = true /\
            cdat c = enc le v (cpos c) ++ cdat c' /\ cpos c' = cpos c + nlen (enc le v (cpos c)) /\ wfc c'.
Proof.
  intros P Hin Hw Hb Hd H. apply parse_sig_tygood in P. rewrite forallb_forall in P.
  apply (vb_sound le d t depth c c' Hw Hb (P t Hin) Hd H).
Qed.

(* ---- (1) sequences: a message body ---------------------------------------------------------------------------- *)
Theorem vb_seq_sound le ts pos data c' : forallb tygood ts = true -> all_bytes data = true ->
  vb_seq le ts 0 (cur_of pos data) = inl c' ->
  exists vs rest, map ty_of_val vs = ts /\ wfxs le vs 0 pos = true /\ forallb wire_ok vs = true /\
                  data = encs le vs pos ++ rest /\ c' = curof (pos + nlen (encs le vs pos)) rest.
Proof.
  intros Hg Hb H. rewrite vb_seq_vbs in H. change (cur_of pos data) with (curof pos data) in H.
  destruct (vbs_sound le DEPTH_FUEL (vb_sound_fuel le DEPTH_FUEL) ts 0 pos data c' Hg ltac:(unfold max_value_depth; lia) Hb H)
    as (vs & Hts & rest & Hws & Hks & E & Ec).
  exists vs, rest. repeat split; assumption.
Qed.

Theorem validate_body_sound le tys body : forallb tygood tys = true -> all_bytes body = true ->
  validate_body le tys body = V_VALID ->
  exists vs, map ty_of_val vs = tys /\ wfxs le vs 0 0 = true /\ forallb wire_ok vs = true /\ body = encs le vs 0.
Proof.
  intros Hg Hb H. unfold validate_body in H.
  destruct (vb_seq le tys 0 (cur_of 0 body)) as [c|e] eqn:V.
  - destruct (vb_seq_sound le tys 0 body c Hg Hb V) as (vs & rest & Hts & Hws & Hks & E & ->).
    cbn [curof crem] in H. destruct (0 <? nlen rest) eqn:E0; [discriminate|].
    destruct rest; [|rewrite nlen_cons in E0; lia]. rewrite app_nil_r in E. exists vs. repeat split; assumption.
  - exfalso. subst e. exact (vb_seq_NV le 0 tys _ _ V eq_refl).
Qed.

(* the same, with the specification's well-formedness outside the deviations, and the decoder *)
Lemma wfxs_wfsb_all le vs depth pos : forallb (nodev depth) vs = true -> wfxs le vs depth pos = true -> wfsb le vs depth pos = true.
Proof.
  apply (wfxs_wfsb le vs). apply Forall_forall. intros v _ depth0 pos0. apply wfx_wfb.
Qed.

Corollary validate_body_sound_wfb le tys body : forallb tygood tys = true -> all_bytes body = true ->
  validate_body le tys body = V_VALID ->
  exists vs, map ty_of_val vs = tys /\ forallb wire_ok vs = true /\ body = encs le vs 0 /\
             (forallb (nodev 0) vs = true -> wfsb le vs 0 0 = true /\ dec_seq le tys 0 body = Some (vs, nlen body, [])).
Proof.
  intros Hg Hb H. destruct (validate_body_sound le tys body Hg Hb H) as (vs & Hts & Hws & Hks & E).
  exists vs. split; [exact Hts|]. split; [exact Hks|]. split; [exact E|]. intros Hn.
  pose proof (wfxs_wfsb_all le vs 0 0 Hn Hws) as Hw. split; [exact Hw|].
  pose proof (dec_seq_encs le vs 0 [] Hw) as D.
  rewrite app_nil_r, Hts, <- E in D. rewrite D. rewrite N.add_0_l. reflexivity.
Qed.

(* a body whose signature was accepted by the automaton *)
Corollary validate_body_sound_sig le sg tys body : parse_sig sg = Some tys -> all_bytes body = true ->
  validate_body le tys body = V_VALID ->
  exists vs, map ty_of_val vs = tys /\ wfxs le vs 0 0 = true /\ forallb wire_ok vs = true /\ body = encs le vs 0.
Proof. intros P. apply validate_body_sound. exact (parse_sig_tygood sg tys P). Qed.

(* ---- the statement with [wfb] itself is false: both deviations, concretely ---------------------------- *)
Definition vb_sound_unrestricted : Prop :=
  forall le d t depth c c', wfc c -> all_bytes (cdat c) = true -> tygood t = true -> depth <= max_value_depth ->
    vb le d t depth c = inl c' ->
    exists v, ty_of_val v = t /\ wfb le depth (cpos c) v = true /\ cdat c = enc le v (cpos c) ++ cdat c'.

Fixpoint nestv (n : nat) (inner : bytes) : bytes :=
  match n with O => inner | S k => [1; 118; 0] ++ nestv k inner end.
(* FD65: 64 nested variants, the innermost holding the byte array [7] *)
Definition deep65 : bytes := nestv 63 ([2; 97; 121; 0] ++ [0; 0; 0] ++ [1; 0; 0; 0] ++ [7]).

Fixpoint rep {A} (n : nat) (l : list A) : list A := match n with O => [] | S k => l ++ rep k l end.
(* F11: a SIGNATURE value "a(" x32 "ai" ")" x32, 33 nested arrays *)
Definition sig33 : bytes := rep 32 [97; 40] ++ [97; 105] ++ rep 32 [41].
Definition sigval33 : bytes := 98 :: sig33 ++ [0].

Lemma refute_with (t : ty) (data : bytes) (n : N) :
  vb true DEPTH_FUEL t 0 (cur_of 0 data) = inl (curof n []) -> all_bytes data = true -> tygood t = true ->
  dec true DEC_FUEL t 0 0 data = None -> ~ vb_sound_unrestricted.
Proof.
  intros V Hb Hg D H.
  destruct (H true DEPTH_FUEL t 0 (cur_of 0 data) (curof n []) (wfc_cur_of 0 data) Hb Hg ltac:(unfold max_value_depth; lia) V) as (v & Ht & Hw & E).
  cbn [cur_of curof cdat cpos] in E, Hw.
  pose proof (wfb_height true v 0 0 Hw) as Hh.
  pose proof (dec_enc true v DEC_FUEL 0 0 [] Hw ltac:(unfold DEC_FUEL; lia)) as D'.
  rewrite <- E, Ht, D in D'. discriminate.
Qed.

Theorem vb_sound_unrestricted_refuted : ~ vb_sound_unrestricted.
Proof. apply (refute_with TVariant deep65 201); vm_compute; reflexivity. Qed.

Theorem vb_sound_unrestricted_refuted_F11 : ~ vb_sound_unrestricted.
Proof. apply (refute_with (TBasic 103) sigval33 100); vm_compute; reflexivity. Qed.

(* the relaxed statement holds on both witnesses, with values that [nodev] rejects *)
Example deep65_accepted : validate_body true [TVariant] deep65 = V_VALID /\ dec_seq true [TVariant] 0 deep65 = None.
Proof. split; vm_compute; reflexivity. Qed.
Example sigval33_accepted : validate_body true [TBasic 103] sigval33 = V_VALID /\ dec_seq true [TBasic 103] 0 sigval33 = None.
Proof. split; vm_compute; reflexivity. Qed.

(* ---- the exclusion is exact: wfb = wfx /\ nodev ------------------------------------------------------------ *)
Lemma leaf_depth le d d' pos x : is_basic_val x = true -> d' <= max_value_depth -> wfx le d pos x = true -> wfx le d' pos x = true.
Proof.
  destruct x as [c n|c s| | | | ]; try discriminate; intros _ Hd H; cbn [wfx] in *;
    apply andb_true_iff in H; destruct H as [_ H]; apply andb_true_iff; (split; [lia | exact H]).
Qed.

Lemma roundtrips_sig_model t : sig_roundtrips t = true -> sig_model t = true /\ array_nest t <= 32.
Proof.
  unfold sig_roundtrips, sig_model. intros H.
  apply andb_true_iff in H. destruct H as [H Hp]. apply andb_true_iff in H. destruct H as [Hl Hs].
  unfold spec_single_signature in Hs. apply andb_true_iff in Hs. destruct Hs as [Hs _].
  rewrite Hl, Hp, (spec_signature_validate _ Hs). split; [reflexivity|].
  destruct (parse_sig (print_ty t)) as [[|t' [|? ?]]|] eqn:P; try discriminate. apply ty_eqb_eq in Hp. subst t'.
  unfold spec_signature in Hs. rewrite P in Hs. cbn [forallb] in Hs. lia.
Qed.

Lemma wfsb_wfxs le : forall vs,
  Forall (fun v => forall depth pos, wfb le depth pos v = true -> wfx le depth pos v = true /\ nodev depth v = true) vs ->
  forall depth pos, wfsb le vs depth pos = true -> wfxs le vs depth pos = true /\ forallb (nodev depth) vs = true.
Proof.
  induction 1 as [|x r Hx Hr IH]; intros depth pos H; [split; reflexivity|].
  cbn [wfxs wfsb forallb] in *. apply andb_true_iff in H. destruct H as [H1 H2].
  destruct (Hx _ _ H1) as [A1 A2]. destruct (IH _ _ H2) as [B1 B2]. rewrite A1, A2, B1, B2. split; reflexivity.
Qed.

Theorem wfb_wfx le : forall v depth pos, wfb le depth pos v = true -> wfx le depth pos v = true /\ nodev depth v = true.
Proof.
  induction v as [c n|c s|et vs IH|fs IH|k x IHk IHx|t x IHx] using val_ind'; intros depth pos H.
  - split; [exact H | reflexivity].
  - cbn [wfb wfx nodev] in *. apply andb_true_iff in H. destruct H as [Hd H]. rewrite Hd. cbn [andb].
    destruct (c =? 115) eqn:E1; [split; [exact H | replace (c =? 103) with false by lia; reflexivity]|].
    destruct (c =? 111) eqn:E2; [split; [exact H | replace (c =? 103) with false by lia; reflexivity]|].
    destruct (c =? 103); [|discriminate]. cbn [negb orb]. split; [apply spec_signature_validate; exact H | exact H].
  - rewrite wfb_arr in H. rewrite wfx_arr. cbn [nodev]. apply andb_true_iff in H. destruct H as [Hd H]. rewrite Hd. cbn [andb].
    apply andb_true_iff in H. destruct H as [H Hws]. rewrite H. cbn [andb].
    apply andb_true_iff in H. destruct H as [Hty _].
    destruct (wfsb_wfxs le vs IH _ _ Hws) as [A B]. rewrite B, andb_true_r.
    destruct (is_fixed_ty et) eqn:Hf; [|rewrite A; split; reflexivity]. cbn [negb orb].
    destruct vs as [|v0 vs']; [split; reflexivity|]. cbn [isnil orb].
    pose proof (wfsb_depth le _ _ _ _ Hws) as Hd1. rewrite Hd1. split; [|reflexivity].
    clear IH B Hws Hd1. revert Hty A. generalize (arr_start pos et). generalize (v0 :: vs').
    induction l as [|x r IHr]; intros p Hty A; [reflexivity|]. cbn [forallb wfxs] in *.
    apply andb_true_iff in Hty. destruct Hty as [T1 T2]. apply andb_true_iff in A. destruct A as [A1 A2].
    rewrite (leaf_depth le (depth + 1) depth p x (fixed_elems_leaf et x Hf T1) ltac:(lia) A1). cbn [andb]. apply IHr; assumption.
  - rewrite wfb_struct in H. rewrite wfx_struct. cbn [nodev]. apply andb_true_iff in H. destruct H as [Hd H]. rewrite Hd. cbn [andb].
    apply andb_true_iff in H. destruct H as [Hne Hws]. rewrite Hne. cbn [andb]. exact (wfsb_wfxs le fs IH _ _ Hws).
  - rewrite wfb_dict in H. rewrite wfx_dict. cbn [nodev]. apply andb_true_iff in H. destruct H as [Hd H]. rewrite Hd. cbn [andb].
    apply andb_true_iff in H. destruct H as [Hk Hws]. rewrite Hk. cbn [andb].
    destruct (wfsb_wfxs le [k; x] (Forall_cons k IHk (Forall_cons x IHx (Forall_nil _))) _ _ Hws) as [A B].
    split; [exact A|]. cbn [forallb] in B. rewrite andb_true_r in B. exact B.
  - cbn [wfb wfx nodev] in *. apply andb_true_iff in H. destruct H as [Hd H]. rewrite Hd. cbn [andb].
    apply andb_true_iff in H. destruct H as [H Hx]. apply andb_true_iff in H. destruct H as [Hty Hrt]. rewrite Hty. cbn [andb].
    destruct (roundtrips_sig_model t Hrt) as [Hsm Ha]. rewrite Hsm. cbn [andb]. destruct (IHx _ _ Hx) as [A B]. rewrite A, B.
    split; [reflexivity|]. rewrite andb_true_r. lia.
Qed.

Corollary wfb_iff le v depth pos : wfb le depth pos v = true <-> wfx le depth pos v = true /\ nodev depth v = true.
Proof. split; [apply wfb_wfx | intros [A B]; apply wfx_wfb; assumption]. Qed.

Lemma wfsb_nodev le vs depth pos : wfsb le vs depth pos = true -> forallb (nodev depth) vs = true.
Proof.
  intros H. apply (wfsb_wfxs le vs) in H; [exact (proj2 H)|]. apply Forall_forall. intros v _ depth0 pos0. apply wfb_wfx.
Qed.

Print Assumptions vb_sound.
Print Assumptions validate_body_sound_wfb.
Print Assumptions vb_sound_unrestricted_refuted.
