(* C14: the exception classes are not an over-approximation.  For four of
   them (F10a: a waiter leaves the queue by ReleaseName or by the EXISTS
   branch; F10b: the owner changes its flags; F10c: a first Hello) EVERY
   state of the class has a failing index at which the caller is told
   NoMemory although the state changed. *)
From DV Require Import Spec.OomSpec Proofs.OomGeneric Proofs.OomLists Proofs.OomHandlers Proofs.OomMain.
Local Open Scope N_scope.

(* the first three allocations (bus_dispatch's own) pass, the fourth fails *)
Lemma prelude_passes (p : prog unit) b :
  interp (fail_at 3) (allocs 3 ;;; p) (mkSt b [] [] 0) = interp (fail_at 3) p (mkSt b [] [] 3).
Proof. reflexivity. Qed.

Lemma act_then_alloc_fails A a (k : prog A) b msgs hs :
  interp (fail_at 3) (Act a (Alloc k)) (mkSt b msgs hs 3) =
  match do_action a b with
  | Some (b', hs') => Oom (mkSt b' msgs (hs' ++ hs) 4)
  | None => Halt
  end.
Proof. simpl. destruct (do_action a b) as [[b' hs']|]; reflexivity. Qed.

Lemma remove_first_shorter {A} (p : A -> bool) l : existsb p l = true -> (length (remove_first p l) < length l)%nat.
Proof.
  induction l as [|x r IH]; simpl; [discriminate|].
  destruct (p x); simpl; [intros _; lia|]. intros H. apply IH in H. lia.
Qed.

Lemma find_owner_some_existsb q c o : find_owner q c = Some o -> existsb (is_conn c) q = true.
Proof.
  induction q as [|x r IH]; simpl; [discriminate|]. unfold is_conn at 1.
  destruct (o_conn x =? c); simpl; auto.
Qed.

(* F10a: ReleaseName by a waiter *)
Theorem tight_release_waiter b c cn name p w o :
  inv b -> find_conn (b_conns b) c = Some cn -> c_active cn = true -> name_refused name = false ->
  lookup (b_services b) (KW name) = Some (p :: w) -> (o_conn p =? c) = false -> find_owner w c = Some o ->
  exists b', step_oom 3 b (EvRelease c name) = OOk b' [(c, MError ENoMemory)] /\ ~ same_state b' b.
Proof.
  intros Hinv Ef Ea Er El Ep Eo.
  pose proof (find_conn_id _ _ _ Ef) as Hid.
  destruct (inv_lookup _ _ _ Hinv El) as (_ & Hlive & _).
  assert (Efo : find_owner (p :: w) c = Some o) by (simpl; rewrite Ep; exact Eo).
  unfold step_oom, step_f, handler. rewrite Ef. unfold run_request. rewrite prelude_passes.
  unfold not_yet. rewrite Ea. unfold release_name, release_service. rewrite Er, Hid.
  cbn [bind get interp s_bus]. rewrite El. unfold all_live. rewrite Hlive. cbn [negb]. rewrite Efo.
  unfold remove_owner. rewrite Ep. unfold act, send_reply. cbn [bind allocs].
  rewrite act_then_alloc_fails.
  cbn [do_action]. rewrite El, Efo. unfold cancelled. cbn [s_hooks s_bus app cancel_all].
  eexists; split; [reflexivity|].
  intros (_ & Hs & _). cbn [b_services] in Hs.
  assert (Hl : lookup (put_queue (b_services b) (KW name) (remove_first (is_conn c) (p :: w))) (KW name) = Some (p :: w)) by (rewrite Hs; exact El).
  simpl in Hl. unfold is_conn at 1 in Hl. rewrite Ep in Hl. cbn [put_queue] in Hl.
  rewrite (lookup_set_queue _ _ _ _ El) in Hl. inversion Hl as [Hw].
  pose proof (remove_first_shorter (is_conn c) w (find_owner_some_existsb _ _ _ Eo)) as Hlt. rewrite Hw in Hlt. lia.
Qed.

(* F10a: RequestName with DO_NOT_QUEUE by a waiter that cannot take the name: answer EXISTS, the waiter is dropped *)
Theorem tight_exists_waiter b c cn name flags p w o :
  inv b -> find_conn (b_conns b) c = Some cn -> c_active cn = true -> name_refused name = false ->
  (b_maxnames b <=? nlen (c_owned cn)) = false ->
  lookup (b_services b) (KW name) = Some (p :: w) -> (o_conn p =? c) = false -> find_owner w c = Some o ->
  (has_flag flags DBUS_NAME_FLAG_DO_NOT_QUEUE && negb (o_allow p)) || (has_flag flags DBUS_NAME_FLAG_DO_NOT_QUEUE && negb (has_flag flags DBUS_NAME_FLAG_REPLACE_EXISTING)) = true ->
  exists b', step_oom 3 b (EvRequest c name flags) = OOk b' [(c, MError ENoMemory)] /\ ~ same_state b' b.
Proof.
  intros Hinv Ef Ea Er Elim El Ep Eo Eex.
  pose proof (find_conn_id _ _ _ Ef) as Hid.
  destruct (inv_lookup _ _ _ Hinv El) as (_ & Hlive & _).
  assert (Efo : find_owner (p :: w) c = Some o) by (simpl; rewrite Ep; exact Eo).
  unfold step_oom, step_f, handler. rewrite Ef. unfold run_request. rewrite prelude_passes.
  unfold not_yet. rewrite Ea. unfold request_name, acquire_service. rewrite Er, Hid.
  cbn [bind get interp s_bus]. rewrite Elim. cbn [andb]. rewrite El. unfold all_live. rewrite Hlive. cbn [negb]. rewrite Ep, Eex, Efo.
  unfold act, send_reply. cbn [bind allocs].
  rewrite act_then_alloc_fails.
  cbn [do_action]. rewrite El, Efo. unfold cancelled. cbn [s_hooks s_bus app cancel_all].
  eexists; split; [reflexivity|].
  intros (_ & Hs & _). cbn [b_services] in Hs.
  assert (Hl : lookup (put_queue (b_services b) (KW name) (remove_first (is_conn c) (p :: w))) (KW name) = Some (p :: w)) by (rewrite Hs; exact El).
  simpl in Hl. unfold is_conn at 1 in Hl. rewrite Ep in Hl. cbn [put_queue] in Hl.
  rewrite (lookup_set_queue _ _ _ _ El) in Hl. inversion Hl as [Hw].
  pose proof (remove_first_shorter (is_conn c) w (find_owner_some_existsb _ _ _ Eo)) as Hlt. rewrite Hw in Hlt. lia.
Qed.

Lemma same_flags_false_set o flags : same_flags o flags = false -> set_flags o flags <> o.
Proof.
  destruct o as [c a d l]; unfold same_flags, set_flags; simpl. intros H Heq. inversion Heq as [[Ha Hd]].
  rewrite <- Ha, <- Hd in H. rewrite !Bool.eqb_reflx in H. discriminate.
Qed.

(* F10b: the owner asks again with other flags *)
Theorem tight_owner_flags b c cn name flags p w :
  inv b -> find_conn (b_conns b) c = Some cn -> c_active cn = true -> name_refused name = false ->
  (b_maxnames b <=? nlen (c_owned cn)) = false ->
  lookup (b_services b) (KW name) = Some (p :: w) -> (o_conn p =? c) = true -> same_flags p flags = false ->
  exists b', step_oom 3 b (EvRequest c name flags) = OOk b' [(c, MError ENoMemory)] /\ ~ same_state b' b.
Proof.
  intros Hinv Ef Ea Er Elim El Ep Esf.
  pose proof (find_conn_id _ _ _ Ef) as Hid.
  destruct (inv_lookup _ _ _ Hinv El) as (_ & Hlive & _).
  unfold step_oom, step_f, handler. rewrite Ef. unfold run_request. rewrite prelude_passes.
  unfold not_yet. rewrite Ea. unfold request_name, acquire_service. rewrite Er, Hid.
  cbn [bind get interp s_bus]. rewrite Elim. cbn [andb]. rewrite El. unfold all_live. rewrite Hlive. cbn [negb]. rewrite Ep.
  unfold act, send_reply. cbn [bind allocs].
  rewrite act_then_alloc_fails.
  cbn [do_action]. rewrite El. unfold cancelled. cbn [s_hooks s_bus app cancel_all].
  eexists; split; [reflexivity|].
  intros (_ & Hs & _). unfold with_services in Hs. cbn [b_services] in Hs.
  assert (Hl : lookup (set_queue (b_services b) (KW name) (set_flags p flags :: w)) (KW name) = Some (p :: w)) by (rewrite Hs; exact El).
  rewrite (lookup_set_queue _ _ _ _ El) in Hl. inversion Hl as [Hp].
  exact (same_flags_false_set _ _ Esf Hp).
Qed.

Lemma find_conn_set_active cs c cn :
  find_conn cs c = Some cn -> find_conn (set_active cs c) c = Some (mkConn (c_id cn) true (c_owned cn) (c_rules cn)).
Proof.
  unfold set_active. induction cs as [|x r IH]; simpl; [discriminate|].
  destruct (c_id x =? c) eqn:E; simpl.
  - intros H; inversion H; subst. rewrite E. reflexivity.
  - rewrite E. exact IH.
Qed.

(* F10c: a first Hello; the allocation right after bus_connection_complete fails *)
Theorem tight_hello b c cn :
  find_conn (b_conns b) c = Some cn -> c_active cn = false -> (b_maxconns b <=? b_uidcount b) = false ->
  exists b', step_oom 9 b (EvHello c) = OOk b' [(c, MError ENoMemory)] /\ ~ same_state b' b.
Proof.
  intros Ef Ea Hlim.
  pose proof (find_conn_id _ _ _ Ef) as Hid.
  unfold step_oom, step_f, handler. rewrite Ef. unfold run_request, hello. rewrite Ea, Hid.
  cbn -[N.leb]. rewrite Hlim. cbn. unfold cancelled. cbn.
  eexists; split; [reflexivity|].
  intros (Hc & _). cbn in Hc.
  pose proof (find_conn_set_active _ _ _ Ef) as Hf. unfold set_active in Hf. rewrite Hc, Ef in Hf. inversion Hf as [Hcn].
  rewrite Hcn in Ea. simpl in Ea. discriminate.
Qed.
