(* C17: dbus_pending_call_block returns only when the call is completed
   (single-threaded use): whenever the model's block event comes back without
   hanging and without the F17.3 fault, the call it waited for is completed. *)
From Coq Require Import List NArith Bool Lia ZArith ZifyBool ZifyN ZifyNat.
Import ListNotations.
From DV Require Import PendingCall.Pending Spec.PendingSpec Proofs.PendingSerial Proofs.PendingLemmas Proofs.PendingInv
  Proofs.PendingRel Proofs.PendingCancel Proofs.PendingFault Proofs.PendingLive.
Local Open Scope N_scope.

Definition exists_at (i : nat) (st : state) : Prop := exists k, nth_error (cores st) i = Some k.

Lemma exists_quiet i st st' : quiet st st' -> exists_at i st -> exists_at i st'.
Proof. intros (Hc & _) [k Hk]. exists k. rewrite Hc. exact Hk. Qed.
Lemma completed_quiet i st st' : quiet st st' -> completed_at i st -> completed_at i st'.
Proof. intros (Hc & _) [k Hk]. exists k. rewrite Hc. exact Hk. Qed.

Lemma sc_completed st i m st' o :
  start_complete st i m = (st', o) -> fault st = 0 -> fault st' = 0 -> exists_at i st -> completed_at i st'.
Proof.
  intros H Hf Hf' [k Hk]. apply start_complete_result in H.
  destruct H as [-> -> Hn | n -> Hn0 -> | c x link Hn Hc Hr Hs -> ->].
  - unfold cores in Hk. rewrite nth_error_map, Hn in Hk. discriminate.
  - simpl in Hf'. contradiction.
  - unfold completed_at, cores at 1. simpl. rewrite (cores_done st i c x link Hn), nth_error_upd, Nat.eqb_refl, Hk. simpl. eauto.
Qed.

Lemma cs_completed st i m st' o :
  (let '(st1, o1) := start_complete st i m in (if fault st1 =? 0 then u_status st1 else st1, o1)) = (st', o) ->
  fault st = 0 -> fault st' = 0 -> exists_at i st -> completed_at i st'.
Proof.
  destruct (start_complete st i m) as [s1 o1] eqn:E. intros H Hf Hf' He. inversion H; subst. clear H.
  destruct (fault s1 =? 0) eqn:E0.
  - apply N.eqb_eq in E0. apply (completed_quiet i s1); [apply quiet_u_status|]. eapply sc_completed; eauto.
  - apply N.eqb_neq in E0. contradiction.
Qed.

Lemma blk_check_completed st i st' o : blk_check st i = Some (st', o) -> fault st = 0 -> fault st' = 0 -> exists_at i st -> completed_at i st'.
Proof.
  unfold blk_check. destruct (nth_error (calls st) i) as [c|]; [|discriminate].
  destruct (find_reply (queue st) (c_serial c)) as [[m q']|]; [|discriminate].
  intros H Hf Hf' He. apply (cs_completed (set_queue st q') i (Some m) st' o); auto.
  destruct (start_complete (set_queue st q') i (Some m)) as [s l]. inversion H; subst. reflexivity.
Qed.

Lemma blk_recheck_completed st i t st' o :
  blk_recheck st i t = inl (st', o) -> fault st = 0 -> fault st' = 0 -> exists_at i st -> completed_at i st'.
Proof.
  unfold blk_recheck. intros H Hf Hf' He.
  pose proof (quiet_u_status st) as Q. set (s1 := u_status st) in *.
  assert (Hf1 : fault s1 = 0) by (rewrite (quiet_fault _ _ Q); auto).
  pose proof (exists_quiet i _ _ Q He) as He1.
  destruct (nth_error (calls s1) i) as [c|] eqn:Hn.
  2:{ destruct He1 as [k Hk]. unfold cores in Hk. rewrite nth_error_map, Hn in Hk. discriminate. }
  destruct (c_completed c) eqn:Hcc.
  { inversion H; subst. exists (core_of c). unfold cores. rewrite nth_error_map, Hn. auto. }
  destruct (blk_check s1 i) as [[s l]|] eqn:E.
  { inversion H; subst. eapply blk_check_completed; eauto. }
  destruct (negb (connected s1)).
  { inversion H as [H1]. eapply sc_completed; eauto. }
  destruct (negb (disc_link s1)).
  { inversion H as [H1]. eapply (cs_completed s1 i None); eauto. }
  destruct (negb (c_finite c)); [discriminate|]. destruct (negb t); [discriminate|].
  inversion H as [H1]. eapply (cs_completed s1 i None); eauto.
Qed.

Definition returned (o : list obs) : Prop := ~ In OHang o /\ ~ In OFuel o.

Theorem block_completes st i st' o :
  fault st = 0 -> exists_at i st -> ev_block st i = (st', o) -> returned o -> fault st' = 0 -> completed_at i st'.
Proof.
  intros Hf He. unfold ev_block.
  destruct (nth_error (calls st) i) as [c|] eqn:Hn.
  2:{ destruct He as [k Hk]. unfold cores in Hk. rewrite nth_error_map, Hn in Hk. discriminate. }
  destruct (c_completed c) eqn:Hcc.
  { intros H _ _. inversion H; subst. exists (core_of c). unfold cores. rewrite nth_error_map, Hn. auto. }
  pose proof (quiet_u_flush st) as Q0. set (s0 := u_flush st) in *.
  assert (Hf0 : fault s0 = 0) by (rewrite (quiet_fault _ _ Q0); auto).
  pose proof (exists_quiet i _ _ Q0 He) as He0.
  destruct (blk_check s0 i) as [[s l]|] eqn:E1.
  { intros H _ Hf'. inversion H; subst. eapply blk_check_completed; eauto. }
  destruct (blk_iter s0 (c_finite c)) as [[st1 t1]|] eqn:E2.
  2:{ intros H [Hh _]. inversion H; subst. exfalso. apply Hh. left; reflexivity. }
  pose proof (quiet_blk_iter _ _ _ _ E2) as Q1.
  assert (Hf1 : fault st1 = 0) by (rewrite (quiet_fault _ _ Q1); auto).
  pose proof (exists_quiet i _ _ Q1 He0) as He1.
  destruct (blk_recheck st1 i t1) as [[s l]|st2] eqn:E3.
  { intros H _ Hf'. inversion H; subst. eapply blk_recheck_completed; eauto. }
  pose proof (quiet_blk_recheck_inr _ _ _ _ E3) as Q2.
  assert (Hf2 : fault st2 = 0) by (rewrite (quiet_fault _ _ Q2); auto).
  pose proof (exists_quiet i _ _ Q2 He1) as He2.
  destruct (blk_iter st2 (c_finite c)) as [[st3 t2]|] eqn:E4.
  2:{ intros H [Hh _]. inversion H; subst. exfalso. apply Hh. left; reflexivity. }
  pose proof (quiet_blk_iter _ _ _ _ E4) as Q3.
  assert (Hf3 : fault st3 = 0) by (rewrite (quiet_fault _ _ Q3); auto).
  pose proof (exists_quiet i _ _ Q3 He2) as He3.
  destruct (blk_recheck st3 i (t1 || t2)) as [[s l]|st4] eqn:E5.
  { intros H _ Hf'. inversion H; subst. eapply blk_recheck_completed; eauto. }
  intros H [_ Hfu]. inversion H; subst. exfalso. apply Hfu. left; reflexivity.
Qed.

(* ... and therefore, single-threaded: slot assigned exactly once over the whole trace, notify ran exactly once *)
Theorem block_completes_once b h i k :
  valid_base b ->
  let st := fst (run1 (init_at b) h) in
  fault st = 0 -> nth_error (cores st) i = Some k ->
  returned (snd (step1 st (EBlock i))) -> fault (fst (step1 st (EBlock i))) = 0 ->
  let tr := trace1_at b (h ++ [EBlock i]) in
  count_complete i tr = 1%nat /\ count_notify i tr = b2n (k_hasnotify k).
Proof.
  intros Hb st Hf Hk Hret Hf1 tr.
  pose proof (rel_trace1 b h Hb) as R. fold st in R.
  pose proof (rel_run1 _ [EBlock i] st (trace1_at b h) R) as R2.
  assert (Htr : tr = trace1_at b h ++ snd (run1 st [EBlock i])).
  { unfold tr, trace1_at. rewrite run1_app. unfold st. destruct (run1 (init_at b) h) as [s0 o0]. cbn [fst snd].
    destruct (run1 s0 [EBlock i]); reflexivity. }
  rewrite <- Htr in R2.
  assert (E1 : run1 st [EBlock i] = (fst (step1 st (EBlock i)), snd (step1 st (EBlock i)) ++ [])).
  { simpl. destruct (step1 st (EBlock i)); reflexivity. }
  rewrite E1 in R2. cbn [fst] in R2. set (st' := fst (step1 st (EBlock i))) in *.
  (* the block step itself *)
  destruct (step st (EBlock i)) as [s1 o1] eqn:Es.
  assert (Hs1f : fault s1 = 0).
  { destruct (N.eq_dec (fault s1) 0) as [|Hne]; auto. exfalso.
    (* a faulted state stays faulted through the trailing EFinish events *)
    assert (G : forall l s, fault s <> 0 -> fault (fst (run s l)) <> 0).
    { induction l as [|e l IHl]; intros s Hs; simpl; auto. unfold step at 1. apply N.eqb_neq in Hs. rewrite Hs. simpl.
      specialize (IHl s (proj1 (N.eqb_neq _ _) Hs)). destruct (run s l). exact IHl. }
    unfold st', step1 in Hf1. rewrite Es in Hf1. specialize (G (inflight_from (calls s1) 0) s1 Hne).
    destruct (run s1 (inflight_from (calls s1) 0)). simpl in *. contradiction. }
  assert (Hst' : st' = flushed s1) by (unfold st'; rewrite step1_fst; rewrite Es; auto).
  assert (Hret1 : returned o1).
  { unfold step1 in Hret. rewrite Es in Hret. destruct (run s1 (inflight_from (calls s1) 0)) as [s2 o2]. simpl in Hret.
    destruct Hret as [A B]. split; intro Hin; [apply A|apply B]; apply in_or_app; auto. }
  assert (Hc1 : completed_at i s1).
  { unfold step in Es. rewrite Hf in Es. simpl in Es. exact (block_completes st i s1 o1 Hf (ex_intro _ k Hk) Es Hret1 Hs1f). }
  assert (Hc' : exists c', nth_error (calls st') i = Some c' /\ c_completed c' = true /\ c_inflight c' = false /\ c_hasnotify c' = k_hasnotify k).
  { destruct Hc1 as [k1 [Hk1 Hkc]]. unfold cores in Hk1. rewrite nth_error_map in Hk1.
    destruct (nth_error (calls s1) i) as [c1|] eqn:Ec1; [|discriminate]. inversion Hk1; subst k1. simpl in Hkc.
    exists (fin c1). rewrite Hst'. unfold flushed; simpl. rewrite nth_error_map, Ec1. simpl. split; [reflexivity|].
    split; [unfold fin; destruct (c_inflight c1); simpl; auto|]. split; [apply fin_not_inflight|].
    (* the notify flag is part of the core and no step changes it *)
    assert (Hh : c_hasnotify c1 = k_hasnotify k).
    { destruct (step_good _ _ _ _ Es (r_ok _ _ _ R)) as [_ S].
      assert (exists k1, nth_error (cores s1) i = Some k1 /\ k_hasnotify k1 = k_hasnotify k) as [k1 [Hk1' Hh]].
      { destruct S as [Hcs _ _ | nf _ _ Hcs | _ _ Hcs | x k' y _ _ _ _ _ _ Hcs | x k' _ _ _ _ Hcs | x _ _ Hcs]; rewrite Hcs.
        - eauto.
        - rewrite nth_error_app1 by (apply nth_error_Some; congruence). eauto.
        - eauto.
        - rewrite nth_error_upd, Hk. destruct (Nat.eqb x i); simpl; eauto.
        - rewrite nth_error_upd, Hk. destruct (Nat.eqb x i); simpl; eauto.
        - rewrite nth_error_upd, Hk. destruct (Nat.eqb x i); simpl; eauto. }
      unfold cores in Hk1'. rewrite nth_error_map, Ec1 in Hk1'. inversion Hk1'; subst. exact Hh. }
    unfold fin. destruct (c_inflight c1); simpl; exact Hh. }
  destruct Hc' as [c' (Hn' & Hcc & Hci & Hch)].
  pose proof (r_counts _ _ _ R2 i) as Hcnt. unfold cores in Hcnt. rewrite nth_error_map, Hn' in Hcnt. simpl in Hcnt.
  rewrite Hcc, Hci, Hch in Hcnt. destruct Hcnt as [C1 C2]. split; [exact C1|]. destruct (k_hasnotify k); simpl in *; lia.
Qed.
