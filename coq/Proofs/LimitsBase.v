(* C13 proofs, part 1: counting lemmas, the uid table, and what one step of the
   registry model (Registry.step, C04) does to the connection table: shapes
   (id, active) of the connections, the bound on services_owned, the limit field,
   and that signals never carry an error. *)
From DV Require Import Lib.Base Gen.Tables Wire.Names Registry.RegTypes Registry.Registry
  Spec.NamesSpec Spec.RegistrySpec Proofs.RegistryBase Proofs.RegistryInv Proofs.RegistryMain.
From DV Require Import Limits.Limits Spec.LimitsSpec.
From Coq Require Import ZifyBool ZifyN ZifyNat.
Local Open Scope N_scope.

(* ---- counting --------------------------------------------------------------------- *)
Definition cnt {A} (p : A -> bool) (l : list A) : N := nlen (filter p l).
Definition b2n (b : bool) : N := if b then 1 else 0.

Lemma nlen_cons {A} (x : A) l : nlen (x :: l) = nlen l + 1.
Proof. unfold nlen. simpl length. lia. Qed.

Lemma nlen_app {A} (l1 l2 : list A) : nlen (l1 ++ l2) = nlen l1 + nlen l2.
Proof. unfold nlen. rewrite app_length. lia. Qed.

Lemma cnt_nil {A} (p : A -> bool) : cnt p [] = 0.
Proof. reflexivity. Qed.

Lemma cnt_cons {A} (p : A -> bool) x l : cnt p (x :: l) = cnt p l + b2n (p x).
Proof. unfold cnt, b2n. simpl. destruct (p x); [rewrite nlen_cons|]; lia. Qed.

Lemma cnt_app {A} (p : A -> bool) l1 l2 : cnt p (l1 ++ l2) = cnt p l1 + cnt p l2.
Proof. unfold cnt. rewrite filter_app, nlen_app. reflexivity. Qed.

Lemma cnt_ext {A} (p q : A -> bool) l : (forall x, In x l -> p x = q x) -> cnt p l = cnt q l.
Proof.
  induction l as [|x l IH]; intros H; [reflexivity|].
  rewrite !cnt_cons. rewrite IH by (intros y Hy; apply H; simpl; auto). rewrite (H x) by (simpl; auto). reflexivity.
Qed.

Lemma cnt_map {A B} (f : A -> B) (p : B -> bool) l : cnt p (map f l) = cnt (fun x => p (f x)) l.
Proof. induction l as [|x l IH]; [reflexivity|]. simpl map. rewrite !cnt_cons, IH. reflexivity. Qed.

Lemma cnt_le_filter {A} (p q : A -> bool) l : cnt p (filter q l) <= cnt p l.
Proof.
  induction l as [|x l IH]; [reflexivity|]. simpl. destruct (q x); rewrite ?cnt_cons; unfold b2n; destruct (p x); lia.
Qed.

Lemma cnt_filter_neg {A} (p q : A -> bool) l : (forall x, p x = true -> q x = false) -> cnt p (filter q l) = 0.
Proof.
  intros H. induction l as [|x l IH]; [reflexivity|]. simpl. destruct (q x) eqn:Q; [|exact IH].
  rewrite cnt_cons, IH. destruct (p x) eqn:P; [rewrite (H x P) in Q; discriminate | reflexivity].
Qed.

Lemma cnt_filter_other {A} (p q : A -> bool) l : (forall x, p x = true -> q x = true) -> cnt p (filter q l) = cnt p l.
Proof.
  intros H. induction l as [|x l IH]; [reflexivity|]. simpl. destruct (q x) eqn:Q; rewrite ?cnt_cons, IH; [reflexivity|].
  destruct (p x) eqn:P; [rewrite (H x P) in Q; discriminate | unfold b2n; lia].
Qed.

Lemma cnt_pos_in {A} (p : A -> bool) l x : In x l -> p x = true -> 1 <= cnt p l.
Proof.
  induction l as [|y l IH]; intros Hin Hp; [destruct Hin|]. rewrite cnt_cons. destruct Hin as [->|Hin].
  - rewrite Hp. unfold b2n. lia.
  - specialize (IH Hin Hp). lia.
Qed.

Lemma cnt_zero {A} (p : A -> bool) l : (forall x, In x l -> p x = false) -> cnt p l = 0.
Proof.
  induction l as [|y l IH]; intros H; [reflexivity|]. rewrite cnt_cons. rewrite IH by (intros z Hz; apply H; simpl; auto). rewrite (H y) by (simpl; auto). reflexivity.
Qed.

(* ---- the connection table ---------------------------------------------------------- *)
Definition shape (x : conn) : N * bool := (c_id x, c_active x).
Definition shapes (cs : list conn) : list (N * bool) := map shape cs.
(* a bound on services_owned that may depend on the connection *)
Definition boundedf (f : N -> N) (cs : list conn) : Prop := forall x, In x cs -> nlen (c_owned x) <= f (c_id x).
Definition bounded (lim : N) (cs : list conn) : Prop := boundedf (fun _ => lim) cs.

Lemma ids_shapes cs : ids cs = map fst (shapes cs).
Proof. unfold ids, shapes. rewrite map_map. reflexivity. Qed.

Lemma shapes_ids cs cs' : shapes cs = shapes cs' -> ids cs = ids cs'.
Proof. intros H. rewrite !ids_shapes, H. reflexivity. Qed.

Fixpoint find_shape (l : list (N * bool)) (c : N) : option bool :=
  match l with [] => None | (i, a) :: r => if i =? c then Some a else find_shape r c end.

Lemma find_shape_conn cs c : find_shape (shapes cs) c = option_map c_active (find_conn cs c).
Proof. induction cs as [|x cs IH]; [reflexivity|]. simpl. destruct (c_id x =? c); [reflexivity | exact IH]. Qed.

Lemma cnt_shapes (p : N * bool -> bool) cs : cnt (fun x => p (shape x)) cs = cnt p (shapes cs).
Proof. unfold shapes. rewrite cnt_map. reflexivity. Qed.

Lemma upd_conn_shapes cs c f : (forall x, shape (f x) = shape x) -> shapes (upd_conn cs c f) = shapes cs.
Proof.
  intros H. induction cs as [|x cs IH]; [reflexivity|]. simpl. destruct (c_id x =? c); simpl; [rewrite H | rewrite IH]; reflexivity.
Qed.

Lemma own_add_shapes cs c k : shapes (own_add cs c k) = shapes cs.
Proof. apply upd_conn_shapes. reflexivity. Qed.
Lemma own_del_shapes cs c k : shapes (own_del cs c k) = shapes cs.
Proof. apply upd_conn_shapes. reflexivity. Qed.

Lemma upd_conn_in cs c f y : In y (upd_conn cs c f) -> In y cs \/ exists x, find_conn cs c = Some x /\ y = f x.
Proof.
  induction cs as [|x cs IH]; simpl; [tauto|]. destruct (c_id x =? c) eqn:E; simpl.
  - intros [<-|H]; [right; eauto | left; auto].
  - intros [<-|H]; [left; auto|]. destruct (IH H) as [H1|H1]; [left; auto | right; exact H1].
Qed.

Lemma remove_last_length k l : (length (remove_last k l) <= length l)%nat.
Proof.
  induction l as [|x l IH]; simpl; [lia|]. destruct (existsb (key_eqb k) l); simpl; [lia|]. destruct (key_eqb k x); simpl; lia.
Qed.

Lemma remove_last_length_in k l : In k l -> S (length (remove_last k l)) = length l.
Proof.
  induction l as [|x l IH]; simpl; [tauto|]. intros H.
  destruct (existsb (key_eqb k) l) eqn:E; simpl.
  - apply existsb_key in E. rewrite (IH E). reflexivity.
  - destruct (key_eqb k x) eqn:Ex; [reflexivity|]. exfalso. destruct H as [->|H].
    + rewrite key_eqb_refl in Ex. discriminate.
    + apply existsb_key in H. rewrite H in E. discriminate.
Qed.

Lemma own_del_boundedf f cs c k : boundedf f cs -> boundedf f (own_del cs c k).
Proof.
  intros B y Hy. apply upd_conn_in in Hy. destruct Hy as [Hy|[x [Hx ->]]]; [apply B; exact Hy|].
  apply find_conn_in in Hx. destruct Hx as [Hx _]. specialize (B x Hx). simpl. unfold nlen in *.
  pose proof (remove_last_length k (c_owned x)). lia.
Qed.

Lemma own_add_boundedf f lim cs c k x : boundedf f cs -> find_conn cs c = Some x -> nlen (c_owned x) < lim -> lim <= f (c_id x) ->
  boundedf f (own_add cs c k).
Proof.
  intros B Hx Hl Hf y Hy. apply upd_conn_in in Hy. destruct Hy as [Hy|[x' [Hx' ->]]]; [apply B; exact Hy|].
  rewrite Hx in Hx'. inversion Hx'; subst x'. simpl. rewrite nlen_app. unfold nlen at 2. simpl. lia.
Qed.

Lemma own_del_bounded lim cs c k : bounded lim cs -> bounded lim (own_del cs c k).
Proof. apply own_del_boundedf. Qed.

Lemma own_add_bounded lim cs c k x : bounded lim cs -> find_conn cs c = Some x -> nlen (c_owned x) < lim -> bounded lim (own_add cs c k).
Proof. intros B Hx Hl. eapply own_add_boundedf; eauto. simpl. lia. Qed.

Lemma find_conn_shapes cs cs' c : shapes cs = shapes cs' ->
  option_map c_active (find_conn cs c) = option_map c_active (find_conn cs' c).
Proof. intros H. rewrite <- !find_shape_conn, H. reflexivity. Qed.

Lemma del_conn_in cs c y : In y (del_conn cs c) -> In y cs.
Proof.
  induction cs as [|x cs IH]; simpl; [tauto|]. destruct (c_id x =? c); simpl; [auto|]. intros [H|H]; auto.
Qed.

Fixpoint del_shape (l : list (N * bool)) (c : N) : list (N * bool) :=
  match l with [] => [] | (i, a) :: r => if i =? c then r else (i, a) :: del_shape r c end.

Lemma del_conn_shapes cs c : shapes (del_conn cs c) = del_shape (shapes cs) c.
Proof. induction cs as [|x cs IH]; [reflexivity|]. simpl. destruct (c_id x =? c); simpl; [|rewrite IH]; reflexivity. Qed.

(* ---- counting over connection tables -------------------------------------------------- *)
Lemma cnt_upd_conn (p : conn -> bool) cs c f x : find_conn cs c = Some x ->
  cnt p (upd_conn cs c f) + b2n (p x) = cnt p cs + b2n (p (f x)).
Proof.
  induction cs as [|y cs IH]; simpl; [discriminate|]. destruct (c_id y =? c).
  - intros H; inversion H; subst y. rewrite !cnt_cons. lia.
  - intros H. specialize (IH H). rewrite !cnt_cons. lia.
Qed.

Lemma cnt_del_conn (p : conn -> bool) cs c x : find_conn cs c = Some x ->
  cnt p (del_conn cs c) + b2n (p x) = cnt p cs.
Proof.
  induction cs as [|y cs IH]; simpl; [discriminate|]. destruct (c_id y =? c).
  - intros H; inversion H; subst y. rewrite !cnt_cons. lia.
  - intros H. specialize (IH H). rewrite !cnt_cons. lia.
Qed.

(* ---- the uid table -------------------------------------------------------------------- *)
Lemma get_uid_filter_other t u u' : u' <> u -> get_uid (filter (fun e => negb (fst e =? u)) t) u' = get_uid t u'.
Proof.
  intros H. induction t as [|[a n] t IH]; [reflexivity|]. simpl. destruct (a =? u) eqn:E; simpl.
  - apply N.eqb_eq in E. subst a. destruct (u =? u') eqn:E2; [apply N.eqb_eq in E2; congruence | exact IH].
  - destruct (a =? u'); [reflexivity | exact IH].
Qed.

Lemma get_uid_filter_same t u : get_uid (filter (fun e => negb (fst e =? u)) t) u = 0.
Proof.
  induction t as [|[a n] t IH]; [reflexivity|]. simpl. destruct (a =? u) eqn:E; simpl; [exact IH|]. rewrite E. exact IH.
Qed.

Lemma get_set_uid t u n u' : get_uid (set_uid t u n) u' = if u' =? u then n else get_uid t u'.
Proof.
  unfold set_uid. destruct (u' =? u) eqn:E.
  - apply N.eqb_eq in E. subst u'. destruct (n =? 0) eqn:Z.
    + apply N.eqb_eq in Z. subst n. apply get_uid_filter_same.
    + simpl. rewrite N.eqb_refl. reflexivity.
  - apply N.eqb_neq in E. destruct (n =? 0).
    + apply get_uid_filter_other. exact E.
    + simpl. destruct (u =? u') eqn:E2; [apply N.eqb_eq in E2; congruence|]. apply get_uid_filter_other. exact E.
Qed.

(* ---- per-connection data --------------------------------------------------------------- *)
Definition cids (ds : list cdata) : list N := map d_id ds.

Lemma find_cd_in ds c d : find_cd ds c = Some d -> In d ds /\ d_id d = c.
Proof.
  induction ds as [|y ds IH]; simpl; [discriminate|]. destruct (d_id y =? c) eqn:E.
  - intros H; inversion H; subst. apply N.eqb_eq in E. auto.
  - intros H. destruct (IH H). auto.
Qed.

Lemma find_cd_none ds c : find_cd ds c = None <-> ~ In c (cids ds).
Proof.
  induction ds as [|y ds IH]; simpl; [tauto|]. destruct (d_id y =? c) eqn:E.
  - apply N.eqb_eq in E. split; [discriminate | intros H; exfalso; apply H; auto].
  - apply N.eqb_neq in E. rewrite IH. tauto.
Qed.

Lemma find_cd_app ds c d : find_cd (ds ++ [d]) c = match find_cd ds c with Some x => Some x | None => if d_id d =? c then Some d else None end.
Proof. induction ds as [|y ds IH]; simpl; [reflexivity|]. destruct (d_id y =? c); [reflexivity | exact IH]. Qed.

Lemma find_cd_del_other ds c c' : c' <> c -> find_cd (del_cd ds c) c' = find_cd ds c'.
Proof.
  intros H. induction ds as [|y ds IH]; [reflexivity|]. simpl. destruct (d_id y =? c) eqn:E.
  - apply N.eqb_eq in E. destruct (d_id y =? c') eqn:E2; [apply N.eqb_eq in E2; congruence | reflexivity].
  - simpl. destruct (d_id y =? c'); [reflexivity | exact IH].
Qed.

Fixpoint del_id (l : list N) (c : N) : list N :=
  match l with [] => [] | i :: r => if i =? c then r else i :: del_id r c end.

Lemma cids_del_cd ds c : cids (del_cd ds c) = del_id (cids ds) c.
Proof. induction ds as [|y ds IH]; [reflexivity|]. simpl. destruct (d_id y =? c); simpl; [|rewrite IH]; reflexivity. Qed.

Lemma ids_del_conn cs c : ids (del_conn cs c) = del_id (ids cs) c.
Proof. induction cs as [|y cs IH]; [reflexivity|]. simpl. destruct (c_id y =? c); simpl; [|rewrite IH]; reflexivity. Qed.

Lemma del_id_in l c x : In x (del_id l c) -> In x l.
Proof. induction l as [|y l IH]; simpl; [tauto|]. destruct (y =? c); simpl; [auto|]. intros [H|H]; auto. Qed.

Lemma del_id_notin l c : NoDup l -> ~ In c (del_id l c).
Proof.
  induction l as [|y l IH]; simpl; [tauto|]. intros N. inversion N; subst. destruct (y =? c) eqn:E.
  - apply N.eqb_eq in E. subst. assumption.
  - apply N.eqb_neq in E. simpl. intros [H|H]; [congruence | apply IH; assumption].
Qed.

Lemma del_id_other l c x : x <> c -> In x l -> In x (del_id l c).
Proof.
  intros Hn. induction l as [|y l IH]; simpl; [tauto|]. destruct (y =? c) eqn:E.
  - apply N.eqb_eq in E. subst. intros [H|H]; [congruence | exact H].
  - simpl. intros [H|H]; auto.
Qed.
