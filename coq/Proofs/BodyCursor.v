(* Cursor-level lemmas for the body validator model (Wire/Body.v) run on
   canonical encodings: padding, length words, alignment arithmetic, and the
   generated type tables for the fixed-size types. *)
From DV Require Import Lib.Base Gen.Tables Wire.Body Spec.Codec Proofs.CodecBasics.
From Coq Require Import ZArith ZifyBool ZifyN ZifyNat Arith.
Local Open Scope N_scope.
Ltac Zify.zify_post_hook ::= Z.div_mod_to_equations.

Definition curof (pos : N) (d : bytes) : cursor := mkCur pos (nlen d) d.

Lemma take1_cons pos b d : take1 (curof pos (b :: d)) = Some (b, curof (pos + 1) d).
Proof. unfold take1, curof. cbn [cdat cpos crem]. rewrite nlen_cons. repeat f_equal. lia. Qed.

Lemma advance_app pos x d : advance (curof pos (x ++ d)) (nlen x) = curof (pos + nlen x) d.
Proof.
  unfold advance, curof. cbn [cpos crem cdat]. rewrite nlen_app. f_equal; [lia|].
  unfold nlen. rewrite Nat2N.id. rewrite skipn_app, skipn_all, Nat.sub_diag. reflexivity.
Qed.

Lemma pad_loop_zeros : forall n pos d, pad_loop n (curof pos (repeat 0 n ++ d)) = inl (curof (pos + N.of_nat n) d).
Proof.
  induction n as [|n IH]; intros pos d.
  - cbn. rewrite N.add_0_r. reflexivity.
  - cbn [repeat app pad_loop]. rewrite take1_cons. cbn [N.eqb]. rewrite IH. f_equal. f_equal. lia.
Qed.

(* alignment: the C arithmetic and the specification's padding amount agree for 1, 2, 4, 8 *)
Lemma align_up_pad p a : (a = 1 \/ a = 2 \/ a = 4 \/ a = 8) -> align_up p a = p + pad_amount p a.
Proof. intros [-> | [-> | [-> | -> ]]]; unfold align_up, pad_amount; cbn [N.eqb Pos.eqb]; lia. Qed.

Lemma pad_to_zeros pos a d : (a = 1 \/ a = 2 \/ a = 4 \/ a = 8) ->
  pad_to (curof pos (zeros (pad_amount pos a) ++ d)) (align_up pos a) = inl (curof (pos + pad_amount pos a) d).
Proof.
  intros Ha. unfold pad_to. cbn [cpos curof]. rewrite (align_up_pad pos a Ha).
  replace (pos + pad_amount pos a - pos) with (pad_amount pos a) by lia.
  unfold zeros. rewrite pad_loop_zeros. f_equal. f_equal. lia.
Qed.

Lemma pad_amount_aligned p a : (a = 1 \/ a = 2 \/ a = 4 \/ a = 8) -> pad_amount (p + pad_amount p a) a = 0.
Proof. intros [-> | [-> | [-> | -> ]]]; unfold pad_amount; lia. Qed.

(* numbers *)
Lemma bytes_of_4 le v : exists b0 b1 b2 b3, bytes_of le 4 v = [b0; b1; b2; b3] /\ (v < 4294967296 -> unpack32 le (b0, b1, b2, b3) = v).
Proof.
  unfold bytes_of. cbn [le_bytes]. destruct le; cbn [rev app].
  - eexists _, _, _, _. split; [reflexivity|]. intros H. unfold unpack32. lia.
  - eexists _, _, _, _. split; [reflexivity|]. intros H. unfold unpack32. lia.
Qed.

Lemma peek4_bytes pos le v d : v < 4294967296 ->
  exists q, peek4 (curof pos (bytes_of le 4 v ++ d)) = Some q /\ unpack32 le q = v.
Proof.
  intros H. destruct (bytes_of_4 le v) as (b0 & b1 & b2 & b3 & E & U). rewrite E. cbn [app].
  exists (b0, b1, b2, b3). split; [reflexivity | apply U; exact H].
Qed.

(* the generated tables on the fixed-size types *)
Lemma fixed_codes c sz : fixed_size c = Some sz ->
  (c = 121 /\ sz = 1) \/ ((c = 110 \/ c = 113) /\ sz = 2) \/ ((c = 98 \/ c = 105 \/ c = 117 \/ c = 104) /\ sz = 4) \/ ((c = 120 \/ c = 116 \/ c = 100) /\ sz = 8).
Proof.
  unfold fixed_size.
  destruct (c =? 121) eqn:E1; [intros H; inversion H; left; lia|].
  destruct ((c =? 110) || (c =? 113)) eqn:E2; [intros H; inversion H; right; left; lia|].
  destruct ((c =? 98) || (c =? 105) || (c =? 117) || (c =? 104)) eqn:E3; [intros H; inversion H; right; right; left; lia|].
  destruct ((c =? 120) || (c =? 116) || (c =? 100)) eqn:E4; [intros H; inversion H; right; right; right; lia|discriminate].
Qed.

Lemma fixed_tables c sz : fixed_size c = Some sz -> type_fixed c = true /\ type_alignment c = sz /\ (sz = 1 \/ sz = 2 \/ sz = 4 \/ sz = 8).
Proof.
  intros H. apply fixed_codes in H.
  destruct H as [[-> ->] | [[[-> | ->] ->] | [[[-> | [-> | [-> | ->]]] ->] | [[-> | [-> | ->]] ->]]]]; (split; [vm_compute; reflexivity | split; [vm_compute; reflexivity | lia]]).
Qed.

Lemma not_fixed_string c : (c = 115 \/ c = 111 \/ c = 103) -> type_fixed c = false /\ (c =? DBUS_TYPE_BYTE) = false.
Proof. intros [-> | [-> | ->]]; split; vm_compute; reflexivity. Qed.
