(* C18, part 5: becoming a monitor against simply leaving.  From the same state the two steps end in
   states with the same core, every other ordinary connection is delivered the same messages up to the
   order in which the names are released, and from then on (part 4) the two runs cannot be told apart. *)
From Coq Require Import ZifyBool ZifyN ZifyNat Permutation.
From DV Require Import Lib.Base Monitor.Monitor Spec.MonitorSpec Proofs.MonitorBase Proofs.MonitorInv Proofs.MonitorSees
                       Proofs.MonitorErase.
Local Open Scope N_scope.

Lemma name_eqb_sym_local a b : name_eqb a b = name_eqb b a.
Proof. destruct a, b; simpl; auto; apply N.eqb_sym. Qed.

Lemma flat_map_ext_in_local {A B} (f g : A -> list B) l : (forall a, In a l -> f a = g a) -> flat_map f l = flat_map g l.
Proof.
  induction l as [|a l IH]; intros H; simpl; auto. rewrite (H a (or_introl eq_refl)), IH; auto. intros b Hb. apply H. right; auto.
Qed.

Lemma filter_all_true {A} (f : A -> bool) l : (forall a, In a l -> f a = true) -> filter f l = l.
Proof.
  induction l as [|a l IH]; intros H; simpl; auto. rewrite (H a (or_introl eq_refl)), IH; auto. intros b Hb. apply H. right; auto.
Qed.

(* ---------------------------------------------------------------- releasing in any order ends in the same registry *)
Definition named (ns : list name) (n : name) : bool := existsb (name_eqb n) ns.

Lemma unlink_all_filter own c ns :
  unlink_all own c ns = filter (fun p => negb (named ns (fst p) && (snd p =? c))) own.
Proof.
  revert own. induction ns as [|n ns IH]; intros own; simpl.
  - symmetry. apply filter_all_true. intros; reflexivity.
  - rewrite IH. unfold unlink. rewrite filter_filter. apply filter_ext. intros [k o]. simpl.
    rewrite (name_eqb_sym_local k n). destruct (name_eqb n k); destruct (o =? c); destruct (named ns k); reflexivity.
Qed.

Lemma named_rev ns n : named (rev ns) n = named ns n.
Proof.
  unfold named. destruct (existsb (name_eqb n) ns) eqn:E.
  - apply existsb_exists in E. destruct E as (k & H & E). apply existsb_exists. exists k. split; auto. rewrite <- in_rev; auto.
  - destruct (existsb (name_eqb n) (rev ns)) eqn:E2; auto.
    apply existsb_exists in E2. destruct E2 as (k & H & E2). apply in_rev in H.
    assert (existsb (name_eqb n) ns = true) by (apply existsb_exists; exists k; auto). congruence.
Qed.

Lemma unlink_all_rev own c ns : unlink_all own c (rev ns) = unlink_all own c ns.
Proof. rewrite !unlink_all_filter. apply filter_ext. intros p. rewrite named_rev. reflexivity. Qed.

Lemma NoDup_owned own c : NoDup own -> NoDup (owned own c).
Proof.
  intros H. unfold owned. induction own as [|[k o] own IH]; simpl; [constructor|].
  inversion H; subst. destruct (o =? c) eqn:E; simpl; auto.
  apply N.eqb_eq in E. subst o. constructor; auto.
  intros Hin. apply in_map_iff in Hin. destruct Hin as ([k' o'] & E & Hf). simpl in E. subst k'.
  apply filter_In in Hf. destruct Hf as [Hf E]. simpl in E. apply N.eqb_eq in E. subst. auto.
Qed.

(* ---------------------------------------------------------------- what another connection x sees of one release *)
Section View.
Variables (c x : cid).
Hypothesis Hxc : x <> c.

(* two states look alike to x as far as releases by c are concerned *)
Definition vsim (s s' : state) : Prop :=
  (forall r, r <> c -> connected s r = connected s' r) /\
  (forall own own' m, wantsb own false (st_rules s) x None None m = wantsb own' false (st_rules s') x None None m).

Lemma filter_eqb_repeat (l : list cid) : filter (fun r => r =? x) l = repeat x (count_occ N.eq_dec l x).
Proof.
  induction l as [|y l IH]; simpl; auto.
  destruct (N.eq_dec y x) as [->|Hne].
  - rewrite N.eqb_refl. simpl. rewrite IH. reflexivity.
  - assert (E : (y =? x) = false) by (apply N.eqb_neq; auto). rewrite E. exact IH.
Qed.

Lemma noc_item_view s s' n old new : vsim s s' -> view x [noc_item s n old new] = view x [noc_item s' n old new].
Proof.
  intros [_ Hr]. unfold noc_item, fanout. simpl.
  rewrite !view_one. simpl. f_equal. rewrite !filter_eqb_repeat, !count_get_recipients. simpl.
  rewrite (Hr (st_own s) (st_own s')). reflexivity.
Qed.

Lemma from_driver_view s s' r m : vsim s s' -> r <> c -> view x [from_driver s r m] = view x [from_driver s' r m].
Proof.
  intros [Hc _] Hr. unfold from_driver. rewrite !view_one. simpl. rewrite (Hc r Hr). reflexivity.
Qed.

Lemma from_driver_view_c s m : view x [from_driver s c m] = [].
Proof.
  unfold from_driver. rewrite view_one. simpl. destruct (connected s c); simpl; auto.
  assert (E : (c =? x) = false) by (apply N.eqb_neq; auto). rewrite E. reflexivity.
Qed.

Lemma remove_owner_view s s' n :
  vsim s s' -> NoDup (queue (st_own s) n) -> queue (st_own s) n = queue (st_own s') n ->
  view x (snd (remove_owner s c n)) = view x (snd (remove_owner s' c n)).
Proof.
  intros V Hn Hq. unfold remove_owner. rewrite <- Hq.
  destruct (queue (st_own s) n) as [|p rest]; simpl; auto.
  destruct (p =? c) eqn:Ep; simpl; auto. apply N.eqb_eq in Ep. subst p.
  rewrite (view_cons x (from_driver s c (lost_msg c n))), (view_cons x (from_driver s' c (lost_msg c n))), !from_driver_view_c. simpl.
  destruct rest as [|w rest'].
  - apply noc_item_view; auto.
  - rewrite (view_cons x (noc_item s n (Some c) (Some w))), (view_cons x (noc_item s' n (Some c) (Some w))).
    rewrite (noc_item_view s s' n (Some c) (Some w) V). f_equal.
    apply from_driver_view; auto. inversion Hn; subst. intros ->. apply H1. left; reflexivity.
Qed.

Lemma wantsb_driver_own own own' ev rules m : wantsb own ev rules x None None m = wantsb own' ev rules x None None m.
Proof. reflexivity. Qed.

Lemma vsim_set_own s o : vsim s (set_own s o).
Proof. split; auto. Qed.

Lemma queue_unlink_other own n k : k <> n -> queue (unlink own k c) n = queue own n.
Proof.
  intros Hne. unfold queue, unlink. rewrite filter_filter. f_equal. apply filter_ext. intros [a b]. simpl.
  destruct (name_eqb a n) eqn:E; [|rewrite andb_false_r; reflexivity].
  apply name_eqb_eq in E. subst a. assert (E2 : name_eqb n k = false) by (apply name_eqb_neq; auto). rewrite E2. reflexivity.
Qed.

Lemma NoDup_queue own n : NoDup own -> NoDup (queue own n).
Proof.
  intros H. unfold queue. induction own as [|[k o] own IH]; simpl; [constructor|].
  inversion H; subst. destruct (name_eqb k n) eqn:E; simpl; auto.
  apply name_eqb_eq in E. subst k. constructor; auto.
  intros Hin. apply in_map_iff in Hin. destruct Hin as ([k' o'] & E & Hf). simpl in E. subst o'.
  apply filter_In in Hf. destruct Hf as [Hf E]. simpl in E. apply name_eqb_eq in E. subst. auto.
Qed.

(* releasing a list of distinct names: x sees the per-name pieces, each as it would be seen at the start *)
Lemma release_all_views ns : forall s,
  NoDup ns -> NoDup (st_own s) ->
  view x (snd (release_all s c ns)) = flat_map (fun n => view x (snd (remove_owner s c n))) ns.
Proof.
  induction ns as [|n ns IH]; intros s Hn Ho; simpl; auto.
  destruct (remove_owner s c n) as [s1 i1] eqn:E1. destruct (release_all s1 c ns) as [s2 i2] eqn:E2. simpl.
  rewrite view_app. f_equal.
  pose proof (remove_owner_state s c n) as Hs. rewrite E1 in Hs. simpl in Hs.
  inversion Hn; subst.
  assert (Ho1 : NoDup (st_own (set_own s (unlink (st_own s) n c)))) by (simpl; apply NoDup_unlink; auto).
  pose proof (IH _ H2 Ho1) as H. rewrite E2 in H. simpl in H. rewrite H.
  apply flat_map_ext_in_local. intros k Hk.
  symmetry. apply remove_owner_view.
  - apply vsim_set_own.
  - apply NoDup_queue; auto.
  - simpl. symmetry. apply queue_unlink_other. intros ->. auto.
Qed.

End View.

(* ---------------------------------------------------------------- the switch step against the disconnect step *)
Lemma wantsb_drop_rules own ev rules c x from addr m :
  x <> c -> wantsb own ev (drop_rules rules c) x from addr m = wantsb own ev rules x from addr m.
Proof.
  intros Hne. unfold wantsb, drop_rules. induction rules as [|[o f] rules IH]; simpl; auto.
  destruct (o =? c) eqn:E; simpl.
  - rewrite IH. apply N.eqb_eq in E. subst o. assert (E2 : (c =? x) = false) by (apply N.eqb_neq; auto). rewrite E2. reflexivity.
  - rewrite IH. reflexivity.
Qed.

Theorem switch_vs_leave st c s rs fs :
  Inv st -> ordinary st c -> s <> 0 -> memN c (st_unpriv st) = false -> parse_all rs = Some fs ->
  core (fst (step st (EBecomeMonitor c s true 0 rs))) = core (fst (step st (EDisconnect c))) /\
  forall x, x <> c -> is_monitor st x = false ->
    Permutation (view x (snd (step st (EBecomeMonitor c s true 0 rs)))) (view x (snd (step st (EDisconnect c)))).
Proof.
  intros I [Hc Hm] Hs Hu Hpa.
  unfold step. simpl. rewrite Hc. apply N.eqb_neq in Hs. rewrite Hs. simpl. rewrite Hm.
  unfold to_driver. simpl. unfold become_monitor_call. rewrite Hu, Hpa. simpl. unfold become_monitor, disconnect. rewrite Hm.
  set (fs' := match fs with [] => [empty_filter] | _ => fs end).
  set (sa1 := upd st (st_conns st) (st_next st) (st_own st) (st_rules st)
                      (st_mrules st ++ map (fun f => (c, f)) fs') (st_mons st) (st_pend st)).
  set (sb1 := upd st (filter (fun y => negb (y =? c)) (st_conns st)) (st_next st) (st_own st)
                      (drop_rules (st_rules st) c) (st_mrules st) (st_mons st) (st_pend st)).
  change (st_own sa1) with (st_own st). change (st_own sb1) with (st_own st).
  set (ns := owned (st_own st) c).
  pose proof (release_all_state sa1 c ns) as Ha. pose proof (release_all_state sb1 c (rev ns)) as Hb.
  pose proof (NoDup_owned (st_own st) c (own_nodup _ I)) as Hns.
  assert (Va : forall x, x <> c -> view x (snd (release_all sa1 c ns)) = flat_map (fun n => view x (snd (remove_owner sa1 c n))) ns).
  { intros x Hx. apply release_all_views; auto. apply (own_nodup _ I). }
  assert (Vb : forall x, x <> c -> view x (snd (release_all sb1 c (rev ns))) = flat_map (fun n => view x (snd (remove_owner sb1 c n))) (rev ns)).
  { intros x Hx. apply release_all_views; auto. apply NoDup_rev; auto. apply (own_nodup _ I). }
  destruct (release_all sa1 c ns) as [sa2 rel] eqn:Ea. destruct (release_all sb1 c (rev ns)) as [sb2 rel'] eqn:Eb.
  simpl in Ha, Hb, Va, Vb.
  set (sa3 := upd sa2 (st_conns sa2) (st_next sa2) (st_own sa2) (drop_rules (st_rules sa2) c) (st_mrules sa2) (st_mons sa2 ++ [c]) (st_pend sa2)).
  unfold noreply_items. simpl. split.
  - (* the cores *)
    subst sa3 sa2 sb2. unfold core. simpl. unfold ns. rewrite unlink_all_rev. f_equal.
    unfold is_monitor. simpl. rewrite filter_filter. apply filter_ext. intros y. rewrite memN_app. simpl.
    rewrite orb_false_r, negb_orb. apply andb_comm.
  - (* what x sees *)
    intros x Hx Hxm.
    rewrite (view_cons x (entry_item st c _)), view_one. simpl.
    rewrite (view_cons x (from_driver st c _)), (from_driver_view_c c x Hx). simpl.
    rewrite !view_app. apply Permutation_app.
    + rewrite (Va x Hx), (Vb x Hx).
      assert (E : forall n, In n ns -> view x (snd (remove_owner sa1 c n)) = view x (snd (remove_owner sb1 c n))).
      { intros n _. apply remove_owner_view; auto.
        - split.
          + intros r Hr. unfold connected. simpl. rewrite memN_filter_neq.
            assert (E : (r =? c) = false) by (apply N.eqb_neq; auto). rewrite E. simpl. rewrite andb_true_r. reflexivity.
          + intros own own' m. simpl. rewrite wantsb_drop_rules; auto.
        - apply NoDup_queue. apply (own_nodup _ I). }
      rewrite (flat_map_ext_in_local _ _ _ E).
      apply Permutation_flat_map. apply Permutation_rev.
    + (* the NoReply errors are the same messages to the same callers *)
      subst sa3 sa2 sb2. simpl.
      assert (E : map erase (map (fun p => from_driver
                     (set_pend (upd st (st_conns st) (st_next st) (unlink_all (st_own st) c ns) (drop_rules (st_rules st) c)
                                        (st_mrules st ++ map (fun f => (c, f)) fs') (st_mons st ++ [c]) (st_pend st))
                               (drop_pending (st_pend st) c)) (p_get p) (error_msg (p_get p) (p_serial p) E_NO_REPLY))
                     (orphaned (st_pend st) c)) =
                  map erase (map (fun p => from_driver
                     (set_pend (set_own sb1 (unlink_all (st_own st) c (rev ns))) (drop_pending (st_pend st) c))
                     (p_get p) (error_msg (p_get p) (p_serial p) E_NO_REPLY)) (orphaned (st_pend st) c))).
      { rewrite !map_map. apply map_ext_in. intros p Hp. unfold orphaned in Hp. apply filter_In in Hp. destruct Hp as [_ Hf].
        apply andb_true_iff in Hf. destruct Hf as [Hf _]. apply negb_true_iff in Hf.
        unfold from_driver, erase, mk_item, connected. simpl. rewrite memN_filter_neq, Hf. simpl. rewrite andb_true_r. reflexivity. }
      rewrite (view_of_erase x _ _ E). apply Permutation_refl.
Qed.

(* ---------------------------------------------------------------- and from then on *)
Lemma ordinary_core st st' c : core st = core st' -> ordinary st c -> ordinary st' c.
Proof.
  intros E [Hc Hm]. assert (H : connected (core st) c = true) by (rewrite connected_core, Hc, Hm; reflexivity).
  rewrite E, connected_core in H. apply andb_true_iff in H. destruct H as [H1 H2]. apply negb_true_iff in H2. split; auto.
Qed.

Lemma step_core_eq sa sb e :
  Inv sa -> Inv sb -> core sa = core sb ->
  core (fst (step sa e)) = core (fst (step sb e)) /\
  forall c, ordinary sa c -> view c (snd (step sa e)) = view c (snd (step sb e)).
Proof.
  intros Ia Ib E. destruct (step_erase sa e Ia) as [A1 A2]. destruct (step_erase sb e Ib) as [B1 B2]. split.
  - rewrite <- A1, <- B1, E. reflexivity.
  - intros c Hc. destruct (ordinary_core sa sb c E Hc) as [_ Hmb]. destruct Hc as [_ Hma].
    rewrite <- (A2 c Hma), <- (B2 c Hmb), E. reflexivity.
Qed.

Lemma calm_event_core sa sb e : core sa = core sb -> calm_event sa e = calm_event sb e.
Proof.
  intros E. assert (H : st_held sa = st_held sb) by (change (st_held (core sa) = st_held (core sb)); rewrite E; reflexivity).
  destruct e; simpl; auto. unfold has_held. rewrite H. reflexivity.
Qed.

Lemma run_core_eq h : forall sa sb,
  Inv sa -> Inv sb -> core sa = core sb -> calm sa h = true ->
  calm sb h = true /\ core (fst (run sa h)) = core (fst (run sb h)).
Proof.
  induction h as [|e h IH]; intros sa sb Ia Ib E Hc; simpl; auto.
  simpl in Hc. apply andb_true_iff in Hc. destruct Hc as [Hc1 Hc2].
  assert (Hc1b : calm_event sb e = true) by (rewrite <- (calm_event_core sa sb e E); exact Hc1).
  destruct (step_core_eq sa sb e Ia Ib E) as [E1 _].
  pose proof (Inv_step sa e Ia Hc1) as Ia1. pose proof (Inv_step sb e Ib Hc1b) as Ib1.
  rewrite Hc1b. simpl.
  destruct (step sa e) as [sa1 ia]. destruct (step sb e) as [sb1 ib]. simpl in *.
  destruct (IH sa1 sb1 Ia1 Ib1 E1 Hc2) as [K1 K2]. split; auto.
  destruct (run sa1 h). destruct (run sb1 h). exact K2.
Qed.

Lemma state_after_snoc h1 e h2 : state_after (h1 ++ e :: h2) = fst (run (fst (step (state_after h1) e)) h2).
Proof.
  unfold state_after. rewrite run_app. destruct (run init h1) as [s1 t1]. simpl.
  destruct (step s1 e) as [s2 i]. simpl. destruct (run s2 h2). reflexivity.
Qed.

Lemma calm_app st h1 h2 : calm st (h1 ++ h2) = calm st h1 && calm (fst (run st h1)) h2.
Proof.
  revert st. induction h1 as [|e h1 IH]; intros st; simpl; auto.
  rewrite IH, andb_assoc. destruct (step st e) as [s1 i1]. simpl. destruct (run s1 h1). reflexivity.
Qed.

(* an accepted switch had a privileged caller, the right signature, no flags and rules that all parse *)
Lemma switch_accepted st c s so fl rs :
  ordinary st c -> s <> 0 -> is_monitor (fst (step st (EBecomeMonitor c s so fl rs))) c = true ->
  memN c (st_unpriv st) = false /\ so = true /\ fl = 0 /\ exists fs, parse_all rs = Some fs.
Proof.
  intros Ho Hs Hm.
  destruct (memN c (st_unpriv st)) eqn:Eu.
  { rewrite (switch_refused st c s so fl rs Ho Hs (or_introl Eu)) in Hm. simpl in Hm. destruct Ho; congruence. }
  destruct so.
  2:{ rewrite (switch_refused st c s false fl rs Ho Hs (or_intror (or_introl eq_refl))) in Hm. simpl in Hm. destruct Ho; congruence. }
  destruct (N.eq_dec fl 0) as [->|Hf].
  2:{ rewrite (switch_refused st c s true fl rs Ho Hs (or_intror (or_intror (or_introl Hf)))) in Hm. simpl in Hm. destruct Ho; congruence. }
  destruct (parse_all rs) as [fs|] eqn:Ep.
  - repeat split; auto. exists fs; reflexivity.
  - apply parse_all_None in Ep.
    rewrite (switch_refused st c s true 0 rs Ho Hs (or_intror (or_intror (or_intror Ep)))) in Hm. simpl in Hm. destruct Ho; congruence.
Qed.

Theorem transparent : C18_transparent_statement.
Proof.
  intros h1 x s so fl rs Hg Ho Hs bm Hacc.
  assert (R1 : creachable (state_after h1)) by (exists h1; split; auto).
  pose proof (Inv_creachable _ R1) as I1.
  destruct (switch_accepted _ x s so fl rs Ho Hs Hacc) as (Hu & -> & -> & fs & Hp).
  destruct (switch_vs_leave (state_after h1) x s rs fs I1 Ho Hs Hu Hp) as [Ec Hv]. split.
  - intros c Hc Hm. apply Hv; auto.
  - intros h2 e c Hg2 sa sb Hoc. subst sa sb bm. rewrite !state_after_snoc in *.
    rewrite calm_app in Hg2. apply andb_true_iff in Hg2. destruct Hg2 as [_ Hg2]. simpl in Hg2.
    apply andb_true_iff in Hg2. destruct Hg2 as [Hce Hg2]. fold (state_after h1) in Hce, Hg2.
    set (a1 := fst (step (state_after h1) (EBecomeMonitor x s true 0 rs))) in *.
    set (b1 := fst (step (state_after h1) (EDisconnect x))) in *.
    assert (Ia1 : Inv a1) by (apply Inv_step; auto). assert (Ib1 : Inv b1) by (apply Inv_step; auto).
    destruct (run_core_eq h2 a1 b1 Ia1 Ib1 Ec Hg2) as [Hgb E2].
    pose proof (Inv_run a1 h2 Ia1 Hg2) as Ia2. pose proof (Inv_run b1 h2 Ib1 Hgb) as Ib2.
    split; [apply (ordinary_core _ _ c E2 Hoc)|].
    destruct (step_core_eq _ _ e Ia2 Ib2 E2) as [_ H]. apply H; auto.
Qed.

(* ---------------------------------------------------------------- the accepted switch, exactly *)
Lemma unlink_all_owned_filter own c : unlink_all own c (owned own c) = filter (fun p => negb (snd p =? c)) own.
Proof.
  rewrite unlink_all_filter. apply filter_ext_in. intros [k o] Hin. simpl.
  destruct (o =? c) eqn:E; simpl; [|rewrite andb_false_r; reflexivity].
  apply N.eqb_eq in E. subst o. rewrite andb_true_r.
  assert (H : named (owned own c) k = true).
  { unfold named. apply existsb_exists. exists k. split; [apply owned_In; auto | apply name_eqb_refl]. }
  rewrite H. reflexivity.
Qed.

Theorem switch_exact st c s rs fs :
  ordinary st c -> s <> 0 -> memN c (st_unpriv st) = false -> parse_all rs = Some fs ->
  fst (step st (EBecomeMonitor c s true 0 rs)) =
  mkState (st_conns st) (st_next st) (filter (fun p => negb (snd p =? c)) (st_own st)) (drop_rules (st_rules st) c)
          (st_mrules st ++ map (fun f => (c, f)) (match fs with [] => [empty_filter] | _ => fs end)) (st_mons st ++ [c])
          (drop_pending (st_pend st) c) (st_unpriv st) (st_held st).
Proof.
  intros [Hc Hm] Hs Hu Hpa.
  unfold step. simpl. rewrite Hc. apply N.eqb_neq in Hs. rewrite Hs. simpl. rewrite Hm.
  unfold to_driver. simpl. unfold become_monitor_call. rewrite Hu, Hpa. simpl. unfold become_monitor.
  set (fs' := match fs with [] => [empty_filter] | _ => fs end).
  set (sa1 := upd st (st_conns st) (st_next st) (st_own st) (st_rules st)
                      (st_mrules st ++ map (fun f => (c, f)) fs') (st_mons st) (st_pend st)).
  pose proof (release_all_state sa1 c (owned (st_own sa1) c)) as Ha.
  destruct (release_all sa1 c (owned (st_own sa1) c)) as [sa2 rel]. simpl in Ha. subst sa2.
  unfold noreply_items. simpl. rewrite unlink_all_owned_filter. reflexivity.
Qed.

(* what every other connection is delivered during the switch: for each name of c, in the order c got them, what a
   ReleaseName of that name would deliver (NameOwnerChanged to those who match it, NameAcquired to the next in the
   queue), then NoReply to everybody who was waiting for an answer from c *)
Theorem switch_signals st c s rs fs x :
  Inv st -> ordinary st c -> s <> 0 -> memN c (st_unpriv st) = false -> parse_all rs = Some fs -> x <> c ->
  view x (snd (step st (EBecomeMonitor c s true 0 rs))) =
  flat_map (fun n => view x (snd (remove_owner st c n))) (owned (st_own st) c) ++ view x (snd (noreply_items st c)).
Proof.
  intros I [Hc Hm] Hs Hu Hpa Hx.
  unfold step. simpl. rewrite Hc. apply N.eqb_neq in Hs. rewrite Hs. simpl. rewrite Hm.
  unfold to_driver. simpl. unfold become_monitor_call. rewrite Hu, Hpa. simpl. unfold become_monitor.
  set (fs' := match fs with [] => [empty_filter] | _ => fs end).
  set (sa1 := upd st (st_conns st) (st_next st) (st_own st) (st_rules st)
                      (st_mrules st ++ map (fun f => (c, f)) fs') (st_mons st) (st_pend st)).
  change (st_own sa1) with (st_own st).
  pose proof (release_all_state sa1 c (owned (st_own st) c)) as Ha.
  pose proof (NoDup_owned (st_own st) c (own_nodup _ I)) as Hns.
  assert (Va : view x (snd (release_all sa1 c (owned (st_own st) c))) =
               flat_map (fun n => view x (snd (remove_owner sa1 c n))) (owned (st_own st) c)).
  { apply release_all_views; auto. apply (own_nodup _ I). }
  destruct (release_all sa1 c (owned (st_own st) c)) as [sa2 rel]. simpl in Ha, Va. subst sa2.
  unfold noreply_items. simpl.
  rewrite (view_cons x (entry_item st c _)), view_one. simpl.
  rewrite (view_cons x (from_driver st c _)), (from_driver_view_c c x Hx). simpl.
  rewrite view_app, Va. f_equal.
  - apply flat_map_ext_in_local. intros n _. apply remove_owner_view; auto.
    + split; auto.
    + apply NoDup_queue. apply (own_nodup _ I).
  - apply view_of_erase. rewrite !map_map. apply map_ext_in. intros p _. reflexivity.
Qed.
