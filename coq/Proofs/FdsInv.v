(* C15 proofs, part 2: what do_reading, dispatch and the main loop do to a connection and to the
   ledger; the invariant of the bus state and its preservation by every event. *)
From Coq Require Import Permutation.
From DV Require Import Lib.Base Gen.Tables Fds.Fds Proofs.FdsBase.
Require Import ZifyBool ZifyN ZifyNat.
Local Open Scope N_scope.

Definition tag (c : N) (F : list fd) : list (N * fd) := map (fun f => (c, f)) F.

(* ---------------------------------------------------------------- recv_fds *)
Lemma recv_fds_spec cf now c may sfds led :
  0 < fd_timeout cf -> conn_ok c -> timer_ok cf now c -> bounded cf c ->
  let '(c1, led1, trunc) := recv_fds cf now c may sfds led in
  same_conn c c1 /\ conn_ok c1 /\ timer_ok cf now c1 /\ bounded cf c1 /\ c_loaded c1 = c_loaded c /\ c_cur c1 = c_cur c /\
  (forall H, bal led (c_pend c ++ H) -> bal led1 (c_pend c1 ++ H)) /\
  (exists k, g_recv led1 = g_recv led ++ tag (c_id c) (firstn k sfds) /\ (firstn k sfds <> [] -> c_neg c = true)) /\
  (exists Y, g_closed led1 = g_closed led ++ Y) /\ g_deliv led1 = g_deliv led.
Proof.
  intros Hpos Hok Ht Hb. unfold recv_fds.
  destruct sfds as [|f0 sf].
  { splits; auto using same_conn_refl.
    - exists 0%nat. simpl. rewrite app_nil_r. split; [auto | simpl; congruence].
    - exists []. rewrite app_nil_r. reflexivity. }
  set (sfds := f0 :: sf).
  destruct (c_neg c && may) eqn:En.
  - apply andb_true_iff in En. destruct En as [Hneg _].
    destruct (nlen sfds <=? room cf c) eqn:Er.
    + (* accepted *)
      apply N.leb_le in Er. unfold room in Er.
      splits; simpl; auto.
      * unfold same_conn; simpl; auto.
      * destruct Hok as [Ha Hc]. split; simpl; auto. rewrite Ha, app_assoc. reflexivity.
      * unfold timer_ok in *; simpl. unfold arm.
        destruct (c_pend c) eqn:Ep; simpl.
        -- destruct (c_since c); [contradiction|]. lia.
        -- exact Ht.
      * unfold bounded in *; simpl. rewrite nlen_app.
        assert (nlen sfds > 0) by (unfold nlen, sfds; simpl; lia). lia.
      * intros H B. apply (bal_recv _ (c_id c) sfds) in B.
        eapply bal_perm; [exact B|].
        rewrite <- !app_assoc. apply Permutation_app_head. apply Permutation_app_comm.
      * exists (length sfds). rewrite firstn_all. split; auto.
      * exists []. rewrite app_nil_r. reflexivity.
    + (* truncated *)
      set (k := N.to_nat (room cf c)).
      splits; auto using same_conn_refl.
      * intros H B. apply bal_kdrop. apply bal_close.
        apply (bal_recv _ (c_id c) (firstn k sfds)) in B.
        eapply bal_perm; [exact B|]. apply Permutation_app_comm.
      * exists k. simpl. split; auto.
      * simpl. eexists. reflexivity.
  - splits; auto using same_conn_refl.
    + exists 0%nat. simpl. rewrite app_nil_r. split; [auto | simpl; congruence].
    + exists []. simpl. rewrite app_nil_r. reflexivity.
Qed.

(* ---------------------------------------------------------------- do_reading *)
Definition counts_ok (L : list (wmsg * list fd)) : Prop := forall d F, In (d, F) L -> nlen F = w_nfds d.

Lemma do_reading_spec cf now fuel : 0 < fd_timeout cf -> forall c sock sfds led acc total,
  conn_ok c -> timer_ok cf now c -> bounded cf c ->
  let '(c', acc', led', rs) := do_reading fuel cf now c sock sfds led acc total in
  same_conn c c' /\ conn_ok c' /\ timer_ok cf now c' /\ bounded cf c' /\
  (exists L, acc' = acc ++ L /\ loaded_ext c c' L /\ counts_ok L) /\
  (forall H, bal led (c_pend c ++ concat (map snd acc) ++ H) -> bal led' (c_pend c' ++ concat (map snd acc') ++ H)) /\
  (exists k, g_recv led' = g_recv led ++ tag (c_id c) (firstn k sfds) /\ (firstn k sfds <> [] -> c_neg c = true)) /\
  (exists Y, g_closed led' = g_closed led ++ Y) /\ g_deliv led' = g_deliv led.
Proof.
  intros Hpos. induction fuel as [|fuel IH]; intros c sock sfds led acc total Hok Ht Hb.
  - simpl. splits; auto using same_conn_refl.
    + exists []. rewrite app_nil_r. splits; auto. unfold loaded_ext. rewrite app_nil_r; auto. intros ? ? [].
    + exists 0%nat. simpl. rewrite app_nil_r. split; [auto | simpl; congruence].
    + exists []. rewrite app_nil_r. reflexivity.
  - simpl.
    assert (Hnop : same_conn c c /\ conn_ok c /\ timer_ok cf now c /\ bounded cf c /\
      (exists L, acc = acc ++ L /\ loaded_ext c c L /\ counts_ok L) /\
      (forall H, bal led (c_pend c ++ concat (map snd acc) ++ H) -> bal led (c_pend c ++ concat (map snd acc) ++ H)) /\
      (exists k, g_recv led = g_recv led ++ tag (c_id c) (firstn k sfds) /\ (firstn k sfds <> [] -> c_neg c = true)) /\
      (exists Y, g_closed led = g_closed led ++ Y) /\ g_deliv led = g_deliv led).
    { splits; auto using same_conn_refl.
      + exists []. rewrite app_nil_r. splits; auto. unfold loaded_ext. rewrite app_nil_r; auto. intros ? ? [].
      + exists 0%nat. simpl. rewrite app_nil_r. split; [auto | simpl; congruence].
      + exists []. rewrite app_nil_r. reflexivity. }
    destruct (read_cap cf <? total); [exact Hnop|].
    destruct (get_buffer c) as [max_to_read may].
    destruct (take_bytes (N.min max_to_read (read_cap cf)) sock) as [taken rest].
    destruct taken as [|p0 tk]; [exact Hnop|].
    pose proof (recv_fds_spec cf now c may sfds led Hpos Hok Ht Hb) as R.
    destruct (recv_fds cf now c may sfds led) as [[c1 led1] trunc].
    destruct R as (S1 & O1 & T1 & B1 & L1 & _ & Bal1 & Rv1 & Cl1 & Dv1).
    destruct trunc.
    { splits; auto.
      exists []. rewrite app_nil_r. splits; auto. unfold loaded_ext. rewrite L1, app_nil_r; auto. intros ? ? []. }
    pose proof (feed_parts_spec cf now (p0 :: tk) c1 O1 T1 B1) as Fp.
    destruct (feed_parts c1 (p0 :: tk)) as [[c2 ld] s].
    destruct Fp as (S2 & P2 & O2 & T2 & B2 & L2 & C2).
    assert (S12 : same_conn c c2) by (eapply same_conn_trans; eauto).
    assert (Hext : exists L, acc ++ ld = acc ++ L /\ loaded_ext c c2 L /\ counts_ok L).
    { exists ld. splits; auto. unfold loaded_ext in *. rewrite L2, L1. reflexivity. }
    assert (Hbal : forall H, bal led (c_pend c ++ concat (map snd acc) ++ H) ->
                             bal led1 (c_pend c2 ++ concat (map snd (acc ++ ld)) ++ H)).
    { intros H B. apply Bal1 in B. eapply bal_perm; [exact B|].
      rewrite P2, map_app, concat_app. apply perm4. }
    destruct s.
    + (* SOk: again *)
      specialize (IH c2 rest [] led1 (acc ++ ld) (total + bytes_of (p0 :: tk)) O2 T2 B2).
      destruct (do_reading fuel cf now c2 rest [] led1 (acc ++ ld) (total + bytes_of (p0 :: tk))) as [[[c3 acc3] led3] rs].
      destruct IH as (S3 & O3 & T3 & B3 & (L3 & E3 & X3 & C3) & Bal3 & (k3 & Rv3 & _) & (Y3 & Cl3) & Dv3).
      splits.
      * eapply same_conn_trans; eauto.
      * exact O3.
      * exact T3.
      * exact B3.
      * exists (ld ++ L3). splits.
        -- rewrite E3, app_assoc. reflexivity.
        -- unfold loaded_ext in *. rewrite X3, L2, L1, app_assoc. reflexivity.
        -- intros d F Hin. apply in_app_or in Hin. destruct Hin; [eapply C2 | eapply C3]; eauto.
      * intros H B. apply Bal3. apply Hbal. exact B.
      * destruct Rv1 as (k & Rv1 & Hn). exists k. split; [|exact Hn].
        rewrite Rv3, Rv1. rewrite firstn_nil. unfold tag. simpl. rewrite app_nil_r. reflexivity.
      * destruct Cl1 as (Y1 & Cl1). exists (Y1 ++ Y3). rewrite Cl3, Cl1, app_assoc. reflexivity.
      * congruence.
    + splits; auto.
    + splits; auto.
Qed.

(* ---------------------------------------------------------------- dispatch *)
(* what a delivery record may look like: a message of L from s, and a recipient of cs that negotiated
   descriptor passing whenever descriptors are attached *)
Definition deliv_ok (cs : list conn) (s : N) (L : list (wmsg * list fd)) (e : N * (N * (wmsg * list fd))) : Prop :=
  let '(r, (s', (d, F))) := e in
  s' = s /\ In (d, F) L /\ (F <> [] -> exists y, In y cs /\ c_id y = r /\ c_neg y = true).

Lemma has_fds_nonempty F : F <> [] -> has_fds F = true.
Proof. destruct F; simpl; congruence. Qed.

Lemma dispatch_spec cf cs s gone d F led :
  let '(o, led') := dispatch cf cs s gone d F led in
  (forall H, bal led (F ++ H) -> bal led' H) /\
  g_recv led' = g_recv led /\
  (exists Y, g_closed led' = g_closed led ++ Y) /\
  (exists D, g_deliv led' = g_deliv led ++ D /\ forall e, In e D -> deliv_ok cs s [(d, F)] e).
Proof.
  unfold dispatch.
  assert (Hsimple : forall w,
    (forall H, bal led (F ++ H) -> bal (led_close led F w) H) /\
    g_recv (led_close led F w) = g_recv led /\
    (exists Y, g_closed (led_close led F w) = g_closed led ++ Y) /\
    (exists D, g_deliv (led_close led F w) = g_deliv led ++ D /\ forall e, In e D -> deliv_ok cs s [(d, F)] e)).
  { intros w. splits; auto.
    - intros H B. apply bal_close. exact B.
    - simpl. eexists; reflexivity.
    - exists []. simpl. rewrite app_nil_r. split; auto. intros ? []. }
  destruct (w_dest d) as [|r| |]; try apply Hsimple.
  - destruct (find_conn cs r) as [rc|] eqn:Ef; [|apply Hsimple].
    destruct (has_fds F && negb (c_neg rc)) eqn:Eh; [apply Hsimple|].
    destruct (policy_denies cf d F); [apply Hsimple|].
    destruct (reachable s gone r); [|apply Hsimple].
    splits; auto.
    + intros H B. apply bal_close. apply bal_deliv. exact B.
    + simpl. eexists; reflexivity.
    + exists [(r, (s, (d, F)))]. simpl. split; auto.
      intros e [<-|[]]. simpl. splits; auto.
      intros Hne. apply has_fds_nonempty in Hne. rewrite Hne in Eh. simpl in Eh.
      apply negb_false_iff in Eh. apply find_conn_in in Ef. destruct Ef. exists rc. auto.
  - set (rc := filter (wants cf s gone d F) cs).
    destruct (deliver_all_fields led rc s d F) as (A & B & C & D).
    splits.
    + intros H Bl. apply bal_close. apply bal_deliver_all. exact Bl.
    + simpl. exact A.
    + simpl. rewrite B. eexists; reflexivity.
    + exists (map (fun x => (c_id x, (s, (d, F)))) rc). simpl. split; [exact D|].
      intros e Hin. apply in_map_iff in Hin. destruct Hin as (x & <- & Hx).
      unfold rc in Hx. apply filter_In in Hx. destruct Hx as [Hx Hw]. simpl. splits; auto.
      intros Hne. apply has_fds_nonempty in Hne. unfold wants in Hw. rewrite Hne in Hw. simpl in Hw.
      exists x. splits; auto.
      destruct (c_neg x); auto. rewrite !andb_false_r in Hw. simpl in Hw. discriminate.
Qed.

Lemma deliv_ok_weaken cs s L L' e : (forall x, In x L -> In x L') -> deliv_ok cs s L e -> deliv_ok cs s L' e.
Proof. destruct e as [r [s' [d F]]]. simpl. intros Hi (A & B & C). auto. Qed.

Lemma dispatch_all_spec cf cs s gone q : forall led,
  let '(o, led') := dispatch_all cf cs s gone q led in
  (forall H, bal led (concat (map snd q) ++ H) -> bal led' H) /\
  g_recv led' = g_recv led /\
  (exists Y, g_closed led' = g_closed led ++ Y) /\
  (exists D, g_deliv led' = g_deliv led ++ D /\ forall e, In e D -> deliv_ok cs s q e).
Proof.
  induction q as [|[d F] q IH]; intros led; simpl.
  - splits; auto.
    + exists []. rewrite app_nil_r; auto.
    + exists []. rewrite app_nil_r. split; auto. intros ? [].
  - pose proof (dispatch_spec cf cs s gone d F led) as P1.
    destruct (dispatch cf cs s gone d F led) as [o1 led1].
    destruct P1 as (B1 & R1 & (Y1 & C1) & (D1 & E1 & K1)).
    specialize (IH led1). destruct (dispatch_all cf cs s gone q led1) as [o2 led2].
    destruct IH as (B2 & R2 & (Y2 & C2) & (D2 & E2 & K2)).
    splits.
    + intros H B. apply B2. apply B1. rewrite app_assoc. exact B.
    + congruence.
    + exists (Y1 ++ Y2). rewrite C2, C1, app_assoc. reflexivity.
    + exists (D1 ++ D2). split; [rewrite E2, E1, app_assoc; reflexivity|].
      intros e Hin. apply in_app_or in Hin. destruct Hin as [Hin|Hin].
      * eapply deliv_ok_weaken; [|apply K1; exact Hin]. intros x [<-|[]]. left; auto.
      * eapply deliv_ok_weaken; [|apply K2; exact Hin]. intros x Hx. right; auto.
Qed.

(* ---------------------------------------------------------------- the main loop for one write *)
Lemma pump_spec cf now cs fuel : 0 < fd_timeout cf -> forall c sock sfds led o,
  conn_ok c -> timer_ok cf now c -> bounded cf c ->
  let '(c', led', o', rs) := pump fuel cf now cs c sock sfds led o in
  same_conn c c' /\ conn_ok c' /\ timer_ok cf now c' /\ bounded cf c' /\
  (exists L, loaded_ext c c' L) /\
  (forall H, bal led (c_pend c ++ H) -> bal led' (c_pend c' ++ H)) /\
  (exists k, g_recv led' = g_recv led ++ tag (c_id c) (firstn k sfds) /\ (firstn k sfds <> [] -> c_neg c = true)) /\
  (exists Y, g_closed led' = g_closed led ++ Y) /\
  (exists D, g_deliv led' = g_deliv led ++ D /\ forall e, In e D -> deliv_ok cs (c_id c) (c_loaded c') e).
Proof.
  intros Hpos. induction fuel as [|fuel IH]; intros c sock sfds led o Hok Ht Hb.
  - simpl. splits; auto using same_conn_refl.
    + exists []. unfold loaded_ext. rewrite app_nil_r; auto.
    + exists 0%nat. simpl. rewrite app_nil_r. split; [auto | simpl; congruence].
    + exists []. rewrite app_nil_r; auto.
    + exists []. rewrite app_nil_r. split; auto. intros ? [].
  - cbn [pump].
    pose proof (do_reading_spec cf now (S fuel) Hpos c sock sfds led [] 0 Hok Ht Hb) as R.
    destruct (do_reading (S fuel) cf now c sock sfds led [] 0) as [[[c1 q] led1] rs].
    destruct R as (S1 & O1 & T1 & B1 & (L1 & E1 & X1 & C1) & Bal1 & Rv1 & (Y1 & Cl1) & Dv1).
    simpl in E1. subst q.
    pose proof (dispatch_all_spec cf cs (c_id c) (sender_gone rs) L1 led1) as Dp.
    destruct (dispatch_all cf cs (c_id c) (sender_gone rs) L1 led1) as [o1 led2].
    destruct Dp as (Bal2 & Rv2 & (Y2 & Cl2) & (D2 & Dv2 & K2)).
    assert (Hbal : forall H, bal led (c_pend c ++ H) -> bal led2 (c_pend c1 ++ H)).
    { intros H B. apply Bal2. specialize (Bal1 H). simpl in Bal1. apply Bal1 in B.
      eapply bal_perm; [exact B|]. rewrite !app_assoc. apply Permutation_app_tail. apply Permutation_app_comm. }
    assert (Hfin : same_conn c c1 /\ conn_ok c1 /\ timer_ok cf now c1 /\ bounded cf c1 /\
      (exists L, loaded_ext c c1 L) /\
      (forall H, bal led (c_pend c ++ H) -> bal led2 (c_pend c1 ++ H)) /\
      (exists k, g_recv led2 = g_recv led ++ tag (c_id c) (firstn k sfds) /\ (firstn k sfds <> [] -> c_neg c = true)) /\
      (exists Y, g_closed led2 = g_closed led ++ Y) /\
      (exists D, g_deliv led2 = g_deliv led ++ D /\ forall e, In e D -> deliv_ok cs (c_id c) (c_loaded c1) e)).
    { splits; auto.
      - exists L1; auto.
      - rewrite Rv2. exact Rv1.
      - exists (Y1 ++ Y2). rewrite Cl2, Cl1, app_assoc. reflexivity.
      - exists D2. split; [congruence|]. intros e Hin. eapply deliv_ok_weaken; [|apply K2; exact Hin].
        intros x Hx. unfold loaded_ext in X1. rewrite X1. apply in_or_app. right; auto. }
    destruct rs as [|rest| | | |]; try exact Hfin.
    specialize (IH c1 rest [] led2 (o ++ o1) O1 T1 B1).
    destruct (pump fuel cf now cs c1 rest [] led2 (o ++ o1)) as [[[c3 led3] o3] rs3].
    destruct IH as (S3 & O3 & T3 & B3 & (L3 & X3) & Bal3 & (k3 & Rv3 & _) & (Y3 & Cl3) & (D3 & Dv3 & K3)).
    assert (Hid : c_id c1 = c_id c) by apply S1.
    splits.
    + eapply same_conn_trans; eauto.
    + exact O3.
    + exact T3.
    + exact B3.
    + exists (L1 ++ L3). unfold loaded_ext in *. rewrite X3, X1, app_assoc. reflexivity.
    + intros H B. apply Bal3. apply Hbal. exact B.
    + destruct Rv1 as (k & Rv1 & Hn). exists k. split; [|exact Hn].
      rewrite Rv3, Rv2, Rv1, firstn_nil. unfold tag; simpl. rewrite app_nil_r. reflexivity.
    + exists (Y1 ++ Y2 ++ Y3). rewrite Cl3, Cl2, Cl1, !app_assoc. reflexivity.
    + exists (D2 ++ D3). split; [rewrite Dv3, Dv2, Dv1, app_assoc; reflexivity|].
      intros e Hin. apply in_app_or in Hin. destruct Hin as [Hin|Hin].
      * eapply deliv_ok_weaken; [|apply K2; exact Hin].
        intros x Hx. unfold loaded_ext in *. rewrite X3, X1. apply in_or_app. left. apply in_or_app. right; auto.
      * rewrite <- Hid. apply K3. exact Hin.
Qed.
