(* C20 proofs, part 2: the trie model refines the flat registration map.
   Abstraction: node_at (plain linear descent by name), amap (registration
   found at a path), wf (children sorted by strcmp at every node; every
   non-root node has a handler or children). *)
From DV Require Import Lib.Base ObjTree.ObjTree Spec.ObjtreeSpec Proofs.ObjtreeOrder.
From Coq Require Import Sorted Arith.
Local Open Scope nat_scope.

Definition bytes_eq_dec : forall a b : bytes, {a = b} + {a <> b} := list_eq_dec N.eq_dec.
Definition path_eq_dec : forall a b : path, {a = b} + {a <> b} := list_eq_dec bytes_eq_dec.

(* ---- abstraction ------------------------------------------------------------- *)
Definition child_of (key : bytes) (kids : list node) : option node :=
  find (fun c => bytes_eqb (nname c) key) kids.

Fixpoint node_at (n : node) (p : path) : option node :=
  match p with
  | [] => Some n
  | e :: r => match child_of e (nkids n) with Some c => node_at c r | None => None end
  end.

Definition reg_of (n : node) : option registration :=
  match nhandler n with Some h => Some (h, nfallback n) | None => None end.

Definition amap (n : node) (p : path) : option registration :=
  match node_at n p with Some c => reg_of c | None => None end.

Definition keepable (n : node) : Prop := nhandler n <> None \/ nkids n <> [].

Inductive wf : node -> Prop :=
| wf_node nm h fb kids : sorted kids -> Forall wf kids -> Forall keepable kids -> wf (Node nm h fb kids).

Lemma wf_inv n : wf n -> sorted (nkids n) /\ Forall wf (nkids n) /\ Forall keepable (nkids n).
Proof. intros H; inversion H; subst; simpl; auto. Qed.

Lemma wf_intro n : sorted (nkids n) -> Forall wf (nkids n) -> Forall keepable (nkids n) -> wf n.
Proof. destruct n; simpl; intros; constructor; auto. Qed.

(* ---- child_of on split arrays -------------------------------------------------- *)
Lemma child_of_cons k c l : child_of k (c :: l) = if bytes_eqb (nname c) k then Some c else child_of k l.
Proof. reflexivity. Qed.

Lemma child_of_nil k : child_of k [] = None.
Proof. reflexivity. Qed.
Arguments child_of : simpl never.

Lemma child_of_app k l1 l2 :
  child_of k (l1 ++ l2) = match child_of k l1 with Some c => Some c | None => child_of k l2 end.
Proof.
  induction l1 as [|a l1 IH]; simpl; [reflexivity|].
  rewrite !child_of_cons. destruct (bytes_eqb (nname a) k); auto.
Qed.

Lemma child_of_none k l : Forall (fun x => nname x <> k) l -> child_of k l = None.
Proof.
  induction 1 as [|a l Ha _ IH]; auto. rewrite child_of_cons.
  destruct (bytes_eqb (nname a) k) eqn:E; auto. apply bytes_eqb_eq in E; contradiction.
Qed.

Lemma child_of_some k l c : child_of k l = Some c -> nname c = k /\ In c l.
Proof.
  unfold child_of. intros H. apply find_some in H. destruct H as [H1 H2]. apply bytes_eqb_eq in H2; auto.
Qed.

Lemma child_of_skip k l1 c l2 : nname c <> k -> child_of k (l1 ++ c :: l2) = child_of k (l1 ++ l2).
Proof.
  intros H. rewrite !child_of_app, child_of_cons.
  destruct (bytes_eqb (nname c) k) eqn:E; auto. apply bytes_eqb_eq in E; contradiction.
Qed.

Lemma child_of_hit l1 c l2 : Forall (fun x => nname x <> nname c) l1 -> child_of (nname c) (l1 ++ c :: l2) = Some c.
Proof.
  intros H. rewrite child_of_app, (child_of_none _ _ H), child_of_cons, bytes_eqb_refl. reflexivity.
Qed.

Lemma child_of_absent k l1 l2 :
  Forall (fun x => nname x <> k) l1 -> Forall (fun x => nname x <> k) l2 -> child_of k (l1 ++ l2) = None.
Proof. intros H1 H2. rewrite child_of_app, (child_of_none _ _ H1). apply child_of_none; auto. Qed.

Lemma sorted_mid l1 c l2 :
  sorted (l1 ++ c :: l2) ->
  Forall (fun x => nname x <> nname c) l1 /\ Forall (fun x => nname x <> nname c) l2.
Proof.
  intros H. apply sorted_app in H. destruct H as (_ & S2 & S3).
  apply sorted_cons_inv in S2. destruct S2 as [_ F]. split.
  - apply Forall_forall. intros x Hx. apply blt_neq. apply (S3 x c); simpl; auto.
  - rewrite Forall_forall in *. intros x Hx. intros E. apply (blt_neq _ _ (F x Hx)). auto.
Qed.

Lemma sorted_replace l1 c c' l2 : nname c' = nname c -> sorted (l1 ++ c :: l2) -> sorted (l1 ++ c' :: l2).
Proof.
  intros E H. apply sorted_app in H. destruct H as (S1 & S2 & S3). apply sorted_app.
  apply sorted_cons_inv in S2. destruct S2 as [S2 F]. repeat split; auto.
  - constructor; auto. unfold nlt in *. rewrite E. exact F.
  - intros a b Ha [<-|Hb].
    + unfold nlt. rewrite E. apply (S3 a c); simpl; auto.
    + apply S3; simpl; auto.
Qed.

Lemma sorted_insert l1 c' l2 :
  sorted (l1 ++ l2) -> Forall (fun x => blt (nname x) (nname c')) l1 -> Forall (fun x => blt (nname c') (nname x)) l2 ->
  sorted (l1 ++ c' :: l2).
Proof.
  intros H F1 F2. apply sorted_app in H. destruct H as (S1 & S2 & S3). apply sorted_app. repeat split; auto.
  - constructor; auto.
  - intros a b Ha [<-|Hb].
    + rewrite Forall_forall in F1. apply F1; auto.
    + apply S3; auto.
Qed.

Lemma sorted_remove l1 c l2 : sorted (l1 ++ c :: l2) -> sorted (l1 ++ l2).
Proof.
  intros H. apply sorted_app in H. destruct H as (S1 & S2 & S3). apply sorted_app.
  apply sorted_cons_inv in S2. destruct S2 as [S2 F]. repeat split; auto. intros; apply S3; simpl; auto.
Qed.

(* ---- amap ------------------------------------------------------------------------ *)
Lemma amap_nil n : amap n [] = reg_of n.
Proof. reflexivity. Qed.

Lemma amap_cons n e r : amap n (e :: r) = match child_of e (nkids n) with Some c => amap c r | None => None end.
Proof. unfold amap; simpl. destruct (child_of e (nkids n)); reflexivity. Qed.

Lemma amap_leaf n p : nhandler n = None -> nkids n = [] -> amap n p = None.
Proof.
  intros H K. destruct p as [|e r].
  - rewrite amap_nil. unfold reg_of. rewrite H. reflexivity.
  - rewrite amap_cons, K. reflexivity.
Qed.

Lemma Forall_mid {A} (P : A -> Prop) l1 c l2 : Forall P (l1 ++ c :: l2) -> Forall P l1 /\ P c /\ Forall P l2.
Proof. intros H. apply Forall_app in H. destruct H as [H1 H2]. inversion H2; auto. Qed.

Lemma Forall_mid_intro {A} (P : A -> Prop) l1 c l2 : Forall P l1 -> P c -> Forall P l2 -> Forall P (l1 ++ c :: l2).
Proof. intros. apply Forall_app; split; auto. Qed.

Ltac splits := repeat match goal with |- _ /\ _ => split end.

(* ---- register -------------------------------------------------------------------- *)
Lemma register_rec_ok : forall p n fb h, wf n ->
  exists n' ok, register_rec n p fb h = Ok (n', ok) /\ nname n' = nname n /\ wf n' /\
    (ok = true -> keepable n') /\
    (ok = false -> n' = n /\ amap n p <> None) /\
    (ok = true -> amap n p = None /\ amap n' p = Some (h, fb) /\ forall q, q <> p -> amap n' q = amap n q) /\
    (p <> [] -> nfallback n' = nfallback n /\ nhandler n' = nhandler n).
Proof.
  induction p as [|e r IH]; intros n fb h W.
  - destruct n as [nm hd fl kids]. simpl. destruct hd as [h0|].
    + exists (Node nm (Some h0) fl kids), false. splits; auto; try discriminate; try congruence.
      intros _. split; [reflexivity|]. cbv. discriminate.
    + exists (Node nm (Some h) fb kids), true. inversion W; subst.
      splits; auto; try discriminate; try congruence.
      * constructor; auto.
      * intros _. left; simpl; discriminate.
      * intros _. splits; try reflexivity.
        intros q Hq. destruct q as [|e' r']; [congruence|]. rewrite !amap_cons. reflexivity.
  - destruct n as [nm hd fl kids]. pose proof (wf_inv _ W) as (Hs & Hw & Hk). simpl in Hs, Hw, Hk.
    simpl. pose proof (find_child_spec e kids Hs) as CS.
    inversion CS as [l1 c l2 Ekids Ename Efc | l1 l2 Ekids F1 F2 Efc]; subst kids.
    + (* found *)
      destruct (Forall_mid _ _ _ _ Hw) as (Hw1 & Hwc & Hw2).
      destruct (Forall_mid _ _ _ _ Hk) as (Hk1 & Hkc & Hk2).
      destruct (IH c fb h Hwc) as (c' & ok & Er & En & Wc' & Kc' & Fail & Succ & _).
      rewrite Er, replace_at_split.
      destruct (sorted_mid _ _ _ Hs) as [D1 D2].
      assert (D1' : Forall (fun x => nname x <> nname c') l1) by (rewrite En; exact D1).
      exists (Node nm hd fl (l1 ++ c' :: l2)), ok.
      assert (Hc : child_of e (l1 ++ c :: l2) = Some c) by (rewrite <- Ename; apply child_of_hit; auto).
      assert (Hc' : child_of e (l1 ++ c' :: l2) = Some c') by (rewrite <- Ename, <- En; apply child_of_hit; auto).
      split; [reflexivity|]. split; [reflexivity|]. split.
      { constructor.
        - eapply sorted_replace; eauto.
        - apply Forall_mid_intro; auto.
        - apply Forall_mid_intro; auto. destruct ok; [auto|]. destruct Fail as [-> _]; auto. }
      split. { intros _. right. simpl. destruct l1; discriminate. }
      split.
      { intros ->. destruct Fail as [-> Hne]; auto. split; auto. rewrite amap_cons. simpl. rewrite Hc. exact Hne. }
      split.
      { intros ->. destruct Succ as (S1 & S2 & S3); auto. rewrite !amap_cons. simpl. rewrite Hc, Hc'.
        splits; auto.
        intros q Hq. destruct q as [|e' r']; [reflexivity|]. rewrite !amap_cons. simpl.
        destruct (bytes_eq_dec e' e) as [->|Hne].
        - rewrite Hc, Hc'. apply S3. congruence.
        - rewrite !(child_of_skip e') by congruence. reflexivity. }
      intros _. split; reflexivity.
    + (* missing: create the child *)
      assert (W0 : wf (node_new e)) by (constructor; constructor).
      destruct (IH (node_new e) fb h W0) as (c' & ok & Er & En & Wc' & Kc' & Fail & Succ & _).
      rewrite Er, insert_at_split. simpl in En.
      destruct ok.
      2:{ destruct Fail as [_ Hne]; auto. exfalso. apply Hne. apply amap_leaf; reflexivity. }
      destruct Succ as (S1 & S2 & S3); auto.
      assert (N1 : Forall (fun x => nname x <> e) l1).
      { eapply Forall_impl; [|exact F1]. intros a Ha. apply blt_neq. exact Ha. }
      assert (N2 : Forall (fun x => nname x <> e) l2).
      { eapply Forall_impl; [|exact F2]. intros a Ha E. apply (blt_neq _ _ Ha). auto. }
      assert (Hc : child_of e (l1 ++ l2) = None) by (apply child_of_absent; auto).
      assert (Hc' : child_of e (l1 ++ c' :: l2) = Some c').
      { rewrite <- En. apply child_of_hit. rewrite En. exact N1. }
      apply Forall_app in Hw. destruct Hw as [Hw1 Hw2]. apply Forall_app in Hk. destruct Hk as [Hk1 Hk2].
      exists (Node nm hd fl (l1 ++ c' :: l2)), true.
      split; [reflexivity|]. split; [reflexivity|]. split.
      { constructor.
        - apply sorted_insert; auto; rewrite En; auto.
        - apply Forall_mid_intro; auto.
        - apply Forall_mid_intro; auto. }
      split. { intros _. right. simpl. destruct l1; discriminate. }
      split. { discriminate. }
      split.
      { intros _. rewrite !amap_cons. simpl. rewrite Hc, Hc'. splits; auto.
        intros q Hq. destruct q as [|e' r']; [reflexivity|]. rewrite !amap_cons. simpl.
        destruct (bytes_eq_dec e' e) as [->|Hne].
        - rewrite Hc, Hc'. rewrite S3 by congruence. apply amap_leaf; reflexivity.
        - rewrite (child_of_skip e') by congruence. reflexivity. }
      intros _. split; reflexivity.
Qed.

(* ---- unregister ------------------------------------------------------------------ *)
Lemma amap_replace nm hd fl l1 c c' l2 r :
  sorted (l1 ++ c :: l2) -> nname c' = nname c ->
  (forall q, q <> r -> amap c' q = amap c q) ->
  forall q, q <> nname c :: r ->
  amap (Node nm hd fl (l1 ++ c' :: l2)) q = amap (Node nm hd fl (l1 ++ c :: l2)) q.
Proof.
  intros Hs En H q Hq. destruct (sorted_mid _ _ _ Hs) as [D1 D2].
  destruct q as [|e' r']; [reflexivity|]. rewrite !amap_cons. simpl.
  destruct (bytes_eq_dec e' (nname c)) as [->|Hne].
  - rewrite child_of_hit by auto. rewrite <- En at 1. rewrite child_of_hit by (rewrite En; auto).
    apply H. congruence.
  - rewrite !(child_of_skip e') by congruence. reflexivity.
Qed.

Lemma amap_at_child nm hd fl l1 c l2 r :
  Forall (fun x => nname x <> nname c) l1 ->
  amap (Node nm hd fl (l1 ++ c :: l2)) (nname c :: r) = amap c r.
Proof. intros D. rewrite amap_cons. simpl. rewrite child_of_hit by auto. reflexivity. Qed.

Lemma unregister_rec_ok : forall p n, wf n ->
  exists n' freed cont', unregister_rec n p true = Ok (n', freed, cont') /\ nname n' = nname n /\
    (freed = false -> n' = n /\ cont' = true /\ amap n p = None) /\
    (freed = true -> amap n p <> None /\ wf n' /\ (cont' = false -> keepable n') /\ amap n' p = None /\
                     forall q, q <> p -> amap n' q = amap n q) /\
    (p <> [] -> nfallback n' = nfallback n /\ nhandler n' = nhandler n).
Proof.
  induction p as [|e r IH]; intros n W.
  - destruct n as [nm hd fl kids]. simpl. destruct hd as [h0|].
    + exists (Node nm None fl kids), true, true. splits; auto; try discriminate; try congruence.
      intros _. splits.
      * cbv. discriminate.
      * inversion W; subst. constructor; auto.
      * discriminate.
      * reflexivity.
      * intros q Hq. destruct q as [|e' r']; [congruence|]. rewrite !amap_cons. reflexivity.
    + exists (Node nm None fl kids), false, true. splits; auto; try discriminate; try congruence.
  - destruct n as [nm hd fl kids]. pose proof (wf_inv _ W) as (Hs & Hw & Hk). simpl in Hs, Hw, Hk.
    simpl. pose proof (find_child_spec e kids Hs) as CS.
    inversion CS as [l1 c l2 Ekids Ename Efc | l1 l2 Ekids F1 F2 Efc]; subst kids.
    + destruct (Forall_mid _ _ _ _ Hw) as (Hw1 & Hwc & Hw2).
      destruct (Forall_mid _ _ _ _ Hk) as (Hk1 & Hkc & Hk2).
      destruct (IH c Hwc) as (c' & freed & cont' & Er & En & Keep & Freed & _).
      rewrite Er, replace_at_split.
      destruct (sorted_mid _ _ _ Hs) as [D1 D2]. subst e.
      assert (D1' : Forall (fun x => nname x <> nname c') l1) by (rewrite En; exact D1).
      destruct freed.
      * destruct Freed as (Hreg & Wc' & Kc' & Hnone & Hother); auto.
        assert (Hrep : forall q, q <> nname c :: r ->
                  amap (Node nm hd fl (l1 ++ c' :: l2)) q = amap (Node nm hd fl (l1 ++ c :: l2)) q)
          by (apply amap_replace; auto).
        assert (Hp : amap (Node nm hd fl (l1 ++ c :: l2)) (nname c :: r) <> None)
          by (rewrite amap_at_child; auto).
        assert (Hp' : amap (Node nm hd fl (l1 ++ c' :: l2)) (nname c :: r) = None)
          by (rewrite <- En, amap_at_child; auto).
        assert (Wkeep : keepable c' -> wf (Node nm hd fl (l1 ++ c' :: l2))).
        { intros Kc. constructor; [eapply sorted_replace; eauto | apply Forall_mid_intro; auto | apply Forall_mid_intro; auto]. }
        assert (Kn : forall c'', keepable (Node nm hd fl (l1 ++ c'' :: l2))) by (intros; right; simpl; destruct l1; discriminate).
        destruct cont'; simpl.
        -- unfold attempt_child_removal. rewrite nth_error_middle.
           destruct (nkids c') as [|k0 ks] eqn:Ekids'; [destruct (nhandler c') as [h1|] eqn:Eh'|].
           ++ exists (Node nm hd fl (l1 ++ c' :: l2)), true, false.
              splits; auto; try discriminate. intros _. splits; auto.
              apply Wkeep. left. congruence.
           ++ rewrite remove_at_split.
              exists (Node nm hd fl (l1 ++ l2)), true, true.
              splits; auto; try discriminate. intros _. splits; auto; try discriminate.
              ** constructor; [eapply sorted_remove; eauto | apply Forall_app; auto | apply Forall_app; auto].
              ** rewrite amap_cons. simpl. rewrite child_of_absent; auto.
              ** intros q Hq. rewrite <- Hrep by auto.
                 destruct q as [|e' r']; [reflexivity|]. rewrite !amap_cons. simpl.
                 destruct (bytes_eq_dec e' (nname c)) as [->|Hne].
                 --- rewrite child_of_absent by auto. rewrite <- En at 1. rewrite child_of_hit by auto.
                     symmetry. apply amap_leaf; auto.
                 --- rewrite (child_of_skip e') by congruence. reflexivity.
           ++ exists (Node nm hd fl (l1 ++ c' :: l2)), true, false.
              splits; auto; try discriminate. intros _. splits; auto.
              apply Wkeep. right. congruence.
        -- exists (Node nm hd fl (l1 ++ c' :: l2)), true, false.
           splits; auto; try discriminate; intros _; splits; auto.
      * destruct Keep as (-> & -> & Hnone); auto. simpl.
        exists (Node nm hd fl (l1 ++ c :: l2)), false, true.
        splits; auto; try discriminate. intros _. splits; auto. rewrite amap_at_child; auto.
    + exists (Node nm hd fl (l1 ++ l2)), false, true.
      splits; auto; try discriminate. intros _. splits; auto.
      rewrite amap_cons. simpl. rewrite child_of_absent; auto.
      * eapply Forall_impl; [|exact F1]. intros a Ha. apply blt_neq. exact Ha.
      * eapply Forall_impl; [|exact F2]. intros a Ha E. apply (blt_neq _ _ Ha). auto.
Qed.

(* ---- the searches on a well-formed tree --------------------------------------------- *)
Lemma find_child_child_of key kids : sorted kids ->
  (exists k c, find_child key kids = BsFound k c /\ child_of key kids = Some c /\ In c kids) \/
  (exists i, find_child key kids = BsMissing i /\ child_of key kids = None).
Proof.
  intros Hs. pose proof (find_child_spec key kids Hs) as CS.
  inversion CS as [l1 c l2 Ekids Ename Efc | l1 l2 Ekids F1 F2 Efc]; subst kids.
  - left. exists (length l1), c. destruct (sorted_mid _ _ _ Hs) as [D1 D2]. splits; auto.
    + rewrite <- Ename. apply child_of_hit; auto.
    + apply in_or_app; right; left; reflexivity.
  - right. exists (length l1). split; auto. apply child_of_absent.
    + eapply Forall_impl; [|exact F1]. intros a Ha. apply blt_neq. exact Ha.
    + eapply Forall_impl; [|exact F2]. intros a Ha E. apply (blt_neq _ _ Ha). auto.
Qed.

Lemma wf_child n c : wf n -> In c (nkids n) -> wf c /\ keepable c.
Proof.
  intros W Hin. destruct (wf_inv _ W) as (_ & Hw & Hk). rewrite Forall_forall in Hw, Hk. auto.
Qed.

Lemma lookup_subtree_ok : forall p n, wf n -> lookup_subtree n p = Ok (node_at n p).
Proof.
  induction p as [|e r IH]; intros n W; simpl; auto.
  destruct (wf_inv _ W) as (Hs & _).
  destruct (find_child_child_of e (nkids n) Hs) as [(k & c & -> & -> & Hin) | (i & -> & ->)]; auto.
  apply IH. apply (wf_child n c); auto.
Qed.

(* what the handler-list construction yields, by plain descent *)
Definition own_fb (n : node) : list N :=
  match nhandler n with Some h => if nfallback n then [h] else [] | None => [] end.

Fixpoint offered_at (n : node) (p : path) : list N :=
  match p with
  | [] => match nhandler n with Some h => [h] | None => [] end
  | e :: r => match child_of e (nkids n) with Some c => offered_at c r | None => [] end ++ own_fb n
  end.

Fixpoint found_at (n : node) (p : path) : bool :=
  match p with
  | [] => true
  | e :: r => match child_of e (nkids n) with Some c => found_at c r | None => false end || nfallback n
  end.

Lemma collect_cons_false n up : collect (n :: up) false = own_fb n ++ collect up false.
Proof. unfold own_fb. simpl. destruct (nhandler n); auto. destruct (nfallback n); auto. Qed.

Lemma find_deepest_ok : forall p n up, wf n ->
  exists chain ex, find_deepest n up p = Ok (chain, ex) /\
    (match chain with Some _ => true | None => false end) = found_at n p /\
    match chain with
    | Some ch => collect ch ex = offered_at n p ++ collect up false
    | None => offered_at n p = []
    end.
Proof.
  induction p as [|e r IH]; intros n up W.
  - simpl. exists (Some (n :: up)), true. splits; auto. simpl. destruct (nhandler n); reflexivity.
  - simpl. destruct (wf_inv _ W) as (Hs & _).
    destruct (find_child_child_of e (nkids n) Hs) as [(k & c & -> & -> & Hin) | (i & -> & ->)].
    + destruct (IH c (n :: up) (proj1 (wf_child n c W Hin))) as (chain & ex & -> & Hf & Hc).
      destruct chain as [ch|].
      * exists (Some ch), ex. splits; auto.
        -- rewrite <- Hf. reflexivity.
        -- rewrite Hc, collect_cons_false, app_assoc. reflexivity.
      * rewrite <- Hf, Hc. simpl. destruct (nfallback n) eqn:Efb.
        -- exists (Some (n :: up)), false. splits; auto. rewrite collect_cons_false. reflexivity.
        -- exists None, ex. splits; auto. unfold own_fb. rewrite Efb. destruct (nhandler n); reflexivity.
    + simpl. destruct (nfallback n) eqn:Efb.
      * exists (Some (n :: up)), false. splits; auto. rewrite collect_cons_false. reflexivity.
      * exists None, false. splits; auto. unfold own_fb. rewrite Efb. destruct (nhandler n); reflexivity.
Qed.

Lemma handlers_for_ok t p : wf t -> handlers_for t p = Ok (offered_at t p, found_at t p).
Proof.
  intros W. unfold handlers_for. destruct (find_deepest_ok p t [] W) as (chain & ex & -> & Hf & Hc).
  destruct chain as [ch|]; rewrite <- Hf.
  - rewrite Hc. simpl. rewrite app_nil_r. reflexivity.
  - rewrite Hc. reflexivity.
Qed.

(* ---- offered handlers in terms of the registration map -------------------------------- *)
Definition exact_m (m : path -> option registration) (p : path) : list N :=
  match m p with Some (h, _) => [h] | None => [] end.
Definition fallback_m (m : path -> option registration) (q : path) : list N :=
  match m q with Some (h, true) => [h] | _ => [] end.
Definition offered_m (m : path -> option registration) (p : path) : list N :=
  exact_m m p ++ flat_map (fallback_m m) (proper_prefixes p).

Lemma s_offered_is s p : s_offered s p = offered_m (s_lookup s) p.
Proof. reflexivity. Qed.

Lemma proper_prefixes_cons e r : proper_prefixes (e :: r) = map (cons e) (proper_prefixes r) ++ [[]].
Proof.
  unfold proper_prefixes. simpl. rewrite <- seq_shift, map_map. simpl.
  rewrite <- !map_rev, map_map. reflexivity.
Qed.

Lemma flat_map_map {A B C} (f : B -> list C) (g : A -> B) l : flat_map f (map g l) = flat_map (fun x => f (g x)) l.
Proof. induction l; simpl; congruence. Qed.

Lemma offered_m_cons m e r :
  offered_m m (e :: r) = offered_m (fun q => m (e :: q)) r ++ fallback_m m [].
Proof.
  unfold offered_m. rewrite proper_prefixes_cons, flat_map_app, flat_map_map. simpl.
  rewrite app_nil_r, app_assoc. reflexivity.
Qed.

Lemma offered_m_ext m1 m2 p : (forall q, m1 q = m2 q) -> offered_m m1 p = offered_m m2 p.
Proof.
  intros H. unfold offered_m, exact_m. rewrite H. f_equal.
  apply flat_map_ext. intros q. unfold fallback_m. rewrite H. reflexivity.
Qed.

Lemma offered_m_none p : offered_m (fun _ => None) p = [].
Proof.
  unfold offered_m, exact_m. simpl. induction (proper_prefixes p); simpl; auto.
Qed.

Lemma offered_at_amap : forall p n, offered_at n p = offered_m (amap n) p.
Proof.
  induction p as [|e r IH]; intros n.
  - unfold offered_m, exact_m. simpl. rewrite amap_nil. unfold reg_of. destruct (nhandler n); reflexivity.
  - rewrite offered_m_cons. simpl. f_equal.
    + destruct (child_of e (nkids n)) as [c|] eqn:Ec.
      * rewrite IH. apply offered_m_ext. intros q. rewrite amap_cons, Ec. reflexivity.
      * rewrite <- (offered_m_none r). apply offered_m_ext. intros q. rewrite amap_cons, Ec. reflexivity.
    + unfold fallback_m, own_fb. rewrite amap_nil. unfold reg_of. destruct (nhandler n); auto.
Qed.

(* ---- found_object ------------------------------------------------------------------------ *)
Lemma node_at_app : forall p q n, node_at n (p ++ q) = match node_at n p with Some c => node_at c q | None => None end.
Proof.
  induction p as [|e r IH]; intros q n; simpl; auto. destruct (child_of e (nkids n)); auto.
Qed.

Lemma found_at_node : forall p n, node_at n p <> None -> found_at n p = true.
Proof.
  induction p as [|e r IH]; intros n H; simpl in *; auto.
  destruct (child_of e (nkids n)); [|congruence]. rewrite IH; auto.
Qed.

Lemma found_at_flag n p : nfallback n = true -> found_at n p = true.
Proof. intros H. destruct p; simpl; auto. rewrite H. apply orb_true_r. Qed.

Lemma found_at_below : forall q1 q2 n c, node_at n q1 = Some c -> nfallback c = true -> found_at n (q1 ++ q2) = true.
Proof.
  induction q1 as [|e r IH]; intros q2 n c H F; simpl in *.
  - inversion H; subst. apply found_at_flag; auto.
  - destruct (child_of e (nkids n)); [|discriminate]. rewrite (IH q2 n0 c); auto.
Qed.

Lemma amap_some_node n p r : amap n p = Some r -> exists c, node_at n p = Some c /\ reg_of c = Some r.
Proof. unfold amap. destruct (node_at n p) as [c|]; [eauto | discriminate]. Qed.

(* ---- node existence = prefix of a registered path ------------------------------------------ *)
Fixpoint node_ind2 (P : node -> Prop)
  (H : forall nm h fb kids, Forall P kids -> P (Node nm h fb kids)) (n : node) : P n :=
  match n with
  | Node nm h fb kids =>
      H nm h fb kids ((fix go (l : list node) : Forall P l :=
                         match l with
                         | [] => Forall_nil P
                         | x :: r => Forall_cons x (node_ind2 P H x) (go r)
                         end) kids)
  end.

Lemma keepable_has_reg : forall c, wf c -> keepable c -> exists q, amap c q <> None.
Proof.
  induction c as [nm h fb kids IH] using node_ind2. intros W K.
  destruct h as [h|].
  - exists []. cbv. discriminate.
  - destruct K as [K|K]; [simpl in K; congruence|]. simpl in K.
    destruct kids as [|k0 ks]; [congruence|].
    inversion IH as [|? ? IH0 _]; subst.
    destruct (wf_child _ k0 W) as [W0 K0]; [left; reflexivity|].
    destruct (IH0 W0 K0) as [q Hq]. exists (nname k0 :: q).
    rewrite amap_cons. simpl. rewrite child_of_cons, bytes_eqb_refl. exact Hq.
Qed.

Lemma wf_node_at : forall p n c, wf n -> node_at n p = Some c -> wf c /\ (p <> [] -> keepable c).
Proof.
  induction p as [|e r IH]; intros n c W H; simpl in H.
  - inversion H; subst. split; auto. congruence.
  - destruct (child_of e (nkids n)) as [c0|] eqn:Ec; [|discriminate].
    apply child_of_some in Ec. destruct Ec as [_ Hin]. destruct (wf_child n c0 W Hin) as [W0 K0].
    destruct (IH c0 c W0 H) as [Wc Kc]. split; auto. intros _.
    destruct r; [simpl in H; inversion H; subst; auto | apply Kc; discriminate].
Qed.

Lemma child_of_in k l : In k (map nname l) <-> child_of k l <> None.
Proof.
  split.
  - intros Hin E. apply in_map_iff in Hin. destruct Hin as (x & Hx & Hin).
    unfold child_of in E. apply (find_none _ _ E) in Hin. rewrite Hx, bytes_eqb_refl in Hin. discriminate.
  - intros H. destruct (child_of k l) as [c|] eqn:E; [|congruence]. apply child_of_some in E.
    destruct E as [<- Hin]. apply in_map; auto.
Qed.

(* the child listing of a well-formed tree, against the registration map *)
Lemma children_spec t p : wf t ->
  exists l, list_registered t p = Ok l /\ StronglySorted blt l /\
    forall e, In e l <-> exists q, amap t (p ++ e :: q) <> None.
Proof.
  intros W. unfold list_registered. rewrite lookup_subtree_ok by auto.
  destruct (node_at t p) as [c|] eqn:Ec.
  - destruct (wf_node_at p t c W Ec) as [Wc _]. exists (map nname (nkids c)). splits; auto.
    + destruct (wf_inv _ Wc) as (Hs & _). clear -Hs. induction Hs as [|a l S IH F]; simpl; constructor; auto.
      rewrite Forall_forall in *. intros x Hx. apply in_map_iff in Hx. destruct Hx as (y & <- & Hy). apply F; auto.
    + intros e. rewrite child_of_in. split.
      * intros H. destruct (child_of e (nkids c)) as [c'|] eqn:Ec'; [|congruence].
        pose proof Ec' as Hin. apply child_of_some in Hin. destruct Hin as [_ Hin].
        destruct (wf_child c c' Wc Hin) as [W' K'].
        destruct (keepable_has_reg c' W' K') as [q Hq]. exists q.
        unfold amap in *. rewrite node_at_app, Ec. simpl. rewrite Ec'. exact Hq.
      * intros [q Hq] E. apply Hq. unfold amap. rewrite node_at_app, Ec. simpl. rewrite E. reflexivity.
  - exists []. splits; auto. { constructor. }
    intros e. split; [intros []|]. intros [q Hq]. apply Hq. unfold amap. rewrite node_at_app, Ec. reflexivity.
Qed.

(* ---- the flat registration map -------------------------------------------------------------- *)
Lemma path_eqb_eq a b : path_eqb a b = true <-> a = b.
Proof.
  revert b; induction a as [|x a IH]; intros [|y b]; simpl; try (split; congruence).
  rewrite andb_true_iff, bytes_eqb_eq, IH. split; [intros [-> ->]; reflexivity | intros H; inversion H; auto].
Qed.

Lemma path_eqb_refl a : path_eqb a a = true.
Proof. apply path_eqb_eq; reflexivity. Qed.

Lemma path_eqb_neq a b : a <> b -> path_eqb a b = false.
Proof. intros H. destruct (path_eqb a b) eqn:E; auto. apply path_eqb_eq in E; contradiction. Qed.

Lemma s_lookup_filter p s q :
  s_lookup (filter (fun e => negb (path_eqb (fst e) p)) s) q = if path_eqb p q then None else s_lookup s q.
Proof.
  induction s as [|[k r] s IH]; simpl.
  - destruct (path_eqb p q); reflexivity.
  - destruct (path_eq_dec k p) as [->|Hkp].
    + rewrite path_eqb_refl. simpl. rewrite IH. destruct (path_eqb p q); reflexivity.
    + rewrite (path_eqb_neq k p) by auto. simpl. rewrite IH.
      destruct (path_eq_dec k q) as [->|Hkq].
      * rewrite path_eqb_refl. rewrite path_eqb_neq by congruence. reflexivity.
      * rewrite (path_eqb_neq k q) by auto. reflexivity.
Qed.

(* ---- refinement, one operation ----------------------------------------------------------------- *)
Definition refines (t : node) (s : sstate) : Prop := wf t /\ forall q, amap t q = s_lookup s q.

Lemma refines_init : refines tree_new [].
Proof.
  split.
  - constructor; constructor.
  - intros q. apply amap_leaf; reflexivity.
Qed.

Lemma step_refines t s o : refines t s ->
  exists t' b, step t o = Ok (t', b) /\ b = snd (s_step s o) /\ refines t' (fst (s_step s o)).
Proof.
  intros [W A]. destruct o as [fb p h | p]; simpl.
  - unfold tree_register.
    destruct (register_rec_ok p t fb h W) as (t' & ok & E & _ & W' & _ & Fail & Succ & _).
    exists t', ok. split; auto. rewrite <- A.
    destruct ok.
    + destruct Succ as (S1 & S2 & S3); auto. rewrite S1. simpl. splits; auto. split; auto.
      intros q. simpl. destruct (path_eq_dec p q) as [<-|Hne].
      * rewrite path_eqb_refl. exact S2.
      * rewrite path_eqb_neq by auto. rewrite S3 by congruence. apply A.
    + destruct Fail as [-> Hne]; auto. destruct (amap t p); [|congruence]. simpl. splits; auto. split; auto.
  - unfold tree_unregister.
    destruct (unregister_rec_ok p t W) as (t' & freed & cont' & E & _ & Keep & Freed & _).
    rewrite E. exists t', freed. split; auto. rewrite <- A.
    destruct freed.
    + destruct Freed as (Hreg & W' & _ & Hnone & Hother); auto.
      destruct (amap t p); [|congruence]. simpl. splits; auto. split; auto.
      intros q. rewrite s_lookup_filter. destruct (path_eq_dec p q) as [<-|Hne].
      * rewrite path_eqb_refl. exact Hnone.
      * rewrite path_eqb_neq by auto. rewrite Hother by congruence. apply A.
    + destruct Keep as (-> & _ & Hnone); auto. rewrite Hnone. simpl. splits; auto. split; auto.
Qed.

Lemma run_from_refines : forall ops t s, refines t s ->
  exists t', run_from t ops = Ok t' /\ refines t' (s_run_from s ops).
Proof.
  induction ops as [|o ops IH]; intros t s R; simpl.
  - eauto.
  - destruct (step_refines t s o R) as (t' & b & -> & _ & R'). apply IH; auto.
Qed.

Lemma run_refines ops : exists t, run ops = Ok t /\ refines t (s_run ops).
Proof. apply run_from_refines. apply refines_init. Qed.

(* ---- invocation loop ------------------------------------------------------------------------------ *)
Lemma invoke_spec accepts : forall hs inv handled,
  invoke hs accepts = (inv, handled) -> s_invocation hs accepts inv handled.
Proof.
  induction hs as [|h hs IH]; intros inv handled H; simpl in H.
  - inversion H; subst. right. splits; auto. intros x [].
  - destruct (accepts h) eqn:Eh.
    + inversion H; subst. left. split; auto. exists [], h, hs. splits; auto. intros x [].
    + destruct (invoke hs accepts) as [l b] eqn:Ei. inversion H; subst.
      destruct (IH l handled eq_refl) as [(Hh & before & h' & after & E1 & E2 & Ha & Hb) | (Hh & E & Hd)].
      * left. split; auto. exists (h :: before), h', after. subst. splits; auto.
        intros x [<-|Hx]; auto.
      * right. subst. splits; auto. intros x [<-|Hx]; auto.
Qed.

Lemma invoke_take_until accepts : forall hs, invoke hs accepts = (take_until accepts hs, existsb accepts hs).
Proof.
  induction hs as [|h hs IH]; simpl; auto. destruct (accepts h); auto. rewrite IH. reflexivity.
Qed.

(* ---- property lemmas over histories ----------------------------------------------------------------- *)
Definition is_handled (o : outcome) : bool := match o with Handled => true | _ => false end.

Lemma tree_dispatch_ok t p accepts : wf t ->
  tree_dispatch t p accepts =
  Ok (fst (invoke (offered_at t p) accepts),
      if snd (invoke (offered_at t p) accepts) then Handled else if found_at t p then UnknownMethod else UnknownObject).
Proof.
  intros W. unfold tree_dispatch. rewrite handlers_for_ok by auto.
  destruct (invoke (offered_at t p) accepts); reflexivity.
Qed.

(* order: exact handler first, then fallbacks of successively shorter ancestors, stop at first taker *)
Lemma order_correct ops p accepts :
  exists t inv out, run ops = Ok t /\ tree_dispatch t p accepts = Ok (inv, out) /\
    s_invocation (s_offered (s_run ops) p) accepts inv (is_handled out).
Proof.
  destruct (run_refines ops) as (t & Er & W & A).
  destruct (invoke (offered_at t p) accepts) as [inv handled] eqn:Ei.
  exists t, inv, (if handled then Handled else if found_at t p then UnknownMethod else UnknownObject).
  splits; auto.
  - rewrite tree_dispatch_ok, Ei by auto. reflexivity.
  - rewrite s_offered_is, <- (offered_m_ext (amap t)) by auto. rewrite <- offered_at_amap.
    apply invoke_spec in Ei. destruct handled; [exact Ei|]. destruct (found_at t p); exact Ei.
Qed.

(* registering an occupied path fails without changing anything *)
Lemma register_occupied_noop ops fb p h :
  s_registered (s_run ops) p ->
  exists t, run ops = Ok t /\ step t (Register fb p h) = Ok (t, false).
Proof.
  intros Hreg. destruct (run_refines ops) as (t & Er & W & A). exists t. split; auto.
  simpl. unfold tree_register.
  destruct (register_rec_ok p t fb h W) as (t' & ok & E & _ & _ & _ & Fail & Succ & _).
  rewrite E. destruct ok.
  - destruct Succ as (S1 & _); auto. exfalso. apply Hreg. rewrite <- A. exact S1.
  - destruct Fail as [-> _]; auto.
Qed.

(* ... and registering a free path succeeds (non-vacuity of the return value) *)
Lemma register_free_ok ops fb p h :
  ~ s_registered (s_run ops) p ->
  exists t t', run ops = Ok t /\ step t (Register fb p h) = Ok (t', true).
Proof.
  intros Hreg. destruct (run_refines ops) as (t & Er & W & A).
  simpl. unfold tree_register.
  destruct (register_rec_ok p t fb h W) as (t' & ok & E & _ & _ & _ & Fail & Succ & _).
  exists t, t'. split; auto. rewrite E. destruct ok; auto.
  destruct Fail as [_ Hne]; auto. exfalso. apply Hreg. unfold s_registered in *.
  rewrite <- A. intros E'. apply Hne. exact E'.
Qed.

(* the child listing reflects exactly the registered tree *)
Lemma children_correct ops p :
  exists t l, run ops = Ok t /\ list_registered t p = Ok l /\ StronglySorted blt l /\
    forall e, In e l <-> s_child (s_run ops) p e.
Proof.
  destruct (run_refines ops) as (t & Er & W & A).
  destruct (children_spec t p W) as (l & El & Hs & Hm).
  exists t, l. splits; auto. intros e. rewrite Hm. unfold s_child, s_registered.
  split; intros [q Hq]; exists q; [rewrite <- A | rewrite A]; exact Hq.
Qed.

(* invariant of the trie for all histories *)
Lemma tree_invariant ops : exists t, run ops = Ok t /\ wf t.
Proof. destruct (run_refines ops) as (t & Er & W & _). eauto. Qed.

(* error choice: never UnknownObject where the property demands UnknownMethod *)
Lemma known_object_found t s p : refines t s -> s_known_object s p -> found_at t p = true.
Proof.
  intros [W A] [[q Hq] | (q1 & q2 & h & -> & Hq)].
  - apply found_at_node. unfold s_registered in Hq. rewrite <- A in Hq. unfold amap in Hq.
    rewrite node_at_app in Hq. destruct (node_at t p); congruence.
  - rewrite <- A in Hq. apply amap_some_node in Hq. destruct Hq as (c & Hc & Hr).
    apply (found_at_below q1 q2 t c); auto. unfold reg_of in Hr. destruct (nhandler c); congruence.
Qed.

Lemma error_method_sound ops p accepts :
  s_known_object (s_run ops) p ->
  exists t inv out, run ops = Ok t /\ tree_dispatch t p accepts = Ok (inv, out) /\ out <> UnknownObject.
Proof.
  intros K. destruct (run_refines ops) as (t & Er & R).
  pose proof (known_object_found t _ p R K) as F. destruct R as [W A].
  destruct (invoke (offered_at t p) accepts) as [inv handled] eqn:Ei.
  exists t, inv, (if handled then Handled else UnknownMethod). splits; auto.
  - rewrite tree_dispatch_ok, Ei, F by auto. reflexivity.
  - destruct handled; discriminate.
Qed.

(* F12: while no non-fallback handler has ever been registered at "/", UnknownObject cannot occur *)
Definition root_exact_registration (o : op) : bool :=
  match o with Register false [] _ => true | _ => false end.

Lemma root_flag_step t o t' b :
  wf t -> step t o = Ok (t', b) -> root_exact_registration o = false -> nfallback t = true -> nfallback t' = true.
Proof.
  intros W E Hr F. destruct o as [fb p h | p]; simpl in E.
  - unfold tree_register in E.
    destruct (register_rec_ok p t fb h W) as (t1 & ok & E1 & _ & _ & _ & _ & _ & Hflag).
    rewrite E1 in E. inversion E; subst. destruct p as [|e r].
    + destruct fb; [|discriminate]. simpl in E1. destruct (nhandler t); inversion E1; subst; auto.
    + destruct Hflag as [-> _]; [discriminate | auto].
  - unfold tree_unregister in E.
    destruct (unregister_rec_ok p t W) as (t1 & freed & cont' & E1 & _ & _ & _ & Hflag).
    rewrite E1 in E. inversion E; subst. destruct p as [|e r].
    + simpl in E1. destruct (nhandler t); inversion E1; subst; auto.
    + destruct Hflag as [-> _]; [discriminate | auto].
Qed.

Lemma root_flag_run : forall ops t s t',
  refines t s -> run_from t ops = Ok t' -> forallb (fun o => negb (root_exact_registration o)) ops = true ->
  nfallback t = true -> nfallback t' = true.
Proof.
  induction ops as [|o ops IH]; intros t s t' R E Hn F; simpl in *.
  - inversion E; subst; auto.
  - apply andb_true_iff in Hn. destruct Hn as [Hn1 Hn2]. apply negb_true_iff in Hn1.
    destruct (step_refines t s o R) as (t1 & b & E1 & _ & R1). rewrite E1 in E.
    apply (IH t1 _ t' R1 E Hn2). eapply root_flag_step; eauto. destruct R; auto.
Qed.

Lemma error_root_fallback ops p accepts :
  forallb (fun o => negb (root_exact_registration o)) ops = true ->
  exists t inv out, run ops = Ok t /\ tree_dispatch t p accepts = Ok (inv, out) /\ out <> UnknownObject.
Proof.
  intros Hn. destruct (run_refines ops) as (t & Er & R).
  assert (F : nfallback t = true) by (eapply (root_flag_run ops tree_new [] t); eauto using refines_init).
  destruct R as [W A].
  destruct (invoke (offered_at t p) accepts) as [inv handled] eqn:Ei.
  exists t, inv, (if handled then Handled else UnknownMethod). splits; auto.
  - rewrite tree_dispatch_ok, Ei, found_at_flag by auto. reflexivity.
  - destruct handled; discriminate.
Qed.

(* every step of every history refines the flat map, return values included *)
Lemma refinement_step ops o :
  exists t t' b, run ops = Ok t /\ step t o = Ok (t', b) /\ b = snd (s_step (s_run ops) o) /\
    forall q, amap t' q = s_lookup (fst (s_step (s_run ops) o)) q.
Proof.
  destruct (run_refines ops) as (t & Er & R).
  destruct (step_refines t _ o R) as (t' & b & Es & Eb & _ & A). exists t, t', b. auto.
Qed.

(* refutation of the literal error clause: nothing registered, call to /nope *)
Definition nope : path := [[110; 111; 112; 101]%N].

Lemma error_refuted :
  ~ (forall ops p accepts,
       exists t invoked out, run ops = Ok t /\ tree_dispatch t p accepts = Ok (invoked, out) /\
         (is_handled out = false -> s_error (s_run ops) p out)).
Proof.
  intros H. destruct (H [] nope (fun _ => false)) as (t & inv & out & Er & Ed & He).
  vm_compute in Er. inversion Er; subst t. vm_compute in Ed. inversion Ed; subst.
  destruct (He eq_refl) as [[K _] | [_ E]]; [|discriminate].
  destruct K as [[q Hq] | (q1 & q2 & h & _ & Hq)].
  - apply Hq. reflexivity.
  - cbv in Hq. discriminate.
Qed.
