(* C04 proofs, driver layer, part 1: decimal rendering, unique-name strings,
   the driver invariant and what it says about strings and keys. *)
From DV Require Import Lib.Base Gen.Tables Wire.Names Registry.RegTypes Registry.Registry Registry.Driver
  Spec.NamesSpec Spec.RegistrySpec Proofs.RegistryBase Proofs.RegistryInv Proofs.RegistryRefine Proofs.RegistryMain.
From Coq Require Import ZifyBool ZifyN ZifyNat.
Local Open Scope N_scope.

(* ---- _dbus_string_append_int ------------------------------------------------------------------ *)
(* reading a digit string back, starting from the value a *)
Definition valacc (a : N) (l : bytes) : N := fold_left (fun a d => 10 * a + (d - 48)) l a.

Lemma dec_fuel_val : forall f n acc, (N.to_nat n < f)%nat -> valacc 0 (dec_fuel f n acc) = valacc n acc.
Proof.
  induction f as [|f IH]; intros n acc Hf; [lia|]. cbn [dec_fuel].
  destruct (n <? 10) eqn:E.
  - apply N.ltb_lt in E. unfold valacc. cbn [fold_left]. rewrite N.mod_small by exact E. f_equal. lia.
  - apply N.ltb_ge in E. rewrite IH.
    + unfold valacc. cbn [fold_left]. f_equal. pose proof (N.div_mod n 10). lia.
    + assert (n / 10 < n) by (apply N.div_lt; lia). lia.
Qed.

Theorem dec_val n : valacc 0 (dec n) = n.
Proof. unfold dec. rewrite dec_fuel_val by lia. reflexivity. Qed.

Theorem dec_inj a b : dec a = dec b -> a = b.
Proof. intros H. rewrite <- (dec_val a), <- (dec_val b), H. reflexivity. Qed.

Theorem ustr_inj a b : ustr a = ustr b -> a = b.
Proof. unfold ustr. intros H. inversion H. apply dec_inj. assumption. Qed.

Lemma ustr_colon m : exists r, ustr m = 58 :: r.
Proof. unfold ustr, COLON. eauto. Qed.

Lemma ustr_not_requestable m : requestable (ustr m) = false.
Proof. destruct (ustr_colon m) as [r ->]. apply colon_not_requestable. Qed.

(* the digits really are digits, and there is at least one *)
Lemma dec_fuel_digits : forall f n acc, Forall (fun c => 48 <= c <= 57) acc -> Forall (fun c => 48 <= c <= 57) (dec_fuel f n acc).
Proof.
  induction f as [|f IH]; intros n acc H; cbn [dec_fuel]; [exact H|].
  assert (Hd : Forall (fun c => 48 <= c <= 57) ((48 + n mod 10) :: acc)).
  { constructor; [|exact H]. pose proof (N.mod_upper_bound n 10). lia. }
  destruct (n <? 10); [exact Hd | apply IH; exact Hd].
Qed.

Lemma dec_fuel_nonempty : forall f n acc, acc <> [] -> dec_fuel f n acc <> [].
Proof.
  induction f as [|f IH]; intros n acc H; cbn [dec_fuel]; [exact H|].
  destruct (n <? 10); [discriminate | apply IH; discriminate].
Qed.

Theorem dec_digits n : Forall (fun c => 48 <= c <= 57) (dec n) /\ dec n <> [].
Proof.
  split; [apply dec_fuel_digits; constructor|].
  unfold dec. cbn [dec_fuel]. destruct (n <? 10); [discriminate | apply dec_fuel_nonempty; discriminate].
Qed.

(* ---- association list of unique names ----------------------------------------------------------------- *)
Lemma assoc_in c m l : assoc c l = Some m -> In (c, m) l.
Proof.
  induction l as [|[c' m'] r IH]; simpl; [discriminate|]. destruct (c' =? c) eqn:E.
  - apply N.eqb_eq in E. intros H. inversion H. subst. auto.
  - auto.
Qed.

Lemma in_assoc c m l : NoDup (map fst l) -> In (c, m) l -> assoc c l = Some m.
Proof.
  induction l as [|[c' m'] r IH]; simpl; [tauto|]. intros ND [H|H].
  - inversion H. subst. rewrite N.eqb_refl. reflexivity.
  - inversion ND as [|? ? Hn ND']. subst. destruct (c' =? c) eqn:E.
    + apply N.eqb_eq in E. subst. exfalso. apply Hn. change c with (fst (c, m)). apply in_map. exact H.
    + auto.
Qed.

Lemma assoc_none c l : assoc c l = None <-> ~ In c (map fst l).
Proof.
  induction l as [|[c' m'] r IH]; simpl; [tauto|]. destruct (c' =? c) eqn:E.
  - apply N.eqb_eq in E. split; [discriminate | intros H; exfalso; apply H; auto].
  - apply N.eqb_neq in E. rewrite IH. tauto.
Qed.

Lemma assoc_app c l l' : assoc c (l ++ l') = match assoc c l with Some m => Some m | None => assoc c l' end.
Proof.
  induction l as [|[c' m'] r IH]; simpl; [reflexivity|]. destruct (c' =? c); [reflexivity | exact IH].
Qed.

(* ---- the invariant of the driver layer ------------------------------------------------------------------ *)
Record dinv (d : dbus) : Prop := mkDinv {
  di_inv : inv (d_bus d);
  di_ids : NoDup (map fst (d_unique d));
  di_minors : NoDup (map snd (d_unique d));
  di_lt : forall c m, In (c, m) (d_unique d) -> m < d_minor d;
  di_known : forall c m, In (c, m) (d_unique d) -> c < b_next (d_bus d);
  di_active : forall cn, In cn (b_conns (d_bus d)) -> c_active cn = true -> assoc (c_id cn) (d_unique d) <> None;
  di_inactive : forall cn, In cn (b_conns (d_bus d)) -> c_active cn = false -> assoc (c_id cn) (d_unique d) = None
}.

(* "Unique names are never reused for two different connections": two entries with the same string are the same entry *)
Theorem unique_names_distinct d c1 m1 c2 m2 :
  dinv d -> In (c1, m1) (d_unique d) -> In (c2, m2) (d_unique d) -> ustr m1 = ustr m2 -> c1 = c2.
Proof.
  intros I H1 H2 E. apply ustr_inj in E. subst m2.
  assert (ND := di_minors d I). revert H1 H2. generalize (d_unique d) ND. clear.
  induction l as [|[c m] r IH]; simpl; [tauto|]. intros ND H1 H2. inversion ND as [|? ? Hn ND']. subst.
  destruct H1 as [H1|H1], H2 as [H2|H2].
  - congruence.
  - inversion H1. subst. exfalso. apply Hn. change m1 with (snd (c2, m1)). apply in_map. exact H2.
  - inversion H2. subst. exfalso. apply Hn. change m1 with (snd (c1, m1)). apply in_map. exact H1.
  - auto.
Qed.

(* every member of every queue has a unique name *)
Lemma member_named d k c : dinv d -> queued c (mget (b_services (d_bus d)) k) = true -> exists m, assoc c (d_unique d) = Some m.
Proof.
  intros I Hq. destruct (inv_members _ (di_inv d I) k c Hq) as [x [Hx [Hid Ha]]].
  assert (H := di_active d I x Hx Ha). rewrite Hid in H. destruct (assoc c (d_unique d)); [eauto | congruence].
Qed.

Lemma present_key_named d k q : dinv d -> lookup (b_services (d_bus d)) k = Some q -> exists s, kstr d k = Some s.
Proof.
  intros I Hl. destruct k as [c|s]; [|simpl; eauto].
  assert (Hq : q = [mkOwner c false false]) by (apply (inv_unique _ (di_inv d I) c q Hl)). subst q.
  destruct (member_named d (KU c) c I) as [m Hm].
  { unfold mget. rewrite Hl. simpl. unfold is. simpl. rewrite N.eqb_refl. reflexivity. }
  simpl. unfold uname_of. rewrite Hm. simpl. eauto.
Qed.

(* the rendering of the keys in the table is injective: the string-keyed hash of the C code and the
   key-indexed table of the model hold the same information *)
Theorem kstr_injective d k1 k2 q1 q2 s :
  dinv d -> lookup (b_services (d_bus d)) k1 = Some q1 -> lookup (b_services (d_bus d)) k2 = Some q2 ->
  kstr d k1 = Some s -> kstr d k2 = Some s -> k1 = k2.
Proof.
  intros I H1 H2 E1 E2. destruct k1 as [c1|s1], k2 as [c2|s2]; simpl in E1, E2.
  - unfold uname_of in *. destruct (assoc c1 (d_unique d)) as [m1|] eqn:A1; [|discriminate].
    destruct (assoc c2 (d_unique d)) as [m2|] eqn:A2; [|discriminate]. simpl in *. f_equal.
    apply (unique_names_distinct d c1 m1 c2 m2 I); [apply assoc_in; exact A1 | apply assoc_in; exact A2 | congruence].
  - exfalso. unfold uname_of in E1. destruct (assoc c1 (d_unique d)) as [m1|]; [|discriminate]. simpl in E1.
    assert (Hr := inv_reserved _ (di_inv d I) s2 q2 H2). inversion E1. inversion E2. subst. rewrite ustr_not_requestable in Hr. discriminate.
  - exfalso. unfold uname_of in E2. destruct (assoc c2 (d_unique d)) as [m2|]; [|discriminate]. simpl in E2.
    assert (Hr := inv_reserved _ (di_inv d I) s1 q1 H1). inversion E1. inversion E2. subst. rewrite ustr_not_requestable in Hr. discriminate.
  - congruence.
Qed.

(* resolving a string: which entry [find] returns *)
Lemma resolve_unique d c m : dinv d -> In (c, m) (d_unique d) -> resolve d (ustr m) = QU c.
Proof.
  intros I H. unfold resolve.
  destruct (find (fun cm => bytes_eqb (ustr (snd cm)) (ustr m)) (d_unique d)) as [[c' m']|] eqn:E.
  - apply find_some in E. destruct E as [Hin Hb]. cbn [snd] in Hb. apply bytes_eqb_eq in Hb. simpl.
    f_equal. apply (unique_names_distinct d c' m' c m I Hin H Hb).
  - exfalso. apply (find_none _ _ E) in H. cbn [snd] in H. rewrite bytes_eqb_refl in H. discriminate.
Qed.

Lemma resolve_other d s : (forall c m, In (c, m) (d_unique d) -> ustr m <> s) -> resolve d s = QS s.
Proof.
  intros H. unfold resolve. destruct (find (fun cm => bytes_eqb (ustr (snd cm)) s) (d_unique d)) as [[c m]|] eqn:E; [|reflexivity].
  apply find_some in E. destruct E as [Hin Hb]. cbn [snd] in Hb. apply bytes_eqb_eq in Hb. exfalso. exact (H c m Hin Hb).
Qed.

Lemma resolve_cases d s :
  (exists c m, In (c, m) (d_unique d) /\ ustr m = s /\ resolve d s = QU c) \/ ((forall c m, In (c, m) (d_unique d) -> ustr m <> s) /\ resolve d s = QS s).
Proof.
  unfold resolve. destruct (find (fun cm => bytes_eqb (ustr (snd cm)) s) (d_unique d)) as [[c m]|] eqn:E.
  - apply find_some in E. destruct E as [Hin Hb]. cbn [snd] in Hb. apply bytes_eqb_eq in Hb. left. exists c, m. auto.
  - right. split; [|reflexivity]. intros c m Hin Hs. apply (find_none _ _ E) in Hin. cbn [snd] in Hin. rewrite Hs, bytes_eqb_refl in Hin. discriminate.
Qed.

Theorem resolve_kstr d k q s : dinv d -> lookup (b_services (d_bus d)) k = Some q -> kstr d k = Some s -> qkey (resolve d s) = k.
Proof.
  intros I Hl Hs. destruct k as [c|s0]; simpl in Hs.
  - unfold uname_of in Hs. destruct (assoc c (d_unique d)) as [m|] eqn:A; [|discriminate]. simpl in Hs. inversion Hs. subst s.
    rewrite (resolve_unique d c m I (assoc_in _ _ _ A)). reflexivity.
  - inversion Hs. subst s0. rewrite resolve_other; [reflexivity|]. intros c m Hin E.
    assert (Hr := inv_reserved _ (di_inv d I) s q Hl). rewrite <- E, ustr_not_requestable in Hr. discriminate.
Qed.

(* the C registry: a hash keyed by the string; here as a search through the rendered table *)
Definition slookup (d : dbus) (s : bytes) : option (key * queue) :=
  find (fun kq => match kstr d (fst kq) with Some t => bytes_eqb t s | None => false end) (b_services (d_bus d)).

Theorem string_lookup_is_key_lookup d s : dinv d ->
  option_map snd (slookup d s) = lookup (b_services (d_bus d)) (qkey (resolve d s)).
Proof.
  intros I. unfold slookup.
  destruct (find _ (b_services (d_bus d))) as [[k q]|] eqn:E.
  - apply find_some in E. destruct E as [Hin Hb]. simpl in Hb. destruct (kstr d k) as [t|] eqn:Ek; [|discriminate].
    apply bytes_eqb_eq in Hb. subst t. assert (Hl := in_lookup _ _ _ (inv_keys _ (di_inv d I)) Hin).
    rewrite (resolve_kstr d k q s I Hl Ek). simpl. symmetry. exact Hl.
  - simpl. destruct (lookup (b_services (d_bus d)) (qkey (resolve d s))) as [q|] eqn:El; [|reflexivity]. exfalso.
    apply lookup_some_in in El. apply (find_none _ _ E) in El. cbn [fst] in El.
    destruct (resolve_cases d s) as [[c [m [Hin [Hs Hr]]]]|[Hno Hr]]; rewrite Hr in El; cbn [qkey kstr] in El.
    + unfold uname_of in El. rewrite (in_assoc c m _ (di_ids d I) Hin) in El. cbn [option_map] in El. rewrite Hs, bytes_eqb_refl in El. discriminate.
    + rewrite bytes_eqb_refl in El. discriminate.
Qed.

(* the candidate for the next unique name is never in use: create_unique_client_name's loop body runs once *)
Lemma next_name_free d : dinv d -> name_in_use d (ustr (d_minor d)) = false.
Proof.
  intros I. unfold name_in_use. rewrite resolve_other.
  - simpl. destruct (lookup (b_services (d_bus d)) (KW (ustr (d_minor d)))) as [q|] eqn:E; [|reflexivity].
    assert (Hr := inv_reserved _ (di_inv d I) _ _ E). rewrite ustr_not_requestable in Hr. discriminate.
  - intros c m Hin E. apply ustr_inj in E. assert (H := di_lt d I c m Hin). lia.
Qed.
