(* Basic round-trip facts for the specification codec (Spec/Codec.v):
   numbers, padding, take. *)
From DV Require Import Lib.Base Spec.Codec.
From Coq Require Import ZArith ZifyBool ZifyN ZifyNat Arith.
Local Open Scope N_scope.
Ltac Zify.zify_post_hook ::= Z.div_mod_to_equations.

Lemma nlen_app {A} (a b : list A) : nlen (a ++ b) = nlen a + nlen b.
Proof. unfold nlen. rewrite app_length. lia. Qed.
Lemma nlen_nil {A} : nlen (@nil A) = 0. Proof. reflexivity. Qed.
Lemma nlen_cons {A} (x : A) l : nlen (x :: l) = nlen l + 1.
Proof. unfold nlen. cbn [length]. lia. Qed.
Lemma nlen_repeat {A} (x : A) n : nlen (repeat x n) = N.of_nat n.
Proof. unfold nlen. rewrite repeat_length. reflexivity. Qed.
Lemma nlen_zeros n : nlen (zeros n) = n.
Proof. unfold zeros. rewrite nlen_repeat. lia. Qed.
Lemma nlen_rev {A} (l : list A) : nlen (rev l) = nlen l.
Proof. unfold nlen. rewrite rev_length. reflexivity. Qed.

(* ---- take ------------------------------------------------------------------ *)
Lemma take_app n x d : nlen x = n -> take n (x ++ d) = Some (x, d).
Proof.
  intros H. unfold take. rewrite nlen_app. replace (nlen x + nlen d <? n) with false by lia.
  subst n. unfold nlen. rewrite Nat2N.id. rewrite firstn_app, skipn_app. rewrite Nat.sub_diag. cbn [firstn skipn].
  rewrite firstn_all, skipn_all. rewrite app_nil_r. reflexivity.
Qed.

(* ---- padding ---------------------------------------------------------------- *)
Lemma forallb_zeros n : forallb (N.eqb 0) (zeros n) = true.
Proof. unfold zeros. induction (N.to_nat n) as [|k IH]; [reflexivity|]. cbn. exact IH. Qed.

Lemma skip_pad_zeros pos a d : skip_pad pos a (zeros (pad_amount pos a) ++ d) = Some (pos + pad_amount pos a, d).
Proof. unfold skip_pad. rewrite take_app by apply nlen_zeros. rewrite forallb_zeros. reflexivity. Qed.

(* ---- numbers ---------------------------------------------------------------- *)
Lemma le_bytes_length n v : length (le_bytes n v) = n.
Proof. revert v. induction n as [|n IH]; intros v; [reflexivity|]. cbn. rewrite IH. reflexivity. Qed.

Lemma le_num_bytes n v : v < 256 ^ N.of_nat n -> le_num (le_bytes n v) = v.
Proof.
  revert v. induction n as [|n IH]; intros v Hv.
  - cbn in *. lia.
  - cbn [le_bytes le_num]. rewrite IH.
    + lia.
    + rewrite Nat2N.inj_succ, N.pow_succ_r' in Hv. lia.
Qed.

Lemma bytes_of_length le n v : nlen (bytes_of le n v) = N.of_nat n.
Proof. unfold bytes_of. destruct le; [|rewrite nlen_rev]; unfold nlen; rewrite le_bytes_length; reflexivity. Qed.

Lemma num_of_bytes le n v : v < 256 ^ N.of_nat n -> num_of le (bytes_of le n v) = v.
Proof. intros H. unfold num_of, bytes_of. destruct le; [|rewrite rev_involutive]; apply le_num_bytes; exact H. Qed.

Lemma le_bytes_bytes n v : Forall (fun b => b < 256) (le_bytes n v).
Proof. revert v. induction n as [|n IH]; intros v; cbn; constructor; [lia | apply IH]. Qed.
