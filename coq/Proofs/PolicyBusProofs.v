(* Proofs for C06, bus level: what the model of the gate and of its callers
   (Policy/PolicyBus.v) guarantees about denied messages and denied name requests. *)
From DV Require Import Lib.Base Gen.Tables Gen.PolicyTables Wire.Names Policy.Policy Policy.PolicyBus Spec.PolicySpec.
Local Open Scope N_scope.

Lemma rules_of_pending b p i : rules_of (set_pending b p) i = rules_of b i.
Proof. reflexivity. Qed.
Lemma name_of_pending b p i : name_of (set_pending b p) i = name_of b i.
Proof. reflexivity. Qed.

(* a message passes the gate only if the sender's send rules and the recipient's receive rules both allow it *)
Lemma gate_ok_checks b sender addressed proposed m :
  verdict_ok (fst (gate b sender addressed proposed m)) = true ->
  exists rr,
    (forall s, sender = Some s -> check_can_send (rules_of b s) rr proposed (b_reg b) m = true) /\
    (forall p, proposed = Some p -> check_can_receive (rules_of b p) (b_reg b) rr sender addressed proposed m = true).
Proof.
  unfold gate. destruct (known_type (m_type m)); simpl; [|discriminate].
  set (rrp := match sender with
              | Some s => if negb (m_reply_serial m =? 0) && is_some proposed && optN_eqb addressed proposed
                          then match proposed with Some p => check_reply (b_pending b) s p (m_reply_serial m) | None => (false, b_pending b) end
                          else (false, b_pending b)
              | None => (optN_eqb addressed proposed && negb (m_reply_serial m =? 0), b_pending b)
              end).
  destruct rrp as [rr pend].
  destruct (match sender with Some s => check_can_send (rules_of b s) rr proposed (b_reg b) m | None => true end) eqn:S; simpl; [|discriminate].
  destruct (match proposed with Some p => check_can_receive (rules_of b p) (b_reg b) rr sender addressed proposed m | None => true end) eqn:R;
    simpl; [|discriminate].
  intros _. exists rr. split.
  - intros s ->. exact S.
  - intros p ->. exact R.
Qed.

Lemma in_error_reply b s e m c w : In (c, w) (error_reply b s e m) -> c = s /\ w = WError e.
Proof.
  unfold error_reply, from_driver. destruct (verdict_ok (fst (gate b None (Some s) (Some s) (error_msg b s e m)))); simpl; intros H.
  - destruct H as [E|[]]. inversion E; auto.
  - destruct H.
Qed.

(* ------------------------------------------------------------------ a denied message is delivered to no one *)
Theorem denied_not_delivered b s a m :
  verdict_ok (fst (gate b (Some s) (Some a) (Some a) m)) = false ->
  forall c w, In (c, w) (snd (dispatch_matches b s (Some a) m)) -> c = s /\ w = WError DBUS_ERROR_ACCESS_DENIED_str.
Proof.
  intros H c w. unfold dispatch_matches. destruct (gate b (Some s) (Some a) (Some a) m) as [v pend]. simpl in H. rewrite H. simpl.
  apply in_error_reply.
Qed.

(* every copy that is delivered (to the addressed recipient, to an eavesdropper, to a broadcast recipient) was permitted
   by the sender's send rules evaluated for that recipient and by that recipient's receive rules *)
Theorem delivered_only_if_permitted b s addressed m c :
  In (c, WProbe) (snd (dispatch_matches b s addressed m)) ->
  exists rr, check_can_send (rules_of b s) rr (Some c) (b_reg b) m = true /\
             check_can_receive (rules_of b c) (b_reg b) rr (Some s) addressed (Some c) m = true.
Proof.
  unfold dispatch_matches. destruct addressed as [a|].
  - destruct (gate b (Some s) (Some a) (Some a) m) as [v pend] eqn:G.
    destruct (verdict_ok v) eqn:V; simpl.
    + intros [E|Hin].
      * inversion E; subst c.
        assert (verdict_ok (fst (gate b (Some s) (Some a) (Some a) m)) = true) as H by (rewrite G; exact V).
        apply gate_ok_checks in H. destruct H as [rr [Hs Hr]]. exists rr. split; [apply Hs | apply Hr]; reflexivity.
      * apply in_flat_map in Hin. destruct Hin as [c' [_ Hc]].
        destruct (negb (c' =? a) && wants (set_pending b pend) c' true &&
                  verdict_ok (fst (gate (set_pending b pend) (Some s) (Some a) (Some c') m))) eqn:W; [|destruct Hc].
        destruct Hc as [E|[]]. inversion E; subst c'.
        apply andb_true_iff in W. destruct W as [_ W].
        apply gate_ok_checks in W. destruct W as [rr [Hs Hr]]. exists rr.
        split; [apply (Hs s) | apply (Hr c)]; reflexivity.
    + intros Hin. apply in_error_reply in Hin. destruct Hin as [_ Hin]. discriminate.
  - simpl. intros Hin. apply in_flat_map in Hin. destruct Hin as [c' [_ Hc]].
    destruct (wants b c' (is_some (m_dest m)) && verdict_ok (fst (gate b (Some s) None (Some c') m))) eqn:W; [|destruct Hc].
    destruct Hc as [E|[]]. inversion E; subst c'.
    apply andb_true_iff in W. destruct W as [_ W].
    apply gate_ok_checks in W. destruct W as [rr [Hs Hr]]. exists rr.
    split; [apply (Hs s) | apply (Hr c)]; reflexivity.
Qed.

(* in particular: a broadcast recipient whose receive rules (or the sender's send rules towards it) refuse the signal does not get it *)
Theorem denied_broadcast_not_delivered b s m c :
  verdict_ok (fst (gate b (Some s) None (Some c) m)) = false ->
  ~ In (c, WProbe) (snd (dispatch_matches b s None m)).
Proof.
  intros H Hin. simpl in Hin. apply in_flat_map in Hin. destruct Hin as [c' [_ Hc]].
  destruct (wants b c' (is_some (m_dest m)) && verdict_ok (fst (gate b (Some s) None (Some c') m))) eqn:W; [|destruct Hc].
  destruct Hc as [E|[]]. inversion E; subst c'. apply andb_true_iff in W. destruct W as [_ W]. congruence.
Qed.

(* ------------------------------------------------------------------ a denied method call earns AccessDenied *)
(* who the bus addresses a message with destination [d] to: [Some None] = the bus driver *)
Definition addressed_of (b : bus) (d : bytes) : option (option N) :=
  if bytes_eqb d DBUS_SERVICE_DBUS_str then Some None
  else match reg_lookup (b_reg b) d with Some (a :: _) => Some (Some a) | _ => None end.

(* does the sender's own receive policy admit the error reply from the bus driver? *)
Definition sender_admits_error (b : bus) (s : N) (orig : msg) : bool :=
  verdict_ok (fst (gate b None (Some s) (Some s) (error_msg b s DBUS_ERROR_ACCESS_DENIED_str orig))).

Definition C06_denied_call_full_statement : Prop :=
  forall b s m arg d addr,
    get_conn b s <> None -> m_dest m = Some d -> addressed_of b d = Some addr ->
    verdict_ok (fst (gate b (Some s) addr addr m)) = false ->
    exists b1, do_send b s m arg = Done b1 [(s, WError DBUS_ERROR_ACCESS_DENIED_str)].

(* proved part: the error reply is produced and nothing else happens; it reaches the sender exactly when the sender's own
   receive rules admit an error from the bus driver (bus_transaction_send_from_driver applies the policy to it) *)
Theorem denied_call_gets_access_denied_partial b s m arg d addr :
  get_conn b s <> None -> m_dest m = Some d -> addressed_of b d = Some addr ->
  verdict_ok (fst (gate b (Some s) addr addr m)) = false ->
  exists b1, b_reg b1 = b_reg b /\ b_conns b1 = b_conns b /\
    do_send b s m arg = Done b1 (if sender_admits_error b1 s m then [(s, WError DBUS_ERROR_ACCESS_DENIED_str)] else []).
Proof.
  intros Hc Hd Ha Hg. unfold do_send. destruct (get_conn b s); [|congruence]. rewrite Hd.
  unfold addressed_of in Ha. destruct (bytes_eqb d DBUS_SERVICE_DBUS_str).
  - inversion Ha; subst addr. destruct (gate b (Some s) None None m) as [v pend]. simpl in Hg. rewrite Hg. simpl.
    exists (set_pending b pend). repeat split.
  - destruct (reg_lookup (b_reg b) d) as [[|a q]|]; try discriminate. inversion Ha; subst addr.
    unfold dispatch_matches. destruct (gate b (Some s) (Some a) (Some a) m) as [v pend]. simpl in Hg. rewrite Hg.
    exists (set_pending b pend). repeat split.
Qed.

(* the full statement fails: with a policy that has no receive rule for the sender, a denied method call is silently dropped *)
Definition w_name0 : bytes := [58; 49; 46; 48].  (* ":1.0" *)
Definition w_name1 : bytes := [58; 49; 46; 49].  (* ":1.1" *)
Definition w_bus : bus :=
  mkBus policy_empty [mkConn 0 [] w_name0 false false; mkConn 0 [] w_name1 false false] [(w_name0, [0]); (w_name1, [1])] [].
Definition w_call : msg := mkMsg DBUS_MESSAGE_TYPE_METHOD_CALL (Some [47; 112]) None (Some [77]) None (Some w_name1) None 0 0 7 false.

Theorem denied_call_refuted : ~ C06_denied_call_full_statement.
Proof.
  intros H. specialize (H w_bus 0 w_call [] w_name1 (Some 1)).
  destruct H as [b1 Hb]; try (vm_compute; congruence).
  vm_compute in Hb. discriminate.
Qed.

(* ------------------------------------------------------------------ a denied RequestName changes no ownership *)
Theorem denied_own_changes_nothing b s m arg b1 out :
  do_send b s m arg = Done b1 out ->
  m_dest m = Some DBUS_SERVICE_DBUS_str -> m_type m = DBUS_MESSAGE_TYPE_METHOD_CALL -> obytes_is (m_member m) s_RequestName = true ->
  check_can_own (rules_of b s) arg = Some false ->
  b_reg b1 = b_reg b /\ forall c w, In (c, w) out -> c = s /\ exists e, w = WError e.
Proof.
  unfold do_send. intros H Hd Ht Hm Ho. destruct (get_conn b s) as [k|]; [|discriminate]. rewrite Hd in H.
  rewrite bytes_eqb_refl in H. destruct (gate b (Some s) None None m) as [v pend].
  destruct (verdict_ok v); simpl in H.
  - rewrite Ht, N.eqb_refl in H. simpl in H. destruct (to_driver_iface_ok m); simpl in H; [|discriminate].
    rewrite Hm in H. unfold request_name in H. rewrite rules_of_pending, Ho in H.
    destruct (validate_bus_name arg); simpl in H;
      [destruct (match arg with 58 :: _ => true | _ => false end); [|destruct (bytes_eqb arg DBUS_SERVICE_DBUS_str)]|];
      inversion H; subst; (split; [reflexivity|]); intros c w Hin; apply in_error_reply in Hin; destruct Hin; eauto.
  - inversion H; subst. split; [reflexivity|]. intros c w Hin. apply in_error_reply in Hin. destruct Hin; eauto.
Qed.
