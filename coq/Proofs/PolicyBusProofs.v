(* Proofs for C06, bus level: what the model of the gate and of its callers
   (Policy/PolicyBus.v) guarantees about denied messages and denied name requests. *)
From DV Require Import Lib.Base Gen.Tables Gen.PolicyTables Wire.Names Policy.Policy Policy.PolicyConfig Policy.PolicyBus Spec.PolicySpec.
Local Open Scope N_scope.

Lemma rules_of_pending b p i : rules_of (set_pending b p) i = rules_of b i.
Proof. reflexivity. Qed.
Lemma name_of_pending b p i : name_of (set_pending b p) i = name_of b i.
Proof. reflexivity. Qed.

(* a message passes the gate only if the sender's send rules and the recipient's receive rules both allow it *)
Lemma gate_ok_checks b sender addressed proposed m :
  verdict_ok (fst (gate b sender addressed proposed m)) = true ->
  exists rr,
    (forall s, sender = Some s -> check_can_send (rules_of b s) rr proposed (b_reg b) m = true) /\
    (forall p, proposed = Some p -> check_can_receive (rules_of b p) (b_reg b) rr sender addressed proposed m = true).
Proof.
  unfold gate. destruct (known_type (m_type m)); simpl; [|discriminate].
  set (rrp := match sender with
              | Some s => if negb (m_reply_serial m =? 0) && is_some proposed && optN_eqb addressed proposed
                          then match proposed with Some p => check_reply (b_pending b) s p (m_reply_serial m) | None => (false, b_pending b) end
                          else (false, b_pending b)
              | None => (optN_eqb addressed proposed && negb (m_reply_serial m =? 0), b_pending b)
              end).
  destruct rrp as [rr pend].
  destruct (match sender with Some s => check_can_send (rules_of b s) rr proposed (b_reg b) m | None => true end) eqn:S; simpl; [|discriminate].
  destruct (match proposed with Some p => check_can_receive (rules_of b p) (b_reg b) rr sender addressed proposed m | None => true end) eqn:R;
    simpl; [|discriminate].
  intros _. exists rr. split.
  - intros s ->. exact S.
  - intros p ->. exact R.
Qed.

Lemma in_error_reply b s e m c w : In (c, w) (error_reply b s e m) -> c = s /\ w = WError e.
Proof.
  unfold error_reply, from_driver. destruct (verdict_ok (fst (gate b None (Some s) (Some s) (error_msg b s e m)))); simpl; intros H.
  - destruct H as [E|[]]. inversion E; auto.
  - destruct H.
Qed.

(* ------------------------------------------------------------------ a denied message is delivered to no one *)
Theorem denied_not_delivered b s a m :
  verdict_ok (fst (gate b (Some s) (Some a) (Some a) m)) = false ->
  forall c w, In (c, w) (snd (dispatch_matches b s (Some a) m)) -> c = s /\ w = WError DBUS_ERROR_ACCESS_DENIED_str.
Proof.
  intros H c w. unfold dispatch_matches. destruct (gate b (Some s) (Some a) (Some a) m) as [v pend]. simpl in H. rewrite H. simpl.
  apply in_error_reply.
Qed.

(* every copy that is delivered (to the addressed recipient, to an eavesdropper, to a broadcast recipient) was permitted
   by the sender's send rules evaluated for that recipient and by that recipient's receive rules *)
Theorem delivered_only_if_permitted b s addressed m c :
  In (c, WProbe) (snd (dispatch_matches b s addressed m)) ->
  exists rr, check_can_send (rules_of b s) rr (Some c) (b_reg b) m = true /\
             check_can_receive (rules_of b c) (b_reg b) rr (Some s) addressed (Some c) m = true.
Proof.
  unfold dispatch_matches. destruct addressed as [a|].
  - destruct (gate b (Some s) (Some a) (Some a) m) as [v pend] eqn:G.
    destruct (verdict_ok v) eqn:V; simpl.
    + intros [E|Hin].
      * inversion E; subst c.
        assert (verdict_ok (fst (gate b (Some s) (Some a) (Some a) m)) = true) as H by (rewrite G; exact V).
        apply gate_ok_checks in H. destruct H as [rr [Hs Hr]]. exists rr. split; [apply Hs | apply Hr]; reflexivity.
      * apply in_flat_map in Hin. destruct Hin as [c' [_ Hc]].
        destruct (negb (c' =? a) && wants (set_pending b pend) c' true &&
                  verdict_ok (fst (gate (set_pending b pend) (Some s) (Some a) (Some c') m))) eqn:W; [|destruct Hc].
        destruct Hc as [E|[]]. inversion E; subst c'.
        apply andb_true_iff in W. destruct W as [_ W].
        apply gate_ok_checks in W. destruct W as [rr [Hs Hr]]. exists rr.
        split; [apply (Hs s) | apply (Hr c)]; reflexivity.
    + intros Hin. apply in_error_reply in Hin. destruct Hin as [_ Hin]. discriminate.
  - simpl. intros Hin. apply in_flat_map in Hin. destruct Hin as [c' [_ Hc]].
    destruct (wants b c' (is_some (m_dest m)) && verdict_ok (fst (gate b (Some s) None (Some c') m))) eqn:W; [|destruct Hc].
    destruct Hc as [E|[]]. inversion E; subst c'.
    apply andb_true_iff in W. destruct W as [_ W].
    apply gate_ok_checks in W. destruct W as [rr [Hs Hr]]. exists rr.
    split; [apply (Hs s) | apply (Hr c)]; reflexivity.
Qed.

(* in particular: a broadcast recipient whose receive rules (or the sender's send rules towards it) refuse the signal does not get it *)
Theorem denied_broadcast_not_delivered b s m c :
  verdict_ok (fst (gate b (Some s) None (Some c) m)) = false ->
  ~ In (c, WProbe) (snd (dispatch_matches b s None m)).
Proof.
  intros H Hin. simpl in Hin. apply in_flat_map in Hin. destruct Hin as [c' [_ Hc]].
  destruct (wants b c' (is_some (m_dest m)) && verdict_ok (fst (gate b (Some s) None (Some c') m))) eqn:W; [|destruct Hc].
  destruct Hc as [E|[]]. inversion E; subst c'. apply andb_true_iff in W. destruct W as [_ W]. congruence.
Qed.

(* ------------------------------------------------------------------ a denied method call earns AccessDenied *)
(* who the bus addresses a message with destination [d] to: [Some None] = the bus driver *)
Definition addressed_of (b : bus) (d : bytes) : option (option N) :=
  if bytes_eqb d DBUS_SERVICE_DBUS_str then Some None
  else match reg_lookup (b_reg b) d with Some (a :: _) => Some (Some a) | _ => None end.

(* does the sender's own receive policy admit the error reply from the bus driver? *)
Definition sender_admits_error (b : bus) (s : N) (orig : msg) : bool :=
  verdict_ok (fst (gate b None (Some s) (Some s) (error_msg b s DBUS_ERROR_ACCESS_DENIED_str orig))).

Definition is_live (b : bus) (s : N) : Prop := exists c, get_conn b s = Some c /\ c_alive c = true.

Definition C06_denied_call_full_statement : Prop :=
  forall e b s m arg d addr,
    is_live b s -> m_dest m = Some d -> addressed_of b d = Some addr ->
    verdict_ok (fst (gate b (Some s) addr addr m)) = false ->
    exists b1, do_send e b s m arg = Done b1 [(s, WError DBUS_ERROR_ACCESS_DENIED_str)].

(* proved part: the error reply is produced and nothing else happens; it reaches the sender exactly when the sender's own
   receive rules admit an error from the bus driver (bus_transaction_send_from_driver applies the policy to it) *)
Theorem denied_call_gets_access_denied_partial e b s m arg d addr :
  is_live b s -> m_dest m = Some d -> addressed_of b d = Some addr ->
  verdict_ok (fst (gate b (Some s) addr addr m)) = false ->
  exists b1, b_reg b1 = b_reg b /\ b_conns b1 = b_conns b /\
    do_send e b s m arg = Done b1 (if sender_admits_error b1 s m then [(s, WError DBUS_ERROR_ACCESS_DENIED_str)] else []).
Proof.
  intros [cs [Hc Hl]] Hd Ha Hg. unfold do_send. rewrite Hc, Hl. simpl. rewrite Hd.
  unfold addressed_of in Ha. destruct (bytes_eqb d DBUS_SERVICE_DBUS_str).
  - inversion Ha; subst addr. destruct (gate b (Some s) None None m) as [v pend]. simpl in Hg. rewrite Hg. simpl.
    exists (set_pending b pend). repeat split.
  - destruct (reg_lookup (b_reg b) d) as [[|a q]|]; try discriminate. inversion Ha; subst addr.
    unfold dispatch_matches. destruct (gate b (Some s) (Some a) (Some a) m) as [v pend]. simpl in Hg. rewrite Hg.
    exists (set_pending b pend). repeat split.
Qed.

(* the full statement fails: with a policy that has no receive rule for the sender, a denied method call is silently dropped *)
Definition w_name0 : bytes := [58; 49; 46; 48].  (* ":1.0" *)
Definition w_name1 : bytes := [58; 49; 46; 49].  (* ":1.1" *)
Definition w_bus : bus :=
  mkBus policy_empty [mkConn true 0 [0] false [] w_name0 false false; mkConn true 0 [0] false [] w_name1 false false]
        [(w_name0, [0]); (w_name1, [1])] [] INil 2.
Definition w_env : env := daemon_env (fun _ => None) (fun _ => None).
Definition w_call : msg := mkMsg DBUS_MESSAGE_TYPE_METHOD_CALL (Some [47; 112]) None (Some [77]) None (Some w_name1) None 0 0 7 false.

Theorem denied_call_refuted : ~ C06_denied_call_full_statement.
Proof.
  intros H. specialize (H w_env w_bus 0 w_call [] w_name1 (Some 1)).
  destruct H as [b1 Hb]; try (vm_compute; congruence).
  - eexists. split; vm_compute; reflexivity.
  - vm_compute in Hb. discriminate.
Qed.

(* ------------------------------------------------------------------ a denied RequestName changes no ownership *)
Theorem denied_own_changes_nothing e b s m arg b1 out :
  do_send e b s m arg = Done b1 out ->
  m_dest m = Some DBUS_SERVICE_DBUS_str -> m_type m = DBUS_MESSAGE_TYPE_METHOD_CALL -> obytes_is (m_member m) s_RequestName = true ->
  check_can_own (rules_of b s) arg = Some false ->
  b_reg b1 = b_reg b /\ forall c w, In (c, w) out -> c = s /\ exists e, w = WError e.
Proof.
  unfold do_send. intros H Hd Ht Hm Ho. destruct (get_conn b s) as [k|]; [|discriminate].
  destruct (c_alive k); simpl in H; [|inversion H; subst; split; [reflexivity | intros c w []]]. rewrite Hd in H.
  rewrite bytes_eqb_refl in H. destruct (gate b (Some s) None None m) as [v pend].
  destruct (verdict_ok v); simpl in H.
  - rewrite Ht, N.eqb_refl in H. simpl in H. destruct (to_driver_iface_ok m); simpl in H; [|discriminate].
    rewrite Hm in H. unfold request_name in H. rewrite rules_of_pending, Ho in H.
    destruct (validate_bus_name arg); simpl in H;
      [destruct (match arg with 58 :: _ => true | _ => false end); [|destruct (bytes_eqb arg DBUS_SERVICE_DBUS_str)]|];
      inversion H; subst; (split; [reflexivity|]); intros c w Hin; apply in_error_reply in Hin; destruct Hin; eauto.
  - inversion H; subst. split; [reflexivity|]. intros c w Hin. apply in_error_reply in Hin. destruct Hin; eauto.
Qed.

(* ------------------------------------------------------------------ connection admission and reload *)
From DV Require Import Spec.PolicyConfigSpec Proofs.PolicyProofs Proofs.PolicyConfigProofs.

(* a connection that the user=/group= rules refuse is closed: it gets no name, no policy, and nothing else changes *)
Theorem connect_refused e b uid gids atc dbg hs :
  allow_unix_user (b_policy b) (uid =? e_owner e) uid dbg = false ->
  exists b1, do_connect e b uid gids atc dbg hs = Done b1 [(N.of_nat (length (b_conns b)), WRefused)] /\
             b_policy b1 = b_policy b /\ b_reg b1 = b_reg b /\ b_pending b1 = b_pending b /\ b_next b1 = b_next b /\
             (forall i c, get_conn b i = Some c -> get_conn b1 i = Some c).
Proof.
  intros H. unfold do_connect. rewrite H. simpl. eexists. split; [reflexivity|]. repeat split.
  intros i c Hc. unfold get_conn in *. simpl. rewrite nth_error_app1; auto. apply nth_error_Some. congruence.
Qed.

Theorem connect_admitted e b uid gids atc dbg hs :
  allow_unix_user (b_policy b) (uid =? e_owner e) uid dbg = true ->
  exists b1 out, do_connect e b uid gids atc dbg hs = Done b1 out /\
     get_conn b1 (N.of_nat (length (b_conns b))) =
       Some (mkConn true uid gids atc (e_mk e (b_policy b) uid gids atc) (unique_name (b_next b)) false false) /\
     b_next b1 = b_next b + 1.
Proof.
  intros H. unfold do_connect. rewrite H. simpl. eexists. eexists. split; [reflexivity|]. split; [|reflexivity].
  unfold get_conn. simpl. rewrite Nnat.Nat2N.id, nth_error_app2, PeanoNat.Nat.sub_diag; auto.
Qed.

Definition reloaded (e : env) (b : bus) (p : policy) : bus :=
  mkBus p (map (reload_conn e p) (b_conns b)) (b_reg b) (b_pending b) (b_files b) (b_next b).

(* ReloadConfig: a configuration that does not load leaves the bus exactly as it was *)
Theorem reload_failed e b s m a :
  load_config (e_ru e) (e_rg e) (b_files b) = LErr a -> exists out, do_reload e b s m = HErr b out.
Proof. intros H. unfold do_reload. rewrite H. eauto. Qed.

(* a configuration that loads replaces the bus-wide policy and every live connection's rule list, and nothing else:
   names, queues, pending replies, match rules, unique names stay *)
Theorem reload_effect e b s m p :
  load_config (e_ru e) (e_rg e) (b_files b) = LOk p ->
  (exists out, do_reload e b s m = HOk (reloaded e b p) out) /\
  b_reg (reloaded e b p) = b_reg b /\ b_pending (reloaded e b p) = b_pending b /\
  forall i c, get_conn b i = Some c ->
    exists c', get_conn (reloaded e b p) i = Some c' /\
      c_alive c' = c_alive c /\ c_name c' = c_name c /\ c_sig c' = c_sig c /\ c_eav c' = c_eav c /\
      c_uid c' = c_uid c /\ c_gids c' = c_gids c /\
      (c_alive c = true -> c_rules c' = e_mk e p (c_uid c) (c_gids c) (c_atc c)).
Proof.
  intros H. split; [unfold do_reload; rewrite H; eauto|]. split; [reflexivity|]. split; [reflexivity|].
  intros i c Hc. unfold get_conn, reloaded in *. simpl. rewrite nth_error_map, Hc. simpl.
  eexists. split; [reflexivity|]. unfold reload_conn. destruct (c_alive c) eqn:A; simpl; repeat split; auto; discriminate.
Qed.

(* the message that asks for the reload is itself judged by the OLD policy: refused means nothing is reloaded *)
Theorem reload_judged_by_old_policy e b s m arg :
  is_live b s -> m_dest m = Some DBUS_SERVICE_DBUS_str ->
  verdict_ok (fst (gate b (Some s) None None m)) = false ->
  exists b1 out, do_send e b s m arg = Done b1 out /\ b_policy b1 = b_policy b /\ b_conns b1 = b_conns b.
Proof.
  intros [cs [Hc Hl]] Hd Hg. unfold do_send. rewrite Hc, Hl. simpl. rewrite Hd, bytes_eqb_refl.
  destruct (gate b (Some s) None None m) as [v pend]. simpl in Hg. rewrite Hg. simpl. eauto.
Qed.

(* after a reload every live connection decides by the manual page applied to the NEW tree of files *)
Theorem reload_decides_by_new_config ru rg b p i c :
  load_config ru rg (b_files b) = LOk p -> get_conn b i = Some c -> c_alive c = true ->
  exists cfg, denote ru rg true (b_files b) = DOk cfg /\
    forall rules, rules = spec_client_rules (cfg_rules ru rg cfg) (c_uid c) (c_gids c) (c_atc c) ->
    (forall r, In r rules -> catch_all_c r = true -> universal r = true) ->
    forall reg mm, reg_wf reg -> msg_wf mm = true ->
      (forall rr eav recv,
          check_can_send (rules_of (reloaded (daemon_env ru rg) b p) i) rr recv reg mm = spec_can_send dev_code rules (mkSendCtx rr eav recv reg) mm) /\
      (forall rr snd addressed proposed,
          check_can_receive (rules_of (reloaded (daemon_env ru rg) b p) i) reg rr snd addressed proposed mm =
          spec_can_receive dev_code rules (mkRecvCtx rr (is_eavesdropping addressed proposed mm) snd reg) mm).
Proof.
  intros L Hc Ha. destruct (config_tree_order ru rg _ _ L) as [cfg [D O]]. exists cfg. split; auto.
  intros rules -> Hu reg mm Hr Hm.
  destruct (proj2 (proj2 (proj2 (reload_effect (daemon_env ru rg) b i (mkMsg 0 None None None None None None 0 0 0 false) p L))) i c Hc)
    as [c' [G [_ [_ [_ [_ [_ [_ R]]]]]]]].
  unfold rules_of. rewrite G, (R Ha). simpl. unfold create_client_policy. rewrite O.
  destruct (optimize_partial _ Hu) as [Hs [Hrc _]].
  split; intros.
  - rewrite Hs. apply send_last_match; auto.
  - rewrite Hrc. apply receive_last_match; auto.
Qed.
