(* C17: the relation between a reachable state and the trace that led to it,
   and the safety theorems that follow from it (at most once, pairing,
   serials). *)
From Coq Require Import List NArith Bool Lia ZArith ZifyBool ZifyN ZifyNat.
Import ListNotations.
From DV Require Import PendingCall.Pending Spec.PendingSpec Proofs.PendingSerial Proofs.PendingLemmas Proofs.PendingInv.
Local Open Scope N_scope.

Definition b2n (b : bool) : nat := if b then 1%nat else 0%nat.

Lemma nth_error_upd {A} (l : list A) i j f :
  nth_error (upd l i f) j = if Nat.eqb i j then option_map f (nth_error l j) else nth_error l j.
Proof.
  destruct (Nat.eqb i j) eqn:E.
  - apply Nat.eqb_eq in E. subst. destruct (nth_error l j) eqn:H; simpl.
    + apply nth_error_upd_eq; auto.
    + rewrite nth_error_upd_none; auto.
  - apply Nat.eqb_neq in E. apply nth_error_upd_neq; auto.
Qed.

(* ---- the trace functions only look at key observations ---- *)
Lemma filter_filter_imp {A} (p q : A -> bool) l : (forall x, p x = true -> q x = true) -> filter p (filter q l) = filter p l.
Proof.
  intros H. induction l as [|x l IH]; simpl; auto.
  destruct (q x) eqn:Eq; simpl; destruct (p x) eqn:Ep; simpl; rewrite ?IH; auto.
  apply H in Ep. congruence.
Qed.

Lemma count_complete_key i o : count_complete i o = count_complete i (filter key o).
Proof. unfold count_complete. rewrite filter_filter_imp; auto. intros [] H; simpl in *; try discriminate; auto. Qed.
Lemma count_notify_key i o : count_notify i o = count_notify i (filter key o).
Proof. unfold count_notify. rewrite filter_filter_imp; auto. intros [] H; simpl in *; try discriminate; auto. Qed.
Lemma drawn_key o : drawn o = drawn (filter key o).
Proof. induction o as [|x o IH]; simpl; auto. destruct x as [[s|]| | | | | | | | | | |]; simpl; rewrite ?IH; auto. Qed.
Lemma call_serials_key o : call_serials o = call_serials (filter key o).
Proof. induction o as [|x o IH]; simpl; auto. destruct x as [[s|]| | | | | | | | | | |]; simpl; rewrite ?IH; auto. Qed.
Lemma in_complete_key i m o : In (OComplete i m) o -> In (OComplete i m) (filter key o).
Proof. intros H. apply filter_In. split; auto. Qed.

Lemma count_complete_app i a b : count_complete i (a ++ b) = (count_complete i a + count_complete i b)%nat.
Proof. unfold count_complete. rewrite filter_app, app_length. reflexivity. Qed.
Lemma count_notify_app i a b : count_notify i (a ++ b) = (count_notify i a + count_notify i b)%nat.
Proof. unfold count_notify. rewrite filter_app, app_length. reflexivity. Qed.
Lemma drawn_app a b : drawn (a ++ b) = drawn a ++ drawn b.
Proof. induction a as [|x a IH]; simpl; auto. destruct x as [[s|]| | | | | | | | | | |]; simpl; rewrite ?IH; auto. Qed.
Lemma call_serials_app a b : call_serials (a ++ b) = call_serials a ++ call_serials b.
Proof. induction a as [|x a IH]; simpl; auto. destruct x as [[s|]| | | | | | | | | | |]; simpl; rewrite ?IH; auto. Qed.

(* ---- the relation ---- *)
Definition counts_ok (ks : list core) (tr : list obs) : Prop :=
  forall i, match nth_error ks i with
            | Some k => count_complete i tr = b2n (k_completed k) /\
                        (count_notify i tr + (if k_hasnotify k then b2n (k_inflight k) else 0) = (if k_hasnotify k then b2n (k_completed k) else 0))%nat
            | None => count_complete i tr = 0%nat /\ count_notify i tr = 0%nat
            end.

Record rel (k0 : N) (st : state) (tr : list obs) : Prop := mkRel {
  r_ok : calls_ok st;
  r_serials : call_serials tr = map k_serial (cores st);
  r_drawn : exists n, drawn tr = serials_from k0 n /\ serial st = spec_serial (k0 + N.of_nat n);
  r_counts : counts_ok (cores st) tr;
  r_paired : forall i m, In (OComplete i m) tr -> exists k, nth_error (cores st) i = Some k /\ m_rs m = k_serial k
}.

Lemma rel_init_at b : valid_base b -> rel (b - 1) (init_at b) [].
Proof.
  intros Hb. constructor; simpl; auto.
  - constructor.
  - exists 0%nat. split; [reflexivity|]. simpl. rewrite N.add_0_r. symmetry. apply spec_serial_pred. exact Hb.
  - intros i. destruct i; simpl; auto.
  - intros i m [].
Qed.

Lemma serial_upd ks i f : (forall k, k_serial (f k) = k_serial k) -> map k_serial (upd ks i f) = map k_serial ks.
Proof. intros. apply map_upd_same; auto. Qed.

Lemma paired_upd ks i f tr :
  (forall k, k_serial (f k) = k_serial k) ->
  (forall j m, In (OComplete j m) tr -> exists k, nth_error ks j = Some k /\ m_rs m = k_serial k) ->
  forall j m, In (OComplete j m) tr -> exists k, nth_error (upd ks i f) j = Some k /\ m_rs m = k_serial k.
Proof.
  intros Hf H j m Hin. destruct (H j m Hin) as [k [Hk Hs]]. rewrite nth_error_upd, Hk.
  destruct (Nat.eqb i j); simpl; eexists; split; eauto. rewrite Hf; auto.
Qed.

Lemma rel_step k0 st tr st' o : rel k0 st tr -> summary st st' o -> calls_ok st' -> rel k0 st' (tr ++ o).
Proof.
  intros [Hok Hser [n [Hdr Hctr]] Hcnt Hpair] S Hok'.
  assert (CC : forall i, count_complete i (tr ++ o) = (count_complete i tr + count_complete i (filter key o))%nat)
    by (intros; rewrite count_complete_app, (count_complete_key i o); reflexivity).
  assert (CN : forall i, count_notify i (tr ++ o) = (count_notify i tr + count_notify i (filter key o))%nat)
    by (intros; rewrite count_notify_app, (count_notify_key i o); reflexivity).
  assert (DR : drawn (tr ++ o) = drawn tr ++ drawn (filter key o)) by (rewrite drawn_app, (drawn_key o); reflexivity).
  assert (CS : call_serials (tr ++ o) = call_serials tr ++ call_serials (filter key o)) by (rewrite call_serials_app, (call_serials_key o); reflexivity).
  assert (IN : forall i m, In (OComplete i m) (tr ++ o) -> In (OComplete i m) tr \/ In (OComplete i m) (filter key o)).
  { intros i m H. apply in_app_or in H. destruct H; auto. right. apply in_complete_key; auto. }
  destruct S as [Hc Hs Hk | nf Hk Hs Hc | Hk Hs Hc | i k x Hn Hcm Hif Hrs Hk Hs Hc | i k Hn Hif Hk Hs Hc | i Hk Hs Hc].
  - (* quiet *)
    constructor; auto.
    + rewrite CS, Hk, Hc, app_nil_r. exact Hser.
    + exists n. rewrite DR, Hk, app_nil_r, Hs. auto.
    + intros i. rewrite Hc, CC, CN, Hk. specialize (Hcnt i). simpl. rewrite !Nat.add_0_r. exact Hcnt.
    + intros i m H. apply IN in H. rewrite Hk in H. destruct H as [H|[]]. rewrite Hc. auto.
  - (* new call *)
    constructor; auto.
    + rewrite CS, Hk, Hc, map_app, Hser. reflexivity.
    + exists (S n). split.
      * rewrite DR, Hk, serials_from_snoc, Hdr, Hctr. reflexivity.
      * rewrite Hs, Hctr, next_serial_spec. f_equal. lia.
    + intros i. rewrite Hc, CC, CN, Hk. simpl. rewrite !Nat.add_0_r. specialize (Hcnt i).
      destruct (nth_error (cores st) i) as [k|] eqn:E.
      * rewrite nth_error_app1 by (apply nth_error_Some; congruence). rewrite E. exact Hcnt.
      * apply nth_error_None in E. destruct (Nat.eq_dec i (length (cores st))) as [->|Hne].
        -- rewrite nth_error_app2 by lia. rewrite Nat.sub_diag. simpl. destruct Hcnt as [-> ->]. destruct nf; auto.
        -- rewrite (proj2 (nth_error_None _ _)) by (rewrite app_length; simpl; lia). exact Hcnt.
    + intros i m H. apply IN in H. rewrite Hk in H. destruct H as [H|[H|[]]]; [|discriminate].
      destruct (Hpair i m H) as [k [Hk1 Hk2]]. exists k. split; auto. rewrite Hc, nth_error_app1; auto.
      apply nth_error_Some. congruence.
  - (* plain send *)
    constructor; auto.
    + rewrite CS, Hk, Hc, app_nil_r. exact Hser.
    + exists (S n). split.
      * rewrite DR, Hk, serials_from_snoc, Hdr, Hctr. reflexivity.
      * rewrite Hs, Hctr, next_serial_spec. f_equal. lia.
    + intros i. rewrite Hc, CC, CN, Hk. specialize (Hcnt i). simpl. rewrite !Nat.add_0_r. exact Hcnt.
    + intros i m H. apply IN in H. rewrite Hk in H. destruct H as [H|[H|[]]]; [|discriminate]. rewrite Hc. auto.
  - (* completion of call i *)
    constructor; auto.
    + rewrite CS, Hk, Hc, app_nil_r, serial_upd by reflexivity. exact Hser.
    + exists n. rewrite DR, Hk, app_nil_r, Hs. auto.
    + intros j. rewrite Hc, CC, CN, Hk, nth_error_upd. specialize (Hcnt j). unfold count_complete, count_notify. simpl.
      destruct (Nat.eqb i j) eqn:E.
      * apply Nat.eqb_eq in E. subst j. rewrite Hn in *. rewrite Nat.eqb_refl. simpl.
        destruct Hcnt as [H1 H2]. rewrite Hcm, Hif in *. fold (count_complete i tr). fold (count_notify i tr). rewrite H1.
        simpl in *. destruct (k_hasnotify k); simpl in *; lia.
      * rewrite Nat.eqb_sym in E. rewrite E. simpl. fold (count_complete j tr). fold (count_notify j tr). rewrite !Nat.add_0_r. exact Hcnt.
    + intros j m H. apply IN in H. rewrite Hk in H. destruct H as [H|[H|[]]].
      * rewrite Hc. apply (paired_upd (cores st) i k_start tr); auto.
      * inversion H; subst. rewrite Hc, nth_error_upd, Nat.eqb_refl, Hn. simpl. eexists; split; eauto.
  - (* finish_completion of call i *)
    constructor; auto.
    + rewrite CS, Hk, Hc, serial_upd by reflexivity. destruct (k_hasnotify k); simpl; rewrite app_nil_r; exact Hser.
    + exists n. rewrite DR, Hk, Hs. destruct (k_hasnotify k); simpl; rewrite app_nil_r; auto.
    + intros j. rewrite Hc, CC, CN, Hk, nth_error_upd. specialize (Hcnt j).
      destruct (Nat.eqb i j) eqn:E.
      * apply Nat.eqb_eq in E. subst j. rewrite Hn in *. simpl. destruct Hcnt as [H1 H2]. rewrite Hif in H2.
        destruct (k_hasnotify k); unfold count_complete, count_notify in *; simpl in *; rewrite ?Nat.eqb_refl; simpl; lia.
      * assert (count_complete j (if k_hasnotify k then [ONotify i] else []) = 0%nat) as -> by (destruct (k_hasnotify k); reflexivity).
        assert (count_notify j (if k_hasnotify k then [ONotify i] else []) = 0%nat) as ->.
        { destruct (k_hasnotify k); [|reflexivity]. unfold count_notify; simpl. rewrite Nat.eqb_sym, E. reflexivity. }
        rewrite !Nat.add_0_r. exact Hcnt.
    + intros j m H. apply IN in H. rewrite Hk in H. destruct H as [H|H].
      * rewrite Hc. apply (paired_upd (cores st) i k_finish tr); auto.
      * destruct (k_hasnotify k); simpl in H; [destruct H as [H|[]]; discriminate|destruct H].
  - (* cancel *)
    constructor; auto.
    + rewrite CS, Hk, Hc, app_nil_r, serial_upd by reflexivity. exact Hser.
    + exists n. rewrite DR, Hk, app_nil_r, Hs. auto.
    + intros j. rewrite Hc, CC, CN, Hk, nth_error_upd. specialize (Hcnt j). simpl. rewrite !Nat.add_0_r.
      destruct (Nat.eqb i j); [|exact Hcnt]. destruct (nth_error (cores st) j); simpl; exact Hcnt.
    + intros j m H. apply IN in H. rewrite Hk in H. destruct H as [H|[]].
      rewrite Hc. apply (paired_upd (cores st) i k_cancel tr); auto.
Qed.

Lemma run_cons st e h : run st (e :: h) = let '(st1, o1) := step st e in let '(st2, o2) := run st1 h in (st2, o1 ++ o2).
Proof. reflexivity. Qed.

Theorem rel_run k0 h : forall st tr, rel k0 st tr -> rel k0 (fst (run st h)) (tr ++ snd (run st h)).
Proof.
  induction h as [|e h IH]; intros st tr R; simpl.
  - rewrite app_nil_r. exact R.
  - destruct (step st e) as [st1 o1] eqn:E. specialize (IH st1 (tr ++ o1)).
    destruct (run st1 h) as [st2 o2]. simpl in *. rewrite app_assoc. apply IH.
    destruct (step_good _ _ _ _ E (r_ok _ _ _ R)) as [Hok S]. eapply rel_step; eauto.
Qed.

Corollary rel_trace b h : valid_base b -> rel (b - 1) (fst (run (init_at b) h)) (trace_at b h).
Proof. intros Hb. exact (rel_run (b - 1) h (init_at b) [] (rel_init_at b Hb)). Qed.

(* ---- at most once ---- *)
Theorem at_most_once_all b h : valid_base b -> at_most_once (trace_at b h).
Proof.
  intros Hb i. pose proof (r_counts _ _ _ (rel_trace b h Hb) i) as H.
  destruct (nth_error (cores (fst (run (init_at b) h))) i) as [k|].
  - destruct H as [H1 H2]. rewrite H1. destruct (k_hasnotify k), (k_completed k), (k_inflight k); simpl in *; lia.
  - destruct H as [-> ->]. lia.
Qed.

(* ---- serials ---- *)
Theorem serials_all b h : valid_base b -> N.of_nat (length (drawn (trace_at b h))) <= two32 - 1 -> serials_ok (trace_at b h).
Proof.
  intros Hb Hn. destruct (r_drawn _ _ _ (rel_trace b h Hb)) as [n [Hd _]]. unfold serials_ok. rewrite Hd in *. rewrite length_serials_from in Hn.
  split; [apply serials_from_nonzero|apply serials_from_nodup; exact Hn].
Qed.

Lemma call_serials_in_drawn tr s : In s (call_serials tr) -> In s (drawn tr).
Proof.
  induction tr as [|x tr IH]; simpl; auto.
  destruct x as [[t|]| | | | | | | | | | |]; simpl; auto. intros [H|H]; auto.
Qed.

Lemma call_serials_nodup tr : NoDup (drawn tr) -> NoDup (call_serials tr).
Proof.
  induction tr as [|x tr IH]; simpl; auto.
  destruct x as [[t|]| | | | | | | | | | |]; simpl; auto; intros H; inversion H; subst; auto.
  constructor; auto. intro Hin. apply call_serials_in_drawn in Hin. contradiction.
Qed.

Lemma nowrap_nodup b h : valid_base b -> nowrap_at b h -> NoDup (call_serials (trace_at b h)).
Proof. intros Hb H. apply call_serials_nodup. apply serials_all; auto. unfold nowrap_at in H. lia. Qed.

(* ---- pairing ---- *)
Theorem paired_all b h : valid_base b -> paired (trace_at b h).
Proof.
  intros Hb i m Hin. pose proof (rel_trace b h Hb) as R. destruct (r_paired _ _ _ R i m Hin) as [k [Hk Hs]].
  rewrite (r_serials _ _ _ R), nth_error_map, Hk. simpl. congruence.
Qed.

Theorem unshared_nowrap b h : valid_base b -> nowrap_at b h -> unshared (trace_at b h).
Proof.
  intros Hb Hnw i j m Hin Hj. pose proof (paired_all b h Hb i m Hin) as Hi. pose proof (nowrap_nodup b h Hb Hnw) as Hnd.
  rewrite NoDup_nth_error in Hnd. apply Hnd; [|congruence]. apply nth_error_Some. congruence.
Qed.

Theorem pairing_all b h : valid_base b -> nowrap_at b h -> paired (trace_at b h) /\ unshared (trace_at b h).
Proof. intros Hb H. split; [apply paired_all|apply unshared_nowrap]; auto. Qed.
