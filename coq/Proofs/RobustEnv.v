(* C10 — the environment of the correspondence run (Robust/Env.v) only ever performs
   steps of the bus model: what [env_run] reports is the model's own run over the
   bus-side events it scheduled. *)
From DV Require Import Lib.Base Wire.Message Robust.Bus Robust.Env Gen.RobustTables.
Local Open Scope N_scope.

(* tie to the C text: the read sizes of Robust/Env.v were read off a loop of this shape
   (tools/gen/robust.py re-examines dbus-transport-socket.c on every run) *)
Lemma read_loop_shape_unchanged : READ_LOOP_SHAPE_OK = true.
Proof. reflexivity. Qed.

Section EnvOk.
  Context {A S O : Type}.
  Variable P : ops A S O.
  Variable cf : cfg.

  Lemma run_steps_app (st : state A S) h1 h2 :
    run_steps P cf st (h1 ++ h2) =
    let '(st1, o1) := run_steps P cf st h1 in let '(st2, o2) := run_steps P cf st1 h2 in (st2, o1 ++ o2).
  Proof.
    revert st. induction h1 as [|e r IH]; intros st; cbn [run_steps app].
    - destruct (run_steps P cf st h2). reflexivity.
    - destruct (step P cf st e) as [st1 o1]. rewrite IH. destruct (run_steps P cf st1 r) as [st2 o2]. destruct (run_steps P cf st2 h2). reflexivity.
  Qed.

  Lemma run_steps_length (st : state A S) h : length (snd (run_steps P cf st h)) = length h.
  Proof.
    revert st. induction h as [|e r IH]; intros st; cbn [run_steps]; [reflexivity|].
    destruct (step P cf st e) as [st1 o1]. specialize (IH st1). destruct (run_steps P cf st1 r). cbn [snd length] in *. rewrite IH. reflexivity.
  Qed.

  Lemma map_fst_combine {X Y} (a : list X) (b : list Y) : length a = length b -> map fst (combine a b) = a.
  Proof. revert b. induction a as [|x a IH]; intros [|y b] H; try discriminate; [reflexivity|]. cbn. rewrite IH by (cbn in H; congruence). reflexivity. Qed.
  Lemma map_snd_combine {X Y} (a : list X) (b : list Y) : length a = length b -> map snd (combine a b) = b.
  Proof. revert b. induction a as [|x a IH]; intros [|y b] H; try discriminate; [reflexivity|]. cbn. rewrite IH by (cbn in H; congruence). reflexivity. Qed.

  (* a list of (event, outputs) pairs is a faithful record of a run from st to st' *)
  Definition record_of (st st' : state A S) (prs : list (event * list (out O))) : Prop :=
    run_steps P cf st (map fst prs) = (st', map snd prs).

  Lemma record_nil st : record_of st st [].
  Proof. reflexivity. Qed.

  Lemma record_app st1 st2 st3 p1 p2 : record_of st1 st2 p1 -> record_of st2 st3 p2 -> record_of st1 st3 (p1 ++ p2).
  Proof. unfold record_of. intros H1 H2. rewrite !map_app, run_steps_app, H1, H2. reflexivity. Qed.

  Lemma record_one st e : record_of st (fst (step P cf st e)) [(e, snd (step P cf st e))].
  Proof. unfold record_of. cbn. destruct (step P cf st e). reflexivity. Qed.

  Lemma do_write_record c w : forall fuel st d, record_of st (fst (do_write P cf fuel st c d w)) (snd (do_write P cf fuel st c d w)).
  Proof.
    induction fuel as [|f IH]; intros st d; cbn [do_write]; [apply record_nil|].
    destruct d as [|b r]; [apply record_nil|].
    destruct (find_conn (s_conns st) c) as [x|]; [|apply record_nil].
    set (e := ERead c (firstn (take_size x) (b :: r)) w).
    pose proof (record_one st e) as R1. destruct (step P cf st e) as [st1 o1]. cbn [fst snd] in R1.
    specialize (IH st1 (skipn (take_size x) (b :: r))). destruct (do_write P cf f st1 c _ w) as [st2 o2]. cbn [fst snd] in *.
    change ((e, o1) :: o2) with ([(e, o1)] ++ o2). eapply record_app; eassumption.
  Qed.

  Lemma do_writes_record c w : forall ds st, record_of st (fst (do_writes P cf st c ds w)) (snd (do_writes P cf st c ds w)).
  Proof.
    induction ds as [|d r IH]; intros st; cbn [do_writes]; [apply record_nil|].
    pose proof (do_write_record c w (length d) st d) as R1. destruct (do_write P cf (length d) st c d w) as [st1 o1]. cbn [fst snd] in R1.
    specialize (IH st1). destruct (do_writes P cf st1 c r w) as [st2 o2]. cbn [fst snd] in *.
    eapply record_app; eassumption.
  Qed.

  Lemma drain_record : forall bl st, record_of st (fst (fst (drain P cf bl st))) (snd (drain P cf bl st)).
  Proof.
    induction bl as [|p r IH]; intros st; cbn [drain]; [apply record_nil|].
    destruct (accept_enabled cf st); [|apply record_nil].
    pose proof (record_one st (EAccept (p_id p))) as R1. destruct (step P cf st (EAccept (p_id p))) as [st1 o1]. cbn [fst snd] in R1.
    pose proof (do_writes_record (p_id p) (negb (p_closed p)) (p_data p) st1) as R2.
    destruct (do_writes P cf st1 (p_id p) (p_data p) (negb (p_closed p))) as [st2 o2]. cbn [fst snd] in R2.
    destruct (p_closed p).
    - pose proof (record_one st2 (EEof (p_id p))) as R3. destruct (step P cf st2 (EEof (p_id p))) as [st3 o3]. cbn [fst snd] in R3.
      specialize (IH st3). destruct (drain P cf r st3) as [[st4 bl4] o4]. cbn [fst snd] in *.
      change ((EAccept (p_id p), o1) :: o2 ++ [(EEof (p_id p), o3)] ++ o4) with ([(EAccept (p_id p), o1)] ++ o2 ++ [(EEof (p_id p), o3)] ++ o4).
      eapply record_app; [exact R1|]. eapply record_app; [exact R2|]. eapply record_app; [exact R3|exact IH].
    - specialize (IH st2). destruct (drain P cf r st2) as [[st4 bl4] o4]. cbn [fst snd app] in *.
      change ((EAccept (p_id p), o1) :: o2 ++ o4) with ([(EAccept (p_id p), o1)] ++ o2 ++ o4).
      eapply record_app; [exact R1|]. eapply record_app; [exact R2|exact IH].
  Qed.

  Theorem env_step_record (es : estate (A:=A) (S:=S)) e :
    record_of (e_bus es) (e_bus (fst (env_step P cf es e))) (snd (env_step P cf es e)).
  Proof.
    unfold env_step.
    assert (H : forall st1 bl1 o1, record_of (e_bus es) st1 o1 ->
              record_of (e_bus es) (e_bus (fst (let '(st2, bl2, o2) := drain P cf bl1 st1 in (mkE st2 bl2, o1 ++ o2))))
                        (snd (let '(st2, bl2, o2) := drain P cf bl1 st1 in (mkE st2 bl2, o1 ++ o2)))).
    { intros st1 bl1 o1 R. pose proof (drain_record bl1 st1) as D. destruct (drain P cf bl1 st1) as [[st2 bl2] o2]. cbn [fst snd e_bus] in *.
      eapply record_app; eassumption. }
    destruct e as [c|c d|c|d].
    - apply H. apply record_nil.
    - destruct (in_backlog (e_backlog es) c); [apply H; apply record_nil|].
      pose proof (do_writes_record c true [d] (e_bus es)) as R. destruct (do_writes P cf (e_bus es) c [d] true) as [st' o]. cbn [fst snd] in R. apply H. exact R.
    - destruct (in_backlog (e_backlog es) c); [apply H; apply record_nil|].
      pose proof (record_one (e_bus es) (EEof c)) as R. destruct (step P cf (e_bus es) (EEof c)) as [st' o]. cbn [fst snd] in R. apply H. exact R.
    - pose proof (record_one (e_bus es) (ETick d)) as R. destruct (step P cf (e_bus es) (ETick d)) as [st' o]. cbn [fst snd] in R. apply H. exact R.
  Qed.

  (* the whole script: the concatenated record is a run of the bus model from the start state *)
  Theorem env_run_is_run (es : estate (A:=A) (S:=S)) h :
    record_of (e_bus es) (e_bus (fst (env_run P cf es h))) (concat (snd (env_run P cf es h))).
  Proof.
    revert es. induction h as [|e r IH]; intros es; cbn [env_run]; [apply record_nil|].
    pose proof (env_step_record es e) as R1. destruct (env_step P cf es e) as [es1 o1]. cbn [fst snd] in R1.
    specialize (IH es1). destruct (env_run P cf es1 r) as [es2 o2]. cbn [fst snd concat] in *.
    eapply record_app; eassumption.
  Qed.
End EnvOk.
