(* C17: the clock arithmetic of _dbus_connection_block_pending_call
   (PendingCall/BlockTime.v) against "the timeout has expired", for all
   readings; and: a pass of the recheck loop that is told "not yet" never
   makes up a timeout error. *)
From Coq Require Import List NArith ZArith Bool Lia.
Import ListNotations.
From DV Require Import PendingCall.Pending PendingCall.BlockTime Spec.PendingSpec Proofs.PendingSerial Proofs.PendingLemmas Proofs.PendingInv
  Proofs.PendingRel Proofs.PendingCancel Proofs.PendingFault.
Local Open Scope Z_scope.

(* ---- elapsed_milliseconds ---- *)
Lemma us_diff s n : us_of n - us_of s = (tv_sec n - tv_sec s) * 1000000 + (tv_usec n - tv_usec s).
Proof. unfold us_of. lia. Qed.

Lemma quot_bounds a : a / 1000 <= Z.quot a 1000 <= a / 1000 + 1.
Proof.
  destruct (Z_le_gt_dec 0 a) as [H|H].
  - rewrite Z.quot_div_nonneg by lia. lia.
  - assert (E : Z.quot a 1000 = - ((- a) / 1000)).
    { rewrite <- (Z.opp_involutive a) at 1. rewrite Z.quot_opp_l by lia. rewrite Z.quot_div_nonneg by lia. reflexivity. }
    pose proof (Z.div_mod a 1000 ltac:(lia)) as D1. pose proof (Z.mod_pos_bound a 1000 ltac:(lia)) as M1.
    pose proof (Z.div_mod (- a) 1000 ltac:(lia)) as D2. pose proof (Z.mod_pos_bound (- a) 1000 ltac:(lia)) as M2. lia.
Qed.

Lemma quot_exact a : 0 <= a -> Z.quot a 1000 = a / 1000.
Proof. intros. apply Z.quot_div_nonneg; lia. Qed.

Lemma div_split ds du : (ds * 1000000 + du) / 1000 = ds * 1000 + du / 1000.
Proof. replace (ds * 1000000 + du) with (du + (ds * 1000) * 1000) by lia. rewrite Z.div_add by lia. lia. Qed.

(* the C expression is the true number of whole milliseconds, or one more *)
Theorem elapsed_bounds s n :
  (us_of n - us_of s) / 1000 <= elapsed_ms s n <= (us_of n - us_of s) / 1000 + 1.
Proof.
  unfold elapsed_ms. rewrite us_diff, div_split. pose proof (quot_bounds (tv_usec n - tv_usec s)). lia.
Qed.

(* ... exactly the whole milliseconds when the microsecond field did not go down *)
Theorem elapsed_exact s n : tv_usec s <= tv_usec n -> elapsed_ms s n = (us_of n - us_of s) / 1000.
Proof. intros H. unfold elapsed_ms. rewrite us_diff, div_split, quot_exact by lia. reflexivity. Qed.

(* ---- the decision ---- *)
(* whenever the timeout has expired the wait gives up ... *)
Theorem give_up_complete s n ms : expired s n ms -> give_up s n ms = true.
Proof.
  unfold expired, give_up. intros H. destruct (tv_sec n <? tv_sec s); [reflexivity|]. simpl.
  apply negb_true_iff, Z.ltb_ge. pose proof (elapsed_bounds s n) as [B _].
  assert (ms <= (us_of n - us_of s) / 1000) by (apply Z.div_le_lower_bound; lia). lia.
Qed.

(* ... and when it gives up (the seconds did not go down) all but the last millisecond of the timeout has passed *)
Theorem give_up_sound_partial s n ms :
  tv_sec s <= tv_sec n -> give_up s n ms = true -> us_of n - us_of s >= (ms - 1) * 1000.
Proof.
  unfold give_up. intros Hs H. assert ((tv_sec n <? tv_sec s) = false) as E by (apply Z.ltb_ge; lia). rewrite E in H. simpl in H.
  apply negb_true_iff, Z.ltb_ge in H. pose proof (elapsed_bounds s n) as [_ B].
  assert (ms - 1 <= (us_of n - us_of s) / 1000) by lia.
  pose proof (Z.mul_div_le (us_of n - us_of s) 1000 ltac:(lia)). nia.
Qed.

(* with no borrow from the seconds the decision is exactly "expired" *)
Theorem give_up_exact s n ms :
  tv_sec s <= tv_sec n -> tv_usec s <= tv_usec n -> (give_up s n ms = true <-> expired s n ms).
Proof.
  intros Hs Hu. split; [|apply give_up_complete]. unfold give_up, expired.
  assert ((tv_sec n <? tv_sec s) = false) as E by (apply Z.ltb_ge; lia). rewrite E. simpl. intros H.
  apply negb_true_iff, Z.ltb_ge in H. rewrite (elapsed_exact s n Hu) in H.
  pose proof (Z.mul_div_le (us_of n - us_of s) 1000 ltac:(lia)). nia.
Qed.

(* the literal claim fails even for a monotonic clock: truncation towards zero of a negative microsecond
   difference (501 us have passed, the C code counts 1 ms) *)
Lemma timeout_not_early_refuted_rounding : ~ C17_timeout_not_early_full_statement.
Proof.
  intros H. specialize (H (mkTv 0 999999) (mkTv 1 500) 1).
  unfold normal, expired, us_of in H. simpl in H. assert (E : give_up (mkTv 0 999999) (mkTv 1 500) 1 = true) by (vm_compute; reflexivity).
  specialize (H ltac:(lia) ltac:(lia) ltac:(lia) ltac:(lia) E). lia.
Qed.

(* the "clock set backward" branch of the C code: whenever the seconds of a reading are below those of the start the wait
   gives up, whatever the timeout.  With a monotonic clock no input reaches it; it is a statement about the code only. *)
Theorem clock_backward_branch s n ms : tv_sec n < tv_sec s -> give_up s n ms = true.
Proof. intros H. unfold give_up. apply Z.ltb_lt in H. rewrite H. reflexivity. Qed.

(* a monotonic, normalised clock never takes that branch *)
Theorem monotonic_never_backward s n : normal s -> normal n -> us_of s <= us_of n -> (tv_sec n <? tv_sec s) = false.
Proof. unfold normal, us_of. intros Hs Hn H. apply Z.ltb_ge. lia. Qed.

(* the timeout argument *)
Theorem effective_timeout_spec arg :
  effective_timeout arg = (if arg =? -1 then Some 25000 else if arg =? 2147483647 then None else Some arg).
Proof. reflexivity. Qed.

(* what poll() gets is never below -1 *)
Lemma poll_arg_range t : -1 <= poll_arg t /\ (0 <= t -> poll_arg t = t).
Proof. unfold poll_arg. destruct (t <? -1) eqn:E; [apply Z.ltb_lt in E|apply Z.ltb_ge in E]; lia. Qed.

(* ---- connected -> the disconnect message link is still there ---- *)
Local Open Scope N_scope.
Definition cd (st st' : state) : Prop :=
  (connected st' = true -> connected st = true) /\ (disc_link st' = disc_link st \/ connected st' = false).
Definition linked (st : state) : Prop := connected st = true -> disc_link st = true.

Lemma cd_refl st : cd st st. Proof. split; auto. Qed.
Lemma cd_trans a b c : cd a b -> cd b c -> cd a c.
Proof.
  intros [A1 A2] [B1 B2]. split; [auto|]. destruct B2 as [B2|B2]; [|auto]. destruct A2 as [A2|A2]; [left; congruence|].
  destruct (connected c) eqn:E; [|auto]. rewrite (B1 eq_refl) in A2. discriminate.
Qed.
Lemma linked_cd st st' : cd st st' -> linked st -> linked st'.
Proof. intros [A1 A2] L H. destruct A2 as [A2|A2]; [rewrite A2; auto|congruence]. Qed.

Lemma cd_same st st' : connected st' = connected st -> disc_link st' = disc_link st -> cd st st'.
Proof. intros A B. split; [congruence|auto]. Qed.

Lemma cd_queue_received st m : cd st (queue_received st m).
Proof. apply cd_same; reflexivity. Qed.
Lemma cd_fold w : forall st, cd st (fold_left queue_received w st).
Proof. induction w; intros; simpl; [apply cd_refl|eapply cd_trans; [apply cd_queue_received|apply IHw]]. Qed.
Lemma cd_u_read st : cd st (u_read st).
Proof.
  unfold u_read. destruct (connected st) eqn:E; [|apply cd_refl].
  assert (Q : cd st (fold_left queue_received (wire st) (set_wire st []))) by (eapply cd_trans; [|apply cd_fold]; apply cd_same; reflexivity).
  destruct (peer_closed st); [|exact Q]. split; simpl; [discriminate|auto].
Qed.
Lemma cd_u_status st : cd st (u_status st).
Proof.
  unfold u_status. destruct (queue st); [|apply cd_refl]. destruct (connected st) eqn:E; [apply cd_refl|].
  destruct (disc_link st); split; simpl; auto; congruence.
Qed.
Lemma cd_u_flush st : cd st (u_flush st).
Proof. unfold u_flush. eapply cd_trans; [|apply cd_u_status]. destruct (_ && _); [apply cd_u_read|apply cd_refl]. Qed.

Lemma cd_start_complete st i m : cd st (fst (start_complete st i m)).
Proof.
  destruct (start_complete st i m) as [s o] eqn:E. apply start_complete_result in E. simpl.
  destruct E as [-> _ _ | n -> _ _ | c x link _ _ _ _ -> _]; apply cd_same; reflexivity.
Qed.
Lemma cd_complete_status st i m :
  cd st (fst (let '(st1, o1) := start_complete st i m in (if fault st1 =? 0 then u_status st1 else st1, o1))).
Proof.
  pose proof (cd_start_complete st i m) as H. destruct (start_complete st i m) as [s o]. simpl in *.
  destruct (fault s =? 0); [eapply cd_trans; [exact H|apply cd_u_status]|exact H].
Qed.
Lemma cd_blk_check st i r : blk_check st i = Some r -> cd st (fst r).
Proof.
  unfold blk_check. destruct (nth_error (calls st) i) as [c|]; [|discriminate].
  destruct (find_reply (queue st) (c_serial c)) as [[m q']|]; [|discriminate].
  pose proof (cd_complete_status (set_queue st q') i (Some m)) as H.
  destruct (start_complete (set_queue st q') i (Some m)) as [s l]. intros E; inversion E; subst. simpl in *.
  eapply cd_trans; [|exact H]. apply cd_same; reflexivity.
Qed.
Lemma cd_timeout_complete st i : cd st (fst (timeout_complete st i)).
Proof. unfold timeout_complete. apply cd_complete_status. Qed.
Lemma cd_blk_recheck st i t : cd st (match blk_recheck st i t with inl r => fst r | inr s => s end).
Proof.
  unfold blk_recheck. pose proof (cd_u_status st) as Q. set (s1 := u_status st) in *.
  destruct (nth_error (calls s1) i) as [c|]; [|exact Q]. destruct (c_completed c); [exact Q|].
  destruct (blk_check s1 i) as [r|] eqn:E; [eapply cd_trans; [exact Q|eapply cd_blk_check; eauto]|].
  destruct (negb (connected s1)); [eapply cd_trans; [exact Q|apply cd_start_complete]|].
  destruct (negb (disc_link s1)); [eapply cd_trans; [exact Q|apply cd_timeout_complete]|].
  destruct (negb (c_finite c)); [exact Q|]. destruct (negb t); [exact Q|].
  eapply cd_trans; [exact Q|apply cd_timeout_complete].
Qed.
Lemma cd_blk_iter st f r : blk_iter st f = Some r -> cd st (fst r).
Proof.
  unfold blk_iter. destruct (negb (connected st)); [intros E; inversion E; apply cd_refl|].
  destruct (wire st); [|intros E; inversion E; apply cd_u_read].
  destruct (peer_closed st); [intros E; inversion E; apply cd_u_read|].
  destruct f; [intros E; inversion E; apply cd_refl|discriminate].
Qed.
Lemma cd_ev_block st i : cd st (fst (ev_block st i)).
Proof.
  unfold ev_block. destruct (nth_error (calls st) i) as [c|]; [|apply cd_refl]. destruct (c_completed c); [apply cd_refl|].
  pose proof (cd_u_flush st) as Q0. set (s0 := u_flush st) in *.
  destruct (blk_check s0 i) as [r|] eqn:E1; [eapply cd_trans; [exact Q0|eapply cd_blk_check; eauto]|].
  destruct (blk_iter s0 (c_finite c)) as [[st1 t1]|] eqn:E2; [|exact Q0].
  pose proof (cd_blk_iter _ _ _ E2) as Q1. simpl in Q1. pose proof (cd_blk_recheck st1 i t1) as Q2.
  destruct (blk_recheck st1 i t1) as [r|st2]; [eapply cd_trans; [exact Q0|eapply cd_trans; eauto]|].
  destruct (blk_iter st2 (c_finite c)) as [[st3 t2]|] eqn:E4; [|eapply cd_trans; [exact Q0|eapply cd_trans; eauto]].
  pose proof (cd_blk_iter _ _ _ E4) as Q3. simpl in Q3. pose proof (cd_blk_recheck st3 i (t1 || t2)) as Q4.
  assert (Q03 : cd st st3) by (eapply cd_trans; [exact Q0|eapply cd_trans; [exact Q1|eapply cd_trans; eauto]]).
  destruct (blk_recheck st3 i (t1 || t2)) as [r|st4]; simpl; eapply cd_trans; eauto.
Qed.
Lemma cd_ev_dispatch st : cd st (fst (ev_dispatch st)).
Proof.
  unfold ev_dispatch. pose proof (cd_u_status st) as Q. set (s1 := u_status st) in *.
  destruct (queue s1) as [|m q]; [exact Q|]. set (s2 := set_queue s1 q).
  assert (Q2 : cd st s2) by (eapply cd_trans; [exact Q|apply cd_same; reflexivity]).
  destruct (lookup (calls s2) (m_rs m)) as [i|].
  - pose proof (cd_start_complete s2 i (Some m)) as H. destruct (start_complete s2 i (Some m)) as [s3 o3]. simpl in H.
    destruct (fault s3 =? 0); simpl; [eapply cd_trans; [exact Q2|eapply cd_trans; [exact H|apply cd_u_status]]|eapply cd_trans; eauto].
  - destruct (fault s2 =? 0); simpl; [eapply cd_trans; [exact Q2|apply cd_u_status]|exact Q2].
Qed.

Theorem cd_step st e : cd st (fst (step st e)).
Proof.
  unfold step. destruct (negb (fault st =? 0)); [apply cd_refl|]. destruct e; simpl.
  - unfold ev_send. destruct (negb (connected st)); [apply cd_refl|]. unfold next_serial. simpl.
    eapply cd_trans; [|apply cd_u_status]. apply cd_same; reflexivity.
  - unfold ev_plain, next_serial. simpl. eapply cd_trans; [|apply cd_u_status]. apply cd_same; reflexivity.
  - unfold ev_peer. destruct (_ || _); [apply cd_refl|]. destruct k; try destruct (rs =? 0); apply cd_same; reflexivity.
  - destruct (nth_error (calls st) i) as [c|]; simpl; [|apply cd_refl]. unfold ev_peer. destruct (_ || _); [apply cd_refl|].
    destruct k; try destruct (c_serial c =? 0); apply cd_same; reflexivity.
  - apply cd_same; reflexivity.
  - unfold ev_read. destruct (connected (u_status st)); [eapply cd_trans; [apply cd_u_status|apply cd_u_read]|apply cd_u_status].
  - unfold ev_watch. destruct (connected st); simpl; [eapply cd_trans; [apply cd_u_read|apply cd_u_status]|apply cd_refl].
  - unfold ev_fire. destruct (nth_error (calls st) i) as [c|]; [destruct (c_tadded c)|]; simpl; try apply cd_refl.
    eapply cd_trans; [|apply cd_u_status]. apply cd_same; reflexivity.
  - unfold ev_cancel. destruct (nth_error (calls st) i); simpl; [apply cd_same; reflexivity|apply cd_refl].
  - apply cd_ev_block.
  - apply cd_ev_dispatch.
  - unfold ev_steal. destruct (nth_error (calls st) i) as [c|]; [destruct (c_completed c)|]; simpl; try apply cd_refl. apply cd_same; reflexivity.
  - unfold ev_local_close. destruct (connected st) eqn:E; [|apply cd_refl]. eapply cd_trans; [|apply cd_u_status]. split; simpl; [discriminate|auto].
  - unfold finish. destruct (nth_error (calls st) i) as [c|]; [destruct (c_inflight c)|]; simpl; try apply cd_refl. apply cd_same; reflexivity.
  - apply cd_u_status.
  - apply cd_u_read.
  - destruct (nth_error (calls st) i) as [c|]; [|apply cd_refl]. destruct (c_completed c); [apply cd_refl|].
    destruct (blk_check st i) as [r|] eqn:E; [eapply cd_blk_check; eauto|apply cd_refl].
  - pose proof (cd_blk_recheck st i timedout) as H. destruct (blk_recheck st i timedout) as [r|s2]; exact H.
Qed.

Theorem linked_run h : forall st, linked st -> linked (fst (run st h)).
Proof.
  induction h as [|e h IH]; intros st L; simpl; auto.
  pose proof (linked_cd _ _ (cd_step st e) L) as L1. destruct (step st e) as [st1 o1]. simpl in L1.
  specialize (IH st1 L1). destruct (run st1 h). exact IH.
Qed.

Lemma linked_init b : linked (init_at b). Proof. intros _. reflexivity. Qed.

Lemma sc_obs_msg st i y st' o j m : start_complete st i (Some y) = (st', o) -> In (OComplete j m) o -> m = y /\ j = i.
Proof.
  unfold start_complete. destruct (nth_error (calls st) i) as [c|]; [|intros E; inversion E; subst; intros []].
  destruct (c_reply c); [intros E; inversion E; subst; intros [H|[]]; discriminate|].
  destruct (negb (m_rs y =? c_serial c)); [intros E; inversion E; subst; intros [H|[]]; discriminate|].
  destruct (c_completed c); intros E; inversion E; subst; intros [H|[]]; try discriminate. inversion H; auto.
Qed.

(* ---- a pass of the recheck loop that is told "the timeout has not expired" never makes up the timeout error:
        whatever it completes the call with was in the incoming queue, or is the Disconnected error of a dead transport ---- *)
Theorem no_early_timeout b h i st' o j m :
  let st := fst (run (init_at b) h) in
  step st (EBlockStep i false) = (st', o) -> In (OComplete j m) o ->
  j = i /\ (In m (queue (u_status st)) \/ (connected (u_status st) = false /\ m_kind m = KDisconnected)).
Proof.
  intros st E Hin.
  assert (L : linked (u_status st)) by (apply (linked_cd _ _ (cd_u_status st)), linked_run, linked_init).
  unfold step in E. destruct (negb (fault st =? 0)); [inversion E; subst; destruct Hin as [H|[]]; discriminate|].
  unfold blk_recheck in E. set (s1 := u_status st) in *.
  destruct (nth_error (calls s1) i) as [c|] eqn:Hn; [|inversion E; subst; destruct Hin].
  destruct (c_completed c); [inversion E; subst; destruct Hin|].
  destruct (blk_check s1 i) as [[s l]|] eqn:Eb.
  { inversion E; subst. unfold blk_check in Eb. rewrite Hn in Eb.
    destruct (find_reply (queue s1) (c_serial c)) as [[x q']|] eqn:Ef; [|discriminate].
    destruct (start_complete (set_queue s1 q') i (Some x)) as [s3 o3] eqn:Es. inversion Eb; subst.
    destruct (sc_obs_msg _ _ _ _ _ _ _ Es Hin) as [-> ->]. split; [reflexivity|]. left.
    apply find_reply_some in Ef. tauto. }
  destruct (connected s1) eqn:Hc; simpl in E.
  - rewrite (L Hc) in E. simpl in E. destruct (negb (c_finite c)); inversion E; subst; destruct Hin.
  - inversion E as [E1]. destruct (sc_obs_msg _ _ _ _ _ _ _ E1 Hin) as [-> ->]. split; [reflexivity|]. right. split; reflexivity.
Qed.

(* ---- the timeout object: registered only for a call that is in the table, not completed, not cancelled, and still owns
        its timeout_link; a completed call has left the table and its timeout is gone -- in every reachable state ---- *)
Theorem timeout_lifecycle b h : valid_base b ->
  Forall (fun c => (c_tadded c = true -> c_intable c = true /\ c_completed c = false /\ c_cancelled c = false /\ c_link c = true) /\
                   (c_completed c = true -> c_intable c = false /\ c_tadded c = false))
         (calls (fst (run (init_at b) h))).
Proof.
  intros Hb. pose proof (r_ok _ _ _ (rel_trace b h Hb)) as Hok. eapply Forall_impl; [|exact Hok].
  intros c (H1 & H2 & H3 & H4 & H5). split.
  - intros Ht. pose proof (H3 Ht) as Hi. destruct (H1 Hi). auto.
  - intros Hc. destruct (c_intable c) eqn:Ei; [destruct (H1 eq_refl); congruence|]. split; auto.
    destruct (c_tadded c) eqn:Et; auto. specialize (H3 eq_refl). discriminate.
Qed.

(* ---- the timed wait is an interleaving of the events of Pending.v: every theorem about [run] applies to it ---- *)
Definition is_run (st : state) (r : tresult) : Prop := exists h, run st h = (t_state r, t_obs r).

Lemma run_one st e : run st [e] = step st e.
Proof. simpl. destruct (step st e). rewrite app_nil_r. reflexivity. Qed.

Lemma run_compose st a b s1 o1 s2 o2 : run st a = (s1, o1) -> run s1 b = (s2, o2) -> run st (a ++ b) = (s2, o1 ++ o2).
Proof. intros A B. rewrite run_app, A, B. reflexivity. Qed.

Lemma timed_round_run again st i t start clocks polls arr evs :
  (forall s cl ar tg, is_run s (again s cl ar tg)) ->
  is_run st (timed_round again st i t start clocks polls arr evs).
Proof.
  intros Hk. unfold timed_round, is_run.
  destruct (run st (evs ++ [EIter])) as [st1 o1] eqn:E1.
  destruct (reads_clock st1 i).
  - destruct clocks as [|now cl]; [exists (evs ++ [EIter]); exact E1|].
    set (g := match t with Some ms => give_up start now ms | None => false end).
    destruct (step st1 (EBlockStep i g)) as [st2 o2] eqn:E2.
    assert (R2 : run st ((evs ++ [EIter]) ++ [EBlockStep i g]) = (st2, o1 ++ o2)) by (eapply run_compose; [exact E1|rewrite run_one; exact E2]).
    destruct (open_call st2 i).
    + destruct (Hk st2 cl arr (block_ms t - elapsed_ms start now)%Z) as [h Hh]. simpl.
      exists (((evs ++ [EIter]) ++ [EBlockStep i g]) ++ h). rewrite app_assoc. eapply run_compose; eauto.
    + simpl. eexists; exact R2.
  - destruct (step st1 (EBlockStep i false)) as [st2 o2] eqn:E2. simpl.
    exists ((evs ++ [EIter]) ++ [EBlockStep i false]). eapply run_compose; [exact E1|rewrite run_one; exact E2].
Qed.

Lemma timed_loop_run fuel : forall st i t start clocks arr targ, is_run st (timed_loop fuel st i t start clocks arr targ).
Proof.
  induction fuel as [|f IH]; intros; simpl.
  - exists []. reflexivity.
  - assert (Hk : forall s cl ar tg, is_run s (timed_loop f s i t start cl ar tg)) by (intros; apply IH).
    destruct (would_wait st).
    + destruct arr as [|[|p b] rest].
      * destruct (targ <? 0)%Z; [exists []; reflexivity|apply timed_round_run; exact Hk].
      * destruct (targ <? 0)%Z; [exists []; reflexivity|apply timed_round_run; exact Hk].
      * apply timed_round_run; exact Hk.
    + apply timed_round_run; exact Hk.
Qed.

Theorem block_timed_run st i arg clocks arrivals : is_run st (block_timed st i arg clocks arrivals).
Proof.
  unfold block_timed.
  set (r := match nth_error (calls st) i with
            | None => mkT st [] [] Returned arrivals
            | Some c => _ end).
  assert (Hr : is_run st r).
  { unfold r. destruct (nth_error (calls st) i) as [c|]; [|exists []; reflexivity].
    destruct (c_completed c); [exists []; reflexivity|].
    set (pre := (if outgoing st && connected st then [EIter] else []) ++ [EStatus]).
    destruct (run st pre) as [s0 o0] eqn:E0.
    destruct clocks as [|start cl]; [exists pre; exact E0|].
    destruct (step s0 (EBlockCheck i)) as [s1 o1] eqn:E1.
    assert (R1 : run st (pre ++ [EBlockCheck i]) = (s1, o0 ++ o1)) by (eapply run_compose; [exact E0|rewrite run_one; exact E1]).
    destruct (open_call s1 i).
    - destruct (timed_loop_run (length (start :: cl) + length arrivals + 3) s1 i (effective_timeout arg) start cl arrivals
                               (block_ms (effective_timeout arg))) as [h Hh]. simpl.
      exists ((pre ++ [EBlockCheck i]) ++ h). rewrite app_assoc. eapply run_compose; eauto.
    - simpl. eexists; exact R1. }
  destruct Hr as [h Hh].
  destruct (run (t_state r) (peer_events (concat (t_rest r)))) as [s2 o2] eqn:E2.
  destruct (run s2 (inflight_from (calls s2) 0)) as [s3 o3] eqn:E3. simpl.
  exists ((h ++ peer_events (concat (t_rest r))) ++ inflight_from (calls s2) 0).
  rewrite app_assoc. eapply run_compose; [eapply run_compose; eauto|exact E3].
Qed.

(* so, e.g.: whatever the clock does and whatever arrives, a timed wait never assigns a reply slot twice *)
Theorem timed_block_at_most_once b h i arg clocks arrivals : valid_base b ->
  at_most_once (trace_at b h ++ t_obs (block_timed (fst (run (init_at b) h)) i arg clocks arrivals)).
Proof.
  intros Hb. destruct (block_timed_run (fst (run (init_at b) h)) i arg clocks arrivals) as [h' Hh'].
  pose proof (at_most_once_all b (h ++ h') Hb) as A. unfold trace_at in *. rewrite run_app in A.
  destruct (run (init_at b) h) as [s0 o0]. simpl in *. rewrite Hh' in A. simpl in A. exact A.
Qed.

(* ---- the order of the tests in recheck_status: the incoming queue is searched BEFORE the connection state is looked at.
        Whatever a pass completes the call with: if a message with the call's serial is queued it is that message (the first
        one); only when there is none can it be the Disconnected error or the call's own timeout error.  (Seeded defect C11_5
        swaps the two tests: then a reply read together with the end of the stream loses against Disconnected.) ---- *)
Lemma sc_obs_none st i st' o j m : start_complete st i None = (st', o) -> In (OComplete j m) o ->
  j = i /\ exists c, nth_error (calls st) i = Some c /\ m = noreply (c_serial c).
Proof.
  unfold start_complete. destruct (nth_error (calls st) i) as [c|]; [|intros E; inversion E; subst; intros []].
  destruct (c_link c); [|intros E; inversion E; subst; intros [H|[]]; discriminate].
  destruct (c_reply c); [intros E; inversion E; subst; intros [H|[]]; discriminate|].
  destruct (negb (m_rs (noreply (c_serial c)) =? c_serial c)); [intros E; inversion E; subst; intros [H|[]]; discriminate|].
  destruct (c_completed c); intros E; inversion E; subst; intros [H|[]]; try discriminate. inversion H; subst. eauto.
Qed.

Lemma tc_obs st i st' o j m c : nth_error (calls st) i = Some c -> timeout_complete st i = (st', o) -> In (OComplete j m) o ->
  j = i /\ m = noreply (c_serial c).
Proof.
  intros Hn Hr Hi. unfold timeout_complete in Hr. destruct (start_complete st i None) as [s3 o3] eqn:Es. inversion Hr; subst.
  destruct (sc_obs_none _ _ _ _ _ _ Es Hi) as [-> [c' [Hc' ->]]]. rewrite Hn in Hc'. inversion Hc'; subst. auto.
Qed.

Theorem reply_first st i g st' o j m :
  step st (EBlockStep i g) = (st', o) -> In (OComplete j m) o ->
  j = i /\ exists c, nth_error (calls (u_status st)) i = Some c /\
    match find_reply (queue (u_status st)) (c_serial c) with
    | Some (x, _) => m = x
    | None => m = disconnected_err (c_serial c) \/ m = noreply (c_serial c)
    end.
Proof.
  intros E Hin. unfold step in E. destruct (negb (fault st =? 0)); [inversion E; subst; destruct Hin as [H|[]]; discriminate|].
  unfold blk_recheck in E. set (s1 := u_status st) in *.
  destruct (nth_error (calls s1) i) as [c|] eqn:Hn; [|inversion E; subst; destruct Hin].
  destruct (c_completed c); [inversion E; subst; destruct Hin|].
  unfold blk_check in E. rewrite Hn in E.
  destruct (find_reply (queue s1) (c_serial c)) as [[x q']|] eqn:Ef.
  { destruct (start_complete (set_queue s1 q') i (Some x)) as [s3 o3] eqn:Es. inversion E; subst.
    destruct (sc_obs_msg _ _ _ _ _ _ _ Es Hin) as [-> ->]. split; [reflexivity|]. exists c. split; [reflexivity|]. rewrite Ef. reflexivity. }
  destruct (negb (connected s1)).
  { inversion E as [E1]. destruct (sc_obs_msg _ _ _ _ _ _ _ E1 Hin) as [-> ->]. split; [reflexivity|]. exists c. split; [reflexivity|]. rewrite Ef. auto. }
  destruct (negb (disc_link s1)).
  { destruct (timeout_complete s1 i) as [s3 o3] eqn:Et. inversion E; subst. destruct (tc_obs _ _ _ _ _ _ _ Hn Et Hin) as [-> ->].
    split; [reflexivity|]. exists c. split; [reflexivity|]. rewrite Ef. auto. }
  destruct (negb (c_finite c)); [inversion E; subst; destruct Hin|]. destruct (negb g); [inversion E; subst; destruct Hin|].
  destruct (timeout_complete s1 i) as [s3 o3] eqn:Et. inversion E; subst. destruct (tc_obs _ _ _ _ _ _ _ Hn Et Hin) as [-> ->].
  split; [reflexivity|]. exists c. split; [reflexivity|]. rewrite Ef. auto.
Qed.
