(* C17: basic facts about the model's primitives.  Each primitive is
   summarised by what it does to the "core" of every call (serial, notify
   function, completed, in-flight, cancelled) and by the per-call consistency
   predicate [call_ok]. *)
From Coq Require Import List NArith Bool Lia ZArith ZifyBool ZifyN ZifyNat.
Import ListNotations.
From DV Require Import PendingCall.Pending Spec.PendingSpec.
Local Open Scope N_scope.

(* ---- lists ---- *)
Lemma upd_length {A} (l : list A) i f : length (upd l i f) = length l.
Proof. revert i; induction l; intros [|i]; simpl; auto. Qed.

Lemma nth_error_upd_eq {A} (l : list A) i f x : nth_error l i = Some x -> nth_error (upd l i f) i = Some (f x).
Proof. revert i; induction l; intros [|i]; simpl; intros H; try discriminate; auto. inversion H; auto. Qed.

Lemma nth_error_upd_neq {A} (l : list A) i j f : i <> j -> nth_error (upd l i f) j = nth_error l j.
Proof. revert i j; induction l; intros [|i] [|j]; simpl; intros H; auto; try congruence. Qed.

Lemma nth_error_upd_none {A} (l : list A) i f : nth_error l i = None -> upd l i f = l.
Proof. revert i; induction l; intros [|i]; simpl; intros H; try discriminate; auto. f_equal; auto. Qed.

Lemma map_upd {A B} (g : A -> B) (h : B -> B) l i f : (forall x, g (f x) = h (g x)) -> map g (upd l i f) = upd (map g l) i h.
Proof. intros H. revert i; induction l; intros [|i]; simpl; auto; f_equal; auto. Qed.

Lemma map_upd_same {A B} (g : A -> B) l i f : (forall x, g (f x) = g x) -> map g (upd l i f) = map g l.
Proof. intros H. revert i; induction l; intros [|i]; simpl; auto; f_equal; auto. Qed.

Lemma Forall_upd {A} (P : A -> Prop) l i f : Forall P l -> (forall x, nth_error l i = Some x -> P x -> P (f x)) -> Forall P (upd l i f).
Proof.
  intros H. revert i; induction H as [|x l Hx Hl IH]; intros i Hf.
  - destruct i; simpl; constructor.
  - destruct i; simpl; constructor.
    + apply Hf; [reflexivity|exact Hx].
    + exact Hl.
    + exact Hx.
    + apply IH. intros y Hy. apply Hf. exact Hy.
Qed.

Lemma Forall_nth_error {A} (P : A -> Prop) l i x : Forall P l -> nth_error l i = Some x -> P x.
Proof. intros H Hn. apply nth_error_In in Hn. rewrite Forall_forall in H; auto. Qed.

Lemma upd_id {A} (l : list A) i f : (forall x, nth_error l i = Some x -> f x = x) -> upd l i f = l.
Proof.
  revert i; induction l as [|a l IH]; intros i H; destruct i; simpl; auto.
  - f_equal. apply H; reflexivity.
  - f_equal. apply IH. intros x Hx. apply H. exact Hx.
Qed.

(* ---- cores ---- *)
Record core := mkCore { k_serial : N; k_hasnotify : bool; k_completed : bool; k_inflight : bool; k_cancelled : bool }.
Definition core_of (c : call) : core := mkCore (c_serial c) (c_hasnotify c) (c_completed c) (c_inflight c) (c_cancelled c).
Definition cores (st : state) : list core := map core_of (calls st).

Definition k_start (k : core) : core := mkCore (k_serial k) (k_hasnotify k) true true (k_cancelled k).
Definition k_finish (k : core) : core := mkCore (k_serial k) (k_hasnotify k) (k_completed k) false (k_cancelled k).
Definition k_cancel (k : core) : core := mkCore (k_serial k) (k_hasnotify k) (k_completed k) (k_inflight k) true.

Definition call_ok (c : call) : Prop :=
  (c_intable c = true -> c_completed c = false /\ c_cancelled c = false) /\
  (c_inflight c = true -> c_completed c = true) /\
  (c_tadded c = true -> c_intable c = true) /\
  (c_completed c = false -> c_reply c = None) /\
  (c_tadded c = true -> c_link c = true).

Definition calls_ok (st : state) : Prop := Forall call_ok (calls st).

Lemma core_unhash c : core_of (unhash c) = core_of c. Proof. reflexivity. Qed.
Lemma core_set_tadded b c : core_of (set_tadded b c) = core_of c. Proof. reflexivity. Qed.
Lemma core_set_link b c : core_of (set_link b c) = core_of c. Proof. reflexivity. Qed.
Lemma core_set_reply r c : core_of (set_reply r c) = core_of c. Proof. reflexivity. Qed.

Lemma ok_unhash c : call_ok c -> call_ok (unhash c).
Proof. unfold call_ok; simpl. intuition congruence. Qed.
Lemma ok_set_tadded_false c : call_ok c -> call_ok (set_tadded false c).
Proof. unfold call_ok; simpl. intuition congruence. Qed.
Lemma ok_fire c : call_ok c -> call_ok (set_tadded false (set_link false c)).
Proof. unfold call_ok; simpl. intuition congruence. Qed.
Lemma ok_batch c : call_ok c -> call_ok (unhash (set_link false c)).
Proof. unfold call_ok; simpl. intuition congruence. Qed.
Lemma ok_set_reply_none c : call_ok c -> call_ok (set_reply None c).
Proof. unfold call_ok; simpl. intuition congruence. Qed.
Lemma ok_set_finished c : call_ok c -> call_ok (set_finished c).
Proof. unfold call_ok; simpl. intuition congruence. Qed.
Lemma ok_started x link c : call_ok (unhash (set_started x link c)).
Proof. unfold call_ok; simpl. intuition congruence. Qed.
Lemma ok_cancelled c : call_ok c -> c_intable c = false -> call_ok (set_cancelled true (set_tadded false c)).
Proof. unfold call_ok; simpl. intuition congruence. Qed.

(* ---- lookup / detach ---- *)
Definition detach_fn (s : N) (c : call) : call := if c_intable c && (c_serial c =? s) then unhash c else c.

Lemma detach_serial_map l s : detach_serial l s = map (detach_fn s) l.
Proof. reflexivity. Qed.

Lemma core_detach_fn s c : core_of (detach_fn s c) = core_of c.
Proof. unfold detach_fn. destruct (_ && _); reflexivity. Qed.
Lemma ok_detach_fn s c : call_ok c -> call_ok (detach_fn s c).
Proof. unfold detach_fn. destruct (_ && _); auto using ok_unhash. Qed.

Lemma cores_detach l s : map core_of (detach_serial l s) = map core_of l.
Proof. rewrite detach_serial_map, map_map. apply map_ext. apply core_detach_fn. Qed.
Lemma ok_detach l s : Forall call_ok l -> Forall call_ok (detach_serial l s).
Proof. intros H. rewrite detach_serial_map. apply Forall_map. eapply Forall_impl; [|exact H]. apply ok_detach_fn. Qed.

Lemma lookup_some l s i : lookup l s = Some i -> exists c, nth_error l i = Some c /\ c_intable c = true /\ c_serial c = s.
Proof.
  revert i; induction l as [|c l IH]; simpl; intros i H; [discriminate|].
  destruct (c_intable c && (c_serial c =? s)) eqn:E.
  - inversion H; subst. exists c. apply andb_true_iff in E. destruct E as [E1 E2]. apply N.eqb_eq in E2. auto.
  - destruct (lookup l s) as [j|] eqn:Ej; simpl in H; [|discriminate]. inversion H; subst. simpl. apply IH. reflexivity.
Qed.

Lemma lookup_none l s : lookup l s = None -> forall c, In c l -> c_intable c = true -> c_serial c <> s.
Proof.
  induction l as [|c l IH]; simpl; intros H c' Hin Ht; [contradiction|].
  destruct (c_intable c && (c_serial c =? s)) eqn:E; [discriminate|].
  destruct (lookup l s) eqn:Ej; simpl in H; [discriminate|].
  destruct Hin as [<-|Hin]; [|apply IH; auto].
  rewrite Ht in E. simpl in E. apply N.eqb_neq in E. exact E.
Qed.

(* with distinct serials, lookup finds THE call *)
Lemma lookup_unique l s i c : NoDup (map c_serial l) -> nth_error l i = Some c -> c_intable c = true -> c_serial c = s -> lookup l s = Some i.
Proof.
  revert i; induction l as [|d l IH]; intros [|i] Hnd Hn Ht Hs; simpl in *; try discriminate.
  - inversion Hn; subst. rewrite Ht, N.eqb_refl. reflexivity.
  - inversion Hnd; subst. destruct (c_intable d && (c_serial d =? c_serial c)) eqn:E.
    + apply andb_true_iff in E. destruct E as [_ E]. apply N.eqb_eq in E. exfalso. apply H1. rewrite E.
      apply in_map. eapply nth_error_In; eauto.
    + rewrite (IH i); auto.
Qed.

Lemma nth_error_nodup_serial l i j c d : NoDup (map c_serial l) -> nth_error l i = Some c -> nth_error l j = Some d -> c_serial c = c_serial d -> i = j.
Proof.
  intros Hnd Hi Hj E.
  assert (Hi' : nth_error (map c_serial l) i = Some (c_serial c)) by (rewrite nth_error_map, Hi; reflexivity).
  assert (Hj' : nth_error (map c_serial l) j = Some (c_serial d)) by (rewrite nth_error_map, Hj; reflexivity).
  rewrite <- E in Hj'. rewrite NoDup_nth_error in Hnd. apply Hnd; [|congruence].
  apply nth_error_Some. rewrite Hi'. discriminate.
Qed.

(* ---- quiet primitives: cores and the serial counter stay, call_ok is kept ---- *)
Definition quiet (st st' : state) : Prop :=
  cores st' = cores st /\ serial st' = serial st /\ fault st' = fault st /\ (calls_ok st -> calls_ok st').

Lemma quiet_refl st : quiet st st.
Proof. unfold quiet; auto. Qed.
Lemma quiet_trans a b c : quiet a b -> quiet b c -> quiet a c.
Proof. unfold quiet. intros (?&?&?&?) (?&?&?&?). repeat split; try congruence; auto. Qed.

Lemma quiet_queue_received st m : quiet st (queue_received st m).
Proof.
  unfold quiet, queue_received, cores, calls_ok; simpl.
  destruct (m_rs m =? 0); [auto|]. destruct (lookup (calls st) (m_rs m)); [|auto].
  repeat split; auto.
  - apply map_upd_same. reflexivity.
  - intros H. apply Forall_upd; auto. intros; apply ok_set_tadded_false; auto.
Qed.

Lemma quiet_fold_received w st : quiet st (fold_left queue_received w st).
Proof.
  revert st; induction w as [|m w IH]; intros st; simpl; [apply quiet_refl|].
  eapply quiet_trans; [apply quiet_queue_received|apply IH].
Qed.

Lemma quiet_u_read st : quiet st (u_read st).
Proof.
  unfold u_read. destruct (connected st); [|apply quiet_refl].
  assert (Q : quiet st (fold_left queue_received (wire st) (set_wire st []))).
  { eapply quiet_trans; [|apply quiet_fold_received]. unfold quiet, cores, calls_ok; simpl; auto. }
  destruct (peer_closed st); [|exact Q].
  eapply quiet_trans; [exact Q|]. unfold quiet, cores, calls_ok; simpl; auto.
Qed.

Lemma core_batch c : core_of (if c_intable c then unhash (set_link false c) else c) = core_of c.
Proof. destruct (c_intable c); reflexivity. Qed.

Lemma quiet_u_status st : quiet st (u_status st).
Proof.
  unfold u_status. destruct (queue st); [|apply quiet_refl].
  destruct (connected st); [apply quiet_refl|].
  destruct (disc_link st); unfold quiet, cores, calls_ok; simpl; repeat split; auto.
  - unfold batch_upd. rewrite map_map. apply map_ext. apply core_batch.
  - intros H. unfold batch_upd. apply Forall_map. eapply Forall_impl; [|exact H].
    intros c Hc. destruct (c_intable c); auto using ok_batch.
Qed.

Lemma quiet_u_flush st : quiet st (u_flush st).
Proof.
  unfold u_flush. eapply quiet_trans; [|apply quiet_u_status].
  destruct (outgoing st && connected st); [apply quiet_u_read|apply quiet_refl].
Qed.

Lemma quiet_set_queue st q : quiet st (set_queue st q).
Proof. unfold quiet, cores, calls_ok; simpl; auto. Qed.
Lemma quiet_set_fault_calls st n : cores (set_fault st n) = cores st /\ serial (set_fault st n) = serial st /\ (calls_ok st -> calls_ok (set_fault st n)).
Proof. unfold cores, calls_ok; simpl; auto. Qed.

(* ---- completion ---- *)
Lemma start_calls_eq cs i c x link :
  nth_error cs i = Some c ->
  upd (detach_serial (upd cs i (set_started x link)) (c_serial c)) i (set_tadded false)
  = upd (detach_serial cs (c_serial c)) i (fun c => unhash (set_started x link c)).
Proof.
  revert i; induction cs as [|d cs IH]; intros [|i] H; simpl in *; try discriminate.
  - inversion H; subst. f_equal. unfold set_started, unhash, set_tadded, set_intable; simpl.
    destruct (c_intable c); rewrite ?N.eqb_refl; simpl; reflexivity.
  - f_equal. apply IH. exact H.
Qed.

(* what one call of start_complete can do *)
Inductive sc_result (st : state) (i : nat) (st' : state) (o : list obs) : Prop :=
| sc_none : st' = st -> o = [] -> nth_error (calls st) i = None -> sc_result st i st' o
| sc_fault n : st' = set_fault st n -> n <> 0 -> o = [OFault] -> sc_result st i st' o
| sc_done c x link :
    nth_error (calls st) i = Some c -> c_completed c = false -> c_reply c = None -> m_rs x = c_serial c ->
    st' = set_calls st (upd (detach_serial (calls st) (c_serial c)) i (fun c => unhash (set_started x link c))) ->
    o = [OComplete i x] -> sc_result st i st' o.

Lemma start_complete_result st i m st' o : start_complete st i m = (st', o) -> sc_result st i st' o.
Proof.
  unfold start_complete. destruct (nth_error (calls st) i) as [c|] eqn:Hn.
  2:{ intros H; inversion H; subst. apply sc_none; auto. }
  destruct (match m with Some x => Some x | None => if c_link c then Some (noreply (c_serial c)) else None end) as [x|] eqn:Hx.
  2:{ intros H; inversion H; subst. eapply sc_fault; eauto. discriminate. }
  destruct (c_reply c) eqn:Hr.
  { intros H; inversion H; subst. eapply sc_fault; eauto. discriminate. }
  destruct (m_rs x =? c_serial c) eqn:Hs; simpl.
  2:{ intros H; inversion H; subst. eapply sc_fault; eauto. discriminate. }
  destruct (c_completed c) eqn:Hc.
  { intros H; inversion H; subst. eapply sc_fault; eauto. discriminate. }
  intros H; inversion H; subst. apply N.eqb_eq in Hs.
  eapply sc_done with (c := c); eauto. rewrite start_calls_eq by exact Hn. reflexivity.
Qed.

(* the link flag the completed call ends up with is irrelevant for cores *)
Lemma cores_done st i c x link :
  nth_error (calls st) i = Some c ->
  map core_of (upd (detach_serial (calls st) (c_serial c)) i (fun c => unhash (set_started x link c))) = upd (cores st) i k_start.
Proof.
  intros Hn. unfold cores. rewrite <- (cores_detach (calls st) (c_serial c)).
  apply map_upd. reflexivity.
Qed.

Lemma ok_done st i s x link : calls_ok st -> Forall call_ok (upd (detach_serial (calls st) s) i (fun c => unhash (set_started x link c))).
Proof. intros H. apply Forall_upd; [apply ok_detach; exact H|]. intros. apply ok_started. Qed.
