(* Composition of the writer, loader and reader models: what a sender appends through the
   DBusTypeWriter model, serialised as the canonical message, is framed and accepted by the
   loader model (followed by any bytes, with enough descriptors), and the receiver's
   DBusTypeReader model reads back exactly the appended values. *)
From DV Require Import Lib.Base Spec.Codec Wire.Body Wire.Message Wire.HeaderEdit Wire.Reader Wire.Writer.
From DV Require Import Proofs.CodecMessage Proofs.LoaderSound Proofs.LoaderComplete Proofs.WireClean Proofs.WireClean2 Proofs.ReaderProofs Proofs.WriterProofs.
Local Open Scope N_scope.

Theorem writer_loader_reader m rest avail :
  wf_msg m = true -> spec_nfds (s_fields m) <= avail ->
  let E := spec_encode_message m in
  run_writer (s_le m) (ops_of_vals (s_body m)) = Some (m_bodyb m, s_sig m) /\
  have_message DBUS_MAXIMUM_MESSAGE_LENGTH (E ++ rest) = HaveOk (s_le m) (m_flen m) (m_hlen m) (m_blen m) true /\
  exists msg,
    load_message (s_le m) (m_flen m) (m_hlen m) (m_blen m) avail (E ++ rest) = inl msg /\
    m_header msg ++ m_body msg = E /\
    m_body msg = m_bodyb m /\
    read_all (s_le m) (s_sig m) (m_body msg) = inl (s_body m).
Proof.
  intros W Hf. cbv zeta.
  split; [exact (writer_correct_msg m W)|].
  destruct (loader_complete_clean m rest avail W Hf) as (Hh & hs & _ & Hl & He). cbv zeta in *.
  split; [exact Hh|].
  eexists. split; [exact Hl|]. cbn [m_header m_body].
  split; [exact He|]. split; [reflexivity|].
  apply (reader_msg m). apply (proj1 (wf_msg_iff m)) in W. exact (proj1 W).
Qed.
Print Assumptions writer_loader_reader.

(* ---- header edits in front of the chain: an edited (e.g. sender-stamped) message, re-serialised, is accepted by
   the loader and read by the receiver with exactly the body and signature it had before the edits ---- *)
From DV Require Import Proofs.CodecWf Proofs.EditProofs.

Theorem edited_message_received m es rest avail :
  let m' := fold_left apply_edit es m in
  wf_msg m' = true -> spec_nfds (s_fields m') <= avail ->
  exists msg,
    load_message (s_le m) (m_flen m') (m_hlen m') (m_blen m') avail (spec_encode_message m' ++ rest) = inl msg /\
    m_header msg ++ m_body msg = spec_encode_message m' /\
    m_body msg = encs (s_le m) (s_body m) 0 /\
    read_all (s_le m) (s_sig m) (m_body msg) = inl (s_body m).
Proof.
  intros m' W Hf.
  destruct (edits_frame es m) as (Ele & _ & _ & _ & Esig & Ebody). fold m' in Ele, Esig, Ebody.
  destruct (writer_loader_reader m' rest avail W Hf) as (_ & _ & msg & Hl & He & Hb & Hr). cbv zeta in *.
  exists msg. unfold m_bodyb in Hb. rewrite Ele, Ebody in Hb. rewrite Ele, Esig, Ebody in Hr. rewrite Ele in Hl.
  repeat split; assumption.
Qed.
Print Assumptions edited_message_received.

(* ---- byte-order conversion in front of the chain: the bytes produced by the model of
   _dbus_header_byteswap + _dbus_marshal_byteswap from a message in one order are accepted by the loader as a
   message in the other order, and the reader reads the same values ---- *)
From DV Require Import Wire.Byteswap Proofs.ByteswapProofs.

Theorem byteswapped_message_received m rest avail :
  wf_msg m = true -> spec_nfds (s_fields m) <= avail ->
  let m' := swap_order m in
  exists b msg,
    byteswap_message (spec_encode_message m) = Some b /\
    load_message (negb (s_le m)) (m_flen m') (m_hlen m') (m_blen m') avail (b ++ rest) = inl msg /\
    m_header msg ++ m_body msg = b /\
    read_all (negb (s_le m)) (s_sig m) (m_body msg) = inl (s_body m).
Proof.
  intros W Hf m'.
  pose proof (byteswap_message_correct m W) as Hb.
  destruct (byteswap_message_decodes m _ W Hb) as (_ & Ef & Eb & Es & _ & _ & _ & Ele). fold m' in Ef, Eb, Es, Ele.
  assert (W' : wf_msg m' = true) by (unfold m'; rewrite wf_msg_swap; exact W).
  assert (Hf' : spec_nfds (s_fields m') <= avail) by (rewrite Ef; exact Hf).
  destruct (writer_loader_reader m' rest avail W' Hf') as (_ & _ & msg & Hl & He & _ & Hr). cbv zeta in *.
  exists (spec_encode_message m'), msg. rewrite Ele, ?Es, ?Eb in *.
  repeat split; assumption.
Qed.
Print Assumptions byteswapped_message_received.
