(* Composition of the writer, loader and reader models: what a sender appends through the
   DBusTypeWriter model, serialised as the canonical message, is framed and accepted by the
   loader model (followed by any bytes, with enough descriptors), and the receiver's
   DBusTypeReader model reads back exactly the appended values. *)
From DV Require Import Lib.Base Spec.Codec Wire.Body Wire.Message Wire.HeaderEdit Wire.Reader Wire.Writer.
From DV Require Import Proofs.CodecMessage Proofs.LoaderSound Proofs.LoaderComplete Proofs.WireClean Proofs.WireClean2 Proofs.ReaderProofs Proofs.WriterProofs.
Local Open Scope N_scope.

Theorem writer_loader_reader m rest avail :
  wf_msg m = true -> spec_nfds (s_fields m) <= avail ->
  let E := spec_encode_message m in
  run_writer (s_le m) (ops_of_vals (s_body m)) = Some (m_bodyb m, s_sig m) /\
  have_message DBUS_MAXIMUM_MESSAGE_LENGTH (E ++ rest) = HaveOk (s_le m) (m_flen m) (m_hlen m) (m_blen m) true /\
  exists msg,
    load_message (s_le m) (m_flen m) (m_hlen m) (m_blen m) avail (E ++ rest) = inl msg /\
    m_header msg ++ m_body msg = E /\
    m_body msg = m_bodyb m /\
    read_all (s_le m) (s_sig m) (m_body msg) = inl (s_body m).
Proof.
  intros W Hf. cbv zeta.
  split; [exact (writer_correct_msg m W)|].
  destruct (loader_complete_clean m rest avail W Hf) as (Hh & hs & _ & Hl & He). cbv zeta in *.
  split; [exact Hh|].
  eexists. split; [exact Hl|]. cbn [m_header m_body].
  split; [exact He|]. split; [reflexivity|].
  apply (reader_msg m). apply (proj1 (wf_msg_iff m)) in W. exact (proj1 W).
Qed.
Print Assumptions writer_loader_reader.

(* ---- header edits in front of the chain: an edited (e.g. sender-stamped) message, re-serialised, is accepted by
   the loader and read by the receiver with exactly the body and signature it had before the edits ---- *)
From DV Require Import Proofs.CodecWf Proofs.EditProofs.

Theorem edited_message_received m es rest avail :
  let m' := fold_left apply_edit es m in
  wf_msg m' = true -> spec_nfds (s_fields m') <= avail ->
  exists msg,
    load_message (s_le m) (m_flen m') (m_hlen m') (m_blen m') avail (spec_encode_message m' ++ rest) = inl msg /\
    m_header msg ++ m_body msg = spec_encode_message m' /\
    m_body msg = encs (s_le m) (s_body m) 0 /\
    read_all (s_le m) (s_sig m) (m_body msg) = inl (s_body m).
Proof.
  intros m' W Hf.
  destruct (edits_frame es m) as (Ele & _ & _ & _ & Esig & Ebody). fold m' in Ele, Esig, Ebody.
  destruct (writer_loader_reader m' rest avail W Hf) as (_ & _ & msg & Hl & He & Hb & Hr). cbv zeta in *.
  exists msg. unfold m_bodyb in Hb. rewrite Ele, Ebody in Hb. rewrite Ele, Esig, Ebody in Hr. rewrite Ele in Hl.
  repeat split; assumption.
Qed.
Print Assumptions edited_message_received.

(* ---- byte-order conversion in front of the chain: the bytes produced by the model of
   _dbus_header_byteswap + _dbus_marshal_byteswap from a message in one order are accepted by the loader as a
   message in the other order, and the reader reads the same values ---- *)
From DV Require Import Wire.Byteswap Proofs.ByteswapProofs.

Theorem byteswapped_message_received m rest avail :
  wf_msg m = true -> spec_nfds (s_fields m) <= avail ->
  let m' := swap_order m in
  exists b msg,
    byteswap_message (spec_encode_message m) = Some b /\
    load_message (negb (s_le m)) (m_flen m') (m_hlen m') (m_blen m') avail (b ++ rest) = inl msg /\
    m_header msg ++ m_body msg = b /\
    read_all (negb (s_le m)) (s_sig m) (m_body msg) = inl (s_body m).
Proof.
  intros W Hf m'.
  pose proof (byteswap_message_correct m W) as Hb.
  destruct (byteswap_message_decodes m _ W Hb) as (_ & Ef & Eb & Es & _ & _ & _ & Ele). fold m' in Ef, Eb, Es, Ele.
  assert (W' : wf_msg m' = true) by (unfold m'; rewrite wf_msg_swap; exact W).
  assert (Hf' : spec_nfds (s_fields m') <= avail) by (rewrite Ef; exact Hf).
  destruct (writer_loader_reader m' rest avail W' Hf') as (_ & _ & msg & Hl & He & _ & Hr). cbv zeta in *.
  exists (spec_encode_message m'), msg. rewrite Ele, ?Es, ?Eb in *.
  repeat split; assumption.
Qed.
Print Assumptions byteswapped_message_received.

(* ---- streams: any number of well-formed messages back to back, cut into reads at arbitrary places:
   the loader queues exactly one message per message sent, in order, each with exactly its bytes, never
   declares corruption and leaves no byte over; the reader reads every body back ---- *)
From DV Require Import Proofs.LoaderProofs Proofs.LoadLocal.
From Coq Require Import Lia ZifyN ZifyNat.

Definition delivered (m : smsg) (msg : message) : Prop :=
  m_header msg ++ m_body msg = spec_encode_message m /\ m_body msg = m_bodyb m /\ m_nfds msg = 0 /\
  Forall2 (hf_ok (s_le m)) (s_fields m) (m_fields msg) /\
  read_all (s_le m) (s_sig m) (m_body msg) = inl (s_body m).

Definition sendable (m : smsg) : Prop := wf_msg m = true /\ spec_nfds (s_fields m) = 0.

Lemma qm_stream : forall ms f msgs0, Forall sendable ms ->
  (length (concat (map spec_encode_message ms)) < f)%nat ->
  exists msgs,
    queue_messages f (mkLoader (concat (map spec_encode_message ms)) false V_VALID msgs0 0 DBUS_MAXIMUM_MESSAGE_LENGTH)
    = mkLoader [] false V_VALID (msgs0 ++ msgs) 0 DBUS_MAXIMUM_MESSAGE_LENGTH /\ Forall2 delivered ms msgs.
Proof.
  induction ms as [|m ms IH]; intros f msgs0 HS Hf.
  - exists []. rewrite app_nil_r. split; [|constructor].
    apply qm_short; cbn; [reflexivity|lia].
  - inversion HS as [|? ? [W Hn] HS']; subst.
    destruct f as [|f]; [lia|]. cbn [map concat] in *.
    set (rest := concat (map spec_encode_message ms)) in *.
    destruct (loader_complete_clean m rest 0 W ltac:(lia)) as (Hh & hs & HF & Hl & He). cbv zeta in *.
    rewrite qm_S. cbn [l_buf l_corrupted l_reason l_msgs l_fds l_max].
    pose proof (encode_len m) as HL.
    replace (nlen (spec_encode_message m ++ rest) <? DBUS_MINIMUM_HEADER_SIZE) with false
      by (rewrite nlen_app, HL; unfold m_hlen; change DBUS_MINIMUM_HEADER_SIZE with 16; lia).
    rewrite Hh, Hl. cbn [m_nfds].
    rewrite skipn_app_exact by (rewrite <- HL; symmetry; apply nlen_len). rewrite Hn. change (0 - 0) with 0.
    assert (Hf' : (length rest < f)%nat).
    { rewrite app_length in Hf. assert (16 <= nlen (spec_encode_message m)) by (rewrite HL; unfold m_hlen; lia).
      unfold nlen in *. lia. }
    destruct (IH f (msgs0 ++ [mkMsg (firstn (N.to_nat (m_hlen m)) (spec_encode_message m)) (m_bodyb m) hs 0]) HS' Hf') as (msgs & E & F2).
    eexists (_ :: msgs). rewrite E, <- app_assoc. split; [reflexivity|].
    constructor; [|exact F2]. unfold delivered. cbn [m_header m_body m_nfds m_fields].
    split; [exact He|]. split; [reflexivity|]. split; [reflexivity|]. split; [exact HF|].
    apply (reader_msg m). exact (proj1 (proj1 (wf_msg_iff m) W)).
Qed.

Theorem stream_delivery ms chunks : Forall sendable ms ->
  concat chunks = concat (map spec_encode_message ms) ->
  exists msgs, outcome (feed_all loader_new chunks) = (false, msgs) /\ Forall2 delivered ms msgs.
Proof.
  intros HS Hc. rewrite chunking_unconditional, Hc.
  unfold feed, loader_new. cbn [l_buf l_corrupted l_reason l_msgs l_fds l_max app]. change (0 + 0) with 0.
  destruct (qm_stream ms (S (length (concat (map spec_encode_message ms)))) [] HS ltac:(lia)) as (msgs & E & F2).
  exists msgs. rewrite E. split; [reflexivity|exact F2].
Qed.
Print Assumptions stream_delivery.

(* non-vacuity: two different messages (one with a nested body), cut inside the first fixed header, inside the
   first body and inside the second header *)
Definition ex_stream_a : smsg :=
  build true 4 0 7 [ESet 1 (VStr 111 [47;97]); ESet 2 (VStr 115 [97;46;98]); ESet 3 (VStr 115 [83])]
        [VNum 121 5; VStr 115 [104;105]; VArr (TBasic 105) [VNum 105 1; VNum 105 2]; VVar (TBasic 115) (VStr 115 [97])].
Definition ex_stream_b : smsg :=
  build false 1 0 9 [ESet 1 (VStr 111 [47]); ESet 3 (VStr 115 [77])] [].
Definition ex_stream_bytes := spec_encode_message ex_stream_a ++ spec_encode_message ex_stream_b.
Definition ex_stream_chunks : list bytes :=
  [firstn 5 ex_stream_bytes; firstn 90 (skipn 5 ex_stream_bytes); firstn 30 (skipn 95 ex_stream_bytes); skipn 125 ex_stream_bytes].
Example ex_stream_premises :
  wf_msg ex_stream_a = true /\ spec_nfds (s_fields ex_stream_a) = 0 /\
  wf_msg ex_stream_b = true /\ spec_nfds (s_fields ex_stream_b) = 0 /\
  concat ex_stream_chunks = concat (map spec_encode_message [ex_stream_a; ex_stream_b]) /\
  Nat.ltb 125 (length ex_stream_bytes) = true /\
  length (l_msgs (feed_all loader_new ex_stream_chunks)) = 2%nat.
Proof. vm_compute. repeat split; try reflexivity. Qed.

(* ---- the same with a message still in flight at the end of what has arrived ---- *)

(* a message still in flight: a proper prefix of the serialisation of a sendable message (or nothing) *)
Definition in_flight (tail : bytes) : Prop :=
  tail = [] \/ exists m c, sendable m /\ tail ++ c = spec_encode_message m /\ c <> [].

Lemma qm_in_flight f tail r msgs0 : in_flight tail ->
  queue_messages f (mkLoader tail false r msgs0 0 DBUS_MAXIMUM_MESSAGE_LENGTH)
  = mkLoader tail false r msgs0 0 DBUS_MAXIMUM_MESSAGE_LENGTH.
Proof.
  intros [->|(m & c & [W Hn] & E & Hc)]; [apply qm_short; cbn; [reflexivity|lia]|].
  destruct f as [|f]; [reflexivity|]. rewrite qm_S. cbn [l_buf l_corrupted l_reason l_msgs l_fds l_max].
  destruct (nlen tail <? DBUS_MINIMUM_HEADER_SIZE) eqn:Hs; [reflexivity|].
  change DBUS_MINIMUM_HEADER_SIZE with 16 in Hs.
  destruct (loader_complete_clean m [] 0 W ltac:(lia)) as (Hh & _). cbv zeta in Hh. rewrite app_nil_r, <- E in Hh.
  assert (H16 : (16 <= length tail)%nat) by (unfold nlen in Hs; lia).
  rewrite (have_message_app _ tail c H16) in Hh.
  destruct (have_message DBUS_MAXIMUM_MESSAGE_LENGTH tail) as [rr|le fl hl bl b] eqn:Ht; [discriminate|].
  injection Hh as -> -> -> -> _.
  destruct (have_ok_inv _ _ _ _ _ _ _ Ht) as [_ ->].
  pose proof (encode_len m) as HL. rewrite <- E, nlen_app in HL.
  assert (0 < nlen c) by (destruct c; [congruence|unfold nlen; cbn; lia]).
  replace (m_blen m + m_hlen m <=? nlen tail) with false by lia. reflexivity.
Qed.

Lemma qm_stream_tail : forall ms f msgs0 tail, Forall sendable ms -> in_flight tail ->
  (length (concat (map spec_encode_message ms) ++ tail) < f)%nat ->
  exists msgs,
    queue_messages f (mkLoader (concat (map spec_encode_message ms) ++ tail) false V_VALID msgs0 0 DBUS_MAXIMUM_MESSAGE_LENGTH)
    = mkLoader tail false V_VALID (msgs0 ++ msgs) 0 DBUS_MAXIMUM_MESSAGE_LENGTH /\ Forall2 delivered ms msgs.
Proof.
  induction ms as [|m ms IH]; intros f msgs0 tail HS HT Hf.
  - exists []. rewrite app_nil_r. split; [|constructor]. cbn [map concat app]. apply qm_in_flight. exact HT.
  - inversion HS as [|? ? [W Hn] HS']; subst.
    destruct f as [|f]; [lia|]. cbn [map concat] in *. rewrite <- app_assoc in *.
    set (rest := concat (map spec_encode_message ms) ++ tail) in *.
    destruct (loader_complete_clean m rest 0 W ltac:(lia)) as (Hh & hs & HF & Hl & He). cbv zeta in *.
    rewrite qm_S. cbn [l_buf l_corrupted l_reason l_msgs l_fds l_max].
    pose proof (encode_len m) as HL.
    replace (nlen (spec_encode_message m ++ rest) <? DBUS_MINIMUM_HEADER_SIZE) with false
      by (rewrite nlen_app, HL; unfold m_hlen; change DBUS_MINIMUM_HEADER_SIZE with 16; lia).
    rewrite Hh, Hl. cbn [m_nfds].
    rewrite skipn_app_exact by (rewrite <- HL; symmetry; apply nlen_len). rewrite Hn. change (0 - 0) with 0.
    assert (Hf' : (length rest < f)%nat).
    { rewrite app_length in Hf. assert (16 <= nlen (spec_encode_message m)) by (rewrite HL; unfold m_hlen; lia).
      unfold nlen in *. lia. }
    destruct (IH f (msgs0 ++ [mkMsg (firstn (N.to_nat (m_hlen m)) (spec_encode_message m)) (m_bodyb m) hs 0]) tail HS' HT Hf') as (msgs & E & F2).
    fold rest in E.
    eexists (_ :: msgs). rewrite E, <- app_assoc. split; [reflexivity|].
    constructor; [|exact F2]. unfold delivered. cbn [m_header m_body m_nfds m_fields].
    split; [exact He|]. split; [reflexivity|]. split; [reflexivity|]. split; [exact HF|].
    apply (reader_msg m). exact (proj1 (proj1 (wf_msg_iff m) W)).
Qed.

Theorem stream_delivery_in_flight ms tail chunks : Forall sendable ms -> in_flight tail ->
  concat chunks = concat (map spec_encode_message ms) ++ tail ->
  exists msgs, outcome (feed_all loader_new chunks) = (false, msgs) /\ Forall2 delivered ms msgs /\
    l_buf (feed loader_new (concat chunks) 0) = tail.
Proof.
  intros HS HT Hc. rewrite chunking_unconditional, Hc.
  unfold feed, loader_new. cbn [l_buf l_corrupted l_reason l_msgs l_fds l_max app]. change (0 + 0) with 0.
  destruct (qm_stream_tail ms (S (length (concat (map spec_encode_message ms) ++ tail))) [] tail HS HT ltac:(lia)) as (msgs & E & F2).
  exists msgs. rewrite E. split; [reflexivity|]. split; [exact F2|reflexivity].
Qed.
Print Assumptions stream_delivery_in_flight.

Example ex_in_flight : in_flight (firstn 20 (spec_encode_message ex_stream_b)) /\ in_flight (firstn 7 (spec_encode_message ex_stream_a)).
Proof.
  split; right.
  - exists ex_stream_b, (skipn 20 (spec_encode_message ex_stream_b)). split; [split; vm_compute; reflexivity|].
    split; [apply firstn_skipn|vm_compute; discriminate].
  - exists ex_stream_a, (skipn 7 (spec_encode_message ex_stream_a)). split; [split; vm_compute; reflexivity|].
    split; [apply firstn_skipn|vm_compute; discriminate].
Qed.

(* ---- valid messages, then garbage ---- *)

(* peeling the complete, well-formed messages off the front of ANY buffer *)
Lemma qm_peel : forall ms f msgs0 tail, Forall sendable ms ->
  (length (concat (map spec_encode_message ms) ++ tail) < f)%nat ->
  exists msgs f', Forall2 delivered ms msgs /\ (length tail < f')%nat /\
    queue_messages f (mkLoader (concat (map spec_encode_message ms) ++ tail) false V_VALID msgs0 0 DBUS_MAXIMUM_MESSAGE_LENGTH)
    = queue_messages f' (mkLoader tail false V_VALID (msgs0 ++ msgs) 0 DBUS_MAXIMUM_MESSAGE_LENGTH).
Proof.
  induction ms as [|m ms IH]; intros f msgs0 tail HS Hf.
  - exists [], f. rewrite app_nil_r. split; [constructor|]. split; [exact Hf|reflexivity].
  - inversion HS as [|? ? [W Hn] HS']; subst.
    destruct f as [|f]; [lia|]. cbn [map concat] in *. rewrite <- app_assoc in *.
    set (rest := concat (map spec_encode_message ms) ++ tail) in *.
    destruct (loader_complete_clean m rest 0 W ltac:(lia)) as (Hh & hs & HF & Hl & He). cbv zeta in *.
    rewrite qm_S. cbn [l_buf l_corrupted l_reason l_msgs l_fds l_max].
    pose proof (encode_len m) as HL.
    replace (nlen (spec_encode_message m ++ rest) <? DBUS_MINIMUM_HEADER_SIZE) with false
      by (rewrite nlen_app, HL; unfold m_hlen; change DBUS_MINIMUM_HEADER_SIZE with 16; lia).
    rewrite Hh, Hl. cbn [m_nfds].
    rewrite skipn_app_exact by (rewrite <- HL; symmetry; apply nlen_len). rewrite Hn. change (0 - 0) with 0.
    assert (Hf' : (length rest < f)%nat).
    { rewrite app_length in Hf. assert (16 <= nlen (spec_encode_message m)) by (rewrite HL; unfold m_hlen; lia).
      unfold nlen in *. lia. }
    destruct (IH f (msgs0 ++ [mkMsg (firstn (N.to_nat (m_hlen m)) (spec_encode_message m)) (m_bodyb m) hs 0]) tail HS' Hf') as (msgs & f' & F2 & Hlt & E).
    fold rest in E.
    eexists (_ :: msgs), f'. rewrite E, <- app_assoc. split; [|split; [exact Hlt|reflexivity]].
    constructor; [|exact F2]. unfold delivered. cbn [m_header m_body m_nfds m_fields].
    split; [exact He|]. split; [reflexivity|]. split; [reflexivity|]. split; [exact HF|].
    apply (reader_msg m). exact (proj1 (proj1 (wf_msg_iff m) W)).
Qed.

(* valid messages followed by bytes whose fixed header the framing test rejects: the valid ones are all delivered,
   then the connection is declared corrupt; nothing of [bad] becomes a message, whatever follows it *)
Theorem stream_then_corruption ms bad chunks r : Forall sendable ms ->
  16 <= nlen bad -> have_message DBUS_MAXIMUM_MESSAGE_LENGTH bad = HaveInvalid r ->
  concat chunks = concat (map spec_encode_message ms) ++ bad ->
  exists msgs, outcome (feed_all loader_new chunks) = (true, msgs) /\ Forall2 delivered ms msgs.
Proof.
  intros HS H16 Hbad Hc. rewrite chunking_unconditional, Hc.
  unfold feed, loader_new. cbn [l_buf l_corrupted l_reason l_msgs l_fds l_max app]. change (0 + 0) with 0.
  destruct (qm_peel ms (S (length (concat (map spec_encode_message ms) ++ bad))) [] bad HS ltac:(lia)) as (msgs & f' & F2 & Hlt & E).
  exists msgs. rewrite E. split; [|exact F2].
  destruct f' as [|f']; [lia|]. rewrite qm_S. cbn [l_buf l_corrupted l_reason l_msgs l_fds l_max app].
  replace (nlen bad <? DBUS_MINIMUM_HEADER_SIZE) with false by (change DBUS_MINIMUM_HEADER_SIZE with 16; lia).
  rewrite Hbad. reflexivity.
Qed.
Print Assumptions stream_then_corruption.

Example ex_bad_header : exists r, have_message DBUS_MAXIMUM_MESSAGE_LENGTH (repeat 0 16 ++ [1;2;3]) = HaveInvalid r.
Proof. eexists. vm_compute. reflexivity. Qed.

From DV Require Import Proofs.ReadLimit.

(* the same stream taken from the socket by the transport's reading loop under the loader's read limit *)
Theorem stream_delivery_limited ms : Forall sendable ms ->
  let d := concat (map spec_encode_message ms) in
  exists l' msgs, feed_limited (S (length d)) loader_new d 0 = inl l' /\
    outcome l' = (false, msgs) /\ Forall2 delivered ms msgs.
Proof.
  intros HS d.
  destruct (feed_limited_correct loader_new d 0) as (l' & Hl & Ho).
  change (norm loader_new) with loader_new in Hl, Ho.
  destruct (stream_delivery ms [d] HS) as (msgs & Hm & F2); [cbn [concat]; apply app_nil_r|].
  cbn [feed_all fold_left] in Hm.
  exists l', msgs. split; [exact Hl|]. split; [rewrite Ho; exact Hm|exact F2].
Qed.
Print Assumptions stream_delivery_limited.
