(* C19, bus part: the invariant that ties the model's table of pending
   activations to the observable trace (the "ledger"), and its preservation by
   every step.  Hypothesis throughout: the service table names well-known names
   only ([wk_services]); without it the invariant is false (finding F19.1, see
   Proofs/ActivationMain.v for the refutation). *)
From DV Require Import Lib.Base Activation.Activation Spec.ActivationSpec Proofs.ActivationBase.
From Coq Require Import ZifyBool ZifyN ZifyNat Permutation.
Local Open Scope N_scope.

Record Inv (cf : cfg) (st : state) (tr : trace) : Prop := mkInv {
  i_conn : forall c, connected st c = live tr c;
  i_nconn : st.(st_next_conn) = n_connects tr;
  i_id : st.(st_next_id) = n_calls tr;
  i_fated_lt : forall i, In i (fated tr) -> i < n_calls tr;
  i_fated_nodup : NoDup (fated tr);
  i_names : NoDup (map p_name st.(st_pend));
  i_sids : NoDup (map p_sid st.(st_pend));
  i_sid_lt : forall p, In p st.(st_pend) -> p.(p_sid) < st.(st_next_sid);
  i_ledger : forall n, pend_entries st.(st_pend) n = map entry_of (waiting tr n);
  i_nonempty : forall p, In p st.(st_pend) -> p.(p_entries) <> [];
  i_unowned : forall p, In p st.(st_pend) -> owner_of st p.(p_name) = None;
  i_wk : forall p, In p st.(st_pend) -> exists k, p.(p_name) = Wk k;
  i_svcs : wk_list st.(st_services)
}.

Lemma inv_start cf : wk_services cf -> Inv cf (start cf) [].
Proof.
  intros W. constructor; simpl; try (intros; contradiction); try constructor; try reflexivity. exact W.
Qed.

(* ---------------------------------------------------------------- consequences *)
Section Consequences.
Variables (cf : cfg) (st : state) (tr : trace).
Hypothesis I : Inv cf st tr.

Lemma inv_entries p : In p st.(st_pend) -> p.(p_entries) = map entry_of (waiting tr p.(p_name)).
Proof.
  intros Hp. rewrite <- (i_ledger _ _ _ I). unfold pend_entries.
  rewrite (find_pending_unique p.(p_name) st.(st_pend) p); auto. apply I.
Qed.

Lemma inv_ids_of p : In p st.(st_pend) -> ids_of p = map c_id (waiting tr p.(p_name)).
Proof.
  intros Hp. unfold ids_of. rewrite (inv_entries p Hp). rewrite map_map. reflexivity.
Qed.

Lemma inv_unfated i : In i (all_ids st.(st_pend)) -> ~ In i (fated tr) /\ i < n_calls tr.
Proof.
  unfold all_ids. intros H. apply in_flat_map in H. destruct H as [p [Hp Hi]].
  rewrite (inv_ids_of p Hp) in Hi. apply in_map_iff in Hi. destruct Hi as [c [<- Hc]].
  split; [eapply waiting_ids_unfated; eauto | eapply waiting_id_lt; eauto].
Qed.

Lemma waiting_disjoint n m c c' : n <> m -> In c (waiting tr n) -> In c' (waiting tr m) -> c.(c_id) <> c'.(c_id).
Proof.
  intros Hne Hc Hc' E.
  assert (c = c').
  { eapply (NoDup_map_inj c_id (calls tr)); [apply calls_ids | | | exact E].
    - unfold waiting in Hc. apply filter_In in Hc. tauto.
    - unfold waiting in Hc'. apply filter_In in Hc'. tauto. }
  subst c'. apply waiting_dest in Hc. apply waiting_dest in Hc'. congruence.
Qed.

Lemma inv_pend_nodup : NoDup st.(st_pend).
Proof. eapply NoDup_map_inv. apply (i_names _ _ _ I). Qed.

Lemma inv_ids_disjoint p q i : In p st.(st_pend) -> In q st.(st_pend) -> p <> q -> In i (ids_of p) -> ~ In i (ids_of q).
Proof.
  intros Hp Hq Hne Hi Hi'.
  rewrite (inv_ids_of p Hp) in Hi. rewrite (inv_ids_of q Hq) in Hi'.
  apply in_map_iff in Hi. destruct Hi as [c [E Hc]].
  apply in_map_iff in Hi'. destruct Hi' as [c' [E' Hc']].
  assert (p_name p <> p_name q).
  { intros En. apply Hne. eapply (NoDup_map_inj p_name); eauto. apply I. }
  eapply (waiting_disjoint (p_name p) (p_name q)); eauto. congruence.
Qed.

Lemma inv_all_ids_nodup : NoDup (all_ids st.(st_pend)).
Proof.
  unfold all_ids.
  assert (forall l, incl l st.(st_pend) -> NoDup l -> NoDup (flat_map ids_of l)) as H.
  { induction l as [|p l IH]; simpl; intros Hi Hn; [constructor|].
    inversion Hn; subst. apply NoDup_app_intro.
    - rewrite inv_ids_of by (apply Hi; left; reflexivity). apply waiting_nodup.
    - apply IH; auto. intros x Hx. apply Hi. right. exact Hx.
    - intros i Hi1 Hi2. apply in_flat_map in Hi2. destruct Hi2 as [q [Hq Hi2]].
      eapply (inv_ids_disjoint p q i); eauto.
      + apply Hi. left. reflexivity.
      + apply Hi. right. exact Hq.
      + intros ->. contradiction. }
  apply H; [apply incl_refl | apply inv_pend_nodup].
Qed.

Lemma inv_find_none_waiting n : find_pending n st.(st_pend) = None -> waiting tr n = [].
Proof.
  intros H. pose proof (i_ledger _ _ _ I n) as L. unfold pend_entries in L. rewrite H in L.
  destruct (waiting tr n); [reflexivity | discriminate].
Qed.

Lemma inv_waiting_none n : waiting tr n = [] -> find_pending n st.(st_pend) = None.
Proof.
  intros H. destruct (find_pending n st.(st_pend)) as [p|] eqn:F; [|reflexivity].
  apply find_pending_In in F. destruct F as [Hp <-].
  exfalso. apply (i_nonempty _ _ _ I p Hp). rewrite (inv_entries p Hp), H. reflexivity.
Qed.

End Consequences.

(* ---------------------------------------------------------------- generic preservation of the ledger when the table does not change *)
Lemma ledger_frame tr e o l :
  (forall i, In i (fated tr) -> i < n_calls tr) ->
  (forall c, In c (call_of (n_calls tr) e) -> In c.(c_id) (fates o)) ->
  (forall i, In i (fates o) -> n_calls tr <= i) ->
  (forall n, pend_entries l n = map entry_of (waiting tr n)) ->
  forall n, pend_entries l n = map entry_of (waiting (tr ++ [(e, o)]) n).
Proof.
  intros Hlt Hnew Hfresh L n. rewrite waiting_snoc by exact Hlt. rewrite L.
  rewrite filter_all, filter_none, app_nil_r; [reflexivity | |].
  - intros c Hc. apply andb_false_iff. right. apply negb_false_iff. apply mem_In. apply Hnew. exact Hc.
  - intros c Hc. apply negb_true_iff. apply mem_false. intros Hin.
    apply Hfresh in Hin. apply waiting_id_lt in Hc. lia.
Qed.

Lemma n_calls_snoc tr e o : n_calls (tr ++ [(e, o)]) = n_calls tr + nlen (call_of (n_calls tr) e).
Proof. unfold n_calls. rewrite calls_snoc, nlen_app. reflexivity. Qed.

(* fates of a step: fresh id only, or ids of the table *)
Lemma fated_ok_fresh tr e o :
  (forall i, In i (fated tr) -> i < n_calls tr) -> NoDup (fated tr) ->
  (fates o = [] \/ (fates o = [n_calls tr] /\ call_of (n_calls tr) e <> [])) ->
  (forall i, In i (fated (tr ++ [(e, o)])) -> i < n_calls (tr ++ [(e, o)])) /\ NoDup (fated (tr ++ [(e, o)])).
Proof.
  intros Hlt Hnd H. rewrite fated_snoc, n_calls_snoc. split.
  - intros i Hi. apply in_app_iff in Hi. destruct Hi as [Hi|Hi].
    + specialize (Hlt i Hi). lia.
    + destruct H as [H|[H Hc]]; rewrite H in Hi; [contradiction|].
      destruct Hi as [<-|[]]. destruct (call_of (n_calls tr) e) eqn:E; [congruence|].
      unfold nlen. simpl length. lia.
  - destruct H as [H|[H _]]; rewrite H; [rewrite app_nil_r; exact Hnd|].
    apply NoDup_app_intro; [exact Hnd | repeat constructor; simpl; tauto |].
    intros x Hx [<-|[]]. specialize (Hlt _ Hx). lia.
Qed.

Lemma fated_ok_table tr e o (l : list pending) :
  (forall i, In i (fated tr) -> i < n_calls tr) -> NoDup (fated tr) ->
  (forall i, In i (all_ids l) -> ~ In i (fated tr) /\ i < n_calls tr) ->
  NoDup (fates o) -> (forall i, In i (fates o) -> In i (all_ids l)) ->
  (forall i, In i (fated (tr ++ [(e, o)])) -> i < n_calls (tr ++ [(e, o)])) /\ NoDup (fated (tr ++ [(e, o)])).
Proof.
  intros Hlt Hnd Hun Hn Hsub. rewrite fated_snoc, n_calls_snoc. split.
  - intros i Hi. apply in_app_iff in Hi. destruct Hi as [Hi|Hi].
    + specialize (Hlt i Hi). lia.
    + apply Hsub, Hun in Hi. lia.
  - apply NoDup_app_intro; auto. intros x Hx Hin. apply Hsub, Hun in Hin. tauto.
Qed.

(* ---------------------------------------------------------------- steps that leave the table alone *)
Lemma assoc_none k l : assoc k l = None <-> (forall v, ~ In (k, v) l).
Proof.
  induction l as [|[k' v'] l IH]; simpl.
  - split; [intros _ v [] | reflexivity].
  - destruct (k' =? k) eqn:E.
    + apply N.eqb_eq in E. subst k'. split; [discriminate|]. intros H. exfalso. apply (H v'). left. reflexivity.
    + rewrite IH. apply N.eqb_neq in E. split.
      * intros H v [H1|H1]; [inversion H1; congruence | exact (H v H1)].
      * intros H v H1. apply (H v). right. exact H1.
Qed.

Lemma assoc_filter_none k (f : N * N -> bool) l : assoc k l = None -> assoc k (filter f l) = None.
Proof.
  rewrite !assoc_none. intros H v Hin. apply filter_In in Hin. apply (H v). tauto.
Qed.

Lemma assoc_some_in k l v : assoc k l = Some v -> In (k, v) l.
Proof.
  induction l as [|[k' v'] l IH]; simpl; [discriminate|].
  destruct (k' =? k) eqn:E; [|intros H; right; auto].
  apply N.eqb_eq in E. subst. intros H. inversion H. left. reflexivity.
Qed.

Lemma inv_frame_gen cf st tr e o st' :
  Inv cf st tr ->
  call_of (n_calls tr) e = [] -> fates o = [] ->
  st'.(st_pend) = st.(st_pend) -> st'.(st_next_sid) = st.(st_next_sid) -> st'.(st_next_id) = st.(st_next_id) ->
  (forall c, connected st' c = live_step c (n_connects tr) e (connected st c)) ->
  st'.(st_next_conn) = st.(st_next_conn) + (if is_connect e then 1 else 0) ->
  (forall p, In p st.(st_pend) -> owner_of st' p.(p_name) = None) ->
  wk_list st'.(st_services) ->
  Inv cf st' (tr ++ [(e, o)]).
Proof.
  intros I Hc Hf Hp Hs Hi Hconn Hn Ho Hsv.
  destruct (fated_ok_fresh tr e o (i_fated_lt _ _ _ I) (i_fated_nodup _ _ _ I) (or_introl Hf)) as [F1 F2].
  constructor; try rewrite Hp; try apply I; auto.
  - intros c. rewrite Hconn, live_snoc. rewrite (i_conn _ _ _ I). reflexivity.
  - rewrite Hn, n_connects_snoc, (i_nconn _ _ _ I). reflexivity.
  - rewrite Hi, n_calls_snoc, Hc, (i_id _ _ _ I). unfold nlen. simpl. lia.
  - rewrite Hs. apply I.
  - apply ledger_frame; try apply I.
    + rewrite Hc. intros c [].
    + rewrite Hf. intros i [].
Qed.

Lemma inv_frame cf st tr e o st' :
  Inv cf st tr ->
  call_of (n_calls tr) e = [] -> fates o = [] ->
  st'.(st_pend) = st.(st_pend) -> st'.(st_next_sid) = st.(st_next_sid) -> st'.(st_next_id) = st.(st_next_id) ->
  (forall c, connected st' c = live_step c (n_connects tr) e (connected st c)) ->
  st'.(st_next_conn) = st.(st_next_conn) + (if is_connect e then 1 else 0) ->
  (forall p, In p st.(st_pend) -> owner_of st' p.(p_name) = None) ->
  st'.(st_services) = st.(st_services) ->
  Inv cf st' (tr ++ [(e, o)]).
Proof.
  intros I Hc Hf Hp Hs Hi Hconn Hn Ho Hsv. eapply inv_frame_gen; eauto. rewrite Hsv. apply I.
Qed.

Lemma unowned_assoc cf st tr st' :
  Inv cf st tr -> (forall k, assoc k st.(st_owners) = None -> assoc k st'.(st_owners) = None) ->
  forall p, In p st.(st_pend) -> owner_of st' p.(p_name) = None.
Proof.
  intros I Ho p Hin. destruct (i_wk _ _ _ I p Hin) as [k E]. rewrite E. simpl. apply Ho.
  pose proof (i_unowned _ _ _ I p Hin) as U. rewrite E in U. exact U.
Qed.

(* a call that meets its fate at once *)
Lemma inv_call_immediate cf st tr e o st' :
  Inv cf st tr ->
  call_of (n_calls tr) e <> [] -> fates o = [n_calls tr] ->
  st'.(st_pend) = st.(st_pend) -> st'.(st_next_sid) = st.(st_next_sid) -> st'.(st_next_id) = st.(st_next_id) + 1 ->
  st'.(st_conns) = st.(st_conns) -> st'.(st_next_conn) = st.(st_next_conn) -> st'.(st_owners) = st.(st_owners) ->
  st'.(st_services) = st.(st_services) ->
  Inv cf st' (tr ++ [(e, o)]).
Proof.
  intros I Hc Hf Hp Hs Hi Hconn Hn Ho Hsv.
  destruct (fated_ok_fresh tr e o (i_fated_lt _ _ _ I) (i_fated_nodup _ _ _ I) (or_intror (conj Hf Hc))) as [F1 F2].
  assert (is_connect e = false /\ (forall c, live_step c (n_connects tr) e (live tr c) = live tr c) /\ nlen (call_of (n_calls tr) e) = 1) as [E1 [E2 E3]].
  { destruct e; simpl in Hc; try congruence; repeat split. }
  constructor; try rewrite Hp; try apply I; auto.
  - intros c. unfold connected. rewrite Hconn. rewrite live_snoc, E2. apply I.
  - rewrite Hn, n_connects_snoc, E1, (i_nconn _ _ _ I). lia.
  - rewrite Hi, n_calls_snoc, E3, (i_id _ _ _ I). reflexivity.
  - rewrite Hs. apply I.
  - apply ledger_frame; try apply I.
    + intros c Hin. apply call_of_id in Hin. rewrite Hf, Hin. left. reflexivity.
    + rewrite Hf. intros i [<-|[]]. lia.
  - intros p Hin. pose proof (i_unowned _ _ _ I p Hin) as U.
    destruct (p_name p); simpl in *; unfold connected in *; rewrite ?Hconn, ?Ho; exact U.
  - rewrite Hsv. apply I.
Qed.

Lemma filter_mem_nil (l : list call) : filter (fun c => negb (mem c.(c_id) [])) l = l.
Proof. apply filter_all. intros; reflexivity. Qed.

(* a call that joins the pending activation of its name *)
Lemma inv_call_join cf st tr e o st' c n p :
  Inv cf st tr ->
  call_of (n_calls tr) e = [c] -> c.(c_dest) = n -> fates o = [] ->
  find_pending n st.(st_pend) = Some p ->
  st'.(st_pend) = add_entry n (entry_of c) st.(st_pend) -> st'.(st_next_sid) = st.(st_next_sid) -> st'.(st_next_id) = st.(st_next_id) + 1 ->
  st'.(st_conns) = st.(st_conns) -> st'.(st_next_conn) = st.(st_next_conn) -> st'.(st_owners) = st.(st_owners) ->
  st'.(st_services) = st.(st_services) ->
  Inv cf st' (tr ++ [(e, o)]).
Proof.
  intros I Hc Hd Hf Hfind Hp Hs Hi Hconn Hn Ho Hsv.
  destruct (fated_ok_fresh tr e o (i_fated_lt _ _ _ I) (i_fated_nodup _ _ _ I) (or_introl Hf)) as [F1 F2].
  assert (is_connect e = false /\ (forall x, live_step x (n_connects tr) e (live tr x) = live tr x)) as [E1 E2].
  { destruct e; simpl in Hc; try congruence; repeat split. }
  assert (forall q, In q st'.(st_pend) -> exists q0, In q0 st.(st_pend) /\ p_name q = p_name q0 /\ p_sid q = p_sid q0 /\ p_entries q <> []) as Hq.
  { intros q Hin. rewrite Hp in Hin. apply add_entry_In in Hin. destruct Hin as [Hin|[q0 [H1 [H2 ->]]]].
    - exists q. repeat split; auto. apply (i_nonempty _ _ _ I q Hin).
    - exists q0. simpl. repeat split; auto. destruct (p_entries q0); discriminate. }
  constructor; auto.
  - intros x. unfold connected. rewrite Hconn. rewrite live_snoc, E2. apply I.
  - rewrite Hn, n_connects_snoc, E1, (i_nconn _ _ _ I). lia.
  - rewrite Hi, n_calls_snoc, Hc, (i_id _ _ _ I). reflexivity.
  - rewrite Hp, add_entry_names. apply I.
  - rewrite Hp, add_entry_sids. apply I.
  - intros q Hin. destruct (Hq q Hin) as [q0 [H1 [_ [H2 _]]]]. rewrite H2, Hs. apply (i_sid_lt _ _ _ I q0 H1).
  - intros m. rewrite waiting_snoc by apply I. rewrite Hf, filter_mem_nil, Hc. rewrite Hp. unfold pend_entries.
    destruct (bname_eqb n m) eqn:E.
    + apply bname_eqb_eq in E. subst m. rewrite (find_pending_add_same n _ _ p Hfind). simpl.
      rewrite Hd, bname_eqb_refl. simpl. rewrite map_app. simpl.
      pose proof (i_ledger _ _ _ I n) as L. unfold pend_entries in L. rewrite Hfind in L. rewrite L. reflexivity.
    + apply bname_eqb_neq in E. rewrite find_pending_add_other by congruence. simpl.
      rewrite Hd. assert (bname_eqb n m = false) as -> by (apply bname_eqb_neq; exact E). simpl.
      rewrite app_nil_r. apply (i_ledger _ _ _ I m).
  - intros q Hin. destruct (Hq q Hin) as [_ [_ [_ [_ H]]]]. exact H.
  - intros q Hin. destruct (Hq q Hin) as [q0 [H1 [H2 _]]]. rewrite H2.
    pose proof (i_unowned _ _ _ I q0 H1) as U.
    destruct (p_name q0); simpl in *; unfold connected in *; rewrite ?Hconn, ?Ho; exact U.
  - intros q Hin. destruct (Hq q Hin) as [q0 [H1 [H2 _]]]. rewrite H2. apply (i_wk _ _ _ I q0 H1).
  - rewrite Hsv. apply I.
Qed.

(* a call that opens a new pending activation *)
Lemma inv_call_new cf st tr e o st' c n x :
  Inv cf st tr ->
  call_of (n_calls tr) e = [c] -> c.(c_dest) = n -> fates o = [] ->
  find_pending n st.(st_pend) = None -> owner_of st n = None -> (exists k, n = Wk k) ->
  st'.(st_pend) = st.(st_pend) ++ [mkPending n x st.(st_next_sid) [entry_of c]] ->
  st'.(st_next_sid) = st.(st_next_sid) + 1 -> st'.(st_next_id) = st.(st_next_id) + 1 ->
  st'.(st_conns) = st.(st_conns) -> st'.(st_next_conn) = st.(st_next_conn) -> st'.(st_owners) = st.(st_owners) ->
  st'.(st_services) = st.(st_services) ->
  Inv cf st' (tr ++ [(e, o)]).
Proof.
  intros I Hc Hd Hf Hfind Hown Hwk Hp Hs Hi Hconn Hn Ho Hsv.
  destruct (fated_ok_fresh tr e o (i_fated_lt _ _ _ I) (i_fated_nodup _ _ _ I) (or_introl Hf)) as [F1 F2].
  assert (is_connect e = false /\ (forall y, live_step y (n_connects tr) e (live tr y) = live tr y)) as [E1 E2].
  { destruct e; simpl in Hc; try congruence; repeat split. }
  assert (forall y k, owner_of st y = None -> y = Wk k -> owner_of st' y = None) as Hown'.
  { intros y k U ->. simpl in *. rewrite Ho. exact U. }
  constructor; auto.
  - intros y. unfold connected. rewrite Hconn. rewrite live_snoc, E2. apply I.
  - rewrite Hn, n_connects_snoc, E1, (i_nconn _ _ _ I). lia.
  - rewrite Hi, n_calls_snoc, Hc, (i_id _ _ _ I). reflexivity.
  - rewrite Hp, map_app. simpl. apply NoDup_app_intro; [apply I | repeat constructor; simpl; tauto |].
    intros y Hy [<-|[]]. apply in_map_iff in Hy. destruct Hy as [q [E Hq]].
    apply (proj1 (find_pending_None _ _) Hfind q Hq E).
  - rewrite Hp, map_app. simpl. apply NoDup_app_intro; [apply I | repeat constructor; simpl; tauto |].
    intros y Hy [<-|[]]. apply in_map_iff in Hy. destruct Hy as [q [E Hq]].
    pose proof (i_sid_lt _ _ _ I q Hq). lia.
  - intros q Hin. rewrite Hp in Hin. apply in_app_iff in Hin. rewrite Hs. destruct Hin as [Hin|[<-|[]]].
    + pose proof (i_sid_lt _ _ _ I q Hin). lia.
    + simpl. lia.
  - intros m. rewrite waiting_snoc by apply I. rewrite Hf, filter_mem_nil, Hc. rewrite Hp. unfold pend_entries.
    rewrite find_pending_app. simpl. rewrite Hd.
    destruct (bname_eqb n m) eqn:E.
    + apply bname_eqb_eq in E. subst m. rewrite Hfind. simpl.
      rewrite (inv_find_none_waiting cf st tr I n Hfind). reflexivity.
    + simpl. rewrite app_nil_r. pose proof (i_ledger _ _ _ I m) as L. unfold pend_entries in L.
      destruct (find_pending m (st_pend st)); exact L.
  - intros q Hin. rewrite Hp in Hin. apply in_app_iff in Hin. destruct Hin as [Hin|[<-|[]]].
    + apply (i_nonempty _ _ _ I q Hin).
    + simpl. discriminate.
  - intros q Hin. rewrite Hp in Hin. apply in_app_iff in Hin. destruct Hin as [Hin|[<-|[]]].
    + destruct (i_wk _ _ _ I q Hin) as [k E]. eapply Hown'; eauto. apply (i_unowned _ _ _ I q Hin).
    + simpl. destruct Hwk as [k E]. eapply Hown'; eauto.
  - intros q Hin. rewrite Hp in Hin. apply in_app_iff in Hin. destruct Hin as [Hin|[<-|[]]].
    + apply (i_wk _ _ _ I q Hin).
    + simpl. exact Hwk.
  - rewrite Hsv. apply I.
Qed.

(* a step that answers and removes whole pending activations: those with [g] false *)
Lemma inv_remove cf st tr e o st' (g : pending -> bool) :
  Inv cf st tr ->
  call_of (n_calls tr) e = [] -> is_connect e = false -> (forall c, live_step c (n_connects tr) e (live tr c) = live tr c) ->
  NoDup (fates o) ->
  (forall i, In i (fates o) <-> exists q, In q st.(st_pend) /\ g q = false /\ In i (ids_of q)) ->
  st'.(st_pend) = filter g st.(st_pend) -> st'.(st_next_sid) = st.(st_next_sid) -> st'.(st_next_id) = st.(st_next_id) ->
  st'.(st_conns) = st.(st_conns) -> st'.(st_next_conn) = st.(st_next_conn) ->
  (forall q, In q st.(st_pend) -> g q = true -> owner_of st' q.(p_name) = None) ->
  st'.(st_services) = st.(st_services) ->
  Inv cf st' (tr ++ [(e, o)]).
Proof.
  intros I Hc E1 E2 Hnd Hf Hp Hs Hi Hconn Hn Ho Hsv.
  assert (forall i, In i (fates o) -> In i (all_ids st.(st_pend))) as Hsub.
  { intros i Hin. apply Hf in Hin. destruct Hin as [q [H1 [_ H2]]]. unfold all_ids. apply in_flat_map. exists q. tauto. }
  destruct (fated_ok_table tr e o st.(st_pend) (i_fated_lt _ _ _ I) (i_fated_nodup _ _ _ I) (inv_unfated cf st tr I) Hnd Hsub) as [F1 F2].
  constructor; auto.
  - intros x. unfold connected. rewrite Hconn. rewrite live_snoc, E2. apply I.
  - rewrite Hn, n_connects_snoc, E1, (i_nconn _ _ _ I). lia.
  - rewrite Hi, n_calls_snoc, Hc, (i_id _ _ _ I). unfold nlen. simpl. lia.
  - rewrite Hp. apply NoDup_map_filter. apply I.
  - rewrite Hp. apply NoDup_map_filter. apply I.
  - intros q Hin. rewrite Hp in Hin. apply filter_In in Hin. rewrite Hs. apply (i_sid_lt _ _ _ I q). tauto.
  - intros m. rewrite waiting_snoc by apply I. rewrite Hc. simpl. rewrite app_nil_r.
    rewrite Hp. unfold pend_entries. rewrite find_pending_filter by apply I.
    destruct (find_pending m st.(st_pend)) as [pm|] eqn:F.
    + apply find_pending_In in F as F'. destruct F' as [Hin Hname].
      pose proof (inv_ids_of cf st tr I pm Hin) as Hids. rewrite Hname in Hids.
      destruct (g pm) eqn:G.
      * rewrite filter_all.
        -- pose proof (i_ledger _ _ _ I m) as L. unfold pend_entries in L. rewrite F in L. exact L.
        -- intros c Hcw. apply negb_true_iff. apply mem_false. intros Hin'. apply Hf in Hin'.
           destruct Hin' as [q [H1 [H2 H3]]].
           assert (q <> pm) by (intros ->; congruence).
           eapply (inv_ids_disjoint cf st tr I q pm); eauto. rewrite Hids. apply in_map. exact Hcw.
      * rewrite filter_none; [reflexivity|].
        intros c Hcw. apply negb_false_iff. apply mem_In. apply Hf. exists pm. repeat split; auto.
        rewrite Hids. apply in_map. exact Hcw.
    + rewrite (inv_find_none_waiting cf st tr I m F). reflexivity.
  - intros q Hin. rewrite Hp in Hin. apply filter_In in Hin. apply (i_nonempty _ _ _ I q). tauto.
  - intros q Hin. rewrite Hp in Hin. apply filter_In in Hin. apply Ho; tauto.
  - intros q Hin. rewrite Hp in Hin. apply filter_In in Hin. apply (i_wk _ _ _ I q). tauto.
  - rewrite Hsv. apply I.
Qed.

(* ---------------------------------------------------------------- the cases of bus_activation_activate_service *)
Lemma activate_cases cf st c id s n auto cl st' o :
  activate cf st c id s n auto cl = (st', o) ->
  (st' = st /\ fates o = [id] /\ (forall x, In x o -> is_spawn x = false))
  \/ (exists p sv, find_pending n st.(st_pend) = Some p /\ find_service st n = Some sv /\
        st' = set_pend st (add_entry n (mkEntry id c s auto cl) st.(st_pend)) /\ o = [])
  \/ (exists sv, find_pending n st.(st_pend) = None /\ find_service st n = Some sv /\
        st' = mkState st.(st_conns) st.(st_next_conn) st.(st_owners)
                      (st.(st_pend) ++ [mkPending n sv.(sv_exec) st.(st_next_sid) [mkEntry id c s auto cl]])
                      (st.(st_next_sid) + 1) st.(st_next_id) st.(st_services) st.(st_fdok) st.(st_replies) /\
        o = [OSpawn st.(st_next_sid) n sv.(sv_exec)] /\ (auto = false -> owner_of st n = None)).
Proof.
  unfold activate. intros H.
  destruct (max_pending cf <=? n_pending (st_pend st)).
  { inversion H; subst. left. repeat split. intros x [<-|[]]. reflexivity. }
  destruct (find_service st n) as [sv|] eqn:Fs.
  2:{ inversion H; subst. left. repeat split. intros x [<-|[]]. reflexivity. }
  destruct (auto && negb (pol_activate cf n cl)).
  { inversion H; subst. left. repeat split. intros x [<-|[]]. reflexivity. }
  destruct (negb auto && match owner_of st n with Some _ => true | None => false end) eqn:Eo.
  { inversion H; subst. left. repeat split. intros x [<-|[]]. reflexivity. }
  destruct (find_pending n (st_pend st)) as [p|] eqn:Fp.
  { inversion H; subst. right. left. exists p, sv. repeat split. }
  destruct (sv_parse_ok sv).
  - inversion H; subst. right. right. exists sv. repeat split.
    intros ->. simpl in Eo. destruct (owner_of st n); [discriminate | reflexivity].
  - inversion H; subst. left. repeat split. intros x [<-|[]]. reflexivity.
Qed.

Lemma find_service_wk st n sv : wk_list st.(st_services) -> find_service st n = Some sv -> exists k, n = Wk k.
Proof.
  intros W H. unfold find_service in H. apply find_some in H. destruct H as [H1 H2].
  apply bname_eqb_eq in H2. destruct (W sv H1) as [k E]. exists k. congruence.
Qed.

(* a call handed to activate *)
Lemma inv_activate cf st tr e c s n auto cl st' o :
  Inv cf st tr ->
  call_of (n_calls tr) e = [mkCall (n_calls tr) c s n auto cl] ->
  (auto = true -> owner_of st n = None) ->
  activate cf (bump_id st) c (n_calls tr) s n auto cl = (st', o) ->
  Inv cf st' (tr ++ [(e, o)]).
Proof.
  intros I Hc Hown H. apply activate_cases in H. destruct H as [[-> [Hf _]] | [[p [sv [Fp [Fs [-> ->]]]]] | [sv [Fp [Fs [-> [-> Ho]]]]]]].
  - eapply inv_call_immediate; eauto; try reflexivity. rewrite Hc. discriminate.
  - eapply (inv_call_join cf st tr e [] _ (mkCall (n_calls tr) c s n auto cl) n p); eauto; reflexivity.
  - eapply (inv_call_new cf st tr e _ _ (mkCall (n_calls tr) c s n auto cl) n (sv_exec sv)); eauto; try reflexivity.
    + destruct auto; [apply Hown; reflexivity | apply (Ho eq_refl)].
    + eapply (find_service_wk (bump_id st)); eauto. apply I.
Qed.

(* ---------------------------------------------------------------- every step preserves the invariant *)
Lemma NoDup_filter' {A} (f : A -> bool) l : NoDup l -> NoDup (filter f l).
Proof.
  induction l as [|x l IH]; simpl; intros H; [constructor|].
  inversion H; subst. destruct (f x); [|auto]. constructor; [|auto].
  intros Hin. apply filter_In in Hin. tauto.
Qed.

Lemma pending_wk_not_uq cf st tr c : Inv cf st tr -> find_pending (Uq c) st.(st_pend) = None.
Proof.
  intros I. apply find_pending_None. intros p Hp E. destruct (i_wk _ _ _ I p Hp) as [k Hk]. congruence.
Qed.

Lemma owned_not_pending cf st tr k o : Inv cf st tr -> assoc k st.(st_owners) = Some o -> find_pending (Wk k) st.(st_pend) = None.
Proof.
  intros I Ho. destruct (find_pending (Wk k) st.(st_pend)) as [p|] eqn:F; [|reflexivity].
  apply find_pending_In in F. destruct F as [Hp Hn].
  pose proof (i_unowned _ _ _ I p Hp) as U. rewrite Hn in U. simpl in U. congruence.
Qed.

Lemma step_connect cf st tr fd : Inv cf st tr ->
  Inv cf (fst (step cf st (EConnect fd))) (tr ++ [(EConnect fd, snd (step cf st (EConnect fd)))]).
Proof.
  intros I. simpl. unfold created. simpl. rewrite (pending_wk_not_uq cf st tr _ I).
  eapply inv_frame; eauto; try reflexivity.
  - intros c. unfold connected. simpl. rewrite existsb_app. simpl. rewrite orb_false_r.
    rewrite (i_nconn _ _ _ I). rewrite (N.eqb_sym c). reflexivity.
  - eapply unowned_assoc; eauto.
Qed.

Lemma step_disconnect cf st tr c : Inv cf st tr ->
  Inv cf (fst (step cf st (EDisconnect c))) (tr ++ [(EDisconnect c, snd (step cf st (EDisconnect c)))]).
Proof.
  intros I. simpl. eapply inv_frame; eauto; try reflexivity.
  - intros x. unfold connected. simpl. apply existsb_eqb_filter.
  - simpl. lia.
  - eapply unowned_assoc; eauto. intros k. simpl. apply assoc_filter_none.
Qed.

Lemma step_release cf st tr c s k : Inv cf st tr ->
  Inv cf (fst (step cf st (ERelease c s k))) (tr ++ [(ERelease c s k, snd (step cf st (ERelease c s k)))]).
Proof.
  intros I. simpl.
  destruct (connected st c); [|simpl; eapply inv_frame; eauto; try reflexivity; [simpl; lia | eapply unowned_assoc; eauto]].
  destruct (assoc k (st_owners st)) as [o|]; [destruct (o =? c)|]; simpl;
    (eapply inv_frame; eauto; try reflexivity; [simpl; lia | eapply unowned_assoc; eauto]).
  intros k'. simpl. apply assoc_filter_none.
Qed.

Lemma step_send cf st tr c s d na cl : Inv cf st tr ->
  Inv cf (fst (step cf st (ESend c s d na cl))) (tr ++ [(ESend c s d na cl, snd (step cf st (ESend c s d na cl)))]).
Proof.
  intros I. simpl. rewrite (i_id _ _ _ I).
  destruct (connected st c).
  2:{ simpl. eapply inv_call_immediate; eauto; try reflexivity. discriminate. }
  unfold send.
  change (owner_of (bump_id st) d) with (owner_of st d).
  destruct (owner_of st d) as [o|] eqn:Ho.
  { destruct (deliver cf (names_of (st_owners (bump_id st)) o) (fd_capable (bump_id st) o) (st_replies (bump_id st)) o (n_calls tr) c s cl) as [rp x] eqn:D.
    simpl. eapply inv_call_immediate; eauto; try reflexivity; [discriminate|].
    unfold fates. simpl. rewrite app_nil_r.
    pose proof (deliver_fate cf (names_of (st_owners (bump_id st)) o) (fd_capable (bump_id st) o) (st_replies (bump_id st)) o (n_calls tr) c s cl) as F.
    rewrite D in F. exact F. }
  destruct na.
  { simpl. eapply inv_call_immediate; eauto; try reflexivity. discriminate. }
  destruct (activate cf (bump_id st) c (n_calls tr) s d true cl) as [st' o] eqn:A. simpl.
  eapply inv_activate; eauto. reflexivity.
Qed.

Lemma step_start cf st tr c s n : Inv cf st tr ->
  Inv cf (fst (step cf st (EStart c s n))) (tr ++ [(EStart c s n, snd (step cf st (EStart c s n)))]).
Proof.
  intros I. simpl. rewrite (i_id _ _ _ I).
  destruct (connected st c).
  2:{ simpl. eapply inv_call_immediate; eauto; try reflexivity. discriminate. }
  destruct (activate cf (bump_id st) c (n_calls tr) s n false 0) as [st' o] eqn:A. simpl.
  eapply inv_activate; eauto; [reflexivity | discriminate].
Qed.

Lemma ids_of_nodup cf st tr p : Inv cf st tr -> In p st.(st_pend) -> NoDup (ids_of p).
Proof. intros I Hp. rewrite (inv_ids_of cf st tr I p Hp). apply waiting_nodup. Qed.

Lemma step_request cf st tr c s k : Inv cf st tr ->
  Inv cf (fst (step cf st (ERequest c s k))) (tr ++ [(ERequest c s k, snd (step cf st (ERequest c s k)))]).
Proof.
  intros I. simpl.
  destruct (connected st c); [|simpl; eapply inv_frame; eauto; try reflexivity; [simpl; lia | eapply unowned_assoc; eauto]].
  destruct (assoc k (st_owners st)) as [o|] eqn:Ho.
  - unfold resolve. rewrite (owned_not_pending cf st tr k o I Ho). simpl.
    eapply inv_frame; eauto; try reflexivity; [simpl; lia | eapply unowned_assoc; eauto].
  - unfold resolve, created. simpl.
    destruct (find_pending (Wk k) (st_pend st)) as [p|] eqn:F; simpl.
    + apply find_pending_In in F as F'. destruct F' as [Hp Hname].
      match goal with |- context [replay_outs cf ?s1 c p] => set (st1 := s1) end.
      pose proof (fates_replay cf st1 c p) as FR. change (answered_in_created st1) with (answered_in_created st) in FR.
      destruct (replay_outs cf st1 c p) as [rp ro] eqn:R. cbn [snd] in FR. simpl.
      eapply (inv_remove cf st tr _ _ _ (fun q => negb (bname_eqb (p_name q) (Wk k)))); eauto; try reflexivity.
      * rewrite !fates_app, fates_created, FR. simpl. rewrite app_nil_r.
        apply (nodup_split_filter e_id (answered_in_created st) (p_entries p)). apply (ids_of_nodup cf st tr p I Hp).
      * intros i. rewrite !fates_app, fates_created, FR. simpl. rewrite app_nil_r.
        rewrite (in_split_filter e_id (answered_in_created st) (p_entries p) i). split.
        -- intros Hi. exists p. repeat split; auto. rewrite Hname, bname_eqb_refl. reflexivity.
        -- intros [q [Hq [G Hi]]]. apply negb_false_iff, bname_eqb_eq in G.
           assert (find_pending (Wk k) (st_pend st) = Some q) as F2 by (apply find_pending_unique; auto; apply I).
           rewrite F in F2. inversion F2; subst. exact Hi.
      * intros q Hq G. apply negb_true_iff, bname_eqb_neq in G.
        destruct (i_wk _ _ _ I q Hq) as [k' E]. rewrite E in *. simpl.
        assert (k =? k' = false) as -> by (apply N.eqb_neq; congruence).
        pose proof (i_unowned _ _ _ I q Hq) as U. rewrite E in U. exact U.
    + eapply inv_frame; eauto; try reflexivity; [simpl; lia|].
      intros q Hq. destruct (i_wk _ _ _ I q Hq) as [k' E]. rewrite E. simpl.
      assert (k =? k' = false) as ->.
      { apply N.eqb_neq. intros ->. apply (proj1 (find_pending_None _ _) F q Hq). exact E. }
      pose proof (i_unowned _ _ _ I q Hq) as U. rewrite E in U. exact U.
Qed.

Lemma step_timeout cf st tr sid : Inv cf st tr ->
  Inv cf (fst (step cf st (ETimeout sid))) (tr ++ [(ETimeout sid, snd (step cf st (ETimeout sid)))]).
Proof.
  intros I. simpl.
  destruct (find_sid sid (st_pend st)) as [p|] eqn:F; simpl.
  2:{ eapply inv_frame; eauto; try reflexivity; [simpl; lia | eapply unowned_assoc; eauto]. }
  apply find_sid_In in F. destruct F as [Hp Hsid].
  eapply (inv_remove cf st tr _ _ _ (fun q => negb (p_sid q =? sid))); eauto; try reflexivity.
  - simpl. rewrite fates_fail. apply (ids_of_nodup cf st tr p I Hp).
  - intros i. simpl. rewrite fates_fail. split.
    + intros Hi. exists p. repeat split; auto. rewrite Hsid, N.eqb_refl. reflexivity.
    + intros [q [Hq [G Hi]]]. apply negb_false_iff, N.eqb_eq in G.
      assert (q = p) by (eapply (NoDup_map_inj p_sid); eauto; [apply I | congruence]). subst q. exact Hi.
  - intros q Hq _. apply (i_unowned _ _ _ I q Hq).
Qed.

Lemma step_child cf st tr sid r : Inv cf st tr ->
  Inv cf (fst (step cf st (EChild sid r))) (tr ++ [(EChild sid r, snd (step cf st (EChild sid r)))]).
Proof.
  intros I. simpl.
  destruct (find_sid sid (st_pend st)) as [p|] eqn:F; simpl.
  2:{ eapply inv_frame; eauto; try reflexivity; [simpl; lia | eapply unowned_assoc; eauto]. }
  destruct (child_error r) as [er|]; simpl.
  2:{ eapply inv_frame; eauto; try reflexivity; [simpl; lia | eapply unowned_assoc; eauto]. }
  apply find_sid_In in F. destruct F as [Hp Hsid].
  set (same := filter (fun q => p_exec q =? p_exec p) (st_pend st)).
  set (others := filter (fun q => negb (p_sid q =? sid)) same).
  assert (forall q, In q (others ++ [p]) <-> In q (st_pend st) /\ (p_exec q =? p_exec p) = true) as Hmem.
  { intros q. rewrite in_app_iff. unfold others, same. rewrite !filter_In. simpl. split.
    - intros [[[H1 H2] _]|[<-|[]]]; [tauto | split; [exact Hp | apply N.eqb_refl]].
    - intros [H1 H2]. destruct (p_sid q =? sid) eqn:E; [|left; tauto].
      right. left. apply N.eqb_eq in E. eapply (NoDup_map_inj p_sid); eauto; [apply I | congruence]. }
  assert (fates (flat_map (fail_outs st er) (others ++ [p])) = flat_map ids_of (others ++ [p])) as Hfates.
  { rewrite fates_flat_map. apply flat_map_ext. intros q. apply fates_fail. }
  eapply (inv_remove cf st tr _ _ _ (fun q => negb (p_exec q =? p_exec p))); eauto; try reflexivity.
  - rewrite Hfates. apply (NoDup_flat_map_sub ids_of (st_pend st)).
    + apply (inv_all_ids_nodup cf st tr I).
    + apply (inv_pend_nodup cf st tr I).
    + apply NoDup_app_intro.
      * unfold others, same. apply NoDup_filter', NoDup_filter'. apply (inv_pend_nodup cf st tr I).
      * repeat constructor. simpl. tauto.
      * intros q Hq [<-|[]]. unfold others in Hq. apply filter_In in Hq. destruct Hq as [_ Hq].
        rewrite Hsid, N.eqb_refl in Hq. discriminate.
    + intros q Hq. apply Hmem in Hq. tauto.
  - intros i. rewrite Hfates. rewrite in_flat_map. split.
    + intros [q [Hq Hi]]. apply Hmem in Hq. exists q. repeat split; try tauto. destruct Hq as [_ ->]. reflexivity.
    + intros [q [Hq [G Hi]]]. exists q. split; [|exact Hi]. apply Hmem. split; [exact Hq|]. apply negb_false_iff in G. exact G.
  - intros q Hq _. apply (i_unowned _ _ _ I q Hq).
Qed.

Lemma step_reload cf st tr c s : Inv cf st tr ->
  Inv cf (fst (step cf st (EReload c s))) (tr ++ [(EReload c s, snd (step cf st (EReload c s)))]).
Proof.
  intros I. simpl. destruct (connected st c); simpl;
    (eapply inv_frame; eauto; try reflexivity; [simpl; lia | eapply unowned_assoc; eauto]).
Qed.

Lemma step_setservices cf st tr l : wk_list l -> Inv cf st tr ->
  Inv cf (fst (step cf st (ESetServices l))) (tr ++ [(ESetServices l, snd (step cf st (ESetServices l)))]).
Proof.
  intros W I. simpl. eapply inv_frame_gen; eauto; try reflexivity; [simpl; lia | eapply unowned_assoc; eauto].
Qed.

Theorem step_inv cf st tr e : wk_event e -> Inv cf st tr ->
  Inv cf (fst (step cf st e)) (tr ++ [(e, snd (step cf st e))]).
Proof.
  intros W I. destruct e.
  - apply step_connect; auto.
  - apply step_send; auto.
  - apply step_start; auto.
  - apply step_request; auto.
  - apply step_release; auto.
  - apply step_disconnect; auto.
  - apply step_child; auto.
  - apply step_timeout; auto.
  - apply step_reload; auto.
  - apply step_setservices; auto.
Qed.

Theorem run_trace_inv cf h : forall st tr, wk_history h -> Inv cf st tr ->
  Inv cf (fst (run_trace cf st tr h)) (snd (run_trace cf st tr h)).
Proof.
  induction h as [|e h IH]; intros st tr W I; simpl; [exact I|].
  assert (wk_event e) as We by (apply W; left; reflexivity).
  pose proof (step_inv cf st tr e We I) as S. destruct (step cf st e) as [st1 o]. simpl in S.
  apply IH; auto. intros e' He'. apply W. right. exact He'.
Qed.

Corollary reachable_inv cf h : wk_services cf -> wk_history h ->
  Inv cf (fst (run_trace cf (start cf) [] h)) (snd (run_trace cf (start cf) [] h)).
Proof. intros W Wh. apply run_trace_inv; auto. apply inv_start. exact W. Qed.
