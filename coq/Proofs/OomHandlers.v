(* The handlers of Oom.Handlers are safe (Proofs.OomGeneric.safe) on every
   request class that Spec.OomSpec.uncovered does not exclude. *)
From DV Require Import Spec.OomSpec Proofs.OomGeneric Proofs.OomLists Proofs.OomInv.
Local Open Scope N_scope.

(* ---- programs that only allocate, stage and read ----------------------------------- *)
Inductive pure {A} : prog A -> Prop :=
| pure_ret a : pure (Ret a)
| pure_alloc k : pure k -> pure (Alloc k)
| pure_stage o k : pure k -> pure (Stage o k)
| pure_get k : (forall b, pure (k b)) -> pure (Get k).

Lemma pure_bind A B (p : prog A) (f : A -> prog B) : pure p -> (forall a, pure (f a)) -> pure (bind p f).
Proof. induction 1; simpl; intros Hf; try constructor; auto. Qed.

Lemma safe_bind_pure R b0 A B (p : prog A) (f : A -> prog B) b hs :
  pure p -> (forall a, safe R b0 b hs (f a)) -> safe R b0 b hs (bind p f).
Proof. induction 1; simpl; intros Hf; try constructor; auto. Qed.

Lemma pure_safe R b0 A (p : prog A) b hs : pure p -> safe R b0 b hs p.
Proof. induction 1; constructor; auto. Qed.

Lemma pure_allocs n : pure (allocs n).
Proof. induction n; simpl; constructor; auto. Qed.

Lemma pure_alloc1 : pure alloc.
Proof. repeat constructor. Qed.

Lemma pure_stage1 o : pure (stage o).
Proof. repeat constructor. Qed.

Lemma pure_stage_all rs m : pure (stage_all rs m).
Proof.
  induction rs as [|r more IH]; simpl; [constructor|]. constructor. exact IH.
Qed.

Lemma pure_broadcast sg m : pure (broadcast sg m).
Proof.
  unfold broadcast, get. simpl. constructor. intros b.
  apply pure_bind; [apply pure_allocs|]. intros _. apply pure_stage_all.
Qed.

Lemma pure_send_from_driver act c m : pure (send_from_driver act c m).
Proof.
  unfold send_from_driver. apply pure_bind; [apply pure_alloc1|]. intros _.
  apply pure_bind; [destruct act; [apply pure_alloc1|constructor]|]. intros _. apply pure_stage1.
Qed.

Lemma pure_send_noc k o n : pure (send_noc k o n).
Proof. unfold send_noc. apply pure_bind; [apply pure_allocs|]. intros _. apply pure_broadcast. Qed.

Lemma pure_send_acquired c k : pure (send_acquired c k).
Proof. unfold send_acquired. apply pure_bind; [apply pure_allocs|]. intros _. apply pure_send_from_driver. Qed.

Lemma pure_send_reply c m : pure (send_reply c m).
Proof. unfold send_reply. apply pure_bind; [apply pure_allocs|]. intros _. apply pure_send_from_driver. Qed.

Lemma pure_send_ack c : pure (send_ack c).
Proof. unfold send_ack. apply pure_bind; [apply pure_alloc1|]. intros _. apply pure_send_from_driver. Qed.

(* re-associate binds under [safe] (no functional extensionality needed) *)
Lemma bind_ret_inv A B (p : prog A) (f : A -> prog B) x : bind p f = Ret x -> exists a, p = Ret a /\ f a = Ret x.
Proof. destruct p; simpl; intros H; try discriminate. eauto. Qed.

Lemma safe_bind_assoc R b0 A B C (p : prog A) (f : A -> prog B) (g : B -> prog C) :
  forall b hs, safe R b0 b hs (bind p (fun a => bind (f a) g)) -> safe R b0 b hs (bind (bind p f) g).
Proof.
  induction p as [a|e| |k IH|o k IH|k IH|a k IH]; intros b hs H; simpl in *; auto.
  - inversion H; subst. constructor. apply IH; assumption.
  - inversion H; subst. constructor. apply IH; assumption.
  - inversion H; subst. constructor. apply IH; assumption.
  - inversion H; subst.
    + eapply safe_act; eauto.
    + match goal with Hx : Ret _ = bind k _ |- _ => symmetry in Hx; apply bind_ret_inv in Hx; destruct Hx as (a1 & -> & Hy) end.
      simpl. apply bind_ret_inv in Hy. destruct Hy as (b1 & -> & Hy). simpl. rewrite Hy. eapply safe_last; eauto.
Qed.

(* ---- the undo equations of the hooked state changes --------------------------------------- *)
Section Undo.
  Variable b : bus.

  Lemma undo_create k c flags b' hs :
    do_action (ACreateOwn k c flags) b = Some (b', hs) -> cancel_all hs b' = Some b.
  Proof.
    simpl. destruct (lookup (b_services b) k) eqn:El; [discriminate|]. intros H; inversion H; subst; clear H.
    simpl. rewrite (lookup_app_new _ _ _ El). simpl. unfold is_conn at 1. simpl. rewrite N.eqb_refl. simpl.
    rewrite (del_service_app _ _ _ El), own_del_add. destruct b; reflexivity.
  Qed.

  Lemma undo_add_owner k c flags b' hs :
    do_action (AAddOwner k c flags) b = Some (b', hs) -> cancel_all hs b' = Some b.
  Proof.
    simpl. destruct (lookup (b_services b) k) as [[|h t]|] eqn:El; try discriminate.
    destruct (find_owner (h :: t) c) eqn:Ef; [discriminate|]. intros H; inversion H; subst; clear H.
    pose proof (find_owner_none_existsb _ _ Ef) as Hex.
    assert (Hnew : is_conn c (new_owner c flags) = true) by (unfold is_conn; simpl; apply N.eqb_refl).
    simpl. rewrite own_del_add.
    destruct (has_flag flags DBUS_NAME_FLAG_REPLACE_EXISTING).
    - rewrite (lookup_set_queue _ _ _ _ El).
      simpl in Hex. apply orb_false_iff in Hex. destruct Hex as [_ Ht].
      rewrite (remove_last_second (is_conn c) h (new_owner c flags) t Hnew Ht). simpl.
      rewrite (set_queue_undo _ _ _ _ El). destruct b; reflexivity.
    - rewrite (lookup_set_queue _ _ _ _ El).
      change (h :: t ++ [new_owner c flags]) with ((h :: t) ++ [new_owner c flags]).
      rewrite (remove_last_app_hit (is_conn c) (h :: t) (new_owner c flags) Hnew). simpl.
      rewrite (set_queue_undo _ _ _ _ El). destruct b; reflexivity.
  Qed.

  Lemma undo_remove_primary k b' hs :
    inv b -> do_action (ARemovePrimary k) b = Some (b', hs) -> cancel_all hs b' = Some b.
  Proof.
    intros Hinv. simpl. destruct (lookup (b_services b) k) as [[|p rest]|] eqn:El; try discriminate.
    intros H; inversion H; subst; clear H. destruct Hinv as [_ Hkeys].
    simpl. unfold restore_ownership. destruct rest as [|n r]; simpl.
    - rewrite (lookup_del_same _ _ Hkeys).
      replace (insert_at (slot_of (b_services b) k) (k, [p]) (del_service (b_services b) k)) with (b_services b)
        by (symmetry; apply (insert_at_slot _ _ _ El)).
      destruct b; reflexivity.
    - rewrite (lookup_set_queue _ _ _ _ El). simpl. rewrite N.eqb_refl.
      rewrite (set_queue_undo _ _ _ _ El). destruct b; reflexivity.
  Qed.

  Lemma undo_swap k b' hs :
    inv b -> do_action (ASwap k) b = Some (b', hs) -> cancel_all hs b' = Some b.
  Proof.
    intros Hinv. simpl. destruct (lookup (b_services b) k) as [[|p [|n rest]]|] eqn:El; try discriminate.
    intros H; inversion H; subst; clear H.
    destruct (inv_lookup _ _ _ Hinv El) as (_ & _ & Hnd). simpl in Hnd.
    inversion Hnd as [|? ? Hp Hnd2]; subst. inversion Hnd2 as [|? ? Hn Hnd3]; subst.
    simpl. unfold restore_ownership. simpl. rewrite (lookup_set_queue _ _ _ _ El).
    assert (Hrest : existsb (is_conn (o_conn p)) rest = false) by (apply notin_existsb_conn; intros Hx; apply Hp; right; exact Hx).
    assert (Hpp : is_conn (o_conn p) p = true) by (unfold is_conn; apply N.eqb_refl).
    rewrite (remove_last_second (is_conn (o_conn p)) n p rest Hpp Hrest).
    simpl. rewrite N.eqb_refl. rewrite (set_queue_undo _ _ _ _ El). destruct b; reflexivity.
  Qed.

  Lemma undo_add_rule c r b' hs :
    do_action (AAddRule c r) b = Some (b', hs) -> cancel_all hs b' = Some b.
  Proof.
    simpl. intros H; inversion H; subst; clear H. simpl. rewrite rules_del_add. destruct b; reflexivity.
  Qed.

  Lemma undo_expect p b' hs :
    do_action (AExpect p) b = Some (b', hs) -> cancel_all hs b' = Some b.
  Proof.
    simpl. intros H; inversion H; subst; clear H. simpl. rewrite pend_eqb_refl. simpl. destruct b; reflexivity.
  Qed.

  Lemma undo_consume p b' hs :
    do_action (AConsume p) b = Some (b', hs) -> exists bc, cancel_all hs b' = Some bc /\ same_state bc b.
  Proof.
    simpl. destruct (existsb (pend_eqb p) (b_pending b)) eqn:Ex; [|discriminate].
    intros H; inversion H; subst; clear H. simpl. eexists; split; [reflexivity|].
    destruct b; unfold same_state; simpl. repeat split; auto. apply remove_first_perm; exact Ex.
  Qed.
End Undo.

Lemma same_state_refl b : same_state b b.
Proof. unfold same_state; repeat split; auto. Qed.

Section Classes.
  (* any reflexive notion of "same state": the undo of every class below is exact *)
  Variable R : bus -> bus -> Prop.
  Hypothesis Rrefl : forall x, R x x.

(* ---- the handlers, class by class ------------------------------------------------------------- *)
(* all state changes so far were undone exactly: the stack is empty and the bus is the prior state *)
Ltac pure_step := first [ apply pure_allocs | apply pure_alloc1 | apply pure_stage1 | apply pure_send_noc | apply pure_send_acquired
                        | apply pure_send_reply | apply pure_send_ack | apply pure_send_from_driver | apply pure_broadcast | apply pure_stage_all ].

Lemma safe_prelude b0 (p : prog unit) : safe R b0 b0 [] p -> safe R b0 b0 [] (allocs 3 ;;; p).
Proof. intros H. apply safe_bind_pure; [apply pure_allocs|]. intros _; exact H. Qed.

Lemma undoes_eq b0 : undoes R b0 [] b0.
Proof. exists b0; simpl; split; [reflexivity|apply Rrefl]. Qed.

(* AddMatch *)
Lemma safe_add_match b0 cn r :
  find_conn (b_conns b0) (c_id cn) = Some cn ->
  safe R b0 b0 [] (not_yet cn (add_match cn r)).
Proof.
  intros Hf. unfold not_yet. destruct (c_active cn); [|constructor].
  unfold add_match, get. simpl. constructor.
  destruct (b_maxrules b0 <=? nlen (c_rules cn)); [constructor|].
  repeat apply safe_alloc.
  destruct (do_action (AAddRule (c_id cn) r) b0) as [[b' hs]|] eqn:Ed; [|discriminate].
  eapply safe_act; [exact Ed| |].
  - rewrite app_nil_r. exists b0. split; [apply (undo_add_rule b0 _ _ _ _ Ed)|apply Rrefl].
  - apply pure_safe. apply pure_send_ack.
Qed.

(* RemoveMatch *)
Lemma safe_remove_match b0 cn r :
  find_conn (b_conns b0) (c_id cn) = Some cn ->
  safe R b0 b0 [] (not_yet cn (remove_match cn r)).
Proof.
  intros Hf. unfold not_yet. destruct (c_active cn); [|constructor].
  unfold remove_match.
  apply safe_bind_pure; [apply pure_allocs|]. intros _.
  destruct (existsb (N.eqb r) (c_rules cn)) eqn:Ex; [|constructor].
  apply safe_bind_pure; [apply pure_send_ack|]. intros _.
  unfold act. eapply safe_last. simpl. rewrite Hf, Ex. reflexivity.
Qed.

(* signal *)
Lemma safe_signal b0 c m : safe R b0 b0 [] (signal c m).
Proof. apply pure_safe. unfold signal. apply pure_broadcast. Qed.

(* method call *)
Lemma safe_call b0 c d tag :
  inv b0 -> safe R b0 b0 [] (call c d tag).
Proof.
  intros Hinv. unfold call, get. simpl. constructor.
  destruct (lookup (b_services b0) (dest_key d)) as [[|p q]|] eqn:El.
  - destruct (inv_lookup _ _ _ Hinv El) as (Hne & _). congruence.
  - destruct (inv_lookup _ _ _ Hinv El) as (_ & Hlive & _). simpl in Hlive. apply andb_true_iff in Hlive. destruct Hlive as [Hp _].
    rewrite Hp. simpl.
    destruct (existsb (pend_eqb (mkPend c (o_conn p) tag)) (b_pending b0)); [constructor|].
    destruct (b_maxreplies b0 <=? count_caller (b_pending b0) c); [constructor|].
    repeat apply safe_alloc.
    destruct (do_action (AExpect (mkPend c (o_conn p) tag)) b0) as [[b' hs]|] eqn:Ed; [|discriminate].
    eapply safe_act; [exact Ed| |].
    + rewrite app_nil_r. exists b0. split; [apply (undo_expect b0 _ _ _ Ed)|apply Rrefl].
    + repeat constructor.
  - constructor.
Qed.

(* Hello on a connection that already said Hello *)
Lemma safe_hello_again b0 cn : c_active cn = true -> safe R b0 b0 [] (hello cn).
Proof. intros H. unfold hello. rewrite H. constructor. Qed.

Lemma pure_send_lost c k : pure (send_lost c k).
Proof. unfold send_lost. apply pure_bind; [apply pure_allocs|]. intros _. apply pure_send_from_driver. Qed.

(* bus_service_remove_owner on the primary owner, followed by anything that changes no state *)
Lemma safe_remove_primary B b0 b hs k p rest (cont : unit -> prog B) :
  inv b -> lookup (b_services b) k = Some (p :: rest) -> undoes R b0 hs b -> (forall u, pure (cont u)) ->
  safe R b0 b hs (bind (remove_owner k (p :: rest) (o_conn p)) cont).
Proof.
  intros Hinv El Hun Hc. unfold remove_owner. rewrite N.eqb_refl.
  apply safe_bind_assoc. apply safe_bind_pure; [apply pure_send_lost|]. intros _.
  apply safe_bind_assoc. apply safe_bind_pure.
  { destruct rest; [apply pure_send_noc|]. apply pure_bind; [apply pure_send_noc|]. intros _. apply pure_send_acquired. }
  intros _. unfold add_restore, act. simpl. repeat apply safe_alloc.
  destruct (do_action (ARemovePrimary k) b) as [[b' hs']|] eqn:Ed.
  - eapply safe_act; [exact Ed| |].
    + apply (undoes_step R b0 hs hs' b b'); [apply (undo_remove_primary b k b' hs' Hinv Ed)|exact Hun].
    + apply pure_safe. apply Hc.
  - simpl in Ed. rewrite El in Ed. discriminate.
Qed.

(* bus_service_swap_owner *)
Lemma safe_swap_primary B b0 b hs k p n rest (cont : unit -> prog B) :
  inv b -> lookup (b_services b) k = Some (p :: n :: rest) -> undoes R b0 hs b -> (forall u, pure (cont u)) ->
  safe R b0 b hs (bind (swap_owner k (p :: n :: rest) (o_conn p)) cont).
Proof.
  intros Hinv El Hun Hc. unfold swap_owner. rewrite N.eqb_refl.
  apply safe_bind_assoc. apply safe_bind_pure; [apply pure_send_lost|]. intros _.
  apply safe_bind_assoc. apply safe_bind_pure; [apply pure_send_noc|]. intros _.
  apply safe_bind_assoc. apply safe_bind_pure; [apply pure_send_acquired|]. intros _.
  unfold add_restore, act. simpl. repeat apply safe_alloc.
  destruct (do_action (ASwap k) b) as [[b' hs']|] eqn:Ed.
  - eapply safe_act; [exact Ed| |].
    + apply (undoes_step R b0 hs hs' b b'); [apply (undo_swap b k b' hs' Hinv Ed)|exact Hun].
    + apply pure_safe. apply Hc.
  - simpl in Ed. rewrite El in Ed. discriminate.
Qed.

(* ReleaseName, covered classes *)
Lemma safe_release b0 cn name :
  inv b0 ->
  find_conn (b_conns b0) (c_id cn) = Some cn ->
  uncovered b0 (EvRelease (c_id cn) name) = false ->
  safe R b0 b0 [] (not_yet cn (release_name cn name)).
Proof.
  intros Hinv Hf Hun. unfold uncovered in Hun. rewrite Hf in Hun.
  unfold not_yet. destruct (c_active cn); [|constructor]. simpl in Hun.
  unfold release_name, release_service.
  destruct (name_refused name) eqn:Er; [constructor|]. simpl in Hun.
  unfold get. simpl. constructor.
  destruct (lookup (b_services b0) (KW name)) as [[|p rest]|] eqn:El.
  - destruct (inv_lookup _ _ _ Hinv El) as (Hne & _). congruence.
  - destruct (inv_lookup _ _ _ Hinv El) as (_ & Hlive & _). unfold all_live. rewrite Hlive. cbn [negb].
    destruct (o_conn p =? c_id cn) eqn:Ep.
    + (* the owner lets go of the name *)
      apply N.eqb_eq in Ep. rewrite <- Ep. simpl find_owner. rewrite N.eqb_refl.
      apply safe_bind_assoc. apply safe_remove_primary; auto; [apply undoes_eq|].
      intros u. simpl. apply pure_send_reply.
    + simpl find_owner in *. rewrite Ep in *.
      destruct (find_owner rest (c_id cn)); [discriminate|]. simpl. apply pure_safe. apply pure_send_reply.
  - simpl. apply pure_safe. apply pure_send_reply.
Qed.

(* RequestName, covered classes *)
Lemma safe_request b0 cn name flags :
  inv b0 ->
  find_conn (b_conns b0) (c_id cn) = Some cn ->
  uncovered b0 (EvRequest (c_id cn) name flags) = false ->
  safe R b0 b0 [] (not_yet cn (request_name cn name flags)).
Proof.
  intros Hinv Hf Hun. unfold uncovered in Hun. rewrite Hf in Hun.
  unfold not_yet. destruct (c_active cn) eqn:Ea; [|constructor]. simpl in Hun.
  unfold request_name, acquire_service.
  destruct (name_refused name) eqn:Er; [constructor|]. simpl in Hun.
  unfold get. simpl. constructor.
  destruct ((b_maxnames b0 <=? nlen (c_owned cn)) && negb (in_queue (b_services b0) (KW name) (c_id cn))) eqn:Elim; [constructor|].
  simpl in Hun.
  destruct (lookup (b_services b0) (KW name)) as [[|p w]|] eqn:El.
  - destruct (inv_lookup _ _ _ Hinv El) as (Hne & _). congruence.
  - destruct (inv_lookup _ _ _ Hinv El) as (_ & Hlive & _). unfold all_live. rewrite Hlive. simpl negb. cbv iota.
    destruct (o_conn p =? c_id cn) eqn:Eown.
    + (* the caller owns the name and asks for the flags it already has *)
      apply negb_false_iff in Hun. simpl.
      assert (Hd : do_action (ASetFlags (KW name) flags) b0 = Some (b0, [])).
      { simpl. rewrite El. rewrite (same_flags_set _ _ Hun). rewrite (set_queue_same _ _ _ El). rewrite with_services_id. reflexivity. }
      eapply safe_act; [exact Hd| |].
      * apply undoes_eq.
      * simpl. apply pure_safe. apply pure_send_reply.
    + destruct ((has_flag flags DBUS_NAME_FLAG_DO_NOT_QUEUE && negb (o_allow p)) || (has_flag flags DBUS_NAME_FLAG_DO_NOT_QUEUE && negb (has_flag flags DBUS_NAME_FLAG_REPLACE_EXISTING))) eqn:Eex.
      * (* EXISTS *)
        destruct (find_owner (p :: w) (c_id cn)) eqn:Efo; [discriminate|].
        simpl. apply pure_safe. apply pure_send_reply.
      * destruct (negb (has_flag flags DBUS_NAME_FLAG_DO_NOT_QUEUE) && (negb (has_flag flags DBUS_NAME_FLAG_REPLACE_EXISTING) || negb (o_allow p))) eqn:Eq; cycle 1.
        { (* the owner is replaced: the caller is queued behind it, then the owner is removed or swapped *)
          destruct (find_owner (p :: w) (c_id cn)) as [o|] eqn:Efo; [discriminate|].
          assert (Hrepl : has_flag flags DBUS_NAME_FLAG_REPLACE_EXISTING = true).
          { destruct (has_flag flags DBUS_NAME_FLAG_DO_NOT_QUEUE), (has_flag flags DBUS_NAME_FLAG_REPLACE_EXISTING), (o_allow p); simpl in *; congruence. }
          unfold add_owner. rewrite Efo. simpl. repeat apply safe_alloc.
          destruct (do_action (AAddOwner (KW name) (c_id cn) flags) b0) as [[b1 hs1]|] eqn:Ed; cycle 1.
          { simpl in Ed. rewrite El, Efo in Ed. discriminate. }
          assert (Hun1 : undoes R b0 (hs1 ++ []) b1).
          { rewrite app_nil_r. exists b0; split; [apply (undo_add_owner b0 _ _ _ _ _ Ed)|apply Rrefl]. }
          pose proof (do_action_inv _ _ _ _ Hinv Ed) as Hinv1.
          assert (El1 : lookup (b_services b1) (KW name) = Some (p :: new_owner (c_id cn) flags :: w)).
          { simpl in Ed. rewrite El, Efo, Hrepl in Ed. inversion Ed; subst. simpl. apply (lookup_set_queue _ _ _ _ El). }
          eapply safe_act; [exact Ed|exact Hun1|].
          apply safe_get. rewrite El1.
          apply safe_bind_assoc.
          destruct (o_dnq p).
          - apply safe_remove_primary; auto. intros u. simpl. apply pure_send_reply.
          - apply safe_swap_primary; auto. intros u. simpl. apply pure_send_reply. }
        (* IN_QUEUE *)
        unfold add_owner.
        destruct (find_owner (p :: w) (c_id cn)) as [o|] eqn:Efo.
        -- apply negb_false_iff in Hun. apply andb_true_iff in Hun. destruct Hun as [Hrepl Hsame]. apply negb_true_iff in Hrepl.
           simpl.
           assert (Hd : do_action (AMoveRefresh (KW name) (c_id cn) flags) b0 = Some (b0, [])).
           { simpl. rewrite El. rewrite Efo. rewrite Hrepl.
             rewrite (refresh_first_same _ _ _ _ Efo (same_flags_set _ _ Hsame)). rewrite (set_queue_same _ _ _ El). rewrite with_services_id. reflexivity. }
           eapply safe_act; [exact Hd| |].
           ++ apply undoes_eq.
           ++ simpl. apply pure_safe. apply pure_send_reply.
        -- simpl. repeat apply safe_alloc.
           destruct (do_action (AAddOwner (KW name) (c_id cn) flags) b0) as [[b' hs]|] eqn:Ed.
           ++ eapply safe_act; [exact Ed | rewrite app_nil_r; exists b0; split; [apply (undo_add_owner b0 _ _ _ _ _ Ed)|apply Rrefl] | apply pure_safe; apply pure_send_reply].
           ++ simpl in Ed. rewrite El, Efo in Ed. discriminate.
  - (* a new name *)
    simpl. repeat apply safe_alloc. apply safe_get.
    apply safe_bind_assoc. apply safe_bind_assoc.
    apply safe_bind_pure; [apply pure_bind; [apply pure_allocs|intros _; apply pure_stage_all]|]. intros _.
    simpl. repeat first [apply safe_alloc | apply safe_stage].
    destruct (do_action (ACreateOwn (KW name) (c_id cn) flags) b0) as [[b' hs]|] eqn:Ed.
    + eapply safe_act; [exact Ed | rewrite app_nil_r; exists b0; split; [apply (undo_create b0 _ _ _ _ _ Ed)|apply Rrefl] | apply pure_safe; apply pure_send_reply].
    + simpl in Ed. rewrite El in Ed. discriminate.
Qed.
End Classes.

(* reply *)
Lemma safe_reply b0 c j tag ie :
  inv b0 -> safe same_state b0 b0 [] (reply c j tag ie).
Proof.
  intros Hinv. unfold reply, get. simpl. constructor.
  destruct (lookup (b_services b0) (KU j)) as [[|p q]|] eqn:El.
  - destruct (inv_lookup _ _ _ Hinv El) as (Hne & _). congruence.
  - destruct (inv_lookup _ _ _ Hinv El) as (_ & Hlive & _). simpl in Hlive. apply andb_true_iff in Hlive. destruct Hlive as [Hp _].
    rewrite Hp. simpl.
    destruct (existsb (pend_eqb (mkPend (o_conn p) c tag)) (b_pending b0)) eqn:Ex; [|constructor].
    repeat apply safe_alloc.
    destruct (do_action (AConsume (mkPend (o_conn p) c tag)) b0) as [[b' hs]|] eqn:Ed.
    + eapply safe_act; [exact Ed| |].
      * rewrite app_nil_r. apply (undo_consume b0 _ _ _ Ed).
      * repeat constructor.
    + simpl in Ed. rewrite Ex in Ed. discriminate.
  - constructor.
Qed.
