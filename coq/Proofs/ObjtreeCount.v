(* C20 proofs, part 9: the number of unregister callbacks run by
   free_subtree_recurse equals the number of registered paths, for every history
   (together with C20_free_all_members: each registered handler exactly once). *)
From DV Require Import Lib.Base ObjTree.ObjTree ObjTree.Dispatch Spec.ObjtreeSpec Spec.ObjtreeSpecDispatch
  Proofs.ObjtreeOrder Proofs.ObjtreeProofs Proofs.ObjtreeMisc.
From Coq Require Import Arith.
Local Open Scope nat_scope.

Definition hcount (n : node) : nat := length (free_all n).
Definition kcount (l : list node) : nat := length (free_kids l).

Lemma kcount_app l1 l2 : kcount (l1 ++ l2) = kcount l1 + kcount l2.
Proof.
  unfold kcount. induction l1 as [|k l1 IH]; simpl; auto. rewrite !app_length, IH. lia.
Qed.

Lemma kcount_cons k l : kcount (k :: l) = hcount k + kcount l.
Proof. unfold kcount, hcount. simpl. rewrite app_length. lia. Qed.

Lemma hcount_node nm h fb kids : hcount (Node nm h fb kids) = kcount kids + match h with Some _ => 1 | None => 0 end.
Proof. unfold hcount, kcount. rewrite free_all_eq, app_length. destruct h; reflexivity. Qed.

Lemma kcount_mid l1 c l2 : kcount (l1 ++ c :: l2) = kcount l1 + hcount c + kcount l2.
Proof. rewrite kcount_app, kcount_cons. lia. Qed.

Lemma register_count : forall p n fb h n' ok, wf n ->
  register_rec n p fb h = Ok (n', ok) -> hcount n' = hcount n + (if ok then 1 else 0).
Proof.
  induction p as [|e r IH]; intros n fb h n' ok W E.
  - destruct n as [nm hd fl kids]. simpl in E. destruct hd; inversion E; subst; rewrite !hcount_node; lia.
  - destruct n as [nm hd fl kids]. pose proof (wf_inv _ W) as (Hs & Hw & _). simpl in Hs, Hw. simpl in E.
    pose proof (find_child_spec e kids Hs) as CS.
    inversion CS as [l1 c l2 Ekids Ename Efc | l1 l2 Ekids F1 F2 Efc]; subst kids; rewrite <- Efc in E.
    + destruct (Forall_mid _ _ _ _ Hw) as (_ & Hwc & _).
      destruct (register_rec c r fb h) as [[c' ok']| |] eqn:Er; try discriminate. inversion E; subst.
      rewrite replace_at_split, !hcount_node, !kcount_mid. rewrite (IH c fb h c' ok Hwc Er). lia.
    + destruct (register_rec (node_new e) r fb h) as [[c' ok']| |] eqn:Er; try discriminate. inversion E; subst.
      rewrite insert_at_split, !hcount_node, kcount_mid, kcount_app.
      rewrite (IH (node_new e) fb h c' ok ltac:(constructor; constructor) Er). unfold node_new. rewrite hcount_node. simpl. lia.
Qed.

Lemma unregister_count : forall p n n' freed cont', wf n ->
  unregister_rec n p true = Ok (n', freed, cont') -> hcount n' + (if freed then 1 else 0) = hcount n.
Proof.
  induction p as [|e r IH]; intros n n' freed cont' W E.
  - destruct n as [nm hd fl kids]. simpl in E. destruct hd; inversion E; subst; rewrite !hcount_node; lia.
  - destruct n as [nm hd fl kids]. pose proof (wf_inv _ W) as (Hs & Hw & _). simpl in Hs, Hw. simpl in E.
    pose proof (find_child_spec e kids Hs) as CS.
    inversion CS as [l1 c l2 Ekids Ename Efc | l1 l2 Ekids F1 F2 Efc]; subst kids; rewrite <- Efc in E.
    + destruct (Forall_mid _ _ _ _ Hw) as (_ & Hwc & _).
      destruct (unregister_rec c r true) as [[[c' fr] ct]| |] eqn:Er; try discriminate.
      pose proof (IH c c' fr ct Hwc Er) as Hc. rewrite replace_at_split in E.
      destruct (fr && ct) eqn:Eb.
      * unfold attempt_child_removal in E. rewrite nth_error_middle in E.
        destruct (nkids c') as [|k0 ks] eqn:Ek; [destruct (nhandler c') eqn:Eh|]; inversion E; subst;
          rewrite ?remove_at_split, !hcount_node, ?kcount_mid, ?kcount_app; try lia.
        destruct c' as [nm' hd' fl' kids']. simpl in Ek, Eh. subst. rewrite hcount_node in Hc. simpl in Hc. lia.
      * inversion E; subst. rewrite !hcount_node, !kcount_mid. lia.
    + inversion E; subst. simpl. lia.
Qed.

(* flat map: distinct keys, so unregistering removes exactly one entry *)
Definition keys_nodup (s : sstate) : Prop := NoDup (map fst s).

Lemma s_lookup_none_notin s p : s_lookup s p = None -> ~ In p (map fst s).
Proof.
  induction s as [|[k r] s IH]; simpl; [tauto|]. destruct (path_eqb k p) eqn:E; [discriminate|].
  intros H [Hk|Hin]; [subst; rewrite path_eqb_refl in E; discriminate | apply IH; auto].
Qed.

Lemma filter_removes_one s p : keys_nodup s -> s_lookup s p <> None ->
  length (filter (fun e => negb (path_eqb (fst e) p)) s) + 1 = length s.
Proof.
  unfold keys_nodup. induction s as [|[k r] s IH]; simpl; [congruence|]. intros Hn Hl. inversion Hn; subst.
  destruct (path_eqb k p) eqn:E; simpl.
  - apply path_eqb_eq in E; subst k.
    assert (Hf : filter (fun e => negb (path_eqb (fst e) p)) s = s).
    { clear -H1. induction s as [|[k r0] s IH]; simpl; auto. simpl in H1.
      rewrite path_eqb_neq by (intros ->; apply H1; left; reflexivity). simpl. rewrite IH; auto. }
    rewrite Hf. lia.
  - rewrite IH; auto.
Qed.

Lemma keys_nodup_step s o : keys_nodup s -> keys_nodup (fst (s_step s o)).
Proof.
  unfold keys_nodup. intros H. destruct o as [fb p h | p]; simpl.
  - destruct (s_lookup s p) eqn:E; simpl; auto. constructor; auto. apply s_lookup_none_notin; auto.
  - destruct (s_lookup s p) as [reg|] eqn:E; simpl; auto. clear E reg. induction s as [|[k r] s IH]; simpl; auto.
    inversion H; subst. destruct (negb (path_eqb k p)); simpl; auto. constructor; auto.
    intros Hin. apply H2. apply in_map_iff in Hin. destruct Hin as (x & Hx & Hf). apply filter_In in Hf.
    apply in_map_iff. exists x. tauto.
Qed.

Lemma count_step t s o : refines t s -> keys_nodup s -> hcount t = length s ->
  exists t' b, step t o = Ok (t', b) /\ refines t' (fst (s_step s o)) /\ hcount t' = length (fst (s_step s o)).
Proof.
  intros R Hk Hc. destruct (step_refines t s o R) as (t' & b & E & Eb & R'). exists t', b. repeat split; auto.
  - destruct R'; auto.
  - destruct R'; auto.
  - destruct R as [W A]. destruct o as [fb p h | p]; simpl in *.
    + unfold tree_register in E. rewrite (register_count p t fb h t' b W E).
      destruct (s_lookup s p); simpl in *; subst b; simpl; lia.
    + unfold tree_unregister in E. destruct (unregister_rec t p true) as [[[t1 fr] ct]| |] eqn:Eu; try discriminate.
      inversion E; subst t1 fr. pose proof (unregister_count p t t' b ct W Eu) as Hu.
      destruct (s_lookup s p) eqn:El; simpl in *; subst b.
      * pose proof (filter_removes_one s p Hk ltac:(congruence)). lia.
      * lia.
Qed.

Lemma count_run : forall ops t s, refines t s -> keys_nodup s -> hcount t = length s ->
  exists t', run_from t ops = Ok t' /\ hcount t' = length (s_run_from s ops).
Proof.
  induction ops as [|o ops IH]; intros t s R Hk Hc; simpl; [eauto|].
  destruct (count_step t s o R Hk Hc) as (t' & b & -> & R' & Hc'). apply IH; auto. apply keys_nodup_step; auto.
Qed.

Lemma free_all_count ops : exists t, run ops = Ok t /\ length (free_all t) = length (s_run ops).
Proof. apply (count_run ops tree_new []); [apply refines_init | constructor | reflexivity]. Qed.
